package fmtappx

import (
	"archive/zip"
	"bytes"
	"context"
	"crypto"
	"encoding/hex"
	"errors"
	"fmt"
	"io"
	"net/url"
	"os"
	"path/filepath"
	"regexp"
	"time"

	"github.com/sassoftware/relic/v8/lib/audit"
	"github.com/sassoftware/relic/v8/lib/authenticode"
	"github.com/sassoftware/relic/v8/lib/certloader"
	"github.com/sassoftware/relic/v8/lib/pkcs7"
	"github.com/sassoftware/relic/v8/lib/signappx"
	"github.com/sassoftware/relic/v8/lib/zipslicer"
	"github.com/sassoftware/relic/v8/signers"
	"github.com/sassoftware/relic/v8/signers/appx"
)

func repoDir() string {
	if r := os.Getenv("VERIF_REPO"); r != "" {
		return r
	}
	return "/repo"
}

func loadCert() (*certloader.Certificate, error) {
	repo := repoDir()
	return certloader.LoadX509KeyPair(filepath.Join(repo, "functest/testkeys/rsa2048.crt"), filepath.Join(repo, "functest/testkeys/rsa2048.key"))
}

func guard(f func() error) (err error, pan string) {
	defer func() {
		if p := recover(); p != nil {
			pan = fmt.Sprint(p)
		}
	}()
	return f(), ""
}

// realSign runs relic's own pipeline exactly like `relic sign`: Transform.GetReader -> Signer.Sign -> Transformer.Apply.
// wrap may change how the upload stream is split into reads.
func realSign(cert *certloader.Certificate, inPath, outPath string, wrap func(io.Reader) io.Reader) (err error, pan string) {
	return guard(func() error {
		mod := appx.AppxSigner
		flags, err := mod.FlagsFromQuery(url.Values{})
		if err != nil {
			return err
		}
		opts := signers.SignOpts{Path: inPath, Hash: crypto.SHA256, Time: time.Unix(1700000000, 0), Flags: flags, Audit: audit.New("rsa2048", mod.Name, crypto.SHA256)}
		opts = opts.WithContext(context.Background())
		in, err := os.Open(inPath)
		if err != nil {
			return err
		}
		defer in.Close()
		tr, err := mod.GetTransform(in, opts)
		if err != nil {
			return fmt.Errorf("transform: %w", err)
		}
		stream, err := tr.GetReader()
		if err != nil {
			return fmt.Errorf("reader: %w", err)
		}
		if wrap != nil {
			stream = wrap(stream)
		}
		blob, err := mod.Sign(stream, cert, opts)
		if err != nil {
			return fmt.Errorf("sign: %w", err)
		}
		if err := tr.Apply(outPath, opts.Audit.GetMimeType(), bytes.NewReader(blob)); err != nil {
			return fmt.Errorf("apply: %w", err)
		}
		return nil
	})
}

// realVerify: relic's verifier on a file
func realVerify(path string) (sig *signappx.AppxSignature, err error, pan string) {
	err, pan = guard(func() error {
		f, err := os.Open(path)
		if err != nil {
			return err
		}
		defer f.Close()
		st, err := f.Stat()
		if err != nil {
			return err
		}
		s, err := signappx.Verify(f, st.Size(), false)
		sig = s
		return err
	})
	return
}

func realVerifyBytes(b []byte) (err error, pan string) {
	return guard(func() error {
		_, err := signappx.Verify(bytes.NewReader(b), int64(len(b)), false)
		return err
	})
}

var calcRe = regexp.MustCompile(`calculated ([0-9a-f]+) != found`)

// verifierMeta: the AXPC and AXCD values relic's verifier computes from a file, obtained by letting verifyMeta compare
// them with an impossible expectation and reading the calculated value from its error.
func verifierMeta(b []byte) (axpc, axcd string, errs []string) {
	sig := &signappx.AppxSignature{Hash: crypto.SHA256, HashValues: map[string][]byte{"AXPC": {0}, "AXCD": {0}}}
	err, pan := guard(func() error { return signappx.VerifVerifyMeta(bytes.NewReader(b), int64(len(b)), sig, false) })
	if pan != "" {
		errs = append(errs, "panic: "+pan)
	} else if err != nil {
		if m := calcRe.FindStringSubmatch(err.Error()); m != nil && bytes.Contains([]byte(err.Error()), []byte("zip contents")) {
			axpc = m[1]
		} else {
			errs = append(errs, err.Error())
		}
	}
	err, pan = guard(func() error { return signappx.VerifVerifyMeta(bytes.NewReader(b), int64(len(b)), sig, true) })
	if pan != "" {
		errs = append(errs, "panic: "+pan)
	} else if err != nil {
		if m := calcRe.FindStringSubmatch(err.Error()); m != nil && bytes.Contains([]byte(err.Error()), []byte("zip directory")) {
			axcd = m[1]
		} else {
			errs = append(errs, err.Error())
		}
	}
	return
}

// embedded: what the signature member of a file carries: relic's parse of the digest blob and the raw blob itself
func embedded(b []byte) (vals map[string]string, blob string, err error, pan string) {
	err, pan = guard(func() error {
		zr, err := zip.NewReader(bytes.NewReader(b), int64(len(b)))
		if err != nil {
			return err
		}
		var zf *zip.File
		for _, f := range zr.File {
			if f.Name == "AppxSignature.p7x" {
				zf = f
			}
		}
		if zf == nil {
			return errors.New("no signature member")
		}
		sig, err := signappx.VerifReadSignature(zf)
		if err != nil {
			return err
		}
		vals = map[string]string{}
		for k, v := range sig.HashValues {
			vals[k] = hex.EncodeToString(v)
		}
		rc, err := zf.Open()
		if err != nil {
			return err
		}
		p7x, err := io.ReadAll(rc)
		rc.Close()
		if err != nil {
			return err
		}
		psd, err := pkcs7.Unmarshal(p7x[4:])
		if err != nil {
			return err
		}
		ind := new(authenticode.SpcIndirectDataContentMsi)
		if err := psd.Content.ContentInfo.Unmarshal(ind); err != nil {
			return err
		}
		blob = hex.EncodeToString(ind.MessageDigest.Digest)
		return nil
	})
	return
}

// signBlob: a PKCX signature member over an arbitrary digest blob (relic's authenticode code only wraps it in PKCS#7)
func signBlob(cert *certloader.Certificate, blob []byte) ([]byte, error) {
	sip := authenticode.SpcSipInfo{A: 0x1010000, UUID: signappx.SpcUUIDSipInfoAppx}
	ts, err := authenticode.SignSip(context.Background(), blob, crypto.SHA256, sip, cert, nil)
	if err != nil {
		return nil, err
	}
	return append([]byte("PKCX"), ts.Raw...), nil
}

// a security catalog signed by cert (opaque to the APPX layer; verifyCatalog only checks the signer)
func makeCatalog(cert *certloader.Certificate) ([]byte, error) {
	cat := authenticode.NewCatalog(crypto.SHA256)
	ts, err := cat.Sign(context.Background(), cert, nil)
	if err != nil {
		return nil, err
	}
	return ts.Raw, nil
}

// teeRecorder records what AddFile writes to its `raw` writer (the AXPC hash input)
type teeRecorder struct{ bytes.Buffer }

// addFileObs: AddFile of relic's block map on every member of a zip, in random-access mode and in streaming (tar) mode with
// a read-size script; returns per member the bytes fed to `raw`, block hashes and recorded size.
type addObs struct {
	Name   string   `json:"name"`
	Raw    string   `json:"raw,omitempty"` // hex of what reached the raw writer (short members only)
	RawLen int      `json:"raw_len"`
	RawSha string   `json:"raw_sha"`
	Size   uint64   `json:"size"`
	Hashes []string `json:"hashes"`
	Listed bool     `json:"listed"`
	Err    string   `json:"err,omitempty"`
	Panic  string   `json:"panic,omitempty"`
}

func addFileAll(zipb []byte, stream bool, script []int) (out []addObs, derr string) {
	var dir *zipslicer.Directory
	var err error
	if !stream {
		dir, err = zipslicer.Read(bytes.NewReader(zipb), int64(len(zipb)))
	} else {
		loc, e := zipslicer.FindDirectory(bytes.NewReader(zipb), int64(len(zipb)))
		if e != nil {
			return nil, e.Error()
		}
		dir, err = zipslicer.ReadStream(&scriptReader{data: zipb, script: script}, int64(len(zipb)), zipb[loc:])
	}
	if err != nil {
		return nil, err.Error()
	}
	for _, f := range dir.File {
		var rec teeRecorder
		o := addObs{Name: f.Name}
		e, pan := guard(func() error {
			size, hashes, listed, err := signappx.VerifBlockMapAddFile(f, crypto.SHA256, &rec, nil)
			o.Size, o.Hashes, o.Listed = size, hashes, listed
			return err
		})
		if e != nil {
			o.Err = e.Error()
		}
		o.Panic = pan
		o.RawLen = rec.Len()
		o.RawSha = shaHex(rec.Bytes())
		if rec.Len() <= 512 {
			o.Raw = hex.EncodeToString(rec.Bytes())
		}
		out = append(out, o)
		if e != nil || pan != "" {
			break
		}
	}
	return
}

// scriptReader delivers at most script[k] (at least 1) bytes on the k-th Read; afterwards it fills the buffer.
type scriptReader struct {
	data   []byte
	pos    int
	script []int
	k      int
}

func (r *scriptReader) Read(p []byte) (int, error) {
	if r.pos >= len(r.data) {
		return 0, io.EOF
	}
	if len(p) == 0 {
		return 0, nil
	}
	n := len(p)
	if r.k < len(r.script) {
		s := r.script[r.k]
		if s < 1 {
			s = 1
		}
		if s < n {
			n = s
		}
		r.k++
	}
	if n > len(r.data)-r.pos {
		n = len(r.data) - r.pos
	}
	copy(p, r.data[r.pos:r.pos+n])
	r.pos += n
	return n, nil
}

// scriptWrap: reader wrapper delivering at most script[k%len] bytes per Read
type cycleReader struct {
	r      io.Reader
	script []int
	k      int
}

func (c *cycleReader) Read(p []byte) (int, error) {
	if len(c.script) > 0 && len(p) > 0 {
		s := c.script[c.k%len(c.script)]
		c.k++
		if s < 1 {
			s = 1
		}
		if s < len(p) {
			p = p[:s]
		}
	}
	return c.r.Read(p)
}

// fixtureMember: uncompressed content of one member of the functest APPX fixture
func fixtureMember(name string) ([]byte, error) {
	zr, err := zip.OpenReader(filepath.Join(repoDir(), "functest/packages/App1_1.0.3.0_x64.appx"))
	if err != nil {
		return nil, err
	}
	defer zr.Close()
	for _, f := range zr.File {
		if f.Name == name {
			rc, err := f.Open()
			if err != nil {
				return nil, err
			}
			defer rc.Close()
			return io.ReadAll(rc)
		}
	}
	return nil, errors.New("fixture member not found: " + name)
}
