// Package fmtappx: harness-owned APPX / MSIX writer, block map, content types and a specification-level signer
// (nothing here uses relic's zip or appx writers; only the PKCS#7 blob is produced by relic's authenticode code).
package fmtappx

import (
	"bytes"
	"compress/flate"
	"crypto/sha256"
	"encoding/base64"
	"encoding/binary"
	"fmt"
	"hash/crc32"
	"strings"
)

const blockSize = 64 * 1024

// Member is one zip member as the harness lays it out.
type Member struct {
	Name    string
	Method  uint16 // 0 = stored, 8 = deflated
	Data    []byte // uncompressed content
	Raw     []byte // bytes stored in the archive (compressed stream, possibly with a tail)
	BSizes  []int  // compressed size of every 64 KiB block (deflated members; what MakeAppx records)
	Desc    int    // 0: no data descriptor, 16: signature + 32-bit sizes, 24: signature + 64-bit sizes
	Extra   []byte // local and central extra field
	Style   string // how Raw was produced
	CRC     uint32
	USize   uint64 // uncompressed size recorded in the directory (normally len(Data))
	Offset  int
	LfhLen  int
	Total   int
	Comment string
}

// deflate styles
const (
	StyleStored   = "stored"
	StyleGo       = "go"       // compress/flate, last data block is the final block
	StyleMakeAppx = "makeappx" // every 64 KiB block followed by a sync flush, stream ended by a separate empty final block 03 00
	StyleLevel0   = "level0"   // stored deflate blocks (exercises the direct-read path under the inflater), then 03 00
	StyleTrail    = "trail"    // makeappx followed by bytes that belong to no deflate block
	StyleOneBlock = "oneblock" // a single sync flush at the very end, then 03 00
)

func newMember(name string, data []byte, style string, desc int, trail int) *Member {
	m := &Member{Name: name, Data: data, Style: style, Desc: desc, CRC: crc32.ChecksumIEEE(data), USize: uint64(len(data))}
	switch style {
	case StyleStored:
		m.Method = 0
		m.Raw = data
	case StyleGo:
		m.Method = 8
		var b bytes.Buffer
		fw, _ := flate.NewWriter(&b, 9)
		fw.Write(data)
		fw.Close()
		m.Raw = b.Bytes()
		// no per-block boundary exists in such a stream; record an even split of the compressed size (what a packer
		// without sync flushes would have to invent); relic only copies these numbers
		nb := (len(data) + blockSize - 1) / blockSize
		for i := 0; i < nb; i++ {
			m.BSizes = append(m.BSizes, len(m.Raw)/nb)
		}
	case StyleMakeAppx, StyleTrail, StyleLevel0, StyleOneBlock:
		m.Method = 8
		var b bytes.Buffer
		level := 9
		if style == StyleLevel0 {
			level = 0
		}
		fw, _ := flate.NewWriter(&b, level)
		for off := 0; off < len(data); off += blockSize {
			end := off + blockSize
			if end > len(data) {
				end = len(data)
			}
			before := b.Len()
			fw.Write(data[off:end])
			if style != StyleOneBlock || end == len(data) {
				fw.Flush()
			}
			m.BSizes = append(m.BSizes, b.Len()-before)
		}
		if style == StyleOneBlock && len(m.BSizes) > 1 {
			// no flush between the blocks, so there is no per-block boundary: record an even split (never 0) as a packer would have to
			tot, nb := b.Len(), len(m.BSizes)
			for i := range m.BSizes {
				m.BSizes[i] = tot / nb
			}
			m.BSizes[nb-1] = tot - (nb-1)*(tot/nb)
		}
		b.Write([]byte{0x03, 0x00})
		for i := 0; i < trail; i++ {
			b.WriteByte(byte(0xa5 + i))
		}
		m.Raw = b.Bytes()
	default:
		panic("unknown style " + style)
	}
	return m
}

func le16(b *bytes.Buffer, v uint16) { _ = binary.Write(b, binary.LittleEndian, v) }
func le32(b *bytes.Buffer, v uint32) { _ = binary.Write(b, binary.LittleEndian, v) }
func le64(b *bytes.Buffer, v uint64) { _ = binary.Write(b, binary.LittleEndian, v) }

const (
	dosTime = 0x6a33 // 13:17:38
	dosDate = 0x4a6b // 2017-03-11
)

func (m *Member) readerVersion() uint16 {
	if m.Desc == 24 {
		return 45
	}
	return 20
}

func (m *Member) flags() uint16 {
	if m.Desc != 0 {
		return 8
	}
	return 0
}

// local: local header ++ raw ++ descriptor
func (m *Member) local() []byte {
	var b bytes.Buffer
	le32(&b, 0x04034b50)
	le16(&b, m.readerVersion())
	le16(&b, m.flags())
	le16(&b, m.Method)
	le16(&b, dosTime)
	le16(&b, dosDate)
	if m.Desc != 0 {
		le32(&b, 0)
		le32(&b, 0)
		le32(&b, 0)
	} else {
		le32(&b, m.CRC)
		le32(&b, uint32(len(m.Raw)))
		le32(&b, uint32(m.USize))
	}
	le16(&b, uint16(len(m.Name)))
	le16(&b, uint16(len(m.Extra)))
	b.WriteString(m.Name)
	b.Write(m.Extra)
	m.LfhLen = b.Len()
	b.Write(m.Raw)
	switch m.Desc {
	case 16:
		le32(&b, 0x08074b50)
		le32(&b, m.CRC)
		le32(&b, uint32(len(m.Raw)))
		le32(&b, uint32(m.USize))
	case 24:
		le32(&b, 0x08074b50)
		le32(&b, m.CRC)
		le64(&b, uint64(len(m.Raw)))
		le64(&b, m.USize)
	}
	m.Total = b.Len()
	return b.Bytes()
}

func (m *Member) central() []byte {
	var b bytes.Buffer
	le32(&b, 0x02014b50)
	le16(&b, 45)
	le16(&b, m.readerVersion())
	le16(&b, m.flags())
	le16(&b, m.Method)
	le16(&b, dosTime)
	le16(&b, dosDate)
	le32(&b, m.CRC)
	le32(&b, uint32(len(m.Raw)))
	le32(&b, uint32(m.USize))
	le16(&b, uint16(len(m.Name)))
	le16(&b, uint16(len(m.Extra)))
	le16(&b, uint16(len(m.Comment)))
	le16(&b, 0)
	le16(&b, 0)
	le32(&b, 0)
	le32(&b, uint32(m.Offset))
	b.WriteString(m.Name)
	b.Write(m.Extra)
	b.WriteString(m.Comment)
	return b.Bytes()
}

// endRecords: ZIP64 end record + locator + saturated end record (what MakeAppx and relic write), or a plain end record
func endRecords(count, cdSize, cdOff int, zip64 bool) []byte {
	var b bytes.Buffer
	if zip64 {
		le32(&b, 0x06064b50)
		le64(&b, 44)
		le16(&b, 45)
		le16(&b, 45)
		le32(&b, 0)
		le32(&b, 0)
		le64(&b, uint64(count))
		le64(&b, uint64(count))
		le64(&b, uint64(cdSize))
		le64(&b, uint64(cdOff))
		le32(&b, 0x07064b50)
		le32(&b, 0)
		le64(&b, uint64(cdOff+cdSize))
		le32(&b, 1)
		le32(&b, 0x06054b50)
		le16(&b, 0)
		le16(&b, 0)
		le16(&b, 0xffff)
		le16(&b, 0xffff)
		le32(&b, 0xffffffff)
		le32(&b, 0xffffffff)
		le16(&b, 0)
	} else {
		le32(&b, 0x06054b50)
		le16(&b, 0)
		le16(&b, 0)
		le16(&b, uint16(count))
		le16(&b, uint16(count))
		le32(&b, uint32(cdSize))
		le32(&b, uint32(cdOff))
		le16(&b, 0)
	}
	return b.Bytes()
}

// BuildZip lays the members out back to back from offset 0 and appends the directory.
func BuildZip(ms []*Member, zip64 bool) []byte {
	var b bytes.Buffer
	for _, m := range ms {
		m.Offset = b.Len()
		b.Write(m.local())
	}
	cdOff := b.Len()
	for _, m := range ms {
		b.Write(m.central())
	}
	cdSize := b.Len() - cdOff
	b.Write(endRecords(len(ms), cdSize, cdOff, zip64))
	return b.Bytes()
}

func xmlAttr(s string) string {
	r := strings.NewReplacer("&", "&amp;", "<", "&lt;", ">", "&gt;", "\"", "&quot;", "\t", "&#x9;", "\n", "&#xA;", "\r", "&#xD;")
	return r.Replace(s)
}

// BlockMapXML: the AppxBlockMap.xml of the given members in order, written from the AppxBlockMap schema:
// one File per member (DOS path separators, uncompressed size, local header size), one Block per 64 KiB of uncompressed
// data with the base64 SHA-256 of that block; Size (compressed size of the block) only for deflated members.
func BlockMapXML(ms []*Member, dropSizesFrom int) []byte {
	var b strings.Builder
	b.WriteString("<?xml version=\"1.0\" encoding=\"UTF-8\" standalone=\"no\"?>\r\n")
	b.WriteString("<BlockMap xmlns=\"http://schemas.microsoft.com/appx/2010/blockmap\" HashMethod=\"http://www.w3.org/2001/04/xmlenc#sha256\">")
	for k, m := range ms {
		fmt.Fprintf(&b, "<File Name=\"%s\" Size=\"%d\" LfhSize=\"%d\">", xmlAttr(strings.ReplaceAll(m.Name, "/", "\\")), len(m.Data), 30+len(m.Name)+len(m.Extra))
		for i, off := 0, 0; off < len(m.Data); i, off = i+1, off+blockSize {
			end := off + blockSize
			if end > len(m.Data) {
				end = len(m.Data)
			}
			h := sha256.Sum256(m.Data[off:end])
			fmt.Fprintf(&b, "<Block Hash=\"%s\"", base64.StdEncoding.EncodeToString(h[:]))
			if m.Method == 8 && i < len(m.BSizes) && !(dropSizesFrom >= 0 && k >= dropSizesFrom) {
				fmt.Fprintf(&b, " Size=\"%d\"", m.BSizes[i])
			}
			b.WriteString("/>")
		}
		b.WriteString("</File>")
	}
	b.WriteString("</BlockMap>")
	return []byte(b.String())
}

// ContentTypesXML: [Content_Types].xml per OPC: Default per extension, Override per part name.
func ContentTypesXML(defaults, overrides [][2]string) []byte {
	var b strings.Builder
	b.WriteString("<?xml version=\"1.0\" encoding=\"UTF-8\" standalone=\"yes\"?>\r\n<Types xmlns=\"http://schemas.openxmlformats.org/package/2006/content-types\">")
	for _, d := range defaults {
		fmt.Fprintf(&b, "<Default Extension=\"%s\" ContentType=\"%s\"/>", xmlAttr(d[0]), xmlAttr(d[1]))
	}
	for _, o := range overrides {
		fmt.Fprintf(&b, "<Override PartName=\"%s\" ContentType=\"%s\"/>", xmlAttr(o[0]), xmlAttr(o[1]))
	}
	b.WriteString("</Types>")
	return []byte(b.String())
}

func ManifestXML(publisher string) []byte {
	return []byte("<?xml version=\"1.0\" encoding=\"utf-8\"?>\n<Package xmlns=\"http://schemas.microsoft.com/appx/manifest/foundation/windows10\">\n" +
		"  <Identity Name=\"verif.fmtappx\" Publisher=\"" + xmlAttr(publisher) + "\" Version=\"1.2.3.4\" ProcessorArchitecture=\"x64\"/>\n" +
		"  <Properties><DisplayName>fmtappx</DisplayName><PublisherDisplayName>verif</PublisherDisplayName><Logo>Assets\\logo.png</Logo></Properties>\n</Package>\n")
}

// Package: payload members followed by the footprint files in the order MakeAppx writes them.
type Package struct {
	Payload   []*Member
	Manifest  *Member
	BlockMap  *Member
	CTypes    *Member
	Cat       *Member
	Sig       *Member
	After     *Member // a member behind the signature (not allowed by the format)
	Zip64     bool
	Defaults  [][2]string
	Overrides [][2]string
}

func (p *Package) members() []*Member {
	ms := append([]*Member{}, p.Payload...)
	for _, m := range []*Member{p.Manifest, p.BlockMap, p.CTypes, p.Cat, p.Sig, p.After} {
		if m != nil {
			ms = append(ms, m)
		}
	}
	return ms
}

func (p *Package) Bytes() []byte { return BuildZip(p.members(), p.Zip64) }

// extension of the last path element, without the dot ("" if none)
func extOf(name string) string {
	base := name
	if i := strings.LastIndexByte(base, '/'); i >= 0 {
		base = base[i+1:]
	}
	if i := strings.LastIndexByte(base, '.'); i >= 0 {
		return base[i+1:]
	}
	return ""
}

var stdTypes = map[string]string{"dll": "application/x-msdownload", "exe": "application/x-msdownload", "png": "image/png", "xml": "application/vnd.ms-appx.manifest+xml"}

// Finish writes manifest, block map and content types for the payload (unsigned package).
func (p *Package) Finish(manifestStyle string, dropSizesFrom int) {
	p.Manifest = newMember("AppxManifest.xml", ManifestXML("CN=somebody else"), manifestStyle, 24, 0)
	listed := append(append([]*Member{}, p.Payload...), p.Manifest)
	p.BlockMap = newMember("AppxBlockMap.xml", BlockMapXML(listed, dropSizesFrom), StyleMakeAppx, 24, 0)
	if p.Defaults == nil {
		seen := map[string]bool{}
		for _, m := range listed {
			e := extOf(m.Name)
			if e == "" {
				p.Overrides = append(p.Overrides, [2]string{"/" + m.Name, "application/octet-stream"})
			} else if !seen[e] {
				seen[e] = true
				t := stdTypes[e]
				if t == "" {
					t = "application/octet-stream"
				}
				p.Defaults = append(p.Defaults, [2]string{e, t})
			}
		}
		p.Overrides = append(p.Overrides, [2]string{"/AppxBlockMap.xml", "application/vnd.ms-appx.blockmap+xml"})
	}
	p.CTypes = newMember("[Content_Types].xml", ContentTypesXML(p.Defaults, p.Overrides), StyleMakeAppx, 0, 0)
}

// SpecDigests: the five APPX digests of a complete package, computed from the format description alone:
//
//	AXPC  every byte of the file in front of the signature member's local header
//	AXCD  the central directory and end records the file would have without the signature member: the entries of all
//	      other members, a ZIP64 end record counting them and pointing at the offset where the signature member starts,
//	      the locator behind it, the saturated end record
//	AXCT / AXBM / AXCI  the uncompressed [Content_Types].xml / AppxBlockMap.xml / CodeIntegrity.cat
func (p *Package) SpecDigests() (axpc, axcd, axct, axbm, axci []byte) {
	var body bytes.Buffer
	var ms []*Member
	for _, m := range p.members() {
		if m != p.Sig && m != p.After {
			ms = append(ms, m)
		}
	}
	for _, m := range ms {
		m.Offset = body.Len()
		body.Write(m.local())
	}
	sum := func(b []byte) []byte { h := sha256.Sum256(b); return append([]byte{}, h[:]...) }
	axpc = sum(body.Bytes())
	var cd bytes.Buffer
	for _, m := range ms {
		cd.Write(m.central())
	}
	n := cd.Len()
	cd.Write(endRecords(len(ms), n, body.Len(), true))
	axcd = sum(cd.Bytes())
	axct = sum(p.CTypes.Data)
	axbm = sum(p.BlockMap.Data)
	if p.Cat != nil {
		axci = sum(p.Cat.Data)
	}
	return
}

// DigestBlob: 'APPX' then tag + digest records in the fixed order of the format.
func DigestBlob(axpc, axcd, axct, axbm, axci []byte) []byte {
	var b bytes.Buffer
	b.WriteString("APPX")
	b.WriteString("AXPC")
	b.Write(axpc)
	b.WriteString("AXCD")
	b.Write(axcd)
	b.WriteString("AXCT")
	b.Write(axct)
	b.WriteString("AXBM")
	b.Write(axbm)
	if axci != nil {
		b.WriteString("AXCI")
		b.Write(axci)
	}
	return b.Bytes()
}
