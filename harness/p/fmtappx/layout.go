package fmtappx

import (
	"encoding/binary"
	"errors"
)

// harness-owned reader of the physical layout of a zip file (APPNOTE 6.3: end record, ZIP64 end record + locator,
// central directory, local headers); descriptor length = distance to the next member minus header and data.
type entry struct {
	Name    string
	Method  uint16
	Flags   uint16
	CRC     uint32
	CSize   uint64
	USize   uint64
	Offset  uint64
	CDOff   int // offset of the central directory entry
	CDLen   int
	LfhLen  int
	DDLen   int
	DataOff int
}

type zlayout struct {
	Entries  []entry
	CDOff    int
	CDSize   int
	End64Off int // -1 if none
	LocOff   int
	EndOff   int
}

func le16at(b []byte, o int) int { return int(binary.LittleEndian.Uint16(b[o:])) }
func le32at(b []byte, o int) int { return int(binary.LittleEndian.Uint32(b[o:])) }
func le64at(b []byte, o int) int { return int(binary.LittleEndian.Uint64(b[o:])) }

func parseLayout(b []byte) (*zlayout, error) {
	if len(b) < 22 {
		return nil, errors.New("too short")
	}
	eo := len(b) - 22
	if le32at(b, eo) != 0x06054b50 {
		return nil, errors.New("no end record at the end")
	}
	z := &zlayout{EndOff: eo, End64Off: -1, LocOff: -1}
	count, cdsize, cdoff := le16at(b, eo+10), le32at(b, eo+12), le32at(b, eo+16)
	if count == 0xffff || cdsize == 0xffffffff || cdoff == 0xffffffff {
		lo := eo - 20
		if lo < 0 || le32at(b, lo) != 0x07064b50 {
			return nil, errors.New("no zip64 locator")
		}
		e64 := le64at(b, lo+8)
		if e64 < 0 || e64+56 > len(b) || le32at(b, e64) != 0x06064b50 {
			return nil, errors.New("no zip64 end record")
		}
		z.LocOff, z.End64Off = lo, e64
		count, cdsize, cdoff = le64at(b, e64+32), le64at(b, e64+40), le64at(b, e64+48)
	}
	z.CDOff, z.CDSize = cdoff, cdsize
	p := cdoff
	for i := 0; i < count; i++ {
		if p+46 > len(b) || le32at(b, p) != 0x02014b50 {
			return nil, errors.New("bad central entry")
		}
		nl, xl, cl := le16at(b, p+28), le16at(b, p+30), le16at(b, p+32)
		e := entry{Name: string(b[p+46 : p+46+nl]), Flags: uint16(le16at(b, p+8)), Method: uint16(le16at(b, p+10)), CRC: uint32(le32at(b, p+16)),
			CSize: uint64(le32at(b, p+20)), USize: uint64(le32at(b, p+24)), Offset: uint64(le32at(b, p+42)), CDOff: p, CDLen: 46 + nl + xl + cl}
		z.Entries = append(z.Entries, e)
		p += e.CDLen
	}
	for i := range z.Entries {
		e := &z.Entries[i]
		o := int(e.Offset)
		if o+30 > len(b) || le32at(b, o) != 0x04034b50 {
			return nil, errors.New("bad local header")
		}
		e.LfhLen = 30 + le16at(b, o+26) + le16at(b, o+28)
		e.DataOff = o + e.LfhLen
		next := cdoff
		if i+1 < len(z.Entries) {
			next = int(z.Entries[i+1].Offset)
		}
		if e.Flags&8 != 0 {
			e.DDLen = next - e.DataOff - int(e.CSize)
			if e.DDLen != 16 && e.DDLen != 24 && e.DDLen != 12 && e.DDLen != 20 {
				// a gap or a foreign layout: leave it to the caller
				e.DDLen = -1
			}
		}
	}
	return z, nil
}
