package c12

// Aliased blobs: Add sequences whose blobs are sub-slices buf[i:j] (or buf[i:j:k]) of one or two shared buffers, with spare
// capacity reaching into other blobs, in every adjacency pattern, through the real Add + Dump/Load + Apply. The blob
// content is recorded AT CALL TIME (a copy); the caller's buffers are read back after all Adds.

import (
	"bufio"
	"bytes"
	"encoding/hex"
	"encoding/json"
	"errors"
	"os"
	"path/filepath"

	"github.com/sassoftware/relic/v8/lib/binpatch"
	"github.com/sassoftware/relic/v8/verifharness/core"
)

type aliasCall struct {
	Off int64 `json:"off"`
	Old int64 `json:"old"`
	Buf int   `json:"buf"`
	I   int   `json:"i"`
	J   int   `json:"j"`
	K   int   `json:"k"` // capacity limit (buf[i:j:k]); len(buf) = plain buf[i:j]
}

type aliasCase struct {
	ID    int         `json:"id"`
	Kind  string      `json:"kind"`
	Shape string      `json:"shape"`
	Bufs  []string    `json:"bufs"`
	Calls []aliasCall `json:"calls"`
	File  string      `json:"file"`
	// observations
	Snaps     []string   `json:"snaps"`      // blob contents at each call
	BufsAfter []string   `json:"bufs_after"` // the caller's buffers after all Adds
	Patches   [][3]int64 `json:"patches"`
	Blobs     []string   `json:"blobs"` // p.Blobs after all Adds
	LoadErr   int        `json:"load_err"`
	StatusS   int        `json:"status_same"`
	OutS      string     `json:"out_same"`
	StatusO   int        `json:"status_other"`
	OutO      string     `json:"out_other"`
	ErrText   string     `json:"err_text,omitempty"`
}

func aliasRun(cs *aliasCase, dir string) {
	cs.Snaps, cs.BufsAfter, cs.Patches, cs.Blobs = nil, nil, nil, nil
	file, _ := hex.DecodeString(cs.File)
	bufs := make([][]byte, len(cs.Bufs))
	for i, b := range cs.Bufs {
		x, _ := hex.DecodeString(b)
		bufs[i] = make([]byte, len(x)) // exact capacity: the array ends where the buffer ends
		copy(bufs[i], x)
	}
	ps := binpatch.New()
	for _, cl := range cs.Calls {
		blob := bufs[cl.Buf][cl.I:cl.J:cl.K]
		cs.Snaps = append(cs.Snaps, hex.EncodeToString(blob))
		ps.Add(cl.Off, cl.Old, blob)
	}
	for _, b := range bufs {
		cs.BufsAfter = append(cs.BufsAfter, hex.EncodeToString(b))
	}
	for i, h := range ps.Patches {
		cs.Patches = append(cs.Patches, [3]int64{h.Offset, int64(h.OldSize), int64(h.NewSize)})
		cs.Blobs = append(cs.Blobs, hex.EncodeToString(ps.Blobs[i]))
	}
	loaded, err := binpatch.Load(ps.Dump())
	cs.LoadErr = c12ErrClass(err)
	if err != nil {
		cs.StatusS, cs.StatusO = -1, -1
		return
	}
	os.RemoveAll(dir)
	os.MkdirAll(dir, 0o755)
	src := filepath.Join(dir, "in.bin")
	apply := func(dest string) (int, string) {
		os.WriteFile(src, file, 0o644)
		f, err := os.OpenFile(src, os.O_RDWR, 0)
		if err != nil {
			panic(err)
		}
		err = loaded.Apply(f, dest)
		f.Close()
		st := c12ErrClass(err)
		if st == 1 {
			st = 4
		}
		if err != nil {
			cs.ErrText = err.Error()
		}
		out, _ := os.ReadFile(dest)
		return st, hex.EncodeToString(out)
	}
	cs.StatusS, cs.OutS = apply(src)
	cs.StatusO, cs.OutO = apply(filepath.Join(dir, "out.bin"))
}

func init() {
	core.Commands["c12alias-replay"] = func(c *core.Ctx) error {
		if c.Scratch == "" {
			return errors.New("c12alias-replay needs -scratch")
		}
		sc := bufio.NewScanner(os.Stdin)
		sc.Buffer(make([]byte, 1<<20), 1<<26)
		for sc.Scan() {
			if len(bytes.TrimSpace(sc.Bytes())) == 0 {
				continue
			}
			var in aliasCase
			if err := json.Unmarshal(sc.Bytes(), &in); err != nil {
				return err
			}
			cs := &aliasCase{ID: in.ID, Kind: in.Kind, Shape: in.Shape, Bufs: in.Bufs, Calls: in.Calls, File: in.File}
			aliasRun(cs, filepath.Join(c.Scratch, "a"))
			c.Emit(cs)
		}
		return sc.Err()
	}
	core.Commands["c12alias"] = func(c *core.Ctx) error {
		if c.Scratch == "" {
			return errors.New("c12alias needs -scratch")
		}
		r := &core.Rng{S: c.Seed ^ 0xa11a5}
		id := 0
		run := func(cs *aliasCase) {
			cs.ID = id
			id++
			aliasRun(cs, filepath.Join(c.Scratch, "a"))
			c.Emit(cs)
		}
		file := make([]byte, 12)
		for i := range file {
			file[i] = byte(0x10 + i)
		}
		fhex := hex.EncodeToString(file)
		b0, b1 := "a0a1a2a3a4a5", "b0b1b2b3"
		type vw struct{ buf, i, j, k int }
		views := []vw{{0, 0, 2, 6}, {0, 2, 4, 6}, {0, 4, 6, 6}, {0, 1, 3, 6}, {0, 2, 2, 6}, {0, 0, 2, 2}, {1, 0, 2, 4}, {1, 1, 3, 4}}
		if c.Tier == "thorough" {
			views = append(views, vw{0, 0, 6, 6}, vw{0, 3, 4, 5}, vw{1, 2, 4, 4}, vw{1, 0, 0, 4})
		}
		// (offset, oldSize) layouts of three calls: every adjacency pattern (A = adjacent to the previous call)
		type rg struct{ off, old int64 }
		shapes := []struct {
			name string
			r    [3]rg
		}{
			{"A-A", [3]rg{{0, 2}, {2, 2}, {4, 2}}},
			{"A-gap", [3]rg{{0, 2}, {2, 2}, {8, 2}}},
			{"gap-A", [3]rg{{0, 2}, {6, 2}, {8, 2}}},
			{"later-first-A", [3]rg{{8, 2}, {0, 2}, {2, 2}}}, // Mach-O order: a later range first, then two adjacent ones
			{"later-first-gap", [3]rg{{8, 2}, {0, 2}, {4, 2}}},
			{"gap-gap", [3]rg{{0, 2}, {4, 2}, {8, 2}}},
			{"reverse", [3]rg{{8, 2}, {4, 2}, {0, 2}}},
			{"insert-A-A", [3]rg{{3, 0}, {3, 0}, {3, 2}}},
			{"A-grow-eof", [3]rg{{6, 2}, {8, 4}, {12, 0}}},
			{"later-first-insert-A", [3]rg{{10, 1}, {2, 1}, {3, 0}}},
			{"mid-first-A-A", [3]rg{{4, 2}, {6, 0}, {6, 3}}},
		}
		for _, sh := range shapes {
			for _, v1 := range views {
				for _, v2 := range views {
					for _, v3 := range views {
						if c.Tier != "thorough" && (v1.buf+v2.i+v3.j+len(sh.name))%2 == 1 && v1 != v3 {
							continue
						}
						vs := [3]vw{v1, v2, v3}
						var calls []aliasCall
						for n := 0; n < 3; n++ {
							calls = append(calls, aliasCall{sh.r[n].off, sh.r[n].old, vs[n].buf, vs[n].i, vs[n].j, vs[n].k})
						}
						run(&aliasCase{Kind: "alias-enum3", Shape: sh.name, Bufs: []string{b0, b1}, Calls: calls, File: fhex})
					}
				}
			}
		}
		// random: up to 7 calls over two buffers of up to 64 bytes, disjoint ranges, half adjacent, a quarter out of file order
		n := 300
		if c.Tier == "thorough" {
			n = 3000
		}
		for k := 0; k < n; k++ {
			flen := r.Pick(8, 40, 300)
			fb := r.Bytes(flen)
			l0, l1 := 1+r.Intn(64), 1+r.Intn(16)
			bb := [][]byte{r.Bytes(l0), r.Bytes(l1)}
			np := 2 + r.Intn(6)
			var calls []aliasCall
			pos := int64(0)
			for j := 0; j < np && pos < int64(flen); j++ {
				off := pos
				if !r.Chance(55) {
					off += int64(1 + r.Intn(1+(flen-int(pos))/3))
				}
				if off >= int64(flen) {
					break
				}
				old := int64(1 + r.Intn(int(int64(flen)-off)/2+1)) // >= 1: distinct offsets, so any call order is in the domain
				if off+old > int64(flen) {
					old = int64(flen) - off
				}
				bi := r.Intn(2)
				L := len(bb[bi])
				i := r.Intn(L + 1)
				jn := i + r.Intn(L-i+1)
				if r.Chance(50) && i+4 <= L {
					jn = i + r.Intn(4)
				}
				kk := L
				if r.Chance(15) {
					kk = jn + r.Intn(L-jn+1)
				}
				calls = append(calls, aliasCall{off, old, bi, i, jn, kk})
				pos = off + old
			}
			kind := "alias-rand"
			if r.Chance(40) && len(calls) > 2 { // move a later call to the front (Mach-O order)
				x := 1 + r.Intn(len(calls)-1)
				moved := calls[x]
				rest := append(append([]aliasCall{}, calls[:x]...), calls[x+1:]...)
				calls = append([]aliasCall{moved}, rest...)
				kind = "alias-rand-laterfirst"
			}
			run(&aliasCase{Kind: kind, Shape: "rand", Bufs: []string{hex.EncodeToString(bb[0]), hex.EncodeToString(bb[1])}, Calls: calls, File: hex.EncodeToString(fb)})
		}
		return nil
	}
}
