package c12

// c12hist: which file does the REAL binpatch.Apply write to, as a function of the file-system history between
// opening the input and calling Apply?  Every case builds a fresh directory, performs a sequence of operations
// (create-by-rename, overwrite, unlink, hard link, rename, mkdir, symlink, open, seek), then calls
// (*PatchSet).Apply (or signers.ApplyBinPatch on the Dump()ed set) through the handle with an output path that is
// empty / the opened name / a textual alias of it / another existing name / a hard link / a name that does not exist,
// and records the whole directory before and after plus the bytes behind the handle.

import (
	"bufio"
	"bytes"
	"encoding/hex"
	"encoding/json"
	"errors"
	"io"
	"os"
	"path/filepath"
	"sort"
	"strings"
	"sync"
	"syscall"

	"github.com/sassoftware/relic/v8/lib/binpatch"
	"github.com/sassoftware/relic/v8/signers"
	"github.com/sassoftware/relic/v8/verifharness/core"
)

type histOp struct {
	Op string `json:"op"` // create write unlink link rename mkdir symlink open openro seek
	A  string `json:"a,omitempty"`
	B  string `json:"b,omitempty"` // second name, or hex data for create/write
	N  int64  `json:"n,omitempty"`
}

type histEntry struct {
	Name  string `json:"name"`
	Kind  int    `json:"kind"` // 0 regular 1 directory 2 other
	Data  string `json:"data"` // hex, regular files only
	Same  bool   `json:"same"` // same inode as the handle
	Nlink int    `json:"nlink"`
}

type histCase struct {
	ID      int       `json:"id"`
	Kind    string    `json:"kind"` // hist-enum hist-rand
	Ops     []histOp  `json:"ops"`
	Shape   string    `json:"shape"`
	Via     string    `json:"via"`     // apply | blob (Dump -> signers.ApplyBinPatch)
	Outpath string    `json:"outpath"` // "" or a name relative to the case directory
	Patches []c12Call `json:"patches"` // the patch set as applied (after Add, and after Dump/Load for via=blob)
	// observations
	Skipped      string      `json:"skipped,omitempty"`
	HandleName   string      `json:"handle_name"`
	HandleRO     bool        `json:"handle_ro"` // the handle was opened with os.Open (O_RDONLY)
	HandleBefore string      `json:"handle_before"`
	Before       []histEntry `json:"before"`
	Status       int         `json:"status"`
	ErrText      string      `json:"err_text,omitempty"`
	After        []histEntry `json:"after"`
	HandleAfter  string      `json:"handle_after"`
	TmpLeft      bool        `json:"tmp_left"`
}

func histErrClass(err error) int {
	if err == nil {
		return 0
	}
	var le *os.LinkError
	switch {
	case strings.Contains(err.Error(), "out of order"):
		return 3
	case errors.Is(err, io.EOF), errors.Is(err, io.ErrUnexpectedEOF):
		return 4
	case errors.As(err, &le):
		return 5
	case errors.Is(err, syscall.EBADF), errors.Is(err, syscall.EINVAL):
		return 7 // WriteAt / Truncate through a handle that was not opened for writing
	}
	return 9
}

func fileIno(fi os.FileInfo) uint64 { return fi.Sys().(*syscall.Stat_t).Ino }

func histListing(dir string, hino uint64) []histEntry {
	ents, _ := os.ReadDir(dir)
	var out []histEntry
	for _, e := range ents {
		p := filepath.Join(dir, e.Name())
		fi, err := os.Lstat(p)
		if err != nil {
			continue
		}
		he := histEntry{Name: e.Name(), Kind: 2}
		switch {
		case fi.Mode().IsRegular():
			he.Kind = 0
			b, _ := os.ReadFile(p)
			he.Data = hex.EncodeToString(b)
			he.Nlink = int(fi.Sys().(*syscall.Stat_t).Nlink)
			he.Same = fileIno(fi) == hino
		case fi.IsDir():
			he.Kind = 1
		}
		out = append(out, he)
	}
	sort.Slice(out, func(i, j int) bool { return out[i].Name < out[j].Name })
	return out
}

func readAllAt(g *os.File) string {
	fi, err := g.Stat()
	if err != nil {
		return ""
	}
	b := make([]byte, fi.Size())
	n, _ := g.ReadAt(b, 0)
	return hex.EncodeToString(b[:n])
}

// shapes of patch sets relative to the size n of the handle's file (n >= 4)
var histShapes = []string{"empty", "same", "same+append", "truncate", "insert", "same+grow-tail", "two-moving", "unordered"}

func histPatches(shape string, n int64) []c12Call {
	switch shape {
	case "same":
		return []c12Call{{1, 2, "a1a2"}}
	case "same+append":
		return []c12Call{{0, 1, "b1"}, {n, 0, "c1c2c3"}}
	case "truncate":
		return []c12Call{{n - 2, 2, ""}}
	case "insert":
		return []c12Call{{1, 0, "e1"}}
	case "same+grow-tail":
		return []c12Call{{1, 1, "f1"}, {n - 1, 1, "f2f3"}}
	case "two-moving":
		return []c12Call{{0, 1, ""}, {2, 1, "9192"}}
	case "unordered":
		return []c12Call{{2, 1, ""}, {0, 1, "81"}}
	}
	return nil
}

func histRun(cs *histCase, dir string) {
	// the directory is reused by the worker: empty it (entries are files, links or empty directories)
	if ents, err := os.ReadDir(dir); err != nil {
		if err := os.MkdirAll(dir, 0o755); err != nil {
			panic(err)
		}
	} else {
		for _, e := range ents {
			os.Remove(filepath.Join(dir, e.Name()))
		}
	}
	full := func(name string) string { return dir + "/" + name } // no cleaning: "./in.bin" stays a different string
	var f, g *os.File
	var keep []*os.File // earlier handles stay open so that inode numbers are not reused within a case
	defer func() {
		for _, x := range keep {
			x.Close()
		}
		if g != nil {
			g.Close()
		}
		if f != nil {
			f.Close()
		}
	}()
	ntmp := 0
	for _, o := range cs.Ops {
		switch o.Op {
		case "create":
			data, _ := hex.DecodeString(o.B)
			ntmp++
			tmp := filepath.Join(dir, ".new"+string(rune('a'+ntmp%26)))
			if err := os.WriteFile(tmp, data, 0o644); err != nil {
				panic(err)
			}
			if err := os.Rename(tmp, full(o.A)); err != nil {
				os.Remove(tmp)
			}
		case "write":
			data, _ := hex.DecodeString(o.B)
			if w, err := os.OpenFile(full(o.A), os.O_WRONLY|os.O_TRUNC, 0); err == nil {
				w.Write(data)
				w.Close()
			}
		case "unlink":
			os.Remove(full(o.A))
		case "link":
			os.Link(full(o.A), full(o.B))
		case "rename":
			os.Rename(full(o.A), full(o.B))
		case "mkdir":
			os.Mkdir(full(o.A), 0o755)
		case "symlink":
			os.Symlink("nowhere-at-all", full(o.A))
		case "open", "openro":
			flag := os.O_RDWR
			if o.Op == "openro" {
				flag = os.O_RDONLY
			}
			nf, err := os.OpenFile(full(o.A), flag, 0)
			if err != nil {
				break
			}
			if fi, err := nf.Stat(); err != nil || !fi.Mode().IsRegular() {
				nf.Close() // os.Open succeeds on a directory; a signer never gets that far with one
				break
			}
			cs.HandleRO = o.Op == "openro"
			ng, err := os.Open(full(o.A))
			if err != nil {
				panic(err)
			}
			if f != nil {
				keep = append(keep, f, g)
			}
			f, g = nf, ng
			cs.HandleName = o.A
		case "seek":
			if f != nil && o.N >= 0 {
				f.Seek(o.N, io.SeekStart)
			}
		}
	}
	if f == nil {
		cs.Skipped = "no handle"
		return
	}
	fi, err := f.Stat()
	if err != nil {
		panic(err)
	}
	hino := fileIno(fi)
	cs.HandleBefore = readAllAt(g)
	if cs.Patches == nil {
		cs.Patches = histPatches(cs.Shape, fi.Size())
	}
	ps := binpatch.New()
	for _, cl := range cs.Patches {
		b, _ := hex.DecodeString(cl.Blob)
		ps.Add(cl.Off, cl.Old, b)
	}
	out := ""
	if cs.Outpath != "" {
		out = full(cs.Outpath)
	}
	var blob []byte
	if cs.Via == "blob" {
		blob = ps.Dump()
		if l, err := binpatch.Load(blob); err == nil {
			ps = l
		}
	}
	cs.Patches = nil
	for i, h := range ps.Patches {
		cs.Patches = append(cs.Patches, c12Call{h.Offset, int64(h.OldSize), hex.EncodeToString(ps.Blobs[i])})
	}
	cs.Before = histListing(dir, hino)
	if cs.Via == "blob" {
		err = signers.ApplyBinPatch(f, out, bytes.NewReader(blob))
	} else {
		err = ps.Apply(f, out)
	}
	cs.Status = histErrClass(err)
	if err != nil {
		cs.ErrText = err.Error()
	}
	cs.After = histListing(dir, hino)
	cs.HandleAfter = readAllAt(g)
	for _, e := range cs.After {
		if strings.Contains(e.Name, ".tmp") || strings.HasPrefix(e.Name, ".new") {
			cs.TmpLeft = true
		}
	}
}

func init() {
	// re-run recorded cases (one JSON object per line on stdin): the replay files written by checks/c12.py
	core.Commands["c12hist-replay"] = func(c *core.Ctx) error {
		if c.Scratch == "" {
			return errors.New("c12hist-replay needs -scratch")
		}
		sc := bufio.NewScanner(os.Stdin)
		sc.Buffer(make([]byte, 1<<20), 1<<26)
		for sc.Scan() {
			if len(bytes.TrimSpace(sc.Bytes())) == 0 {
				continue
			}
			var in histCase
			if err := json.Unmarshal(sc.Bytes(), &in); err != nil {
				return err
			}
			cs := &histCase{ID: in.ID, Kind: in.Kind, Ops: in.Ops, Shape: in.Shape, Via: in.Via, Outpath: in.Outpath}
			histRun(cs, filepath.Join(c.Scratch, "h"))
			c.Emit(cs)
		}
		return sc.Err()
	}
	core.Commands["c12hist"] = func(c *core.Ctx) error {
		if c.Scratch == "" {
			return errors.New("c12hist needs -scratch")
		}
		const P, Q, L, G, A = "in.bin", "out.bin", "ln.bin", "gone.bin", "./in.bin"
		d0, d1, d2, d3, d4, d5 := "1011121314", "2122232425262728", "31323334", "414243444546", "5152535455565758595a", "61626364"
		menu := []histOp{
			{Op: "create", A: P, B: d1}, {Op: "create", A: Q, B: d2}, {Op: "unlink", A: P}, {Op: "unlink", A: Q},
			{Op: "link", A: P, B: L}, {Op: "link", A: P, B: Q}, {Op: "rename", A: P, B: Q}, {Op: "rename", A: Q, B: P},
			{Op: "rename", A: P, B: L}, {Op: "rename", A: L, B: P}, {Op: "write", A: P, B: d3}, {Op: "mkdir", A: Q},
			{Op: "symlink", A: Q}, {Op: "open", A: P}, {Op: "open", A: Q}, {Op: "unlink", A: L}, {Op: "link", A: Q, B: P},
			{Op: "write", A: Q, B: d4}, {Op: "create", A: L, B: d5}, {Op: "seek", N: 2}, {Op: "open", A: A}, {Op: "mkdir", A: P},
			{Op: "symlink", A: P}, {Op: "openro", A: P}, {Op: "openro", A: A},
		}
		pres := [][]histOp{nil, {{Op: "create", A: Q, B: d2}}, {{Op: "link", A: P, B: L}}, {{Op: "mkdir", A: Q}}, {{Op: "symlink", A: Q}}}
		outs := []string{"", P, A, Q, L, G}
		outs2 := outs
		if c.Tier != "thorough" {
			outs2 = []string{"", A, Q, L} // P behaves as "", G as an unlinked Q: both are covered by the shorter histories
		}
		id := 0
		var all []*histCase
		emit := func(kind string, ops []histOp, shape, out string) {
			cs := &histCase{ID: id, Kind: kind, Ops: ops, Shape: shape, Outpath: out, Via: "apply"}
			if id%2 == 1 {
				cs.Via = "blob"
			}
			id++
			all = append(all, cs)
		}
		mk := func(pre []histOp, post ...histOp) []histOp {
			ops := []histOp{{Op: "create", A: P, B: d0}}
			ops = append(ops, pre...)
			ops = append(ops, histOp{Op: "open", A: P})
			return append(ops, post...)
		}
		// every prelude x every history of at most one operation after the open x every output path x every shape
		for _, pre := range pres {
			for k := -1; k < len(menu); k++ {
				var post []histOp
				if k >= 0 {
					post = []histOp{menu[k]}
				}
				for _, out := range outs {
					for _, sh := range histShapes {
						emit("hist-enum", mk(pre, post...), sh, out)
					}
				}
			}
		}
		// every history of two operations after the open x every output path; the shapes that separate the strategies
		// (quick tier: preludes other than the empty one are thinned out deterministically)
		for pi, pre := range pres {
			for k1 := range menu {
				for k2 := range menu {
					if c.Tier != "thorough" && pi > 0 && (k1*31+k2*7+pi)%10 != 0 {
						continue
					}
					for _, out := range outs2 {
						for _, sh := range []string{"same+append", "insert"} {
							emit("hist-enum", mk(pre, menu[k1], menu[k2]), sh, out)
						}
					}
				}
			}
		}
		// random longer histories (operations before the open as well), every name against every name
		r := &core.Rng{S: c.Seed ^ 0x12c12}
		n := 1500
		if c.Tier == "thorough" {
			n = 20000
		}
		if c.N > 0 {
			n = c.N
		}
		names := []string{P, Q, L, A}
		datas := []string{d0, d1, d2, d3, d4, d5}
		for k := 0; k < n; k++ {
			ops := []histOp{{Op: "create", A: P, B: d0}}
			ln := 2 + r.Intn(6)
			opened := false
			for j := 0; j < ln; j++ {
				a, b := names[r.Intn(len(names))], names[r.Intn(len(names))]
				var o histOp
				switch r.Intn(12) {
				case 0, 1:
					o = histOp{Op: "create", A: a, B: datas[r.Intn(len(datas))]}
				case 2:
					o = histOp{Op: "write", A: a, B: datas[r.Intn(len(datas))]}
				case 3:
					o = histOp{Op: "unlink", A: a}
				case 4, 5:
					o = histOp{Op: "link", A: a, B: b}
				case 6, 7:
					o = histOp{Op: "rename", A: a, B: b}
				case 8:
					if r.Chance(50) {
						o = histOp{Op: "mkdir", A: b}
					} else {
						o = histOp{Op: "symlink", A: b}
					}
				case 9, 10:
					o = histOp{Op: "open", A: a}
					if r.Chance(20) {
						o.Op = "openro"
					}
					opened = true
				case 11:
					o = histOp{Op: "seek", N: int64(r.Intn(6))}
				}
				ops = append(ops, o)
			}
			if !opened {
				ops = append(ops, histOp{Op: "open", A: names[r.Intn(2)]})
				if r.Chance(60) {
					ops = append(ops, menu[r.Intn(len(menu))])
				}
			}
			emit("hist-rand", ops, histShapes[r.Intn(len(histShapes))], append(outs, "./out.bin", "./ln.bin")[r.Intn(len(outs)+2)])
		}
		// the cases are independent (one directory per worker); the file system is the bottleneck, so run them in parallel
		const workers = 16
		var wg sync.WaitGroup
		for w := 0; w < workers; w++ {
			wg.Add(1)
			go func(w int) {
				defer wg.Done()
				wdir := filepath.Join(c.Scratch, "h"+string(rune('a'+w)))
				for i := w; i < len(all); i += workers {
					histRun(all[i], wdir)
				}
				os.RemoveAll(wdir)
			}(w)
		}
		wg.Wait()
		for _, cs := range all {
			c.Emit(cs)
		}
		return nil
	}
}
