package c12

import (
	"encoding/hex"
	"errors"
	"github.com/sassoftware/relic/v8/verifharness/core"
	"io"
	"os"
	"path/filepath"
	"strings"
	"syscall"

	"github.com/sassoftware/relic/v8/lib/binpatch"
	"github.com/sassoftware/relic/v8/signers"
)

type c12Call struct {
	Off  int64  `json:"off"`
	Old  int64  `json:"old"`
	Blob string `json:"blob"`
}

type c12Case struct {
	ID    int       `json:"id"`
	Kind  string    `json:"kind"` // enum1 enum2 rand big hdr
	File  string    `json:"file"` // hex
	Calls []c12Call `json:"calls"`
	Mode  string    `json:"mode"` // same other hardlink absent
	// observations
	Patches   [][3]int64 `json:"patches"`  // headers after Add, before Dump
	Dump      string     `json:"dump"`     // hex of Dump()
	LoadErr   int        `json:"load_err"` // 0 ok
	Loaded    [][3]int64 `json:"loaded"`
	Status    int        `json:"status"` // Apply: 0 ok, else error class
	ErrText   string     `json:"err_text,omitempty"`
	Out       string     `json:"out"`       // dest bytes after Apply (hex) ("" if absent)
	DestGone  bool       `json:"dest_gone"` // dest does not exist after
	Renamed   bool       `json:"renamed"`   // inode of dest differs from the input's
	TmpLeft   bool       `json:"tmp_left"`
	InputSame bool       `json:"input_same"`      // source path bytes unchanged (other/absent modes)
	Trunc     string     `json:"trunc,omitempty"` // result of ApplyBinPatch with a truncated blob: "err-untouched" etc
}

func c12ErrClass(err error) int {
	if err == nil {
		return 0
	}
	s := err.Error()
	switch {
	case strings.Contains(s, "out of order"):
		return 3
	case strings.Contains(s, "unsupported binpatch version"):
		return 2
	case errors.Is(err, io.EOF), errors.Is(err, io.ErrUnexpectedEOF):
		return 1
	}
	return 9
}

func inode(path string) uint64 {
	st, err := os.Lstat(path)
	if err != nil {
		return 0
	}
	return st.Sys().(*syscall.Stat_t).Ino
}

func c12Run(c *core.Ctx, cs *c12Case, dir string) {
	file, _ := hex.DecodeString(cs.File)
	os.RemoveAll(dir)
	os.MkdirAll(dir, 0o755)
	src := filepath.Join(dir, "in.bin")
	if err := os.WriteFile(src, file, 0o644); err != nil {
		panic(err)
	}
	dest := src
	switch cs.Mode {
	case "other":
		dest = filepath.Join(dir, "out.bin")
		os.WriteFile(dest, []byte("OLD-DEST"), 0o644)
	case "absent":
		dest = filepath.Join(dir, "out.bin")
	case "hardlink":
		os.Link(src, filepath.Join(dir, "link.bin"))
	}
	ps := binpatch.New()
	for _, cl := range cs.Calls {
		b, _ := hex.DecodeString(cl.Blob)
		ps.Add(cl.Off, cl.Old, b)
	}
	for _, h := range ps.Patches {
		cs.Patches = append(cs.Patches, [3]int64{h.Offset, int64(h.OldSize), int64(h.NewSize)})
	}
	blob := ps.Dump()
	cs.Dump = hex.EncodeToString(blob)
	loaded, err := binpatch.Load(blob)
	cs.LoadErr = c12ErrClass(err)
	if err != nil {
		cs.Status = -1
		return
	}
	for _, h := range loaded.Patches {
		cs.Loaded = append(cs.Loaded, [3]int64{h.Offset, int64(h.OldSize), int64(h.NewSize)})
	}
	srcIno := inode(src)
	f, err := os.OpenFile(src, os.O_RDWR, 0)
	if err != nil {
		panic(err)
	}
	err = loaded.Apply(f, dest)
	f.Close()
	cs.Status = c12ErrClass(err)
	if cs.Status == 1 {
		cs.Status = 4 // EOF out of CopyN during Apply
	}
	if err != nil {
		cs.ErrText = err.Error()
	}
	out, rerr := os.ReadFile(dest)
	if rerr != nil {
		cs.DestGone = true
	} else {
		cs.Out = hex.EncodeToString(out)
	}
	cs.Renamed = inode(dest) != srcIno
	ents, _ := os.ReadDir(dir)
	for _, e := range ents {
		if strings.Contains(e.Name(), ".tmp") {
			cs.TmpLeft = true
		}
	}
	if dest != src {
		now, _ := os.ReadFile(src)
		cs.InputSame = string(now) == string(file)
	} else {
		cs.InputSame = true
	}
	// truncated / unparsable patch: every strict prefix must be rejected without touching the target
	if cs.ID%16 == 0 && len(blob) > 0 {
		res := "ok"
		tdir := filepath.Join(dir, "t")
		os.MkdirAll(tdir, 0o755)
		tsrc := filepath.Join(tdir, "in.bin")
		for cut := 0; cut < len(blob); cut++ {
			os.WriteFile(tsrc, file, 0o644)
			tf, _ := os.OpenFile(tsrc, os.O_RDWR, 0)
			err := signers.ApplyBinPatch(tf, tsrc, strings.NewReader(string(blob[:cut])))
			tf.Close()
			now, _ := os.ReadFile(tsrc)
			if err == nil {
				res = "accepted-prefix"
				break
			}
			if string(now) != string(file) {
				res = "touched"
				break
			}
		}
		bad := append([]byte{}, blob...)
		bad[3] ^= 3
		os.WriteFile(tsrc, file, 0o644)
		tf, _ := os.OpenFile(tsrc, os.O_RDWR, 0)
		err := signers.ApplyBinPatch(tf, tsrc, strings.NewReader(string(bad)))
		tf.Close()
		now, _ := os.ReadFile(tsrc)
		if err == nil {
			res = "accepted-badversion"
		} else if string(now) != string(file) {
			res = "touched"
		}
		cs.Trunc = res
	}
}

func init() {
	core.Commands["c12"] = func(c *core.Ctx) error {
		if c.Scratch == "" {
			return errors.New("c12 needs -scratch")
		}
		r := &core.Rng{S: c.Seed}
		id := 0
		modes := []string{"same", "other", "hardlink", "absent"}
		mkfile := func(n int) string {
			b := make([]byte, n)
			for i := range b {
				b[i] = byte(0x10 + i%200)
			}
			return hex.EncodeToString(b)
		}
		blobs := []string{"", "a1", "b1b2"}
		run := func(cs *c12Case) {
			cs.ID = id
			id++
			c12Run(c, cs, filepath.Join(c.Scratch, "w"))
			c.Emit(cs)
		}
		// exhaustive: one call, every offset/old/blob for file lengths 0..5, every mode
		for flen := 0; flen <= 5; flen += 1 {
			for off := int64(0); off <= int64(flen)+1; off++ {
				for old := int64(0); off+old <= int64(flen)+1; old++ {
					for _, b := range blobs {
						for _, m := range modes {
							run(&c12Case{Kind: "enum1", File: mkfile(flen), Calls: []c12Call{{off, old, b}}, Mode: m})
						}
					}
				}
			}
		}
		// exhaustive: two calls (any order, including overlapping and adjacent) on a 4-byte file, modes same/other
		flen := 4
		if c.Tier == "thorough" {
			flen = 5
		}
		for o1 := int64(0); o1 <= int64(flen); o1++ {
			for l1 := int64(0); o1+l1 <= int64(flen); l1++ {
				for o2 := int64(0); o2 <= int64(flen); o2++ {
					for l2 := int64(0); o2+l2 <= int64(flen); l2++ {
						for bi, b1 := range blobs {
							for bj, b2 := range blobs {
								if c.Tier != "thorough" && (bi+bj)%2 == 1 && (o1+o2)%2 == 1 {
									continue
								}
								m := modes[(int(o1)+int(o2)+bi+bj)%2]
								run(&c12Case{Kind: "enum2", File: mkfile(flen), Calls: []c12Call{{o1, l1, b1}, {o2, l2, b2}}, Mode: m})
							}
						}
					}
				}
			}
		}
		// random: builder-like sequences (disjoint ranges, mostly ascending, 50% adjacent), sizes to 64 KiB
		n := 400
		if c.Tier == "thorough" {
			n = 4000
		}
		if c.N > 0 {
			n = c.N
		}
		for k := 0; k < n; k++ {
			flen := r.Pick(0, 1, 7, 64, 300, 4096, 5000)
			if c.Tier == "thorough" && r.Chance(10) {
				flen = 65536 + r.Intn(100)
			}
			fb := r.Bytes(flen)
			np := 1 + r.Intn(8)
			var calls []c12Call
			pos := int64(0)
			for j := 0; j < np && pos <= int64(flen); j++ {
				gap := int64(0)
				if !r.Chance(50) {
					gap = int64(r.Intn(1 + (flen-int(pos))/2 + 1))
				}
				off := pos + gap
				if off > int64(flen) {
					break
				}
				old := int64(r.Intn(int(int64(flen)-off) + 1))
				if r.Chance(30) {
					old = 0
				}
				if j == np-1 && r.Chance(40) {
					old = int64(flen) - off // reach EOF (in-place candidates)
				}
				bl := r.Pick(0, 1, 2, 17, int(old), int(old), 100)
				if off == pos && gap == 0 && old == 0 && bl == 0 {
					bl = 1
				}
				calls = append(calls, c12Call{off, old, hex.EncodeToString(r.Bytes(bl))})
				pos = off + old
				if old == 0 && gap == 0 {
					// a following call at the same offset is adjacent (coalesced); fine
				}
			}
			kind := "rand"
			if r.Chance(25) && len(calls) > 1 { // Mach-O style: non-file order
				i, j := r.Intn(len(calls)), r.Intn(len(calls))
				calls[i], calls[j] = calls[j], calls[i]
				kind = "rand-shuffled"
			}
			run(&c12Case{Kind: kind, File: hex.EncodeToString(fb), Calls: calls, Mode: modes[r.Intn(4)]})
		}
		return nil
	}
	// header-only arithmetic for > 4 GiB old sizes: no files involved
	core.Commands["c12big"] = func(c *core.Ctx) error {
		r := &core.Rng{S: c.Seed ^ 0xb16}
		M := int64(0xffffffff)
		sizes := []int64{M - 1, M, M + 1, 2*M - 1, 2 * M, 2*M + 1, 3*M + 5, 1 << 40}
		id := 0
		for _, s1 := range sizes {
			for _, s2 := range []int64{0, 1, M - 1, M, M + 1} {
				for _, adj := range []bool{true, false} {
					ps := binpatch.New()
					off1 := int64(r.Intn(1000))
					ps.Add(off1, s1, []byte{1})
					off2 := off1 + s1
					if !adj {
						off2 += 7
					}
					ps.Add(off2, s2, []byte{2, 3})
					cs := &c12Case{ID: id, Kind: "big", Calls: []c12Call{{off1, s1, "01"}, {off2, s2, "0203"}}}
					id++
					for _, h := range ps.Patches {
						cs.Patches = append(cs.Patches, [3]int64{h.Offset, int64(h.OldSize), int64(h.NewSize)})
					}
					c.Emit(cs)
				}
			}
		}
		return nil
	}
}
