package c17

import (
	"encoding/hex"
	"encoding/json"
	"errors"
	"os"
	"path/filepath"

	"github.com/sassoftware/relic/v8/verifharness/core"
)

// c17replay <file.json>: re-runs the REAL code on the inputs recorded in a replay file written by checks/c17.py.
// The file holds {"cases":[case...]}; a case is re-observed from its "zip" bytes; a mangle/mangle2 case that carries
// "src_zip" (+ "src_expect") is re-derived from the source archive with the recorded operations first.
func runC17Replay(c *core.Ctx) error {
	if len(c.Args) < 1 || c.Scratch == "" {
		return errors.New("usage: -scratch DIR c17replay <replay.json>")
	}
	raw, err := os.ReadFile(c.Args[0])
	if err != nil {
		return err
	}
	var rp struct {
		Cases []map[string]interface{} `json:"cases"`
	}
	if err := json.Unmarshal(raw, &rp); err != nil {
		return err
	}
	if err := os.MkdirAll(c.Scratch, 0o755); err != nil {
		return err
	}
	rn := &runner{c: c, r: &core.Rng{S: c.Seed}, counts: map[string]int{}, path: filepath.Join(c.Scratch, "c17-replay.zip")}
	defer os.Remove(rn.path)
	str := func(m map[string]interface{}, k string) string { s, _ := m[k].(string); return s }
	for _, cs := range rp.Cases {
		kind := str(cs, "kind")
		if kind == "layout" {
			if err := replayLayout(c, cs); err != nil {
				return err
			}
			continue
		}
		if srcHex := str(cs, "src_zip"); srcHex != "" && (kind == "mangle" || kind == "mangle2") {
			src, err := hex.DecodeString(srcHex)
			if err != nil {
				return err
			}
			sid, _ := cs["src"].(float64)
			pe := &poolEnt{id: int(sid), kind: "replay-src", z: src}
			if se, ok := cs["src_expect"].([]interface{}); ok {
				for _, e := range se {
					em, _ := e.(map[string]interface{})
					us, _ := em["usize"].(float64)
					pe.dir = append(pe.dir, expectEnt{str(em, "name"), str(em, "sha256"), uint64(us)})
				}
			}
			ops, _ := cs["ops"].(map[string]interface{})
			var del []bool
			if df, ok := ops["delete_flags"].([]interface{}); ok {
				for _, x := range df {
					b, _ := x.(bool)
					del = append(del, b)
				}
			}
			var adds []addOp
			if al, ok := ops["add"].([]interface{}); ok {
				for _, x := range al {
					am, _ := x.(map[string]interface{})
					n, _ := hex.DecodeString(str(am, "name"))
					d, _ := hex.DecodeString(str(am, "data"))
					adds = append(adds, addOp{name: string(n), data: d})
				}
			}
			f64, _ := ops["force64"].(bool)
			rn.mangle(pe, kind, del, adds, f64)
			continue
		}
		z, err := hex.DecodeString(str(cs, "zip"))
		if err != nil {
			return err
		}
		out := obj{}
		for k, v := range cs {
			switch k {
			case "go", "relic", "stream", "stream_layout", "py", "model":
			default:
				out[k] = v
			}
		}
		rn.observe(out, z)
		rn.emit(out)
	}
	return nil
}
