// c17.go: driver commands c17 (generated / mangled / jar / fresh / malformed archives),
// c17big (sparse archives >= 4 GiB) and c17probe (minimal reproductions P1..P8).
package c17

import (
	"bytes"
	"encoding/hex"
	"errors"
	"fmt"
	"hash/crc32"
	"os"
	"path/filepath"
	"sort"
	"strings"
	"time"

	"github.com/sassoftware/relic/v8/lib/binpatch"
	"github.com/sassoftware/relic/v8/lib/zipslicer"
	"github.com/sassoftware/relic/v8/verifharness/core"
)

var fixedTime = time.Date(2020, 1, 2, 3, 4, 6, 0, time.UTC)

type expectEnt struct {
	Name  string `json:"name"`
	Sha   string `json:"sha256"`
	USize uint64 `json:"usize"`
}

type poolEnt struct {
	id      int
	kind    string
	sub     string
	z       []byte
	dir     []expectEnt // contents in central-directory order
	feats   []string
	relicOK bool
}

type runner struct {
	c        *core.Ctx
	r        *core.Rng
	id       int
	pool     []*poolEnt
	counts   map[string]int
	path     string
	thorough bool
	truncs   int
	selfBad  int
}

type obj = map[string]interface{}

func (rn *runner) nextID() int { rn.id++; return rn.id - 1 }

// observe adds the section-3 observations of archive z to case cs.
func (rn *runner) observe(cs obj, z []byte) (*goObs, *relicObs) {
	cs["zip"] = hx(z)
	cs["size"] = len(z)
	g := observeGo(bytes.NewReader(z), int64(len(z)), true)
	rel := observeRelic(bytes.NewReader(z), int64(len(z)), true)
	cs["go"] = g
	cs["relic"] = rel
	if err := os.WriteFile(rn.path, z, 0o644); err != nil {
		panic(err)
	}
	cs["stream"] = observeStream(rn.path, false)
	cs["stream_layout"] = observeStream(rn.path, true)
	return g, rel
}

func (rn *runner) emit(cs obj) {
	rn.counts[cs["kind"].(string)]++
	rn.c.Emit(cs)
}

func hasFeat(fs []string, f string) bool {
	for _, x := range fs {
		if x == f {
			return true
		}
	}
	return false
}

// selfcheck validates the harness writer against archive/zip's reader.
func selfcheck(a *arch, tr *truthJ, lay *layout, g *goObs) string {
	if g.Panic != "" {
		return "archive/zip panic: " + g.Panic
	}
	if g.Err != "" {
		return "archive/zip error: " + g.Err
	}
	order := cdOrder(a.ms, a.o)
	if len(g.Members) != len(order) {
		return fmt.Sprintf("member count %d, want %d", len(g.Members), len(order))
	}
	for k, idx := range order {
		t, m := tr.Members[idx], g.Members[k]
		switch {
		case m.Name != t.Name:
			return fmt.Sprintf("member %d: name", k)
		case m.Err != "":
			return fmt.Sprintf("member %d: %s", k, m.Err)
		case m.CSize != t.CSize || m.USize != t.USize:
			return fmt.Sprintf("member %d: sizes %d/%d want %d/%d", k, m.CSize, m.USize, t.CSize, t.USize)
		case m.CRC != t.CRC:
			return fmt.Sprintf("member %d: crc", k)
		case m.Method != t.Method:
			return fmt.Sprintf("member %d: method", k)
		case m.Sha != t.Sha:
			return fmt.Sprintf("member %d: sha256", k)
		case m.DataOff != lay.Data[idx]:
			return fmt.Sprintf("member %d: data offset %d want %d", k, m.DataOff, lay.Data[idx])
		}
	}
	if g.Comment != hx(a.o.Comment) {
		return "archive comment"
	}
	return ""
}

func relicAccepts(rel *relicObs, n int) bool {
	return rel.Err == "" && rel.Panic == "" && len(rel.Members) == n
}

func (rn *runner) truncateObs(z []byte) []obj {
	out := []obj{}
	d0, _, _ := relicRead(bytes.NewReader(z), int64(len(z)))
	if d0 == nil {
		return out
	}
	nf := len(d0.File)
	seen := map[int]bool{}
	for _, n := range []int{0, 1, nf - 1} {
		if n < 0 || n >= nf || seen[n] {
			continue
		}
		seen[n] = true
		d, _, _ := relicRead(bytes.NewReader(z), int64(len(z)))
		if d == nil {
			continue
		}
		var body, dir bytes.Buffer
		var e string
		p := safe(func() { e = errStr(d.Truncate(n, &body, &dir)) })
		out = append(out, obj{"n": n, "err": e, "panic": p, "body_len": body.Len(), "dir": hx(dir.Bytes())})
	}
	return out
}

func (rn *runner) emitGen(a *arch) {
	s, tr, lay := build(a.ms, a.o)
	z := s.bytes()
	feats := features(a.ms, a.o)
	cs := obj{"id": rn.nextID(), "kind": "gen", "sub": a.sub, "valid": true, "features": feats,
		"spec": specOf(a.ms, a.o), "truth": tr, "cdnames": lay.CDNames}
	g, rel := rn.observe(cs, z)
	if msg := selfcheck(a, tr, lay, g); msg != "" {
		if hasFeat(feats, "prefix") {
			// archive/zip takes the ZIP64 locator offset as an absolute file offset, so prefix + ZIP64 end
			// record is beyond what it can read; not a writer problem
			cs["writer_selfcheck_prefix"] = msg
		} else {
			cs["writer_selfcheck"] = msg
			rn.selfBad++
			fmt.Fprintf(os.Stderr, "c17: WRITER SELFCHECK FAILED id=%d sub=%q features=%v: %s\n", cs["id"], a.sub, feats, msg)
		}
	}
	ok := relicAccepts(rel, len(a.ms))
	limit := 100
	if rn.thorough {
		limit = 1000
	}
	if ok && len(a.ms) > 0 && rn.truncs < limit && (strings.HasPrefix(a.sub, "desc-cross") && strings.Contains(a.sub, "three=true lz64=false") && strings.Contains(a.sub, "method=8") || cs["id"].(int)%9 == 0) {
		cs["truncate"] = rn.truncateObs(z)
		rn.truncs++
	}
	rn.emit(cs)
	if len(z) <= 100000 {
		pe := &poolEnt{id: cs["id"].(int), kind: "gen", sub: a.sub, z: z, feats: feats, relicOK: ok}
		for _, idx := range cdOrder(a.ms, a.o) {
			t := tr.Members[idx]
			pe.dir = append(pe.dir, expectEnt{t.Name, t.Sha, t.USize})
		}
		rn.pool = append(rn.pool, pe)
	}
}

// ---------------------------------------------------------------- mangle

type addOp struct {
	name string
	data []byte
}

func applyPatch(src []byte, ps *binpatch.PatchSet) ([]byte, string) {
	idx := make([]int, len(ps.Patches))
	for i := range idx {
		idx[i] = i
	}
	sort.SliceStable(idx, func(a, b int) bool { return ps.Patches[idx[a]].Offset < ps.Patches[idx[b]].Offset })
	var out bytes.Buffer
	pos := int64(0)
	for _, i := range idx {
		h := ps.Patches[i]
		if h.Offset < pos || h.Offset+int64(h.OldSize) > int64(len(src)) {
			return nil, fmt.Sprintf("patch %d (offset %d, old %d) overlaps position %d or exceeds source length %d", i, h.Offset, h.OldSize, pos, len(src))
		}
		out.Write(src[pos:h.Offset])
		out.Write(ps.Blobs[i])
		pos = h.Offset + int64(h.OldSize)
	}
	out.Write(src[pos:])
	return out.Bytes(), ""
}

func (rn *runner) newContents(kind int) []byte {
	switch kind {
	case 0:
		return []byte{}
	case 1:
		return []byte{byte(0x30 + rn.r.Intn(40))}
	case 2:
		return text(300, rn.r.Intn(40))
	}
	return rn.r.Bytes(1000)
}

func (rn *runner) mangle(src *poolEnt, kind string, del []bool, adds []addOp, force64 bool) *poolEnt {
	cs := obj{"id": rn.nextID(), "kind": kind, "src": src.id, "src_features": src.feats}
	var delNames []string
	expect := []expectEnt{}
	for i, e := range src.dir {
		if i < len(del) && del[i] {
			delNames = append(delNames, e.Name)
		} else {
			expect = append(expect, e)
		}
	}
	if delNames == nil {
		delNames = []string{}
	}
	addJ := []obj{}
	for _, a := range adds {
		addJ = append(addJ, obj{"name": hx([]byte(a.name)), "data": hx(a.data)})
		expect = append(expect, expectEnt{hx([]byte(a.name)), shaHex(a.data), uint64(len(a.data))})
	}
	cs["ops"] = obj{"delete": delNames, "delete_flags": del, "add": addJ, "force64": force64}
	cs["expect"] = expect
	cs["sub"] = fmt.Sprintf("%s of %d (%s): delete %d add %d force64=%v", kind, src.id, src.sub, len(delNames), len(adds), force64)
	var ps *binpatch.PatchSet
	var merr string
	d, e, p := relicRead(bytes.NewReader(src.z), int64(len(src.z)))
	if d == nil {
		merr = "read: " + e + p
	} else {
		p = safe(func() {
			i := 0
			m, err := d.Mangle(func(mf *zipslicer.MangleFile) error {
				if i < len(del) && del[i] {
					mf.Delete()
				}
				i++
				return nil
			})
			if err != nil {
				merr = "Mangle: " + err.Error()
				return
			}
			for _, a := range adds {
				if err := m.NewFile(a.name, a.data); err != nil {
					merr = "NewFile: " + err.Error()
					return
				}
			}
			ps, err = m.MakePatch(force64)
			if err != nil {
				merr = "MakePatch: " + err.Error()
				ps = nil
			}
		})
		if p != "" {
			ps = nil
		}
	}
	cs["mangle_err"] = merr
	cs["mangle_panic"] = p
	if ps == nil {
		cs["zip"] = ""
		cs["size"] = 0
		rn.emit(cs)
		return nil
	}
	patches := [][3]int64{}
	var newBytes []byte
	for i, h := range ps.Patches {
		patches = append(patches, [3]int64{h.Offset, int64(h.OldSize), int64(h.NewSize)})
		newBytes = append(newBytes, ps.Blobs[i]...)
	}
	cs["patches"] = patches
	z2, perr := applyPatch(src.z, ps)
	if perr != "" {
		cs["patch_err"] = perr
		cs["zip"] = ""
		cs["size"] = 0
		rn.emit(cs)
		return nil
	}
	// writer inputs: Mangler.NewFile = NewFile(name, nil, contents, time.Now(), deflate iff non-empty, useDesc)
	wi := []obj{}
	pos := 0
	for _, a := range adds {
		method, cd := uint16(0), a.data
		if len(a.data) != 0 {
			method, cd = 8, deflateRaw(a.data, 9)
		}
		o := obj{"name": hx([]byte(a.name)), "extra": "", "cdata": hx(cd), "usize": len(a.data), "crc": crc32.ChecksumIEEE(a.data),
			"method": method, "usedesc": true}
		hl := 30 + len(a.name)
		if pos+hl+len(cd)+24 <= len(newBytes) && getLE(newBytes, int64(pos), 4) == sigLFH && bytes.Equal(newBytes[pos+hl:pos+hl+len(cd)], cd) {
			o["mtime"] = getLE(newBytes, int64(pos+10), 2)
			o["mdate"] = getLE(newBytes, int64(pos+12), 2)
		} else {
			cs["writer_inputs_err"] = fmt.Sprintf("new file %q not found at blob offset %d", a.name, pos)
		}
		pos += hl + len(cd) + 24
		wi = append(wi, o)
	}
	cs["writer_inputs"] = wi
	_, rel := rn.observe(cs, z2)
	rn.emit(cs)
	return &poolEnt{id: cs["id"].(int), kind: kind, sub: src.sub, z: z2, dir: expect, feats: src.feats, relicOK: relicAccepts(rel, len(expect))}
}

func (rn *runner) randDel(n int) []bool {
	del := make([]bool, n)
	if n == 0 {
		return del
	}
	switch rn.r.Intn(6) {
	case 0: // nothing
	case 1:
		del[0] = true
	case 2:
		del[n-1] = true
	case 3:
		for i := range del {
			del[i] = true
		}
	default:
		for i := range del {
			del[i] = rn.r.Chance(30)
		}
	}
	return del
}

func (rn *runner) mangleCases() {
	var srcs []*poolEnt
	var rest []*poolEnt
	for _, pe := range rn.pool {
		if pe.kind != "gen" || !pe.relicOK || len(pe.z) > 40000 {
			continue
		}
		if strings.HasPrefix(pe.sub, "desc-cross") && strings.Contains(pe.sub, "lz64=false") {
			srcs = append(srcs, pe)
		} else {
			rest = append(rest, pe)
		}
	}
	nrand := 60
	if rn.thorough {
		nrand = 600
	}
	// half of the random picks from featured archives, half from anything
	var featured []*poolEnt
	for _, pe := range rest {
		if len(pe.feats) > 2 {
			featured = append(featured, pe)
		}
	}
	for k := 0; k < nrand && len(rest) > 0; k++ {
		if k%2 == 0 && len(featured) > 0 {
			srcs = append(srcs, featured[rn.r.Intn(len(featured))])
		} else {
			srcs = append(srcs, rest[rn.r.Intn(len(rest))])
		}
	}
	seq := 0
	for _, src := range srcs {
		for _, force64 := range []bool{false, true} {
			if force64 && (hasFeat(src.feats, "desc12") || hasFeat(src.feats, "desc20")) {
				continue // Mangle fails on these anyway; one attempt is enough
			}
			del := rn.randDel(len(src.dir))
			var adds []addOp
			na := rn.r.Intn(4)
			for j := 0; j < na; j++ {
				adds = append(adds, addOp{fmt.Sprintf("META-INF/NEW%d-%d.SF", seq, j), rn.newContents(rn.r.Intn(4))})
			}
			seq++
			res := rn.mangle(src, "mangle", del, adds, force64)
			if res == nil || !res.relicOK {
				continue
			}
			del2 := make([]bool, len(res.dir))
			if len(del2) > 0 && rn.r.Chance(50) {
				del2[rn.r.Intn(len(del2))] = true
			}
			rn.mangle(res, "mangle2", del2, []addOp{{fmt.Sprintf("META-INF/SECOND%d.RSA", seq), rn.newContents(rn.r.Intn(4))}}, rn.r.Chance(50))
		}
	}
}

// ---------------------------------------------------------------- jar-style rewrite and fresh archives

var jarMagic = []byte{0xfe, 0xca, 0, 0}

type newFileOp struct {
	name    string
	extra   []byte
	data    []byte
	deflate bool
	useDesc bool
}

// callNewFile runs Directory.NewFile into buf and returns the writer-input record.
func callNewFile(d *zipslicer.Directory, buf *bytes.Buffer, op newFileOp) (obj, string, string) {
	start := buf.Len()
	var f *zipslicer.File
	var e string
	p := safe(func() {
		var err error
		f, err = d.NewFile(op.name, op.extra, op.data, buf, fixedTime, op.deflate, op.useDesc)
		e = errStr(err)
	})
	if p != "" || e != "" || f == nil {
		return nil, e, p
	}
	hl := start + 30 + len(op.name) + len(op.extra)
	cd := buf.Bytes()[hl : hl+int(f.CompressedSize)]
	return obj{"name": hx([]byte(op.name)), "extra": hx(op.extra), "cdata": hx(cd), "usize": f.UncompressedSize, "crc": f.CRC32,
		"method": f.Method, "mtime": f.ModifiedTime, "mdate": f.ModifiedDate, "usedesc": op.useDesc}, "", ""
}

func opsJSON(ops []newFileOp) []obj {
	out := []obj{}
	for _, op := range ops {
		out = append(out, obj{"name": hx([]byte(op.name)), "data": hx(op.data), "deflate": op.deflate, "usedesc": op.useDesc, "extra": hx(op.extra)})
	}
	return out
}

func (rn *runner) jar(src *poolEnt, ops []newFileOp, del []bool) {
	cs := obj{"id": rn.nextID(), "kind": "jar", "src": src.id, "src_features": src.feats}
	expect := []expectEnt{}
	for _, op := range ops {
		expect = append(expect, expectEnt{hx([]byte(op.name)), shaHex(op.data), uint64(len(op.data))})
	}
	delNames := []string{}
	for i, e := range src.dir {
		if del[i] {
			delNames = append(delNames, e.Name)
		} else {
			expect = append(expect, e)
		}
	}
	cs["ops"] = obj{"delete": delNames, "add": opsJSON(ops), "force64": false}
	cs["expect"] = expect
	cs["sub"] = fmt.Sprintf("jar of %d (%s): new %d delete %d", src.id, src.sub, len(ops), len(delNames))
	fail := func(what, e, p string) {
		cs["jar_err"] = strings.TrimSpace(what + " " + e)
		cs["jar_panic"] = p
		cs["zip"] = ""
		cs["size"] = 0
		rn.emit(cs)
	}
	outz := new(zipslicer.Directory)
	var front bytes.Buffer
	wi := []obj{}
	for _, op := range ops {
		o, e, p := callNewFile(outz, &front, op)
		if o == nil {
			fail("NewFile:", e, p)
			return
		}
		wi = append(wi, o)
	}
	cs["writer_inputs"] = wi
	d, e, p := relicRead(bytes.NewReader(src.z), int64(len(src.z)))
	if d == nil {
		fail("Read:", e, p)
		return
	}
	type rng struct{ off, size int64 }
	var ranges []rng
	var jerr string
	p = safe(func() {
		for i, f := range d.File {
			if i < len(del) && del[i] {
				size, err := f.GetTotalSize()
				if err != nil {
					jerr = "GetTotalSize: " + err.Error()
					return
				}
				ranges = append(ranges, rng{int64(f.Offset), size})
			} else if _, err := outz.AddFile(f); err != nil {
				jerr = "AddFile: " + err.Error()
				return
			}
		}
	})
	if jerr != "" || p != "" {
		fail(jerr, "", p)
		return
	}
	var dirbuf bytes.Buffer
	p = safe(func() { jerr = errStr(outz.WriteDirectory(&dirbuf, &dirbuf, false)) })
	if jerr != "" || p != "" {
		fail("WriteDirectory:", jerr, p)
		return
	}
	sort.SliceStable(ranges, func(a, b int) bool { return ranges[a].off < ranges[b].off })
	var out bytes.Buffer
	out.Write(front.Bytes())
	pos := int64(0)
	if d.DirLoc < 0 || d.DirLoc > int64(len(src.z)) {
		fail(fmt.Sprintf("harness: DirLoc %d outside source", d.DirLoc), "", "")
		return
	}
	body := src.z[:d.DirLoc]
	for _, g := range ranges {
		if g.off < pos || g.size < 0 || g.off+g.size > int64(len(body)) {
			cs["patch_err"] = fmt.Sprintf("deleted range (%d,%d) overlaps position %d or exceeds body length %d", g.off, g.size, pos, len(body))
			cs["zip"] = ""
			cs["size"] = 0
			rn.emit(cs)
			return
		}
		out.Write(body[pos:g.off])
		pos = g.off + g.size
	}
	out.Write(body[pos:])
	out.Write(dirbuf.Bytes())
	cs["jar_err"], cs["jar_panic"] = "", ""
	rn.observe(cs, out.Bytes())
	rn.emit(cs)
}

func (rn *runner) jarCases() {
	var plain, feat []*poolEnt
	for _, pe := range rn.pool {
		if pe.kind != "gen" || !pe.relicOK || len(pe.z) > 40000 {
			continue
		}
		if len(pe.feats) <= 1 {
			plain = append(plain, pe)
		} else {
			feat = append(feat, pe)
		}
	}
	n := 90
	if rn.thorough {
		n = 900
	}
	for k := 0; k < n; k++ {
		set := plain
		if k%3 == 2 || len(plain) == 0 {
			set = feat
		}
		if len(set) == 0 {
			break
		}
		src := set[rn.r.Intn(len(set))]
		deflate := rn.r.Chance(50)
		all := []newFileOp{
			{"META-INF/", jarMagic, []byte{}, false, false},
			{"META-INF/MANIFEST.MF", jarMagic, text(80+rn.r.Intn(300), k), deflate, false},
			{"META-INF/SIGNER.SF", nil, text(60+rn.r.Intn(300), k+1), deflate, false},
			{"META-INF/SIGNER.RSA", nil, rn.r.Bytes(200 + rn.r.Intn(800)), deflate, false},
		}
		ops := all[:2+rn.r.Intn(3)]
		if rn.r.Chance(10) {
			ops[1].data = []byte{} // empty manifest, deflate of nothing
		}
		del := make([]bool, len(src.dir))
		for i := range del {
			del[i] = rn.r.Chance(30)
		}
		rn.jar(src, ops, del)
	}
}

func (rn *runner) fresh(ops []newFileOp, force64 bool, sub string) {
	cs := obj{"id": rn.nextID(), "kind": "fresh", "sub": sub, "ops": obj{"add": opsJSON(ops), "force64": force64}}
	expect := []expectEnt{}
	for _, op := range ops {
		expect = append(expect, expectEnt{hx([]byte(op.name)), shaHex(op.data), uint64(len(op.data))})
	}
	cs["expect"] = expect
	d := new(zipslicer.Directory)
	var buf bytes.Buffer
	wi := []obj{}
	for _, op := range ops {
		o, e, p := callNewFile(d, &buf, op)
		if o == nil {
			cs["fresh_err"], cs["fresh_panic"], cs["zip"], cs["size"] = "NewFile: "+e, p, "", 0
			rn.emit(cs)
			return
		}
		wi = append(wi, o)
	}
	cs["writer_inputs"] = wi
	var e string
	p := safe(func() { e = errStr(d.WriteDirectory(&buf, &buf, force64)) })
	cs["fresh_err"], cs["fresh_panic"] = e, p
	if e != "" || p != "" {
		cs["zip"], cs["size"] = "", 0
		rn.emit(cs)
		return
	}
	rn.observe(cs, buf.Bytes())
	rn.emit(cs)
}

func (rn *runner) freshCases() {
	tlv8 := []byte{0xfe, 0xca, 4, 0, 1, 2, 3, 4}
	rn.fresh(nil, false, "no files")
	rn.fresh(nil, true, "no files force64")
	mkData := func(n int) []byte {
		switch n {
		case 0:
			return []byte{}
		case 1:
			return []byte("Q")
		case 300:
			return text(300, rn.r.Intn(30))
		}
		d := text(n, 3)
		copy(d[500:], rn.r.Bytes(2000))
		return d
	}
	for _, n := range []int{0, 1, 300, 70000} {
		for _, deflate := range []bool{false, true} {
			for _, useDesc := range []bool{false, true} {
				for _, extra := range [][]byte{nil, tlv8} {
					for _, force64 := range []bool{false, true} {
						if n == 70000 && (extra != nil || force64) {
							continue
						}
						op := newFileOp{fmt.Sprintf("f%d.dat", n), extra, mkData(n), deflate, useDesc}
						rn.fresh([]newFileOp{op}, force64, fmt.Sprintf("single size=%d deflate=%v usedesc=%v extra=%d", n, deflate, useDesc, len(extra)))
						if n <= 1 { // the same file followed by another one: offsets after an empty/1-byte member
							op2 := newFileOp{"next.txt", nil, []byte("next"), false, useDesc}
							rn.fresh([]newFileOp{op, op2}, force64, fmt.Sprintf("pair size=%d deflate=%v usedesc=%v extra=%d", n, deflate, useDesc, len(extra)))
						}
					}
				}
			}
		}
	}
	n := 60
	if rn.thorough {
		n = 600
	}
	big := 2
	for k := 0; k < n; k++ {
		var ops []newFileOp
		nf := rn.r.Intn(7)
		for i := 0; i < nf; i++ {
			size := rn.r.Pick(0, 0, 1, 300, 300)
			if big > 0 && rn.r.Chance(2) {
				size = 70000
				big--
			}
			var extra []byte
			if rn.r.Chance(30) {
				extra = tlv8
			}
			ops = append(ops, newFileOp{fmt.Sprintf("r%d/file%d", k, i), extra, mkData(size), rn.r.Chance(50), rn.r.Chance(50)})
		}
		rn.fresh(ops, rn.r.Chance(30), fmt.Sprintf("random files=%d", nf))
	}
}

func (rn *runner) malformedCases(g *gen) {
	for _, mc := range g.malformed() {
		cs := obj{"id": rn.nextID(), "kind": "malformed", "sub": mc.sub, "valid": false}
		rn.observe(cs, mc.z)
		rn.emit(cs)
	}
}

func runC17(c *core.Ctx) error {
	if c.Scratch == "" {
		return errors.New("c17 needs -scratch")
	}
	if err := os.MkdirAll(c.Scratch, 0o755); err != nil {
		return err
	}
	t0 := time.Now()
	rn := &runner{c: c, r: &core.Rng{S: c.Seed}, counts: map[string]int{}, path: filepath.Join(c.Scratch, "c17-stream.zip"),
		thorough: c.Tier == "thorough"}
	defer os.Remove(rn.path)
	g := &gen{r: rn.r, big64k: 4}
	if rn.thorough {
		g.big64k = 40
	}
	for _, a := range g.enumerate(rn.thorough) {
		rn.emitGen(a)
	}
	n := 650
	if rn.thorough {
		n = 6500
	}
	if c.N > 0 {
		n = c.N
	}
	for k := 0; k < n; k++ {
		rn.emitGen(g.random(k))
	}
	rn.mangleCases()
	rn.jarCases()
	rn.freshCases()
	rn.malformedCases(g)
	var kinds []string
	total := 0
	for k, v := range rn.counts {
		kinds = append(kinds, fmt.Sprintf("%s=%d", k, v))
		total += v
	}
	sort.Strings(kinds)
	fmt.Fprintf(os.Stderr, "c17: %d cases (%s), truncate on %d, writer selfcheck failures %d, %.1fs\n",
		total, strings.Join(kinds, " "), rn.truncs, rn.selfBad, time.Since(t0).Seconds())
	return nil
}

// ---------------------------------------------------------------- archives >= 4 GiB (sparse)

// zeroCRCs returns the CRC-32 of n zero bytes for each n (one streaming pass).
func zeroCRCs(sizes []uint64) map[uint64]uint32 {
	sorted := append([]uint64(nil), sizes...)
	sort.Slice(sorted, func(a, b int) bool { return sorted[a] < sorted[b] })
	out := map[uint64]uint32{}
	zero := make([]byte, 1<<20)
	var crc uint32
	var done uint64
	for _, n := range sorted {
		for done < n {
			k := n - done
			if k > uint64(len(zero)) {
				k = uint64(len(zero))
			}
			crc = crc32.Update(crc, crc32.IEEETable, zero[:k])
			done += k
		}
		out[n] = crc
	}
	return out
}

func bigMember(name string, n uint64, crc uint32) *Member {
	return &Member{Name: []byte(name), Creator: 45, Reader: 45, Method: 0, MTime: fixedMTime, MDate: fixedMDate,
		CRC: crc, ZeroLen: n, USize: n}
}

func segsJSON(s *sink) [][2]interface{} {
	out := [][2]interface{}{}
	for _, g := range s.segs {
		out = append(out, [2]interface{}{g.Off, hx(g.B)})
	}
	return out
}

func runC17Big(c *core.Ctx) error {
	t0 := time.Now()
	r := &core.Rng{S: c.Seed ^ 0xb17}
	g := &gen{r: r}
	sizes := []uint64{0xfffffffe, 0xffffffff, 0x100000000, 0x100000001}
	crcs := zeroCRCs(sizes)
	id := 0
	emit := func(sub string, ms []*Member, o *Opts) {
		s, tr, lay := build(ms, o)
		sr := s.reader()
		feats := features(ms, o)
		feats = append(feats, "big")
		sort.Strings(feats)
		cs := obj{"id": id, "kind": "big", "sub": sub, "valid": true, "features": feats, "spec": specOf(ms, o), "truth": tr,
			"cdnames": lay.CDNames, "segs": segsJSON(s), "size": sr.size}
		id++
		cs["go"] = observeGo(sr, sr.size, false)
		cs["relic"] = observeRelic(sr, sr.size, false)
		c.Emit(cs)
	}
	small := func(name string, data string, method uint16) *Member { return g.member(name, []byte(data), method) }
	goStyle := func(m *Member) { m.SatU, m.SatC, m.SatO, m.Z64Last, m.Reader = true, true, true, true, 45 }
	mode := 0
	for _, n := range sizes {
		for _, style := range []string{"go", "appnote"} {
			variants := []string{"desc24", "lz64"}
			if n < max32 {
				variants = append(variants, "plain")
			}
			for _, v := range variants {
				for _, three := range []bool{false, true} {
					b := bigMember("big.bin", n, crcs[n])
					switch v {
					case "desc24":
						b.Desc = 3
					case "lz64":
						b.LZ64 = true
					}
					after := small("after.txt", "after the big one", 0)
					ms := []*Member{b, after}
					if three {
						ms = []*Member{small("before.txt", "before", 8), b, after}
					}
					if style == "go" {
						goStyle(after)
						goStyle(b)
					}
					o := defOpts()
					o.Zip64End = mode % 3
					mode++
					emit(fmt.Sprintf("big n=%#x style=%s variant=%s three=%v zip64end=%d", n, style, v, three, o.Zip64End), ms, o)
				}
			}
		}
	}
	// partial saturation around a big member
	n := uint64(0x100000000)
	for mask := 1; mask < 8; mask++ {
		before := small("before.txt", "before", 0)
		before.SatU, before.SatC, before.Reader = mask&1 != 0, mask&2 != 0, 45
		b := bigMember("big.bin", n, crcs[n])
		b.Desc = 3
		after := small("after.txt", "after", 8)
		after.SatU, after.SatC, after.Z64Last, after.Reader = mask&2 != 0, mask&4 != 0, mask&1 != 0, 45 // offset saturates by value
		after.CExtra = g.extra(8)
		o := defOpts()
		o.Zip64End = mask % 3
		emit(fmt.Sprintf("big partial-sat mask=%d zip64end=%d", mask, o.Zip64End), []*Member{before, b, after}, o)
	}
	// two big members: everything of the second one is >= 4 GiB
	{
		b1 := bigMember("big1.bin", sizes[0], crcs[sizes[0]])
		b1.Desc = 3
		b2 := bigMember("big2.bin", sizes[3], crcs[sizes[3]])
		b2.LZ64 = true
		emit("big two big members", []*Member{b1, b2, small("tail", "tail", 0)}, defOpts())
	}
	fmt.Fprintf(os.Stderr, "c17big: %d cases, %.1fs\n", id, time.Since(t0).Seconds())
	return nil
}

// ---------------------------------------------------------------- probes

func goSummary(g *goObs) string {
	if g.Panic != "" {
		return "PANIC " + g.Panic
	}
	if g.Err != "" {
		return "error: " + g.Err
	}
	var parts []string
	for _, m := range g.Members {
		name, _ := hexDecode(m.Name)
		s := fmt.Sprintf("%s(csize=%d usize=%d dataoff=%d", name, m.CSize, m.USize, m.DataOff)
		if m.Err != "" {
			s += " ERR=" + m.Err
		}
		parts = append(parts, s+")")
	}
	return fmt.Sprintf("ok, %d members: %s", len(g.Members), strings.Join(parts, " "))
}

func relicSummary(o *relicObs) string {
	if o.Panic != "" {
		return "PANIC " + o.Panic
	}
	if o.Err != "" {
		return "error: " + o.Err
	}
	var parts []string
	for _, m := range o.Members {
		name, _ := hexDecode(m.Name)
		s := fmt.Sprintf("%s(off=%d csize=%d usize=%d total=%d ddlen=%d", name, m.Off, m.CSize, m.USize, m.Total, m.DDLen)
		for _, e := range []string{m.TotalErr, m.OpenErr, m.Panic} {
			if e != "" {
				s += " ERR=" + e
				break
			}
		}
		parts = append(parts, s+")")
	}
	return fmt.Sprintf("ok, dirloc=%d, %d members: %s", o.DirLoc, len(o.Members), strings.Join(parts, " "))
}

func hexDecode(s string) (string, error) {
	b, err := hex.DecodeString(s)
	return string(b), err
}

func runC17Probe(c *core.Ctx) error {
	g := &gen{r: &core.Rng{S: 17}}
	report := func(id, title, input string, lines []string, extra obj) {
		fmt.Fprintf(os.Stderr, "%s %s\n", id, title)
		if input != "" {
			fmt.Fprintf(os.Stderr, "  input: %s\n", input)
		}
		for _, l := range lines {
			fmt.Fprintf(os.Stderr, "  %s\n", l)
		}
		cs := obj{"id": id, "kind": "probe", "sub": title, "input": input, "lines": lines}
		for k, v := range extra {
			cs[k] = v
		}
		c.Emit(cs)
	}
	both := func(z []byte) (*goObs, *relicObs, []string) {
		gz := observeGo(bytes.NewReader(z), int64(len(z)), true)
		rz := observeRelic(bytes.NewReader(z), int64(len(z)), true)
		return gz, rz, []string{"archive/zip: " + goSummary(gz), "relic Read:  " + relicSummary(rz)}
	}

	// P1
	{
		d := new(zipslicer.Directory)
		var buf bytes.Buffer
		var lines []string
		p := safe(func() {
			if _, err := d.NewFile("a", nil, []byte{}, &buf, fixedTime, false, true); err != nil {
				panic(err)
			}
			if _, err := d.NewFile("b", nil, []byte("hello"), &buf, fixedTime, true, true); err != nil {
				panic(err)
			}
			if err := d.WriteDirectory(&buf, &buf, false); err != nil {
				panic(err)
			}
		})
		z := append([]byte(nil), buf.Bytes()...)
		if p != "" {
			lines = append(lines, "PANIC/err while writing: "+p)
		}
		gz, rz, l := both(z)
		lines = append(lines, l...)
		if len(rz.Members) > 0 {
			lines = append(lines, fmt.Sprintf("GetTotalSize(a) = %d (true size 30+1+0+24 = 55), descriptor length seen = %d (written 24)", rz.Members[0].Total, rz.Members[0].DDLen))
		}
		// Mangle: delete nothing, add "c"
		var z2 []byte
		var merr string
		mp := safe(func() {
			d2, err := zipslicer.Read(bytes.NewReader(z), int64(len(z)))
			if err != nil {
				merr = err.Error()
				return
			}
			m, err := d2.Mangle(func(*zipslicer.MangleFile) error { return nil })
			if err != nil {
				merr = err.Error()
				return
			}
			if err := m.NewFile("c", []byte("ccc")); err != nil {
				merr = err.Error()
				return
			}
			ps, err := m.MakePatch(false)
			if err != nil {
				merr = err.Error()
				return
			}
			z2, merr = applyPatch(z, ps)
		})
		lines = append(lines, fmt.Sprintf("Mangle(delete nothing, add c): err=%q panic=%q", merr, mp))
		extra := obj{"go": gz, "relic": rz}
		if z2 != nil {
			g2, r2, l2 := both(z2)
			lines = append(lines, "result: "+hx(z2))
			lines = append(lines, "result "+l2[0], "result "+l2[1])
			want := []string{shaHex([]byte{}), shaHex([]byte("hello")), shaHex([]byte("ccc"))}
			ok := g2.Err == "" && len(g2.Members) == 3
			if ok {
				for i, w := range want {
					if g2.Members[i].Sha != w || g2.Members[i].Err != "" {
						ok = false
					}
				}
			}
			lines = append(lines, fmt.Sprintf("VERDICT: archive/zip reads the mangled archive correctly: %v", ok))
			extra["result"] = hx(z2)
			extra["result_go"] = g2
			extra["result_relic"] = r2
		}
		report("P1", "relic-written empty member with 24-byte descriptor, then Mangle", hx(z), lines, extra)
	}
	plain := func() []byte {
		s, _, _ := build([]*Member{g.member("a", []byte("aaa"), 0), g.member("b", text(50, 0), 8)}, defOpts())
		return s.bytes()
	}
	// P2
	{
		z := plain()
		_, rz, l := both(z)
		l = append(l, fmt.Sprintf("GetOriginalDirectory(false): err=%q panic=%q", rz.OrigFalse.Err, rz.OrigFalse.Panic))
		l = append(l, fmt.Sprintf("GetOriginalDirectory(true):  err=%q panic=%q cd=%d bytes eod=%d bytes", rz.OrigTrue.Err, rz.OrigTrue.Panic, len(rz.OrigTrue.CD)/2, len(rz.OrigTrue.EOD)/2))
		report("P2", "GetOriginalDirectory on a freshly read archive", hx(z), l, obj{"relic": rz})
	}
	// P3
	{
		o := defOpts()
		o.Comment = []byte("c")
		s, _, _ := build([]*Member{g.member("a", []byte("aaa"), 0)}, o)
		z := s.bytes()
		gz, rz, l := both(z)
		report("P3", "archive with a 1-byte archive comment", hx(z), l, obj{"go": gz, "relic": rz})
	}
	// P4
	{
		o := defOpts()
		o.Prefix = []byte("X")
		s, _, _ := build([]*Member{g.member("a", []byte("aaa"), 0)}, o)
		z := s.bytes()
		gz, rz, l := both(z)
		report("P4", "archive with a 1-byte prefix (offsets relative to the end of the prefix)", hx(z), l, obj{"go": gz, "relic": rz})
	}
	// P5
	{
		m := g.member("a", []byte("aaa"), 0)
		m.Desc = 2
		s, _, _ := build([]*Member{m}, defOpts())
		z := s.bytes()
		gz, rz, l := both(z)
		report("P5", "member with a 12-byte descriptor without signature", hx(z), l, obj{"go": gz, "relic": rz})
	}
	// P6
	{
		s, _, _ := build(nil, defOpts())
		z := s.bytes()
		gz, rz, l := both(z)
		report("P6", "empty archive (22 bytes)", hx(z), l, obj{"go": gz, "relic": rz})
	}
	// P7, P8
	n := uint64(0x100000000)
	crc := zeroCRCs([]uint64{n})[n]
	{
		b := bigMember("big.bin", n, crc)
		b.Desc = 3
		s, _, _ := build([]*Member{b, g.member("after.txt", []byte("after"), 0)}, defOpts())
		sr := s.reader()
		gz := observeGo(sr, sr.size, false)
		rz := observeRelic(sr, sr.size, false)
		segs, _ := jsonString(segsJSON(s))
		report("P7", "sparse archive > 4 GiB, second member's central entry has an offset-only (8-byte) ZIP64 record",
			fmt.Sprintf("size=%d segs=%s", sr.size, segs),
			[]string{"archive/zip: " + goSummary(gz), "relic Read:  " + relicSummary(rz)}, obj{"go": gz, "relic": rz, "segs": segsJSON(s), "size": sr.size})
	}
	{
		b := bigMember("big.bin", n, crc)
		b.Desc = 3
		after := g.member("after.txt", []byte("after"), 0)
		after.SatU, after.SatC, after.SatO = true, true, true // readable by relic
		s, _, _ := build([]*Member{b, after}, defOpts())
		sr := s.reader()
		var lines []string
		var w1, w2, w3 bytes.Buffer
		p := safe(func() {
			d, err := zipslicer.Read(sr, sr.size)
			if err != nil {
				panic(err)
			}
			outz := new(zipslicer.Directory)
			var front bytes.Buffer
			if _, err := outz.NewFile("x", nil, []byte("x"), &front, fixedTime, false, false); err != nil {
				panic(err)
			}
			for _, f := range d.File {
				if _, err := outz.AddFile(f); err != nil { // offsets shift by len(front): raw is dropped
					panic(err)
				}
			}
			if err := outz.WriteDirectory(&w1, &w1, false); err != nil {
				panic(err)
			}
			if err := outz.WriteDirectory(&w2, &w2, false); err != nil {
				panic(err)
			}
			if err := outz.WriteDirectory(&w3, &w3, false); err != nil {
				panic(err)
			}
		})
		if p != "" {
			lines = append(lines, "PANIC/err: "+p)
		}
		lines = append(lines, fmt.Sprintf("WriteDirectory #1: %d bytes %s", w1.Len(), hx(w1.Bytes())))
		lines = append(lines, fmt.Sprintf("WriteDirectory #2: %d bytes %s", w2.Len(), hx(w2.Bytes())))
		lines = append(lines, fmt.Sprintf("WriteDirectory #3: %d bytes", w3.Len()))
		lines = append(lines, fmt.Sprintf("VERDICT: second call output identical to first: %v", bytes.Equal(w1.Bytes(), w2.Bytes())))
		segs, _ := jsonString(segsJSON(s))
		report("P8", "WriteDirectory twice on a directory with a regenerated entry >= 4 GiB",
			fmt.Sprintf("size=%d segs=%s", sr.size, segs), lines, obj{"wd_first": hx(w1.Bytes()), "wd_second": hx(w2.Bytes()), "segs": segsJSON(s), "size": sr.size})
	}
	return nil
}

func jsonString(v [][2]interface{}) (string, error) {
	var parts []string
	for _, e := range v {
		parts = append(parts, fmt.Sprintf("[%d,\"%s\"]", e[0], e[1]))
	}
	return "[" + strings.Join(parts, ",") + "]", nil
}

func init() {
	core.Register("c17", runC17)
	core.Register("c17big", runC17Big)
	core.Register("c17probe", runC17Probe)
	core.Register("c17replay", runC17Replay)
}
