// gen.go: generators of archive descriptions (deterministic enumeration + random part) and of
// malformed archives derived from valid ones.
package c17

import (
	"bytes"
	"compress/flate"
	"fmt"
	"hash/crc32"

	"github.com/sassoftware/relic/v8/verifharness/core"
)

type arch struct {
	ms  []*Member
	o   *Opts
	sub string
}

type gen struct {
	r      *core.Rng
	big64k int // remaining budget of ~64 KiB members in the random part
}

const (
	fixedMTime = 0x1883 // 03:04:06
	fixedMDate = 0x5022 // 2020-01-02
)

func defOpts() *Opts { return &Opts{E64Creator: 45, E64Reader: 45} }

func deflateRaw(data []byte, level int) []byte {
	var b bytes.Buffer
	w, err := flate.NewWriter(&b, level)
	if err != nil {
		panic(err)
	}
	w.Write(data)
	w.Close()
	return b.Bytes()
}

// text returns n printable bytes (never contains "PK").
func text(n int, salt int) []byte {
	const alpha = "The quick brown fox jumps over the lazy dog 0123456789\n"
	b := make([]byte, n)
	for i := range b {
		b[i] = alpha[(i+salt)%len(alpha)]
	}
	return b
}

// data: n bytes, either random or compressible text.
func (g *gen) data(n int) []byte {
	if n == 0 {
		return []byte{}
	}
	switch g.r.Intn(3) {
	case 0:
		return g.r.Bytes(n)
	case 1:
		return text(n, g.r.Intn(50))
	}
	b := text(n, g.r.Intn(50))
	half := g.r.Bytes(n / 2)
	copy(b[n/4:], half)
	return b
}

func (g *gen) member(name string, data []byte, method uint16) *Member {
	m := &Member{Name: []byte(name), Creator: 20, Reader: 20, Method: method, MTime: fixedMTime, MDate: fixedMDate,
		Data: data, USize: uint64(len(data)), CRC: crc32.ChecksumIEEE(data), Sha: shaHex(data)}
	if method == 8 {
		m.CData = deflateRaw(data, g.r.Pick(1, 6, 9, -1))
	} else {
		m.CData = data
	}
	return m
}

var extraTags = []uint16{0x5455, 0xcafe, 0x000a, 0x7875, 0x000d, 0x4453}

// extra builds L bytes of well-formed TLV records (tags never 1). L must be 0 or >= 4.
func (g *gen) extra(L int) []byte {
	var b wb
	rem := L
	for rem > 0 {
		if rem < 4 {
			panic("extra: bad length")
		}
		size := rem - 4
		if rem >= 12 && g.r.Chance(50) {
			size = g.r.Intn(rem - 7) // leaves >= 4 bytes for another record
			if rem-4-size < 4 && rem-4-size != 0 {
				size = rem - 4
			}
		}
		b.u16(extraTags[g.r.Intn(len(extraTags))])
		b.u16(uint16(size))
		b.Write(g.r.Bytes(size))
		rem -= 4 + size
	}
	return b.Bytes()
}

// nameN: i-th name of exactly L bytes.
func nameN(i, L int) string {
	switch {
	case L <= 1:
		return string([]byte{byte('a' + i%26)})
	case L == 2:
		return string([]byte{byte('a' + (i/26)%26), byte('a' + i%26)})
	}
	s := fmt.Sprintf("f%03d_", i)
	if L < len(s) {
		return s[:L]
	}
	return s + string(bytes.Repeat([]byte{'x'}, L-len(s)))
}

func larger(g *gen) []byte { return text(300, g.r.Intn(40)) }

func (g *gen) enumerate(thorough bool) []*arch {
	var out []*arch
	add := func(sub string, o *Opts, ms ...*Member) {
		if o == nil {
			o = defOpts()
		}
		out = append(out, &arch{ms, o, sub})
	}
	opt := func(f func(o *Opts)) *Opts { o := defOpts(); f(o); return o }

	// A. empty archives
	for mode := 0; mode <= 2; mode++ {
		add(fmt.Sprintf("empty zip64end=%d", mode), opt(func(o *Opts) { o.Zip64End = mode }))
	}
	add("empty comment=1", opt(func(o *Opts) { o.Comment = []byte("c") }))
	add("empty prefix=1", opt(func(o *Opts) { o.Prefix = []byte("X") }))

	// B. descriptor cross product: Desc x data x method x {single, first of three} x lz64
	kinds := []string{"empty", "one", "larger"}
	for _, three := range []bool{false, true} {
		for _, lz := range []bool{false, true} {
			for desc := 0; desc <= 4; desc++ {
				for _, dk := range kinds {
					for _, method := range []uint16{0, 8} {
						var data []byte
						switch dk {
						case "empty":
							data = []byte{}
						case "one":
							data = []byte{byte(0x41 + desc)}
						default:
							data = larger(g)
						}
						m := g.member("a.txt", data, method)
						m.Desc = desc
						m.LZ64 = lz
						if lz || desc >= 3 {
							m.Reader = 45
						}
						ms := []*Member{m}
						if three {
							ms = append(ms, g.member("b.txt", []byte("hello"), 0), g.member("c.txt", larger(g), 8))
						}
						add(fmt.Sprintf("desc-cross desc=%d data=%s method=%d three=%v lz64=%v", desc, dk, method, three, lz), nil, ms...)
					}
				}
			}
		}
	}

	// B2. empty member + descriptor width x version-needed, first of two (the width of an empty member's descriptor cannot be
	// inferred from its contents; relic decides by version-needed)
	for _, desc := range []int{1, 3} {
		for _, rd := range []uint16{10, 20, 44, 45, 46, 63} {
			for _, method := range []uint16{0, 8} {
				m := g.member("e.txt", []byte{}, method)
				m.Desc = desc
				m.Reader = rd
				add(fmt.Sprintf("empty-desc desc=%d reader=%d method=%d", desc, rd, method), nil, m, g.member("b.txt", []byte("hello"), 0))
				m2 := g.member("e.txt", []byte{}, method)
				m2.Desc = desc
				m2.Reader = rd
				add(fmt.Sprintf("empty-desc-last desc=%d reader=%d method=%d", desc, rd, method), nil, g.member("b.txt", []byte("hello"), 0), m2)
			}
		}
	}

	// C. central saturation flags, all 8 combinations x Z64Last x lz64 on a 2-member archive
	for mask := 0; mask < 8; mask++ {
		for _, last := range []bool{false, true} {
			for _, lz := range []bool{false, true} {
				m0 := g.member("first.bin", text(40, mask), 8)
				m1 := g.member("second.bin", g.r.Bytes(17), 0)
				m0.CExtra = g.extra(8)
				for _, m := range []*Member{m0, m1} {
					m.SatU, m.SatC, m.SatO = mask&1 != 0, mask&2 != 0, mask&4 != 0
					m.Z64Last = last
					m.LZ64 = lz
					m.Reader = 45
				}
				add(fmt.Sprintf("sat mask=%d z64last=%v lz64=%v", mask, last, lz), nil, m0, m1)
			}
		}
	}
	// C2. saturation on the second member only, with a descriptor on the first
	for mask := 1; mask < 8; mask++ {
		m0 := g.member("first.bin", text(40, mask), 8)
		m0.Desc = 1
		m1 := g.member("second.bin", g.r.Bytes(17), 0)
		m1.SatU, m1.SatC, m1.SatO = mask&1 != 0, mask&2 != 0, mask&4 != 0
		m1.Reader = 45
		add(fmt.Sprintf("sat-second mask=%d", mask), opt(func(o *Opts) { o.Zip64End = 1 }), m0, m1)
	}

	// D. name lengths
	for _, L := range []int{1, 2, 255, 65535} {
		add(fmt.Sprintf("namelen=%d single", L), nil, g.member(nameN(0, L), []byte("data"), 0))
		if L != 65535 {
			add(fmt.Sprintf("namelen=%d three", L), nil, g.member(nameN(0, L), []byte("data"), 0),
				g.member(nameN(1, L), text(100, 1), 8), g.member(nameN(2, L), []byte{}, 0))
		}
	}
	{
		m0 := g.member(nameN(0, 65535), text(10, 0), 8)
		m0.Desc = 1
		add("namelen=65535 two desc16", nil, m0, g.member("tail", []byte("t"), 0))
	}

	// E. extra-field lengths
	for _, L := range []int{4, 8, 255, 65535 - 28} {
		for _, where := range []string{"l", "c", "lc"} {
			if L > 255 && where != "lc" {
				continue
			}
			m := g.member("e.bin", text(20, L), 8)
			if where != "c" {
				m.LExtra = g.extra(L)
			}
			if where != "l" {
				m.CExtra = g.extra(L)
			}
			if L > 255 {
				// room was left for the ZIP64 records: use it
				m.LZ64, m.SatU, m.SatC, m.SatO, m.Reader = true, true, true, true, 45
			}
			add(fmt.Sprintf("extralen=%d where=%s", L, where), nil, m, g.member("z", []byte("z"), 0))
		}
	}
	for _, L := range []int{4, 8, 255} {
		m := g.member("e.bin", text(20, L), 0)
		m.LExtra, m.CExtra = g.extra(L), g.extra(L)
		m.Desc = 1 + L%4
		add(fmt.Sprintf("extralen=%d desc=%d", L, m.Desc), nil, m, g.member("z", []byte("z"), 0))
	}

	// F. per-file comments
	for _, L := range []int{1, 255, 65535} {
		m := g.member("c.txt", []byte("commented"), 0)
		m.Comment = text(L, 3)
		add(fmt.Sprintf("filecomment=%d", L), nil, g.member("b", []byte("b"), 0), m)
	}

	// G. archive comments x zip64 end modes
	for _, L := range []int{1, 22, 255, 65535} {
		for mode := 0; mode <= 2; mode++ {
			if L == 65535 && mode != 0 {
				continue
			}
			add(fmt.Sprintf("archivecomment=%d zip64end=%d", L, mode),
				opt(func(o *Opts) { o.Comment = text(L, 7); o.Zip64End = mode }),
				g.member("a", []byte("aaa"), 0), g.member("b", text(50, 0), 8))
		}
	}

	// H. prefixes and zip64 end modes
	for _, P := range []int{0, 1, 100} {
		for mode := 0; mode <= 2; mode++ {
			for _, desc := range []int{0, 1} {
				m := g.member("a", []byte("aaa"), 0)
				m.Desc = desc
				add(fmt.Sprintf("prefix=%d zip64end=%d desc=%d", P, mode, desc),
					opt(func(o *Opts) { o.Prefix = text(P, 11); o.Zip64End = mode }), m, g.member("b", text(50, 0), 8))
			}
		}
	}
	// zip64 end record versions
	for _, v := range [][2]uint16{{45, 45}, {20, 20}, {0x031e, 45}, {63, 63}, {45, 46}} {
		add(fmt.Sprintf("e64versions=%d/%d", v[0], v[1]),
			opt(func(o *Opts) { o.Zip64End = 1; o.E64Creator, o.E64Reader = v[0], v[1] }), g.member("a", []byte("aaa"), 0))
	}

	// I. reader x creator x utf8 flag
	for _, rd := range []uint16{10, 20, 45, 46, 63} {
		for _, cr := range []uint16{20, 45, 0x031e} {
			m := g.member("v.txt", text(30, int(rd)), 8)
			m.Reader, m.Creator = rd, cr
			if (int(rd)+int(cr))%2 == 1 {
				m.Flags = 0x800
			}
			if cr == 0x031e {
				m.EAttrs = 0x81a40000
			}
			add(fmt.Sprintf("reader=%d creator=%d flags=%#x", rd, cr, m.Flags), nil, m, g.member("w.txt", []byte("w"), 0))
		}
	}
	for _, fl := range []uint16{0x800, 0x2, 0x4, 0x6, 0x806} {
		m := g.member("fl\xc3\xa9.txt", text(30, int(fl)), 8)
		m.Flags = fl
		add(fmt.Sprintf("flags=%#x", fl), nil, m)
	}

	// J. data sizes x method
	for _, n := range []int{0, 1, 2, 100, 65535, 65536, 65537} {
		for _, method := range []uint16{0, 8} {
			var d []byte
			if n >= 65535 && method == 8 {
				d = text(n, 5)
				copy(d[1000:], g.r.Bytes(3000))
			} else {
				d = g.data(n)
			}
			add(fmt.Sprintf("size=%d method=%d", n, method), nil, g.member("s.bin", d, method))
		}
	}
	{
		d := g.r.Bytes(65536)
		m := g.member("s.bin", d, 8) // incompressible: csize > usize
		m.Desc = 3
		add("size=65536 method=8 random desc24", nil, m, g.member("t", []byte("t"), 0))
	}

	// K. member counts 0..40
	for n := 0; n <= 40; n++ {
		var ms []*Member
		for i := 0; i < n; i++ {
			m := g.member(fmt.Sprintf("dir/file%02d.txt", i), g.data(g.r.Intn(200)), uint16(8*g.r.Intn(2)))
			if g.r.Chance(25) {
				m.Desc = g.r.Pick(1, 1, 3)
			}
			ms = append(ms, m)
		}
		add(fmt.Sprintf("count=%d", n), nil, ms...)
	}

	// L. gaps, gap before the directory, reversed directory order
	for _, desc := range []int{0, 1, 3} {
		mk := func() []*Member {
			a := g.member("a", []byte("aaa"), 0)
			a.Desc = desc
			return []*Member{a, g.member("b", text(50, 0), 8), g.member("c", []byte{}, 0)}
		}
		add(fmt.Sprintf("gap-first desc=%d", desc), opt(func(o *Opts) { o.Gaps = [][]byte{[]byte("JUNKJUNK"), nil, nil} }), mk()...)
		add(fmt.Sprintf("gap-middle desc=%d", desc), opt(func(o *Opts) { o.Gaps = [][]byte{nil, []byte("J"), []byte("UNK")} }), mk()...)
		add(fmt.Sprintf("gapcd desc=%d", desc), opt(func(o *Opts) { o.GapCD = []byte("signature-block-goes-here") }), mk()...)
		add(fmt.Sprintf("cd-reversed desc=%d", desc), opt(func(o *Opts) { o.CDOrder = []int{2, 1, 0} }), mk()...)
		add(fmt.Sprintf("cd-rotated desc=%d", desc), opt(func(o *Opts) { o.CDOrder = []int{1, 2, 0} }), mk()...)
	}

	// M. directory entries
	{
		d0 := g.member("META-INF/", []byte{}, 0)
		d0.EAttrs = 0x10
		add("dir-entry first", nil, d0, g.member("META-INF/MANIFEST.MF", []byte("Manifest-Version: 1.0\r\n\r\n"), 8))
		d1 := g.member("d/", []byte{}, 0)
		add("dir-entry only", nil, d1)
		d2 := g.member("d/", []byte{}, 0)
		d2.Desc = 1
		add("dir-entry desc16", nil, g.member("x", []byte("x"), 0), d2, g.member("d/y", []byte("y"), 0))
		d3 := g.member("d/", []byte{}, 8) // jar tool style: deflated empty directory
		d3.Desc = 3
		d3.Reader = 45
		add("dir-entry deflated desc24", nil, d3, g.member("d/y", []byte("y"), 0))
		jm := g.member("META-INF/", []byte{}, 0)
		jm.LExtra, jm.CExtra = []byte{0xfe, 0xca, 0, 0}, []byte{0xfe, 0xca, 0, 0}
		add("jar magic", nil, jm, g.member("META-INF/MANIFEST.MF", []byte("Manifest-Version: 1.0\r\n\r\n"), 8),
			g.member("A.class", g.r.Bytes(120), 8))
	}
	_ = thorough
	return out
}

// random: one random, valid archive description.
func (g *gen) random(k int) *arch {
	r := g.r
	var n int
	switch p := r.Intn(100); {
	case p < 3:
		n = 0
	case p < 28:
		n = 1
	case p < 73:
		n = 2 + r.Intn(4)
	case p < 93:
		n = 6 + r.Intn(10)
	default:
		n = 16 + r.Intn(25)
	}
	light := n > 12 // keep big archives cheap
	// features relic is known not to support are switched on per archive, not per member, so that
	// most multi-member archives stay readable by relic
	allowSigless, allowSat, allowLZ64 := r.Chance(12), r.Chance(12), r.Chance(25)
	var ms []*Member
	for i := 0; i < n; i++ {
		if r.Chance(8) {
			m := g.member(fmt.Sprintf("dir%d/", i), []byte{}, 0)
			if r.Chance(5) {
				m.Desc = 1
			}
			m.EAttrs = 0x10
			ms = append(ms, m)
			continue
		}
		size := r.Pick(0, 1, 2, 100, r.Intn(5001), r.Intn(5001), r.Intn(300), r.Intn(300))
		if light {
			size = r.Pick(0, 1, 2, 100, r.Intn(300))
		}
		if g.big64k > 0 && r.Chance(2) {
			size = r.Pick(65535, 65536, 65537)
			g.big64k--
		}
		method := uint16(0)
		if r.Chance(55) {
			method = 8
		}
		nl := 5 + r.Intn(16)
		switch p := r.Intn(100); {
		case p < 5:
			nl = 1
		case p < 10:
			nl = 2
		case p < 13 && !light:
			nl = 255
		}
		name := nameN(i, nl)
		if nl >= 8 && nl < 255 {
			name = fmt.Sprintf("p%d/n%03d", k%7, i) + string(bytes.Repeat([]byte{'y'}, nl-7))
			if r.Chance(5) {
				name = name[:len(name)-2] + "\xc3\xa9"
			}
		}
		m := g.member(name, g.data(size), method)
		switch p := r.Intn(100); {
		case p < 50:
		case p < 75:
			m.Desc = 1
		default:
			m.Desc = 3
		}
		if allowSigless && r.Chance(40) {
			m.Desc = r.Pick(2, 4)
		}
		m.LZ64 = allowLZ64 && r.Chance(40)
		if allowSat {
			m.SatU, m.SatC, m.SatO = r.Chance(35), r.Chance(35), r.Chance(35)
		}
		m.Z64Last = r.Chance(30)
		pickLen := func() int {
			switch p := r.Intn(100); {
			case p < 70:
				return 0
			case p < 83:
				return 4
			case p < 97 || light:
				return 8
			}
			return 255
		}
		m.LExtra = g.extra(pickLen())
		m.CExtra = g.extra(pickLen())
		switch p := r.Intn(100); {
		case p < 80:
		case p < 97 || light:
			m.Comment = text(1, i)
		default:
			m.Comment = text(255, i)
		}
		m.Reader = uint16(r.Pick(20, 20, 20, 20, 10, 45, 46, 63))
		if (m.LZ64 || m.Desc >= 3) && r.Chance(70) {
			m.Reader = 45
		}
		m.Creator = uint16(r.Pick(20, 20, 45, 0x031e))
		if r.Chance(20) {
			m.Flags |= 0x800
		}
		if method == 8 && r.Chance(10) {
			m.Flags |= uint16(r.Pick(2, 4, 6))
		}
		if r.Chance(20) {
			m.MTime, m.MDate = uint16(r.Next()), uint16(r.Next())
		}
		if r.Chance(10) {
			m.IAttrs = 1
		}
		if m.Creator == 0x031e {
			m.EAttrs = 0x81a40000
		}
		ms = append(ms, m)
	}
	o := defOpts()
	switch p := r.Intn(100); {
	case p < 90:
	case p < 94:
		o.Comment = text(1, k)
	case p < 97:
		o.Comment = text(22, k)
	default:
		o.Comment = text(255, k)
	}
	switch p := r.Intn(100); {
	case p < 94:
	case p < 97:
		o.Prefix = []byte("X")
	default:
		o.Prefix = text(100, k)
	}
	o.Zip64End = r.Pick(0, 0, 0, 0, 0, 0, 0, 1, 1, 2)
	if r.Chance(5) {
		o.E64Creator, o.E64Reader = uint16(r.Pick(20, 45, 63, 0x031e)), uint16(r.Pick(20, 45, 46))
	}
	if n > 0 && r.Chance(3) {
		o.Gaps = make([][]byte, n)
		o.Gaps[r.Intn(n)] = bytes.Repeat([]byte{0xaa}, 1+r.Intn(20))
	}
	if r.Chance(3) {
		o.GapCD = bytes.Repeat([]byte{0xbb}, 1+r.Intn(40))
	}
	if n > 1 && r.Chance(3) {
		o.CDOrder = make([]int, n)
		for i := range o.CDOrder {
			o.CDOrder[i] = n - 1 - i
		}
	}
	return &arch{ms, o, fmt.Sprintf("random n=%d", n)}
}

// ---------------------------------------------------------------- malformed archives

type malCase struct {
	z   []byte
	sub string
}

func putLE(z []byte, pos int64, width int, v uint64) {
	for i := 0; i < width; i++ {
		z[int(pos)+i] = byte(v >> (8 * uint(i)))
	}
}

func getLE(z []byte, pos int64, width int) uint64 {
	var v uint64
	for i := 0; i < width; i++ {
		v |= uint64(z[int(pos)+i]) << (8 * uint(i))
	}
	return v
}

func (g *gen) malformed() []malCase {
	var out []malCase
	mkMembers := func(sat bool) []*Member {
		a := g.member("a", []byte("hi"), 0)
		a.LExtra, a.CExtra, a.Comment = []byte{0xfe, 0xca, 0, 0}, []byte{0xfe, 0xca, 0, 0}, []byte("c")
		b := g.member("bc", text(40, 0), 8)
		b.Desc = 1
		if sat {
			b.SatU, b.SatC, b.SatO, b.Reader = true, true, true, 45
		}
		return []*Member{a, b}
	}
	o1 := defOpts()
	s1, _, l1 := build(mkMembers(false), o1)
	z1 := s1.bytes()
	o2 := defOpts()
	o2.Zip64End = 1
	s2, _, l2 := build(mkMembers(true), o2)
	z2 := s2.bytes()

	bounds := func(l *layout) []int64 {
		var b []int64
		for i := range l.LFH {
			b = append(b, l.LFH[i], l.LFH[i]+30, l.Data[i], l.DescAt[i], l.End[i])
		}
		for _, c := range l.CD {
			b = append(b, c, c+46)
		}
		b = append(b, l.CDEnd)
		if l.Z64End >= 0 {
			b = append(b, l.Z64End, l.Z64Loc)
		}
		b = append(b, l.EOCD, l.Size)
		return b
	}
	// truncation at every structure boundary (+-1) of base 1, at the boundaries of base 2
	seen := map[int64]bool{}
	for _, b := range bounds(l1) {
		for _, d := range []int64{-1, 0, 1} {
			n := b + d
			if n < 0 || n >= l1.Size || seen[n] {
				continue
			}
			seen[n] = true
			out = append(out, malCase{append([]byte(nil), z1[:n]...), fmt.Sprintf("truncate base=1 at=%d (boundary %d%+d)", n, b, d)})
		}
	}
	seen = map[int64]bool{}
	for _, b := range bounds(l2) {
		if b <= 0 || b >= l2.Size || seen[b] {
			continue
		}
		seen[b] = true
		out = append(out, malCase{append([]byte(nil), z2[:b]...), fmt.Sprintf("truncate base=2 at=%d", b)})
	}
	// also: bytes appended after the end record
	out = append(out, malCase{append(append([]byte(nil), z1...), 0), "append base=1 one byte"})
	out = append(out, malCase{append(append([]byte(nil), z2...), 'P', 'K'), "append base=2 two bytes"})

	type field struct {
		pos   int64
		width int
		label string
	}
	mutate := func(base int, z []byte, fs []field, vals16, vals32, vals64 []uint64) {
		for _, f := range fs {
			vals := vals16
			if f.width == 4 {
				vals = vals32
			} else if f.width == 8 {
				vals = vals64
			}
			for _, v := range vals {
				if getLE(z, f.pos, f.width) == v {
					continue
				}
				c := append([]byte(nil), z...)
				putLE(c, f.pos, f.width, v)
				out = append(out, malCase{c, fmt.Sprintf("field base=%d %s=%#x", base, f.label, v)})
			}
		}
	}
	v16 := []uint64{0, 1, 0xfffe, 0xffff}
	v32 := []uint64{0, 1, 0xfffffffe, 0xffffffff}
	v64 := []uint64{0, 1, 0xfffffffe, 0xffffffff}
	var f1 []field
	for i := range l1.LFH {
		f1 = append(f1, field{l1.LFH[i] + 26, 2, fmt.Sprintf("lfh%d.namelen", i)}, field{l1.LFH[i] + 28, 2, fmt.Sprintf("lfh%d.extralen", i)})
	}
	for k := range l1.CD {
		f1 = append(f1, field{l1.CD[k] + 28, 2, fmt.Sprintf("cd%d.namelen", k)}, field{l1.CD[k] + 30, 2, fmt.Sprintf("cd%d.extralen", k)},
			field{l1.CD[k] + 32, 2, fmt.Sprintf("cd%d.commentlen", k)})
	}
	f1 = append(f1, field{l1.EOCD + 8, 2, "eocd.diskcount"}, field{l1.EOCD + 10, 2, "eocd.count"}, field{l1.EOCD + 12, 4, "eocd.cdsize"},
		field{l1.EOCD + 16, 4, "eocd.cdoffset"}, field{l1.EOCD + 20, 2, "eocd.commentlen"})
	mutate(1, z1, f1, v16, v32, v64)
	for _, v := range v16 { // both counts together
		c := append([]byte(nil), z1...)
		putLE(c, l1.EOCD+8, 2, v)
		putLE(c, l1.EOCD+10, 2, v)
		out = append(out, malCase{c, fmt.Sprintf("field base=1 eocd.counts=%#x", v)})
	}
	// central 32-bit fields saturated without a ZIP64 record; sizes/offset off by one
	for _, f := range []field{{l1.CD[0] + 20, 4, "cd0.csize"}, {l1.CD[0] + 24, 4, "cd0.usize"}, {l1.CD[0] + 42, 4, "cd0.offset"},
		{l1.CD[1] + 20, 4, "cd1.csize"}, {l1.CD[1] + 24, 4, "cd1.usize"}, {l1.CD[1] + 42, 4, "cd1.offset"}} {
		for _, v := range []uint64{0xffffffff, getLE(z1, f.pos, 4) + 1} {
			c := append([]byte(nil), z1...)
			putLE(c, f.pos, 4, v)
			out = append(out, malCase{c, fmt.Sprintf("field base=1 %s=%#x", f.label, v)})
		}
	}
	// flag bit 3 toggled in the local header / central header, method changed
	for i := range l1.LFH {
		c := append([]byte(nil), z1...)
		c[l1.LFH[i]+6] ^= 8
		out = append(out, malCase{c, fmt.Sprintf("field base=1 lfh%d.flags^=8", i)})
		c = append([]byte(nil), z1...)
		c[l1.CD[i]+8] ^= 8
		out = append(out, malCase{c, fmt.Sprintf("field base=1 cd%d.flags^=8", i)})
		for _, meth := range []uint64{0, 8, 99} {
			if getLE(z1, l1.CD[i]+10, 2) == meth {
				continue
			}
			c = append([]byte(nil), z1...)
			putLE(c, l1.CD[i]+10, 2, meth)
			out = append(out, malCase{c, fmt.Sprintf("field base=1 cd%d.method=%d", i, meth)})
		}
	}
	// descriptor contents of member 1 (crc, csize, usize)
	for j, lab := range []string{"crc", "csize", "usize"} {
		c := append([]byte(nil), z1...)
		c[l1.DescAt[1]+4+int64(4*j)] ^= 1
		out = append(out, malCase{c, "field base=1 desc1." + lab + "^=1"})
	}
	// ZIP64 structures of base 2
	f2 := []field{{l2.Z64End + 4, 8, "z64end.recsize"}, {l2.Z64End + 24, 8, "z64end.diskcount"}, {l2.Z64End + 32, 8, "z64end.count"},
		{l2.Z64End + 40, 8, "z64end.cdsize"}, {l2.Z64End + 48, 8, "z64end.cdoffset"}, {l2.Z64Loc + 8, 8, "z64loc.offset"},
		{l2.Z64Loc + 4, 4, "z64loc.disk"}, {l2.Z64Loc + 16, 4, "z64loc.disks"}}
	mutate(2, z2, f2, v16, v32, v64)
	rec := l2.CD[1] + 46 + 2 // ZIP64 record of central entry 1 (name "bc")
	for _, v := range []uint64{0, 1, 8, 16, 23, 25, 0xfffe, 0xffff} {
		c := append([]byte(nil), z2...)
		putLE(c, rec+2, 2, v)
		out = append(out, malCase{c, fmt.Sprintf("field base=2 cd1.z64rec.size=%#x", v)})
	}
	for j, lab := range []string{"usize", "csize", "offset"} {
		for _, v := range v64 {
			c := append([]byte(nil), z2...)
			putLE(c, rec+4+int64(8*j), 8, v)
			out = append(out, malCase{c, fmt.Sprintf("field base=2 cd1.z64rec.%s=%#x", lab, v)})
		}
	}
	{
		c := append([]byte(nil), z2...)
		putLE(c, rec, 2, 0x9901) // record tag no longer ZIP64
		out = append(out, malCase{c, "field base=2 cd1.z64rec.tag=0x9901"})
	}
	// signature bytes
	sigs := []field{{l2.LFH[0], 4, "lfh0"}, {l2.LFH[1], 4, "lfh1"}, {l2.DescAt[1], 4, "desc1"}, {l2.CD[0], 4, "cd0"}, {l2.CD[1], 4, "cd1"},
		{l2.Z64End, 4, "z64end"}, {l2.Z64Loc, 4, "z64loc"}, {l2.EOCD, 4, "eocd"}}
	for _, s := range sigs {
		for j := int64(0); j < 4; j++ {
			c := append([]byte(nil), z2...)
			c[s.pos+j] ^= 1
			out = append(out, malCase{c, fmt.Sprintf("sigflip base=2 %s byte=%d", s.label, j)})
		}
	}
	for _, s := range []field{{l1.LFH[0], 4, "lfh0"}, {l1.DescAt[1], 4, "desc1"}, {l1.CD[0], 4, "cd0"}, {l1.EOCD, 4, "eocd"}} {
		c := append([]byte(nil), z1...)
		c[s.pos+2] ^= 0x40
		out = append(out, malCase{c, fmt.Sprintf("sigflip base=1 %s byte=2", s.label)})
	}
	return out
}
