// Package c17: correspondence harness for lib/zipslicer (property C17).
//
// writer.go: the HARNESS-OWNED zip writer (independent of relic's writer and of archive/zip's writer),
// the archive description types shared with the Coq spec builder, and a sparse ReaderAt used for
// archives >= 4 GiB.
package c17

import (
	"bytes"
	"crypto/sha256"
	"encoding/hex"
	"errors"
	"io"
	"sort"
)

func hx(b []byte) string { return hex.EncodeToString(b) }

func shaHex(b []byte) string {
	s := sha256.Sum256(b)
	return hex.EncodeToString(s[:])
}

const (
	sigLFH    = 0x04034b50
	sigCD     = 0x02014b50
	sigEOCD   = 0x06054b50
	sigZ64Loc = 0x07064b50
	sigZ64End = 0x06064b50
	sigDD     = 0x08074b50
	max32     = 0xffffffff
	max16     = 0xffff
)

// Member is one entry of an archive description.
type Member struct {
	Name    []byte
	LExtra  []byte
	CExtra  []byte
	Comment []byte
	Creator uint16
	Reader  uint16
	Flags   uint16 // without bit 3
	Method  uint16
	MTime   uint16
	MDate   uint16
	CRC     uint32
	CData   []byte
	ZeroLen uint64 // big archives only: the stored bytes are ZeroLen zero bytes, not materialised (CData empty)
	USize   uint64
	IAttrs  uint16
	EAttrs  uint32
	Disk    uint16
	Desc    int
	LZ64    bool
	SatU    bool
	SatC    bool
	SatO    bool
	Z64Last bool
	Data    []byte // uncompressed data (nil for big members)
	Sha     string // sha256 hex of Data ("" for big members)
}

func (m *Member) csize() uint64 {
	if m.ZeroLen > 0 {
		return m.ZeroLen
	}
	return uint64(len(m.CData))
}

// Opts are the archive-level parameters of a description.
type Opts struct {
	Prefix     []byte
	Comment    []byte
	Zip64End   int
	E64Creator uint16
	E64Reader  uint16
	Gaps       [][]byte
	GapCD      []byte
	CDOrder    []int
}

type memberJ struct {
	Name    string  `json:"name"`
	LExtra  string  `json:"lextra"`
	CExtra  string  `json:"cextra"`
	Comment string  `json:"comment"`
	Creator uint16  `json:"creator"`
	Reader  uint16  `json:"reader"`
	Flags   uint16  `json:"flags"`
	Method  uint16  `json:"method"`
	MTime   uint16  `json:"mtime"`
	MDate   uint16  `json:"mdate"`
	CRC     uint32  `json:"crc"`
	CData   string  `json:"cdata"`
	ZeroLen *uint64 `json:"cdata_zero_len,omitempty"`
	USize   uint64  `json:"usize"`
	IAttrs  uint16  `json:"iattrs"`
	EAttrs  uint32  `json:"eattrs"`
	Disk    uint16  `json:"disk"`
	Desc    int     `json:"desc"`
	LZ64    bool    `json:"lz64"`
	SatU    bool    `json:"satu"`
	SatC    bool    `json:"satc"`
	SatO    bool    `json:"sato"`
	Z64Last bool    `json:"z64last"`
	Sha     string  `json:"sha256"`
}

type optsJ struct {
	Prefix     string   `json:"prefix"`
	Comment    string   `json:"comment"`
	Zip64End   int      `json:"zip64end"`
	E64Creator uint16   `json:"e64creator"`
	E64Reader  uint16   `json:"e64reader"`
	Gaps       []string `json:"gaps"`
	GapCD      string   `json:"gapcd"`
	CDOrder    []int    `json:"cdorder"`
}

type specJ struct {
	Members []memberJ `json:"members"`
	Opts    optsJ     `json:"opts"`
}

// specOf renders a description. gaps and cdorder are always written out explicitly
// (len(members) empty strings / the identity permutation when not used).
func specOf(ms []*Member, o *Opts) *specJ {
	s := &specJ{Members: []memberJ{}}
	for _, m := range ms {
		j := memberJ{
			Name: hx(m.Name), LExtra: hx(m.LExtra), CExtra: hx(m.CExtra), Comment: hx(m.Comment),
			Creator: m.Creator, Reader: m.Reader, Flags: m.Flags, Method: m.Method, MTime: m.MTime, MDate: m.MDate,
			CRC: m.CRC, CData: hx(m.CData), USize: m.USize, IAttrs: m.IAttrs, EAttrs: m.EAttrs, Disk: m.Disk,
			Desc: m.Desc, LZ64: m.LZ64, SatU: m.SatU, SatC: m.SatC, SatO: m.SatO, Z64Last: m.Z64Last, Sha: m.Sha,
		}
		if m.ZeroLen > 0 {
			z := m.ZeroLen
			j.ZeroLen = &z
		}
		s.Members = append(s.Members, j)
	}
	s.Opts = optsJ{Prefix: hx(o.Prefix), Comment: hx(o.Comment), Zip64End: o.Zip64End, E64Creator: o.E64Creator,
		E64Reader: o.E64Reader, GapCD: hx(o.GapCD), Gaps: []string{}, CDOrder: cdOrder(ms, o)}
	for i := range ms {
		if i < len(o.Gaps) {
			s.Opts.Gaps = append(s.Opts.Gaps, hx(o.Gaps[i]))
		} else {
			s.Opts.Gaps = append(s.Opts.Gaps, "")
		}
	}
	return s
}

func cdOrder(ms []*Member, o *Opts) []int {
	if len(o.CDOrder) == len(ms) && len(ms) > 0 {
		return o.CDOrder
	}
	id := make([]int, len(ms))
	for i := range id {
		id[i] = i
	}
	return id
}

type truthMember struct {
	Name   string `json:"name"`
	Off    int64  `json:"off"`
	CSize  uint64 `json:"csize"`
	USize  uint64 `json:"usize"`
	CRC    uint32 `json:"crc"`
	Method uint16 `json:"method"`
	DDLen  int    `json:"ddlen"`
	Total  int64  `json:"total"`
	Sha    string `json:"sha256"`
}

type truthJ struct {
	DirLoc  int64         `json:"dirloc"`
	Members []truthMember `json:"members"`
}

// layout: absolute positions of the structures of a built archive (used by the malformed generator,
// the self check and the probes).
type layout struct {
	Base    int64
	LFH     []int64 // local header of member i (physical order)
	Data    []int64 // first byte of the stored data
	DescAt  []int64 // first byte of the descriptor (== End when none)
	End     []int64 // one past the local entry
	CD      []int64 // central entry k (central-directory order)
	CDEnd   int64
	Z64End  int64 // -1 when absent
	Z64Loc  int64 // -1 when absent
	EOCD    int64
	Size    int64
	CDNames []string // hex names in central-directory order
}

type seg struct {
	Off int64
	B   []byte
}

// sink collects the output as (offset, bytes) segments; runs of zero bytes requested with zeros()
// are not materialised.
type sink struct {
	segs []seg
	pos  int64
}

func (s *sink) write(b []byte) {
	if len(b) == 0 {
		return
	}
	if n := len(s.segs); n > 0 && s.segs[n-1].Off+int64(len(s.segs[n-1].B)) == s.pos {
		s.segs[n-1].B = append(s.segs[n-1].B, b...)
	} else {
		s.segs = append(s.segs, seg{s.pos, append([]byte(nil), b...)})
	}
	s.pos += int64(len(b))
}

func (s *sink) zeros(n uint64) { s.pos += int64(n) }

func (s *sink) bytes() []byte {
	out := make([]byte, s.pos)
	for _, g := range s.segs {
		copy(out[g.Off:], g.B)
	}
	return out
}

func (s *sink) reader() *sparseReader { return &sparseReader{segs: s.segs, size: s.pos} }

// sparseReader: io.ReaderAt over segments; everything outside the segments reads as zero.
type sparseReader struct {
	segs []seg
	size int64
}

func (s *sparseReader) ReadAt(p []byte, off int64) (int, error) {
	if off < 0 {
		return 0, errors.New("sparse.ReadAt: negative offset")
	}
	if off >= s.size {
		return 0, io.EOF
	}
	n := len(p)
	var err error
	if int64(n) > s.size-off {
		n = int(s.size - off)
		err = io.EOF
	}
	q := p[:n]
	for i := range q {
		q[i] = 0
	}
	end := off + int64(n)
	i := sort.Search(len(s.segs), func(i int) bool { return s.segs[i].Off+int64(len(s.segs[i].B)) > off })
	for ; i < len(s.segs) && s.segs[i].Off < end; i++ {
		g := s.segs[i]
		from, to := g.Off, g.Off+int64(len(g.B))
		if from < off {
			from = off
		}
		if to > end {
			to = end
		}
		copy(q[from-off:to-off], g.B[from-g.Off:to-g.Off])
	}
	return n, err
}

type wb struct{ bytes.Buffer }

func (b *wb) u16(v uint16) { b.Write([]byte{byte(v), byte(v >> 8)}) }
func (b *wb) u32(v uint32) { b.Write([]byte{byte(v), byte(v >> 8), byte(v >> 16), byte(v >> 24)}) }
func (b *wb) u64(v uint64) { b.u32(uint32(v)); b.u32(uint32(v >> 32)) }

func ddLen(desc int) int {
	switch desc {
	case 1:
		return 16
	case 2:
		return 12
	case 3:
		return 24
	case 4:
		return 20
	}
	return 0
}

// localExtra returns the extra field of the local header.
func localExtra(m *Member) []byte {
	if !m.LZ64 {
		return m.LExtra
	}
	var b wb
	b.u16(1)
	b.u16(16)
	if m.Desc == 0 {
		b.u64(m.USize)
		b.u64(m.csize())
	} else {
		b.u64(0)
		b.u64(0)
	}
	b.Write(m.LExtra)
	return b.Bytes()
}

// centralExtra returns the extra field of the central header for a member at (prefix-relative) offset off.
func centralExtra(m *Member, off uint64) (extra []byte, satU, satC, satO bool) {
	satU = m.SatU || m.USize >= max32
	satC = m.SatC || m.csize() >= max32
	satO = m.SatO || off >= max32
	var rec wb
	k := 0
	for _, s := range []bool{satU, satC, satO} {
		if s {
			k++
		}
	}
	if k > 0 {
		rec.u16(1)
		rec.u16(uint16(8 * k))
		if satU {
			rec.u64(m.USize)
		}
		if satC {
			rec.u64(m.csize())
		}
		if satO {
			rec.u64(off)
		}
	}
	if m.Z64Last {
		return append(append([]byte(nil), m.CExtra...), rec.Bytes()...), satU, satC, satO
	}
	return append(rec.Bytes(), m.CExtra...), satU, satC, satO
}

// build lays the archive out per the description (APPNOTE 6.3, little endian).
func build(ms []*Member, o *Opts) (*sink, *truthJ, *layout) {
	s := &sink{}
	lay := &layout{Z64End: -1, Z64Loc: -1}
	tr := &truthJ{Members: []truthMember{}}
	s.write(o.Prefix)
	base := s.pos
	lay.Base = base
	offs := make([]uint64, len(ms))
	for i, m := range ms {
		if i < len(o.Gaps) {
			s.write(o.Gaps[i])
		}
		start := s.pos
		offs[i] = uint64(start - base)
		flags := m.Flags &^ 8
		var crcF, csF, usF uint32
		if m.Desc != 0 {
			flags |= 8
		} else {
			crcF, csF, usF = m.CRC, uint32(m.csize()), uint32(m.USize)
		}
		if m.LZ64 {
			csF, usF = max32, max32
		}
		lex := localExtra(m)
		var h wb
		h.u32(sigLFH)
		h.u16(m.Reader)
		h.u16(flags)
		h.u16(m.Method)
		h.u16(m.MTime)
		h.u16(m.MDate)
		h.u32(crcF)
		h.u32(csF)
		h.u32(usF)
		h.u16(uint16(len(m.Name)))
		h.u16(uint16(len(lex)))
		h.Write(m.Name)
		h.Write(lex)
		s.write(h.Bytes())
		lay.LFH = append(lay.LFH, start)
		lay.Data = append(lay.Data, s.pos)
		if m.ZeroLen > 0 {
			s.zeros(m.ZeroLen)
		} else {
			s.write(m.CData)
		}
		lay.DescAt = append(lay.DescAt, s.pos)
		var d wb
		switch m.Desc {
		case 1:
			d.u32(sigDD)
			d.u32(m.CRC)
			d.u32(uint32(m.csize()))
			d.u32(uint32(m.USize))
		case 2:
			d.u32(m.CRC)
			d.u32(uint32(m.csize()))
			d.u32(uint32(m.USize))
		case 3:
			d.u32(sigDD)
			d.u32(m.CRC)
			d.u64(m.csize())
			d.u64(m.USize)
		case 4:
			d.u32(m.CRC)
			d.u64(m.csize())
			d.u64(m.USize)
		}
		s.write(d.Bytes())
		lay.End = append(lay.End, s.pos)
		tr.Members = append(tr.Members, truthMember{Name: hx(m.Name), Off: start, CSize: m.csize(), USize: m.USize,
			CRC: m.CRC, Method: m.Method, DDLen: ddLen(m.Desc), Total: s.pos - start, Sha: m.Sha})
	}
	s.write(o.GapCD)
	cdStart := s.pos
	tr.DirLoc = cdStart
	cdoff := uint64(cdStart - base)
	for _, idx := range cdOrder(ms, o) {
		m := ms[idx]
		lay.CD = append(lay.CD, s.pos)
		lay.CDNames = append(lay.CDNames, hx(m.Name))
		extra, satU, satC, satO := centralExtra(m, offs[idx])
		flags := m.Flags &^ 8
		if m.Desc != 0 {
			flags |= 8
		}
		cs, us, of := uint32(m.csize()), uint32(m.USize), uint32(offs[idx])
		if satC {
			cs = max32
		}
		if satU {
			us = max32
		}
		if satO {
			of = max32
		}
		var h wb
		h.u32(sigCD)
		h.u16(m.Creator)
		h.u16(m.Reader)
		h.u16(flags)
		h.u16(m.Method)
		h.u16(m.MTime)
		h.u16(m.MDate)
		h.u32(m.CRC)
		h.u32(cs)
		h.u32(us)
		h.u16(uint16(len(m.Name)))
		h.u16(uint16(len(extra)))
		h.u16(uint16(len(m.Comment)))
		h.u16(m.Disk)
		h.u16(m.IAttrs)
		h.u32(m.EAttrs)
		h.u32(of)
		h.Write(m.Name)
		h.Write(extra)
		h.Write(m.Comment)
		s.write(h.Bytes())
	}
	lay.CDEnd = s.pos
	cdsize := uint64(s.pos - cdStart)
	count := uint64(len(ms))
	need64 := count >= max16 || cdsize >= max32 || cdoff >= max32
	if o.Zip64End != 0 {
		need64 = true
	}
	c16, s32, o32 := uint16(count), uint32(cdsize), uint32(cdoff)
	if count >= max16 {
		c16 = max16
	}
	if cdsize >= max32 {
		s32 = max32
	}
	if cdoff >= max32 {
		o32 = max32
	}
	if o.Zip64End == 1 {
		c16, s32, o32 = max16, max32, max32
	}
	if need64 {
		lay.Z64End = s.pos
		endOff := uint64(s.pos - base)
		var e wb
		e.u32(sigZ64End)
		e.u64(44)
		e.u16(o.E64Creator)
		e.u16(o.E64Reader)
		e.u32(0)
		e.u32(0)
		e.u64(count)
		e.u64(count)
		e.u64(cdsize)
		e.u64(cdoff)
		s.write(e.Bytes())
		lay.Z64Loc = s.pos
		var l wb
		l.u32(sigZ64Loc)
		l.u32(0)
		l.u64(endOff)
		l.u32(1)
		s.write(l.Bytes())
	}
	lay.EOCD = s.pos
	var e wb
	e.u32(sigEOCD)
	e.u16(0)
	e.u16(0)
	e.u16(c16)
	e.u16(c16)
	e.u32(s32)
	e.u32(o32)
	e.u16(uint16(len(o.Comment)))
	e.Write(o.Comment)
	s.write(e.Bytes())
	lay.Size = s.pos
	return s, tr, lay
}

// features names the non-default features of a description (sorted, unique).
func features(ms []*Member, o *Opts) []string {
	set := map[string]bool{}
	if len(ms) == 0 {
		set["empty-archive"] = true
	}
	for _, m := range ms {
		if len(m.Name) > 0 && m.Name[len(m.Name)-1] == '/' {
			set["dir-entry"] = true
		}
		switch m.Desc {
		case 1:
			set["desc16"] = true
			if m.USize == 0 {
				set["desc16-empty"] = true
			}
		case 2:
			set["desc12"] = true
		case 3:
			set["desc24"] = true
			if m.USize == 0 {
				set["desc24-empty"] = true
			}
		case 4:
			set["desc20"] = true
		}
		if m.LZ64 {
			set["lz64"] = true
		}
		if m.SatU {
			set["sat-u"] = true
		}
		if m.SatC {
			set["sat-c"] = true
		}
		if m.SatO {
			set["sat-o"] = true
		}
		if m.Z64Last && (m.SatU || m.SatC || m.SatO || m.USize >= max32 || m.csize() >= max32 || m.ZeroLen > 0) {
			set["z64last"] = true
		}
		if len(m.Comment) > 0 {
			set["file-comment"] = true
		}
		if len(m.CExtra) > 0 {
			set["cextra"] = true
		}
		if len(m.LExtra) > 0 {
			set["lextra"] = true
		}
		if m.Method == 8 {
			set["deflate"] = true
		}
		if len(m.Name) >= 255 {
			set["longname"] = true
		}
		switch m.Reader {
		case 20:
		case 45:
			set["reader45"] = true
		default:
			set["reader-other"] = true
		}
	}
	switch o.Zip64End {
	case 1:
		set["zip64end-forced-sat"] = true
	case 2:
		set["zip64end-forced-min"] = true
	}
	if len(o.Comment) > 0 {
		set["archive-comment"] = true
	}
	if len(o.Prefix) > 0 {
		set["prefix"] = true
	}
	for _, g := range o.Gaps {
		if len(g) > 0 {
			set["gap"] = true
		}
	}
	if len(o.GapCD) > 0 {
		set["gapcd"] = true
	}
	for i, k := range cdOrder(ms, o) {
		if i != k {
			set["cd-reordered"] = true
		}
	}
	out := []string{}
	for k := range set {
		out = append(out, k)
	}
	sort.Strings(out)
	return out
}
