// layout.go: driver command c17layout — the WRITER side of lib/zipslicer when members are re-indexed at other offsets.
// The real Directory.NewFile / AddFile / WriteDirectory and Mangle / Mangler.NewFile / MakePatch are driven on sparse
// (never materialised) source archives whose members sit just below / at / above offset 0xffffffff before or after
// the rewrite, in both directions, with members of every size class in front, with cached raw entries that have or lack
// a ZIP64 record, and with sizes at the 32-bit boundary.  The output archive is assembled by the harness from the
// physical pieces (not from relic's offsets) and observed with archive/zip, relic's own reader and (in checks/c17.py)
// Python zipfile.  No member data of the big members is ever allocated.
package c17

import (
	"bytes"
	"encoding/hex"
	"encoding/json"
	"errors"
	"fmt"
	"hash/crc32"
	"os"
	"sort"

	"github.com/sassoftware/relic/v8/lib/binpatch"
	"github.com/sassoftware/relic/v8/lib/zipslicer"
	"github.com/sassoftware/relic/v8/verifharness/core"
)

const t32 = uint64(0xffffffff)

// ---------------------------------------------------------------- CRC-32 of n zero bytes without touching n bytes

func gf2Times(mat *[32]uint32, vec uint32) uint32 {
	var sum uint32
	for i := 0; vec != 0; i, vec = i+1, vec>>1 {
		if vec&1 != 0 {
			sum ^= mat[i]
		}
	}
	return sum
}

func gf2Square(sq, mat *[32]uint32) {
	for n := 0; n < 32; n++ {
		sq[n] = gf2Times(mat, mat[n])
	}
}

// crc32Combine returns the CRC-32 (IEEE) of A||B from crc(A), crc(B) and len(B)  (the zlib algorithm).
func crc32Combine(crc1, crc2 uint32, len2 uint64) uint32 {
	if len2 == 0 {
		return crc1
	}
	var even, odd [32]uint32
	odd[0] = 0xedb88320
	row := uint32(1)
	for n := 1; n < 32; n++ {
		odd[n] = row
		row <<= 1
	}
	gf2Square(&even, &odd)
	gf2Square(&odd, &even)
	for {
		gf2Square(&even, &odd)
		if len2&1 != 0 {
			crc1 = gf2Times(&even, crc1)
		}
		len2 >>= 1
		if len2 == 0 {
			break
		}
		gf2Square(&odd, &even)
		if len2&1 != 0 {
			crc1 = gf2Times(&odd, crc1)
		}
		len2 >>= 1
		if len2 == 0 {
			break
		}
	}
	return crc1 ^ crc2
}

var zeroCRCPow [64]uint32 // CRC of 2^k zero bytes
var zeroCRCInit bool

func crcZeros(n uint64) uint32 {
	if !zeroCRCInit {
		zeroCRCPow[0] = crc32.ChecksumIEEE([]byte{0})
		for k := 1; k < 64; k++ {
			zeroCRCPow[k] = crc32Combine(zeroCRCPow[k-1], zeroCRCPow[k-1], uint64(1)<<(k-1))
		}
		zeroCRCInit = true
	}
	var acc uint32
	for k := 0; k < 64; k++ {
		if n&(uint64(1)<<k) != 0 {
			acc = crc32Combine(acc, zeroCRCPow[k], uint64(1)<<k)
		}
	}
	return acc
}

// ---------------------------------------------------------------- sparse plumbing

// copySparse appends the bytes [from, to) of src to dst (zero runs stay virtual).
func copySparse(dst *sink, segs []seg, from, to int64) {
	base := dst.pos
	i := sort.Search(len(segs), func(i int) bool { return segs[i].Off+int64(len(segs[i].B)) > from })
	for ; i < len(segs) && segs[i].Off < to; i++ {
		g := segs[i]
		a, b := g.Off, g.Off+int64(len(g.B))
		if a < from {
			a = from
		}
		if b > to {
			b = to
		}
		if a >= b {
			continue
		}
		dst.pos = base + (a - from)
		dst.write(g.B[a-g.Off : b-g.Off])
	}
	dst.pos = base + (to - from)
}

// ---------------------------------------------------------------- sources

// lmem: ground truth of one member of a source (from the harness writer, not from relic)
type lmem struct {
	Off   int64   `json:"off"`
	Total int64   `json:"total"`
	Exp   lexpect `json:"exp"` // Off is filled in per case
}

type lsrc struct {
	s    *sink
	size int64
	mem  []lmem
}

func (l *lsrc) reader() *sparseReader { return &sparseReader{segs: l.s.segs, size: l.size} }

func mkSrc(ms []*Member, zip64end int) *lsrc {
	o := defOpts()
	o.Zip64End = zip64end
	s, tr, lay := build(ms, o)
	l := &lsrc{s: s, size: s.pos}
	for i, t := range tr.Members {
		l.mem = append(l.mem, lmem{Off: t.Off, Total: t.Total,
			Exp: lexpect{Name: t.Name, CSize: t.CSize, USize: t.USize, CRC: t.CRC, LFHLen: lay.Data[i] - lay.LFH[i]}})
	}
	return l
}

// zeroMember: a stored member of n zero bytes with a 24-byte descriptor (total = 30 + len(name) + n + 24).
func zeroMember(name string, n uint64) *Member {
	m := bigMember(name, n, crcZeros(n))
	m.Desc = 3
	return m
}

// style of the central entries of a source: 0 = APPNOTE (ZIP64 values only where needed), 1 = all three values and the
// record last (what Go's writer does), 2 = offset forced into a ZIP64 record although it is small
func applyStyle(m *Member, style int) {
	switch style {
	case 1:
		m.SatU, m.SatC, m.SatO, m.Z64Last, m.Reader = true, true, true, true, 45
	case 2:
		m.SatO, m.Reader = true, 45
	}
}

// ---------------------------------------------------------------- operations

type lop struct {
	Kind    string `json:"kind"` // new | add | skip
	Name    string `json:"name,omitempty"`
	Extra   string `json:"extra,omitempty"` // hex
	Data    string `json:"data,omitempty"`  // hex
	Deflate bool   `json:"deflate,omitempty"`
	UseDesc bool   `json:"usedesc,omitempty"`
	Src     int    `json:"src"`
	Idx     int    `json:"idx"`
}

type lexpect struct {
	Name   string `json:"name"`
	Off    int64  `json:"off"`
	CSize  uint64 `json:"csize"`
	USize  uint64 `json:"usize"`
	CRC    uint32 `json:"crc"`
	LFHLen int64  `json:"lfhlen"`
}

type layRunner struct {
	c      *core.Ctx
	r      *core.Rng
	id     int
	counts map[string]int
}

func newOp(name string, extra, data []byte, deflate, useDesc bool) lop {
	return lop{Kind: "new", Name: name, Extra: hx(extra), Data: hx(data), Deflate: deflate, UseDesc: useDesc}
}
func addOpL(src, idx int) lop  { return lop{Kind: "add", Src: src, Idx: idx} }
func skipOpL(src, idx int) lop { return lop{Kind: "skip", Src: src, Idx: idx} }

func srcJSON(srcs []*lsrc) []obj {
	out := []obj{}
	for _, s := range srcs {
		out = append(out, obj{"size": s.size, "segs": segsJSON(s.s), "members": s.mem})
	}
	return out
}

func expectOfSrc(s *lsrc, idx int, off int64) lexpect {
	e := s.mem[idx].Exp
	e.Off = off
	return e
}

func (ln *layRunner) finish(cs obj, out *sink, dir []byte) {
	out.write(dir)
	sr := &sparseReader{segs: out.segs, size: out.pos}
	cs["out"] = obj{"size": out.pos, "segs": segsJSON(out)}
	cs["size"] = out.pos
	cs["go"] = observeGo(sr, sr.size, false)
	cs["relic"] = observeRelicLite(sr, sr.size)
	ln.emit(cs)
}

func (ln *layRunner) emit(cs obj) {
	ln.counts[cs["kind"].(string)]++
	ln.c.Emit(cs)
}

// observeRelicLite: Read + per member fields and GetTotalSize (which needs a local header at the recorded offset).
func observeRelicLite(ra *sparseReader, size int64) *relicObs {
	o := &relicObs{Members: []relicMember{}, OrigFalse: &origObs{}, OrigTrue: &origObs{}}
	d, e, p := relicRead(ra, size)
	o.Err, o.Panic = e, p
	if d == nil {
		return o
	}
	o.DirLoc = d.DirLoc
	for _, f := range d.File {
		m := relicMember{Name: hx([]byte(f.Name)), Off: f.Offset, CSize: f.CompressedSize, USize: f.UncompressedSize, CRC0: f.CRC32,
			Method: f.Method, Flags: f.Flags, Reader: f.ReaderVersion, Creator: f.CreatorVersion, Extra: hx(f.Extra), Comment: hx(f.Comment)}
		m.Panic = safe(func() {
			t, err := f.GetTotalSize()
			m.Total, m.TotalErr = t, errStr(err)
			m.CRC = f.CRC32
		})
		o.Members = append(o.Members, m)
	}
	return o
}

// runFree: outz := new(Directory); NewFile / AddFile in op order; WriteDirectory(w, w, force) twice.
// The physical archive is the pieces in op order followed by the first directory.
func (ln *layRunner) runFree(sub string, srcs []*lsrc, ops []lop, force bool) {
	cs := obj{"id": ln.id, "kind": "layout", "flow": "free", "sub": sub, "sources": srcJSON(srcs), "lops": ops, "force64": force}
	ln.id++
	dirs := make([]*zipslicer.Directory, len(srcs))
	for k, s := range srcs {
		d, e, p := relicRead(s.reader(), s.size)
		if d == nil {
			cs["err"], cs["panic"] = "Read source "+fmt.Sprint(k)+": "+e, p
			ln.emit(cs)
			return
		}
		dirs[k] = d
	}
	outz := new(zipslicer.Directory)
	out := &sink{}
	expect := []lexpect{}
	mops := []interface{}{}
	var rerr, rpanic string
	for _, op := range ops {
		switch op.Kind {
		case "new":
			extra, _ := hex.DecodeString(op.Extra)
			data, _ := hex.DecodeString(op.Data)
			if op.Extra == "" {
				extra = nil
			}
			var buf bytes.Buffer
			var f *zipslicer.File
			rpanic = safe(func() {
				var err error
				f, err = outz.NewFile(op.Name, extra, data, &buf, fixedTime, op.Deflate, op.UseDesc)
				rerr = errStr(err)
			})
			if rerr != "" || rpanic != "" || f == nil {
				rerr = "NewFile: " + rerr
				break
			}
			expect = append(expect, lexpect{Name: hx([]byte(op.Name)), Off: out.pos, CSize: f.CompressedSize, USize: uint64(len(data)),
				CRC: crc32.ChecksumIEEE(data), LFHLen: int64(30 + len(op.Name) + len(extra))})
			mops = append(mops, []interface{}{0, hx([]byte(op.Name)), hx(extra), f.CompressedSize, len(data), crc32.ChecksumIEEE(data), f.Method,
				f.ModifiedTime, f.ModifiedDate, op.UseDesc})
			out.write(buf.Bytes())
		case "add":
			s := srcs[op.Src]
			if op.Src >= len(dirs) || op.Idx >= len(s.mem) || op.Idx >= len(dirs[op.Src].File) {
				rerr = "harness: no such source member"
				break
			}
			t := s.mem[op.Idx]
			rpanic = safe(func() {
				_, err := outz.AddFile(dirs[op.Src].File[op.Idx])
				rerr = errStr(err)
			})
			if rerr != "" || rpanic != "" {
				rerr = "AddFile: " + rerr
				break
			}
			expect = append(expect, expectOfSrc(s, op.Idx, out.pos))
			mops = append(mops, []interface{}{1, op.Src, op.Idx})
			copySparse(out, s.s.segs, t.Off, t.Off+t.Total)
		}
		if rerr != "" || rpanic != "" {
			break
		}
	}
	cs["model_ops"] = mops
	cs["expect"] = expect
	cs["dirloc"] = outz.DirLoc
	if rerr != "" || rpanic != "" {
		cs["err"], cs["panic"] = rerr, rpanic
		ln.emit(cs)
		return
	}
	var w1, w2 bytes.Buffer
	var e1, e2 string
	p1 := safe(func() { e1 = errStr(outz.WriteDirectory(&w1, &w1, force)) })
	p2 := safe(func() { e2 = errStr(outz.WriteDirectory(&w2, &w2, force)) })
	cs["wd1"], cs["wd2"] = hx(w1.Bytes()), hx(w2.Bytes())
	cs["err"], cs["panic"] = e1, p1
	cs["wd2_err"], cs["wd2_panic"] = e2, p2
	if e1 != "" || p1 != "" {
		ln.emit(cs)
		return
	}
	ln.finish(cs, out, w1.Bytes())
}

func applyPatchSparse(src *lsrc, ps *binpatch.PatchSet) (*sink, string) {
	idx := make([]int, len(ps.Patches))
	for i := range idx {
		idx[i] = i
	}
	sort.SliceStable(idx, func(a, b int) bool { return ps.Patches[idx[a]].Offset < ps.Patches[idx[b]].Offset })
	out := &sink{}
	pos := int64(0)
	for _, i := range idx {
		h := ps.Patches[i]
		if h.Offset < pos || h.Offset+int64(h.OldSize) > src.size {
			return nil, fmt.Sprintf("patch %d (offset %d, old %d) overlaps position %d or exceeds source length %d", i, h.Offset, h.OldSize, pos, src.size)
		}
		copySparse(out, src.s.segs, pos, h.Offset)
		out.write(ps.Blobs[i])
		pos = h.Offset + int64(h.OldSize)
	}
	copySparse(out, src.s.segs, pos, src.size)
	return out, ""
}

// runMangle: Read; Mangle(delete per flag); Mangler.NewFile per add; MakePatch(force); the patch applied to the sparse source.
func (ln *layRunner) runMangle(sub string, src *lsrc, del []bool, adds []addOp, force bool) {
	addJ := []obj{}
	for _, a := range adds {
		addJ = append(addJ, obj{"name": a.name, "data": hx(a.data)})
	}
	cs := obj{"id": ln.id, "kind": "layout", "flow": "mangle", "sub": sub, "sources": srcJSON([]*lsrc{src}), "delete_flags": del, "adds": addJ, "force64": force}
	ln.id++
	expect := []lexpect{}
	pos := int64(0)
	for i := range src.mem {
		if i < len(del) && del[i] {
			continue
		}
		expect = append(expect, expectOfSrc(src, i, pos))
		pos += src.mem[i].Total
	}
	news := []interface{}{}
	newLen := 0
	for _, a := range adds {
		method, cd := uint16(0), a.data
		if len(a.data) != 0 {
			method, cd = 8, deflateRaw(a.data, 9)
		}
		expect = append(expect, lexpect{Name: hx([]byte(a.name)), Off: pos, CSize: uint64(len(cd)), USize: uint64(len(a.data)), CRC: crc32.ChecksumIEEE(a.data),
			LFHLen: int64(30 + len(a.name))})
		pos += int64(30 + len(a.name) + len(cd) + 24)
		news = append(news, []interface{}{0, hx([]byte(a.name)), "", len(cd), len(a.data), crc32.ChecksumIEEE(a.data), method, newLen, 0, true})
		newLen += 30 + len(a.name) + len(cd) + 24
	}
	cs["expect"] = expect
	var ps *binpatch.PatchSet
	var merr string
	d, e, p := relicRead(src.reader(), src.size)
	if d == nil {
		merr = "Read: " + e
	} else {
		p = safe(func() {
			i := 0
			m, err := d.Mangle(func(mf *zipslicer.MangleFile) error {
				if i < len(del) && del[i] {
					mf.Delete()
				}
				i++
				return nil
			})
			if err != nil {
				merr = "Mangle: " + err.Error()
				return
			}
			for _, a := range adds {
				if err := m.NewFile(a.name, a.data); err != nil {
					merr = "NewFile: " + err.Error()
					return
				}
			}
			ps, err = m.MakePatch(force)
			if err != nil {
				merr = "MakePatch: " + err.Error()
				ps = nil
			}
		})
	}
	cs["err"], cs["panic"] = merr, p
	if ps == nil || p != "" {
		cs["model_news"] = news
		ln.emit(cs)
		return
	}
	patches := [][3]int64{}
	for _, h := range ps.Patches {
		patches = append(patches, [3]int64{h.Offset, int64(h.OldSize), int64(h.NewSize)})
	}
	cs["patches"] = patches
	last := ps.Blobs[len(ps.Blobs)-1]
	if newLen > len(last) {
		cs["err"] = fmt.Sprintf("harness: new members need %d bytes, final blob has %d", newLen, len(last))
		cs["model_news"] = news
		ln.emit(cs)
		return
	}
	// mtime / mdate of the new members come from time.Now() inside Mangler.NewFile: read them back from the blob
	at := 0
	for k, a := range adds {
		n := news[k].([]interface{})
		n[7] = getLE(last, int64(at+10), 2)
		n[8] = getLE(last, int64(at+12), 2)
		at += 30 + len(a.name) + int(n[3].(int)) + 24
	}
	cs["model_news"] = news
	cs["wd1"] = hx(last[newLen:])
	cs["dirloc"] = pos
	out, perr := applyPatchSparse(src, ps)
	if perr != "" {
		cs["err"] = "patch: " + perr
		ln.emit(cs)
		return
	}
	ln.finish(cs, out, nil)
}

// ---------------------------------------------------------------- case families

func smallText(n, salt int) []byte { return text(n, salt) }

// front members of the "new members in front" pattern (lib/signjar insertSignature), by size class
func (ln *layRunner) front(class int) []lop {
	switch class {
	case 0: // one empty stored member without descriptor: 30 + 9 + 4 bytes
		return []lop{newOp("META-INF/", jarMagic, []byte{}, false, false)}
	case 1: // directory entry + stored manifest of a few hundred bytes
		return []lop{newOp("META-INF/", jarMagic, []byte{}, false, false), newOp("META-INF/MANIFEST.MF", jarMagic, smallText(300, 3), false, false)}
	case 2: // the four members signjar writes, deflated
		return []lop{newOp("META-INF/", jarMagic, []byte{}, false, false), newOp("META-INF/MANIFEST.MF", jarMagic, smallText(920, 5), true, false),
			newOp("META-INF/SIGNER.SF", nil, smallText(700, 6), true, false), newOp("META-INF/SIGNER.RSA", nil, ln.r.Bytes(1500), true, false)}
	case 3: // one stored member of 70 000 bytes with a descriptor
		return []lop{newOp("META-INF/BIG.BIN", nil, ln.r.Bytes(70000), false, true)}
	}
	return nil
}

// frontLen: bytes the front members occupy (computed by running the real NewFile once on a scratch Directory; the
// length of a new local entry does not depend on where it is placed)
func frontLen(ops []lop) int64 {
	d := new(zipslicer.Directory)
	var buf bytes.Buffer
	for _, op := range ops {
		extra, _ := hex.DecodeString(op.Extra)
		data, _ := hex.DecodeString(op.Data)
		if op.Extra == "" {
			extra = nil
		}
		if _, err := d.NewFile(op.Name, extra, data, &buf, fixedTime, op.Deflate, op.UseDesc); err != nil {
			panic(err)
		}
	}
	return int64(buf.Len())
}

const bigHdr = 30 + 7 + 24 // local header of "big.bin" + its 24-byte descriptor

// probeSource: [before.txt?] big.bin(zeros) probe.txt after.txt with probe.txt starting exactly at offset at
func (ln *layRunner) probeSource(at uint64, style int, withBefore bool, zip64end int) *lsrc {
	g := &gen{r: ln.r}
	var ms []*Member
	lead := uint64(0)
	if withBefore {
		b := g.member("before.txt", []byte("before"), 0)
		ms = append(ms, b)
		lead = 30 + 10 + 6
	}
	ms = append(ms, zeroMember("big.bin", at-lead-bigHdr))
	probe := g.member("probe.txt", []byte("the probe member"), 0)
	after := g.member("after.txt", smallText(60, 1), 8)
	after.Desc = 1
	for _, m := range ms {
		applyStyle(m, style)
	}
	applyStyle(probe, style)
	applyStyle(after, style)
	ms = append(ms, probe, after)
	return mkSrc(ms, zip64end)
}

func allAdds(src int, s *lsrc) []lop {
	var ops []lop
	for i := range s.mem {
		ops = append(ops, addOpL(src, i))
	}
	return ops
}

func (ln *layRunner) families(thorough bool) {
	g := &gen{r: ln.r}
	styles := []string{"appnote", "go", "forced-offset"}
	// F1: new members in front, kept members move UP (the JAR pattern)
	for class := 0; class < 4; class++ {
		fr := ln.front(class)
		n := uint64(frontLen(fr))
		olds := []uint64{t32 - n - 1, t32 - n, t32 - n + 1, t32 - 1, t32, t32 + 1, t32 - n/2}
		for oi, old := range olds {
			for style := 0; style < 3; style++ {
				if !thorough && class >= 2 && style == 2 && oi >= 3 {
					continue
				}
				src := ln.probeSource(old, style, oi%2 == 1, (oi+style)%3)
				ops := append(append([]lop{}, fr...), allAdds(0, src)...)
				ln.runFree(fmt.Sprintf("up front=%d(%d bytes) probe %#x -> %#x style=%s", class, n, old, old+n, styles[style]), []*lsrc{src}, ops, false)
			}
		}
	}
	// F2: a member of 4 GiB and more in front (kept from a donor archive at its own offset 0, raw kept), everything else moves up
	for _, total := range []uint64{t32 - 1, t32, t32 + 1, t32 + 70000, 2*t32 + 5} {
		donor := mkSrc([]*Member{zeroMember("big.bin", total-bigHdr)}, 0)
		small := mkSrc([]*Member{g.member("a.txt", []byte("aaa"), 0), g.member("b/", []byte{}, 0), g.member("c.txt", smallText(200, 2), 8)}, 0)
		ops := append([]lop{addOpL(0, 0)}, allAdds(1, small)...)
		ln.runFree(fmt.Sprintf("up donor total=%#x then small archive", total), []*lsrc{donor, small}, ops, false)
		ops2 := []lop{addOpL(0, 0), newOp("new-after-big.txt", nil, []byte("new"), false, false), newOp("new2.txt", jarMagic, smallText(100, 4), true, true)}
		ln.runFree(fmt.Sprintf("NewFile at DirLoc=%#x", total), []*lsrc{donor}, ops2, total%2 == 0)
	}
	// F3: members in front are dropped, kept members move DOWN
	for style := 0; style < 3; style++ {
		for _, land := range []uint64{t32 - 1, t32, t32 + 1} {
			// small deleted member in front
			del := g.member("del.txt", smallText(40, 7), 0)
			d := uint64(30 + 7 + 40)
			probe := g.member("probe.txt", []byte("the probe member"), 0)
			after := g.member("after.txt", smallText(60, 1), 8)
			big := zeroMember("big.bin", land-bigHdr)
			ms := []*Member{del, big, probe, after}
			for _, m := range ms {
				applyStyle(m, style)
			}
			src := mkSrc(ms, style)
			sub := fmt.Sprintf("down small-delete probe %#x -> %#x style=%s", land+d, land, styles[style])
			ln.runFree(sub+" free", []*lsrc{src}, []lop{skipOpL(0, 0), addOpL(0, 1), addOpL(0, 2), addOpL(0, 3)}, false)
			ln.runMangle(sub+" mangle", src, []bool{true, false, false, false}, []addOp{{"META-INF/NEW.SF", smallText(90, 8)}}, style == 1)
			// a 4 GiB member in front is dropped: the kept one lands exactly at `land` coming from above 2^32 + land
			keep := zeroMember("big.bin", land-bigHdr)
			drop := zeroMember("drop.bin", t32+1)
			ms2 := []*Member{keep, drop, g.member("probe.txt", []byte("the probe member"), 0), g.member("after.txt", smallText(60, 1), 0)}
			for _, m := range ms2 {
				applyStyle(m, style)
			}
			src2 := mkSrc(ms2, 0)
			sub2 := fmt.Sprintf("down big-delete probe %#x -> %#x style=%s", land+t32+1+bigHdr+1, land, styles[style])
			ln.runFree(sub2+" free", []*lsrc{src2}, []lop{addOpL(0, 0), skipOpL(0, 1), addOpL(0, 2), addOpL(0, 3)}, style == 2)
			ln.runMangle(sub2+" mangle", src2, []bool{false, true, false, false}, []addOp{{"x", []byte{}}, {"y.txt", []byte("y")}}, false)
		}
		// everything in front of a member above 4 GiB is dropped: it comes down to a small offset
		a := g.member("a.txt", []byte("aaa"), 0)
		drop := zeroMember("drop.bin", t32+7)
		ms := []*Member{a, drop, g.member("probe.txt", []byte("the probe member"), 0), g.member("after.txt", smallText(60, 1), 8)}
		for _, m := range ms {
			applyStyle(m, style)
		}
		src := mkSrc(ms, 2)
		ln.runFree(fmt.Sprintf("down to small offset style=%s free", styles[style]), []*lsrc{src}, []lop{addOpL(0, 0), skipOpL(0, 1), addOpL(0, 2), addOpL(0, 3)}, false)
		ln.runMangle(fmt.Sprintf("down to small offset style=%s mangle", styles[style]), src, []bool{false, true, false, false}, nil, false)
	}
	// F4: nothing moves (cached raw entries are re-emitted), probe just below / at / above the threshold; then members appended
	for style := 0; style < 3; style++ {
		for _, at := range []uint64{t32 - 1, t32, t32 + 1} {
			src := ln.probeSource(at, style, style == 1, style)
			ln.runFree(fmt.Sprintf("unmoved probe %#x style=%s free", at, styles[style]), []*lsrc{src}, allAdds(0, src), false)
			ln.runMangle(fmt.Sprintf("unmoved probe %#x style=%s mangle + 2 new", at, styles[style]), src, make([]bool, 4), []addOp{{"META-INF/A.SF", smallText(50, 9)}, {"META-INF/A.RSA", ln.r.Bytes(300)}}, at == t32)
		}
	}
	// F5: sizes at the 32-bit boundary, rebuilt (moved) and cached (unmoved)
	for _, n := range []uint64{t32 - 1, t32, t32 + 1} {
		for variant := 0; variant < 3; variant++ {
			bp := bigMember("bigprobe.bin", n, crcZeros(n))
			switch variant {
			case 0:
				bp.Desc = 3
			case 1:
				bp.LZ64 = true
			case 2:
				if n >= t32 {
					continue
				}
			}
			pre := g.member("pre.txt", []byte("pre"), 0)
			after := g.member("after.txt", smallText(60, 1), 8)
			src := mkSrc([]*Member{pre, bp, after}, variant)
			sub := fmt.Sprintf("size boundary n=%#x variant=%d", n, variant)
			ln.runFree(sub+" moved up", []*lsrc{src}, append(ln.front(0), allAdds(0, src)...), false)
			ln.runFree(sub+" moved down", []*lsrc{src}, []lop{skipOpL(0, 0), addOpL(0, 1), addOpL(0, 2)}, false)
			ln.runFree(sub+" unmoved", []*lsrc{src}, allAdds(0, src), variant == 1)
			ln.runMangle(sub+" mangle delete first", src, []bool{true, false, false}, []addOp{{"n.txt", []byte("n")}}, false)
		}
		// only the uncompressed size is large (method 8 with a short stored stream; contents are never inflated here)
		fake := g.member("inflates-big.bin", []byte("not really a deflate stream"), 0)
		fake.Method, fake.USize = 8, n
		fake.Reader, fake.LZ64 = 45, true
		src := mkSrc([]*Member{g.member("pre.txt", []byte("pre"), 0), fake, g.member("after.txt", []byte("after"), 0)}, 0)
		ln.runFree(fmt.Sprintf("usize only n=%#x moved", n), []*lsrc{src}, append(ln.front(1), allAdds(0, src)...), false)
		ln.runFree(fmt.Sprintf("usize only n=%#x unmoved", n), []*lsrc{src}, allAdds(0, src), false)
	}
	// F6: the directory itself starts just below / at / above the threshold; NewFile exactly there
	for _, total := range []uint64{t32 - 1, t32, t32 + 1} {
		src := mkSrc([]*Member{zeroMember("big.bin", total-bigHdr)}, 0)
		ln.runFree(fmt.Sprintf("DirLoc=%#x no further member", total), []*lsrc{src}, allAdds(0, src), false)
		for class := 0; class < 2; class++ {
			ln.runFree(fmt.Sprintf("DirLoc=%#x then front class %d", total, class), []*lsrc{src}, append(allAdds(0, src), ln.front(class)...), class == 1)
		}
	}
	// F6b: the same with version-needed 20 everywhere, so that only the directory position can ask for ZIP64 end records
	for _, total := range []uint64{t32 - 1, t32, t32 + 1} {
		pb := bigMember("big.bin", total-37, crcZeros(total-37))
		pb.Creator, pb.Reader = 20, 20
		src := mkSrc([]*Member{pb}, 0)
		ln.runFree(fmt.Sprintf("DirLoc=%#x version 20 no further member", total), []*lsrc{src}, allAdds(0, src), false)
		ln.runMangle(fmt.Sprintf("DirLoc=%#x version 20 mangle nothing", total), src, []bool{false}, nil, false)
		pre := g.member("p", []byte{}, 0)
		// 31 bytes in front are dropped: DirLoc comes down to total
		pb2 := bigMember("big.bin", total-37, crcZeros(total-37))
		pb2.Creator, pb2.Reader = 20, 20
		src3 := mkSrc([]*Member{pre, pb2}, 0)
		ln.runFree(fmt.Sprintf("DirLoc %#x -> %#x version 20 (31 bytes dropped)", total+31, total), []*lsrc{src3}, []lop{skipOpL(0, 0), addOpL(0, 1)}, false)
		ln.runFree(fmt.Sprintf("DirLoc=%#x version 20 then empty new member", total), []*lsrc{src}, append(allAdds(0, src), newOp("z", nil, []byte{}, false, false)), false)
	}
	// F7 (thorough): number of entries around 65535
	if thorough {
		for _, n := range []int{65534, 65535, 65536} {
			var ops []lop
			for i := 0; i < n; i++ {
				ops = append(ops, newOp(fmt.Sprintf("f%05d", i), nil, []byte{}, false, false))
			}
			ln.runFree(fmt.Sprintf("entry count %d", n), nil, ops, false)
		}
	}
	// F8: random sequences around the threshold
	nrand := 120
	if thorough {
		nrand = 1500
	}
	for k := 0; k < nrand; k++ {
		ln.randomCase(g, k)
	}
}

func (ln *layRunner) randomCase(g *gen, k int) {
	r := ln.r
	// a source with 2..6 members, one of them a run of zeros sized so that a member boundary falls near 2^32 - 1
	nm := 2 + r.Intn(5)
	bigAt := r.Intn(nm)
	style := r.Intn(3)
	var ms []*Member
	for i := 0; i < nm; i++ {
		if i == bigAt {
			delta := int64(r.Intn(4000)) - 2000
			if r.Chance(30) {
				delta = int64(r.Intn(7)) - 3
			}
			n := uint64(int64(t32) + delta)
			if r.Chance(15) {
				n += t32
			}
			m := zeroMember(fmt.Sprintf("zeros%d.bin", i), n)
			if r.Chance(30) {
				m.Desc, m.LZ64 = 0, true
			}
			ms = append(ms, m)
			continue
		}
		var data []byte
		switch r.Intn(4) {
		case 0:
			data = []byte{}
		case 1:
			data = []byte("x")
		default:
			data = smallText(20+r.Intn(2000), i)
		}
		m := g.member(fmt.Sprintf("m%d-%d.txt", k, i), data, uint16(8*r.Intn(2)))
		if len(data) == 0 {
			m.Method, m.CData = 0, data
		}
		if r.Chance(25) {
			m.Desc = 1
		}
		if r.Chance(20) {
			m.CExtra = g.extra(4 * (1 + r.Intn(6)))
		}
		ms = append(ms, m)
	}
	for _, m := range ms {
		if r.Chance(70) {
			applyStyle(m, style)
		}
	}
	src := mkSrc(ms, r.Intn(3))
	del := make([]bool, nm)
	for i := range del {
		del[i] = r.Chance(30)
	}
	if r.Chance(50) {
		var adds []addOp
		for j := r.Intn(3); j > 0; j-- {
			adds = append(adds, addOp{fmt.Sprintf("META-INF/R%d-%d.SF", k, j), smallText(r.Intn(400), j)})
		}
		ln.runMangle(fmt.Sprintf("random %d mangle members=%d style=%d", k, nm, style), src, del, adds, r.Chance(30))
		return
	}
	var ops []lop
	if r.Chance(60) {
		ops = append(ops, ln.front(r.Intn(3))...)
		if r.Chance(40) { // shift by a few more bytes so that boundaries are hit from different distances
			ops = append(ops, newOp(fmt.Sprintf("pad%d", k), nil, smallText(r.Intn(2100), k), false, r.Chance(50)))
		}
	}
	for i := range ms {
		if del[i] {
			ops = append(ops, skipOpL(0, i))
		} else {
			ops = append(ops, addOpL(0, i))
		}
	}
	if r.Chance(30) {
		ops = append(ops, newOp(fmt.Sprintf("tail%d.txt", k), nil, smallText(r.Intn(300), k), r.Chance(50), r.Chance(50)))
	}
	ln.runFree(fmt.Sprintf("random %d free members=%d style=%d", k, nm, style), []*lsrc{src}, ops, r.Chance(20))
}

// ---------------------------------------------------------------- entry points

func runC17Layout(c *core.Ctx) error {
	ln := &layRunner{c: c, r: &core.Rng{S: c.Seed ^ 0x1a7007}, counts: map[string]int{}}
	// the zero-run CRC shortcut must agree with the streaming computation
	for _, n := range []uint64{0, 1, 2, 255, 65537, 1<<20 + 3} {
		if crcZeros(n) != crc32.ChecksumIEEE(make([]byte, n)) {
			return fmt.Errorf("crcZeros(%d) wrong", n)
		}
	}
	ln.families(c.Tier == "thorough")
	fmt.Fprintf(os.Stderr, "c17layout: %d cases\n", ln.id)
	return nil
}

// replayLayout re-runs the REAL code on one recorded layout case: the sources are carried as sparse segments plus the
// harness writer's member table, the operations as recorded.
func replayLayout(c *core.Ctx, cs map[string]interface{}) error {
	ln := &layRunner{c: c, r: &core.Rng{S: c.Seed}, counts: map[string]int{}}
	raw, err := json.Marshal(cs)
	if err != nil {
		return err
	}
	var rc struct {
		ID      int    `json:"id"`
		Flow    string `json:"flow"`
		Sub     string `json:"sub"`
		Sources []struct {
			Size    int64            `json:"size"`
			Segs    [][2]interface{} `json:"segs"`
			Members []lmem           `json:"members"`
		} `json:"sources"`
		Lops []lop  `json:"lops"`
		Del  []bool `json:"delete_flags"`
		Adds []struct {
			Name string `json:"name"`
			Data string `json:"data"`
		} `json:"adds"`
		Force bool `json:"force64"`
	}
	if err := json.Unmarshal(raw, &rc); err != nil {
		return err
	}
	var srcs []*lsrc
	for _, sj := range rc.Sources {
		l := &lsrc{s: &sink{pos: sj.Size}, size: sj.Size, mem: sj.Members}
		for _, g := range sj.Segs {
			off, _ := g[0].(float64)
			hs, _ := g[1].(string)
			b, err := hex.DecodeString(hs)
			if err != nil {
				return err
			}
			l.s.segs = append(l.s.segs, seg{int64(off), b})
		}
		srcs = append(srcs, l)
	}
	ln.id = rc.ID
	if rc.Flow == "mangle" {
		if len(srcs) != 1 {
			return errors.New("mangle case needs one source")
		}
		var adds []addOp
		for _, a := range rc.Adds {
			d, _ := hex.DecodeString(a.Data)
			adds = append(adds, addOp{a.Name, d})
		}
		ln.runMangle(rc.Sub, srcs[0], rc.Del, adds, rc.Force)
		return nil
	}
	ln.runFree(rc.Sub, srcs, rc.Lops, rc.Force)
	return nil
}

func init() {
	core.Register("c17layout", runC17Layout)
}
