// observe.go: observations of an archive with archive/zip's reader, relic zipslicer in random-access
// mode and relic zipslicer in streaming mode. Every relic call is wrapped so a panic becomes a string.
package c17

import (
	"archive/zip"
	"bytes"
	"crypto/sha256"
	"encoding/hex"
	"fmt"
	"io"
	"os"

	"github.com/sassoftware/relic/v8/lib/zipslicer"
)

// safe runs f and returns the text of a recovered panic ("" when none).
func safe(f func()) (p string) {
	defer func() {
		if r := recover(); r != nil {
			p = fmt.Sprint(r)
		}
	}()
	f()
	return ""
}

func errStr(err error) string {
	if err == nil {
		return ""
	}
	return err.Error()
}

// hashAll reads r to the end and returns the sha256 of what was read.
func hashAll(r io.Reader) (string, error) {
	h := sha256.New()
	_, err := io.Copy(h, r)
	if err != nil {
		return "", err
	}
	return hex.EncodeToString(h.Sum(nil)), nil
}

// ---------------------------------------------------------------- archive/zip

type goMember struct {
	Name    string `json:"name"`
	CSize   uint64 `json:"csize"`
	USize   uint64 `json:"usize"`
	CRC     uint32 `json:"crc"`
	Method  uint16 `json:"method"`
	DataOff int64  `json:"dataoff"`
	Sha     string `json:"sha256"`
	Err     string `json:"err"`
}

type goObs struct {
	Err     string     `json:"err"`
	Panic   string     `json:"panic,omitempty"`
	Members []goMember `json:"members"`
	Comment string     `json:"comment"`
}

func observeGo(ra io.ReaderAt, size int64, readData bool) *goObs {
	o := &goObs{Members: []goMember{}}
	o.Panic = safe(func() {
		zr, err := zip.NewReader(ra, size)
		if err != nil {
			o.Err = err.Error()
			if zr == nil {
				return
			}
		}
		o.Comment = hx([]byte(zr.Comment))
		for _, f := range zr.File {
			m := goMember{Name: hx([]byte(f.Name)), CSize: f.CompressedSize64, USize: f.UncompressedSize64,
				CRC: f.CRC32, Method: f.Method, DataOff: -1}
			off, err := f.DataOffset()
			if err != nil {
				m.Err = err.Error()
			} else {
				m.DataOff = off
			}
			if readData {
				rc, err := f.Open()
				if err != nil {
					if m.Err == "" {
						m.Err = err.Error()
					}
				} else {
					sum, err := hashAll(rc)
					rc.Close()
					if err != nil {
						if m.Err == "" {
							m.Err = err.Error()
						}
					} else {
						m.Sha = sum
					}
				}
			}
			o.Members = append(o.Members, m)
		}
	})
	return o
}

// ---------------------------------------------------------------- relic, random access

type relicMember struct {
	Name     string `json:"name"`
	Off      uint64 `json:"off"`
	CSize    uint64 `json:"csize"`
	USize    uint64 `json:"usize"`
	CRC0     uint32 `json:"crc0"`
	Method   uint16 `json:"method"`
	Flags    uint16 `json:"flags"`
	Reader   uint16 `json:"reader"`
	Creator  uint16 `json:"creator"`
	MTime    uint16 `json:"mtime"`
	MDate    uint16 `json:"mdate"`
	Extra    string `json:"extra"`
	Comment  string `json:"comment"`
	Total    int64  `json:"total"`
	TotalErr string `json:"total_err"`
	DDLen    int    `json:"ddlen"`
	DDErr    string `json:"dd_err"`
	CRC      uint32 `json:"crc"`
	LFHLen   int    `json:"lfhlen"`
	LFHErr   string `json:"lfh_err"`
	Sha      string `json:"sha256"`
	OpenErr  string `json:"open_err"`
	Panic    string `json:"panic,omitempty"`
}

type origObs struct {
	Err   string `json:"err"`
	Panic string `json:"panic"`
	CD    string `json:"cd"`
	EOD   string `json:"eod"`
}

type relicObs struct {
	Err       string        `json:"err"`
	Panic     string        `json:"panic"`
	DirLoc    int64         `json:"dirloc"`
	Members   []relicMember `json:"members"`
	Next      int64         `json:"next"`
	NextErr   string        `json:"next_err"`
	NextPanic string        `json:"next_panic,omitempty"`
	WdCD      string        `json:"wd_cd"`
	WdEOD     string        `json:"wd_eod"`
	WdErr     string        `json:"wd_err"`
	WdPanic   string        `json:"wd_panic"`
	Wd1       string        `json:"wd1"`
	Wd1Err    string        `json:"wd1_err"`
	Wd1Panic  string        `json:"wd1_panic,omitempty"`
	OrigFalse *origObs      `json:"orig_false"`
	OrigTrue  *origObs      `json:"orig_true"`
}

func relicRead(ra io.ReaderAt, size int64) (d *zipslicer.Directory, e string, p string) {
	p = safe(func() {
		var err error
		d, err = zipslicer.Read(ra, size)
		e = errStr(err)
		if err != nil {
			d = nil
		}
	})
	if p != "" {
		d = nil
	}
	return
}

func observeRelic(ra io.ReaderAt, size int64, openData bool) *relicObs {
	o := &relicObs{Members: []relicMember{}, OrigFalse: &origObs{}, OrigTrue: &origObs{}}
	d, e, p := relicRead(ra, size)
	o.Err, o.Panic = e, p
	if d == nil {
		return o
	}
	o.DirLoc = d.DirLoc
	for _, f := range d.File {
		m := relicMember{Name: hx([]byte(f.Name)), Off: f.Offset, CSize: f.CompressedSize, USize: f.UncompressedSize,
			CRC0: f.CRC32, Method: f.Method, Flags: f.Flags, Reader: f.ReaderVersion, Creator: f.CreatorVersion,
			MTime: f.ModifiedTime, MDate: f.ModifiedDate, Extra: hx(f.Extra), Comment: hx(f.Comment)}
		m.Panic = safe(func() {
			t, err := f.GetTotalSize()
			m.Total, m.TotalErr = t, errStr(err)
			dd, err := f.GetDataDescriptor()
			m.DDLen, m.DDErr = len(dd), errStr(err)
			m.CRC = f.CRC32
			lfh, err := f.GetLocalHeader()
			m.LFHLen, m.LFHErr = len(lfh), errStr(err)
			if openData {
				rc, err := f.Open()
				if err != nil {
					m.OpenErr = err.Error()
				} else {
					sum, err := hashAll(rc)
					rc.Close()
					m.Sha, m.OpenErr = sum, errStr(err)
				}
			}
		})
		o.Members = append(o.Members, m)
	}
	o.NextPanic = safe(func() {
		n, err := d.NextFileOffset()
		o.Next, o.NextErr = n, errStr(err)
	})
	// directory writers, each on a fresh Read so no cache of the calls above is involved
	if d2, _, _ := relicRead(ra, size); d2 != nil {
		var cd, eod bytes.Buffer
		o.WdPanic = safe(func() { o.WdErr = errStr(d2.WriteDirectory(&cd, &eod, false)) })
		o.WdCD, o.WdEOD = hx(cd.Bytes()), hx(eod.Bytes())
		var one bytes.Buffer
		o.Wd1Panic = safe(func() { o.Wd1Err = errStr(d2.WriteDirectory(&one, &one, false)) })
		o.Wd1 = hx(one.Bytes())
	}
	for _, trim := range []bool{false, true} {
		oo := o.OrigFalse
		if trim {
			oo = o.OrigTrue
		}
		d3, _, _ := relicRead(ra, size)
		if d3 == nil {
			continue
		}
		oo.Panic = safe(func() {
			cd, eod, err := d3.GetOriginalDirectory(trim)
			oo.CD, oo.EOD, oo.Err = hx(cd), hx(eod), errStr(err)
		})
	}
	return o
}

// ---------------------------------------------------------------- relic, streaming

type streamMember struct {
	Name     string `json:"name"`
	Off      uint64 `json:"off"`
	CSize    uint64 `json:"csize"`
	USize    uint64 `json:"usize"`
	Total    int64  `json:"total"`
	TotalErr string `json:"total_err"`
	Sha      string `json:"sha256"`
	OpenErr  string `json:"open_err"`
	CRC      uint32 `json:"crc"`
	Panic    string `json:"panic,omitempty"`
}

type streamObs struct {
	Err     string         `json:"err"`
	Panic   string         `json:"panic"`
	TarErr  string         `json:"tar_err"` // what ZipToTar returned ("" = nil; may be a closed-pipe error when we stopped early)
	Members []streamMember `json:"members"`
}

// observeStream pipes ZipToTar(file) into ReadZipTar and walks the members in order.
// layoutOnly: call only GetTotalSize per member (no Open).
func observeStream(path string, layoutOnly bool) *streamObs {
	o := &streamObs{Members: []streamMember{}}
	fh, err := os.Open(path)
	if err != nil {
		o.Err = "harness: " + err.Error()
		return o
	}
	defer fh.Close()
	pr, pw := io.Pipe()
	done := make(chan string, 1)
	go func() {
		var terr error
		p := safe(func() { terr = zipslicer.ZipToTar(fh, pw) })
		if p != "" {
			pw.CloseWithError(fmt.Errorf("panic in ZipToTar: %s", p))
			done <- "panic: " + p
			return
		}
		pw.CloseWithError(terr) // nil -> plain Close (EOF on the read side)
		done <- errStr(terr)
	}()
	var d *zipslicer.Directory
	o.Panic = safe(func() {
		var err error
		d, err = zipslicer.ReadZipTar(pr)
		o.Err = errStr(err)
		if err != nil {
			d = nil
		}
	})
	if o.Panic == "" && d != nil {
		for _, f := range d.File {
			m := streamMember{Name: hx([]byte(f.Name)), Off: f.Offset, CSize: f.CompressedSize, USize: f.UncompressedSize}
			failed := false
			m.Panic = safe(func() {
				if !layoutOnly {
					rc, err := f.Open()
					if err != nil {
						m.OpenErr = err.Error()
						failed = true
					} else {
						sum, err := hashAll(rc)
						rc.Close()
						m.Sha, m.OpenErr = sum, errStr(err)
						if err != nil {
							failed = true
						}
					}
				}
				if !failed {
					t, err := f.GetTotalSize()
					m.Total, m.TotalErr = t, errStr(err)
					if err != nil {
						failed = true
					}
				}
				m.CRC = f.CRC32
			})
			o.Members = append(o.Members, m)
			if failed || m.Panic != "" {
				break
			}
		}
	}
	pr.Close() // unblocks the writer if it is still going
	o.TarErr = <-done
	return o
}
