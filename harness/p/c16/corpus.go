package c16

import (
	"fmt"
	"os"
	"os/exec"
	"path/filepath"
	"strings"
)

// The valid samples come from OpenSSL (cms -sign, ts -reply), i.e. from an implementation that is not relic.
const opensslConf = `
[ tsa ]
default_tsa = tsa1
[ tsa1 ]
dir = .
serial = $dir/tsaserial
crypto_device = builtin
signer_cert = $dir/tsa.crt
certs = $dir/ca.crt
signer_key = $dir/tsa.key
signer_digest = sha256
default_policy = 1.2.3.4.1
digests = sha1, sha256, sha384, sha512
accuracy = secs:1, millisecs:500, microsecs:100
ordering = yes
tsa_name = yes
ess_cert_id_chain = no
ess_cert_id_alg = sha256
[ tsa2 ]
dir = .
serial = $dir/tsaserial2
crypto_device = builtin
signer_cert = $dir/tsa2.crt
certs = $dir/chain2.pem
signer_key = $dir/rsa2048.key
signer_digest = sha512
default_policy = 1.3.6.1.4.1.99999.1
digests = sha1, sha256, sha384, sha512
ordering = no
tsa_name = no
ess_cert_id_chain = yes
ess_cert_id_alg = sha1
[ tsaext ]
extendedKeyUsage = critical,timeStamping
basicConstraints = CA:FALSE
[ caext ]
basicConstraints = critical,CA:TRUE
[ leafext ]
subjectKeyIdentifier = hash
[ ca ]
default_ca = CA_default
[ CA_default ]
dir = .
database = $dir/index.txt
serial = $dir/serial
crlnumber = $dir/crlnumber
default_md = sha256
default_crl_days = 30
certificate = $dir/ca.crt
private_key = $dir/ca.key
policy = policy_any
[ policy_any ]
commonName = supplied
`

const opensslScript = `
set -e
echo 01 > tsaserial; echo 1000 > tsaserial2; : > index.txt; echo 01 > crlnumber; echo 10 > serial
openssl ecparam -name prime256v1 -genkey -noout -out ca.key
openssl req -x509 -new -key ca.key -subj "/CN=Verif Root/O=verif" -days 3650 -out ca.crt -addext "basicConstraints=critical,CA:TRUE" 2>/dev/null
openssl ecparam -name secp384r1 -genkey -noout -out inter.key
openssl req -new -key inter.key -subj "/CN=Verif Intermediate" -out inter.csr 2>/dev/null
openssl x509 -req -in inter.csr -CA ca.crt -CAkey ca.key -CAcreateserial -days 3650 -out inter.crt -extfile v.cnf -extensions caext 2>/dev/null
openssl ecparam -name prime256v1 -genkey -noout -out ec.key
openssl req -new -key ec.key -subj "/CN=ec leaf/OU=unit one" -out ec.csr 2>/dev/null
openssl x509 -req -in ec.csr -CA inter.crt -CAkey inter.key -CAcreateserial -days 365 -out ec.crt -extfile v.cnf -extensions leafext 2>/dev/null
openssl ecparam -name prime256v1 -genkey -noout -out tsa.key
openssl req -new -key tsa.key -subj "/CN=verif tsa" -out tsa.csr 2>/dev/null
openssl x509 -req -in tsa.csr -CA ca.crt -CAkey ca.key -CAcreateserial -days 365 -out tsa.crt -extfile v.cnf -extensions tsaext 2>/dev/null
openssl req -new -key rsa2048.key -subj "/CN=verif tsa two/C=US" -out tsa2.csr 2>/dev/null
openssl x509 -req -in tsa2.csr -CA inter.crt -CAkey inter.key -CAcreateserial -days 365 -out tsa2.crt -extfile v.cnf -extensions tsaext 2>/dev/null
cat inter.crt ca.crt > chain2.pem
cat inter.crt ca.crt > chain.pem
cat rsa2048.crt ec.crt tsa.crt tsa2.crt inter.crt > allcerts.pem
cat tsa.crt tsa2.crt inter.crt > tsacerts.pem
printf 'hello world\n' > content.txt
head -c 300 /dev/zero | tr '\0' 'x' > content300.txt
: > empty.txt
S="openssl cms -sign -binary -outform DER"
printf '\004\036ZZZZZZZZZZZZZZZZZZZZZZZZZZZZZZ' > octets.bin
$S -in octets.bin -signer rsa2048.crt -inkey rsa2048.key -nodetach -out rsa_octet_string_run.der
$S -in octets.bin -signer ec.crt -inkey ec.key -nodetach -noattr -out ec_octet_string_run_noattr.der
$S -in content.txt -signer rsa2048.crt -inkey rsa2048.key -nodetach -out rsa_attrs.der
$S -in content.txt -signer rsa2048.crt -inkey rsa2048.key -nodetach -noattr -out rsa_noattr.der
$S -in content.txt -signer rsa2048.crt -inkey rsa2048.key -out rsa_detached.der
$S -in content.txt -signer rsa2048.crt -inkey rsa2048.key -nodetach -nocerts -out rsa_nocerts.der
$S -in content.txt -signer rsa2048.crt -inkey rsa2048.key -nodetach -md sha1 -out rsa_sha1.der
$S -in content.txt -signer rsa2048.crt -inkey rsa2048.key -nodetach -md sha512 -nosmimecap -out rsa_sha512.der
$S -in content.txt -signer rsa2048.crt -inkey rsa2048.key -nodetach -keyopt rsa_padding_mode:pss -out rsa_pss.der
$S -in content.txt -signer rsa2048.crt -inkey rsa2048.key -nodetach -keyopt rsa_padding_mode:pss -keyopt rsa_pss_saltlen:20 -md sha384 -out rsa_pss384.der
$S -in content300.txt -signer ec.crt -inkey ec.key -certfile chain.pem -nodetach -out ec_chain.der
$S -in content.txt -signer ec.crt -inkey ec.key -certfile chain.pem -out ec_chain_detached.der
$S -in empty.txt -signer ec.crt -inkey ec.key -nodetach -out ec_empty.der
$S -in content.txt -signer ec.crt -inkey ec.key -nodetach -cades -out ec_cades.der
$S -in content.txt -signer ec.crt -inkey ec.key -nodetach -receipt_request_all -receipt_request_to a@example.com -out ec_receipt.der
$S -in content.txt -signer rsa2048.crt -inkey rsa2048.key -signer ec.crt -inkey ec.key -certfile chain.pem -nodetach -out two_signers.der
openssl cms -resign -binary -inform DER -in two_signers.der -signer tsa.crt -inkey tsa.key -outform DER -nodetach -out three_signers.der
$S -in content.txt -signer ec.crt -inkey ec.key -nodetach -keyid -out ec_keyid.der
$S -in content.txt -signer ec.crt -inkey ec.key -nodetach -stream -out ec_stream_ber.der
openssl ca -config v.cnf -gencrl -out ca.crl.pem 2>/dev/null
openssl crl -in ca.crl.pem -outform DER -out ca.crl
# timestamp tokens from two differently configured authorities
openssl ts -query -data content.txt -sha256 -cert -out q1.tsq 2>/dev/null
openssl ts -reply -config v.cnf -section tsa1 -queryfile q1.tsq -out r1.tsr 2>/dev/null
openssl ts -reply -in r1.tsr -token_out -out tst_ec_certs.der 2>/dev/null
openssl ts -query -data content.txt -sha512 -no_nonce -out q2.tsq 2>/dev/null
openssl ts -reply -config v.cnf -section tsa1 -queryfile q2.tsq -out r2.tsr 2>/dev/null
openssl ts -reply -in r2.tsr -token_out -out tst_ec_nocerts.der 2>/dev/null
openssl ts -query -data content300.txt -sha1 -cert -tspolicy 1.3.6.1.4.1.99999.1 -out q3.tsq 2>/dev/null
openssl ts -reply -config v.cnf -section tsa2 -queryfile q3.tsq -out r3.tsr 2>/dev/null
openssl ts -reply -in r3.tsr -token_out -out tst_rsa_chain.der 2>/dev/null
`

type sample struct {
	Label   string
	Der     []byte
	Kind    string // cms | tst
	Content string // file with the content for detached verification ("" = attached)
	Query   string // .tsq file for ts -verify
	WantErr bool   // relic must refuse (BER, v3 signer identifier)
}

func runSh(dir, script string) error {
	cmd := exec.Command("sh", "-c", script)
	cmd.Dir = dir
	cmd.Env = append(os.Environ(), "OPENSSL_CONF="+filepath.Join(dir, "v.cnf"))
	out, err := cmd.CombinedOutput()
	if err != nil {
		return fmt.Errorf("openssl corpus script failed: %v\n%s", err, tail(string(out), 1500))
	}
	return nil
}

func tail(s string, n int) string {
	if len(s) > n {
		return s[len(s)-n:]
	}
	return s
}

func repoRoot() string {
	if r := os.Getenv("VERIF_REPO"); r != "" {
		return r
	}
	return "/repo"
}

// makeCorpus runs OpenSSL in dir and returns the valid samples.
func makeCorpus(dir string) ([]sample, error) {
	if err := os.MkdirAll(dir, 0o755); err != nil {
		return nil, err
	}
	for _, f := range []string{"rsa2048.key", "rsa2048.crt"} {
		b, err := os.ReadFile(filepath.Join(repoRoot(), "functest/testkeys", f))
		if err != nil {
			return nil, err
		}
		if err := os.WriteFile(filepath.Join(dir, f), b, 0o600); err != nil {
			return nil, err
		}
	}
	if err := os.WriteFile(filepath.Join(dir, "v.cnf"), []byte(opensslConf), 0o644); err != nil {
		return nil, err
	}
	if err := runSh(dir, opensslScript); err != nil {
		return nil, err
	}
	var out []sample
	ents, _ := filepath.Glob(filepath.Join(dir, "*.der"))
	for _, p := range ents {
		b, err := os.ReadFile(p)
		if err != nil {
			return nil, err
		}
		l := strings.TrimSuffix(filepath.Base(p), ".der")
		s := sample{Label: l, Der: b, Kind: "cms"}
		switch {
		case strings.HasPrefix(l, "tst_"):
			s.Kind = "tst"
			s.Query = map[string]string{"tst_ec_certs": "q1.tsq", "tst_ec_nocerts": "q2.tsq", "tst_rsa_chain": "q3.tsq"}[l]
		case strings.Contains(l, "detached"):
			s.Content = "content.txt"
		}
		if l == "ec_keyid" || l == "ec_stream_ber" {
			s.WantErr = true
		}
		out = append(out, s)
	}
	return out, nil
}
