package c16

// A small DER reader/writer used ONLY by the case generator (to find structure boundaries in valid samples and to
// compose inputs).  It shares nothing with encoding/asn1 or relic.

type node struct {
	tag      byte
	off      int // offset of the identifier octet in the buffer
	hlen     int // header length
	length   int // content length
	children []*node
	depth    int
}

func (n *node) end() int   { return n.off + n.hlen + n.length }
func (n *node) body() int  { return n.off + n.hlen }
func (n *node) cons() bool { return n.tag&0x20 != 0 }

// parseOne reads one definite-length element at off; ok=false if it does not fit.
func parseOne(b []byte, off, end, depth int) (*node, bool) {
	if off+2 > end {
		return nil, false
	}
	n := &node{tag: b[off], off: off, depth: depth}
	if b[off]&0x1f == 0x1f {
		return nil, false
	}
	l := int(b[off+1])
	p := off + 2
	if l >= 0x80 {
		k := l & 0x7f
		if k == 0 || k > 4 || p+k > end {
			return nil, false
		}
		l = 0
		for i := 0; i < k; i++ {
			l = l<<8 | int(b[p+i])
		}
		p += k
	}
	if l < 0 || p+l > end {
		return nil, false
	}
	n.hlen = p - off
	n.length = l
	if n.cons() {
		q := p
		var kids []*node
		okAll := true
		for q < p+l {
			c, ok := parseOne(b, q, p+l, depth+1)
			if !ok {
				okAll = false
				break
			}
			kids = append(kids, c)
			q = c.end()
		}
		if okAll {
			n.children = kids
		}
	}
	return n, true
}

func flatten(n *node, out *[]*node) {
	*out = append(*out, n)
	for _, c := range n.children {
		flatten(c, out)
	}
}

func encLen(n int) []byte {
	switch {
	case n < 0x80:
		return []byte{byte(n)}
	case n < 0x100:
		return []byte{0x81, byte(n)}
	case n < 0x10000:
		return []byte{0x82, byte(n >> 8), byte(n)}
	case n < 0x1000000:
		return []byte{0x83, byte(n >> 16), byte(n >> 8), byte(n)}
	}
	return []byte{0x84, byte(n >> 24), byte(n >> 16), byte(n >> 8), byte(n)}
}

func tlv(tag byte, parts ...[]byte) []byte {
	n := 0
	for _, p := range parts {
		n += len(p)
	}
	out := append([]byte{tag}, encLen(n)...)
	for _, p := range parts {
		out = append(out, p...)
	}
	return out
}

func cat(parts ...[]byte) []byte {
	var out []byte
	for _, p := range parts {
		out = append(out, p...)
	}
	return out
}

// replaceNode rebuilds the buffer with node `target` replaced by `repl`, fixing the lengths of all ancestors.
func replaceNode(b []byte, root, target *node, repl []byte) []byte {
	if root == target {
		return repl
	}
	if root.children == nil || target.off < root.off || target.end() > root.end() {
		return append([]byte{}, b[root.off:root.end()]...)
	}
	var body []byte
	for _, c := range root.children {
		body = append(body, replaceNode(b, c, target, repl)...)
	}
	return tlv(root.tag, body)
}
