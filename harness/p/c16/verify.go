package c16

// c16sv: WHICH byte string relic digests and checks a signature against.
//
// The generator (its own DER writer, Go's crypto only for SIGNING) produces RFC 3161 timestamp tokens / CMS SignedData whose
// SignerInfo carries the signed attributes in a chosen LAYOUT (DER order, insertion order, reversed, duplicates, Go-tolerated
// junk, empty, non-minimal lengths, none) and whose signature was computed over a chosen ENCODING of those attributes (the
// bytes as emitted, the sorted DER SET OF, a canonical re-encoding, another order, the [0]-tagged field, a SEQUENCE tag, the
// content digest, with or without DigestInfo).  Each token goes through the real relic code:
//
//	pkcs7.Unmarshal, SignedData.Verify, SignerInfo.Verify (digests checked and skipped), AuthenticatedAttributesBytes,
//	pkcs9.Verify, and pkcs9.TimestampAndMarshal on a signature freshly built by relic with a Timestamper that hands the
//	token over (the post-construction self check).
//
// Verdicts and error texts are observations; the check decides (checks/c16.py: a strict verifier written from RFC 5652 with
// its own RSA / ECDSA arithmetic, and the extracted Coq model).

import (
	"bytes"
	"context"
	"crypto"
	"crypto/ecdsa"
	"crypto/elliptic"
	"crypto/rand"
	"crypto/rsa"
	"crypto/sha1"
	"crypto/sha256"
	"crypto/x509"
	"crypto/x509/pkix"
	"encoding/hex"
	"encoding/json"
	"errors"
	"fmt"
	"math/big"
	"os"
	"path/filepath"
	"sort"
	"time"

	"github.com/sassoftware/relic/v8/lib/pkcs7"
	"github.com/sassoftware/relic/v8/lib/pkcs9"
	"github.com/sassoftware/relic/v8/verifharness/core"
)

func init() {
	core.Register("c16sv", runSigVerify)
}

// sx: SignedData.Verify with and without external content (detached / attached / attached with a stale copy)
type sxCase struct {
	T        string `json:"t"` // "sx"
	ID       int    `json:"id"`
	Key      string `json:"key"`
	Shape    string `json:"shape"`    // what the content looks like: text | octet-string-run
	Attrs    bool   `json:"attrs"`    // signed attributes present
	Embedded string `json:"embedded"` // none | original | tampered
	External string `json:"external"` // none | original | tampered | empty
	Expect   string `json:"expect"`
	X        string `json:"x"`
	Ext      string `json:"ext"`
	ExtGiven bool   `json:"ext_given"`
	// observations
	Parse    string `json:"parse"`
	SdVerify string `json:"sd_verify"` // SignedData.Verify(ext, false)
	SdSkip   string `json:"sd_skip"`   // SignedData.Verify(ext, true)
	Content  string `json:"content"`   // ContentInfo.Bytes(): hex | "nil" | "error: ..."
	Panic    string `json:"panic,omitempty"`
}

func sxObserve(cs *sxCase) {
	defer func() {
		if r := recover(); r != nil {
			cs.Panic = fmt.Sprint(r)
		}
	}()
	x, _ := hex.DecodeString(cs.X)
	var ext []byte
	if cs.ExtGiven {
		ext, _ = hex.DecodeString(cs.Ext)
		if ext == nil {
			ext = []byte{}
		}
	}
	cs.SdVerify, cs.SdSkip, cs.Content = "n/a", "n/a", ""
	psd, err := pkcs7.Unmarshal(x)
	if err != nil {
		cs.Parse = tail(err.Error(), 160)
		return
	}
	if b, err := psd.Content.ContentInfo.Bytes(); err != nil {
		cs.Content = "error: " + tail(err.Error(), 80)
	} else if b == nil {
		cs.Content = "nil"
	} else {
		cs.Content = hex.EncodeToString(b)
	}
	_, err = psd.Content.Verify(ext, false)
	cs.SdVerify = errText(err)
	if p2, err := pkcs7.Unmarshal(x); err == nil {
		_, err = p2.Content.Verify(ext, true)
		cs.SdSkip = errText(err)
	}
}

func sxReplay(c *core.Ctx, raw json.RawMessage, id int) error {
	var old sxCase
	if err := json.Unmarshal(raw, &old); err != nil {
		return err
	}
	cs := &sxCase{T: "sx", ID: id, Key: old.Key, Shape: old.Shape, Attrs: old.Attrs, Embedded: old.Embedded, External: old.External,
		Expect: old.Expect, X: old.X, Ext: old.Ext, ExtGiven: old.ExtGiven}
	sxObserve(cs)
	c.Emit(cs)
	return nil
}

// a SignedData over id-data content: detached (embedded == nil) or attached
func sxSignedData(k svKey, hoid, ealg []byte, embedded []byte, field, sig []byte) []byte {
	dalg := tlv(0x30, tlv(0x06, hoid), derNull)
	parts := [][]byte{{0x02, 0x01, 0x01}, tlv(0x30, k.issuer, tlv(0x02, k.serial)), dalg}
	if field != nil {
		parts = append(parts, field)
	}
	parts = append(parts, ealg, tlv(0x04, sig))
	eci := tlv(0x30, tlv(0x06, oidData))
	if embedded != nil {
		eci = tlv(0x30, tlv(0x06, oidData), tlv(0xa0, tlv(0x04, embedded)))
	}
	sd := tlv(0x30, []byte{0x02, 0x01, 0x01}, tlv(0x31, dalg), eci, tlv(0xa0, k.certDer), tlv(0x31, tlv(0x30, parts...)))
	return tlv(0x30, tlv(0x06, oidSignedD), tlv(0xa0, sd))
}

func runExternal(c *core.Ctx, keys []svKey, id *int) error {
	shapes := []struct {
		name string
		orig []byte
	}{
		{"text", []byte("the bytes that were signed\n")},
		// content that is itself a run of complete primitive OCTET STRING elements (a 32-octet value that starts 04 1e)
		{"octet-string-run", cat([]byte{0x04, 0x1e}, bytes.Repeat([]byte{0x5a}, 30))},
		{"octet-string-run-2", cat([]byte{0x04, 0x03}, []byte("abc"), []byte{0x04, 0x00}, []byte{0x04, 0x02}, []byte("de"))},
	}
	for _, k := range keys {
		h, hoid := svHash("sha256")
		ealg := k.ealg
		if k.name == "ec" {
			ealg = tlv(0x30, tlv(0x06, oidEcdsa256))
		}
		for _, sh := range shapes {
			tampered := append([]byte{}, sh.orig...)
			tampered[len(tampered)-1] ^= 0x01
			for _, withAttrs := range []bool{true, false} {
				var field []byte
				var digest []byte
				if withAttrs {
					field = tlv(0xa0, svAttr(oidAttrST, tlv(0x17, []byte("260930120000Z"))), svAttr(oidAttrCT, tlv(0x06, oidData)), svAttr(oidAttrMD, tlv(0x04, svDigest(h, sh.orig))))
					digest = svDigest(h, cat([]byte{0x31}, field[1:]))
				} else {
					digest = svDigest(h, sh.orig)
				}
				sig, err := svSign(k, h, digest, false)
				if err != nil {
					return err
				}
				for _, emb := range []string{"none", "original", "tampered"} {
					var e []byte
					switch emb {
					case "original":
						e = sh.orig
					case "tampered":
						e = tampered
					}
					x := sxSignedData(k, hoid, ealg, e, field, sig)
					for _, ex := range []string{"none", "original", "tampered", "empty"} {
						var ext []byte
						given := ex != "none"
						switch ex {
						case "original":
							ext = sh.orig
						case "tampered":
							ext = tampered
						}
						// what is verified: the external content when given, else the embedded one; both given: must be equal
						expect := "reject"
						switch {
						case !given && emb == "original":
							expect = "accept"
						case ex == "original" && (emb == "none" || emb == "original"):
							expect = "accept"
						}
						cs := &sxCase{T: "sx", ID: *id, Key: k.name, Shape: sh.name, Attrs: withAttrs, Embedded: emb, External: ex, Expect: expect,
							X: hex.EncodeToString(x), Ext: hex.EncodeToString(ext), ExtGiven: given}
						*id++
						sxObserve(cs)
						c.Emit(cs)
					}
				}
			}
		}
	}
	return nil
}

type svCase struct {
	T      string `json:"t"` // "sv"
	ID     int    `json:"id"`
	Key    string `json:"key"`    // rsa | ec
	Hash   string `json:"hash"`   // sha256 | sha1
	Layout string `json:"layout"` // how the signed attributes are written
	Signed string `json:"signed"` // which encoding the signature was computed over
	MD     string `json:"md"`     // ok | wrong
	Expect string `json:"expect"` // what the generator intends: accept | reject | refuse-parse
	X      string `json:"x"`      // the token (DER as produced by the generator)
	Data   string `json:"data"`   // the octets the timestamp is over (signature value of the enclosing SignerInfo)
	// observations
	Parse    string `json:"parse"`     // "" | error text
	SdVerify string `json:"sd_verify"` // SignedData.Verify(nil, false): ok | error text | n/a
	SiVerify string `json:"si_verify"` // SignerInfos[0].Verify(content, false, certs)
	SiSkip   string `json:"si_skip"`   // SignerInfos[0].Verify(content, true, certs)
	TsVerify string `json:"ts_verify"` // pkcs9.Verify(token, data, nil)
	Aab      string `json:"aab"`       // AuthenticatedAttributesBytes (hex) or "error: ..."
	NAuth    int    `json:"nauth"`
	Tam      string `json:"tam"`     // TimestampAndMarshal: emitted | error text
	TamOut   string `json:"tam_out"` // what it emitted
	Panic    string `json:"panic,omitempty"`
}

// ---------------------------------------------------------------- key material

type svKey struct {
	name    string
	signer  crypto.Signer
	certDer []byte
	issuer  []byte // RawIssuer
	serial  []byte // contents octets of the serial number
	ealg    []byte // signatureAlgorithm element
}

var (
	oidData      = []byte{0x2a, 0x86, 0x48, 0x86, 0xf7, 0x0d, 0x01, 0x07, 0x01}
	oidSignedD   = []byte{0x2a, 0x86, 0x48, 0x86, 0xf7, 0x0d, 0x01, 0x07, 0x02}
	oidTSTInfo   = []byte{0x2a, 0x86, 0x48, 0x86, 0xf7, 0x0d, 0x01, 0x09, 0x10, 0x01, 0x04}
	oidAttrCT    = []byte{0x2a, 0x86, 0x48, 0x86, 0xf7, 0x0d, 0x01, 0x09, 0x03}
	oidAttrMD    = []byte{0x2a, 0x86, 0x48, 0x86, 0xf7, 0x0d, 0x01, 0x09, 0x04}
	oidAttrST    = []byte{0x2a, 0x86, 0x48, 0x86, 0xf7, 0x0d, 0x01, 0x09, 0x05}
	oidCustom    = []byte{0x2b, 0x06, 0x01, 0x04, 0x01, 0x83, 0x8d, 0x1f, 0x01} // 1.3.6.1.4.1.51871.1 (private arc)
	oidSha256    = []byte{0x60, 0x86, 0x48, 0x01, 0x65, 0x03, 0x04, 0x02, 0x01}
	oidSha1      = []byte{0x2b, 0x0e, 0x03, 0x02, 0x1a}
	oidRsaEnc    = []byte{0x2a, 0x86, 0x48, 0x86, 0xf7, 0x0d, 0x01, 0x01, 0x01}
	oidEcdsa256  = []byte{0x2a, 0x86, 0x48, 0xce, 0x3d, 0x04, 0x03, 0x02}
	oidEcdsaSha1 = []byte{0x2a, 0x86, 0x48, 0xce, 0x3d, 0x04, 0x01}
	derNull      = []byte{0x05, 0x00}
)

func svKeys() ([]svKey, error) {
	var out []svKey
	keyDer := loadPEM(filepath.Join(repoRoot(), "functest/testkeys/rsa2048.key"), "PRIVATE KEY")
	var rk *rsa.PrivateKey
	if k, err := x509.ParsePKCS1PrivateKey(keyDer); err == nil {
		rk = k
	} else if k8, err := x509.ParsePKCS8PrivateKey(keyDer); err == nil {
		rk = k8.(*rsa.PrivateKey)
	} else {
		return nil, err
	}
	rc := loadCert(filepath.Join(repoRoot(), "functest/testkeys/rsa2048.crt"))
	out = append(out, svKey{"rsa", rk, rc.Raw, rc.RawIssuer, intContents(rc.SerialNumber), tlv(0x30, tlv(0x06, oidRsaEnc), derNull)})
	ek, err := ecdsa.GenerateKey(elliptic.P256(), rand.Reader)
	if err != nil {
		return nil, err
	}
	tmpl := &x509.Certificate{
		SerialNumber: big.NewInt(0x5eed16), Subject: pkix.Name{CommonName: "verif c16 tsa", Organization: []string{"verif"}},
		NotBefore: time.Date(2026, 1, 1, 0, 0, 0, 0, time.UTC), NotAfter: time.Date(2036, 1, 1, 0, 0, 0, 0, time.UTC),
		KeyUsage: x509.KeyUsageDigitalSignature, ExtKeyUsage: []x509.ExtKeyUsage{x509.ExtKeyUsageTimeStamping},
	}
	ed, err := x509.CreateCertificate(rand.Reader, tmpl, tmpl, ek.Public(), ek)
	if err != nil {
		return nil, err
	}
	ec, err := x509.ParseCertificate(ed)
	if err != nil {
		return nil, err
	}
	out = append(out, svKey{"ec", ek, ec.Raw, ec.RawIssuer, intContents(ec.SerialNumber), nil})
	return out, nil
}

func svHash(name string) (crypto.Hash, []byte) {
	if name == "sha1" {
		return crypto.SHA1, oidSha1
	}
	return crypto.SHA256, oidSha256
}

func svDigest(h crypto.Hash, b []byte) []byte {
	if h == crypto.SHA1 {
		d := sha1.Sum(b)
		return d[:]
	}
	d := sha256.Sum256(b)
	return d[:]
}

// sign `digest`; raw = RSA PKCS#1 v1.5 padding around the bare digest (no DigestInfo), the quirk relic retries for
func svSign(k svKey, h crypto.Hash, digest []byte, raw bool) ([]byte, error) {
	switch key := k.signer.(type) {
	case *rsa.PrivateKey:
		if raw {
			return rsa.SignPKCS1v15(rand.Reader, key, 0, digest)
		}
		return rsa.SignPKCS1v15(rand.Reader, key, h, digest)
	case *ecdsa.PrivateKey:
		return ecdsa.SignASN1(rand.Reader, key, digest)
	}
	return nil, errors.New("unknown key type")
}

// ---------------------------------------------------------------- token construction

func svAttr(oid []byte, values ...[]byte) []byte {
	return tlv(0x30, tlv(0x06, oid), tlv(0x31, values...))
}

// non-minimal re-encoding of the length of one element (contents unchanged)
func nonMinimal(el []byte) []byte {
	n, ok := parseOne(el, 0, len(el), 0)
	if !ok {
		return el
	}
	body := el[n.body():n.end()]
	if n.length < 0x80 {
		return cat([]byte{el[0], 0x81, byte(n.length)}, body)
	}
	l := encLen(n.length)
	return cat([]byte{el[0], l[0] + 1, 0}, l[1:], body)
}

type svLayout struct {
	name  string
	field []byte   // the [0] field exactly as written into the SignerInfo (nil: no signed attributes)
	attrs [][]byte // the attribute encodings in emitted order (as written, quirks included)
	canon [][]byte // the same attributes canonically re-encoded (what re-marshalling the parsed list gives)
	parse bool     // Go's encoding/asn1 is expected to parse the SignerInfo
	tail  []byte   // octets after the signature value inside the SignerInfo SEQUENCE
}

func sortedCopy(l [][]byte) [][]byte {
	c := append([][]byte{}, l...)
	sort.Slice(c, func(i, j int) bool { return bytes.Compare(c[i], c[j]) < 0 })
	return c
}

func reversedCopy(l [][]byte) [][]byte {
	var c [][]byte
	for i := len(l) - 1; i >= 0; i-- {
		c = append(c, l[i])
	}
	return c
}

func sameOrder(a, b [][]byte) bool {
	if len(a) != len(b) {
		return false
	}
	for i := range a {
		if !bytes.Equal(a[i], b[i]) {
			return false
		}
	}
	return true
}

func svLayouts(ctype, md, wrongMD []byte) []svLayout {
	st := svAttr(oidAttrST, tlv(0x17, []byte("260930120000Z")))
	ct := svAttr(oidAttrCT, tlv(0x06, ctype))
	mda := svAttr(oidAttrMD, tlv(0x04, md))
	mdWrong := svAttr(oidAttrMD, tlv(0x04, wrongMD))
	std := [][]byte{st, ct, mda}
	der := sortedCopy(std)
	ins := std
	if sameOrder(ins, der) {
		ins = [][]byte{ct, st, mda}
	}
	mk := func(name string, attrs, canon [][]byte, parse bool) svLayout {
		return svLayout{name: name, field: tlv(0xa0, attrs...), attrs: attrs, canon: canon, parse: parse}
	}
	var ls []svLayout
	ls = append(ls, mk("der-order", der, der, true))
	ls = append(ls, mk("insertion-order", ins, ins, true))
	ls = append(ls, mk("reversed-der", reversedCopy(der), reversedCopy(der), true))
	ls = append(ls, mk("dup-content-type", [][]byte{st, ct, ct, mda}, [][]byte{st, ct, ct, mda}, true))
	ls = append(ls, mk("dup-message-digest", [][]byte{st, mda, ct, mdWrong}, [][]byte{st, mda, ct, mdWrong}, true))
	// an Attribute SEQUENCE with an element after the value set: encoding/asn1 ignores it, a re-encoding drops it
	mdTail := tlv(0x30, tlv(0x06, oidAttrMD), tlv(0x31, tlv(0x04, md)), derNull)
	ls = append(ls, mk("attr-extra-tail", [][]byte{st, ct, mdTail}, [][]byte{st, ct, mda}, true))
	ls = append(ls, mk("single-message-digest", [][]byte{mda}, [][]byte{mda}, true))
	ls = append(ls, svLayout{name: "empty-field", field: []byte{0xa0, 0x00}, attrs: nil, canon: nil, parse: true})
	two := svAttr(oidCustom, tlv(0x04, []byte{9, 9}), tlv(0x04, []byte{1}))
	twoSorted := svAttr(oidCustom, tlv(0x04, []byte{1}), tlv(0x04, []byte{9, 9}))
	ls = append(ls, mk("values-unsorted", [][]byte{two, ct, mda}, [][]byte{two, ct, mda}, true))
	_ = twoSorted
	// non-minimal lengths: the field header, an attribute header (both read by Unmarshal), a value inside a value set
	// (opaque to Unmarshal; message-digest is decoded by Verify, signing-time by nobody)
	f := tlv(0xa0, ins...)
	ls = append(ls, svLayout{name: "nonminimal-field-length", field: nonMinimal(f), attrs: ins, canon: ins, parse: false})
	ls = append(ls, svLayout{name: "nonminimal-attr-length", field: tlv(0xa0, nonMinimal(ins[0]), ins[1], ins[2]), attrs: [][]byte{nonMinimal(ins[0]), ins[1], ins[2]}, canon: ins, parse: false})
	stNM := svAttr(oidAttrST, nonMinimal(tlv(0x17, []byte("260930120000Z"))))
	ls = append(ls, mk("nonminimal-signing-time-value", [][]byte{stNM, ct, mda}, [][]byte{stNM, ct, mda}, true))
	mdNM := svAttr(oidAttrMD, nonMinimal(tlv(0x04, md)))
	ls = append(ls, mk("nonminimal-message-digest-value", [][]byte{st, ct, mdNM}, [][]byte{st, ct, mdNM}, true))
	ls = append(ls, svLayout{name: "indefinite-field", field: cat([]byte{0xa0, 0x80}, cat(ins...), []byte{0, 0}), attrs: ins, canon: ins, parse: false})
	ls = append(ls, svLayout{name: "no-signed-attributes", field: nil, parse: true})
	// a SignerInfo SEQUENCE that does not end after its last field.  encoding/asn1 compares the tag of what follows with
	// the optional [1] field BEFORE it checks the length, so both a complete foreign element and a truncated one are
	// skipped by Unmarshal; a second decoding of the raw SignerInfo into []asn1.RawValue fails on the truncated one.
	ls = append(ls, svLayout{name: "empty-field+truncated-tail", field: []byte{0xa0, 0x00}, parse: true, tail: []byte{0x04, 0x05, 0x00}})
	ls = append(ls, svLayout{name: "empty-field+extra-element", field: []byte{0xa0, 0x00}, parse: true, tail: []byte{0x04, 0x01, 0x55}})
	l2 := mk("insertion-order+truncated-tail", ins, ins, true)
	l2.tail = []byte{0x04, 0x05, 0x00}
	ls = append(ls, l2)
	l3 := mk("insertion-order+extra-element", ins, ins, true)
	l3.tail = []byte{0x04, 0x01, 0x55}
	ls = append(ls, l3)
	return ls
}

type svPre struct {
	name string
	pre  []byte // octets that are digested, or nil when the CONTENT digest itself is signed
	raw  bool
}

func svPreimages(l svLayout, rsaKey bool) []svPre {
	var ps []svPre
	seen := map[string]bool{}
	add := func(name string, pre []byte, raw bool) {
		k := fmt.Sprintf("%v/%x", raw, pre)
		if seen[k] {
			return
		}
		seen[k] = true
		ps = append(ps, svPre{name, pre, raw})
	}
	if l.field == nil {
		add("content-digest", nil, false)
		if rsaKey {
			add("content-digest-no-digestinfo", nil, true)
		}
		add("unrelated-octets", []byte("not what was sent"), false)
		return ps
	}
	emitted := cat([]byte{0x31}, l.field[1:])
	add("as-emitted", emitted, false)
	add("sorted-der-set", tlv(0x31, sortedCopy(l.canon)...), false)
	add("sorted-as-written", tlv(0x31, sortedCopy(l.attrs)...), false)
	add("reencoded-same-order", tlv(0x31, l.canon...), false)
	add("reversed-order", tlv(0x31, reversedCopy(l.canon)...), false)
	add("field-with-context-tag", l.field, false)
	add("field-as-sequence", cat([]byte{0x30}, l.field[1:]), false)
	add("content-digest", nil, false)
	if rsaKey {
		add("as-emitted-no-digestinfo", emitted, true)
		add("sorted-der-set-no-digestinfo", tlv(0x31, sortedCopy(l.canon)...), true)
	}
	return ps
}

func svTSTInfo(hoid []byte, imprint []byte) []byte {
	return tlv(0x30,
		[]byte{0x02, 0x01, 0x01},
		tlv(0x06, []byte{0x2a, 0x03, 0x04, 0x01}),
		tlv(0x30, tlv(0x30, tlv(0x06, hoid), derNull), tlv(0x04, imprint)),
		[]byte{0x02, 0x03, 0x01, 0xe2, 0x40},
		tlv(0x18, []byte("20260930120000Z")))
}

func svToken(k svKey, hoid []byte, ealg []byte, ctype, econtent []byte, field, sig, siTail []byte) []byte {
	dalg := tlv(0x30, tlv(0x06, hoid), derNull)
	parts := [][]byte{{0x02, 0x01, 0x01}, tlv(0x30, k.issuer, tlv(0x02, k.serial)), dalg}
	if field != nil {
		parts = append(parts, field)
	}
	parts = append(parts, ealg, tlv(0x04, sig), siTail)
	si := tlv(0x30, parts...)
	sd := tlv(0x30,
		[]byte{0x02, 0x01, 0x03},
		tlv(0x31, dalg),
		tlv(0x30, tlv(0x06, ctype), tlv(0xa0, tlv(0x04, econtent))),
		tlv(0xa0, k.certDer),
		tlv(0x31, si))
	return tlv(0x30, tlv(0x06, oidSignedD), tlv(0xa0, sd))
}

// ---------------------------------------------------------------- the enclosing signature (built by relic) and the fake TSA

type fixedTSA struct{ token []byte }

func (t fixedTSA) Timestamp(ctx context.Context, req *pkcs9.Request) (*pkcs7.ContentInfoSignedData, error) {
	return pkcs7.Unmarshal(t.token)
}

func svOuter(rk svKey) (*pkcs7.ContentInfoSignedData, error) {
	cert, err := x509.ParseCertificate(rk.certDer)
	if err != nil {
		return nil, err
	}
	sb := pkcs7.NewBuilder(rk.signer, []*x509.Certificate{cert}, crypto.SHA256)
	if err := sb.SetContentData([]byte("relic verification: enclosing signature")); err != nil {
		return nil, err
	}
	if err := sb.AddAuthenticatedAttribute(pkcs7.OidAttributeSigningTime, time.Date(2026, 9, 30, 12, 0, 0, 0, time.UTC)); err != nil {
		return nil, err
	}
	return sb.Sign()
}

func errText(err error) string {
	if err == nil {
		return "ok"
	}
	return tail(err.Error(), 160)
}

func svObserve(cs *svCase, rk svKey) {
	defer func() {
		if r := recover(); r != nil {
			cs.Panic = fmt.Sprint(r)
		}
	}()
	x, _ := hex.DecodeString(cs.X)
	data, _ := hex.DecodeString(cs.Data)
	cs.SdVerify, cs.SiVerify, cs.SiSkip, cs.TsVerify, cs.Aab = "n/a", "n/a", "n/a", "n/a", ""
	psd, err := pkcs7.Unmarshal(x)
	if err != nil {
		cs.Parse = tail(err.Error(), 160)
	} else {
		_, err = psd.Content.Verify(nil, false)
		cs.SdVerify = errText(err)
		if len(psd.Content.SignerInfos) > 0 {
			si := psd.Content.SignerInfos[0]
			cs.NAuth = len(si.AuthenticatedAttributes)
			if si.AuthenticatedAttributes == nil {
				cs.NAuth = -1
			}
			if ab, err := si.AuthenticatedAttributesBytes(); err != nil {
				cs.Aab = "error: " + tail(err.Error(), 80)
			} else {
				cs.Aab = hex.EncodeToString(ab)
			}
			certs, _ := psd.Content.Certificates.Parse()
			content, _ := psd.Content.ContentInfo.Bytes()
			_, err = si.Verify(content, false, certs)
			cs.SiVerify = errText(err)
			_, err = si.Verify(content, true, certs)
			cs.SiSkip = errText(err)
		}
		// a fresh parse for pkcs9 (nothing is shared with the calls above)
		if p2, err := pkcs7.Unmarshal(x); err == nil {
			_, err = pkcs9.Verify(p2, data, nil)
			cs.TsVerify = errText(err)
		}
	}
	// the post-construction self check: relic signs, a Timestamper hands the token over, TimestampAndMarshal decides
	outer, err := svOuter(rk)
	if err != nil {
		cs.Tam = "outer: " + err.Error()
		return
	}
	if !bytes.Equal(outer.Content.SignerInfos[0].EncryptedDigest, data) {
		cs.Tam = "outer: signature value is not the one the token was made for"
		return
	}
	ts, err := pkcs9.TimestampAndMarshal(context.Background(), outer, fixedTSA{x}, false)
	if err != nil {
		cs.Tam = tail(err.Error(), 160)
	} else {
		cs.Tam = "emitted"
		cs.TamOut = hex.EncodeToString(ts.Raw)
	}
}

func runSigVerify(c *core.Ctx) error {
	keys, err := svKeys()
	if err != nil {
		return err
	}
	rk := keys[0]
	outer, err := svOuter(rk)
	if err != nil {
		return err
	}
	data := outer.Content.SignerInfos[0].EncryptedDigest // what a timestamp of that signature is over
	id := 0
	type combo struct{ key, hash string }
	combos := []combo{{"rsa", "sha256"}, {"ec", "sha256"}, {"rsa", "sha1"}}
	if c.Tier == "thorough" {
		combos = append(combos, combo{"ec", "sha1"})
	}
	for _, cb := range combos {
		var k svKey
		for _, kk := range keys {
			if kk.name == cb.key {
				k = kk
			}
		}
		h, hoid := svHash(cb.hash)
		ealg := k.ealg
		if cb.key == "ec" {
			ealg = tlv(0x30, tlv(0x06, oidEcdsa256))
			if cb.hash == "sha1" {
				ealg = tlv(0x30, tlv(0x06, oidEcdsaSha1))
			}
		}
		econtent := svTSTInfo(hoid, svDigest(h, data))
		md := svDigest(h, econtent)
		wrong := svDigest(h, append([]byte("other "), econtent...))
		layouts := svLayouts(oidTSTInfo, md, wrong)
		// the same layouts with a message-digest that is not the digest of the content
		for _, l := range svLayouts(oidTSTInfo, wrong, md) {
			if l.name == "insertion-order" || l.name == "der-order" || l.name == "single-message-digest" {
				l.name += "+md-wrong"
				layouts = append(layouts, l)
			}
		}
		for _, l := range layouts {
			if cb.hash == "sha1" && !(l.name == "insertion-order" || l.name == "der-order" || l.name == "no-signed-attributes" || l.name == "empty-field") {
				continue // sha1: a reduced matrix
			}
			mdState := "ok"
			if len(l.name) > 9 && l.name[len(l.name)-9:] == "+md-wrong" {
				mdState = "wrong"
			}
			for _, p := range svPreimages(l, cb.key == "rsa") {
				var digest []byte
				if p.pre == nil {
					digest = svDigest(h, econtent)
				} else {
					digest = svDigest(h, p.pre)
				}
				sig, err := svSign(k, h, digest, p.raw)
				if err != nil {
					return err
				}
				x := svToken(k, hoid, ealg, oidTSTInfo, econtent, l.field, sig, l.tail)
				expect := "reject"
				switch {
				case !l.parse:
					expect = "refuse-parse"
				case l.field == nil && (p.name == "content-digest" || p.name == "content-digest-no-digestinfo"):
					expect = "accept"
				case l.tail != nil:
					expect = "reject" // not DER: nothing with such a SignerInfo is valid
				case l.field != nil && len(l.attrs) > 0 && (p.name == "as-emitted" || p.name == "as-emitted-no-digestinfo") && mdState == "ok" && l.name != "nonminimal-message-digest-value":
					expect = "accept"
				}
				cs := &svCase{T: "sv", ID: id, Key: cb.key, Hash: cb.hash, Layout: l.name, Signed: p.name, MD: mdState, Expect: expect,
					X: hex.EncodeToString(x), Data: hex.EncodeToString(data)}
				id++
				svObserve(cs, rk)
				c.Emit(cs)
			}
		}
	}
	return runExternal(c, keys, &id)
}

// replay of "sv" cases: the token and the data come from the replay file, every observation is made afresh
func svReplay(c *core.Ctx, raw json.RawMessage, id int) error {
	var old svCase
	if err := json.Unmarshal(raw, &old); err != nil {
		return err
	}
	keys, err := svKeys()
	if err != nil {
		return err
	}
	cs := &svCase{T: "sv", ID: id, Key: old.Key, Hash: old.Hash, Layout: old.Layout, Signed: old.Signed, MD: old.MD, Expect: old.Expect, X: old.X, Data: old.Data}
	svObserve(cs, keys[0])
	c.Emit(cs)
	return nil
}

var _ = os.Getenv
