package c16

// c16pss — RSA-PSS parameters of CMS signatures made by the real pkcs7.NewBuilder(...).Sign(): the saltLength DECLARED in
// the signature AlgorithmIdentifier (decoded here with a local struct) next to everything a reader needs to recover the
// salt length actually USED (modulus, exponent, signature), plus crypto/rsa.VerifyPSS and `openssl cms -verify` at the
// declared length.

import (
	"crypto/rand"
	"crypto/rsa"
	"crypto/x509"
	"crypto/x509/pkix"
	"encoding/asn1"
	"encoding/hex"
	"encoding/json"
	"encoding/pem"
	"fmt"
	"math/big"
	"os"
	"os/exec"
	"path/filepath"
	"strings"
	"time"

	"github.com/sassoftware/relic/v8/lib/pkcs7"
	"github.com/sassoftware/relic/v8/verifharness/core"
)

func init() { core.Register("c16pss", runPss) }

type pssCase struct {
	T        string `json:"t"`
	ID       int    `json:"id"`
	Label    string `json:"label"`
	Key      string `json:"key"`
	ModBits  int    `json:"modbits"`
	Hash     string `json:"hash"`
	HLen     int    `json:"hlen"`
	Opt      int    `json:"opt"`
	Attrs    bool   `json:"attrs"`
	SignErr  string `json:"sign_err"`
	Panic    string `json:"panic,omitempty"`
	Declared int    `json:"declared"` // -1: parameters not decodable
	Params   string `json:"params"`
	N        string `json:"n"`
	E        int    `json:"e"`
	Sig      string `json:"sig"`
	GoVerify string `json:"go_verify_declared"`
	OpenSSL  string `json:"openssl"`
	Self     string `json:"self_verify"`
}

type pssRefParams struct {
	Hash         pkix.AlgorithmIdentifier `asn1:"explicit,tag:0"`
	MGF          pkix.AlgorithmIdentifier `asn1:"explicit,tag:1"`
	SaltLength   int                      `asn1:"optional,explicit,tag:2,default:20"`
	TrailerField int                      `asn1:"optional,explicit,tag:3,default:1"`
}

type pssSpec struct {
	key, hash string
	opt       int
	attrs     bool
}

func pssSpecs() []pssSpec {
	var out []pssSpec
	for _, h := range []string{"sha256", "sha384", "sha512"} {
		for _, o := range []int{rsa.PSSSaltLengthAuto, rsa.PSSSaltLengthEqualsHash, 20} {
			out = append(out, pssSpec{"rsa2048", h, o, false})
		}
	}
	out = append(out,
		pssSpec{"rsa2048", "sha256", rsa.PSSSaltLengthAuto, true}, pssSpec{"rsa2048", "sha256", rsa.PSSSaltLengthEqualsHash, true},
		pssSpec{"rsa2048", "sha256", 1, false}, pssSpec{"rsa2048", "sha256", 32, false}, pssSpec{"rsa2048", "sha256", 222, false},
		pssSpec{"rsa2048", "sha256", 223, false}, pssSpec{"rsa2048", "sha256", -2, false}, pssSpec{"rsa2048", "sha1", rsa.PSSSaltLengthAuto, false},
		pssSpec{"gen1024", "sha256", rsa.PSSSaltLengthAuto, false}, pssSpec{"gen1024", "sha512", rsa.PSSSaltLengthAuto, false},
		pssSpec{"gen1024", "sha512", rsa.PSSSaltLengthEqualsHash, false}, pssSpec{"gen1024", "sha384", 20, false},
		pssSpec{"gen1032", "sha256", rsa.PSSSaltLengthAuto, true},
		// modulus of 8k+1 bits: regression for finding C16:pss:declared-salt-ne-used:modbits-1-mod-8 (fixed by relic 4b12f85)
		pssSpec{"gen1025", "sha256", rsa.PSSSaltLengthAuto, false}, pssSpec{"gen1025", "sha256", rsa.PSSSaltLengthEqualsHash, false},
		pssSpec{"gen1025", "sha512", rsa.PSSSaltLengthAuto, true})
	return out
}

func pssKey(dir, name string, cache map[string]keyMat) (keyMat, error) {
	if k, ok := cache[name]; ok {
		return k, nil
	}
	var km keyMat
	if name == "rsa2048" {
		ks := loadKeys0(filepath.Join(repoRoot(), "functest/testkeys"))
		km = ks
	} else {
		bits := 0
		fmt.Sscanf(name, "gen%d", &bits)
		k, err := rsa.GenerateKey(rand.Reader, bits)
		if err != nil {
			return km, err
		}
		tmpl := &x509.Certificate{SerialNumber: big.NewInt(int64(bits)), Subject: pkix.Name{CommonName: "verif pss " + name},
			NotBefore: time.Now().Add(-time.Hour), NotAfter: time.Now().Add(24 * time.Hour), KeyUsage: x509.KeyUsageDigitalSignature}
		der, err := x509.CreateCertificate(rand.Reader, tmpl, tmpl, &k.PublicKey, k)
		if err != nil {
			return km, err
		}
		crt, err := x509.ParseCertificate(der)
		if err != nil {
			return km, err
		}
		km = keyMat{k, []*x509.Certificate{crt}}
	}
	cache[name] = km
	return km, nil
}

func loadKeys0(dir string) keyMat {
	rsaDer := loadPEM(filepath.Join(dir, "rsa2048.key"), "PRIVATE KEY")
	var rk *rsa.PrivateKey
	if k, err := x509.ParsePKCS1PrivateKey(rsaDer); err == nil {
		rk = k
	} else if k8, err := x509.ParsePKCS8PrivateKey(rsaDer); err == nil {
		rk = k8.(*rsa.PrivateKey)
	} else {
		panic(err)
	}
	return keyMat{rk, []*x509.Certificate{loadCert(filepath.Join(dir, "rsa2048.crt"))}}
}

func runPssCase(dir string, cs *pssCase, sp pssSpec, cache map[string]keyMat) {
	defer func() {
		if r := recover(); r != nil {
			cs.Panic = fmt.Sprint(r)
		}
	}()
	km, err := pssKey(dir, sp.key, cache)
	if err != nil {
		cs.SignErr = "harness:" + err.Error()
		return
	}
	rk := km.signer.(*rsa.PrivateKey)
	h := hashes[sp.hash]
	cs.ModBits, cs.HLen, cs.N, cs.E = rk.N.BitLen(), h.Size(), hex.EncodeToString(rk.N.Bytes()), rk.E
	content := []byte("verif pss content " + cs.Label + "\n")
	sb := pkcs7.NewBuilder(km.signer, km.certs, &rsa.PSSOptions{Hash: h, SaltLength: sp.opt})
	if err := sb.SetContentData(content); err != nil {
		cs.SignErr = err.Error()
		return
	}
	if sp.attrs {
		if err := sb.AddAuthenticatedAttribute(asn1.ObjectIdentifier{1, 2, 840, 113549, 1, 9, 5}, time.Unix(1700000000, 0).UTC()); err != nil {
			cs.SignErr = err.Error()
			return
		}
	}
	psd, err := sb.Sign()
	if err != nil {
		cs.SignErr = err.Error()
		return
	}
	der, err := psd.Marshal()
	if err != nil {
		cs.SignErr = "marshal:" + err.Error()
		return
	}
	si := psd.Content.SignerInfos[0]
	cs.Sig = hex.EncodeToString(si.EncryptedDigest)
	cs.Params = hex.EncodeToString(si.DigestEncryptionAlgorithm.Parameters.FullBytes)
	var params pssRefParams
	if rest, err := asn1.Unmarshal(si.DigestEncryptionAlgorithm.Parameters.FullBytes, &params); err != nil || len(rest) != 0 {
		cs.Declared = -1
	} else {
		cs.Declared = params.SaltLength
	}
	signed := content
	if sp.attrs {
		if signed, err = si.AuthenticatedAttributesBytes(); err != nil {
			cs.GoVerify = "attrs:" + err.Error()
		}
	}
	w := newHash(h)
	w.Write(signed)
	if cs.Declared > 0 && cs.GoVerify == "" {
		if err := rsa.VerifyPSS(&rk.PublicKey, h, w.Sum(nil), si.EncryptedDigest, &rsa.PSSOptions{Hash: h, SaltLength: cs.Declared}); err != nil {
			cs.GoVerify = "fail:" + err.Error()
		} else {
			cs.GoVerify = "ok"
		}
	}
	if _, err := psd.Content.Verify(nil, false); err != nil {
		cs.Self = "fail:" + err.Error()
	} else {
		cs.Self = "ok"
	}
	cs.OpenSSL = "skipped"
	if ossl, lerr := exec.LookPath("openssl"); lerr == nil {
		p := filepath.Join(dir, fmt.Sprintf("pss%d.der", cs.ID))
		cp := filepath.Join(dir, fmt.Sprintf("pss%d.pem", cs.ID))
		os.WriteFile(p, der, 0o644)
		os.WriteFile(cp, pem.EncodeToMemory(&pem.Block{Type: "CERTIFICATE", Bytes: km.certs[0].Raw}), 0o644)
		out, err := exec.Command(ossl, "cms", "-verify", "-noverify", "-binary", "-inform", "DER", "-in", p, "-out", os.DevNull, "-certfile", cp).CombinedOutput()
		if err != nil {
			cs.OpenSSL = "fail:" + tail(strings.TrimSpace(string(out)), 200)
		} else {
			cs.OpenSSL = "ok"
		}
		os.Remove(p)
		os.Remove(cp)
	}
}

func pssLabel(sp pssSpec) string {
	a := ""
	if sp.attrs {
		a = "/attrs"
	}
	return fmt.Sprintf("%s/%s/salt=%d%s", sp.key, sp.hash, sp.opt, a)
}

func runPss(c *core.Ctx) error {
	dir := filepath.Join(c.Scratch, "c16pss")
	os.RemoveAll(dir)
	if err := os.MkdirAll(dir, 0o755); err != nil {
		return err
	}
	defer os.RemoveAll(dir)
	cache := map[string]keyMat{}
	for i, sp := range pssSpecs() {
		cs := &pssCase{T: "pss", ID: i, Label: pssLabel(sp), Key: sp.key, Hash: sp.hash, Opt: sp.opt, Attrs: sp.attrs}
		runPssCase(dir, cs, sp, cache)
		c.Emit(cs)
	}
	return nil
}

// pssReplay re-executes one case of a replay file (inputs: key class, hash, option, attrs) on the code under test.
func pssReplay(c *core.Ctx, raw json.RawMessage, i int) error {
	var old pssCase
	if err := json.Unmarshal(raw, &old); err != nil {
		return err
	}
	dir := filepath.Join(c.Scratch, "c16pss")
	if err := os.MkdirAll(dir, 0o755); err != nil {
		return err
	}
	defer os.RemoveAll(dir)
	if _, ok := hashes[old.Hash]; !ok {
		return fmt.Errorf("unknown hash %q", old.Hash)
	}
	sp := pssSpec{old.Key, old.Hash, old.Opt, old.Attrs}
	cs := &pssCase{T: "pss", ID: i, Label: pssLabel(sp), Key: sp.key, Hash: sp.hash, Opt: sp.opt, Attrs: sp.attrs}
	runPssCase(dir, cs, sp, map[string]keyMat{})
	c.Emit(cs)
	return nil
}
