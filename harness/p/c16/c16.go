// Package c16: correspondence driver for property C16 (CMS structures survive parse/re-encode bit-exactly).
//
// Sub-commands
//
//	c16     round trips: real pkcs7.Unmarshal / Marshal / Detach / ContentInfo.Bytes / AuthenticatedAttributesBytes on
//	        OpenSSL-made SignedData and timestamp tokens, structured mutants of them, and an exhaustively mutated tiny
//	        SignedData; then the real SignatureBuilder and pkcs9.TimestampAndMarshal (tokens from an OpenSSL TSA)
//	c16tlv  small-scope exhaustive comparison material for the tag/length reader and the scalar codecs (encoding/asn1)
package c16

import (
	"archive/zip"
	"bytes"
	"context"
	"crypto"
	"crypto/ecdsa"
	"crypto/rsa"
	"crypto/sha1"
	"crypto/sha256"
	"crypto/sha512"
	"crypto/x509"
	"encoding/asn1"
	"encoding/base64"
	"encoding/hex"
	"encoding/json"
	"encoding/pem"
	"errors"
	"fmt"
	"hash"
	"math/big"
	"os"
	"os/exec"
	"path/filepath"
	"sort"
	"strings"
	"time"

	"github.com/sassoftware/relic/v8/lib/pkcs7"
	"github.com/sassoftware/relic/v8/lib/pkcs9"
	"github.com/sassoftware/relic/v8/verifharness/core"
)

func init() {
	core.Register("c16", runRoundTrips)
	core.Register("c16tlv", runTlv)
	core.Register("c16replay", runReplay)
}

// c16replay <file>: re-executes the cases of a replay file on the code under test (inputs are taken from the file, every
// observation is made afresh).
func runReplay(c *core.Ctx) error {
	if len(c.Args) < 1 {
		return errors.New("usage: c16replay <replay.json>")
	}
	blob, err := os.ReadFile(c.Args[0])
	if err != nil {
		return err
	}
	var rp struct {
		Cases []json.RawMessage `json:"cases"`
	}
	if err := json.Unmarshal(blob, &rp); err != nil {
		return err
	}
	var specs []bspec
	var dir string
	var keys map[string]keyMat
	for i, raw := range rp.Cases {
		var head struct {
			T     string `json:"t"`
			X     string `json:"x"`
			Label string `json:"label"`
		}
		if err := json.Unmarshal(raw, &head); err != nil {
			return err
		}
		switch head.T {
		case "sv":
			if err := svReplay(c, raw, i); err != nil {
				return err
			}
		case "sx":
			if err := sxReplay(c, raw, i); err != nil {
				return err
			}
		case "pss":
			if err := pssReplay(c, raw, i); err != nil {
				return err
			}
		case "rt":
			var old rtCase
			_ = json.Unmarshal(raw, &old)
			x, _ := hex.DecodeString(head.X)
			cs := &rtCase{T: "rt", ID: i, Src: old.Src, Mut: old.Mut, Valid: old.Valid, Expect: old.Expect}
			observe(cs, x)
			c.Emit(cs)
		case "b":
			if specs == nil {
				dir = filepath.Join(c.Scratch, "c16")
				os.RemoveAll(dir)
				if _, err := makeCorpus(dir); err != nil {
					return err
				}
				defer os.RemoveAll(dir)
				keys = loadKeys(dir)
				specs = builderSpecs()
			}
			for j, sp := range specs {
				if sp.label == head.Label {
					cs := &bCase{T: "b", ID: j, Label: sp.label, Key: sp.key, Hash: sp.hash, Mode: sp.mode, NSign: sp.nsign, Stamp: sp.stamp, InDom: sp.inDomain}
					runBuilderCase(c, dir, keys, cs, sp.pre)
					c.Emit(cs)
				}
			}
		}
	}
	return nil
}

// ---------------------------------------------------------------- observations of a round trip

type siObs struct {
	Raw    string `json:"raw"`
	NAuth  int    `json:"nauth"` // -1: AuthenticatedAttributes is nil
	AabErr string `json:"aab_err"`
	Aab    string `json:"aab"`
}

type rtCase struct {
	T      string `json:"t"` // "rt"
	ID     int    `json:"id"`
	Src    string `json:"src"`   // sample the input derives from
	Mut    string `json:"mut"`   // mutation label ("" = the sample itself)
	Valid  bool   `json:"valid"` // an unmodified sample produced by OpenSSL / relic that relic is expected to accept
	Expect string `json:"expect,omitempty"`
	X      string `json:"x"`
	// observations
	Err        string  `json:"err"` // "" ok | indef | trailing | other
	ErrText    string  `json:"err_text,omitempty"`
	Panic      string  `json:"panic,omitempty"`
	Out        string  `json:"out"`
	MarshalErr string  `json:"marshal_err,omitempty"`
	Sis        []siObs `json:"sis"`
	ContentSt  int     `json:"content_st"` // 0 absent, 1 present, 2 error
	Content    string  `json:"content"`
	Detached   string  `json:"detached"`
	Verify     string  `json:"verify,omitempty"` // external confirmation (thorough): ok | fail:<text> | ""
}

func errClass(err error) string {
	if err == nil {
		return ""
	}
	s := err.Error()
	switch {
	case strings.Contains(s, "indefinite length"):
		return "indef"
	case strings.Contains(s, "trailing garbage"):
		return "trailing"
	}
	return "other"
}

func observe(cs *rtCase, x []byte) {
	cs.X = hex.EncodeToString(x)
	defer func() {
		if r := recover(); r != nil {
			cs.Panic = fmt.Sprint(r)
		}
	}()
	psd, err := pkcs7.Unmarshal(x)
	cs.Err = errClass(err)
	if err != nil {
		cs.ErrText = tail(err.Error(), 120)
		return
	}
	out, err := psd.Marshal()
	if err != nil {
		cs.MarshalErr = err.Error()
	}
	cs.Out = hex.EncodeToString(out)
	for _, si := range psd.Content.SignerInfos {
		o := siObs{Raw: hex.EncodeToString(si.RawContent), NAuth: len(si.AuthenticatedAttributes)}
		if si.AuthenticatedAttributes == nil {
			o.NAuth = -1
		}
		ab, err := si.AuthenticatedAttributesBytes()
		if err != nil {
			o.AabErr = tail(err.Error(), 80)
		}
		o.Aab = hex.EncodeToString(ab)
		cs.Sis = append(cs.Sis, o)
	}
	content, err := psd.Content.ContentInfo.Bytes()
	switch {
	case err != nil:
		cs.ContentSt = 2
	case content != nil:
		cs.ContentSt = 1
		cs.Content = hex.EncodeToString(content)
	}
	// detaching works on a fresh parse (Detach mutates)
	if p2, err := pkcs7.Unmarshal(x); err == nil {
		if _, err := p2.Detach(); err == nil {
			if d, err := p2.Marshal(); err == nil {
				cs.Detached = hex.EncodeToString(d)
			}
		}
	}
}

// ---------------------------------------------------------------- mutants

type mutant struct {
	label string
	b     []byte
}

func clone(b []byte) []byte { return append([]byte{}, b...) }

func structuredMutants(r *core.Rng, s sample, quick bool) []mutant {
	b := s.Der
	var ms []mutant
	add := func(l string, x []byte) { ms = append(ms, mutant{l, x}) }
	root, ok := parseOne(b, 0, len(b), 0)
	if !ok {
		// not DER (the BER sample): byte-level only
		for i := 0; i < 8; i++ {
			x := clone(b)
			x[r.Intn(len(x))] ^= byte(1 << uint(r.Intn(8)))
			add(fmt.Sprintf("flip%d", i), x)
		}
		return ms
	}
	var all []*node
	flatten(root, &all)
	// the SignedData components: root -> [oid, [0]] -> SignedData -> fields
	var sd *node
	if len(root.children) == 2 && len(root.children[1].children) == 1 {
		sd = root.children[1].children[0]
	}
	// 1. trailing data
	add("trail-zeros", cat(b, []byte{0, 0, 0, 0, 0}))
	add("trail-garbage", cat(b, []byte{0, 0, 1}))
	add("trail-byte", cat(b, []byte{0x30}))
	// 2. truncation at structure boundaries (depth <= 3) and one byte into them
	seen := map[int]bool{}
	for _, n := range all {
		if n.depth > 3 {
			continue
		}
		for _, cut := range []int{n.off, n.off + 1, n.body(), n.end() - 1} {
			if cut > 0 && cut < len(b) && !seen[cut] {
				seen[cut] = true
				add(fmt.Sprintf("trunc@%d", cut), clone(b[:cut]))
			}
		}
	}
	// 3. per element (depth <= 4, sampled below that): length +-1, identifier changes, non-minimal and indefinite length
	for i, n := range all {
		if n.depth > 4 && (quick || r.Intn(4) != 0) {
			continue
		}
		if n.depth > 2 && quick && r.Intn(3) != 0 {
			continue
		}
		tagname := fmt.Sprintf("n%d/d%d/t%02x", i, n.depth, n.tag)
		// length field lies (ancestors untouched)
		for _, dl := range []int{-1, 1} {
			if n.length+dl < 0 {
				continue
			}
			hdr := append([]byte{n.tag}, encLen(n.length+dl)...)
			add(tagname+fmt.Sprintf("/len%+d", dl), cat(b[:n.off], hdr, b[n.body():]))
		}
		// re-encoded with a non-minimal length, ancestors fixed up
		body := b[n.body():n.end()]
		var nm []byte
		if n.length < 0x80 {
			nm = cat([]byte{n.tag, 0x81, byte(n.length)}, body)
		} else {
			l := encLen(n.length)
			nm = cat([]byte{n.tag, l[0] + 1, 0}, l[1:], body)
		}
		add(tagname+"/nonminimal", replaceNode(b, root, n, nm))
		if n.cons() {
			add(tagname+"/indefinite", replaceNode(b, root, n, cat([]byte{n.tag, 0x80}, body, []byte{0, 0})))
		}
		// identifier octet changes
		for _, nt := range []byte{n.tag ^ 0x01, n.tag ^ 0x20, n.tag ^ 0x80, n.tag | 0x1f} {
			if n.depth <= 3 || r.Intn(3) == 0 {
				x := clone(b)
				x[n.off] = nt
				add(tagname+fmt.Sprintf("/tag%02x", nt), x)
			}
		}
		// element dropped / duplicated (ancestors fixed up)
		if n.depth >= 1 && n.depth <= 4 {
			add(tagname+"/dropped", replaceNode(b, root, n, nil))
			add(tagname+"/dup", replaceNode(b, root, n, cat(b[n.off:n.end()], b[n.off:n.end()])))
		}
	}
	if sd != nil && len(sd.children) >= 4 {
		sdBody := b[sd.body():sd.end()]
		// 4. things Go tolerates: extra trailing elements inside SignedData, inside a SignerInfo, inside the wrapper
		add("sd-extra-tail", replaceNode(b, root, sd, tlv(0x30, sdBody, []byte{0x05, 0x00})))
		add("sd-extra-garbage", replaceNode(b, root, sd, tlv(0x30, sdBody, []byte{0xff})))
		wrap := root.children[1]
		add("wrapper-extra", replaceNode(b, root, wrap, tlv(0xa0, b[sd.off:sd.end()], []byte{0x05, 0x00})))
		add("wrapper-short", cat(b[:wrap.off], []byte{0xa0, 0x01}, b[wrap.body():]))
		add("wrapper-long", cat(b[:wrap.off], []byte{0xa0, 0x83, 0x01, 0x00, 0x00}, b[wrap.body():]))
		add("wrapper-primitive-empty", replaceNode(b, root, wrap, []byte{0x80, 0x00}))
		add("wrapper-primitive", replaceNode(b, root, wrap, tlv(0x80, b[sd.off:sd.end()])))
		add("wrapper-inner-int", replaceNode(b, root, wrap, tlv(0xa0, []byte{0x02, 0x01, 0x05})))
		add("no-content", tlv(0x30, b[root.children[0].off:root.children[0].end()]))
		sis := sd.children[len(sd.children)-1]
		if sis.tag == 0x31 && len(sis.children) >= 1 {
			si := sis.children[0]
			siBody := b[si.body():si.end()]
			add("si-extra-tail", replaceNode(b, root, si, tlv(0x30, siBody, []byte{0x04, 0x01, 0x55})))
			add("si-extra-garbage", replaceNode(b, root, si, tlv(0x30, siBody, []byte{0xff})))
			// SET OF order: reversed signer infos, reversed digest algorithms
			if len(sis.children) >= 2 {
				var rev []byte
				for i := len(sis.children) - 1; i >= 0; i-- {
					c := sis.children[i]
					rev = append(rev, b[c.off:c.end()]...)
				}
				add("sis-reversed", replaceNode(b, root, sis, tlv(0x31, rev)))
			}
			add("sis-empty", replaceNode(b, root, sis, []byte{0x31, 0x00}))
			// signed attributes present but empty; signer info version not minimal; serial not minimal
			if len(si.children) >= 5 {
				if si.children[3].tag == 0xa0 {
					add("si-auth-empty", replaceNode(b, root, si.children[3], []byte{0xa0, 0x00}))
					add("si-auth-primitive", replaceNode(b, root, si.children[3], tlv(0x80, b[si.children[3].body():si.children[3].end()])))
				}
				add("si-version-nonminimal", replaceNode(b, root, si.children[0], []byte{0x02, 0x02, 0x00, 0x01}))
				add("si-version-9bytes", replaceNode(b, root, si.children[0], []byte{0x02, 0x09, 0x01, 0, 0, 0, 0, 0, 0, 0, 0}))
				add("si-version-empty", replaceNode(b, root, si.children[0], []byte{0x02, 0x00}))
			}
		}
		dal := sd.children[1]
		if dal.tag == 0x31 && len(dal.children) >= 2 {
			var rev []byte
			for i := len(dal.children) - 1; i >= 0; i-- {
				c := dal.children[i]
				rev = append(rev, b[c.off:c.end()]...)
			}
			add("dalgs-reversed", replaceNode(b, root, dal, tlv(0x31, rev)))
		}
		add("dalgs-empty", replaceNode(b, root, dal, []byte{0x31, 0x00}))
		add("sd-version-nonminimal", replaceNode(b, root, sd.children[0], []byte{0x02, 0x02, 0x00, 0x03}))
		add("sd-version-negative", replaceNode(b, root, sd.children[0], []byte{0x02, 0x01, 0xff}))
		add("sd-version-big", replaceNode(b, root, sd.children[0], []byte{0x02, 0x08, 0x7f, 0xff, 0xff, 0xff, 0xff, 0xff, 0xff, 0xff}))
		add("sd-version-128", replaceNode(b, root, sd.children[0], []byte{0x02, 0x02, 0x00, 0x80}))
		add("sd-version-m129", replaceNode(b, root, sd.children[0], []byte{0x02, 0x02, 0xff, 0x7f}))
		// certificates: empty set, garbage element, element with another tag
		for _, c := range sd.children {
			if c.tag == 0xa0 {
				add("certs-empty", replaceNode(b, root, c, []byte{0xa0, 0x00}))
				add("certs-odd-element", replaceNode(b, root, c, tlv(0xa0, b[c.body():c.end()], []byte{0x04, 0x02, 0xde, 0xad}, []byte{0xa3, 0x00})))
				if len(c.children) >= 2 {
					var rev []byte
					for i := len(c.children) - 1; i >= 0; i-- {
						k := c.children[i]
						rev = append(rev, b[k.off:k.end()]...)
					}
					add("certs-reversed", replaceNode(b, root, c, tlv(0xa0, rev)))
				}
			}
		}
		// content info: OID contents not minimal, content type only, odd trailing stuff
		ci := sd.children[2]
		if len(ci.children) >= 1 {
			oid := ci.children[0]
			add("ci-oid-nonminimal", replaceNode(b, root, oid, tlv(0x06, []byte{0x80}, b[oid.body():oid.end()])))
			add("ci-oid-empty", replaceNode(b, root, oid, []byte{0x06, 0x00}))
			add("ci-oid-truncated", replaceNode(b, root, oid, tlv(0x06, b[oid.body():oid.end()], []byte{0x81})))
			add("ci-extra", replaceNode(b, root, ci, tlv(0x30, b[ci.body():ci.end()], []byte{0x0c, 0x01, 0x41})))
			add("ci-second-not-tlv", replaceNode(b, root, ci, tlv(0x30, b[oid.off:oid.end()], []byte{0xa0})))
			add("ci-second-badlen", replaceNode(b, root, ci, tlv(0x30, b[oid.off:oid.end()], []byte{0xa0, 0x81, 0x01, 0x00})))
			add("ci-second-empty", replaceNode(b, root, ci, tlv(0x30, b[oid.off:oid.end()], []byte{0xa0, 0x00})))
		}
	}
	// 5. random single-byte flips
	nflip := 40
	if quick {
		nflip = 12
	}
	for i := 0; i < nflip; i++ {
		x := clone(b)
		p := r.Intn(len(x))
		x[p] ^= byte(1 << uint(r.Intn(8)))
		add(fmt.Sprintf("flip@%d", p), x)
	}
	return ms
}

// withCRLs splices a [1] crls field (made by `openssl ca -gencrl`) into a SignedData after the certificates.
func withCRLs(b []byte, crls ...[]byte) []byte {
	root, ok := parseOne(b, 0, len(b), 0)
	if !ok || len(root.children) != 2 || len(root.children[1].children) != 1 {
		return nil
	}
	sd := root.children[1].children[0]
	var body []byte
	for i, c := range sd.children {
		if i == len(sd.children)-1 {
			body = append(body, tlv(0xa1, crls...)...)
		}
		body = append(body, b[c.off:c.end()]...)
	}
	return replaceNode(b, root, sd, tlv(0x30, body))
}

// a tiny hand-made SignedData (no real cryptography) for exhaustive byte-level mutation
func tinySignedData() []byte {
	oidData := []byte{0x06, 0x09, 0x2a, 0x86, 0x48, 0x86, 0xf7, 0x0d, 0x01, 0x07, 0x01}
	oidSD := []byte{0x06, 0x09, 0x2a, 0x86, 0x48, 0x86, 0xf7, 0x0d, 0x01, 0x07, 0x02}
	alg := func(last byte) []byte { return tlv(0x30, []byte{0x06, 0x03, 0x2a, 0x03, last}, []byte{0x05, 0x00}) }
	attr := func(last byte, val []byte) []byte {
		return tlv(0x30, []byte{0x06, 0x03, 0x2a, 0x04, last}, tlv(0x31, val))
	}
	si := func(serial byte, withAttrs bool) []byte {
		parts := [][]byte{{0x02, 0x01, 0x01}, tlv(0x30, tlv(0x30, tlv(0x31, tlv(0x30, []byte{0x06, 0x03, 0x55, 0x04, 0x03}, []byte{0x0c, 0x01, 'x'}))), []byte{0x02, 0x01, serial}), alg(1)}
		if withAttrs {
			parts = append(parts, tlv(0xa0, attr(2, []byte{0x04, 0x01, 0xaa}), attr(1, []byte{0x06, 0x01, 0x2a})))
		}
		parts = append(parts, alg(2), []byte{0x04, 0x02, 0xbe, 0xef})
		if !withAttrs {
			parts = append(parts, tlv(0xa1, attr(9, []byte{0x02, 0x01, 0x07})))
		}
		return tlv(0x30, parts...)
	}
	sd := tlv(0x30,
		[]byte{0x02, 0x01, 0x01},
		tlv(0x31, alg(7), alg(1)),
		tlv(0x30, oidData, tlv(0xa0, []byte{0x04, 0x03, 'a', 'b', 'c'})),
		tlv(0xa0, tlv(0x30, []byte{0x02, 0x01, 0x09}), tlv(0x30, []byte{0x02, 0x01, 0x03})),
		tlv(0x31, si(9, true), si(3, false)))
	return tlv(0x30, oidSD, tlv(0xa0, sd))
}

func exhaustiveMutants(b []byte) []mutant {
	var ms []mutant
	for i := range b {
		seen := map[byte]bool{b[i]: true}
		for _, v := range []byte{b[i] ^ 0xff, b[i] + 1, b[i] - 1, 0, 0x80, 0xff, b[i] ^ 0x20, b[i] ^ 0x01} {
			if seen[v] {
				continue
			}
			seen[v] = true
			x := clone(b)
			x[i] = v
			ms = append(ms, mutant{fmt.Sprintf("byte@%d=%02x", i, v), x})
		}
	}
	for i := 1; i < len(b); i++ {
		ms = append(ms, mutant{fmt.Sprintf("trunc@%d", i), clone(b[:i])})
	}
	return ms
}

// ---------------------------------------------------------------- external confirmation (thorough tier)

func opensslVerifyCMS(dir string, der []byte, contentFile string, id int) string {
	p := filepath.Join(dir, fmt.Sprintf("rt%d.der", id))
	if err := os.WriteFile(p, der, 0o644); err != nil {
		return "fail:" + err.Error()
	}
	defer os.Remove(p)
	args := []string{"cms", "-verify", "-noverify", "-binary", "-inform", "DER", "-in", p, "-out", os.DevNull, "-certfile", filepath.Join(dir, "allcerts.pem")}
	if contentFile != "" {
		args = append(args, "-content", filepath.Join(dir, contentFile))
	}
	cmd := exec.Command("openssl", args...)
	cmd.Dir = dir
	out, err := cmd.CombinedOutput()
	if err != nil {
		return "fail:" + tail(strings.TrimSpace(string(out)), 200)
	}
	return "ok"
}

func opensslVerifyTS(dir string, der []byte, query string, cafile string, id int) string {
	p := filepath.Join(dir, fmt.Sprintf("tok%d.der", id))
	if err := os.WriteFile(p, der, 0o644); err != nil {
		return "fail:" + err.Error()
	}
	defer os.Remove(p)
	args := []string{"ts", "-verify", "-token_in", "-in", p, "-CAfile", filepath.Join(dir, "ca.crt"), "-untrusted", filepath.Join(dir, cafile)}
	if strings.HasSuffix(query, ".tsq") {
		args = append(args, "-queryfile", filepath.Join(dir, query))
	} else {
		args = append(args, "-digest", query)
	}
	cmd := exec.Command("openssl", args...)
	cmd.Dir = dir
	cmd.Env = append(os.Environ(), "OPENSSL_CONF="+filepath.Join(dir, "v.cnf"))
	out, err := cmd.CombinedOutput()
	if err != nil || !strings.Contains(string(out), "Verification: OK") {
		return "fail:" + tail(strings.TrimSpace(string(out)), 200)
	}
	return "ok"
}

// ---------------------------------------------------------------- the builder and timestamp embedding

type preAttr struct {
	Oid   string `json:"oid"`   // contents octets (hex)
	Value string `json:"value"` // encoded value (hex)
	Name  string `json:"name"`
}

type roundObs struct {
	Out     string `json:"out"`
	AabErr  string `json:"aab_err"`
	Aab     string `json:"aab"`
	NAuth   int    `json:"nauth"`
	Sig     string `json:"sig"`
	SigOK   bool   `json:"sig_ok"`  // independent verification (crypto/rsa, crypto/ecdsa) of the signature over the EMITTED bytes
	SigHow  string `json:"sig_how"` // attrs | content
	SignErr string `json:"sign_err,omitempty"`
	SelfOK  string `json:"self_ok"` // relic's own Verify on a re-parse of the output
}

type bCase struct {
	T      string `json:"t"` // "b"
	ID     int    `json:"id"`
	Label  string `json:"label"`
	Key    string `json:"key"`  // rsa | pss | ec
	Hash   string `json:"hash"` // sha1 sha256 sha384 sha512
	Mode   string `json:"mode"` // data | detached | struct
	InDom  bool   `json:"in_domain"`
	NSign  int    `json:"nsign"`
	Stamp  string `json:"stamp"` // "" | cms | authenticode
	Ctype  string `json:"ctype"`
	Digest string `json:"digest"`
	// model inputs taken from the certificate / algorithm identifiers relic chose
	ContentEnc string     `json:"content_enc"`      // encoded content inside [0] ("" when detached)
	CiRaw      string     `json:"ci_raw,omitempty"` // mode catalog: the ContentInfo taken over verbatim from a parsed catalog
	Pre        []preAttr  `json:"pre"`
	Certs      []string   `json:"certs"`
	Issuer     string     `json:"issuer"`
	Serial     string     `json:"serial"`
	Dalg       [2]string  `json:"dalg"`
	Ealg       [2]string  `json:"ealg"`
	Rounds     []roundObs `json:"rounds"`
	// timestamp embedding
	Token      string `json:"token,omitempty"`   // as produced by OpenSSL
	Stamped    string `json:"stamped,omitempty"` // TimestampAndMarshal(...).Raw
	StampErr   string `json:"stamp_err,omitempty"`
	StampedDet string `json:"stamped_detached,omitempty"` // psd.Detach(); psd.Marshal() afterwards (the JAR / Apple path)
	VerifyCMS  string `json:"verify_cms,omitempty"`
	VerifyTS   string `json:"verify_ts,omitempty"`
	Panic      string `json:"panic,omitempty"`
}

type keyMat struct {
	signer crypto.Signer
	certs  []*x509.Certificate
}

func loadPEM(path, typ string) []byte {
	b, err := os.ReadFile(path)
	if err != nil {
		panic(err)
	}
	for {
		var blk *pem.Block
		blk, b = pem.Decode(b)
		if blk == nil {
			panic("no PEM block " + typ + " in " + path)
		}
		if typ == "" || strings.Contains(blk.Type, typ) {
			return blk.Bytes
		}
	}
}

func loadCert(path string) *x509.Certificate {
	c, err := x509.ParseCertificate(loadPEM(path, "CERTIFICATE"))
	if err != nil {
		panic(err)
	}
	return c
}

func loadKeys(dir string) map[string]keyMat {
	rsaDer := loadPEM(filepath.Join(dir, "rsa2048.key"), "PRIVATE KEY")
	var rk *rsa.PrivateKey
	if k, err := x509.ParsePKCS1PrivateKey(rsaDer); err == nil {
		rk = k
	} else if k8, err := x509.ParsePKCS8PrivateKey(rsaDer); err == nil {
		rk = k8.(*rsa.PrivateKey)
	} else {
		panic(err)
	}
	ek, err := x509.ParseECPrivateKey(loadPEM(filepath.Join(dir, "ec.key"), "EC PRIVATE KEY"))
	if err != nil {
		panic(err)
	}
	return map[string]keyMat{
		"rsa": {rk, []*x509.Certificate{loadCert(filepath.Join(dir, "rsa2048.crt"))}},
		"ec":  {ek, []*x509.Certificate{loadCert(filepath.Join(dir, "ec.crt")), loadCert(filepath.Join(dir, "inter.crt")), loadCert(filepath.Join(dir, "ca.crt"))}},
	}
}

var hashes = map[string]crypto.Hash{"sha1": crypto.SHA1, "sha256": crypto.SHA256, "sha384": crypto.SHA384, "sha512": crypto.SHA512}

func newHash(h crypto.Hash) hash.Hash {
	switch h {
	case crypto.SHA1:
		return sha1.New()
	case crypto.SHA384:
		return sha512.New384()
	case crypto.SHA512:
		return sha512.New()
	}
	return sha256.New()
}

func oidContents(oid asn1.ObjectIdentifier) []byte {
	// own base-128 writer (kept apart from encoding/asn1)
	var out []byte
	put := func(v int) {
		var tmp []byte
		tmp = append(tmp, byte(v&0x7f))
		for v >>= 7; v > 0; v >>= 7 {
			tmp = append(tmp, byte(v&0x7f)|0x80)
		}
		for i := len(tmp) - 1; i >= 0; i-- {
			out = append(out, tmp[i])
		}
	}
	put(oid[0]*40 + oid[1])
	for _, a := range oid[2:] {
		put(a)
	}
	return out
}

func rawValueBytes(rv asn1.RawValue) []byte {
	if len(rv.FullBytes) != 0 {
		return rv.FullBytes
	}
	if rv.Class == 0 && rv.Tag == 0 && !rv.IsCompound && rv.Bytes == nil {
		return nil
	}
	t := byte(rv.Class<<6) | byte(rv.Tag)
	if rv.IsCompound {
		t |= 0x20
	}
	return tlv(t, rv.Bytes)
}

func intContents(n *big.Int) []byte {
	b := n.Bytes()
	if len(b) == 0 {
		return []byte{0}
	}
	if b[0]&0x80 != 0 {
		b = append([]byte{0}, b...)
	}
	return b
}

// independent check of the signature inside the emitted SignedData: the signer info is located with the generator's
// own walker; the preimage is the emitted [0] field with its first octet replaced by 0x31 (RFC 5652 5.4), or the content
// digest when there are no signed attributes.
func independentVerify(out []byte, pub crypto.PublicKey, opts crypto.SignerOpts, contentDigest []byte) (bool, string) {
	root, ok := parseOne(out, 0, len(out), 0)
	if !ok || len(root.children) != 2 || len(root.children[1].children) != 1 {
		return false, "unparsable"
	}
	sd := root.children[1].children[0]
	if len(sd.children) < 4 {
		return false, "unparsable"
	}
	sis := sd.children[len(sd.children)-1]
	if len(sis.children) != 1 {
		return false, "not one signer"
	}
	si := sis.children[0]
	var digest []byte
	how := "content"
	idx := 3
	if len(si.children) > 3 && si.children[3].tag == 0xa0 {
		f := clone(out[si.children[3].off:si.children[3].end()])
		f[0] = 0x31
		w := newHash(opts.HashFunc())
		w.Write(f)
		digest = w.Sum(nil)
		how = "attrs"
		idx = 4
	} else {
		digest = contentDigest
	}
	if len(si.children) < idx+2 {
		return false, how
	}
	sigNode := si.children[idx+1]
	sig := out[sigNode.body():sigNode.end()]
	switch k := pub.(type) {
	case *rsa.PublicKey:
		if pss, ok := opts.(*rsa.PSSOptions); ok {
			return rsa.VerifyPSS(k, pss.Hash, digest, sig, pss) == nil, how
		}
		return rsa.VerifyPKCS1v15(k, opts.HashFunc(), digest, sig) == nil, how
	case *ecdsa.PublicKey:
		return ecdsa.VerifyASN1(k, digest, sig), how
	}
	return false, how
}

type opensslTSA struct {
	dir     string
	section string
	n       int
	lastTok []byte
	lastDig string
}

func (t *opensslTSA) Timestamp(ctx context.Context, req *pkcs9.Request) (*pkcs7.ContentInfoSignedData, error) {
	t.n++
	w := newHash(req.Hash)
	w.Write(req.EncryptedDigest)
	dig := hex.EncodeToString(w.Sum(nil))
	hname := map[crypto.Hash]string{crypto.SHA1: "-sha1", crypto.SHA256: "-sha256", crypto.SHA384: "-sha384", crypto.SHA512: "-sha512"}[req.Hash]
	q := fmt.Sprintf("bq%d.tsq", t.n)
	script := fmt.Sprintf("set -e; openssl ts -query -digest %s %s -cert -out %s 2>/dev/null; openssl ts -reply -config v.cnf -section %s -queryfile %s -out br.tsr 2>/dev/null; openssl ts -reply -in br.tsr -token_out -out btok.der 2>/dev/null", dig, hname, q, t.section, q)
	if err := runSh(t.dir, script); err != nil {
		return nil, err
	}
	b, err := os.ReadFile(filepath.Join(t.dir, "btok.der"))
	if err != nil {
		return nil, err
	}
	t.lastTok = b
	t.lastDig = dig
	return pkcs7.Unmarshal(b)
}

type spcStatement struct {
	Type asn1.ObjectIdentifier
}

func runBuilderCase(c *core.Ctx, dir string, keys map[string]keyMat, cs *bCase, pre []struct {
	oid asn1.ObjectIdentifier
	val interface{}
	nm  string
}) {
	defer func() {
		if r := recover(); r != nil {
			cs.Panic = fmt.Sprint(r)
		}
	}()
	km := keys[map[string]string{"rsa": "rsa", "pss": "rsa", "ec": "ec"}[cs.Key]]
	h := hashes[cs.Hash]
	var opts crypto.SignerOpts = h
	if cs.Key == "pss" {
		opts = &rsa.PSSOptions{SaltLength: rsa.PSSSaltLengthEqualsHash, Hash: h}
	}
	sb := pkcs7.NewBuilder(km.signer, km.certs, opts)
	content := []byte("relic verification content " + cs.Label)
	switch cs.Mode {
	case "data-octet-string-run": // id-data content that is itself a complete primitive OCTET STRING element (04 1e + 30 octets)
		content = cat([]byte{0x04, 0x1e}, bytes.Repeat([]byte{0xa5}, 30))
		cs.Mode = "data"
	case "data-octet-string-run-2":
		content = cat([]byte{0x04, 0x03}, []byte("abc"), []byte{0x04, 0x00}, []byte{0x04, 0x02}, []byte("de"))
		cs.Mode = "data"
	}
	var ctype asn1.ObjectIdentifier
	var contentDigest []byte
	switch cs.Mode {
	case "data":
		ctype = pkcs7.OidData
		if err := sb.SetContentData(content); err != nil {
			panic(err)
		}
		cs.ContentEnc = hex.EncodeToString(tlv(0x04, content))
		w := newHash(h)
		w.Write(content)
		contentDigest = w.Sum(nil)
	case "struct":
		ctype = asn1.ObjectIdentifier{1, 3, 6, 1, 4, 1, 311, 2, 1, 4}
		st := spcStatement{Type: asn1.ObjectIdentifier{1, 2, 3, 4, 5}}
		if err := sb.SetContent(ctype, st); err != nil {
			panic(err)
		}
		inner := []byte{0x06, 0x04, 0x2a, 0x03, 0x04, 0x05}
		cs.ContentEnc = hex.EncodeToString(tlv(0x30, inner))
		w := newHash(h)
		w.Write(inner)
		contentDigest = w.Sum(nil)
	case "detached":
		ctype = pkcs7.OidData
		w := newHash(h)
		w.Write(content)
		contentDigest = w.Sum(nil)
		if err := sb.SetDetachedContent(ctype, contentDigest); err != nil {
			panic(err)
		}
	case "catalog":
		// what signers/cat does: parse a Microsoft-signed catalog, keep its ContentInfo, sign again
		blob, err := os.ReadFile(filepath.Join(repoRoot(), "functest/packages/hyperv.cat"))
		if err != nil {
			panic(err)
		}
		old, err := pkcs7.Unmarshal(blob)
		if err != nil {
			panic(err)
		}
		ctype = old.Content.ContentInfo.ContentType
		if err := sb.SetContentInfo(old.Content.ContentInfo); err != nil {
			panic(err)
		}
		raw := []byte(old.Content.ContentInfo.Raw)
		cs.CiRaw = hex.EncodeToString(raw)
		// digest of the contents octets of the element inside [0], located with the generator's own walker
		if n, ok := parseOne(raw, 0, len(raw), 0); ok && len(n.children) == 2 && len(n.children[1].children) == 1 {
			e := n.children[1].children[0]
			w := newHash(h)
			w.Write(raw[e.body():e.end()])
			contentDigest = w.Sum(nil)
		}
	}
	cs.Ctype = hex.EncodeToString(oidContents(ctype))
	cs.Digest = hex.EncodeToString(contentDigest)
	for _, p := range pre {
		if err := sb.AddAuthenticatedAttribute(p.oid, p.val); err != nil {
			panic(err)
		}
		enc, err := asn1.Marshal(p.val)
		if err != nil {
			panic(err)
		}
		cs.Pre = append(cs.Pre, preAttr{hex.EncodeToString(oidContents(p.oid)), hex.EncodeToString(enc), p.nm})
	}
	for _, cert := range km.certs {
		cs.Certs = append(cs.Certs, hex.EncodeToString(cert.Raw))
	}
	cs.Issuer = hex.EncodeToString(km.certs[0].RawIssuer)
	cs.Serial = hex.EncodeToString(intContents(km.certs[0].SerialNumber))
	var psd *pkcs7.ContentInfoSignedData
	for i := 0; i < cs.NSign; i++ {
		var ro roundObs
		p, err := sb.Sign()
		if err != nil {
			ro.SignErr = err.Error()
			cs.Rounds = append(cs.Rounds, ro)
			return
		}
		psd = p
		si := &psd.Content.SignerInfos[0]
		cs.Dalg = [2]string{hex.EncodeToString(oidContents(si.DigestAlgorithm.Algorithm)), hex.EncodeToString(rawValueBytes(si.DigestAlgorithm.Parameters))}
		cs.Ealg = [2]string{hex.EncodeToString(oidContents(si.DigestEncryptionAlgorithm.Algorithm)), hex.EncodeToString(rawValueBytes(si.DigestEncryptionAlgorithm.Parameters))}
		out, err := psd.Marshal()
		if err != nil {
			ro.SignErr = "marshal: " + err.Error()
		}
		ro.Out = hex.EncodeToString(out)
		ro.NAuth = len(si.AuthenticatedAttributes)
		if si.AuthenticatedAttributes == nil {
			ro.NAuth = -1
		}
		ab, err := si.AuthenticatedAttributesBytes()
		if err != nil {
			ro.AabErr = err.Error()
		}
		ro.Aab = hex.EncodeToString(ab)
		ro.Sig = hex.EncodeToString(si.EncryptedDigest)
		ro.SigOK, ro.SigHow = independentVerify(out, km.signer.Public(), opts, contentDigest)
		// relic's verifier on a re-parse of what was emitted
		if p2, err := pkcs7.Unmarshal(out); err != nil {
			ro.SelfOK = "unmarshal: " + err.Error()
		} else {
			var ext []byte
			if cs.Mode == "detached" {
				ext = content
			}
			if _, err := p2.Content.Verify(ext, false); err != nil {
				ro.SelfOK = "verify: " + err.Error()
			} else {
				ro.SelfOK = "ok"
			}
		}
		cs.Rounds = append(cs.Rounds, ro)
	}
	if cs.Stamp != "" && psd != nil && cs.Mode != "detached" && len(cs.Rounds) > 0 && cs.Rounds[len(cs.Rounds)-1].SignErr == "" {
		section := "tsa1"
		if cs.ID%2 == 1 {
			section = "tsa2"
		}
		tsa := &opensslTSA{dir: dir, section: section}
		ts, err := pkcs9.TimestampAndMarshal(context.Background(), psd, tsa, cs.Stamp == "authenticode")
		if err != nil {
			cs.StampErr = err.Error()
			return
		}
		cs.Token = hex.EncodeToString(tsa.lastTok)
		cs.Stamped = hex.EncodeToString(ts.Raw)
		if c.Tier == "thorough" {
			if cs.Mode == "data" { // OpenSSL's CMS code only understands OCTET STRING content
				cs.VerifyCMS = opensslVerifyCMS(dir, ts.Raw, "", 100000+cs.ID)
			}
			// the embedded token, located with the generator's own walker: last element of the signer info, [1]
			if tok := embeddedToken(ts.Raw); tok != nil {
				cs.VerifyTS = opensslVerifyTS(dir, tok, tsa.lastDig, "tsacerts.pem", 100000+cs.ID)
			} else {
				cs.VerifyTS = "fail:embedded token not found"
			}
		}
		if _, err := psd.Detach(); err == nil {
			if d, err := psd.Marshal(); err == nil {
				cs.StampedDet = hex.EncodeToString(d)
			}
		}
	}
}

func embeddedToken(b []byte) []byte {
	root, ok := parseOne(b, 0, len(b), 0)
	if !ok || len(root.children) != 2 || len(root.children[1].children) != 1 {
		return nil
	}
	sd := root.children[1].children[0]
	sis := sd.children[len(sd.children)-1]
	if len(sis.children) != 1 {
		return nil
	}
	si := sis.children[0]
	un := si.children[len(si.children)-1]
	if un.tag != 0xa1 || len(un.children) < 1 {
		return nil
	}
	a := un.children[0]
	if len(a.children) != 2 || len(a.children[1].children) != 1 {
		return nil
	}
	t := a.children[1].children[0]
	return b[t.off:t.end()]
}

// relicBinarySamples runs the real relic binary (file token, functest key) on a catalog, a JAR and a PowerShell script and
// extracts the PKCS#7 blobs it produced.  Skipped when a modified copy of relic is being checked (the binary is not rebuilt
// for it; the same library paths are exercised in-process by the builder cases).
func relicBinarySamples(dir string) ([]sample, error) {
	if r := os.Getenv("VERIF_REPO"); r != "" && r != "/repo" {
		return nil, nil
	}
	bin := "/verif/.build/relic"
	if _, err := os.Stat(bin); err != nil {
		return nil, nil
	}
	keys := filepath.Join(repoRoot(), "functest/testkeys")
	conf := "tokens:\n  ft:\n    type: file\nkeys:\n  k1:\n    token: ft\n    keyfile: " + keys + "/rsa2048.key\n    x509certificate: " + keys + "/rsa2048.crt\n"
	if err := os.WriteFile(filepath.Join(dir, "relic.yml"), []byte(conf), 0o600); err != nil {
		return nil, err
	}
	var out []sample
	for _, f := range []string{"hyperv.cat", "hello.jar", "hello.ps1"} {
		src := filepath.Join(repoRoot(), "functest/packages", f)
		dst := filepath.Join(dir, "signed-"+f)
		cmd := exec.Command(bin, "-c", filepath.Join(dir, "relic.yml"), "sign", "-k", "k1", "-f", src, "-o", dst)
		if o, err := cmd.CombinedOutput(); err != nil {
			return nil, fmt.Errorf("relic sign %s: %v: %s", f, err, tail(string(o), 300))
		}
		b, err := os.ReadFile(dst)
		if err != nil {
			return nil, err
		}
		var blob []byte
		switch f {
		case "hyperv.cat":
			blob = b
		case "hello.jar":
			zr, err := zip.NewReader(bytes.NewReader(b), int64(len(b)))
			if err != nil {
				return nil, err
			}
			for _, zf := range zr.File {
				if strings.HasPrefix(zf.Name, "META-INF/") && strings.HasSuffix(zf.Name, ".RSA") {
					rc, err := zf.Open()
					if err != nil {
						return nil, err
					}
					var buf bytes.Buffer
					buf.ReadFrom(rc)
					rc.Close()
					blob = buf.Bytes()
				}
			}
		case "hello.ps1":
			var b64 strings.Builder
			in := false
			for _, ln := range strings.Split(strings.ReplaceAll(string(b), "\r", ""), "\n") {
				switch {
				case strings.Contains(ln, "SIG # Begin signature block"):
					in = true
				case strings.Contains(ln, "SIG # End signature block"):
					in = false
				case in:
					b64.WriteString(strings.TrimSpace(strings.TrimPrefix(ln, "#")))
				}
			}
			blob, _ = base64.StdEncoding.DecodeString(b64.String())
		}
		if len(blob) == 0 {
			return nil, fmt.Errorf("no PKCS#7 blob found in relic's output for %s", f)
		}
		out = append(out, sample{Label: "relicbin_" + strings.ReplaceAll(f, ".", "_"), Der: blob, Kind: "pkcs7"})
	}
	return out, nil
}

type bspec struct {
	label, key, hash, mode string
	pre                    preSpec
	nsign                  int
	stamp                  string
	inDomain               bool
}

func builderSpecs() []bspec {
	oidSigningTime := pkcs7.OidAttributeSigningTime
	oidCustom := asn1.ObjectIdentifier{1, 3, 6, 1, 4, 1, 311, 2, 1, 11}
	oidCustom2 := asn1.ObjectIdentifier{1, 2, 840, 113635, 100, 9, 1}
	t0 := time.Date(2026, 9, 29, 12, 0, 0, 0, time.UTC)
	specs := []bspec{
		{"noattrs", "rsa", "sha256", "data", nil, 1, "", true},
		{"noattrs-ec", "ec", "sha256", "data", nil, 1, "cms", true},
		{"noattrs-detached", "rsa", "sha256", "detached", nil, 1, "", true},
		{"signingtime", "rsa", "sha256", "data", preSpec{{oidSigningTime, t0, "signing-time"}}, 1, "cms", true},
		{"signingtime-ec384", "ec", "sha384", "data", preSpec{{oidSigningTime, t0, "signing-time"}}, 1, "authenticode", true},
		{"signingtime-pss", "pss", "sha256", "data", preSpec{{oidSigningTime, t0, "signing-time"}}, 1, "cms", true},
		{"authenticode-like", "rsa", "sha256", "struct", preSpec{{oidCustom, spcStatement{asn1.ObjectIdentifier{1, 3, 6, 1, 4, 1, 311, 2, 1, 21}}, "statement-type"}, {asn1.ObjectIdentifier{1, 3, 6, 1, 4, 1, 311, 2, 1, 12}, struct{}{}, "opus-info"}}, 1, "authenticode", true},
		{"apple-like", "ec", "sha256", "data", preSpec{{oidCustom2, []byte{1, 2, 3}, "cdhash-plist"}, {asn1.ObjectIdentifier{1, 2, 840, 113635, 100, 9, 2}, spcStatement{asn1.ObjectIdentifier{2, 16, 840, 1, 101, 3, 4, 2, 1}}, "cdhashes"}, {oidSigningTime, t0, "signing-time"}}, 1, "cms", true},
		{"same-oid-twice", "rsa", "sha256", "data", preSpec{{oidCustom2, []byte{1}, "v1"}, {oidCustom2, []byte{2, 2}, "v2"}}, 1, "", true},
		{"detached-attrs", "rsa", "sha512", "detached", preSpec{{oidSigningTime, t0, "signing-time"}}, 1, "", true},
		{"sha1-attrs", "rsa", "sha1", "data", preSpec{{oidSigningTime, t0, "signing-time"}}, 1, "cms", true},
		{"many-attrs", "ec", "sha512", "data", preSpec{{asn1.ObjectIdentifier{1, 2, 3, 1}, 1, "a1"}, {asn1.ObjectIdentifier{1, 2, 3, 2}, "two", "a2"}, {asn1.ObjectIdentifier{1, 2, 3, 3}, []byte{}, "a3"}, {asn1.ObjectIdentifier{2, 999, 3}, 300, "a4"}, {oidSigningTime, t0, "signing-time"}}, 1, "cms", true},
		{"catalog-resign", "rsa", "sha256", "catalog", nil, 1, "authenticode", true},
		{"content-octet-string-run", "rsa", "sha256", "data-octet-string-run", preSpec{{oidSigningTime, t0, "signing-time"}}, 1, "cms", true},
		{"content-octet-string-run-noattrs", "ec", "sha256", "data-octet-string-run", nil, 1, "", true},
		{"content-octet-string-run-2", "ec", "sha256", "data-octet-string-run-2", preSpec{{oidSigningTime, t0, "signing-time"}}, 1, "", true},
		{"catalog-resign-attrs", "ec", "sha256", "catalog", preSpec{{oidCustom, spcStatement{asn1.ObjectIdentifier{1, 3, 6, 1, 4, 1, 311, 2, 1, 21}}, "statement-type"}}, 1, "", true},
		// outside the domain of builder_attrs_once (witnesses of the _refuted theorems, replayed on the real code)
		{"pre-content-type", "rsa", "sha256", "data", preSpec{{pkcs7.OidAttributeContentType, asn1.ObjectIdentifier{1, 2, 3}, "caller content-type"}}, 1, "", false},
		{"pre-message-digest", "rsa", "sha256", "data", preSpec{{pkcs7.OidAttributeMessageDigest, []byte{9, 9}, "caller message-digest"}}, 1, "", false},
		{"sign-twice", "rsa", "sha256", "data", preSpec{{oidSigningTime, t0, "signing-time"}}, 2, "", false},
		{"sign-twice-noattrs", "rsa", "sha256", "data", nil, 2, "", true},
	}
	return specs
}

type preSpec = []struct {
	oid asn1.ObjectIdentifier
	val interface{}
	nm  string
}

func runRoundTrips(c *core.Ctx) error {
	quick := c.Tier != "thorough"
	dir := filepath.Join(c.Scratch, "c16")
	os.RemoveAll(dir)
	samples, err := makeCorpus(dir)
	if err != nil {
		return err
	}
	defer os.RemoveAll(dir)
	sort.Slice(samples, func(i, j int) bool { return samples[i].Label < samples[j].Label })
	// CRLs spliced into two of the samples (the openssl command line cannot add them)
	crl, err := os.ReadFile(filepath.Join(dir, "ca.crl"))
	if err != nil {
		return err
	}
	for _, s := range samples {
		if s.Label == "ec_chain" || s.Label == "tst_ec_certs" {
			if x := withCRLs(s.Der, crl); x != nil {
				samples = append(samples, sample{Label: s.Label + "+crl", Der: x, Kind: s.Kind, Query: s.Query})
			}
			if s.Label == "ec_chain" {
				if x := withCRLs(s.Der, crl, crl); x != nil {
					samples = append(samples, sample{Label: s.Label + "+2crl", Der: x, Kind: s.Kind})
				}
			}
		}
	}
	if blob, err := os.ReadFile(filepath.Join(repoRoot(), "functest/packages/hyperv.cat")); err == nil {
		// a catalog signed and countersigned (timestamped) by Microsoft: third-party signatures relic must carry unchanged
		samples = append(samples, sample{Label: "ms_catalog", Der: blob, Kind: "pkcs7"})
	}
	bin, err := relicBinarySamples(dir)
	if err != nil {
		return err
	}
	samples = append(samples, bin...)
	samples = append(samples, sample{Label: "tiny", Der: tinySignedData(), Kind: "synthetic"})
	rng := &core.Rng{S: c.Seed*0x9e3779b97f4a7c15 + 16}
	id := 0
	emit := func(cs *rtCase) {
		cs.T = "rt"
		cs.ID = id
		id++
		c.Emit(cs)
	}
	for _, s := range samples {
		cs := &rtCase{Src: s.Label, Valid: !s.WantErr, Expect: map[bool]string{true: "reject", false: "accept"}[s.WantErr]}
		observe(cs, s.Der)
		if c.Tier == "thorough" && !s.WantErr && cs.Err == "" && cs.Out != "" {
			out, _ := hex.DecodeString(cs.Out)
			switch s.Kind {
			case "cms":
				cs.Verify = opensslVerifyCMS(dir, out, s.Content, id)
			case "tst":
				cs.Verify = opensslVerifyTS(dir, out, s.Query, "tsacerts.pem", id)
			}
		}
		emit(cs)
		var ms []mutant
		if s.Label == "tiny" {
			ms = exhaustiveMutants(s.Der)
		} else {
			ms = structuredMutants(rng, s, quick)
		}
		for _, m := range ms {
			mc := &rtCase{Src: s.Label, Mut: m.label}
			observe(mc, m.b)
			emit(mc)
		}
	}
	// ---- builder
	keys := loadKeys(dir)
	specs := builderSpecs()
	for i, sp := range specs {
		cs := &bCase{T: "b", ID: i, Label: sp.label, Key: sp.key, Hash: sp.hash, Mode: sp.mode, NSign: sp.nsign, Stamp: sp.stamp, InDom: sp.inDomain}
		runBuilderCase(c, dir, keys, cs, sp.pre)
		c.Emit(cs)
		if cs.Stamped != "" {
			// relic's own output, with a nested third-party token, goes through the round trip as well
			raw, _ := hex.DecodeString(cs.Stamped)
			rc := &rtCase{Src: "relic-stamped-" + sp.label, Valid: true, Expect: "accept"}
			observe(rc, raw)
			emit(rc)
			if sp.label == "signingtime" || !quick {
				for _, m := range structuredMutants(rng, sample{Label: rc.Src, Der: raw}, true) {
					mc := &rtCase{Src: rc.Src, Mut: m.label}
					observe(mc, m.b)
					emit(mc)
				}
			}
		}
	}
	return nil
}

// ---------------------------------------------------------------- small-scope material for the reader and the scalars

type tlvCase struct {
	T    string `json:"t"` // "tlv"
	X    string `json:"x"`
	Err  string `json:"err"`
	Tag  int    `json:"tag"`
	Body string `json:"body"`
	Full string `json:"full"`
	Rest string `json:"rest"`
}

type scCase struct {
	T     string `json:"t"` // "sc"
	C     string `json:"c"`
	IntOK bool   `json:"int_ok"`
	Int   int64  `json:"int"`
	IntRe string `json:"int_re"`
	OidOK bool   `json:"oid_ok"`
	OidRe string `json:"oid_re"`
	BitOK bool   `json:"bit_ok"`
	BitRe string `json:"bit_re"`
}

func stripHdr(b []byte) []byte {
	n, ok := parseOne(b, 0, len(b), 0)
	if !ok {
		return nil
	}
	return b[n.body():n.end()]
}

func runTlv(c *core.Ctx) error {
	// tag/length reader: identifier octets x length octets x available body, against asn1.Unmarshal into a RawValue
	ids := []byte{0x30, 0x04, 0xa0, 0x9e, 0x1f}
	lens := [][]byte{}
	small := []byte{0x00, 0x01, 0x02, 0x7f, 0x80, 0x81, 0x82, 0x83, 0x84, 0x85, 0xff}
	vals := []byte{0x00, 0x01, 0x7f, 0x80, 0xff}
	for _, a := range small {
		lens = append(lens, []byte{a})
		if a >= 0x81 {
			for _, b := range vals {
				lens = append(lens, []byte{a, b})
				if a >= 0x82 {
					for _, d := range vals {
						lens = append(lens, []byte{a, b, d})
						if a >= 0x83 {
							for _, e := range []byte{0x00, 0x02, 0xff} {
								lens = append(lens, []byte{a, b, d, e})
								if a >= 0x84 {
									lens = append(lens, []byte{a, b, d, e, 0x00}, []byte{a, b, d, e, 0x03}, []byte{a, b, d, e, 0x03, 0x00})
								}
							}
						}
					}
				}
			}
		}
	}
	avail := []int{0, 1, 2, 3, 127, 128, 129, 255, 256, 258}
	emitTlv := func(x []byte) {
		cs := tlvCase{T: "tlv", X: hex.EncodeToString(x)}
		var rv asn1.RawValue
		rest, err := asn1.Unmarshal(x, &rv)
		if err != nil {
			cs.Err = errClass(err)
			if cs.Err == "other" && strings.Contains(err.Error(), "syntax error") {
				cs.Err = "syntax"
			}
		} else {
			t := rv.Class<<6 | rv.Tag
			if rv.IsCompound {
				t |= 0x20
			}
			cs.Tag = t
			if rv.Tag >= 31 {
				cs.Tag = -1
			}
			cs.Body = hex.EncodeToString(rv.Bytes)
			cs.Full = hex.EncodeToString(rv.FullBytes)
			cs.Rest = hex.EncodeToString(rest)
		}
		c.Emit(cs)
	}
	emitTlv(nil)
	for _, id := range ids {
		emitTlv([]byte{id})
		for _, l := range lens {
			for _, n := range avail {
				body := make([]byte, n)
				for i := range body {
					body[i] = byte(i + 1)
				}
				emitTlv(cat([]byte{id}, l, body))
			}
		}
	}
	// scalars: all contents of length 0..3 over a boundary alphabet, plus 8/9 byte integers
	alpha := []byte{0x00, 0x01, 0x27, 0x7f, 0x80, 0x81, 0xfe, 0xff}
	var conts [][]byte
	conts = append(conts, []byte{})
	for _, a := range alpha {
		conts = append(conts, []byte{a})
		for _, b := range alpha {
			conts = append(conts, []byte{a, b})
			for _, d := range alpha {
				conts = append(conts, []byte{a, b, d})
			}
		}
	}
	for _, a := range alpha {
		conts = append(conts, []byte{a, 0x80, 0, 0, 0, 0, 0, 0}, []byte{a, 0x7f, 0xff, 0xff, 0xff, 0xff, 0xff, 0xff}, []byte{a, 0x80, 0, 0, 0, 0, 0, 0, 1},
			[]byte{0x2a, 0x86, 0x48, a, 0xf7, 0x0d, 0x01}, []byte{0x88, 0x80, 0x80, 0x80, a}, []byte{0x87, 0xff, 0xff, 0xff, a}, []byte{0x8f, 0xff, 0xff, 0xff, a}, []byte{0x81, 0x80, 0x80, 0x80, 0x80, a},
			[]byte{0x07, a}, []byte{0x00, 0xaa, a}, []byte{0x04, 0xaa, a})
	}
	for _, ct := range conts {
		cs := scCase{T: "sc", C: hex.EncodeToString(ct)}
		var iv int
		if _, err := asn1.Unmarshal(tlv(0x02, ct), &iv); err == nil {
			cs.IntOK = true
			cs.Int = int64(iv)
			if re, err := asn1.Marshal(iv); err == nil {
				cs.IntRe = hex.EncodeToString(stripHdr(re))
			}
		}
		var oid asn1.ObjectIdentifier
		if _, err := asn1.Unmarshal(tlv(0x06, ct), &oid); err == nil {
			cs.OidOK = true
			if re, err := asn1.Marshal(oid); err == nil {
				cs.OidRe = hex.EncodeToString(stripHdr(re))
			} else {
				cs.OidRe = "error"
			}
		}
		var bs asn1.BitString
		if _, err := asn1.Unmarshal(tlv(0x03, ct), &bs); err == nil {
			cs.BitOK = true
			if re, err := asn1.Marshal(bs); err == nil {
				cs.BitRe = hex.EncodeToString(stripHdr(re))
			}
		}
		c.Emit(cs)
	}
	return nil
}

var _ = errors.New
