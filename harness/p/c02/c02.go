// Package c02: the verification command (`relic verify`) on lists of files.
//
//	cli <plan.json>   for every (option set, file) of the plan: the outcome of each primitive step verifyOne takes — open, rewind,
//	                  content / name recognition, stream or file verifier, decompression, the module's Verify, the chain of every
//	                  X.509 signer against the pool built from --cert — observed by calling the same exported functions one by
//	                  one ("env" records); then the REAL relic binary on generated lists of those files in many orders ("case"
//	                  records: arguments, exit status, stdout, stderr).
//	relicmain args... the command itself (cmdline/shared.Main with every signer module and cmdline/verify linked in), used to replay the
//	                  witness of exit_zero_reports_every_file_refuted: with C02_FAKE_EMPTY=1 a module is registered whose Verify
//	                  returns an empty list and no error.
package c02

import (
	"bytes"
	"crypto/x509"
	"encoding/json"
	"errors"
	"fmt"
	"os"
	"os/exec"
	"strings"
	"sync"

	"github.com/sassoftware/relic/v8/cmdline/shared"
	_ "github.com/sassoftware/relic/v8/cmdline/verify"
	"github.com/sassoftware/relic/v8/lib/certloader"
	"github.com/sassoftware/relic/v8/lib/magic"
	"github.com/sassoftware/relic/v8/lib/pgptools"
	"github.com/sassoftware/relic/v8/signers"
	_ "github.com/sassoftware/relic/v8/verifharness/allsigners"
	"github.com/sassoftware/relic/v8/verifharness/core"
)

type planFile struct {
	ID    int    `json:"id"`
	Path  string `json:"path"`
	Label string `json:"label"`
}
type planOpt struct {
	ID      int      `json:"id"`
	Name    string   `json:"name"`
	Args    []string `json:"args"`  // command-line arguments before the file names
	Certs   []string `json:"certs"` // --cert values
	Content string   `json:"content"`
	NoChain bool     `json:"no_chain"`
	NoInteg bool     `json:"no_integrity"`
	System  bool     `json:"system"`
	Show    bool     `json:"show"`
	Files   []int    `json:"files"` // files that take part in lists under this option set
	Mixed   []int    `json:"mixed"` // one list whose every permutation is run
}
type plan struct {
	Relic string     `json:"relic"`
	Files []planFile `json:"files"`
	Opts  []planOpt  `json:"opts"`
	Pairs int        `json:"pairs"`  // number of random ordered pairs per option set (0 = all)
	Tuples int       `json:"tuples"` // number of random lists of length 3..5 per option set
}

type sigEnv struct {
	X509        bool   `json:"x509"`
	ChainOK     bool   `json:"chain_ok"`
	UnknownAuth bool   `json:"unknown_auth"`
	CounterSig  bool   `json:"countersig"`
	ChainErr    string `json:"chain_err,omitempty"`
}
type envRec struct {
	Kind       string   `json:"kind"` // "env"
	Opt        int      `json:"opt"`
	File       int      `json:"file"`
	Open       bool     `json:"open"`
	Seek       bool     `json:"seek"`
	Magic      bool     `json:"magic"`
	Name       bool     `json:"name"`
	Module     string   `json:"module"`
	Stream     bool     `json:"stream"`
	Compressed bool     `json:"compressed"`
	Decomp     bool     `json:"decomp"`
	Verify     int      `json:"verify"` // 0 accepted, 1 unknown PGP key, 2 refused
	Sigs       []sigEnv `json:"sigs"`
	Err        string   `json:"err,omitempty"`
	Panic      bool     `json:"panic,omitempty"`
}
type optRec struct {
	Kind    string `json:"kind"` // "opt"
	Opt     int    `json:"opt"`
	CertsOK bool   `json:"certs_ok"`
	Err     string `json:"err,omitempty"`
}
type caseRec struct {
	Kind   string   `json:"kind"` // "case"
	Opt    int      `json:"opt"`
	Files  []int    `json:"files"`
	Class  string   `json:"class"`
	Args   []string `json:"args"`
	Exit   int      `json:"exit"`
	Stdout string   `json:"stdout"`
	Stderr string   `json:"stderr"`
}

// loadOpts: what cmdline/verify loadCerts does with the flags of one option set
func loadOpts(po planOpt) (signers.VerifyOpts, error) {
	opts := signers.VerifyOpts{NoChain: po.NoChain, NoDigests: po.NoInteg, Content: po.Content}
	trusted, err := certloader.LoadAnyCerts(po.Certs)
	if err != nil {
		return opts, err
	}
	opts.TrustedX509 = trusted.X509Certs
	opts.TrustedPgp = trusted.PGPCerts
	if len(opts.TrustedX509) > 0 {
		if po.System {
			opts.TrustedPool, err = x509.SystemCertPool()
			if err != nil {
				return opts, err
			}
		} else {
			opts.TrustedPool = x509.NewCertPool()
		}
		for _, cert := range opts.TrustedX509 {
			opts.TrustedPool.AddCert(cert)
		}
	}
	return opts, nil
}

// observe: the primitive steps of verifyOne, one by one
func observe(po planOpt, opts signers.VerifyOpts, pf planFile) (rec envRec) {
	rec = envRec{Kind: "env", Opt: po.ID, File: pf.ID, Decomp: true, Verify: 2}
	defer func() {
		if r := recover(); r != nil {
			rec.Panic = true
			rec.Verify = 2
			rec.Err = fmt.Sprintf("PANIC: %v", r)
		}
	}()
	f, err := shared.OpenFile(pf.Path)
	if err != nil {
		rec.Err = err.Error()
		return
	}
	rec.Open = true
	defer f.Close()
	fileType, compression := magic.DetectCompressed(f)
	opts.FileName = pf.Path
	opts.Compression = compression
	rec.Compressed = compression != magic.CompressedNone
	if _, err := f.Seek(0, 0); err != nil {
		rec.Err = err.Error()
		return
	}
	rec.Seek = true
	mod := signers.ByMagic(fileType)
	rec.Magic = mod != nil
	if byName := signers.ByFileName(pf.Path); byName != nil {
		rec.Name = true
		if mod == nil {
			mod = byName
		}
	}
	if mod == nil {
		rec.Err = "unknown filetype"
		return
	}
	rec.Module = mod.Name
	rec.Stream = mod.VerifyStream != nil
	var sigs []*signers.Signature
	if mod.VerifyStream != nil {
		r, err2 := magic.Decompress(f, opts.Compression)
		if err2 != nil {
			rec.Decomp = false
			rec.Err = err2.Error()
			return
		}
		sigs, err = mod.VerifyStream(r, opts)
	} else {
		if rec.Compressed {
			rec.Err = "cannot verify compressed file"
			return
		}
		sigs, err = mod.Verify(f, opts)
	}
	if err != nil {
		rec.Err = err.Error()
		if _, ok := err.(pgptools.ErrNoKey); ok {
			rec.Verify = 1
		}
		return
	}
	rec.Verify = 0
	for _, sig := range sigs {
		se := sigEnv{ChainOK: true}
		if sig.X509Signature != nil {
			se.X509 = true
			se.CounterSig = sig.X509Signature.CounterSignature != nil
			if err := sig.X509Signature.VerifyChain(opts.TrustedPool, nil, x509.ExtKeyUsageAny); err != nil {
				se.ChainOK = false
				se.ChainErr = err.Error()
				e := new(x509.UnknownAuthorityError)
				se.UnknownAuth = errors.As(err, e)
			}
		}
		rec.Sigs = append(rec.Sigs, se)
	}
	return
}

func permutations(xs []int) [][]int {
	if len(xs) <= 1 {
		return [][]int{append([]int{}, xs...)}
	}
	var out [][]int
	for i := range xs {
		rest := append(append([]int{}, xs[:i]...), xs[i+1:]...)
		for _, p := range permutations(rest) {
			out = append(out, append([]int{xs[i]}, p...))
		}
	}
	return out
}

func init() {
	if os.Getenv("C02_FAKE_EMPTY") == "1" {
		signers.Register(&signers.Signer{
			Name:     "c02-empty",
			TestPath: func(p string) bool { return strings.HasSuffix(p, ".c02empty") },
			Verify: func(*os.File, signers.VerifyOpts) ([]*signers.Signature, error) {
				return nil, nil
			},
		})
	}
	core.Register("relicmain", func(c *core.Ctx) error {
		os.Args = append([]string{"relic"}, c.Args...)
		shared.Main()
		return nil
	})
	core.Register("cli", func(c *core.Ctx) error {
		if len(c.Args) != 1 {
			return errors.New("usage: cli plan.json")
		}
		blob, err := os.ReadFile(c.Args[0])
		if err != nil {
			return err
		}
		var pl plan
		if err := json.Unmarshal(blob, &pl); err != nil {
			return err
		}
		rng := &core.Rng{S: c.Seed*7919 + 2}
		type job struct {
			opt   planOpt
			files []int
			class string
		}
		var jobs []job
		byID := map[int]planFile{}
		for _, f := range pl.Files {
			byID[f.ID] = f
		}
		for _, po := range pl.Opts {
			opts, err := loadOpts(po)
			or := optRec{Kind: "opt", Opt: po.ID, CertsOK: err == nil}
			if err != nil {
				or.Err = err.Error()
			}
			c.Emit(or)
			if err == nil {
				for _, fid := range po.Files {
					c.Emit(observe(po, opts, byID[fid]))
				}
			}
			// lists: every single file, ordered pairs (all, or a sample), random longer lists, every order of the mixed list, no file
			jobs = append(jobs, job{po, nil, "empty"})
			for _, a := range po.Files {
				jobs = append(jobs, job{po, []int{a}, "single"})
			}
			n := len(po.Files)
			if n > 0 {
				if pl.Pairs == 0 || pl.Pairs >= n*n {
					for _, a := range po.Files {
						for _, b := range po.Files {
							jobs = append(jobs, job{po, []int{a, b}, "pair"})
						}
					}
				} else {
					for k := 0; k < pl.Pairs; k++ {
						jobs = append(jobs, job{po, []int{po.Files[rng.Intn(n)], po.Files[rng.Intn(n)]}, "pair"})
					}
				}
				for k := 0; k < pl.Tuples; k++ {
					ln := 3 + rng.Intn(3)
					var l []int
					for j := 0; j < ln; j++ {
						l = append(l, po.Files[rng.Intn(n)])
					}
					jobs = append(jobs, job{po, l, "tuple"})
				}
			}
			if len(po.Mixed) > 0 {
				for _, p := range permutations(po.Mixed) {
					jobs = append(jobs, job{po, p, "permutation"})
				}
			}
		}
		out := make([]caseRec, len(jobs))
		var wg sync.WaitGroup
		sem := make(chan struct{}, 12)
		for i, j := range jobs {
			wg.Add(1)
			sem <- struct{}{}
			go func(i int, j job) {
				defer wg.Done()
				defer func() { <-sem }()
				args := append([]string{"verify"}, j.opt.Args...)
				for _, fid := range j.files {
					args = append(args, byID[fid].Path)
				}
				cmd := exec.Command(pl.Relic, args...)
				var so, se bytes.Buffer
				cmd.Stdout, cmd.Stderr = &so, &se
				cmd.Stdin = nil
				err := cmd.Run()
				code := 0
				if err != nil {
					if ee, ok := err.(*exec.ExitError); ok {
						code = ee.ExitCode()
					} else {
						code = -1
						se.WriteString("\nEXEC: " + err.Error())
					}
				}
				files := j.files
				if files == nil {
					files = []int{}
				}
				out[i] = caseRec{Kind: "case", Opt: j.opt.ID, Files: files, Class: j.class, Args: args, Exit: code, Stdout: so.String(), Stderr: se.String()}
			}(i, j)
		}
		wg.Wait()
		for _, r := range out {
			c.Emit(r)
		}
		return nil
	})
}
