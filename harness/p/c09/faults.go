package c09

// faults.go: the error path of an upload. Sources that fail with a non-EOF error after k bytes, writers that fail during
// the copy or during Close, encodings that setupCompression refuses — driven through
//   (1) compress / decompress themselves (hook lib/compresshttp/verif_hooks.go),
//   (2) the real CompressRequest goroutine + pipe and the real DecompressRequest, without HTTP in between,
//   (3) the real Middleware in front of a recording handler,
//   (4) the real client (remotecmd.CallRemote → doRequest/buildRequest) against hosts that run the real Middleware.
// The observable everywhere is "what would the signing handler digest": the decoded body, and whether it ended cleanly.

import (
	"bytes"
	"crypto"
	"crypto/sha256"
	"encoding/hex"
	"encoding/json"
	"errors"
	"fmt"
	"io"
	"net/http"
	"net/http/httptest"
	"net/url"
	"os"
	"path/filepath"
	"strconv"
	"strings"
	"sync"
	"sync/atomic"
	"syscall"
	"time"

	"github.com/sassoftware/relic/v8/cmdline/remotecmd"
	"github.com/sassoftware/relic/v8/cmdline/shared"
	"github.com/sassoftware/relic/v8/config"
	"github.com/sassoftware/relic/v8/lib/compresshttp"
	"github.com/sassoftware/relic/v8/signers"
	"github.com/sassoftware/relic/v8/verifharness/core"
)

var (
	errSourceEIO  = &os.PathError{Op: "read", Path: "input", Err: syscall.EIO}
	errSourceUEOF = fmt.Errorf("upload producer: %w", io.ErrUnexpectedEOF)
	errWriterGone = errors.New("verif: writer refuses further bytes")
)

// faultReader delivers the first `at` bytes of r and then fails with a non-EOF error (at the same Read as the last bytes
// when withData is set). at < 0 or at beyond the end of r: never fails.
type faultReader struct {
	r         io.Reader
	remaining int
	at        int
	err       error
	withData  bool
	fired     bool
	eofAt     int // bytes delivered when the underlying reader reported EOF (-1: not yet)
	delivered int
	onEOF     func()
}

func newFaultReader(r io.Reader, at int, kind string) *faultReader {
	f := &faultReader{r: r, remaining: at, at: at, eofAt: -1}
	switch kind {
	case "ueof":
		f.err = errSourceUEOF
	case "eio+data":
		f.err, f.withData = errSourceEIO, true
	default:
		f.err = errSourceEIO
	}
	return f
}

func (f *faultReader) Read(d []byte) (int, error) {
	if f.at >= 0 {
		if f.remaining <= 0 {
			f.fired = true
			return 0, f.err
		}
		if len(d) > f.remaining {
			d = d[:f.remaining]
		}
	}
	n, err := f.r.Read(d)
	f.delivered += n
	if f.at >= 0 {
		f.remaining -= n
		if f.withData && f.remaining == 0 && n > 0 && err == nil {
			f.fired = true
			return n, f.err
		}
	}
	if err == io.EOF && f.eofAt < 0 {
		f.eofAt = f.delivered
		if f.onEOF != nil {
			f.onEOF()
		}
	}
	return n, err
}

// failWriter accepts `limit` bytes and then fails (limit < 0: never)
type failWriter struct {
	buf   bytes.Buffer
	limit int
	fired bool
}

func (w *failWriter) Write(p []byte) (int, error) {
	if w.limit >= 0 && w.buf.Len()+len(p) > w.limit {
		n := w.limit - w.buf.Len()
		if n < 0 {
			n = 0
		}
		w.buf.Write(p[:n])
		w.fired = true
		return n, errWriterGone
	}
	return w.buf.Write(p)
}

func classify(err error) string {
	switch {
	case err == nil:
		return "nil"
	case errors.Is(err, syscall.EIO) || errors.Is(err, errSourceUEOF):
		return "source"
	case errors.Is(err, errWriterGone):
		return "writer"
	case errors.Is(err, compresshttp.ErrUnacceptableEncoding):
		return "unacceptable"
	}
	s := err.Error()
	if len(s) > 80 {
		s = s[:80]
	}
	return "other:" + s
}

type compressCase struct {
	ID       int    `json:"id"`
	Kind     string `json:"kind"` // compress
	Enc      string `json:"enc"`
	Seed     uint64 `json:"seed"`
	Size     int    `json:"size"`
	SrcFault int    `json:"src_fault"` // -1: none
	SrcKind  string `json:"src_kind"`
	WrPhase  string `json:"wr_phase"` // none | copy | close
	WrLimit  int    `json:"wr_limit"`
	PreClose int    `json:"pre_close"` // healthy run: bytes written before the source reported EOF
	Total    int    `json:"total"`     // healthy run: bytes written in all
	Ret      string `json:"ret"`
	SrcFired bool   `json:"src_fired"`
	WrFired  bool   `json:"wr_fired"`
	Written  int    `json:"written"`
	DecLen   int    `json:"dec_len"`
	DecSha   string `json:"dec_sha"`
	DecErr   string `json:"dec_err"` // "" = the decoder reached a clean end
	FullSha  string `json:"full_sha"`
	Known    bool   `json:"known"` // the encoding is one the package names
}

func decodeAll(enc string, wire []byte) (int, string, string) {
	r, err := compresshttp.VerifDecompress(enc, bytes.NewReader(wire))
	if err != nil {
		return 0, "", "open: " + err.Error()
	}
	h := sha256.New()
	n, err := io.Copy(h, r)
	if err != nil {
		return int(n), hex.EncodeToString(h.Sum(nil)), err.Error()
	}
	return int(n), hex.EncodeToString(h.Sum(nil)), ""
}

func runCompress(cc *compressCase) {
	data := genData(cc.Seed, cc.Size)
	cc.FullSha = shaHex(data)
	cc.Known = cc.Enc == "" || cc.Enc == compresshttp.EncodingIdentity || cc.Enc == compresshttp.EncodingGzip || cc.Enc == compresshttp.EncodingSnappy
	// healthy run: where does Close start writing?
	hw := &failWriter{limit: -1}
	hs := newFaultReader(bytes.NewReader(data), -1, "")
	hs.onEOF = func() { cc.PreClose = hw.buf.Len() }
	if err := compresshttp.VerifCompress(cc.Enc, hs, hw); err == nil {
		cc.Total = hw.buf.Len()
	}
	switch cc.WrPhase {
	case "copy":
		cc.WrLimit = cc.PreClose * cc.WrLimit / 100 // percent of what the copy phase writes
		if cc.PreClose == 0 {
			cc.WrPhase, cc.WrLimit = "none", -1
		} else if cc.WrLimit >= cc.PreClose {
			cc.WrLimit = cc.PreClose - 1
		}
	case "close":
		span := cc.Total - cc.PreClose
		if span <= 0 {
			cc.WrPhase, cc.WrLimit = "none", -1
		} else {
			cc.WrLimit = cc.PreClose + (span-1)*cc.WrLimit/100
		}
	default:
		cc.WrLimit = -1
	}
	src := newFaultReader(bytes.NewReader(data), cc.SrcFault, cc.SrcKind)
	fw := &failWriter{limit: cc.WrLimit}
	err := compresshttp.VerifCompress(cc.Enc, src, fw)
	cc.Ret, cc.SrcFired, cc.WrFired, cc.Written = classify(err), src.fired, fw.fired, fw.buf.Len()
	if cc.Known {
		cc.DecLen, cc.DecSha, cc.DecErr = decodeAll(cc.Enc, fw.buf.Bytes())
	}
}

// ---------------------------------------------------------------------------------------------------------------------
type pipeCase struct {
	ID         int    `json:"id"`
	Kind       string `json:"kind"` // pipe
	Advertised string `json:"advertised"`
	Seed       uint64 `json:"seed"`
	Size       int    `json:"size"`
	Stream     string `json:"stream"` // "plain" (generated data) or "jar-tar" (file in scratch)
	File       string `json:"file,omitempty"`
	SrcFault   int    `json:"src_fault"`
	SrcKind    string `json:"src_kind"`
	Script     []int  `json:"script"` // read sizes the source delivers
	What       string `json:"what"`   // where the fault lies, in words
	CE         string `json:"content_enc"`
	WireLen    int    `json:"wire_len"`
	WireTerm   string `json:"wire_term"` // clean | source | other:...
	SrcFired   bool   `json:"src_fired"`
	SrcClosed  bool   `json:"src_closed"`
	DecOpenErr string `json:"dec_open_err"`
	DecLen     int    `json:"dec_len"`
	DecSha     string `json:"dec_sha"`
	DecClean   bool   `json:"dec_clean"`
	DecErr     string `json:"dec_err"`
	FullSha    string `json:"full_sha"`
	FullLen    int    `json:"full_len"`
	Err        string `json:"err,omitempty"`
}

// termReader: what the server's body reader delivers — the bytes that reached the wire, then a clean end or (aborted
// request) an error
type termReader struct {
	r   *bytes.Reader
	err error
}

func (t *termReader) Read(p []byte) (int, error) {
	n, err := t.r.Read(p)
	if err == io.EOF && t.err != nil {
		return n, t.err
	}
	return n, err
}

type closeSpy struct {
	io.Reader
	closed int32
}

func (c *closeSpy) Close() error { atomic.StoreInt32(&c.closed, 1); return nil }

func runPipe(pc *pipeCase, data []byte) {
	pc.FullSha, pc.FullLen = shaHex(data), len(data)
	var base io.Reader = bytes.NewReader(data)
	if len(pc.Script) > 0 {
		base = &scriptReader{data: data, script: pc.Script}
	}
	src := newFaultReader(base, pc.SrcFault, pc.SrcKind)
	spy := &closeSpy{Reader: src}
	req, err := http.NewRequest("POST", "http://verif.invalid/sign", nil)
	if err != nil {
		pc.Err = err.Error()
		return
	}
	req.Body = spy
	if err := compresshttp.CompressRequest(req, pc.Advertised); err != nil {
		pc.Err = "CompressRequest: " + err.Error()
		return
	}
	pc.CE = req.Header.Get("Content-Encoding")
	wire, werr := readAllTimeout(req.Body, 20*time.Second)
	req.Body.Close()
	pc.WireLen, pc.WireTerm, pc.SrcFired = len(wire), "clean", src.fired
	if werr != nil {
		pc.WireTerm = classify(werr)
	}
	time.Sleep(time.Millisecond)
	pc.SrcClosed = atomic.LoadInt32(&spy.closed) != 0
	// server side: the body reader fails when the request was aborted (net/http turns it into unexpected EOF)
	var abort error
	if werr != nil {
		abort = io.ErrUnexpectedEOF
	}
	sreq := httptest.NewRequest("POST", "/sign", &termReader{r: bytes.NewReader(wire), err: abort})
	if pc.CE != "" {
		sreq.Header.Set("Content-Encoding", pc.CE)
	}
	if err := compresshttp.DecompressRequest(sreq); err != nil {
		pc.DecOpenErr = err.Error()
		return
	}
	h := sha256.New()
	n, err := io.Copy(h, sreq.Body)
	pc.DecLen, pc.DecSha = int(n), hex.EncodeToString(h.Sum(nil))
	if err != nil {
		pc.DecErr = err.Error()
	} else {
		pc.DecClean = true
	}
}

// ---------------------------------------------------------------------------------------------------------------------
type mwCase struct {
	ID        int    `json:"id"`
	Kind      string `json:"kind"` // middleware
	CE        string `json:"content_enc"`
	Body      string `json:"body"` // valid | garbage | truncated
	AcceptEnc string `json:"accept_enc"`
	Status    int    `json:"status"`
	Calls     int    `json:"calls"`
	SeenSha   string `json:"seen_sha"`
	SeenErr   string `json:"seen_err"`
	PlainSha  string `json:"plain_sha"`
}

func runMiddleware(mc *mwCase, plain []byte) {
	mc.PlainSha = shaHex(plain)
	var body []byte
	enc := mc.CE
	if !(enc == "" || enc == "identity" || enc == "gzip" || enc == "x-snappy-framed") {
		enc = "" // an encoding the package does not know: the body is whatever the client sent
	}
	var buf bytes.Buffer
	compresshttp.VerifCompress(enc, bytes.NewReader(plain), &buf)
	body = buf.Bytes()
	switch mc.Body {
	case "garbage":
		body = bytes.Repeat([]byte{0x5a, 0x01, 0xfe}, 50)
	case "truncated":
		body = body[:len(body)*2/3]
	}
	handler := http.HandlerFunc(func(w http.ResponseWriter, r *http.Request) {
		mc.Calls++
		h := sha256.New()
		_, err := io.Copy(h, r.Body)
		mc.SeenSha = hex.EncodeToString(h.Sum(nil))
		if err != nil {
			mc.SeenErr = err.Error()
			http.Error(w, "bad body", http.StatusBadRequest)
			return
		}
		w.Write([]byte("signed:" + mc.SeenSha))
	})
	req := httptest.NewRequest("POST", "/sign", bytes.NewReader(body))
	if mc.CE != "" {
		req.Header.Set("Content-Encoding", mc.CE)
	}
	if mc.AcceptEnc != "" {
		req.Header.Set("Accept-Encoding", mc.AcceptEnc)
	}
	rec := httptest.NewRecorder()
	compresshttp.Middleware(handler).ServeHTTP(rec, req)
	mc.Status = rec.Code
}

// tarBoundaries: byte offsets of interest in a two-member tar stream (header | data padded | header | data padded | end)
func tarBoundaries(stream []byte) map[string]int {
	out := map[string]int{}
	size := func(hdr []byte) int {
		s := strings.TrimRight(strings.TrimSpace(string(hdr[124:136])), "\x00")
		n, _ := strconv.ParseInt(s, 8, 64)
		return int(n)
	}
	if len(stream) < 1024 {
		return out
	}
	m1 := size(stream[:512])
	pad := func(n int) int { return (n + 511) / 512 * 512 }
	out["inside the first tar header"] = 300
	out["after the first tar header"] = 512
	out["inside the first member"] = 512 + m1/2
	out["at the end of the first member's data"] = 512 + m1
	b := 512 + pad(m1)
	out["at the boundary between the members"] = b
	if b+512 <= len(stream) {
		m2 := size(stream[b : b+512])
		out["after the second tar header"] = b + 512
		out["inside the second member"] = b + 512 + m2/2
		out["at the end of the second member's data"] = b + 512 + m2
		out["after the last member, before the end-of-archive marker"] = b + 512 + pad(m2)
	}
	out["inside the end-of-archive marker"] = len(stream) - 512
	return out
}

func init() {
	core.Register("c09fault", func(c *core.Ctx) error {
		if c.Scratch == "" {
			return errors.New("c09fault needs -scratch")
		}
		os.MkdirAll(c.Scratch, 0o755)
		r := &core.Rng{S: c.Seed ^ 0xfa17}
		id := 0
		// ---- (1) compress itself
		encs := []string{"", "identity", "gzip", "x-snappy-framed", "bogus", "deflate", "GZIP"}
		sizes := []int{0, 1, 1000, 32768, 65536, 65537, 200000}
		for _, enc := range encs {
			for _, size := range sizes {
				faults := []int{-1, 0, 1, size / 2, size - 1, size}
				if size > 65536 {
					faults = append(faults, 32768, 65535, 65536, 65537)
				}
				seen := map[int]bool{}
				for _, k := range faults {
					if k < -1 || seen[k] || (k > size) {
						continue
					}
					seen[k] = true
					kind := []string{"eio", "eio+data", "ueof"}[id%3]
					cc := &compressCase{ID: id, Kind: "compress", Enc: enc, Seed: r.Next(), Size: size, SrcFault: k, SrcKind: kind, WrPhase: "none"}
					id++
					runCompress(cc)
					c.Emit(cc)
				}
				for _, ph := range [][2]interface{}{{"copy", 0}, {"copy", 50}, {"copy", 99}, {"close", 0}, {"close", 50}, {"close", 100}} {
					cc := &compressCase{ID: id, Kind: "compress", Enc: enc, Seed: r.Next(), Size: size, SrcFault: -1, WrPhase: ph[0].(string), WrLimit: ph[1].(int)}
					id++
					runCompress(cc)
					if cc.WrPhase != "none" {
						c.Emit(cc)
					}
				}
			}
		}
		// ---- (2) CompressRequest + pipe + DecompressRequest
		jar := storedZip(r.Next(), 60000)
		jarPath := filepath.Join(c.Scratch, "fault.jar")
		os.WriteFile(jarPath, jar, 0o644)
		tarStream, _, err := realZipToTar(c.Scratch, "fault-jar", jar)
		if err != nil {
			return err
		}
		tarPath := filepath.Join(c.Scratch, "fault-jar.tar")
		os.WriteFile(tarPath, tarStream, 0o644)
		ads := []string{"", "identity", "gzip", "x-snappy-framed", "x-snappy-framed, gzip", "br, gzip;q=0.5"}
		for _, ad := range ads {
			for _, size := range []int{0, 1, 5000, 65536, 70001, 150000} {
				dseed := r.Next() | 1
				data := genData(dseed, size)
				faults := map[int]string{-1: "no fault", 0: "before the first byte", size: "after the last byte, instead of EOF"}
				if size > 1 {
					faults[1] = "after one byte"
					faults[size/2] = "in the middle"
					faults[size-1] = "before the last byte"
				}
				if size > 65536 {
					faults[32768] = "at io.Copy's buffer size"
					faults[65536] = "at the snappy block size"
					faults[65535] = "one byte before the snappy block size"
					faults[65537] = "one byte after the snappy block size"
				}
				for k, what := range faults {
					kind := []string{"eio", "eio+data", "ueof"}[(id+k+1)%3]
					var sc []int
					if size <= 5000 && id%2 == 0 {
						sc = []int{1, 7, 512, 3}
					}
					pc := &pipeCase{ID: id, Kind: "pipe", Advertised: ad, Seed: dseed, Size: size, Stream: "plain", SrcFault: k, SrcKind: kind, Script: sc, What: what}
					id++
					pc.File = filepath.Join(c.Scratch, fmt.Sprintf("pipe-%d.bin", pc.ID))
					os.WriteFile(pc.File, data, 0o644)
					runPipe(pc, data)
					c.Emit(pc)
				}
			}
			for what, k := range tarBoundaries(tarStream) {
				pc := &pipeCase{ID: id, Kind: "pipe", Advertised: ad, Size: len(tarStream), Stream: "jar-tar", File: tarPath, SrcFault: k, SrcKind: "eio", What: what}
				id++
				runPipe(pc, tarStream)
				c.Emit(pc)
			}
		}
		// ---- (3) Middleware
		plain := genData(r.Next(), 3000)
		for _, ce := range []string{"", "identity", "gzip", "x-snappy-framed", "bogus", "GZIP", "br", "gzip, identity"} {
			for _, body := range []string{"valid", "garbage", "truncated"} {
				for _, ae := range []string{"", "gzip", "x-snappy-framed, gzip", "identity"} {
					mc := &mwCase{ID: id, Kind: "middleware", CE: ce, Body: body, AcceptEnc: ae}
					id++
					runMiddleware(mc, plain)
					c.Emit(mc)
				}
			}
		}
		return nil
	})
}

// ---------------------------------------------------------------------------------------------------------------------
// (4) the real client with a source that fails

type faultyGetter struct {
	inner   remotecmd.ReaderGetter
	at      int
	kind    string
	onCalls map[int]bool // 1-based GetReader calls that fail; nil = all
	calls   int32
	mu      sync.Mutex
	fired   []bool
}

func (g *faultyGetter) GetReader() (io.Reader, error) {
	r, err := g.inner.GetReader()
	if err != nil {
		return nil, err
	}
	n := int(atomic.AddInt32(&g.calls, 1))
	if g.at < 0 || (g.onCalls != nil && !g.onCalls[n]) {
		return r, nil
	}
	return newFaultReader(r, g.at, g.kind), nil
}

type faultHTTPCase struct {
	ID         int          `json:"id"`
	Kind       string       `json:"kind"` // faulthttp
	Module     string       `json:"module"`
	NHosts     int          `json:"nhosts"`
	Retries    int          `json:"retries"`
	Advertised string       `json:"advertised"`
	Script     []string     `json:"script"`
	FaultAt    int          `json:"fault_at"`
	FaultKind  string       `json:"fault_kind"`
	FaultCalls []int        `json:"fault_calls"` // empty: every call
	What       string       `json:"what"`
	Upload     string       `json:"upload_sha"`
	UploadLen  int          `json:"upload_len"`
	Calls      int          `json:"calls"` // GetReader calls = attempts the client made
	Attempts   []attemptObs `json:"attempts"`
	Result     string       `json:"result"`
	Status     int          `json:"status"`
	SignedSha  string       `json:"signed_sha"` // the digest the accepted response says was signed
	ErrText    string       `json:"err,omitempty"`
}

// signHost: the production middleware in front of a handler that does what serveSign does with the body: digest it to
// the end; a body that cannot be read is an error response, otherwise the response carries the digest that was "signed"
func signHost(sc *scenario, host int) http.Handler {
	return compresshttp.Middleware(http.HandlerFunc(func(w http.ResponseWriter, r *http.Request) {
		beh, _ := sc.next()
		a := attemptObs{Host: host, ContentEnc: r.Header.Get("Content-Encoding"), AcceptEnc: r.Header.Get("Accept-Encoding"), Behaviour: beh, Query: r.URL.RawQuery}
		h := sha256.New()
		n, err := io.Copy(h, r.Body)
		a.BodyLen = int(n)
		if err != nil {
			a.BodyErr = err.Error()
		} else {
			a.BodySha = hex.EncodeToString(h.Sum(nil))
		}
		sc.record(a)
		code := beh
		if code == "406enc" {
			if a.ContentEnc == "" {
				code = "ok"
			} else {
				code = "406"
			}
		}
		if code == "ok" {
			if err != nil {
				http.Error(w, "reading the upload failed: "+err.Error(), http.StatusBadRequest)
				return
			}
			w.Header().Set("Content-Type", "application/x-binary-patch")
			w.Write([]byte("signed-digest:" + a.BodySha + ":" + strings.Repeat("x", 3000)))
			return
		}
		st, _ := strconv.Atoi(code)
		if st == 0 {
			st = 500
		}
		http.Error(w, "scripted failure "+code, st)
	}))
}

func runFaultHTTP(fc *faultHTTPCase, input string, devnull *os.File) {
	sc := &scenario{script: fc.Script, payloads: map[int][]byte{}}
	var hosts []*httptest.Server
	var urls []string
	for i := 0; i < fc.NHosts; i++ {
		s := httptest.NewServer(signHost(sc, i))
		hosts = append(hosts, s)
		urls = append(urls, s.URL+"/")
	}
	dir := httptest.NewServer(http.HandlerFunc(func(w http.ResponseWriter, r *http.Request) {
		if fc.Advertised != "" {
			w.Header().Set("Accept-Encoding", fc.Advertised)
		}
		w.Header().Set("Content-Type", "application/json")
		json.NewEncoder(w).Encode(map[string]interface{}{"hosts": urls})
	}))
	defer func() {
		dir.Close()
		for _, h := range hosts {
			h.CloseClientConnections()
			h.Close()
		}
	}()
	shared.CurrentConfig = &config.Config{Remote: &config.RemoteConfig{DirectoryURL: dir.URL + "/", AccessToken: "verif", Retries: fc.Retries, ConnectTimeout: 5}}
	mod := signers.ByName(fc.Module)
	flags, _ := mod.FlagsFromQuery(nil)
	f, err := os.Open(input)
	if err != nil {
		fc.ErrText = err.Error()
		return
	}
	defer f.Close()
	tr, err := mod.GetTransform(f, signers.SignOpts{Path: input, Hash: crypto.SHA256, Flags: flags})
	if err != nil {
		fc.ErrText = err.Error()
		return
	}
	rd, err := tr.GetReader()
	if err != nil {
		fc.ErrText = err.Error()
		return
	}
	up, err := readAllTimeout(rd, 20*time.Second)
	if err != nil {
		fc.ErrText = "standalone read: " + err.Error()
		return
	}
	fc.Upload, fc.UploadLen = shaHex(up), len(up)
	if fc.FaultAt == -2 { // resolved against the stream: a named tar boundary
		fc.FaultAt = tarBoundaries(up)[fc.What]
	} else if fc.FaultAt <= -10 { // relative to the end of the stream
		fc.FaultAt = len(up) + fc.FaultAt + 10
	}
	g := &faultyGetter{inner: tr, at: fc.FaultAt, kind: fc.FaultKind}
	if len(fc.FaultCalls) > 0 {
		g.onCalls = map[int]bool{}
		for _, k := range fc.FaultCalls {
			g.onCalls[k] = true
		}
	}
	values := url.Values{}
	values.Add("key", "k")
	values.Add("filename", filepath.Base(input))
	values.Add("sigtype", mod.Name)
	saved := os.Stdout
	os.Stdout = devnull
	type res struct {
		resp *http.Response
		err  error
	}
	ch := make(chan res, 1)
	go func() {
		resp, err := remotecmd.CallRemote("sign", "POST", &values, g)
		ch <- res{resp, err}
	}()
	var rr res
	select {
	case rr = <-ch:
	case <-time.After(30 * time.Second):
		rr.err = errors.New("harness timeout: CallRemote did not return within 30s")
	}
	os.Stdout = saved
	fc.Calls = int(atomic.LoadInt32(&g.calls))
	if rr.err != nil {
		fc.Result, fc.ErrText = "error", rr.err.Error()
		if len(fc.ErrText) > 300 {
			fc.ErrText = fc.ErrText[:300]
		}
	} else {
		fc.Result, fc.Status = "ok", rr.resp.StatusCode
		body, err := io.ReadAll(rr.resp.Body)
		rr.resp.Body.Close()
		if err != nil {
			fc.ErrText = "reading response: " + err.Error()
		}
		if parts := strings.SplitN(string(body), ":", 3); len(parts) == 3 && parts[0] == "signed-digest" {
			fc.SignedSha = parts[1]
		} else {
			fc.SignedSha = "unparseable response"
		}
	}
	time.Sleep(5 * time.Millisecond)
	sc.mu.Lock()
	fc.Attempts = append([]attemptObs{}, sc.attempts...)
	sc.mu.Unlock()
}

func init() {
	core.Register("c09faulthttp", func(c *core.Ctx) error {
		if c.Scratch == "" {
			return errors.New("c09faulthttp needs -scratch")
		}
		os.MkdirAll(c.Scratch, 0o755)
		devnull, _ := os.OpenFile(os.DevNull, os.O_WRONLY, 0)
		defer devnull.Close()
		r := &core.Rng{S: c.Seed ^ 0xfa77}
		plain := filepath.Join(c.Scratch, "fh-plain.bin")
		os.WriteFile(plain, genData(r.Next(), 150000), 0o644)
		jar := filepath.Join(c.Scratch, "fh.jar")
		os.WriteFile(jar, storedZip(r.Next(), 90000), 0o644)
		ads := []string{"", "identity", "gzip", "x-snappy-framed", "x-snappy-framed, gzip"}
		id := 0
		run := func(fc *faultHTTPCase, input string) {
			fc.ID, fc.Kind = id, "faulthttp"
			id++
			runFaultHTTP(fc, input, devnull)
			c.Emit(fc)
		}
		type fp struct {
			at   int
			what string
		}
		plainFaults := []fp{{0, "before the first byte"}, {1, "after one byte"}, {32768, "at io.Copy's buffer size"}, {65535, "one byte before the snappy block size"},
			{65536, "at the snappy block size"}, {65537, "one byte after the snappy block size"}, {100003, "in the middle"}, {-11, "before the last byte"}, {-10, "after the last byte, instead of EOF"}}
		var tarFaults []fp
		for _, w := range []string{"inside the first tar header", "after the first tar header", "inside the first member", "at the end of the first member's data",
			"at the boundary between the members", "after the second tar header", "inside the second member", "at the end of the second member's data",
			"after the last member, before the end-of-archive marker", "inside the end-of-archive marker"} {
			tarFaults = append(tarFaults, fp{-2, w})
		}
		for _, ad := range ads {
			// every attempt's source fails: nothing may be signed
			for i, f := range plainFaults {
				kind := []string{"eio", "eio+data", "ueof"}[i%3]
				run(&faultHTTPCase{Module: "pgp", NHosts: 2, Advertised: ad, Script: []string{"ok", "ok", "ok"}, FaultAt: f.at, FaultKind: kind, What: f.what}, plain)
			}
			for _, f := range tarFaults {
				run(&faultHTTPCase{Module: "jar", NHosts: 2, Advertised: ad, Script: []string{"ok", "ok", "ok"}, FaultAt: f.at, FaultKind: "eio", What: f.what}, jar)
			}
			// a transient producer failure on the first attempt only: the next host gets the whole stream
			run(&faultHTTPCase{Module: "pgp", NHosts: 2, Advertised: ad, Script: []string{"ok", "ok"}, FaultAt: 70000, FaultKind: "ueof", FaultCalls: []int{1}, What: "in the middle, first attempt only"}, plain)
			run(&faultHTTPCase{Module: "jar", NHosts: 3, Advertised: ad, Script: []string{"503", "ok", "ok"}, FaultAt: -2, FaultKind: "ueof", FaultCalls: []int{2}, What: "at the boundary between the members"}, jar)
			// after a 406 fallback (second GetReader call, now without compression)
			run(&faultHTTPCase{Module: "pgp", NHosts: 2, Advertised: ad, Script: []string{"406", "ok", "ok"}, FaultAt: 65536, FaultKind: "eio", FaultCalls: []int{2}, What: "at the snappy block size, after a 406 fallback"}, plain)
			run(&faultHTTPCase{Module: "jar", NHosts: 2, Advertised: ad, Script: []string{"406enc", "ok", "ok"}, FaultAt: -2, FaultKind: "eio", FaultCalls: []int{2}, What: "after the last member, before the end-of-archive marker"}, jar)
			run(&faultHTTPCase{Module: "pgp", NHosts: 2, Advertised: ad, Script: []string{"406", "ok", "ok"}, FaultAt: 5, FaultKind: "eio", FaultCalls: []int{1}, What: "after five bytes, before a 406 fallback"}, plain)
			// healthy reference
			run(&faultHTTPCase{Module: "pgp", NHosts: 1, Advertised: ad, Script: []string{"ok"}, FaultAt: -1, What: "no fault"}, plain)
		}
		return nil
	})
}
