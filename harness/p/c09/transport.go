package c09

// transport.go: the real client (remotecmd.CallRemote → doRequest/buildRequest) against scripted httptest servers.
// Every sign request that reaches a host consumes the next entry of the scenario's script (the failover history).

import (
	"bytes"
	"crypto"
	"crypto/sha256"
	"encoding/hex"
	"encoding/json"
	"errors"
	"fmt"
	"io"
	"net"
	"net/http"
	"net/http/httptest"
	"net/url"
	"os"
	"path/filepath"
	"strings"
	"sync"
	"time"

	"github.com/sassoftware/relic/v8/cmdline/remotecmd"
	"github.com/sassoftware/relic/v8/cmdline/shared"
	"github.com/sassoftware/relic/v8/config"
	"github.com/sassoftware/relic/v8/lib/compresshttp"
	"github.com/sassoftware/relic/v8/signers"
	"github.com/sassoftware/relic/v8/verifharness/core"
)

type attemptObs struct {
	Host       int    `json:"host"`
	ContentEnc string `json:"content_enc"`
	AcceptEnc  string `json:"accept_enc"`
	Behaviour  string `json:"behaviour"`
	BodySha    string `json:"body_sha,omitempty"` // decoded body, when the host read it to the end
	BodyLen    int    `json:"body_len"`
	BodyErr    string `json:"body_err,omitempty"`
	Query      string `json:"query"`
}

type transportCase struct {
	ID         int          `json:"id"`
	Kind       string       `json:"kind"` // transport
	Module     string       `json:"module"`
	NHosts     int          `json:"nhosts"`
	Retries    int          `json:"retries"`
	Advertised string       `json:"advertised"`
	Script     []string     `json:"script"`
	Upload     string       `json:"upload_sha"` // sha256 of the standalone GetReader stream
	UploadLen  int          `json:"upload_len"`
	Attempts   []attemptObs `json:"attempts"`
	Result     string       `json:"result"` // "ok" or "error"
	Status     int          `json:"status"`
	RespSha    string       `json:"resp_sha,omitempty"` // body the client handed to the caller
	RespWant   string       `json:"resp_want,omitempty"`
	RespHost   int          `json:"resp_attempt"` // index of the scripted attempt whose payload the caller received
	ErrText    string       `json:"err,omitempty"`
	Temporary  bool         `json:"-"`
}

type scenario struct {
	mu       sync.Mutex
	script   []string
	k        int
	attempts []attemptObs
	payloads map[int][]byte
}

func (sc *scenario) next() (string, int) {
	sc.mu.Lock()
	defer sc.mu.Unlock()
	b := "ok"
	if sc.k < len(sc.script) {
		b = sc.script[sc.k]
	}
	sc.k++
	return b, sc.k - 1
}

func (sc *scenario) record(a attemptObs) {
	sc.mu.Lock()
	sc.attempts = append(sc.attempts, a)
	sc.mu.Unlock()
}

func hostHandler(sc *scenario, host int) http.Handler {
	return http.HandlerFunc(func(w http.ResponseWriter, r *http.Request) {
		beh, idx := sc.next()
		a := attemptObs{Host: host, ContentEnc: r.Header.Get("Content-Encoding"), AcceptEnc: r.Header.Get("Accept-Encoding"), Behaviour: beh, Query: r.URL.RawQuery}
		early := strings.HasSuffix(beh, "-early")
		code := strings.TrimSuffix(beh, "-early")
		readBody := func() {
			// the production middleware's request decoding
			if err := compresshttp.DecompressRequest(r); err != nil {
				a.BodyErr = "decompress: " + err.Error()
				return
			}
			h := sha256.New()
			n, err := io.Copy(h, r.Body)
			a.BodyLen = int(n)
			if err != nil {
				a.BodyErr = err.Error()
				return
			}
			a.BodySha = hex.EncodeToString(h.Sum(nil))
		}
		switch code {
		case "reset", "eof":
			if !early {
				readBody()
			}
			sc.record(a)
			hj, ok := w.(http.Hijacker)
			if !ok {
				return
			}
			conn, _, err := hj.Hijack()
			if err != nil {
				return
			}
			if tc, ok := conn.(*net.TCPConn); ok && code == "reset" {
				tc.SetLinger(0)
			}
			conn.Close()
			return
		case "406enc": // an intermediary that refuses encoded requests
			if a.ContentEnc == "" {
				code = "ok"
			} else {
				code = "406"
			}
		}
		if !early {
			readBody()
		}
		sc.record(a)
		if code == "ok" {
			payload := []byte(fmt.Sprintf("signed-by-host-%d-attempt-%d:", host, idx) + strings.Repeat(a.BodySha, 40))
			sc.mu.Lock()
			sc.payloads[idx] = payload
			sc.mu.Unlock()
			w.Header().Set("Content-Type", "application/x-binary-patch")
			// the production response encoding
			if err := compresshttp.CompressResponse(bytes.NewReader(payload), r.Header.Get("Accept-Encoding"), w, http.StatusOK); err != nil {
				return
			}
			return
		}
		var st int
		fmt.Sscanf(code, "%d", &st)
		if st == 0 {
			st = 500
		}
		http.Error(w, "scripted failure "+code, st)
	})
}

func runScenario(c *core.Ctx, tc *transportCase, input string, devnull *os.File) {
	sc := &scenario{script: tc.Script, payloads: map[int][]byte{}}
	var hosts []*httptest.Server
	var urls []string
	for i := 0; i < tc.NHosts; i++ {
		s := httptest.NewServer(hostHandler(sc, i))
		hosts = append(hosts, s)
		urls = append(urls, s.URL+"/")
	}
	dir := httptest.NewServer(http.HandlerFunc(func(w http.ResponseWriter, r *http.Request) {
		if tc.Advertised != "" {
			w.Header().Set("Accept-Encoding", tc.Advertised)
		}
		w.Header().Set("Content-Type", "application/json")
		json.NewEncoder(w).Encode(map[string]interface{}{"hosts": urls})
	}))
	defer func() {
		dir.Close()
		for _, h := range hosts {
			h.CloseClientConnections()
			h.Close()
		}
	}()
	shared.CurrentConfig = &config.Config{Remote: &config.RemoteConfig{DirectoryURL: dir.URL + "/", AccessToken: "verif", Retries: tc.Retries, ConnectTimeout: 5}}
	mod := signers.ByName(tc.Module)
	flags, _ := mod.FlagsFromQuery(nil)
	f, err := os.Open(input)
	if err != nil {
		tc.ErrText = err.Error()
		return
	}
	defer f.Close()
	tr, err := mod.GetTransform(f, signers.SignOpts{Path: input, Hash: crypto.SHA256, Flags: flags})
	if err != nil {
		tc.ErrText = err.Error()
		return
	}
	// standalone: what a local `relic sign` hands to the signer
	rd, err := tr.GetReader()
	if err != nil {
		tc.ErrText = err.Error()
		return
	}
	up, err := readAllTimeout(rd, 20*time.Second)
	if err != nil {
		tc.ErrText = "standalone read: " + err.Error()
		return
	}
	tc.Upload, tc.UploadLen = shaHex(up), len(up)
	values := url.Values{}
	values.Add("key", "k")
	values.Add("filename", filepath.Base(input))
	values.Add("sigtype", mod.Name)
	saved := os.Stdout
	os.Stdout = devnull // CallRemote reports failover on stdout
	type res struct {
		resp *http.Response
		err  error
	}
	ch := make(chan res, 1)
	go func() {
		resp, err := remotecmd.CallRemote("sign", "POST", &values, tr)
		ch <- res{resp, err}
	}()
	var rr res
	select {
	case rr = <-ch:
	case <-time.After(30 * time.Second):
		rr.err = errors.New("harness timeout: CallRemote did not return within 30s")
	}
	os.Stdout = saved
	if rr.err != nil {
		tc.Result, tc.ErrText = "error", rr.err.Error()
		if len(tc.ErrText) > 300 {
			tc.ErrText = tc.ErrText[:300]
		}
	} else {
		tc.Result, tc.Status = "ok", rr.resp.StatusCode
		body, err := io.ReadAll(rr.resp.Body)
		rr.resp.Body.Close()
		if err != nil {
			tc.ErrText = "reading response: " + err.Error()
		}
		tc.RespSha = shaHex(body)
		tc.RespHost = -1
		sc.mu.Lock()
		for idx, p := range sc.payloads {
			if bytes.Equal(p, body) {
				tc.RespWant = shaHex(p)
				tc.RespHost = idx
			}
		}
		sc.mu.Unlock()
	}
	time.Sleep(5 * time.Millisecond) // let handlers that were still draining a body record their observation
	sc.mu.Lock()
	tc.Attempts = append([]attemptObs{}, sc.attempts...)
	sc.mu.Unlock()
}

func init() {
	core.Register("c09transport", func(c *core.Ctx) error {
		if c.Scratch == "" {
			return errors.New("c09transport needs -scratch")
		}
		os.MkdirAll(c.Scratch, 0o755)
		devnull, _ := os.OpenFile(os.DevNull, os.O_WRONLY, 0)
		defer devnull.Close()
		r := &core.Rng{S: c.Seed ^ 0x7a95}
		plain := filepath.Join(c.Scratch, "upload-plain.bin")
		os.WriteFile(plain, genData(r.Next(), 150000), 0o644)
		jar := filepath.Join(c.Scratch, "upload.jar")
		os.WriteFile(jar, storedZip(r.Next(), 120000), 0o644)
		inputs := [][2]string{{"pgp", plain}, {"jar", jar}}
		ads := []string{"", "gzip", "x-snappy-framed, gzip", "identity", "br, gzip;q=0.5", "x-snappy-framed"}
		beh := []string{"ok", "503", "502", "500", "504", "507", "400", "403", "404", "406", "406enc", "reset", "eof", "503-early", "406-early", "reset-early"}
		id := 0
		run := func(tc *transportCase, input string) {
			tc.ID, tc.Kind = id, "transport"
			id++
			runScenario(c, tc, input, devnull)
			c.Emit(tc)
		}
		// exhaustive small scope: scripts of length <= 2 over the behaviours, 2 hosts, both inputs alternate
		k := 0
		for _, b1 := range beh {
			for _, b2 := range append([]string{""}, beh...) {
				sc := []string{b1}
				if b2 != "" {
					if b1 == "ok" {
						continue
					}
					sc = append(sc, b2)
				}
				in := inputs[k%2]
				ad := ads[(k/2)%len(ads)]
				k++
				run(&transportCase{Module: in[0], NHosts: 2, Retries: 0, Advertised: ad, Script: sc}, in[1])
			}
		}
		// random longer histories: 1..3 hosts, retries 0..5
		n := 60
		if c.Tier == "thorough" {
			n = 600
		}
		for i := 0; i < n; i++ {
			nh := 1 + r.Intn(3)
			retries := r.Pick(0, 0, 1, 3, 5)
			var sc []string
			for j := 0; j < 1+r.Intn(7); j++ {
				if r.Chance(55) {
					tmp := []string{"503", "502", "reset", "504", "503-early"}
					sc = append(sc, tmp[r.Intn(len(tmp))])
				} else {
					sc = append(sc, beh[r.Intn(len(beh))])
				}
			}
			in := inputs[r.Intn(2)]
			run(&transportCase{Module: in[0], NHosts: nh, Retries: retries, Advertised: ads[r.Intn(len(ads))], Script: sc}, in[1])
		}
		return nil
	})
}

// c09stress: schedule exploration for the request-replay path: a host answers before it has read the body, so the first
// attempt's body reader may still be draining while the second attempt re-reads the same file.
func init() {
	core.Register("c09stress", func(c *core.Ctx) error {
		if c.Scratch == "" {
			return errors.New("c09stress needs -scratch")
		}
		os.MkdirAll(c.Scratch, 0o755)
		devnull, _ := os.OpenFile(os.DevNull, os.O_WRONLY, 0)
		defer devnull.Close()
		r := &core.Rng{S: c.Seed ^ 0x57e5}
		plain := filepath.Join(c.Scratch, "stress-plain.bin")
		os.WriteFile(plain, genData(r.Next(), 3000000), 0o644)
		jar := filepath.Join(c.Scratch, "stress.jar")
		os.WriteFile(jar, storedZip(r.Next(), 3000000), 0o644)
		n := 40
		if c.Tier == "thorough" {
			n = 400
		}
		if c.N > 0 {
			n = c.N
		}
		id := 0
		for i := 0; i < n; i++ {
			for _, in := range [][2]string{{"pgp", plain}, {"jar", jar}, {"pe-coff", plain}} {
				for _, ad := range []string{"", "gzip"} {
					first := []string{"503-early", "reset-early", "406-early"}[i%3]
					if first == "406-early" && ad == "" {
						first = "503-early"
					}
					tc := &transportCase{ID: id, Kind: "stress", Module: in[0], NHosts: 2, Advertised: ad, Script: []string{first, "ok"}}
					id++
					runScenario(c, tc, in[1], devnull)
					c.Emit(tc)
				}
			}
		}
		return nil
	})
}
