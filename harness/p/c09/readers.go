package c09

// readers.go: Transformer.GetReader repeatability (identical bytes on every call, also after an abandoned partial read)
// and the server-side digest of the transformed stream versus the digest computed directly from the file.

import (
	"archive/zip"
	"bytes"
	"crypto"
	"crypto/sha256"
	"encoding/hex"
	"errors"
	"fmt"
	"io"
	"os"
	"path/filepath"
	"runtime"
	"time"

	"github.com/sassoftware/relic/v8/lib/authenticode"
	"github.com/sassoftware/relic/v8/lib/comdoc"
	"github.com/sassoftware/relic/v8/signers"
	_ "github.com/sassoftware/relic/v8/verifharness/allsigners"
	"github.com/sassoftware/relic/v8/verifharness/core"
)

type readerCase struct {
	ID       int      `json:"id"`
	Kind     string   `json:"kind"` // reader
	Module   string   `json:"module"`
	Input    string   `json:"input"`  // path of the input file (copy in scratch)
	Stream   string   `json:"stream"` // path where the first full read was saved
	Len      int      `json:"len"`
	Sha      string   `json:"sha"`     // first full read
	Again    []string `json:"again"`   // sha256 of later full reads (no partial read in between)
	Partial  []int    `json:"partial"` // abandoned read lengths
	AfterSha []string `json:"after"`   // sha256 of the full read following each abandoned read
	Err      string   `json:"err,omitempty"`
	// MSI only: digest of the tar stream versus digest computed from the file
	TarDigest  string `json:"tar_digest,omitempty"`
	FileDigest string `json:"file_digest,omitempty"`
	Races      int    `json:"races"` // abandoned-at-chunk-boundary repetitions
	RaceBad    int    `json:"race_bad"`
	RaceDetail string `json:"race_detail,omitempty"`
}

func readAllTimeout(r io.Reader, d time.Duration) ([]byte, error) {
	type res struct {
		b   []byte
		err error
	}
	ch := make(chan res, 1)
	go func() {
		b, err := io.ReadAll(r)
		ch <- res{b, err}
	}()
	select {
	case x := <-ch:
		return x.b, x.err
	case <-time.After(d):
		return nil, errors.New("timeout reading transformed stream")
	}
}

func shaHex(b []byte) string { d := sha256.Sum256(b); return hex.EncodeToString(d[:]) }

func storedZip(seed uint64, size int) []byte {
	var buf bytes.Buffer
	zw := zip.NewWriter(&buf)
	w, _ := zw.CreateHeader(&zip.FileHeader{Name: "META-INF/MANIFEST.MF", Method: zip.Deflate})
	w.Write([]byte("Manifest-Version: 1.0\r\n\r\n"))
	w, _ = zw.CreateHeader(&zip.FileHeader{Name: "data/blob.bin", Method: zip.Store})
	w.Write(genData(seed, size))
	zw.Close()
	return buf.Bytes()
}

func init() {
	core.Register("c09reader", func(c *core.Ctx) error {
		if c.Scratch == "" {
			return errors.New("c09reader needs -scratch")
		}
		os.MkdirAll(c.Scratch, 0o755)
		r := &core.Rng{S: c.Seed ^ 0x4ead}
		const pk = "/repo/functest/packages/"
		type in struct {
			module, path string
			data         []byte
		}
		big := genData(r.Next(), 200000)
		inputs := []in{
			{"pe-coff", pk + "ClassLibrary1.dll", nil},
			{"pe-coff", "synthetic-200k.bin", big},
			{"pgp", pk + "Release", nil},
			{"jar", pk + "hello.jar", nil},
			{"jar", "synthetic-300k.jar", storedZip(r.Next(), 300000)},
			{"apk", pk + "dummy.apk", nil},
			{"appx", pk + "App1_1.0.3.0_x64.appx", nil},
			{"vsix", pk + "VSIXProject1.vsix", nil},
			{"xap", pk + "dummy.xap", nil},
			{"msi", pk + "dummy.msi", nil},
			{"mach-o", pk + "slimfile.app/dummyapp", nil},
			{"mach-o", "synthetic-200k.macho", big},
			{"dmg", pk + "dummy.dmg", nil},
			{"dmg", "synthetic-200k.dmg", big},
		}
		races := 60
		if c.Tier == "thorough" {
			races = 1500
		}
		for id, inp := range inputs {
			rc := &readerCase{ID: id, Kind: "reader", Module: inp.module}
			data := inp.data
			if data == nil {
				var err error
				data, err = os.ReadFile(inp.path)
				if err != nil {
					continue
				}
			}
			rc.Input = filepath.Join(c.Scratch, fmt.Sprintf("in%02d_%s", id, filepath.Base(inp.path)))
			os.WriteFile(rc.Input, data, 0o644)
			func() {
				mod := signers.ByName(inp.module)
				if mod == nil {
					rc.Err = "no such module"
					return
				}
				flags, _ := mod.FlagsFromQuery(nil)
				f, err := os.Open(rc.Input)
				if err != nil {
					rc.Err = err.Error()
					return
				}
				defer f.Close()
				tr, err := mod.GetTransform(f, signers.SignOpts{Path: rc.Input, Hash: crypto.SHA256, Flags: flags})
				if err != nil {
					rc.Err = "GetTransform: " + err.Error()
					return
				}
				full := func() ([]byte, error) {
					rd, err := tr.GetReader()
					if err != nil {
						return nil, err
					}
					return readAllTimeout(rd, 20*time.Second)
				}
				first, err := full()
				if err != nil {
					rc.Err = "first read: " + err.Error()
					return
				}
				rc.Len, rc.Sha = len(first), shaHex(first)
				rc.Stream = filepath.Join(c.Scratch, fmt.Sprintf("stream%02d.bin", id))
				os.WriteFile(rc.Stream, first, 0o644)
				for k := 0; k < 2; k++ {
					b, err := full()
					if err != nil {
						rc.Err = "repeated read: " + err.Error()
						return
					}
					rc.Again = append(rc.Again, shaHex(b))
				}
				// abandoned partial reads, then a full read
				parts := []int{0, 1, 511, 512, 513, 1024, 32768, 32768 + 512, 65536 + 512, len(first) / 2, len(first) - 1, len(first)}
				for _, k := range parts {
					if k > len(first) || k < 0 {
						continue
					}
					rd, err := tr.GetReader()
					if err != nil {
						rc.Err = "GetReader: " + err.Error()
						return
					}
					got := make([]byte, k)
					if _, err := io.ReadFull(rd, got); err != nil {
						rc.Err = fmt.Sprintf("partial read of %d: %v", k, err)
						return
					}
					if !bytes.Equal(got, first[:k]) {
						rc.Err = fmt.Sprintf("partial read of %d differs from the first read", k)
						return
					}
					time.Sleep(2 * time.Millisecond) // let a producer goroutine settle, as a failed request does before the retry
					b, err := full()
					if err != nil {
						rc.Err = "read after abandoned read: " + err.Error()
						return
					}
					rc.Partial = append(rc.Partial, k)
					rc.AfterSha = append(rc.AfterSha, shaHex(b))
				}
				// schedule exploration: abandon exactly at the end of a producer chunk and call GetReader again immediately.
				// quick tier: many repetitions on the stored jar (stops at the first corrupted re-read), a few elsewhere
				if len(first) > 70000 {
					reps, stopAtFirst := races, false
					if c.Tier != "thorough" && inp.module == "jar" {
						reps, stopAtFirst = 3000, true
					}
					for i := 0; i < reps; i++ {
						k := []int{32768, 32768 + 512, 65536, 65536 + 512, 33280 + 512, 512 + 1024}[i%6]
						rd, err := tr.GetReader()
						if err != nil {
							break
						}
						got := make([]byte, k)
						if _, err := io.ReadFull(rd, got); err != nil {
							break
						}
						if i%2 == 1 {
							runtime.Gosched()
						}
						b, err := full()
						rc.Races++
						if err != nil || !bytes.Equal(b, first) {
							rc.RaceBad++
							if rc.RaceDetail == "" {
								rc.RaceDetail = fmt.Sprintf("GetReader; read exactly %d bytes; abandon; GetReader; ReadAll -> err=%v len=%d (expected %d) sha256=%s", k, err, len(b), len(first), shaHex(b))
							}
							if stopAtFirst {
								break
							}
							time.Sleep(3 * time.Millisecond)
						}
					}
				}
				if inp.module == "msi" {
					rd, _ := tr.GetReader()
					td, err := authenticode.DigestMsiTar(rd, crypto.SHA256, true)
					if err == nil {
						rc.TarDigest = hex.EncodeToString(td)
					} else {
						rc.TarDigest = "error: " + err.Error()
					}
					f2, _ := os.Open(rc.Input)
					defer f2.Close()
					if cdf, err := comdoc.ReadFile(f2); err == nil {
						fd, _, err := authenticode.DigestMSI(cdf, crypto.SHA256, true)
						if err == nil {
							rc.FileDigest = hex.EncodeToString(fd)
						} else {
							rc.FileDigest = "error: " + err.Error()
						}
					}
				}
			}()
			c.Emit(rc)
		}
		return nil
	})
}
