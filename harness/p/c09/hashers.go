// Package c09: correspondence driver for property C09 (upload stream, chunking and transport never change what
// gets signed).  hashers.go drives the block-buffered digesters of relic under scripted Write/Read splits.
package c09

import (
	"archive/zip"
	"bytes"
	"crypto"
	"crypto/sha256"
	"debug/pe"
	"encoding/binary"
	"encoding/hex"
	"errors"
	"fmt"
	"io"
	"os"
	"path/filepath"

	"github.com/sassoftware/relic/v8/lib/authenticode"
	"github.com/sassoftware/relic/v8/lib/fruit/csblob"
	"github.com/sassoftware/relic/v8/lib/signappx"
	"github.com/sassoftware/relic/v8/lib/zipslicer"
	"github.com/sassoftware/relic/v8/signers/apk"
	"github.com/sassoftware/relic/v8/verifharness/core"
)

const mB = 1 << 20

// genData: block i = sha256(le64(seed) ‖ le64(i)); the orchestrator regenerates the same bytes.
func genData(seed uint64, size int) []byte {
	out := make([]byte, 0, size+32)
	var b [16]byte
	binary.LittleEndian.PutUint64(b[:8], seed)
	for i := uint64(0); len(out) < size; i++ {
		binary.LittleEndian.PutUint64(b[8:], i)
		d := sha256.Sum256(b[:])
		out = append(out, d[:]...)
	}
	return out[:size]
}

// scriptReader delivers at most script[k] (at least 1) bytes on the k-th Read; afterwards it fills the buffer.
type scriptReader struct {
	data   []byte
	pos    int
	script []int
	k      int
	reads  int
}

func (r *scriptReader) Read(p []byte) (int, error) {
	if r.pos >= len(r.data) {
		return 0, io.EOF
	}
	if len(p) == 0 {
		return 0, nil
	}
	n := len(p)
	if r.k < len(r.script) {
		s := r.script[r.k]
		if s < 1 {
			s = 1
		}
		if s < n {
			n = s
		}
		r.k++
	}
	if n > len(r.data)-r.pos {
		n = len(r.data) - r.pos
	}
	copy(p, r.data[r.pos:r.pos+n])
	r.pos += n
	r.reads++
	return n, nil
}

// cut: the k-th write gets the next sizes[k] bytes (fewer if the data runs out, possibly none); what remains goes into one
// last write.  Same definition as C09.Run.cut.
func cut(sizes []int, d []byte) [][]byte {
	var out [][]byte
	for _, s := range sizes {
		if s > len(d) {
			s = len(d)
		}
		out = append(out, d[:s])
		d = d[s:]
	}
	if len(d) > 0 {
		out = append(out, d)
	}
	return out
}

// fit drops the script entries that would produce empty writes after the data is exhausted
func fit(sizes []int, S int) []int {
	var out []int
	for _, s := range sizes {
		if S <= 0 {
			break
		}
		out = append(out, s)
		S -= s
	}
	return out
}

func rep(v, n int) []int {
	out := make([]int, n)
	for i := range out {
		out[i] = v
	}
	return out
}

func errStr(err error) string {
	if err == nil {
		return ""
	}
	return err.Error()
}

type script struct {
	Sizes []int  `json:"sizes"`
	Model bool   `json:"model"` // small enough for the executable model
	Name  string `json:"name"`
}

type merkleObs struct {
	Digest string `json:"digest"`
	Count  uint32 `json:"count"`
	Blocks string `json:"blocks"` // concatenated block digests after Finish
	Err    string `json:"err,omitempty"`
	Panic  string `json:"panic,omitempty"`
}

type hashCase struct {
	ID      int               `json:"id"`
	Kind    string            `json:"kind"`
	Seed    uint64            `json:"seed"`
	Size    int               `json:"size"`
	File    string            `json:"file,omitempty"` // structured input written to scratch
	Params  map[string]int64  `json:"params,omitempty"`
	Extra   map[string]string `json:"extra,omitempty"`
	Scripts []script          `json:"scripts"`
	Obs     []interface{}     `json:"obs"`
}

// boundary scripts for a block size B over data of length S
func boundaryScripts(r *core.Rng, B, S int, maxModelWrites int) []script {
	var out []script
	add := func(name string, sizes []int) {
		n := 0
		rem := S
		for _, s := range sizes {
			if rem <= 0 {
				break
			}
			n++
			rem -= s
		}
		out = append(out, script{Sizes: sizes, Model: maxModelWrites > 0 && n <= maxModelWrites, Name: name})
	}
	add("single", nil)
	add("B-1", []int{B - 1})
	add("B-1,1", []int{B - 1, 1})
	add("B-1,2", []int{B - 1, 2})
	add("1,B-1", []int{1, B - 1})
	add("1,B", []int{1, B})
	add("B,1", []int{B, 1})
	add("B+1", []int{B + 1})
	add("B-1,B", []int{B - 1, B})
	add("B-1,B+1", []int{B - 1, B + 1})
	add("2B-1,1", []int{2*B - 1, 1})
	add("2B-1,2", []int{2*B - 1, 2})
	add("1,2B-1", []int{1, 2*B - 1})
	add("2B+1", []int{2*B + 1})
	add("zero-writes", []int{0, B - 1, 0, 1, 0, B, 0})
	add("halves", rep(B/2, 8))
	add("B/2+1", rep(B/2+1, 8))
	p1, p2 := 65537, 104729
	if B < 100000 {
		p1, p2 = 251, 4099
	}
	add("prime1", rep(p1, S/p1+1))
	add("prime2", rep(p2, S/p2+1))
	for k := 0; k < 3; k++ {
		var sz []int
		for i := 0; i < 10; i++ {
			sz = append(sz, 1+r.Intn(3*B/2))
		}
		add(fmt.Sprintf("random%d", k), sz)
	}
	return out
}

func tinyZip(members int) []byte {
	var buf bytes.Buffer
	zw := zip.NewWriter(&buf)
	for i := 0; i < members; i++ {
		w, _ := zw.CreateHeader(&zip.FileHeader{Name: fmt.Sprintf("m%03d.txt", i), Method: zip.Store})
		w.Write([]byte("x"))
	}
	zw.Close()
	return buf.Bytes()
}

func merkleRun(data []byte, sizes []int, inz *zipslicer.Directory) (o merkleObs) {
	defer func() {
		if p := recover(); p != nil {
			o.Panic = fmt.Sprint(p)
		}
	}()
	h := apk.VerifNewMerkleHasher([]crypto.Hash{crypto.SHA256})
	for _, w := range cut(sizes, data) {
		n, err := h.Write(w)
		if err != nil || n != len(w) {
			o.Err = fmt.Sprintf("write returned %d, %v", n, err)
			return
		}
	}
	ds, err := h.Finish(inz, true)
	if err != nil {
		o.Err = err.Error()
		return
	}
	count, blocks, _ := h.State()
	o.Digest = hex.EncodeToString(ds[0])
	o.Count = count
	o.Blocks = hex.EncodeToString(blocks[0])
	return
}

// ------------------------------------------------------------------ synthetic PE images (harness-owned writer)
type peSpec struct {
	Plus      bool
	Machine   uint16
	PeStart   int
	FileAlign int
	Sections  []int // raw sizes; every one but the last is rounded up to FileAlign
	Trailer   int
	HdrSlack  int // extra FileAlign units of header padding
}

func alignUp(n, a int) int { return (n + a - 1) / a * a }

func buildPE(sp peSpec, seed uint64) []byte {
	optSize := 224
	if sp.Plus {
		optSize = 240
	}
	nsec := len(sp.Sections)
	hdrEnd := sp.PeStart + 24 + optSize + 40*nsec
	sizeOfHeaders := alignUp(hdrEnd, sp.FileAlign) + sp.HdrSlack*sp.FileAlign
	fill := genData(seed, sizeOfHeaders+16)
	var b bytes.Buffer
	dos := make([]byte, sp.PeStart)
	copy(dos, fill[:sp.PeStart])
	dos[0], dos[1] = 'M', 'Z'
	binary.LittleEndian.PutUint32(dos[0x3c:], uint32(sp.PeStart))
	b.Write(dos)
	b.Write([]byte{'P', 'E', 0, 0})
	fh := pe.FileHeader{Machine: sp.Machine, NumberOfSections: uint16(nsec), TimeDateStamp: 0x5f000000, SizeOfOptionalHeader: uint16(optSize), Characteristics: 0x2022}
	binary.Write(&b, binary.LittleEndian, fh)
	if sp.Plus {
		oh := pe.OptionalHeader64{Magic: 0x20b, MajorLinkerVersion: 14, SizeOfCode: 0x1000, AddressOfEntryPoint: 0x1000, ImageBase: 0x140000000,
			SectionAlignment: 0x2000, FileAlignment: uint32(sp.FileAlign), MajorSubsystemVersion: 6, SizeOfImage: 0x100000,
			SizeOfHeaders: uint32(sizeOfHeaders), CheckSum: 0xdeadbeef, Subsystem: 3, NumberOfRvaAndSizes: 16}
		oh.DataDirectory[1] = pe.DataDirectory{VirtualAddress: 0x3000, Size: 0x50}
		binary.Write(&b, binary.LittleEndian, oh)
	} else {
		oh := pe.OptionalHeader32{Magic: 0x10b, MajorLinkerVersion: 14, SizeOfCode: 0x1000, AddressOfEntryPoint: 0x1000, ImageBase: 0x400000,
			SectionAlignment: 0x2000, FileAlignment: uint32(sp.FileAlign), MajorSubsystemVersion: 6, SizeOfImage: 0x100000,
			SizeOfHeaders: uint32(sizeOfHeaders), CheckSum: 0xdeadbeef, Subsystem: 3, NumberOfRvaAndSizes: 16}
		oh.DataDirectory[1] = pe.DataDirectory{VirtualAddress: 0x3000, Size: 0x50}
		binary.Write(&b, binary.LittleEndian, oh)
	}
	ptr := sizeOfHeaders
	raws := make([]int, nsec)
	for i, s := range sp.Sections {
		raw := s
		if i < nsec-1 {
			raw = alignUp(s, sp.FileAlign)
		}
		raws[i] = raw
		sh := pe.SectionHeader32{VirtualSize: uint32(s), VirtualAddress: uint32(0x2000 * (i + 1)), SizeOfRawData: uint32(raw), PointerToRawData: uint32(ptr), Characteristics: 0x60000020}
		copy(sh.Name[:], fmt.Sprintf(".s%d", i))
		if raw == 0 {
			sh.PointerToRawData = 0
		}
		binary.Write(&b, binary.LittleEndian, sh)
		ptr += raw
	}
	for b.Len() < sizeOfHeaders {
		b.WriteByte(fill[b.Len()])
	}
	for i, raw := range raws {
		b.Write(genData(seed+uint64(i)+1, raw))
	}
	b.Write(genData(seed+99, sp.Trailer))
	return b.Bytes()
}

type peObs struct {
	Imprint    string `json:"imprint"`
	PageHashes string `json:"page_hashes"`
	OrigSize   int64  `json:"orig_size"`
	CertStart  int64  `json:"cert_start"`
	Err        string `json:"err,omitempty"`
	Panic      string `json:"panic,omitempty"`
}

func peRun(img []byte, sizes []int) (o peObs) {
	defer func() {
		if p := recover(); p != nil {
			o.Panic = fmt.Sprint(p)
		}
	}()
	d, err := authenticode.DigestPE(&scriptReader{data: img, script: sizes}, crypto.SHA256, true)
	if err != nil {
		o.Err = err.Error()
		return
	}
	o.Imprint = hex.EncodeToString(d.Imprint)
	o.PageHashes = hex.EncodeToString(d.PageHashes)
	o.OrigSize, o.CertStart = d.OrigSize, d.CertStart
	return
}

type ckObs struct {
	Sum string `json:"sum"`
	Err string `json:"err,omitempty"`
}

func ckRun(peStart int, data []byte, sizes []int) (o ckObs) {
	h := authenticode.NewPEChecksum(peStart)
	for _, w := range cut(sizes, data) {
		if _, err := h.Write(w); err != nil {
			o.Err = err.Error()
			return
		}
	}
	o.Sum = hex.EncodeToString(h.Sum(nil))
	return
}

type bmMember struct {
	Name   string   `json:"name"`
	Size   uint64   `json:"size"`
	Hashes []string `json:"hashes"`
	Listed bool     `json:"listed"`
}
type bmObs struct {
	Members []bmMember `json:"members"`
	Err     string     `json:"err,omitempty"`
	Panic   string     `json:"panic,omitempty"`
}

func bmRun(tarbytes []byte, sizes []int) (o bmObs) {
	defer func() {
		if p := recover(); p != nil {
			o.Panic = fmt.Sprint(p)
		}
	}()
	inz, err := zipslicer.ReadZipTar(&scriptReader{data: tarbytes, script: sizes})
	if err != nil {
		o.Err = err.Error()
		return
	}
	for _, f := range inz.File {
		size, hashes, listed, err := signappx.VerifBlockMapAddFile(f, crypto.SHA256, nil, nil)
		if err != nil {
			o.Err = f.Name + ": " + err.Error()
			return
		}
		o.Members = append(o.Members, bmMember{f.Name, size, hashes, listed})
	}
	return
}

type apkObs struct {
	Digest string `json:"digest"`
	SigLoc int64  `json:"sig_loc"`
	Err    string `json:"err,omitempty"`
	Panic  string `json:"panic,omitempty"`
}

func apkRun(tarbytes []byte, sizes []int) (o apkObs) {
	defer func() {
		if p := recover(); p != nil {
			o.Panic = fmt.Sprint(p)
		}
	}()
	d, loc, err := apk.VerifDigestApkStream(&scriptReader{data: tarbytes, script: sizes}, crypto.SHA256)
	if err != nil {
		o.Err = err.Error()
		return
	}
	o.Digest, o.SigLoc = hex.EncodeToString(d), loc
	return
}

type hpObs struct {
	Slots string `json:"slots"`
	Count uint32 `json:"count"`
	Limit int64  `json:"limit"`
	Err   string `json:"err,omitempty"`
}

// zipWithEntriesLen builds a zip whose local-entry region (everything before the central directory) has exactly `target`
// bytes when target > 0: members of incompressible data, the last stored member absorbs the difference.
func zipWithEntriesLen(seed uint64, target int, deflateFirst bool) []byte {
	build := func(last int) []byte {
		var buf bytes.Buffer
		zw := zip.NewWriter(&buf)
		m := zip.Store
		if deflateFirst {
			m = zip.Deflate
		}
		w, _ := zw.CreateHeader(&zip.FileHeader{Name: "classes.dex", Method: uint16(m)})
		first := 300000
		if target > 0 && target < 400000 {
			first = target / 4
		}
		w.Write(bytes.Repeat(genData(seed, 1000), first/1000))
		w, _ = zw.CreateHeader(&zip.FileHeader{Name: "res/raw/blob.bin", Method: zip.Store})
		w.Write(genData(seed+1, last))
		zw.Close()
		return buf.Bytes()
	}
	z := build(0)
	if target <= 0 {
		return z
	}
	cd := int(binary.LittleEndian.Uint32(z[len(z)-22+16:]))
	if target < cd {
		return z
	}
	return build(target - cd)
}

func realZipToTar(scratch string, name string, zipbytes []byte) ([]byte, string, error) {
	path := filepath.Join(scratch, name)
	if err := os.WriteFile(path, zipbytes, 0o644); err != nil {
		return nil, "", err
	}
	f, err := os.Open(path)
	if err != nil {
		return nil, "", err
	}
	defer f.Close()
	var tb bytes.Buffer
	if err := zipslicer.ZipToTar(f, &tb); err != nil {
		return nil, "", err
	}
	return tb.Bytes(), path, nil
}

func init() {
	core.Register("c09hash", func(c *core.Ctx) error {
		if c.Scratch == "" {
			return errors.New("c09hash needs -scratch")
		}
		os.MkdirAll(c.Scratch, 0o755)
		r := &core.Rng{S: c.Seed ^ 0xc09}
		thorough := c.Tier == "thorough"
		id := 0
		emit := func(hc *hashCase) {
			hc.ID = id
			id++
			c.Emit(hc)
		}
		// ---------------------------------------------------------------- A. merkle hasher, exact write splits
		tz := tinyZip(1)
		inz, err := zipslicer.Read(bytes.NewReader(tz), int64(len(tz)))
		if err != nil {
			return err
		}
		var cdir, eocd bytes.Buffer
		if err := inz.WriteDirectory(&cdir, &eocd, false); err != nil {
			return err
		}
		sizes := []int{0, 1, mB - 1, mB, mB + 1, 2*mB - 1, 2 * mB, 2*mB + 1, 3*mB + 1}
		if thorough {
			sizes = append(sizes, 5*mB+7, 16*mB, 64*mB+1)
		}
		for _, S := range sizes {
			seed := r.Next()
			data := genData(seed, S)
			maxw := 12
			if S > 4*mB {
				maxw = 0
			}
			hc := &hashCase{Kind: "merkle", Seed: seed, Size: S, Extra: map[string]string{"cdir": hex.EncodeToString(cdir.Bytes()), "eocd": hex.EncodeToString(eocd.Bytes())},
				Scripts: boundaryScripts(r, mB, S, maxw)}
			if S == mB+1 || (thorough && S == 3*mB+1) {
				hc.Scripts = append(hc.Scripts, script{Sizes: rep(1, S), Name: "all-ones"})
			}
			if S >= mB && S <= 2*mB+1 {
				hc.Scripts = append(hc.Scripts, script{Sizes: rep(4099, S/4099+1), Name: "prime-small"})
			}
			for _, sc := range hc.Scripts {
				hc.Obs = append(hc.Obs, merkleRun(data, sc.Sizes, inz))
			}
			for i := range hc.Scripts { // do not ship a million ones
				if len(hc.Scripts[i].Sizes) > 2000 {
					hc.Scripts[i].Sizes = []int{-1, hc.Scripts[i].Sizes[0], len(hc.Scripts[i].Sizes)}
				}
			}
			emit(hc)
		}
		// a larger central directory (many members) for the section boundaries of Finish
		{
			tz2 := tinyZip(400)
			inz2, err := zipslicer.Read(bytes.NewReader(tz2), int64(len(tz2)))
			if err != nil {
				return err
			}
			var cd2, eo2 bytes.Buffer
			inz2.WriteDirectory(&cd2, &eo2, false)
			for _, S := range []int{mB - 7, mB + 3} {
				seed := r.Next()
				data := genData(seed, S)
				hc := &hashCase{Kind: "merkle", Seed: seed, Size: S, Extra: map[string]string{"cdir": hex.EncodeToString(cd2.Bytes()), "eocd": hex.EncodeToString(eo2.Bytes())},
					Scripts: boundaryScripts(r, mB, S, 12)[:8]}
				for _, sc := range hc.Scripts {
					hc.Obs = append(hc.Obs, merkleRun(data, sc.Sizes, inz2))
				}
				emit(hc)
			}
		}
		// ---------------------------------------------------------------- B. APK digest over the tar stream, scripted reads
		targets := []int{0, mB - 1, mB, mB + 1, 2*mB + 1}
		if thorough {
			targets = append(targets, 2*mB-1, 2*mB, 3*mB, 5*mB+3)
		}
		for ti, target := range targets {
			seed := r.Next()
			zb := zipWithEntriesLen(seed, target, ti%2 == 1)
			tb, path, err := realZipToTar(c.Scratch, fmt.Sprintf("apk%d.zip", ti), zb)
			if err != nil {
				return err
			}
			hc := &hashCase{Kind: "apkstream", Seed: seed, Size: len(zb), File: path, Params: map[string]int64{"target": int64(target), "tar_len": int64(len(tb))},
				Extra: map[string]string{"tar_sha256": fmt.Sprintf("%x", sha256.Sum256(tb))}}
			hc.Scripts = []script{{Name: "whole"}, {Name: "ones-then-whole", Sizes: rep(1, 3000)}, {Name: "511", Sizes: rep(511, len(tb)/511+1)},
				{Name: "513", Sizes: rep(513, len(tb)/513+1)}, {Name: "32K+1", Sizes: rep(32769, len(tb)/32769+1)}, {Name: "1MiB-1", Sizes: rep(mB-1, 10)},
				{Name: "1MiB+1", Sizes: rep(mB+1, 10)}, {Name: "prime", Sizes: rep(104729, len(tb)/104729+1)}}
			for k := 0; k < 3; k++ {
				var sz []int
				for i := 0; i < 400; i++ {
					sz = append(sz, 1+r.Intn(70000))
				}
				hc.Scripts = append(hc.Scripts, script{Name: fmt.Sprintf("random%d", k), Sizes: sz})
			}
			for _, sc := range hc.Scripts {
				hc.Obs = append(hc.Obs, apkRun(tb, sc.Sizes))
			}
			for i := range hc.Scripts {
				if len(hc.Scripts[i].Sizes) > 2000 {
					hc.Scripts[i].Sizes = []int{-1, hc.Scripts[i].Sizes[0], len(hc.Scripts[i].Sizes)}
				}
			}
			emit(hc)
		}
		// ---------------------------------------------------------------- C. AppX block map
		{
			const bB = 64 * 1024
			msizes := []int{0, 1, bB - 1, bB, bB + 1, 2*bB - 1, 2 * bB, 2*bB + 1, 200000}
			for variant := 0; variant < 2; variant++ {
				seed := r.Next()
				var buf bytes.Buffer
				zw := zip.NewWriter(&buf)
				for i, ms := range msizes {
					m := zip.Store
					if (i+variant)%2 == 1 {
						m = zip.Deflate
					}
					w, _ := zw.CreateHeader(&zip.FileHeader{Name: fmt.Sprintf("Assets/f%02d_%d.dat", i, ms), Method: uint16(m)})
					d := genData(seed+uint64(i), ms)
					if m == zip.Deflate { // compressible: long runs between random islands
						for j := range d {
							if (j/1000)%2 == 0 {
								d[j] = byte(j / 1000)
							}
						}
					}
					w.Write(d)
				}
				zw.Close()
				tb, path, err := realZipToTar(c.Scratch, fmt.Sprintf("appx%d.zip", variant), buf.Bytes())
				if err != nil {
					return err
				}
				hc := &hashCase{Kind: "blockmap", Seed: seed, Size: buf.Len(), File: path, Params: map[string]int64{"variant": int64(variant)}}
				hc.Scripts = []script{{Name: "whole"}, {Name: "ones", Sizes: rep(1, 5000)}, {Name: "64K-1", Sizes: rep(bB-1, 40)}, {Name: "64K+1", Sizes: rep(bB+1, 40)},
					{Name: "32K", Sizes: rep(32768, 60)}, {Name: "prime", Sizes: rep(4099, len(tb)/4099+1)}, {Name: "prime2", Sizes: rep(65537, 30)}}
				for k := 0; k < 3; k++ {
					var sz []int
					for i := 0; i < 300; i++ {
						sz = append(sz, 1+r.Intn(100000))
					}
					hc.Scripts = append(hc.Scripts, script{Name: fmt.Sprintf("random%d", k), Sizes: sz})
				}
				for _, sc := range hc.Scripts {
					hc.Obs = append(hc.Obs, bmRun(tb, sc.Sizes))
				}
				emit(hc)
			}
		}
		// ---------------------------------------------------------------- D. Mach-O code pages
		for _, S := range []int{0, 1, 4095, 4096, 4097, 8191, 8192, 8193, 10000, 40000} {
			seed := r.Next()
			data := genData(seed, S)
			hc := &hashCase{Kind: "codepages", Seed: seed, Size: S, Scripts: boundaryScripts(r, 4096, S, 64)}
			for i := range hc.Scripts {
				hc.Scripts[i].Model = true
			}
			hc.Scripts = append(hc.Scripts, script{Name: "all-ones", Sizes: rep(1, S), Model: S <= 10000})
			for _, sc := range hc.Scripts {
				slots, count, limit, err := csblob.VerifHashPages([]crypto.Hash{crypto.SHA256}, &scriptReader{data: data, script: sc.Sizes}, false)
				o := hpObs{Count: count, Limit: limit, Err: errStr(err)}
				if len(slots) > 0 {
					o.Slots = hex.EncodeToString(slots[0])
				}
				hc.Obs = append(hc.Obs, o)
			}
			emit(hc)
		}
		// ---------------------------------------------------------------- E. PE imprint and page hashes
		specs := []peSpec{
			{Machine: 0x14c, PeStart: 0x80, FileAlign: 512, Sections: []int{512}},
			{Machine: 0x14c, PeStart: 0x80, FileAlign: 512, Sections: []int{4096}},
			{Machine: 0x14c, PeStart: 0x80, FileAlign: 512, Sections: []int{4608, 100}, Trailer: 5},
			{Machine: 0x14c, PeStart: 0xf8, FileAlign: 512, Sections: []int{8192, 0, 512, 4097}, Trailer: 0},
			{Plus: true, Machine: 0x8664, PeStart: 0x80, FileAlign: 512, Sections: []int{12288, 4095, 1}, Trailer: 13},
			{Plus: true, Machine: 0x8664, PeStart: 0x100, FileAlign: 4096, Sections: []int{4096, 8192, 700}, Trailer: 0},
			{Plus: true, Machine: 0x200, PeStart: 0x80, FileAlign: 512, Sections: []int{8192, 8704, 16385}, Trailer: 3},
			{Machine: 0x14c, PeStart: 0x80, FileAlign: 512, Sections: nil, Trailer: 40},
			{Machine: 0x14c, PeStart: 0x80, FileAlign: 512, Sections: []int{70000, 33000}, Trailer: 1001},
		}
		for si, sp := range specs {
			seed := r.Next()
			img := buildPE(sp, seed)
			path := filepath.Join(c.Scratch, fmt.Sprintf("pe%d.bin", si))
			os.WriteFile(path, img, 0o644)
			hc := &hashCase{Kind: "pedigest", Seed: seed, Size: len(img), File: path, Params: map[string]int64{"spec": int64(si)}}
			hc.Scripts = []script{{Name: "whole"}, {Name: "ones", Sizes: rep(1, len(img))}, {Name: "511", Sizes: rep(511, len(img)/511+1)}, {Name: "513", Sizes: rep(513, len(img)/513+1)},
				{Name: "4095", Sizes: rep(4095, len(img)/4095+1)}, {Name: "4097", Sizes: rep(4097, len(img)/4097+1)}, {Name: "prime", Sizes: rep(251, len(img)/251+1)}}
			for k := 0; k < 3; k++ {
				var sz []int
				for i := 0; i < 200; i++ {
					sz = append(sz, 1+r.Intn(9000))
				}
				hc.Scripts = append(hc.Scripts, script{Name: fmt.Sprintf("random%d", k), Sizes: sz})
			}
			for _, sc := range hc.Scripts {
				hc.Obs = append(hc.Obs, peRun(img, sc.Sizes))
			}
			emit(hc)
		}
		for _, name := range []string{"ClassLibrary1.dll", "WindowsFormsApplication1.exe"} {
			path := filepath.Join("/repo/functest/packages", name)
			img, err := os.ReadFile(path)
			if err != nil {
				continue
			}
			hc := &hashCase{Kind: "pedigest", Size: len(img), File: path, Params: map[string]int64{"spec": -1}}
			hc.Scripts = []script{{Name: "whole"}, {Name: "ones", Sizes: rep(1, len(img))}, {Name: "513", Sizes: rep(513, 30)}, {Name: "prime", Sizes: rep(251, 60)}}
			for _, sc := range hc.Scripts {
				hc.Obs = append(hc.Obs, peRun(img, sc.Sizes))
			}
			emit(hc)
		}
		// ---------------------------------------------------------------- F. PE checksum
		type ckSpec struct{ peStart, size int }
		for _, ks := range []ckSpec{{0x80, 4608}, {0x80, 4607}, {0xf8, 70001}, {0x80, 2}, {0x80, 300}, {32680, 40000}, {32678, 40001}, {0, 1000}, {600, 1000}, {129, 1000}} {
			seed := r.Next()
			data := genData(seed, ks.size)
			P := ks.peStart + 88
			hc := &hashCase{Kind: "pechecksum", Seed: seed, Size: ks.size, Params: map[string]int64{"pe_start": int64(ks.peStart)}}
			hc.Scripts = []script{{Name: "whole", Model: true}, {Name: "32K", Sizes: rep(32768, 4), Model: true}, {Name: "twos", Sizes: rep(2, ks.size/2), Model: ks.size <= 5000},
				{Name: "512", Sizes: rep(512, ks.size/512+1), Model: true}, {Name: "even-random", Model: true}, {Name: "odd-mid", Sizes: []int{101, 100}, Model: true},
				{Name: "split-before-field", Sizes: []int{P - 2}, Model: true}, {Name: "split-at-field", Sizes: []int{P}, Model: true},
				{Name: "split-mid-field", Sizes: []int{P + 2}, Model: true}, {Name: "split-after-field", Sizes: []int{P + 4}, Model: true}}
			for i := 0; i < 12; i++ {
				hc.Scripts[4].Sizes = append(hc.Scripts[4].Sizes, 2*(1+r.Intn(3000)))
			}
			for i := range hc.Scripts { // io.Copy never issues empty writes: keep the scripts inside the data
				hc.Scripts[i].Sizes = fit(hc.Scripts[i].Sizes, ks.size)
			}
			for _, sc := range hc.Scripts {
				hc.Obs = append(hc.Obs, ckRun(ks.peStart, data, sc.Sizes))
			}
			// the production entry point on a file: io.Copy decides the split
			if ks.size >= 300 && ks.peStart > 0 {
				img := append([]byte{}, data...)
				img[0], img[1] = 'M', 'Z'
				binary.LittleEndian.PutUint32(img[0x3c:], uint32(ks.peStart))
				path := filepath.Join(c.Scratch, fmt.Sprintf("ck%d.bin", id))
				os.WriteFile(path, img, 0o644)
				hc.Extra = map[string]string{}
				before := append([]byte{}, img...)
				f, _ := os.OpenFile(path, os.O_RDWR, 0)
				err := authenticode.FixPEChecksum(f)
				f.Close()
				after, _ := os.ReadFile(path)
				hc.Extra["fix_err"] = errStr(err)
				if len(after) == len(before) {
					hc.Extra["fix_field"] = hex.EncodeToString(after[P : P+4])
					copy(before[P:P+4], after[P:P+4])
					hc.Extra["fix_only_field_changed"] = fmt.Sprint(bytes.Equal(before, after))
				}
				hc.Extra["fix_file_patched"] = "1" // the orchestrator recomputes over data with MZ/e_lfanew patched in
			}
			emit(hc)
		}
		return nil
	})
}
