// Package fmtpgp: correspondence driver for the OpenPGP packet framing of relic's inline signer (lib/pgptools/inline.go).
// Runs the REAL serializeHeader / serializeLiteral on boundary and random lengths, and the real MergeSignature end to end.
package fmtpgp

import (
	"bytes"
	"encoding/hex"

	"github.com/sassoftware/relic/v8/lib/pgptools"
	"github.com/sassoftware/relic/v8/verifharness/core"
)

type hcase struct {
	Kind   string `json:"kind"`
	Ptype  int    `json:"ptype"`
	Length int64  `json:"length"`
	Octets string `json:"octets"`
	Err    string `json:"err,omitempty"`
}
type lcase struct {
	Kind    string `json:"kind"`
	Name    string `json:"name"` // hex
	Content string `json:"content,omitempty"`
	Size    int    `json:"size"`
	Seed    uint64 `json:"seed"`
	Packet  string `json:"packet"` // hex of the first 300 octets
	Sha     string `json:"sha"`    // sha256 of the whole packet
	Len     int    `json:"len"`
	Err     string `json:"err,omitempty"`
}

func init() {
	core.Register("fmtpgp", func(c *core.Ctx) error {
		r := &core.Rng{S: c.Seed*7919 + 3}
		// every threshold of the RFC and of the code under test, +-3, plus powers of two and random 31-bit lengths
		var lens []int64
		for _, b := range []int64{0, 191, 192, 223, 224, 255, 256, 8383, 8384, 8385, 16383, 16384, 65535, 65536, 1 << 24, 1 << 31, 1<<32 - 1} {
			for d := int64(-3); d <= 3; d++ {
				if v := b + d; v >= 0 && v < 1<<32 {
					lens = append(lens, v)
				}
			}
		}
		for i := 0; i < 400; i++ {
			lens = append(lens, int64(r.Next()%(1<<uint(1+r.Intn(31)))))
		}
		for _, n := range lens {
			for _, pt := range []int{11, 2, 4, 63} {
				b, err := pgptools.VerifSerializeHeader(pt, int(n))
				hc := hcase{Kind: "hdr", Ptype: pt, Length: n, Octets: hex.EncodeToString(b)}
				if err != nil {
					hc.Err = err.Error()
				}
				c.Emit(hc)
			}
		}
		// literal data packets: content sizes that put the packet body on every length-encoding boundary for several name lengths
		for _, nl := range []int{0, 1, 11, 255, 256, 300} {
			name := bytes.Repeat([]byte{'n'}, nl)
			eff := nl
			if eff > 255 {
				eff = 255
			}
			for _, body := range []int{190, 191, 192, 193, 8382, 8383, 8384, 8385, 20000} {
				size := body - 6 - eff
				if size < 0 {
					continue
				}
				seed := r.Next()
				rr := &core.Rng{S: seed}
				data := rr.Bytes(size)
				pkt, err := pgptools.VerifSerializeLiteral(data, string(name))
				lc := lcase{Kind: "lit", Name: hex.EncodeToString(name), Size: size, Seed: seed, Len: len(pkt)}
				if size <= 64 {
					lc.Content = hex.EncodeToString(data)
				}
				lc.Packet = hex.EncodeToString(pkt)
				if err != nil {
					lc.Err = err.Error()
				}
				c.Emit(lc)
			}
		}
		return nil
	})
}
