// Cleartext signatures: drives the REAL pgptools.ClearSign / DetachClearSign / MergeClearSign (exactly the pair of calls
// signers/pgp makes on the signing and on the client side) and the real headClearSign / tailClearSign (verif hooks) on documents
// and raw streams that cover the line-splitting mechanism: every line length around the buffer sizes of the Go readers
// (4096, 8192, 65536), dash lines, "From " lines, trailing blanks, CR LF, lone CR, missing final newline, empty documents.
//
// Documents, streams and outputs are written to the scratch directory (they reach 150 KB); the JSON records carry the paths.
package fmtpgp

import (
	"bytes"
	"crypto"
	"encoding/hex"
	"fmt"
	"os"
	"path/filepath"
	"strconv"
	"strings"
	"time"

	"github.com/ProtonMail/go-crypto/openpgp"
	gpgclearsign "github.com/ProtonMail/go-crypto/openpgp/clearsign"
	"github.com/ProtonMail/go-crypto/openpgp/packet"

	"github.com/sassoftware/relic/v8/lib/certloader"
	"github.com/sassoftware/relic/v8/lib/pgptools"
	"github.com/sassoftware/relic/v8/verifharness/core"
)

const csWallLimit = 5 * time.Second // a call that has not returned by then is recorded as a hang

type csCase struct {
	Kind      string `json:"kind"` // "cs"
	ID        int    `json:"id"`
	Name      string `json:"name"`
	Hash      string `json:"hash"`
	DocPath   string `json:"doc"`
	DocLen    int    `json:"doc_len"`
	Stream    string `json:"stream,omitempty"`     // path: raw output of pgptools.ClearSign with the real key
	StreamErr string `json:"stream_err,omitempty"` //
	Sig       string `json:"sig,omitempty"`        // hex: output of DetachClearSign
	DetachErr string `json:"detach_err,omitempty"`
	DetachMs  int64  `json:"detach_ms"`
	Out       string `json:"out,omitempty"` // path: output of MergeClearSign
	OutLen    int    `json:"out_len"`
	MergeErr  string `json:"merge_err,omitempty"`
	MergeMs   int64  `json:"merge_ms"`
	Hang      string `json:"hang,omitempty"`       // which call did not return
	LibVerify string `json:"lib_verify,omitempty"` // go-crypto clearsign.Decode + VerifySignature on the merged output: "ok" or the error
}

type hookCase struct {
	Kind    string `json:"kind"` // "hook"
	ID      int    `json:"id"`
	Name    string `json:"name"`
	Path    string `json:"stream"`
	Len     int    `json:"len"`
	HeadOut string `json:"head_out"` // path
	HeadErr string `json:"head_err,omitempty"`
	TailOut string `json:"tail_out"` // path
	TailErr string `json:"tail_err,omitempty"`
	Hang    string `json:"hang,omitempty"`
}

func csLoadSigner(keydir string) (*openpgp.Entity, error) {
	blob, err := os.ReadFile(filepath.Join(keydir, "rsa2048.key"))
	if err != nil {
		return nil, err
	}
	key, err := certloader.ParseAnyPrivateKey(blob, nil)
	if err != nil {
		return nil, err
	}
	cert, err := certloader.LoadTokenCertificates(key, "", filepath.Join(keydir, "rsa2048.pgp"), nil)
	if err != nil {
		return nil, err
	}
	if cert.PgpKey == nil {
		return nil, fmt.Errorf("no PGP key in %s", keydir)
	}
	return cert.PgpKey, nil
}

// timed runs f; ok=false if it has not returned within the wall limit (the goroutine is abandoned)
func timed(f func() error) (err error, ms int64, ok bool) {
	ch := make(chan error, 1)
	t0 := time.Now()
	go func() { ch <- f() }()
	select {
	case err = <-ch:
		return err, time.Since(t0).Milliseconds(), true
	case <-time.After(csWallLimit):
		return nil, time.Since(t0).Milliseconds(), false
	}
}

func csLine(n int, seed int) []byte {
	b := make([]byte, n)
	for i := range b {
		b[i] = 'a' + byte((i+seed)%26)
	}
	return b
}

type csDoc struct {
	name string
	doc  []byte
	h512 bool
}

func csDocs(r *core.Rng, thorough bool) []csDoc {
	var ds []csDoc
	add := func(name string, doc string) { ds = append(ds, csDoc{name: name, doc: []byte(doc)}) }
	// ---- ordinary and unusual short documents
	add("empty", "")
	add("lf", "\n")
	add("lf3", "\n\n\n")
	add("crlf-only", "\r\n")
	add("cr-only", "\r")
	add("blank-only", "  \t ")
	add("no-final-eol", "abc")
	add("one-line", "abc\n")
	add("crlf", "one\r\ntwo\r\nthree\r\n")
	add("crlf-no-final-eol", "one\r\ntwo\r\nthree")
	add("lone-cr", "a\rb\nc\r\rd\n")
	add("cr-at-eof", "abc\r")
	add("trailing-ws", "x  \t\ny\t\n  \nz \r\n")
	add("ws-cr-ws", "x \r \nq\r\t\r\n")
	add("leading-ws", "  x\n\t-y\n \r-z\n")
	add("dashes", "-\n--\n- x\n-----\n- - y\n-----BEGIN PGP SIGNATURE-----\n-----BEGIN PGP SIGNED MESSAGE-----\nHash: SHA1\n\n-----END PGP SIGNATURE-----\n")
	add("dash-trailing", "-  \n- \t\n-\r\n")
	add("sig-marker-variants", "-----BEGIN PGP SIGNATURE-----\r\n -----BEGIN PGP SIGNATURE-----\n-----BEGIN PGP SIGNATURE----- \n\r-----BEGIN PGP SIGNATURE-----\n")
	add("from-lines", "From here\nFrom \n>From x\n from\nFrom\n")
	add("high-bytes", "caf\xc3\xa9 \xff\xfe\x00\x01\x7f\n\x00\n\x0b\x0c \n\xa0\n")
	add("ends-with-empty-lines", "a\n\n\n")
	add("starts-with-empty-lines", "\n\na\n")
	add("release-like", "Origin: Ubuntu\nSHA256:\n "+string(csLine(64, 1))+" 1234 main/binary-amd64/Packages\n "+string(csLine(64, 2))+" 99 main/binary-amd64/Release\n")
	// ---- one long line, every buffer boundary of the two Go line readers, in three positions
	sizes := []int{1000, 4000, 4094, 4095, 4096, 4097, 4098, 5000, 8191, 8192, 8193, 12000, 16384, 19000, 20000, 32768, 40000,
		65533, 65534, 65535, 65536, 65537, 70000}
	for _, n := range sizes {
		l := string(csLine(n, n))
		add(fmt.Sprintf("line-%d-middle", n), "header: x\n"+l+"\ntrailer: y\n")
		if n >= 4000 {
			add(fmt.Sprintf("line-%d-last-noeol", n), "header: x\n"+l)
			add(fmt.Sprintf("line-%d-first-crlf", n), l+"\r\ntrailer: y\r\n")
		}
	}
	for _, n := range []int{4093, 4094, 4095, 4096, 65532, 65533, 65534, 65535} {
		// a dash line grows by the two octets of the escape
		add(fmt.Sprintf("dashline-%d", n), "a\n-"+string(csLine(n-1, 3))+"\nb\n")
	}
	for _, n := range []int{4090, 4096, 65530, 65536, 66000} {
		// trailing blanks are not part of the emitted line
		add(fmt.Sprintf("line-%d-plus-blanks", n), string(csLine(n, 5))+strings.Repeat(" \t", 40)+"\nend\n")
	}
	for _, at := range []int{4094, 4095, 4096, 8191} {
		// a lone CR where a 4096-byte reader buffer ends
		l := csLine(9000, 7)
		l[at] = '\r'
		add(fmt.Sprintf("line-9000-cr-at-%d", at), "x\n"+string(l)+"\ny\n")
	}
	add("two-long-lines", string(csLine(5000, 1))+"\n"+string(csLine(9000, 2))+"\n")
	add("long-then-empty", string(csLine(4096, 1))+"\n\n\n")
	add("long-only", string(csLine(4096, 9)))
	add("many-4096", strings.Repeat(string(csLine(4096, 4))+"\n", 5))
	// ---- random documents
	nr := 40
	if thorough {
		nr = 400
	}
	lens := []int{0, 0, 1, 2, 10, 60, 80, 200, 1000, 4095, 4096, 4097, 8192, 10000, 65535, 65536}
	for i := 0; i < nr; i++ {
		var b bytes.Buffer
		nl := 1 + r.Intn(8)
		for j := 0; j < nl; j++ {
			n := lens[r.Intn(len(lens))]
			if n > 5000 && !r.Chance(25) {
				n = r.Intn(300)
			}
			line := csLine(n, r.Intn(26))
			for k := 0; k < len(line) && k < 4; k++ {
				if r.Chance(15) {
					line[k] = "- \t\r-F"[r.Intn(6)]
				}
			}
			if n > 0 && r.Chance(10) {
				line[r.Intn(n)] = '\r'
			}
			b.Write(line)
			if r.Chance(30) {
				b.WriteString([]string{" ", "\t", "  \t ", " \r", "\r "}[r.Intn(5)])
			}
			if j < nl-1 || r.Chance(70) {
				if r.Chance(30) {
					b.WriteString("\r\n")
				} else {
					b.WriteString("\n")
				}
			}
		}
		ds = append(ds, csDoc{name: "random-" + strconv.Itoa(i), doc: b.Bytes()})
	}
	for i := range ds {
		ds[i].h512 = i%3 == 0
	}
	return ds
}

func csRun(c *core.Ctx, signer *openpgp.Entity, id int, name string, doc []byte, hash crypto.Hash, hname string) csCase {
	rec := csCase{Kind: "cs", ID: id, Name: name, Hash: hname, DocLen: len(doc)}
	rec.DocPath = filepath.Join(c.Scratch, fmt.Sprintf("cs-%04d.doc", id))
	_ = os.WriteFile(rec.DocPath, doc, 0o600)
	now := time.Now()
	config := &packet.Config{DefaultHash: hash, Time: func() time.Time { return now }}
	// the raw stream, as pgptools.ClearSign writes it for the real key (what tailClearSign is fed)
	var stream bytes.Buffer
	if err := pgptools.ClearSign(&stream, signer, bytes.NewReader(doc), config); err != nil {
		rec.StreamErr = err.Error()
	} else {
		rec.Stream = filepath.Join(c.Scratch, fmt.Sprintf("cs-%04d.stream", id))
		_ = os.WriteFile(rec.Stream, stream.Bytes(), 0o600)
	}
	// signing side
	var sig bytes.Buffer
	err, ms, ok := timed(func() error { return pgptools.DetachClearSign(&sig, signer, bytes.NewReader(doc), config) })
	rec.DetachMs = ms
	if !ok {
		rec.Hang = "DetachClearSign"
		return rec
	}
	if err != nil {
		rec.DetachErr = err.Error()
		return rec
	}
	rec.Sig = hex.EncodeToString(sig.Bytes())
	// client side
	var merged bytes.Buffer
	err, ms, ok = timed(func() error { return pgptools.MergeClearSign(&merged, sig.Bytes(), bytes.NewReader(doc)) })
	rec.MergeMs = ms
	if !ok {
		rec.Hang = "MergeClearSign"
		return rec
	}
	if err != nil {
		rec.MergeErr = err.Error()
		return rec
	}
	rec.Out = filepath.Join(c.Scratch, fmt.Sprintf("cs-%04d.asc", id))
	rec.OutLen = merged.Len()
	_ = os.WriteFile(rec.Out, merged.Bytes(), 0o600)
	// the library's own reader (not relic code), as a third opinion beside the python reference and gpgv
	rec.LibVerify = "ok"
	if blk, _ := gpgclearsign.Decode(merged.Bytes()); blk == nil {
		rec.LibVerify = "clearsign.Decode: not a cleartext message"
	} else if _, err := blk.VerifySignature(openpgp.EntityList{signer}, nil); err != nil {
		rec.LibVerify = err.Error()
	}
	return rec
}

func csHooks(c *core.Ctx, id0 int) {
	sh := "-----BEGIN PGP SIGNATURE-----"
	type hs struct{ name, s string }
	var ss []hs
	add := func(name, s string) { ss = append(ss, hs{name, s}) }
	arm := sh + "\n\nAAAA\n=BBBB\n-----END PGP SIGNATURE-----"
	add("empty", "")
	add("only-lf", "\n\n")
	add("plain", "h\n\nbody\n"+arm+"\r\n")
	add("no-marker", "h\n\nbody\nmore\n")
	add("no-marker-no-eol", "h\n\nbody")
	add("marker-crlf", "a\r\n"+sh+"\r\nX\r\n")
	add("marker-cr-cr", "a\n"+sh+"\r\r\nX\n")
	add("marker-trailing-space", "a\n"+sh+" \nX\n"+arm+"\n")
	add("marker-leading-space", "a\n "+sh+"\nX\n"+arm+"\n")
	add("marker-twice", "a\n"+sh+"\nX\n"+sh+"\nY\n")
	add("marker-first", sh+"\nX\n")
	add("marker-last-no-eol", "a\n"+sh)
	add("marker-last-cr-no-eol", "a\n"+sh+"\r")
	add("cr-only-last", "a\n\r")
	add("lone-crs", "a\rb\r\rc\n\r\n\r\r\n"+arm+"\n")
	for _, n := range []int{4095, 4096, 4097, 8192, 65534, 65535, 65536, 65537, 70000} {
		l := string(csLine(n, n))
		add(fmt.Sprintf("long-%d-before", n), "a\n"+l+"\n"+arm+"\r\n")
		add(fmt.Sprintf("long-%d-after", n), "a\n"+arm+"\n"+l+"\n")
		add(fmt.Sprintf("long-%d-inside-armor", n), "a\n"+sh+"\n"+l+"\n-----END\n")
		add(fmt.Sprintf("long-%d-last-no-eol", n), "a\n"+l)
		add(fmt.Sprintf("long-%d-crlf", n), l+"\r\n"+arm+"\r\n")
	}
	for _, at := range []int{4094, 4095, 4096} {
		l := csLine(5000, 1)
		l[at] = '\r'
		add(fmt.Sprintf("cr-at-%d", at), string(l)+"\n"+arm+"\n")
	}
	for i, s := range ss {
		id := id0 + i
		rec := hookCase{Kind: "hook", ID: id, Name: s.name, Len: len(s.s)}
		rec.Path = filepath.Join(c.Scratch, fmt.Sprintf("hook-%04d.in", id))
		_ = os.WriteFile(rec.Path, []byte(s.s), 0o600)
		var hout bytes.Buffer
		err, _, ok := timed(func() error { return pgptools.VerifHeadClearSign(strings.NewReader(s.s), &hout) })
		if !ok {
			rec.Hang = "headClearSign"
		} else if err != nil {
			rec.HeadErr = err.Error()
		}
		rec.HeadOut = filepath.Join(c.Scratch, fmt.Sprintf("hook-%04d.head", id))
		_ = os.WriteFile(rec.HeadOut, hout.Bytes(), 0o600)
		var tout []byte
		err, _, ok = timed(func() error {
			var e error
			tout, e = pgptools.VerifTailClearSign(strings.NewReader(s.s))
			return e
		})
		if !ok {
			rec.Hang = "tailClearSign"
		} else if err != nil {
			rec.TailErr = err.Error()
		}
		rec.TailOut = filepath.Join(c.Scratch, fmt.Sprintf("hook-%04d.tail", id))
		_ = os.WriteFile(rec.TailOut, tout, 0o600)
		c.Emit(rec)
	}
}

func init() {
	// fmtpgp-cs <keydir>                          all generated cases
	// fmtpgp-cs <keydir> replay <hash> <docfile>  one document from a replay file
	core.Register("fmtpgp-cs", func(c *core.Ctx) error {
		if len(c.Args) < 1 {
			return fmt.Errorf("usage: fmtpgp-cs <testkeys dir> [replay <SHA256|SHA512> <docfile>]")
		}
		if c.Scratch == "" {
			return fmt.Errorf("fmtpgp-cs needs -scratch")
		}
		signer, err := csLoadSigner(c.Args[0])
		if err != nil {
			return err
		}
		hashes := map[string]crypto.Hash{"SHA256": crypto.SHA256, "SHA512": crypto.SHA512, "SHA384": crypto.SHA384}
		if len(c.Args) >= 4 && c.Args[1] == "replay" {
			doc, err := os.ReadFile(c.Args[3])
			if err != nil {
				return err
			}
			h, ok := hashes[c.Args[2]]
			if !ok {
				return fmt.Errorf("unknown hash %s", c.Args[2])
			}
			c.Emit(csRun(c, signer, 0, "replay", doc, h, c.Args[2]))
			return nil
		}
		r := &core.Rng{S: c.Seed*104729 + 11}
		docs := csDocs(r, c.Tier == "thorough")
		for i, d := range docs {
			hn := "SHA256"
			if d.h512 {
				hn = "SHA512"
			}
			c.Emit(csRun(c, signer, i, d.name, d.doc, hashes[hn], hn))
		}
		csHooks(c, len(docs))
		return nil
	})
}
