package c11

// Structured malformed inputs for the hand-written TEXT parsers (coq/C11/Text.v): the `control` file of a .deb (parsed by
// signdeb.parseControl inside a helper goroutine of signdeb.Sign), the signed digest list of a _gpg member
// (signdeb.checkSig) and the clearsign splitter of lib/pgptools. The containers around the text are written HERE
// (own ar writer, stdlib tar / gzip, xz / bzip2 through the command line tools when present): mutating the bytes of a
// fixture cannot reach through the compression layer.

import (
	"archive/tar"
	"bytes"
	"compress/gzip"
	"crypto"
	"fmt"
	"os"
	"os/exec"
	"path/filepath"
	"strings"
	"time"

	"github.com/ProtonMail/go-crypto/openpgp"
	pgparmor "github.com/ProtonMail/go-crypto/openpgp/armor"
	"github.com/ProtonMail/go-crypto/openpgp/clearsign"
	"github.com/ProtonMail/go-crypto/openpgp/packet"
)

type arMember struct {
	name string
	data []byte
}

// common ar format: global magic, 60-byte member headers, data padded to even length
func writeAr(members []arMember) []byte {
	var b bytes.Buffer
	b.WriteString("!<arch>\n")
	for _, m := range members {
		fmt.Fprintf(&b, "%-16s%-12d%-6d%-6d%-8s%-10d`\n", m.name, 1500000000, 0, 0, "100644", len(m.data))
		b.Write(m.data)
		if len(m.data)%2 == 1 {
			b.WriteByte('\n')
		}
	}
	return b.Bytes()
}

func tarOf(files []arMember) []byte {
	var b bytes.Buffer
	tw := tar.NewWriter(&b)
	for _, f := range files {
		_ = tw.WriteHeader(&tar.Header{Name: f.name, Mode: 0o644, Size: int64(len(f.data)), ModTime: time.Unix(1500000000, 0), Format: tar.FormatGNU})
		_, _ = tw.Write(f.data)
	}
	_ = tw.Close()
	return b.Bytes()
}

func gzOf(b []byte) []byte {
	var o bytes.Buffer
	w := gzip.NewWriter(&o)
	_, _ = w.Write(b)
	_ = w.Close()
	return o.Bytes()
}

func toolCompress(tool string, b []byte) ([]byte, bool) {
	path, err := exec.LookPath(tool)
	if err != nil {
		return nil, false
	}
	cmd := exec.Command(path, "-c")
	cmd.Stdin = bytes.NewReader(b)
	var o bytes.Buffer
	cmd.Stdout = &o
	if cmd.Run() != nil {
		return nil, false
	}
	return o.Bytes(), true
}

// compress returns the member suffix and the compressed tarball; ok=false when the tool is not installed
func compressAs(kind string, b []byte) (string, []byte, bool) {
	switch kind {
	case "none":
		return "", b, true
	case "gz":
		return ".gz", gzOf(b), true
	case "xz":
		o, ok := toolCompress("xz", b)
		return ".xz", o, ok
	case "bz2":
		o, ok := toolCompress("bzip2", b)
		return ".bz2", o, ok
	}
	return "." + kind, b, true // unknown suffix: raw bytes under a name relic does not recognise
}

// buildDeb: a .deb that is valid at every outer layer, with the given bytes as its control file
func buildDeb(control []byte, comp, controlName string, extra ...arMember) ([]byte, bool) {
	ctar := tarOf([]arMember{{"./md5sums", []byte("d41d8cd98f00b204e9800998ecf8427e  usr/share/doc/demo/README\n")}, {controlName, control}, {"./postinst", []byte("#!/bin/sh\n")}})
	suffix, cdata, ok := compressAs(comp, ctar)
	if !ok {
		return nil, false
	}
	dtar := gzOf(tarOf([]arMember{{"./usr/share/doc/demo/README", []byte("hello\n")}}))
	ms := []arMember{{"debian-binary", []byte("2.0\n")}, {"control.tar" + suffix, cdata}, {"data.tar.gz", dtar}}
	ms = append(ms, extra...)
	return writeAr(ms), true
}

const baseControl = "Package: demo\nVersion: 1.0-1\nArchitecture: all\nMaintainer: nobody <nobody@example.com>\n" +
	"Description: demo package\n a folded continuation line\n"

type textCase struct {
	kind string
	text []byte
}

func rep(c byte, n int) string { return strings.Repeat(string([]byte{c}), n) }

// control file texts: valid, and unusual in every way a line parser can stumble over
func controlTexts() []textCase {
	B := baseControl
	cs := []textCase{
		{"plain", []byte(B)},
		{"blank-trailing", []byte(B + "\n")},
		{"blank-leading", []byte("\n" + B)},
		{"blank-between-stanzas", []byte("Package: demo\nVersion: 1.0-1\n\nArchitecture: all\nDescription: x\n")},
		{"blank-two-trailing", []byte(B + "\n\n")},
		{"crlf", []byte(strings.ReplaceAll(B, "\n", "\r\n"))},
		{"crlf-bare-line", []byte(B + "\r\n")},
		{"cr-only-line", []byte(B + "\r")},
		{"no-final-newline", []byte(strings.TrimSuffix(B, "\n"))},
		{"no-colon-line", []byte(B + "no colon here\n")},
		{"no-colon-word", []byte(B + "word\n")},
		{"colon-only", []byte(B + ":\n")},
		{"colon-blank", []byte(B + ": \n")},
		{"blank-colon", []byte(B + " :\n")},
		{"colon-value", []byte(B + ":x y\n")},
		{"colon-last", []byte(B + "Key:")},
		{"leading-space", []byte(B + " leading: space\n")},
		{"leading-tab", []byte(B + "\tleading: tab\n")},
		{"space-only-line", []byte(B + " \n")},
		{"tab-only-line", []byte(B + "\t\n")},
		{"comment", []byte("# a comment\n" + B + "#\n# k: v\n")},
		{"nul-line", []byte(B + "\x00\n")},
		{"nul-in-key", []byte(B + "a\x00b: c\n")},
		{"nul-key", []byte(B + "\x00: x\n")},
		{"nul-only", []byte("\x00")},
		{"high-bytes", []byte(B + "\xff\xfe: \x80 \xa9\n")},
		{"vt-ff", []byte(B + "\v\n\f: x\n")},
		{"no-blank-after-colon", []byte("Package:demo\nVersion:1.0\n")},
		{"tab-after-colon", []byte("Package:\tdemo\nVersion:\t1.0\n")},
		{"empty-values", []byte("Package: \nVersion: 1\n")},
		{"trailing-ws-values", []byte("Package: demo \t\r\nVersion: 1 \n")},
		{"case-variants", []byte("package: demo\nVERSION: 2\naRcHiTeCtUrE: any\n")},
		{"duplicate-field", []byte(B + "Package: other\n")},
		{"empty", nil},
		{"lf", []byte("\n")},
		{"crlf-only", []byte("\r\n")},
		{"cr", []byte("\r")},
		{"space", []byte(" ")},
		{"colon", []byte(":")},
		{"letter", []byte("a")},
		{"hash", []byte("#")},
		{"three-lf", []byte("\n\n\n")},
		{"missing-version", []byte("Package: demo\n")},
	}
	// very long lines around the bufio.Scanner limit (65536): with and without colon, first / last, with CR
	for _, n := range []int{65534, 65535, 65536, 65537, 70000, 200000} {
		cs = append(cs, textCase{fmt.Sprintf("long-field-%d", n), []byte(B + "X-Long: " + rep('a', n-8) + "\n")})
	}
	cs = append(cs,
		textCase{"long-nocolon-65536", []byte(B + rep('b', 65536) + "\n")},
		textCase{"long-nocolon-65535-nonl", []byte(B + rep('b', 65535))},
		textCase{"long-nocolon-65536-nonl", []byte(B + rep('b', 65536))},
		textCase{"long-first-65536", []byte(rep('c', 65536) + "\n" + B)},
		textCase{"long-crlf-65535", []byte(B + rep('d', 65534) + "\r\n")},
		textCase{"long-crlf-65536", []byte(B + rep('d', 65535) + "\r\n")},
		textCase{"long-blanks-65536", []byte(B + rep(' ', 65536) + "\n")},
		textCase{"many-blank-lines", []byte(B + rep('\n', 70000))},
	)
	return cs
}

// --------------------------------------------------------------------------------------------------------- checkSig
const csSums1 = "00000000000000000000000000000000 1111111111111111111111111111111111111111"
const csSums2 = "22222222222222222222222222222222 3333333333333333333333333333333333333333"

func csDigests() map[string]string { return map[string]string{"a": csSums1, "bb": csSums2} }

// bodies of a _gpg member after clearsign verification ("Files:" header, then tab + md5 + sha1 + size + name lines)
func checkSigBodies() []textCase {
	hdr := "Version: 4\nSigner: x\nDate: y\nRole: builder\nFiles: \n"
	good := "Version: 4\nSigner: x\nFiles:\n"
	l1 := "\t" + csSums1 + " 4 a\n"
	l2 := "\t" + csSums2 + " 6 bb\n"
	pad := func(s string) string { // at least 76 bytes
		for len(s) < 76 {
			s += "x"
		}
		return s
	}
	cs := []textCase{
		{"valid", []byte(good + l1 + l2 + "\n")},
		{"valid-no-end", []byte(good + l1 + l2)},
		{"files-with-blank", []byte(hdr + l1 + l2 + "\n")}, // what signdeb.Sign writes ("Files: "): never matches "Files:"
		{"no-files", []byte("Version: 4\n\n")},
		{"empty", nil},
		{"only-files", []byte("Files:\n")},
		{"uncovered", []byte(good + l1 + "\n")},
		{"unknown-file", []byte(good + "\t" + csSums1 + " 4 zz\n\n")},
		{"mismatch", []byte(good + "\t" + csSums2 + " 4 a\n\n")},
		{"short-line", []byte(good + "\tshort\n")},
		{"no-tab", []byte(good + pad("x"+csSums1+" 4 a") + "\n")},
		{"no-blanks-76", []byte(good + "\t" + rep('a', 75) + "\n")},
		{"no-blanks-75", []byte(good + "\t" + rep('a', 74) + "\n")},
		{"one-blank", []byte(good + pad("\t"+rep('a', 32)+" "+rep('b', 40)) + "\n")},
		{"two-blanks", []byte(good + pad("\t"+csSums1+" 4") + "\n")},
		{"two-blanks-trailing", []byte(good + "\t" + csSums1 + " " + "\n")},
		{"three-blanks-empty-name", []byte(good + "\t" + csSums1 + " 4 \n")},
		{"name-with-blanks", []byte(good + "\t" + csSums1 + " 4 a b c\n")},
		{"only-blanks", []byte(good + "\t" + rep(' ', 75) + "\n")},
		{"crlf", []byte(strings.ReplaceAll(good+l1+l2+"\n", "\n", "\r\n"))},
		{"tab-only-76", []byte(good + rep('\t', 76) + "\n")},
		{"long-line", []byte(good + "\t" + rep('a', 65536) + "\n" + l1)},
		{"nul", []byte(good + "\t" + rep('\x00', 75) + "\n")},
	}
	return cs
}

// signedDebFor: a .deb with a _gpgbuilder member = body clearsigned by a throw-away key; returns the .deb and the
// armored public key (the keyring handed to verify)
func signedDebFor(e *openpgp.Entity, body []byte) ([]byte, error) {
	var sig bytes.Buffer
	w, err := clearsign.Encode(&sig, e.PrivateKey, &packet.Config{DefaultHash: crypto.SHA256})
	if err != nil {
		return nil, err
	}
	if _, err := w.Write(body); err != nil {
		return nil, err
	}
	if err := w.Close(); err != nil {
		return nil, err
	}
	sig.WriteString("\n")
	deb, _ := buildDeb([]byte(baseControl), "gz", "./control", arMember{"_gpgbuilder", sig.Bytes()})
	return deb, nil
}

func throwawayKey() (*openpgp.Entity, []byte, error) {
	e, err := openpgp.NewEntity("C11 throw-away", "", "c11@example.invalid", &packet.Config{Algorithm: packet.PubKeyAlgoEdDSA, DefaultHash: crypto.SHA256})
	if err != nil {
		return nil, nil, err
	}
	var pub bytes.Buffer
	aw, err := pgparmor.Encode(&pub, "PGP PUBLIC KEY BLOCK", nil)
	if err != nil {
		return nil, nil, err
	}
	if err := e.Serialize(aw); err != nil {
		return nil, nil, err
	}
	_ = aw.Close()
	return e, pub.Bytes(), nil
}

// --------------------------------------------------------------------------------------------------------- crash-harness cases
func (g *gen) addAlways(c Case) {
	if g.seen[c.ID] {
		return
	}
	g.seen[c.ID] = true
	c.Always = true
	g.cases = append(g.cases, c)
}

func (g *gen) writeGen(name string, data []byte) string {
	if g.dir == "" {
		return ""
	}
	g.fileSeq++
	p := filepath.Join(g.dir, fmt.Sprintf("text-%04d-%s", g.fileSeq, name))
	if os.WriteFile(p, data, 0o644) != nil {
		return ""
	}
	return p
}

func (g *gen) genTextParsers() {
	// ---- .deb control files through the REAL sign path (server /sign, sigtype deb -> signers/deb -> signdeb.Sign -> goroutine)
	for _, tc := range controlTexts() {
		comps := []string{"gz"}
		switch tc.kind {
		case "plain", "blank-trailing", "crlf", "long-field-65536", "empty", "colon-only", "nul-line", "leading-space":
			comps = []string{"gz", "none", "xz", "bz2"}
		}
		for _, comp := range comps {
			deb, ok := buildDeb(tc.text, comp, "./control")
			if !ok {
				continue
			}
			p := g.writeGen("ctl.deb", deb)
			if p == "" {
				continue
			}
			g.addAlways(Case{ID: "debctl|" + tc.kind + "|" + comp + "|sign", Entry: "sign", SigType: "deb", Name: "demo.deb", Base: p, Family: "debctl", Mut: "control:" + tc.kind + "/" + comp, Valid: tc.kind == "plain"})
		}
	}
	// member naming / unsupported compression of control.tar
	for _, v := range []struct{ kind, comp, cname string }{{"control-no-dot", "gz", "control"}, {"control-in-subdir", "gz", "./x/../control"}, {"no-control-member", "gz", "./kontrol"},
		{"suffix-unknown", "zst", "./control"}, {"suffix-x", "X", "./control"}} {
		deb, ok := buildDeb([]byte(baseControl+"\n"), v.comp, v.cname)
		if !ok {
			continue
		}
		if p := g.writeGen("ctl.deb", deb); p != "" {
			g.addAlways(Case{ID: "debctl|" + v.kind + "|sign", Entry: "sign", SigType: "deb", Name: "demo.deb", Base: p, Family: "debctl", Mut: "control:" + v.kind})
		}
	}
	// ar member names around the "control.tar" prefix test of signdeb.Sign (ext := name[11:]) and the "_gpg" prefix of Verify (role := name[4:])
	for _, nm := range []string{"control", "control.t", "control.ta", "control.tar", "control.tar.", "control.tarX", "control.tar.gzz", "c", "_gpg", "_gp", "_gpgx", "control.tar.gz"} {
		deb, ok := buildDeb([]byte(baseControl), "gz", "./control", arMember{nm, tarOf([]arMember{{"./control", []byte(baseControl + "\n")}})})
		if !ok {
			continue
		}
		if p := g.writeGen("names.deb", deb); p != "" {
			for _, e := range []string{"sign", "verify"} {
				g.addAlways(Case{ID: "debctl|member-" + nm + "|" + e, Entry: e, SigType: "deb", Name: "demo.deb", Base: p, Family: "debctl", Mut: "member:" + nm})
			}
		}
	}
	// ---- checkSig through the REAL verify path: _gpgbuilder clearsigned by a throw-away key that is the keyring
	if e, pub, err := throwawayKey(); err == nil {
		keyring := g.writeGen("keyring.asc", pub)
		for _, tc := range checkSigBodies() {
			deb, err := signedDebFor(e, tc.text)
			if err != nil || keyring == "" {
				continue
			}
			if p := g.writeGen("sig.deb", deb); p != "" {
				g.addAlways(Case{ID: "debsig|" + tc.kind + "|verifykey", Entry: "verifykey", SigType: "deb", Name: "demo.deb", Base: p, Content: keyring, Family: "debsig", Mut: "files:" + tc.kind})
			}
		}
	}
	// ---- cleartext PGP signing of a document with very long lines (POST /sign, sigtype pgp, clearsign): DetachClearSign's pipe
	for _, v := range []struct {
		kind string
		body string
	}{{"line-65535", "hello\n" + rep('A', 65535) + "\nbye\n"}, {"line-65536", "hello\n" + rep('A', 65536) + "\nbye\n"},
		{"dash-line-65533", "-" + rep('A', 65532) + "\n"}, {"short", "hello\n-dash\n"}} {
		if p := g.writeGen("clear.txt", []byte(v.body)); p != "" {
			g.addAlways(Case{ID: "pgpclear|" + v.kind + "|sign", Entry: "sign", SigType: "pgp", Name: "doc.txt", Base: p, Query: "clearsign=true", Family: "pgpclear", Mut: "clearsign:" + v.kind, Valid: v.kind == "short"})
		}
	}
}
