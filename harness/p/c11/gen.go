package c11

import (
	"encoding/binary"
	"encoding/hex"
	"encoding/json"
	"errors"
	"fmt"
	"os"
	"path/filepath"
	"sort"
	"strings"

	"github.com/sassoftware/relic/v8/verifharness/core"
)

// BaseFile: one well-formed artefact the corruptions start from.
type BaseFile struct {
	Path    string `json:"path"`
	SigType string `json:"sigtype"`
	Name    string `json:"name"`   // presented file name
	Family  string `json:"family"` // pe zip cab cfb macho dmg xar deb rpm pgp der ps xml tar:<sigtype> ...
	Signed  bool   `json:"signed"`
	Content string `json:"content,omitempty"`
	data    []byte
}

type gen struct {
	rng    *core.Rng
	tier   string
	cases  []Case
	seen    map[string]bool
	dir     string // where rebuilt archives (content-level corruption) are written
	fileSeq int
}

// boundary values for a field of w bytes
func boundaryVals(w int) []uint64 {
	switch w {
	case 1:
		return []uint64{0, 1, 0x7f, 0x80, 0xfe, 0xff}
	case 2:
		return []uint64{0, 1, 0x7fff, 0x8000, 0xfffe, 0xffff}
	case 4:
		return []uint64{0, 1, 0x7fffffff, 0x80000000, 0xfffffffe, 0xffffffff}
	default:
		return []uint64{0, 1, 0x7fffffff, 0x80000000, 0xffffffff, 0x100000000, 0x7fffffffffffffff, 0x8000000000000000, 0xfffffffffffffffe, 0xffffffffffffffff}
	}
}

func encInt(v uint64, w int, be bool) []byte {
	b := make([]byte, 8)
	if be {
		binary.BigEndian.PutUint64(b, v)
		return b[8-w:]
	}
	binary.LittleEndian.PutUint64(b, v)
	return b[:w]
}

func ow(off int, b []byte) Op { return Op{O: i64(int64(off)), H: hex.EncodeToString(b)} }
func tr(n int) Op             { return Op{T: i64(int64(n))} }
func ins(off int, b []byte) Op {
	return Op{I: i64(int64(off)), H: hex.EncodeToString(b)}
}
func del(off, n int) Op { return Op{D: i64(int64(off)), N: int64(n)} }

// entriesFor: the entry points an input of this base is presented to.
func entriesFor(b *BaseFile) []string {
	switch {
	case strings.HasPrefix(b.Family, "tar:"):
		return []string{"sign"}
	case b.Family == "binpatch":
		return []string{"patchload", "patch"}
	case b.Family == "cert":
		return []string{"cert"}
	case b.Family == "tsresp":
		return []string{"tsresp"}
	}
	switch b.SigType {
	case "pkcs7":
		return []string{"verify", "issigned"}
	case "apk", "appx", "jar", "vsix", "xap", "msi", "mach-o", "dmg", "pgp", "ps":
		return []string{"verify", "issigned", "transform", "sign", "remote"}
	}
	return []string{"verify", "issigned", "sign"}
}

func (g *gen) add(b *BaseFile, mut string, ops []Op, entries ...string) {
	if len(entries) == 0 {
		entries = entriesFor(b)
	}
	for _, e := range entries {
		// issigned runs the verifier with NoDigests: sample it (every mutation still reaches verify)
		if e == "issigned" && g.tier != "thorough" && g.rng.Intn(4) != 0 {
			continue
		}
		id := fmt.Sprintf("%s|%s|%s|%s", b.Family, b.Name+map[bool]string{true: "+sig", false: ""}[b.Signed], mut, e)
		if g.seen[id] {
			continue
		}
		g.seen[id] = true
		g.cases = append(g.cases, Case{ID: id, Entry: e, SigType: b.SigType, Name: b.Name, Base: b.Path, Ops: ops,
			Content: b.Content, Family: b.Family, Mut: mut, Valid: len(ops) == 0})
	}
}

func (g *gen) addRaw(family, sigtype, name, mut string, raw []byte, entries ...string) {
	for _, e := range entries {
		id := fmt.Sprintf("%s|%s|%s|%s", family, name, mut, e)
		if g.seen[id] {
			continue
		}
		g.seen[id] = true
		g.cases = append(g.cases, Case{ID: id, Entry: e, SigType: sigtype, Name: name, Raw: hex.EncodeToString(raw), Family: family, Mut: mut})
	}
}

// field: a located integer field of the base file
type field struct {
	name string
	off  int
	w    int
	be   bool
}

// sweepFields sets each field to each boundary value (and to value±1 of the original).
func (g *gen) sweepFields(b *BaseFile, fs []field, entries ...string) {
	for _, f := range fs {
		if f.off < 0 || f.off+f.w > len(b.data) {
			continue
		}
		var cur uint64
		raw := make([]byte, 8)
		if f.be {
			copy(raw[8-f.w:], b.data[f.off:f.off+f.w])
			cur = binary.BigEndian.Uint64(raw)
		} else {
			copy(raw, b.data[f.off:f.off+f.w])
			cur = binary.LittleEndian.Uint64(raw)
		}
		vals := append([]uint64{}, boundaryVals(f.w)...)
		vals = append(vals, cur+1, cur-1, cur*2, uint64(len(b.data)), uint64(len(b.data))-uint64(f.off), uint64(len(b.data))+1)
		if f.w >= 4 {
			vals = append(vals, 0x1000000, 0x10000000) // 16 Mi / 256 Mi: allocation sized by the field without reaching the OS limit
		}
		done := map[uint64]bool{cur: true}
		for _, v := range vals {
			if f.w < 8 {
				v &= (uint64(1) << (8 * uint(f.w))) - 1
			}
			if done[v] {
				continue
			}
			done[v] = true
			g.add(b, fmt.Sprintf("field:%s@%d=%#x", f.name, f.off, v), []Op{ow(f.off, encInt(v, f.w, f.be))}, entries...)
		}
	}
}

// truncAt: truncation at each of the given structure boundaries (and one byte either side)
func (g *gen) truncAt(b *BaseFile, label string, offs []int, entries ...string) {
	sort.Ints(offs)
	for _, o := range offs {
		for _, d := range []int{-1, 0, 1} {
			n := o + d
			if n < 0 || n >= len(b.data) {
				continue
			}
			g.add(b, fmt.Sprintf("trunc:%s@%d", label, n), []Op{tr(n)}, entries...)
		}
	}
}

// generic: truncation at every N-th byte, header bit flips, random mutation
func (g *gen) generic(b *BaseFile) {
	n := len(b.data)
	g.add(b, "valid", nil)
	// truncation: every byte for small files, else every step-th byte plus dense head/tail
	step := 1
	limit := 400
	if g.tier == "thorough" {
		limit = 4000
	}
	if n > limit {
		step = n / limit
	}
	for i := 0; i < n; i += step {
		g.add(b, fmt.Sprintf("trunc@%d", i), []Op{tr(i)})
	}
	for i := 0; i < 64 && i < n; i++ {
		g.add(b, fmt.Sprintf("trunc@%d", i), []Op{tr(i)})
		g.add(b, fmt.Sprintf("trunc@%d", n-1-i), []Op{tr(n - 1 - i)})
	}
	// bit flips in the first 64 header bytes
	nflip := 64
	if g.tier == "thorough" {
		nflip = 256
	}
	for i := 0; i < nflip && i < n; i++ {
		bit := byte(1) << uint(g.rng.Intn(8))
		g.add(b, fmt.Sprintf("flip@%d^%#x", i, bit), []Op{ow(i, []byte{b.data[i] ^ bit})})
	}
	// random mutation: 1–4 byte overwrites with interesting values at random offsets
	nrand := 60
	if g.tier == "thorough" {
		nrand = 1500
	}
	interesting := [][]byte{{0}, {0xff}, {0x7f}, {0x80}, {0xff, 0xff}, {0, 0}, {0xff, 0xff, 0xff, 0xff}, {0, 0, 0, 0}, {0xff, 0xff, 0xff, 0x7f}, {0, 0, 0, 0x80}, {0x7f, 0xff, 0xff, 0xff}, {0x80, 0, 0, 0}}
	for i := 0; i < nrand && n > 0; i++ {
		k := 1 + g.rng.Intn(3)
		var ops []Op
		var desc []string
		for j := 0; j < k; j++ {
			off := g.rng.Intn(n)
			var v []byte
			if g.rng.Chance(50) {
				v = interesting[g.rng.Intn(len(interesting))]
			} else {
				v = g.rng.Bytes(1 + g.rng.Intn(4))
			}
			ops = append(ops, ow(off, v))
			desc = append(desc, fmt.Sprintf("%d=%x", off, v))
		}
		if g.rng.Chance(15) {
			t := g.rng.Intn(n)
			ops = append(ops, tr(t))
			desc = append(desc, fmt.Sprintf("trunc%d", t))
		}
		g.add(b, "rand:"+strings.Join(desc, ","), ops)
	}
	// block operations: duplicate / remove / zero a block
	for i := 0; i < 12 && n > 16; i++ {
		off := g.rng.Intn(n - 8)
		l := 1 + g.rng.Intn(min(n-off, 4096))
		switch i % 3 {
		case 0:
			g.add(b, fmt.Sprintf("delblock@%d+%d", off, l), []Op{del(off, l)})
		case 1:
			g.add(b, fmt.Sprintf("dupblock@%d+%d", off, l), []Op{ins(off, b.data[off:off+l])})
		case 2:
			g.add(b, fmt.Sprintf("zeroblock@%d+%d", off, l), []Op{ow(off, make([]byte, l))})
		}
	}
}

// intSweep: every offset of a region, 2/4/8-byte fields of both byte orders, boundary values (format-agnostic)
func (g *gen) intSweep(b *BaseFile, from, to, stride int, widths []int, entries ...string) {
	if from < 0 {
		from = 0
	}
	if to > len(b.data) {
		to = len(b.data)
	}
	for off := from; off < to; off += stride {
		for _, w := range widths {
			if off+w > len(b.data) {
				continue
			}
			for _, be := range []bool{false, true} {
				vs := boundaryVals(w)
				// the small values are rarely interesting for wide fields; keep max, sign bit and 0
				for _, v := range vs {
					g.add(b, fmt.Sprintf("int%d%s@%d=%#x", w*8, map[bool]string{true: "be", false: "le"}[be], off, v), []Op{ow(off, encInt(v, w, be))}, entries...)
				}
			}
		}
	}
}

func (g *gen) structured(b *BaseFile) {
	switch {
	case b.Family == "pe":
		g.genPE(b)
	case b.Family == "zip":
		g.genZip(b)
	case b.Family == "cab":
		g.genCab(b)
	case b.Family == "cfb":
		g.genCfb(b)
	case b.Family == "macho":
		g.genMacho(b)
	case b.Family == "dmg":
		g.genDmg(b)
	case b.Family == "xar":
		g.genXar(b)
	case b.Family == "deb":
		g.genAr(b)
	case b.Family == "rpm":
		g.genRpm(b)
	case b.Family == "pgp":
		g.genPgp(b)
	case b.Family == "der":
		g.genDer(b, 0, len(b.data), "der")
	case b.Family == "ps":
		g.genPs(b)
	case b.Family == "xml":
		g.genXML(b)
	case strings.HasPrefix(b.Family, "tar:"):
		g.genTar(b)
	}
}

func init() {
	// c11gen <bases.json> <out manifest.jsonl> [-only family] [-sweep]
	core.Register("c11gen", func(c *core.Ctx) error {
		if len(c.Args) < 2 {
			return errors.New("usage: c11gen bases.json manifest.jsonl")
		}
		only, sweep, dir := "", false, ""
		for i := 2; i < len(c.Args); i++ {
			switch c.Args[i] {
			case "-dir":
				i++
				dir = c.Args[i]
			case "-only":
				i++
				only = c.Args[i]
			case "-sweep":
				sweep = true
			}
		}
		raw, err := os.ReadFile(c.Args[0])
		if err != nil {
			return err
		}
		var bases []*BaseFile
		if err := json.Unmarshal(raw, &bases); err != nil {
			return err
		}
		g := &gen{rng: &core.Rng{S: c.Seed*0x9e3779b97f4a7c15 + 11}, tier: c.Tier, seen: map[string]bool{}, dir: dir}
		if dir != "" {
			os.MkdirAll(dir, 0o755)
		}
		for _, b := range bases {
			if only != "" && b.Family != only && b.SigType != only {
				continue
			}
			b.data, err = os.ReadFile(b.Path)
			if err != nil {
				return err
			}
			if b.Name == "" {
				b.Name = filepath.Base(b.Path)
			}
			g.generic(b)
			g.structured(b)
			if sweep {
				n := len(b.data)
				g.intSweep(b, 0, min(n, 1024), 1, []int{2, 4})
				g.intSweep(b, max(0, n-1024), n, 1, []int{2, 4})
				g.intSweep(b, 0, n, max(1, n/300), []int{4, 8})
			}
		}
		if only == "" || only == "crafted" {
			g.genCrafted()
			g.genTextParsers()
		}
		f, err := os.Create(c.Args[1])
		if err != nil {
			return err
		}
		defer f.Close()
		enc := json.NewEncoder(f)
		for i := range g.cases {
			if err := enc.Encode(&g.cases[i]); err != nil {
				return err
			}
		}
		fam := map[string]int{}
		for _, cs := range g.cases {
			fam[cs.Family+"/"+cs.Entry]++
		}
		c.Emit(map[string]interface{}{"cases": len(g.cases), "by_family_entry": fam})
		return nil
	})
}
