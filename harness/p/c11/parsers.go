package c11

// c11p — proof half of C11: the small parsers modelled in coq/C11 run IN PROCESS on structured and malformed inputs, each
// call under recover (here a panic is an observation to compare with the model, not a crash to find). One JSON object
// per case: parser, input (hex), args, class ok|error|panic, errc (error class as in C11/Model.v), vals, detail.

import (
	"bytes"
	"crypto"
	_ "crypto/sha256"
	_ "crypto/sha512"
	"encoding/binary"
	"encoding/hex"
	"fmt"
	"os"
	"path/filepath"
	"strings"

	"github.com/sassoftware/relic/v8/lib/binpatch"
	"github.com/sassoftware/relic/v8/lib/fruit/csblob"
	"github.com/sassoftware/relic/v8/lib/signxap"
	"github.com/sassoftware/relic/v8/lib/zipslicer"
	"github.com/sassoftware/relic/v8/signers/apk"
	"github.com/sassoftware/relic/v8/verifharness/core"
)

type pcase struct {
	Parser string  `json:"parser"`
	Input  string  `json:"input"`
	Args   []int64 `json:"args"`
	Kind   string  `json:"kind"`
	Class  string  `json:"class"`
	Errc   int     `json:"errc"`
	Vals   []int64 `json:"vals"`
	Detail string  `json:"detail,omitempty"`
}

func errClass(parser string, err error) int {
	s := err.Error()
	has := func(x string) bool { return strings.Contains(s, x) }
	switch parser {
	case "binpatch_load":
		if has("unsupported binpatch version") {
			return 2
		}
		return 1
	case "zip_cd":
		switch {
		case has("expected end record"):
			return 5
		case has("missing ZIP64 header"):
			return 4
		case has("central directory is truncated"):
			return 11
		}
		return 98
	case "apk_signers", "apk_signed_data":
		if has("trailing data") {
			return 4
		}
		return 1
	case "apk_v2":
		switch {
		case has("malformed APK signing block"):
			return 3
		case has("truncated APK signing block"):
			return 1
		case has("empty APK signing block"):
			return 5
		case has("parsing signature block") && has("trailing data"):
			return 4
		case has("parsing signature block"):
			return 1
		}
		return 0 // the parse succeeded; whatever failed came later (signature / digest / v1 verification)
	case "csblob_super":
		if has("invalid length") {
			return 3
		}
		return 1
	}
	return 98
}

func guard(pc *pcase, f func() ([]int64, error)) {
	defer func() {
		if r := recover(); r != nil {
			pc.Class, pc.Detail = "panic", fmt.Sprint(r)
		}
	}()
	vals, err := f()
	if err != nil {
		pc.Errc = errClass(pc.Parser, err)
		pc.Detail = err.Error()
		if pc.Errc == 0 {
			pc.Class = "ok"
			return
		}
		pc.Class = "error"
		return
	}
	pc.Class, pc.Vals = "ok", vals
}

func le32(v uint32) []byte { b := make([]byte, 4); binary.LittleEndian.PutUint32(b, v); return b }
func le64(v uint64) []byte { b := make([]byte, 8); binary.LittleEndian.PutUint64(b, v); return b }
func be32(v uint32) []byte { b := make([]byte, 4); binary.BigEndian.PutUint32(b, v); return b }
func pfx(b []byte) []byte  { return append(le32(uint32(len(b))), b...) }
func cat(bs ...[]byte) []byte {
	var o []byte
	for _, b := range bs {
		o = append(o, b...)
	}
	return o
}

var boundary32 = []uint32{0, 1, 3, 4, 7, 8, 12, 15, 16, 17, 0x7f, 0xff, 0x100, 0xffff, 0x10000, 0x7fffffff, 0x80000000, 0xfffffff0, 0xffffffff}

// every 4-byte aligned field replaced by boundary values / off-by-small values, plus truncations
func mutate32(r *core.Rng, base []byte, bigEndian bool, out func(kind string, b []byte)) {
	for off := 0; off+4 <= len(base); off += 4 {
		var cur uint32
		if bigEndian {
			cur = binary.BigEndian.Uint32(base[off:])
		} else {
			cur = binary.LittleEndian.Uint32(base[off:])
		}
		vals := []uint32{cur + 1, cur - 1, cur + 4, cur - 4, cur + 8, cur - 8, boundary32[r.Intn(len(boundary32))], boundary32[r.Intn(len(boundary32))]}
		for _, v := range vals {
			m := append([]byte{}, base...)
			if bigEndian {
				binary.BigEndian.PutUint32(m[off:], v)
			} else {
				binary.LittleEndian.PutUint32(m[off:], v)
			}
			out(fmt.Sprintf("field@%d", off), m)
		}
	}
	for n := 0; n < len(base); n++ {
		if n < 48 || r.Chance(25) {
			out("trunc", base[:n])
		}
	}
	for i := 0; i < 24; i++ {
		m := append([]byte{}, base...)
		if len(m) > 0 {
			m[r.Intn(len(m))] ^= byte(1 << uint(r.Intn(8)))
		}
		out("bitflip", m)
	}
}

func genSigner(r *core.Rng) []byte {
	var sigs []byte
	for i := r.Intn(3); i > 0; i-- {
		sigs = append(sigs, pfx(cat(le32(uint32(0x0101+r.Intn(3))), pfx(r.Bytes(r.Intn(9)))))...)
	}
	return pfx(cat(pfx(r.Bytes(r.Intn(12))), pfx(sigs), pfx(r.Bytes(r.Intn(10)))))
}
func genSignerList(r *core.Rng) []byte {
	var l []byte
	for i := r.Intn(3); i > 0; i-- {
		l = append(l, genSigner(r)...)
	}
	return pfx(l)
}
func genSignedData(r *core.Rng) []byte {
	attrs := func() []byte {
		var a []byte
		for i := r.Intn(3); i > 0; i-- {
			a = append(a, pfx(cat(le32(uint32(r.Intn(1000))), pfx(r.Bytes(r.Intn(8)))))...)
		}
		return pfx(a)
	}
	var certs []byte
	for i := r.Intn(3); i > 0; i-- {
		certs = append(certs, pfx(r.Bytes(r.Intn(8)))...)
	}
	return pfx(cat(attrs(), pfx(certs), attrs()))
}

const apkMagic = "APK Sig Block 42"

func genSigBlock(r *core.Rng) []byte {
	var pairs []byte
	for i := r.Intn(3); i > 0; i-- {
		id := uint32(0x7109871a)
		if r.Chance(30) {
			id = uint32(r.Next())
		}
		val := genSignerList(r)
		if id != 0x7109871a {
			val = r.Bytes(r.Intn(12))
		}
		pairs = append(pairs, cat(le64(uint64(4+len(val))), le32(id), val)...)
	}
	size := uint64(len(pairs) + 8 + 16)
	return cat(le64(size), pairs, le64(size), []byte(apkMagic))
}

// a minimal APK: one stored member, the gap, central directory, end record
func buildApk(gap []byte, cdOffsetAdj int) []byte {
	name := []byte("a")
	data := []byte("hi")
	crc := uint32(0xd8932aac) // crc32("hi")
	lfh := cat(le32(0x04034b50), []byte{20, 0, 0, 0, 0, 0, 0, 0, 0x21, 0}, le32(crc), le32(2), le32(2), []byte{1, 0, 0, 0}, name, data)
	cd := cat(le32(0x02014b50), []byte{20, 0, 20, 0, 0, 0, 0, 0, 0, 0, 0x21, 0}, le32(crc), le32(2), le32(2), []byte{1, 0, 0, 0, 0, 0, 0, 0, 0, 0}, le32(0), le32(0), name)
	cdOff := len(lfh) + len(gap) + cdOffsetAdj
	eocd := cat(le32(0x06054b50), []byte{0, 0, 0, 0, 1, 0, 1, 0}, le32(uint32(len(cd))), le32(uint32(cdOff)), []byte{0, 0})
	return cat(lfh, gap, cd, eocd)
}

func init() {
	core.Register("c11p", func(c *core.Ctx) error {
		r := &core.Rng{S: c.Seed*1000003 + 11}
		scale := 1
		if c.Tier == "thorough" {
			scale = 6
		}
		emit := func(pc *pcase) { c.Emit(pc) }
		// ---------------- binpatch.Load
		runLoad := func(kind string, b []byte) {
			pc := &pcase{Parser: "binpatch_load", Input: hex.EncodeToString(b), Kind: kind}
			guard(pc, func() ([]int64, error) {
				p, err := binpatch.Load(b)
				if err != nil {
					return nil, err
				}
				var tot int64
				for _, bl := range p.Blobs {
					tot += int64(len(bl))
				}
				v := []int64{int64(len(p.Patches)), tot}
				for _, h := range p.Patches {
					v = append(v, h.Offset, int64(h.OldSize), int64(h.NewSize))
				}
				return v, nil
			})
			emit(pc)
		}
		for i := 0; i < 6*scale; i++ {
			ps := binpatch.New()
			off := int64(0)
			for k := r.Intn(4); k > 0; k-- {
				off += int64(1 + r.Intn(50))
				ps.Add(off, int64(r.Intn(9)), r.Bytes(r.Intn(7)))
				off += 10
			}
			base := ps.Dump()
			runLoad("valid", base)
			mutate32(r, base, true, runLoad)
		}
		for i := 0; i < 40*scale; i++ {
			runLoad("random", r.Bytes(r.Intn(40)))
		}
		// ---------------- zipslicer.ReadWithDirectory on the directory blob alone
		runCd := func(kind string, b []byte) {
			size := int64(len(b) + 64)
			pc := &pcase{Parser: "zip_cd", Input: hex.EncodeToString(b), Args: []int64{size}, Kind: kind}
			guard(pc, func() ([]int64, error) {
				d, err := zipslicer.ReadWithDirectory(bytes.NewReader(nil), size, b)
				if err != nil {
					return nil, err
				}
				return []int64{int64(len(d.File)), d.DirLoc}, nil
			})
			emit(pc)
		}
		for i := 0; i < 4*scale; i++ {
			var cd []byte
			n := r.Intn(3)
			for k := 0; k < n; k++ {
				name := r.Bytes(1 + r.Intn(5))
				extra := []byte{}
				if r.Chance(40) {
					extra = cat([]byte{byte(r.Intn(3)), 0}, []byte{byte(4 * r.Intn(3)), 0}, r.Bytes(8))[:4+4*r.Intn(3)]
				}
				comment := r.Bytes(r.Intn(3))
				hdr := cat(le32(0x02014b50), r.Bytes(12), le32(uint32(r.Next())), le32(boundary32[r.Intn(len(boundary32))]), le32(uint32(r.Intn(100))),
					[]byte{byte(len(name)), 0, byte(len(extra)), 0, byte(len(comment)), 0}, r.Bytes(8), le32(uint32(r.Intn(1000))), name, extra, comment)
				cd = append(cd, hdr...)
			}
			eocd := cat(le32(0x06054b50), []byte{0, 0, 0, 0, byte(n), 0, byte(n), 0}, le32(uint32(len(cd))), le32(64), []byte{0, 0})
			base := cat(cd, eocd)
			runCd("valid", base)
			mutate32(r, base, false, runCd)
			// 16-bit length fields are not 4-aligned: hit them explicitly
			for off := 28; off+2 <= len(cd) && off < 34; off += 2 {
				for _, v := range []uint16{0, 1, 0xff, 0xfffe, 0xffff} {
					m := append([]byte{}, base...)
					binary.LittleEndian.PutUint16(m[off:], v)
					runCd(fmt.Sprintf("len16@%d", off), m)
				}
			}
		}
		// ---------------- apk length-prefixed structures
		runUm := func(parser string) func(string, []byte) {
			return func(kind string, b []byte) {
				pc := &pcase{Parser: parser, Input: hex.EncodeToString(b), Kind: kind}
				guard(pc, func() ([]int64, error) {
					if parser == "apk_signers" {
						l, err := apk.VerifUnmarshalSigners(b)
						if err != nil {
							return nil, err
						}
						v := []int64{int64(len(l))}
						for _, s := range l {
							v = append(v, int64(s[0]), int64(s[1]), int64(s[2]))
						}
						return v, nil
					}
					l, err := apk.VerifUnmarshalSignedData(b)
					if err != nil {
						return nil, err
					}
					return []int64{int64(l[0]), int64(l[1]), int64(l[2])}, nil
				})
				emit(pc)
			}
		}
		for i := 0; i < 5*scale; i++ {
			base := genSignerList(r)
			runUm("apk_signers")("valid", base)
			mutate32(r, base, false, runUm("apk_signers"))
			base = genSignedData(r)
			runUm("apk_signed_data")("valid", base)
			mutate32(r, base, false, runUm("apk_signed_data"))
		}
		// ---------------- apk: the whole v2 block through the real verifier on a real file
		dir := c.Scratch
		if dir == "" {
			dir = os.TempDir()
		}
		tmp := filepath.Join(dir, fmt.Sprintf("c11p-%d.apk", os.Getpid()))
		defer os.Remove(tmp)
		runV2 := func(kind string, gap []byte) {
			file := buildApk(gap, 0)
			sigLoc := int64(30 + 1 + 2)
			dirLoc := sigLoc + int64(len(gap))
			pc := &pcase{Parser: "apk_v2", Input: hex.EncodeToString(gap), Args: []int64{int64(len(file)), sigLoc, dirLoc}, Kind: kind}
			if err := os.WriteFile(tmp, file, 0o644); err != nil {
				return
			}
			f, err := os.Open(tmp)
			if err != nil {
				return
			}
			defer f.Close()
			guard(pc, func() ([]int64, error) {
				_, err := apk.VerifVerifyFile(f)
				return nil, err
			})
			pc.Vals = nil
			emit(pc)
		}
		runV2("unsigned", nil)
		for i := 0; i < 4*scale; i++ {
			base := genSigBlock(r)
			runV2("valid", base)
			mutate32(r, base, false, runV2)
		}
		for i := 0; i < 20*scale; i++ {
			runV2("random+magic", cat(r.Bytes(r.Intn(40)), []byte(apkMagic)))
			runV2("random", r.Bytes(1+r.Intn(40)))
		}
		// ---------------- apkSigner.Verify: merkle hasher over the requested hash list, then digests[i] for every requested entry
		{
			apkFile := buildApk(nil, 0)
			inz, zerr := zipslicer.Read(bytes.NewReader(apkFile), int64(len(apkFile)))
			lists := [][]crypto.Hash{{crypto.SHA256}, {crypto.SHA512}, {crypto.SHA256, crypto.SHA512}, {crypto.SHA256, crypto.SHA256}, {crypto.SHA512, crypto.SHA256, crypto.SHA512},
				{crypto.SHA256, crypto.SHA512, crypto.SHA256, crypto.SHA512}, {}}
			for _, hs := range lists {
				args := make([]int64, len(hs))
				for i, h := range hs {
					args[i] = int64(h)
				}
				pc := &pcase{Parser: "apk_digest_loop", Input: "", Args: args, Kind: fmt.Sprintf("hashes=%v", hs)}
				hs := hs
				guard(pc, func() ([]int64, error) {
					if zerr != nil {
						return nil, zerr
					}
					h := apk.VerifNewMerkleHasher(hs)
					for _, f := range inz.File {
						if _, err := f.Dump(h); err != nil {
							return nil, err
						}
					}
					digests, err := h.Finish(inz, false)
					if err != nil {
						return nil, err
					}
					for i := range hs {
						_ = digests[i]
					}
					return []int64{int64(len(digests))}, nil
				})
				emit(pc)
			}
		}
		// ---------------- signxap.removeSignature
		runXap := func(kind string, b []byte) {
			pc := &pcase{Parser: "xap_trailer", Input: hex.EncodeToString(b), Kind: kind}
			guard(pc, func() ([]int64, error) { return []int64{int64(len(signxap.VerifRemoveSignature(b)))}, nil })
			emit(pc)
		}
		for i := 0; i < 6*scale; i++ {
			sig := r.Bytes(r.Intn(20))
			base := cat(r.Bytes(r.Intn(30)), []byte{1, 0, 1, 0}, le32(uint32(len(sig))), sig, []byte("XapS"), []byte{1, 0}, le32(uint32(len(sig)+8)))
			runXap("valid", base)
			for _, v := range boundary32 {
				m := append([]byte{}, base...)
				binary.LittleEndian.PutUint32(m[len(m)-4:], v)
				runXap("tsize", m)
			}
			for d := -12; d <= 12; d++ {
				m := append([]byte{}, base...)
				binary.LittleEndian.PutUint32(m[len(m)-4:], uint32(len(sig)+8+d))
				runXap("tsize-near", m)
				m2 := append([]byte{}, base...)
				binary.LittleEndian.PutUint32(m2[len(m2)-4:], uint32(len(base)-10+d))
				runXap("tsize-near-len", m2)
			}
			for n := 0; n < 14 && n <= len(base); n++ {
				runXap("short", base[len(base)-n:])
			}
		}
		// ---------------- csblob.parseSuper
		runSuper := func(kind string, b []byte) {
			pc := &pcase{Parser: "csblob_super", Input: hex.EncodeToString(b), Kind: kind}
			guard(pc, func() ([]int64, error) {
				magic, items, err := csblob.VerifParseSuper(b)
				if err != nil {
					return nil, err
				}
				v := []int64{int64(magic), int64(len(items))}
				for _, it := range items {
					v = append(v, int64(it.IType), int64(it.Magic), int64(it.Length))
				}
				return v, nil
			})
			emit(pc)
		}
		for i := 0; i < 6*scale; i++ {
			n := r.Intn(4)
			var idx, data []byte
			dataOff := 12 + 8*n
			for k := 0; k < n; k++ {
				payload := r.Bytes(r.Intn(10))
				item := cat(be32(0xfade0c00+uint32(k)), be32(uint32(8+len(payload))), payload)
				idx = append(idx, cat(be32(uint32(k)), be32(uint32(dataOff+len(data))))...)
				data = append(data, item...)
			}
			base := cat(be32(0xfade0cc0), be32(uint32(12+len(idx)+len(data))), be32(uint32(n)), idx, data)
			runSuper("valid", base)
			mutate32(r, base, true, runSuper)
		}
		for i := 0; i < 40*scale; i++ {
			runSuper("random", r.Bytes(r.Intn(48)))
		}
		runTextParsers(c, r, scale)
		return nil
	})
}
