package c11

import (
	"bytes"
	"encoding/base64"
	"encoding/binary"
	"encoding/pem"
	"fmt"
	"os"
	"regexp"
	"strings"
	"unicode/utf16"
)

// ------------------------------------------------------------------ DER
type tlv struct {
	off, hdr, length int // header offset, header size, content length
	tag              byte
	depth            int
}

func walkDer(d []byte, from, to, depth int, out *[]tlv, limit int) {
	p := from
	for p+2 <= to && len(*out) < limit {
		tag := d[p]
		l := int(d[p+1])
		h := 2
		if l&0x80 != 0 {
			n := l & 0x7f
			if n == 0 || n > 4 || p+2+n > to {
				return
			}
			l = 0
			for i := 0; i < n; i++ {
				l = l<<8 | int(d[p+2+i])
			}
			h = 2 + n
		}
		if p+h+l > to {
			return
		}
		*out = append(*out, tlv{p, h, l, tag, depth})
		if tag&0x20 != 0 && depth < 12 {
			walkDer(d, p+h, p+h+l, depth+1, out, limit)
		} else if (tag == 0x04 || tag == 0x03) && l > 2 && depth < 12 {
			// OCTET/BIT STRINGs wrapping DER (timestamp tokens, SPC blobs)
			s := p + h
			if tag == 0x03 {
				s++
			}
			if s < p+h+l && d[s] == 0x30 {
				var inner []tlv
				walkDer(d, s, p+h+l, depth+1, &inner, 4)
				if len(inner) > 0 && inner[0].off+inner[0].hdr+inner[0].length == p+h+l {
					walkDer(d, s, p+h+l, depth+1, out, limit)
				}
			}
		}
		p += h + l
	}
}

// derLengthEdits: alternative encodings of the length field of one TLV
func derLengthEdits(t tlv) map[string][]byte {
	m := map[string][]byte{}
	l := t.length
	short := func(v int) []byte { return []byte{byte(v)} }
	long := func(v uint64, n int) []byte {
		b := make([]byte, 8)
		binary.BigEndian.PutUint64(b, v)
		return append([]byte{0x80 | byte(n)}, b[8-n:]...)
	}
	m["len=0"] = short(0)
	m["len=1"] = short(1)
	m["len-1"] = long(uint64(max(l-1, 0)), 4)
	m["len+1"] = long(uint64(l+1), 4)
	m["len=7f"] = short(0x7f)
	m["len=indef"] = []byte{0x80}
	m["len=2^31"] = long(0x80000000, 4)
	m["len=2^32-1"] = long(0xffffffff, 4)
	m["len=2^63"] = long(0x8000000000000000, 8)
	m["len=8xff"] = long(0xffffffffffffffff, 8)
	m["lenlen=127"] = []byte{0xff}
	m["len=nonminimal"] = long(uint64(l), 4)
	return m
}

// derMutations returns whole-blob variants (used for members of rebuilt archives).
func derMutations(blob []byte, skip, limit int) map[string][]byte {
	out := map[string][]byte{}
	var ts []tlv
	walkDer(blob, skip, len(blob), 0, &ts, 400)
	step := max(1, len(ts)/max(limit/6, 1))
	for i := 0; i < len(ts); i += step {
		t := ts[i]
		for _, k := range []string{"len=0", "len+1", "len-1", "len=2^32-1", "len=indef"} {
			e := derLengthEdits(t)[k]
			nb := append([]byte{}, blob[:t.off+1]...)
			nb = append(nb, e...)
			nb = append(nb, blob[t.off+t.hdr:]...)
			out[fmt.Sprintf("der@%d.%s", t.off, k)] = nb
		}
		out[fmt.Sprintf("der@%d.trunc", t.off)] = blob[:t.off+t.hdr]
	}
	return out
}

// genDer: corrupt the DER structure in b.data[from:to] in place
func (g *gen) genDer(b *BaseFile, from, to int, label string) {
	d := b.data
	if from < 0 || to > len(d) || from >= to {
		return
	}
	var ts []tlv
	walkDer(d, from, to, 0, &ts, 2000)
	if len(ts) == 0 {
		return
	}
	// all TLVs of depth ≤ 5, a sample of the deeper ones
	budget := 60
	if g.tier == "thorough" {
		budget = 600
	}
	var pick []tlv
	for _, t := range ts {
		if t.depth <= 3 {
			pick = append(pick, t)
		}
	}
	for len(pick) < budget && len(pick) < len(ts) {
		pick = append(pick, ts[g.rng.Intn(len(ts))])
	}
	if len(pick) > budget {
		pick = pick[:budget]
	}
	var bounds []int
	for _, t := range pick {
		for k, e := range derLengthEdits(t) {
			ops := []Op{del(t.off+1, t.hdr-1), ins(t.off+1, e)}
			g.add(b, fmt.Sprintf("%s@%d(tag%02x,d%d).%s", label, t.off, t.tag, t.depth, k), ops)
		}
		// tag changes: primitive<->constructed, NULL, context tags
		for _, nt := range []byte{0x05, t.tag ^ 0x20, 0xa0, 0x30, 0x31, 0x04, 0x02, 0x06, 0x1f, 0xff} {
			if nt != t.tag {
				g.add(b, fmt.Sprintf("%s@%d.tag%02x->%02x", label, t.off, t.tag, nt), []Op{ow(t.off, []byte{nt})})
			}
		}
		// empty content with consistent length (only for shallow nodes: keeps parents consistent is not attempted)
		if t.depth <= 6 && t.length > 0 && t.length < 128 {
			g.add(b, fmt.Sprintf("%s@%d.zero-content", label, t.off), []Op{ow(t.off+t.hdr, make([]byte, t.length))})
		}
		bounds = append(bounds, t.off, t.off+1, t.off+t.hdr)
	}
	g.truncAt(b, label, bounds)
}

// ------------------------------------------------------------------ XML
var reElem = regexp.MustCompile(`<([A-Za-z_][\w:.\-]*)`)

func xmlMutations(s string) map[string]string {
	m := map[string]string{}
	names := map[string]bool{}
	for _, x := range reElem.FindAllStringSubmatch(s, -1) {
		names[x[1]] = true
	}
	n := 0
	for name := range names {
		if n > 40 {
			break
		}
		n++
		open := regexp.MustCompile(`<` + regexp.QuoteMeta(name) + `(\s[^>]*)?>`)
		closeTag := "</" + name + ">"
		// remove the first element of this name entirely
		if loc := open.FindStringIndex(s); loc != nil {
			if strings.HasSuffix(s[loc[0]:loc[1]], "/>") {
				m["drop:"+name] = s[:loc[0]] + s[loc[1]:]
			} else if e := strings.Index(s[loc[1]:], closeTag); e >= 0 {
				m["drop:"+name] = s[:loc[0]] + s[loc[1]+e+len(closeTag):]
				m["empty:"+name] = s[:loc[1]] + s[loc[1]+e:]
				m["dup:"+name] = s[:loc[1]+e+len(closeTag)] + s[loc[0]:loc[1]+e+len(closeTag)] + s[loc[1]+e+len(closeTag):]
				m["text:"+name] = s[:loc[1]] + "!!not base64 / not a number!!" + s[loc[1]+e:]
			}
			m["rename:"+name] = strings.Replace(strings.Replace(s, "<"+name, "<x"+name, 1), closeTag, "</x"+name+">", 1)
			// attributes removed
			if strings.Contains(s[loc[0]:loc[1]], "=") && !strings.HasSuffix(s[loc[0]:loc[1]], "/>") {
				m["noattrs:"+name] = s[:loc[0]] + "<" + name + ">" + s[loc[1]:]
			}
		}
	}
	// attribute values emptied / made huge (first 12 attributes)
	reAttr := regexp.MustCompile(`\s([\w:.\-]+)="([^"]*)"`)
	for i, loc := range reAttr.FindAllStringSubmatchIndex(s, 24) {
		m[fmt.Sprintf("attr-empty:%s#%d", s[loc[2]:loc[3]], i)] = s[:loc[4]] + s[loc[5]:]
		m[fmt.Sprintf("attr-junk:%s#%d", s[loc[2]:loc[3]], i)] = s[:loc[4]] + "\x01#junk&<>" + s[loc[5]:]
	}
	m["unclosed"] = s[:len(s)*2/3]
	m["not-xml"] = "this is not xml"
	m["root-only"] = "<a/>"
	m["empty-doc"] = ""
	m["deep"] = strings.Repeat("<a>", 20000) + strings.Repeat("</a>", 20000)
	m["deep-unclosed"] = strings.Repeat("<a>", 100000)
	m["entity-bomb"] = `<?xml version="1.0"?><!DOCTYPE l [<!ENTITY a "aaaaaaaaaa"><!ENTITY b "&a;&a;&a;&a;&a;&a;&a;&a;&a;&a;"><!ENTITY c "&b;&b;&b;&b;&b;&b;&b;&b;&b;&b;"><!ENTITY d "&c;&c;&c;&c;&c;&c;&c;&c;&c;&c;"><!ENTITY e "&d;&d;&d;&d;&d;&d;&d;&d;&d;&d;"><!ENTITY f "&e;&e;&e;&e;&e;&e;&e;&e;&e;&e;">]><l>&f;&f;&f;&f;&f;&f;&f;&f;&f;&f;</l>`
	m["utf16-bom"] = "\xff\xfe<\x00a\x00/\x00>\x00"
	m["pi-only"] = `<?xml version="1.0" encoding="UTF-8"?>`
	m["two-roots"] = s + s
	return m
}

func (g *gen) genXML(b *BaseFile) {
	for label, mut := range xmlMutations(string(b.data)) {
		g.addRaw("xml", b.SigType, b.Name, label+signedTag(b), []byte(mut), entriesFor(b)...)
	}
}

// ------------------------------------------------------------------ PowerShell
func toUTF16(s string) []byte {
	r := utf16.Encode([]rune(s))
	out := make([]byte, 2*len(r))
	for i, x := range r {
		le.PutUint16(out[2*i:], x)
	}
	return out
}

func (g *gen) genPs(b *BaseFile) {
	ext := b.Name[strings.LastIndex(b.Name, "."):]
	st, en := "# ", ""
	switch ext {
	case ".ps1xml", ".psc1", ".cdxml":
		st, en = "<!-- ", " -->"
	case ".mof":
		st, en = "/* ", " */"
	}
	begin := st + "SIG # Begin signature block" + en + "\r\n"
	end := st + "SIG # End signature block" + en + "\r\n"
	body := "Write-Host hello\r\n"
	sigline := st + "MIIB" + en + "\r\n"
	docs := map[string]string{
		"marker-first-line":          begin + sigline + end,
		"marker-first-line-only":     begin,
		"marker-after-empty":         "\r\n" + begin + sigline + end,
		"marker-after-lf":            "\n" + begin + sigline + end,
		"marker-after-1char":         "x" + begin,
		"marker-after-x-lf":          "x\n" + begin + sigline + end,
		"begin-no-end":               body + begin + sigline,
		"begin-end-empty":            body + begin + end,
		"begin-twice":                body + begin + begin + sigline + end,
		"end-before-begin":           body + end + begin,
		"sigline-empty-payload":      body + begin + st + en + "\r\n" + end,
		"sigline-overlap":            body + begin + strings.TrimRight(st, " ") + en + "\r\n" + end,
		"sigline-prefix-only":        body + begin + st + "\r\n" + end,
		"sigline-suffix-only":        body + begin + en + "\r\n" + end,
		"sigline-bad-base64":         body + begin + st + "!!!!" + en + "\r\n" + end,
		"sigline-no-crlf":            body + begin + st + "MIIB" + en + "\n" + end,
		"sigline-huge":               body + begin + st + strings.Repeat("A", 1<<20) + en + "\r\n" + end,
		"no-trailing-newline":        "Write-Host hello",
		"empty":                      "",
		"only-cr":                    "\r",
		"only-lf":                    "\n",
		"only-crlf":                  "\r\n",
		"marker-without-crlf-at-eof": body + strings.TrimRight(begin, "\r\n"),
		"marker-lf-eol":              body + strings.Replace(begin, "\r\n", "\n", 1) + sigline + end,
		"nul-bytes":                  "a\x00b\x00\r\n" + begin + sigline + end,
		"long-line":                  strings.Repeat("x", 3<<20) + "\r\n",
		"der-empty-seq":              body + begin + st + "MAA=" + en + "\r\n" + end,
		"der-short":                  body + begin + st + "MA==" + en + "\r\n" + end,
	}
	for label, doc := range docs {
		g.addRaw("ps", "ps", b.Name, "crafted:"+label, []byte(doc), "verify", "issigned", "transform", "sign", "remote")
		u := append([]byte{0xff, 0xfe}, toUTF16(doc)...)
		g.addRaw("ps", "ps", b.Name, "crafted-utf16:"+label, u, "verify", "sign", "remote")
		if len(u) > 3 {
			g.addRaw("ps", "ps", b.Name, "crafted-utf16-odd:"+label, u[:len(u)-1], "verify", "sign")
		}
	}
	// marker first in UTF-16 without anything before it but the BOM
	g.addRaw("ps", "ps", b.Name, "utf16-bom-then-marker", append([]byte{0xff, 0xfe}, toUTF16(begin+sigline+end)...), "verify", "sign", "remote", "transform")
	g.addRaw("ps", "ps", b.Name, "utf16-bom-only", []byte{0xff, 0xfe}, "verify", "sign", "remote", "transform")
	g.addRaw("ps", "ps", b.Name, "utf16-bom-newline-nonzero", []byte{0xff, 0xfe, 'a', 0, '\n', 1}, "verify", "sign")
	g.addRaw("ps", "ps", b.Name, "utf16-bom-newline-eof", []byte{0xff, 0xfe, 'a', 0, '\n'}, "verify", "sign")
	// server side: ps-style / filename games
	for _, q := range []string{"ps-style=", "ps-style=bogus", "ps-style=.ps1", "ps-style=.mof", "ps-style=.ps1xml"} {
		g.addQ(b, "query:"+q, nil, q, "sign")
	}
	// the embedded PKCS#7 of a signed script
	if b.Signed {
		s := string(b.data)
		if i := strings.Index(s, "SIG # Begin"); i >= 0 {
			lines := strings.Split(s[i:], "\r\n")
			var b64 strings.Builder
			for _, l := range lines[1:] {
				l = strings.TrimSuffix(strings.TrimPrefix(l, st), en)
				if strings.HasPrefix(l, "SIG #") {
					break
				}
				b64.WriteString(l)
			}
			if der, err := base64.StdEncoding.DecodeString(b64.String()); err == nil && len(der) > 0 {
				prefix := s[:i]
				prefix = prefix[:strings.LastIndex(prefix, st)]
				for label, mut := range derMutations(der, 0, 60) {
					var sb strings.Builder
					sb.WriteString(prefix)
					sb.WriteString(begin)
					e := base64.StdEncoding.EncodeToString(mut)
					for k := 0; k < len(e); k += 64 {
						sb.WriteString(st + e[k:min(k+64, len(e))] + en + "\r\n")
					}
					sb.WriteString(end)
					g.addRaw("ps", "ps", b.Name, "p7:"+label, []byte(sb.String()), "verify")
				}
			}
		}
	}
}

// ------------------------------------------------------------------ OpenPGP
func crc24(d []byte) uint32 {
	crc := uint32(0xb704ce)
	for _, c := range d {
		crc ^= uint32(c) << 16
		for i := 0; i < 8; i++ {
			crc <<= 1
			if crc&0x1000000 != 0 {
				crc ^= 0x1864cfb
			}
		}
	}
	return crc & 0xffffff
}

func armor(kind string, body []byte) string {
	var sb strings.Builder
	sb.WriteString("-----BEGIN PGP " + kind + "-----\n\n")
	e := base64.StdEncoding.EncodeToString(body)
	for i := 0; i < len(e); i += 64 {
		sb.WriteString(e[i:min(i+64, len(e))] + "\n")
	}
	c := crc24(body)
	sb.WriteString("=" + base64.StdEncoding.EncodeToString([]byte{byte(c >> 16), byte(c >> 8), byte(c)}) + "\n")
	sb.WriteString("-----END PGP " + kind + "-----\n")
	return sb.String()
}

func (g *gen) genPgp(b *BaseFile) {
	s := string(b.data)
	i := strings.Index(s, "-----BEGIN PGP SIGNATURE-----")
	if i < 0 {
		return
	}
	blk, _ := pemLikeDecode(s[i:])
	if blk == nil {
		return
	}
	head := s[:i]
	rebuild := func(body []byte) []byte { return []byte(head + armor("SIGNATURE", body)) }
	// packet-level corruption of the binary signature packet
	pkt := blk
	var fs []struct {
		n    string
		o, w int
	}
	if len(pkt) > 3 {
		fs = append(fs, struct {
			n    string
			o, w int
		}{"pkt.tag", 0, 1}, struct {
			n    string
			o, w int
		}{"pkt.len", 1, 2})
		h := 3
		if pkt[0]&0x40 != 0 { // new format
			h = 2
			if pkt[1] >= 192 {
				h = 3
			}
		} else if pkt[0]&3 == 0 {
			h = 2
		}
		if len(pkt) > h+6 {
			fs = append(fs, struct {
				n    string
				o, w int
			}{"sig.version", h, 1}, struct {
				n    string
				o, w int
			}{"sig.type", h + 1, 1}, struct {
				n    string
				o, w int
			}{"sig.pkalg", h + 2, 1}, struct {
				n    string
				o, w int
			}{"sig.hashalg", h + 3, 1}, struct {
				n    string
				o, w int
			}{"sig.hashedlen", h + 4, 2})
			hl := int(be.Uint16(pkt[h+4:]))
			if h+6+hl+2 <= len(pkt) {
				fs = append(fs, struct {
					n    string
					o, w int
				}{"sig.unhashedlen", h + 6 + hl, 2})
				// subpacket lengths
				p := h + 6
				for k := 0; p < h+6+hl && k < 6; k++ {
					fs = append(fs, struct {
						n    string
						o, w int
					}{fmt.Sprintf("sig.sub[%d].len", k), p, 1}, struct {
						n    string
						o, w int
					}{fmt.Sprintf("sig.sub[%d].type", k), p + 1, 1})
					p += 1 + int(pkt[p])
				}
				ul := int(be.Uint16(pkt[h+6+hl:]))
				m := h + 6 + hl + 2 + ul + 2
				if m+2 <= len(pkt) {
					fs = append(fs, struct {
						n    string
						o, w int
					}{"sig.mpi.bits", m, 2})
				}
			}
		}
	}
	ents := entriesFor(b)
	for _, f := range fs {
		for _, v := range boundaryVals(f.w) {
			nb := append([]byte{}, pkt...)
			copy(nb[f.o:], encInt(v, f.w, true))
			g.addRawC(b, fmt.Sprintf("pgp:%s=%#x", f.n, v), rebuild(nb), ents...)
		}
	}
	for k := 0; k < len(pkt); k += max(1, len(pkt)/40) {
		g.addRawC(b, fmt.Sprintf("pgp:pkt-trunc@%d", k), rebuild(pkt[:k]), ents...)
	}
	// armor-level
	arm := s[i:]
	for label, v := range map[string]string{
		"armor-no-end":        strings.Replace(arm, "-----END PGP SIGNATURE-----", "", 1),
		"armor-no-blank-line": strings.Replace(arm, "\n\n", "\n", 1),
		"armor-bad-crc":       regexp.MustCompile(`\n=....\n`).ReplaceAllString(arm, "\n=AAAA\n"),
		"armor-no-crc":        regexp.MustCompile(`\n=....\n`).ReplaceAllString(arm, "\n"),
		"armor-empty-body":    "-----BEGIN PGP SIGNATURE-----\n\n-----END PGP SIGNATURE-----\n",
		"armor-begin-only":    "-----BEGIN PGP SIGNATURE-----\n",
		"armor-bad-base64":    strings.Replace(arm, "\n\n", "\n\n!!!!", 1),
		"armor-headers-only":  "-----BEGIN PGP SIGNATURE-----\nVersion: x\n",
		"armor-wrong-type":    strings.Replace(arm, "SIGNATURE", "MESSAGE", -1),
	} {
		g.addRawC(b, "pgp:"+label, []byte(head+v), ents...)
	}
	if strings.HasPrefix(s, "-----BEGIN PGP SIGNED MESSAGE-----") {
		for label, v := range map[string]string{
			"clearsign-no-hash-header": strings.Replace(s, "Hash: ", "Hsah: ", 1),
			"clearsign-empty-hash":     regexp.MustCompile(`Hash: [^\n]*`).ReplaceAllString(s, "Hash: "),
			"clearsign-unknown-hash":   regexp.MustCompile(`Hash: [^\n]*`).ReplaceAllString(s, "Hash: NOPE"),
			"clearsign-no-body":        "-----BEGIN PGP SIGNED MESSAGE-----\nHash: SHA256\n\n" + arm,
			"clearsign-header-only":    "-----BEGIN PGP SIGNED MESSAGE-----\n",
			"clearsign-dash-lines":     strings.Replace(s, "\n\n", "\n\n- -\n-\n--\n", 1),
		} {
			g.addRawC(b, "pgp:"+label, []byte(v), ents...)
		}
	}
}

func (g *gen) addRawC(b *BaseFile, mut string, raw []byte, entries ...string) {
	n := len(g.cases)
	g.addRaw(b.Family, b.SigType, b.Name, mut+signedTag(b), raw, entries...)
	for i := n; i < len(g.cases); i++ {
		g.cases[i].Content = b.Content
	}
}

func pemLikeDecode(s string) ([]byte, string) {
	lines := strings.Split(s, "\n")
	var b64 strings.Builder
	in := false
	for _, l := range lines[1:] {
		l = strings.TrimRight(l, "\r")
		if strings.HasPrefix(l, "-----END") {
			break
		}
		if !in {
			if l == "" {
				in = true
			}
			continue
		}
		if strings.HasPrefix(l, "=") {
			continue
		}
		b64.WriteString(l)
	}
	d, err := base64.StdEncoding.DecodeString(b64.String())
	if err != nil {
		return nil, ""
	}
	return d, ""
}

// ------------------------------------------------------------------ inputs built from scratch
func (g *gen) genCrafted() {
	// binpatch: header {version u32, numpatches u32} + numpatches*{offset i64, old u32, new u32} + blobs (big endian)
	bp := func(ver, n uint32, hdrs [][3]uint64, tail []byte) []byte {
		var b bytes.Buffer
		binary.Write(&b, binary.BigEndian, ver)
		binary.Write(&b, binary.BigEndian, n)
		for _, h := range hdrs {
			binary.Write(&b, binary.BigEndian, h[0])
			binary.Write(&b, binary.BigEndian, uint32(h[1]))
			binary.Write(&b, binary.BigEndian, uint32(h[2]))
		}
		b.Write(tail)
		return b.Bytes()
	}
	for _, n := range []uint32{0, 1, 2, 0xffff, 0x100000, 0x1000000, 0x8000000, 0x10000000, 0x7fffffff, 0x80000000, 0xffffffff} {
		g.addRaw("binpatch", "-", "patch.bin", fmt.Sprintf("numpatches=%#x-no-headers", n), bp(1, n, nil, nil), "patchload", "patch")
		g.addRaw("binpatch", "-", "patch.bin", fmt.Sprintf("numpatches=%#x-one-header", n), bp(1, n, [][3]uint64{{0, 0, 4}}, []byte("abcd")), "patchload", "patch")
	}
	for _, sz := range []uint64{0, 1, 4, 5, 0x7fffffff, 0x80000000, 0xffffffff, 0x10000000} {
		g.addRaw("binpatch", "-", "patch.bin", fmt.Sprintf("newsize=%#x", sz), bp(1, 1, [][3]uint64{{0, 0, sz}}, []byte("abcd")), "patchload", "patch")
		g.addRaw("binpatch", "-", "patch.bin", fmt.Sprintf("oldsize=%#x", sz), bp(1, 1, [][3]uint64{{0, sz, 4}}, []byte("abcd")), "patchload", "patch")
	}
	for _, off := range []uint64{0, 1, 1023, 1024, 1025, 0x7fffffffffffffff, 0x8000000000000000, 0xffffffffffffffff, 0xffffffff} {
		g.addRaw("binpatch", "-", "patch.bin", fmt.Sprintf("offset=%#x", off), bp(1, 1, [][3]uint64{{off, 0, 4}}, []byte("abcd")), "patchload", "patch")
		g.addRaw("binpatch", "-", "patch.bin", fmt.Sprintf("offset=%#x-old4", off), bp(1, 1, [][3]uint64{{off, 4, 4}}, []byte("abcd")), "patchload", "patch")
	}
	g.addRaw("binpatch", "-", "patch.bin", "two-overlapping", bp(1, 2, [][3]uint64{{10, 20, 2}, {15, 20, 2}}, []byte("abcd")), "patchload", "patch")
	g.addRaw("binpatch", "-", "patch.bin", "two-out-of-order", bp(1, 2, [][3]uint64{{100, 2, 2}, {10, 2, 2}}, []byte("abcd")), "patchload", "patch")
	g.addRaw("binpatch", "-", "patch.bin", "version0", bp(0, 0, nil, nil), "patchload", "patch")
	for k := 0; k <= 24; k++ {
		full := bp(1, 1, [][3]uint64{{0, 0, 4}}, []byte("abcd"))
		if k <= len(full) {
			g.addRaw("binpatch", "-", "patch.bin", fmt.Sprintf("trunc@%d", k), full[:k], "patchload", "patch")
		}
	}
	// certificates
	crt, _ := os.ReadFile(keysDir + "/rsa2048.crt")
	blk, _ := pem.Decode(crt)
	pemOf := func(typ string, der []byte) []byte { return pem.EncodeToMemory(&pem.Block{Type: typ, Bytes: der}) }
	certs := map[string][]byte{"empty": nil, "one-byte-0x30": {0x30}, "der-short-2": {0x30, 0x00}, "der-31-bytes": append([]byte{0x30, 29}, make([]byte, 29)...),
		"pem-empty-cert": pemOf("CERTIFICATE", nil), "pem-1-byte": pemOf("CERTIFICATE", []byte{0x30}), "pem-31-bytes": pemOf("CERTIFICATE", append([]byte{0x30, 29}, make([]byte, 29)...)),
		"pem-pkcs7-empty": pemOf("PKCS7", nil), "pem-pkcs7-short": pemOf("PKCS7", []byte{0x30, 0x03, 0x02, 0x01, 0x00}), "dash-only": []byte("-"), "dashes": []byte("-----"),
		"pgp-armor-begin-only": []byte("-----BEGIN PGP PUBLIC KEY BLOCK-----\n"), "newline": []byte("\n"), "pem-other-type": pemOf("FOO", []byte{1, 2, 3}),
		"binary-junk": {0x99, 0x01, 0x0d, 0x04}, "pgp-packet-huge-len": {0xc6, 0xff, 0xff, 0xff, 0xff, 0xff, 4}}
	if blk != nil {
		for k := 0; k < len(blk.Bytes); k += max(1, len(blk.Bytes)/24) {
			certs[fmt.Sprintf("pem-cert-trunc@%d", k)] = pemOf("CERTIFICATE", blk.Bytes[:k])
			certs[fmt.Sprintf("der-cert-trunc@%d", k)] = blk.Bytes[:k]
		}
		for label, mut := range derMutations(blk.Bytes, 0, 80) {
			certs["der-cert:"+label] = mut
		}
	}
	for label, c := range certs {
		g.addRaw("cert", "-", "cert.pem", label, c, "cert")
	}
	// plain garbage presented as every type
	junk := map[string][]byte{"empty": nil, "1-byte": {0}, "4-zero": make([]byte, 4), "22-zero": make([]byte, 22), "64-zero": make([]byte, 64), "512-zero": make([]byte, 512),
		"4096-ff": bytes.Repeat([]byte{0xff}, 4096), "text": []byte("hello world\n"), "pk-eocd-only": append([]byte("PK\x05\x06"), make([]byte, 18)...),
		"pk-eocd-short": []byte("PK\x05\x06"), "mz-only": []byte("MZ"), "mz-64": append([]byte("MZ"), make([]byte, 62)...), "cfb-magic-only": {0xd0, 0xcf, 0x11, 0xe0, 0xa1, 0xb1, 0x1a, 0xe1},
		"mscf-only": []byte("MSCF"), "xar-magic-only": []byte("xar!"), "koly-only": []byte("koly"), "ar-magic": []byte("!<arch>\n"), "rpm-lead-magic": {0xed, 0xab, 0xee, 0xdb},
		"macho-magic": {0xcf, 0xfa, 0xed, 0xfe}, "fat-magic": {0xca, 0xfe, 0xba, 0xbe}, "fat-magic-narch-max": {0xca, 0xfe, 0xba, 0xbe, 0xff, 0xff, 0xff, 0xff},
		"der-seq-indef": {0x30, 0x80}, "der-seq-huge": {0x30, 0x84, 0xff, 0xff, 0xff, 0xff}, "xml-decl": []byte(`<?xml version="1.0"?>`), "json-empty": []byte("{}"), "json-null": []byte("null"),
		"json-deep":  []byte(strings.Repeat("[", 100000)),
		"koly-512":   append(append(make([]byte, 0, 512), []byte("koly")...), make([]byte, 508)...),
		"xar-hdr-28": append([]byte("xar!\x00\x1c\x00\x01"), make([]byte, 20)...),
	}
	types := map[string]string{"apk": "a.apk", "appx": "a.appx", "jar": "a.jar", "vsix": "a.vsix", "xap": "a.xap", "msi": "a.msi", "pe-coff": "a.exe", "cab": "a.cab", "cat": "a.cat", "pkcs7": "a.p7s",
		"deb": "a.deb", "rpm": "a.rpm", "pgp": "a.txt", "ps": "a.ps1", "appmanifest": "a.manifest", "dmg": "a.dmg", "xar": "a.pkg", "mach-o": "a.out", "cosign": "a.json"}
	for t, name := range types {
		for label, j := range junk {
			ents := []string{"verify", "sign"}
			if t == "cosign" {
				ents = []string{"sign"}
			}
			if t == "pkcs7" {
				ents = []string{"verify"}
			}
			switch t {
			case "apk", "appx", "jar", "vsix", "xap", "msi", "mach-o", "dmg", "pgp", "ps":
				ents = append(ents, "remote")
			}
			g.addRaw("junk", t, name, label, j, ents...)
		}
	}
}

// addQ: like add, with extra query parameters for the server entry points
func (g *gen) addQ(b *BaseFile, mut string, ops []Op, query string, entries ...string) {
	n := len(g.cases)
	g.add(b, mut+"?"+query, ops, entries...)
	for i := n; i < len(g.cases); i++ {
		g.cases[i].Query = query
		g.cases[i].Valid = false
	}
}
