package c11

import (
	"archive/tar"
	"archive/zip"
	"bytes"
	"encoding/binary"
	"fmt"
	"io"
	"os"
	"path/filepath"
	"strings"
)

var le = binary.LittleEndian

type zipLayout struct {
	eocd    int // offset of the end record, -1 if not found
	cdOff   int
	cdSize  int
	entries []zipEntry
	loc64   int // offset of zip64 locator or -1
	end64   int // offset of zip64 end record or -1
}
type zipEntry struct {
	cd        int // offset of the central directory header
	cdLen     int
	lfh       int // offset of the local header
	nameLen   int
	extraLen  int
	dataStart int
	csize     int
	hasDD     bool
	name      string
}

func parseZip(b []byte) *zipLayout {
	z := &zipLayout{eocd: -1, loc64: -1, end64: -1}
	for i := len(b) - 22; i >= 0 && i >= len(b)-22-65536; i-- {
		if le.Uint32(b[i:]) == 0x06054b50 {
			z.eocd = i
			break
		}
	}
	if z.eocd < 0 {
		return z
	}
	z.cdSize = int(le.Uint32(b[z.eocd+12:]))
	z.cdOff = int(le.Uint32(b[z.eocd+16:]))
	if z.eocd >= 20 && le.Uint32(b[z.eocd-20:]) == 0x07064b50 {
		z.loc64 = z.eocd - 20
		o := int(le.Uint64(b[z.loc64+8:]))
		if o >= 0 && o+56 <= len(b) && le.Uint32(b[o:]) == 0x06064b50 {
			z.end64 = o
			z.cdSize = int(le.Uint64(b[o+40:]))
			z.cdOff = int(le.Uint64(b[o+48:]))
		}
	}
	p := z.cdOff
	for p >= 0 && p+46 <= len(b) && le.Uint32(b[p:]) == 0x02014b50 {
		e := zipEntry{cd: p}
		nl, xl, cl := int(le.Uint16(b[p+28:])), int(le.Uint16(b[p+30:])), int(le.Uint16(b[p+32:]))
		e.cdLen = 46 + nl + xl + cl
		if p+46+nl <= len(b) {
			e.name = string(b[p+46 : p+46+nl])
		}
		e.lfh = int(le.Uint32(b[p+42:]))
		e.csize = int(le.Uint32(b[p+20:]))
		if e.lfh >= 0 && e.lfh+30 <= len(b) && le.Uint32(b[e.lfh:]) == 0x04034b50 {
			e.nameLen, e.extraLen = int(le.Uint16(b[e.lfh+26:])), int(le.Uint16(b[e.lfh+28:]))
			e.dataStart = e.lfh + 30 + e.nameLen + e.extraLen
			e.hasDD = le.Uint16(b[e.lfh+6:])&8 != 0
		} else {
			e.lfh = -1
		}
		z.entries = append(z.entries, e)
		p += e.cdLen
	}
	return z
}

var cdFields = []struct {
	n string
	o int
	w int
}{{"cd.sig", 0, 4}, {"cd.creator", 4, 2}, {"cd.reader", 6, 2}, {"cd.flags", 8, 2}, {"cd.method", 10, 2}, {"cd.crc", 16, 4}, {"cd.csize", 20, 4}, {"cd.usize", 24, 4},
	{"cd.namelen", 28, 2}, {"cd.extralen", 30, 2}, {"cd.commentlen", 32, 2}, {"cd.disk", 34, 2}, {"cd.offset", 42, 4}}
var lfhFields = []struct {
	n string
	o int
	w int
}{{"lfh.sig", 0, 4}, {"lfh.reader", 4, 2}, {"lfh.flags", 6, 2}, {"lfh.method", 8, 2}, {"lfh.crc", 14, 4}, {"lfh.csize", 18, 4}, {"lfh.usize", 22, 4}, {"lfh.namelen", 26, 2}, {"lfh.extralen", 28, 2}}
var eocdFields = []struct {
	n string
	o int
	w int
}{{"eocd.sig", 0, 4}, {"eocd.disk", 4, 2}, {"eocd.cddisk", 6, 2}, {"eocd.diskcount", 8, 2}, {"eocd.count", 10, 2}, {"eocd.cdsize", 12, 4}, {"eocd.cdoff", 16, 4}, {"eocd.commentlen", 20, 2}}

func zipFieldList(z *zipLayout, b []byte, maxEntries int) (fs []field, bounds []int) {
	if z.eocd < 0 {
		return
	}
	for _, f := range eocdFields {
		fs = append(fs, field{f.n, z.eocd + f.o, f.w, false})
	}
	bounds = append(bounds, z.eocd, z.eocd+4, z.eocd+12, z.eocd+16, z.eocd+20, z.eocd+22, z.cdOff)
	if z.loc64 >= 0 {
		fs = append(fs, field{"loc64.sig", z.loc64, 4, false}, field{"loc64.disk", z.loc64 + 4, 4, false}, field{"loc64.off", z.loc64 + 8, 8, false}, field{"loc64.disks", z.loc64 + 16, 4, false})
		bounds = append(bounds, z.loc64, z.loc64+8)
	}
	if z.end64 >= 0 {
		o := z.end64
		fs = append(fs, field{"end64.sig", o, 4, false}, field{"end64.recsize", o + 4, 8, false}, field{"end64.diskcount", o + 24, 8, false}, field{"end64.count", o + 32, 8, false}, field{"end64.cdsize", o + 40, 8, false}, field{"end64.cdoff", o + 48, 8, false})
		bounds = append(bounds, o, o+12, o+56)
	}
	idx := pickIdx(len(z.entries), maxEntries)
	for _, i := range idx {
		e := z.entries[i]
		for _, f := range cdFields {
			fs = append(fs, field{fmt.Sprintf("%s[%d]", f.n, i), e.cd + f.o, f.w, false})
		}
		bounds = append(bounds, e.cd, e.cd+4, e.cd+46, e.cd+e.cdLen)
		// extra records of the directory entry (zip64 etc.)
		xo := e.cd + 46 + int(le.Uint16(b[e.cd+28:]))
		xl := int(le.Uint16(b[e.cd+30:]))
		for p := xo; p+4 <= xo+xl && p+4 <= len(b); {
			fs = append(fs, field{fmt.Sprintf("cd.extra.tag[%d]", i), p, 2, false}, field{fmt.Sprintf("cd.extra.size[%d]", i), p + 2, 2, false})
			p += 4 + int(le.Uint16(b[p+2:]))
		}
		if e.lfh >= 0 {
			for _, f := range lfhFields {
				fs = append(fs, field{fmt.Sprintf("%s[%d]", f.n, i), e.lfh + f.o, f.w, false})
			}
			bounds = append(bounds, e.lfh, e.lfh+4, e.lfh+30, e.dataStart, e.dataStart+e.csize)
			if e.hasDD && e.dataStart+e.csize+16 <= len(b) {
				d := e.dataStart + e.csize
				fs = append(fs, field{fmt.Sprintf("dd.sig[%d]", i), d, 4, false}, field{fmt.Sprintf("dd.crc[%d]", i), d + 4, 4, false},
					field{fmt.Sprintf("dd.csize[%d]", i), d + 8, 4, false}, field{fmt.Sprintf("dd.usize[%d]", i), d + 12, 4, false})
				bounds = append(bounds, d, d+4, d+16, d+24)
			}
		}
	}
	return
}

// pickIdx: first, second, last and a middle element (all when n is small)
func pickIdx(n, max int) []int {
	if n <= max {
		r := make([]int, n)
		for i := range r {
			r[i] = i
		}
		return r
	}
	set := map[int]bool{0: true, 1: true, n - 1: true, n / 2: true, n - 2: true}
	var r []int
	for i := 0; i < n; i++ {
		if set[i] && len(r) < max {
			r = append(r, i)
		}
	}
	return r
}

func (g *gen) genZip(b *BaseFile) {
	z := parseZip(b.data)
	if z.eocd < 0 {
		return
	}
	maxE := 3
	if g.tier == "thorough" {
		maxE = 8
	}
	fs, bounds := zipFieldList(z, b.data, maxE)
	g.sweepFields(b, fs)
	g.truncAt(b, "zip", bounds)
	// a central directory of k bytes: point the end record at the last k bytes before it
	for _, k := range []int{0, 1, 2, 3, 4, 5, 21, 22, 23, 45, 46, 47} {
		if z.eocd-k < 0 {
			continue
		}
		g.add(b, fmt.Sprintf("cdoff=eocd-%d", k), []Op{ow(z.eocd+16, encInt(uint64(z.eocd-k), 4, false))})
		g.add(b, fmt.Sprintf("cdoff=eof-%d", k), []Op{ow(z.eocd+16, encInt(uint64(len(b.data)-k), 4, false))})
	}
	// the end record directly at offset 0 (no members)
	g.add(b, "only-eocd", []Op{del(0, z.eocd), ow(16, encInt(0, 4, false)), ow(10, encInt(0, 2, false)), ow(8, encInt(0, 2, false))})
	// APK signing block / non-zip data between the last member and the directory
	if len(z.entries) > 0 {
		last := z.entries[len(z.entries)-1]
		if last.lfh >= 0 {
			end := last.dataStart + last.csize
			if last.hasDD {
				end += 16
			}
			if end < z.cdOff && z.cdOff <= len(b.data) {
				g.genApkBlock(b, end, z.cdOff)
			} else if b.SigType == "apk" {
				// unsigned: put k junk bytes between the last member and the directory
				for _, k := range []int{1, 8, 15, 16, 17, 23, 24, 25, 32} {
					junk := bytes.Repeat([]byte{0}, k)
					if k >= 16 {
						copy(junk[k-16:], "APK Sig Block 42")
					}
					g.add(b, fmt.Sprintf("apk-gap%d", k), []Op{ins(z.cdOff, junk), ow(z.eocd+k+16, encInt(uint64(z.cdOff+k), 4, false))})
				}
			}
		}
	}
	// XAP trailer
	if n := len(b.data); n > 10 && le.Uint32(b.data[n-10:]) == 0x53706158 {
		tsz := int(le.Uint32(b.data[n-4:]))
		g.sweepFields(b, []field{{"xap.trailer.magic", n - 10, 4, false}, {"xap.trailer.unk", n - 6, 2, false}, {"xap.trailer.size", n - 4, 4, false}})
		if h := n - 10 - tsz; h >= 0 {
			g.sweepFields(b, []field{{"xap.hdr.unk1", h, 2, false}, {"xap.hdr.unk2", h + 2, 2, false}, {"xap.hdr.sigsize", h + 4, 4, false}})
			g.truncAt(b, "xap", []int{h, h + 8, n - 10})
			g.genDer(b, h+8, n-10, "xap.p7")
		}
	} else if b.SigType == "xap" {
		// unsigned: append a trailer claiming various sizes
		for _, sz := range []uint32{0, 1, 8, 0xffff, uint32(len(b.data)), uint32(len(b.data)) + 1, 0x7fffffff, 0xfffffff6, 0xffffffff} {
			t := append([]byte{0x58, 0x61, 0x70, 0x53, 1, 0}, encInt(uint64(sz), 4, false)...)
			g.add(b, fmt.Sprintf("xap-trailer-size=%#x", sz), []Op{ins(len(b.data), t)})
		}
	}
	g.genZipContent(b, z)
}

// genApkBlock: corrupt the APK Signing Block found in [from,to)
func (g *gen) genApkBlock(b *BaseFile, from, to int) {
	d := b.data
	fs := []field{{"apk.size1", from, 8, false}, {"apk.size2", to - 24, 8, false}, {"apk.magic", to - 16, 8, false}}
	bounds := []int{from, from + 8, to - 24, to - 16, to}
	// id-value pairs
	p := from + 8
	for p+12 <= to-24 {
		sz := int(le.Uint64(d[p:]))
		fs = append(fs, field{"apk.pair.size", p, 8, false}, field{"apk.pair.id", p + 8, 4, false})
		bounds = append(bounds, p, p+8, p+12)
		if sz < 4 || p+8+sz > to-24 {
			break
		}
		if le.Uint32(d[p+8:]) == 0x7109871a {
			// nested uint32-length-prefixed structure: walk it heuristically
			g.walkPrefixed(d, p+12, p+8+sz, 0, &fs, &bounds)
		}
		p += 8 + sz
	}
	g.sweepFields(b, fs)
	g.truncAt(b, "apkblock", bounds)
	// a signing block shorter than its own trailer
	for _, k := range []int{16, 17, 20, 23, 24, 31} {
		blk := make([]byte, k)
		copy(blk[k-16:], "APK Sig Block 42")
		g.add(b, fmt.Sprintf("apk-block-len%d", k), []Op{del(from, to-from), ins(from, blk)})
	}
}

// walkPrefixed: every uint32 length prefix of a nested length-prefixed region becomes a field
func (g *gen) walkPrefixed(d []byte, from, to, depth int, fs *[]field, bounds *[]int) {
	if depth > 6 {
		return
	}
	p := from
	n := 0
	for p+4 <= to && n < 8 {
		sz := int(le.Uint32(d[p:]))
		if sz < 0 || p+4+sz > to {
			return
		}
		*fs = append(*fs, field{fmt.Sprintf("apk.len.d%d", depth), p, 4, false})
		*bounds = append(*bounds, p, p+4)
		if sz >= 8 {
			g.walkPrefixed(d, p+4, p+4+sz, depth+1, fs, bounds)
			// structures may start with a plain uint32 (ID) followed by a prefixed value
			g.walkPrefixed(d, p+8, p+4+sz, depth+1, fs, bounds)
		}
		p += 4 + sz
		n++
	}
}

// ---- content-level corruption: rebuild the archive with one member replaced (harness-owned writer: archive/zip)

func rebuildZip(data []byte, replace map[string][]byte, add []zipAdd, drop map[string]bool) ([]byte, error) {
	zr, err := zip.NewReader(bytes.NewReader(data), int64(len(data)))
	if err != nil {
		return nil, err
	}
	var out bytes.Buffer
	zw := zip.NewWriter(&out)
	put := func(name string, content []byte, method uint16) error {
		w, err := zw.CreateHeader(&zip.FileHeader{Name: name, Method: method})
		if err != nil {
			return err
		}
		_, err = w.Write(content)
		return err
	}
	for _, a := range add {
		if a.first {
			if err := put(a.name, a.data, zip.Deflate); err != nil {
				return nil, err
			}
		}
	}
	for _, f := range zr.File {
		if drop[f.Name] {
			continue
		}
		var content []byte
		if c, ok := replace[f.Name]; ok {
			content = c
		} else {
			rc, err := f.Open()
			if err != nil {
				return nil, err
			}
			content, err = io.ReadAll(rc)
			rc.Close()
			if err != nil {
				return nil, err
			}
		}
		if err := put(f.Name, content, f.Method); err != nil {
			return nil, err
		}
	}
	for _, a := range add {
		if !a.first {
			if err := put(a.name, a.data, zip.Deflate); err != nil {
				return nil, err
			}
		}
	}
	if err := zw.Close(); err != nil {
		return nil, err
	}
	return out.Bytes(), nil
}

type zipAdd struct {
	name  string
	data  []byte
	first bool
}

func readZipMember(data []byte, name string) []byte {
	zr, err := zip.NewReader(bytes.NewReader(data), int64(len(data)))
	if err != nil {
		return nil
	}
	for _, f := range zr.File {
		if f.Name == name {
			rc, err := f.Open()
			if err != nil {
				return nil
			}
			defer rc.Close()
			c, _ := io.ReadAll(rc)
			return c
		}
	}
	return nil
}

// text-level corruptions of manifests / XML parts
func textMutations(orig []byte, kind string) map[string][]byte {
	m := map[string][]byte{}
	s := string(orig)
	m["empty"] = nil
	m["one-byte"] = []byte("x")
	m["nul"] = []byte{0}
	m["half"] = orig[:len(orig)/2]
	m["no-final-newline"] = bytes.TrimRight(orig, "\r\n")
	m["only-newlines"] = []byte("\r\n\r\n\r\n")
	switch kind {
	case "manifest":
		m["continuation-first"] = []byte(" continuation\r\nManifest-Version: 1.0\r\n\r\n")
		m["no-colon"] = []byte("Manifest-Version 1.0\r\n\r\nName foo\r\n\r\n")
		m["colon-no-space"] = []byte("Manifest-Version:1.0\r\n\r\nName:foo\r\n\r\n")
		m["colon-only"] = []byte(":\r\n\r\n:\r\n\r\n")
		m["empty-key"] = []byte(": value\r\n\r\n")
		m["empty-value"] = []byte("Manifest-Version: \r\n\r\nName: \r\n\r\n")
		m["name-missing"] = []byte("Manifest-Version: 1.0\r\n\r\nSHA-256-Digest: AAAA\r\n\r\n")
		m["dup-name"] = []byte("Manifest-Version: 1.0\r\n\r\nName: a\r\nName: a\r\n\r\nName: a\r\n\r\n")
		m["bad-base64"] = []byte(strings.Replace(s, "-Digest: ", "-Digest: !!!", -1))
		m["short-digest"] = []byte(strings.Replace(s, "-Digest: ", "-Digest: QQ==\r\nX-Was: ", -1))
		m["lf-only"] = []byte(strings.Replace(s, "\r\n", "\n", -1))
		m["cr-only"] = []byte(strings.Replace(s, "\r\n", "\r", -1))
		m["long-line"] = []byte("Manifest-Version: 1.0\r\n\r\nName: " + strings.Repeat("a", 70000) + "\r\n\r\n")
		m["many-continuations"] = []byte("Manifest-Version: 1.0\r\n\r\nName: a\r\n" + strings.Repeat(" b\r\n", 5000) + "\r\n")
		m["space-line"] = []byte("Manifest-Version: 1.0\r\n \r\n\r\nName: a\r\n \r\n")
		m["only-main-no-blank"] = []byte("Manifest-Version: 1.0")
		m["header-just-colon-space"] = []byte("Manifest-Version: 1.0\r\n\r\n: \r\n\r\n")
	case "xml":
		for k, v := range xmlMutations(s) {
			m[k] = []byte(v)
		}
	}
	return m
}

func (g *gen) genZipContent(b *BaseFile, z *zipLayout) {
	dir := g.outDir()
	if dir == "" {
		return
	}
	emit := func(label string, data []byte) {
		if data == nil {
			return
		}
		p := filepath.Join(dir, fmt.Sprintf("z%04d.bin", g.fileSeq))
		g.fileSeq++
		if os.WriteFile(p, data, 0o644) != nil {
			return
		}
		nb := *b
		nb.Path, nb.data = p, data
		g.add(&nb, "content:"+label, nil)
		g.cases[len(g.cases)-1].Valid = false
		for i := len(g.cases) - 1; i >= 0 && g.cases[i].Base == p; i-- {
			g.cases[i].Valid = false
		}
	}
	targets := map[string]string{}
	for _, e := range z.entries {
		up := strings.ToUpper(e.name)
		switch {
		case up == "META-INF/MANIFEST.MF" || strings.HasPrefix(up, "META-INF/") && strings.HasSuffix(up, ".SF"):
			targets[e.name] = "manifest"
		case strings.HasSuffix(up, ".XML") || strings.HasSuffix(up, ".RELS") || strings.HasSuffix(up, ".PSDSXS") || strings.HasSuffix(up, ".PSDOR") || strings.HasSuffix(up, ".VSIXMANIFEST"):
			targets[e.name] = "xml"
		case strings.HasPrefix(up, "META-INF/") && (strings.HasSuffix(up, ".RSA") || strings.HasSuffix(up, ".EC") || strings.HasSuffix(up, ".DSA")) || strings.HasSuffix(up, ".P7X") || strings.HasSuffix(up, ".CAT"):
			targets[e.name] = "der"
		}
	}
	for name, kind := range targets {
		orig := readZipMember(b.data, name)
		if orig == nil {
			continue
		}
		if kind == "der" {
			skip := 0
			if strings.HasSuffix(strings.ToUpper(name), ".P7X") {
				skip = 4
				for _, l := range []int{0, 1, 3, 4, 5} {
					if nz, err := rebuildZip(b.data, map[string][]byte{name: orig[:min(l, len(orig))]}, nil, nil); err == nil {
						emit(fmt.Sprintf("%s:len%d", name, l), nz)
					}
				}
			}
			for label, mut := range derMutations(orig, skip, 40) {
				if nz, err := rebuildZip(b.data, map[string][]byte{name: mut}, nil, nil); err == nil {
					emit(name+":"+label, nz)
				}
			}
			continue
		}
		for label, mut := range textMutations(orig, kind) {
			if nz, err := rebuildZip(b.data, map[string][]byte{name: mut}, nil, nil); err == nil {
				emit(name+":"+label, nz)
			}
		}
		if nz, err := rebuildZip(b.data, nil, nil, map[string]bool{name: true}); err == nil {
			emit(name+":dropped", nz)
		}
	}
	// member names the signers special-case
	adds := []zipAdd{{"noext", []byte("x"), true}, {".hidden", []byte("x"), true}, {"dir/", nil, true}, {"a.", []byte("x"), true}, {"", []byte("x"), true},
		{"META-INF/", nil, true}, {"META-INF/X.SF", []byte("Signature-Version: 1.0\r\n\r\n"), false}, {"META-INF/X.RSA", []byte{0x30, 0x00}, false},
		{"../up", []byte("x"), true}, {"[Content_Types].xml", []byte("<Types/>"), false}}
	for _, a := range adds {
		if nz, err := rebuildZip(b.data, nil, []zipAdd{a}, nil); err == nil {
			emit(fmt.Sprintf("add-member:%q", a.name), nz)
		}
	}
	// PE members are digested by helper goroutines on the AppX path
	if b.SigType == "appx" {
		for label, pe := range evilPEs() {
			if nz, err := rebuildZip(b.data, nil, []zipAdd{{"evil.exe", pe, true}}, nil); err == nil {
				emit("appx-evil-exe:"+label, nz)
			}
			if nz, err := rebuildZip(b.data, map[string][]byte{"App1.exe": pe}, nil, nil); err == nil {
				emit("appx-replace-exe:"+label, nz)
			}
		}
	}
}

// ---- tar uploads (what the zip-based / msi / mach-o / dmg transforms send to the server)

type tarMember struct {
	hdr  int // offset of the 512-byte header
	data int
	size int
	name string
}

func parseTar(b []byte) []tarMember {
	var ms []tarMember
	tr := tar.NewReader(bytes.NewReader(b))
	off := 0
	for off+512 <= len(b) {
		h := b[off : off+512]
		if bytes.Equal(h, make([]byte, 512)) {
			break
		}
		var size int
		fmt.Sscanf(strings.TrimRight(string(h[124:136]), " \x00"), "%o", &size)
		name := strings.TrimRight(string(h[0:100]), "\x00")
		ms = append(ms, tarMember{off, off + 512, size, name})
		off += 512 + (size+511)/512*512
	}
	_ = tr
	return ms
}

func tarChecksum(h []byte) {
	copy(h[148:156], "        ")
	sum := 0
	for _, c := range h[:512] {
		sum += int(c)
	}
	copy(h[148:156], fmt.Sprintf("%06o\x00 ", sum))
}

func buildTar(ms []struct {
	name string
	data []byte
	size int64 // claimed size (may lie)
}) []byte {
	var out bytes.Buffer
	for _, m := range ms {
		h := make([]byte, 512)
		copy(h, m.name)
		copy(h[100:], "0000644\x00")
		copy(h[108:], "0000000\x00")
		copy(h[116:], "0000000\x00")
		if m.size >= 0 && m.size < 1<<33 {
			copy(h[124:], fmt.Sprintf("%011o\x00", m.size))
		} else {
			// base-256 (GNU) encoding, allows negative / huge sizes
			h[124] = 0x80
			if m.size < 0 {
				for i := 124; i < 136; i++ {
					h[i] = 0xff
				}
			}
			binary.BigEndian.PutUint64(h[128:], uint64(m.size))
		}
		copy(h[136:], "00000000000\x00")
		h[156] = '0'
		copy(h[257:], "ustar\x0000")
		tarChecksum(h)
		out.Write(h)
		out.Write(m.data)
		if pad := (512 - len(m.data)%512) % 512; pad > 0 {
			out.Write(make([]byte, pad))
		}
	}
	out.Write(make([]byte, 1024))
	return out.Bytes()
}

type tm = struct {
	name string
	data []byte
	size int64
}

func (g *gen) genTar(b *BaseFile) {
	ms := parseTar(b.data)
	if len(ms) == 0 {
		return
	}
	var mem []tm
	for _, m := range ms {
		end := min(m.data+m.size, len(b.data))
		mem = append(mem, tm{m.name, b.data[m.data:end], int64(m.size)})
	}
	emit := func(label string, ms []tm) {
		g.addRaw(b.Family, b.SigType, b.Name, "tar:"+label, buildTar(ms), "sign")
	}
	cp := func() []tm { return append([]tm{}, mem...) }
	// header fields: size lies, names, order
	for i := range mem {
		if i > 3 && i < len(mem)-1 {
			continue
		}
		for _, sz := range []int64{0, 1, int64(len(mem[i].data)) - 1, int64(len(mem[i].data)) + 1, int64(len(mem[i].data)) + 512, 1 << 31, 1<<32 - 1, 1 << 40, 1<<63 - 1, -1} {
			c := cp()
			c[i].size = sz
			emit(fmt.Sprintf("size[%d:%s]=%d", i, mem[i].name, sz), c)
		}
		c := cp()
		c[i].name = "renamed.bin"
		emit(fmt.Sprintf("rename[%d]", i), c)
		c = cp()
		c = append(c[:i], c[i+1:]...)
		emit(fmt.Sprintf("drop[%d:%s]", i, mem[i].name), c)
		c = cp()
		c = append(c, c[i])
		emit(fmt.Sprintf("dup-at-end[%d]", i), c)
	}
	if len(mem) >= 2 {
		c := cp()
		c[0], c[1] = c[1], c[0]
		emit("swap01", c)
	}
	emit("empty-archive", nil)
	// zip-in-tar: corrupt the directory copy (first member) the server parses
	if len(mem) >= 2 && mem[0].name == "zipdir.bin" {
		cd := mem[0].data
		for _, k := range []int{0, 1, 2, 3, 4, 5, 9, 10, 11, 21, 22, 23, 45, 46, 47, 50} {
			if k <= len(cd) {
				c := cp()
				c[0].data, c[0].size = cd[:k], int64(k)
				emit(fmt.Sprintf("cd-prefix%d", k), c)
				c = cp()
				c[0].data, c[0].size = cd[len(cd)-k:], int64(k)
				emit(fmt.Sprintf("cd-suffix%d", k), c)
			}
		}
		// structure-aware fields of the directory copy
		zb := &BaseFile{data: cd}
		_ = zb
		p := 0
		var fs []field
		n := 0
		for p+46 <= len(cd) && le.Uint32(cd[p:]) == 0x02014b50 && n < 3 {
			for _, f := range cdFields {
				fs = append(fs, field{fmt.Sprintf("%s[%d]", f.n, n), p + f.o, f.w, false})
			}
			p += 46 + int(le.Uint16(cd[p+28:])) + int(le.Uint16(cd[p+30:])) + int(le.Uint16(cd[p+32:]))
			n++
		}
		// skip to the end record
		for p+46 <= len(cd) && le.Uint32(cd[p:]) == 0x02014b50 {
			p += 46 + int(le.Uint16(cd[p+28:])) + int(le.Uint16(cd[p+30:])) + int(le.Uint16(cd[p+32:]))
		}
		if p+22 <= len(cd) {
			for _, f := range eocdFields {
				fs = append(fs, field{f.n, p + f.o, f.w, false})
			}
		}
		for _, f := range fs {
			for _, v := range append(boundaryVals(f.w), uint64(len(cd)), uint64(len(cd)-f.off)) {
				nd := append([]byte{}, cd...)
				copy(nd[f.off:], encInt(v, f.w, false))
				c := cp()
				c[0].data = nd
				emit(fmt.Sprintf("cd.%s=%#x", f.name, v), c)
			}
		}
		// truncation of the directory copy at each entry boundary ±1
		q := 0
		for q+46 <= len(cd) && le.Uint32(cd[q:]) == 0x02014b50 {
			l := 46 + int(le.Uint16(cd[q+28:])) + int(le.Uint16(cd[q+30:])) + int(le.Uint16(cd[q+32:]))
			for _, k := range []int{q + 4, q + 45, q + 46, q + 47, q + l - 1, q + l, q + l + 1, q + l + 3, q + l + 4} {
				if k >= 0 && k <= len(cd) {
					c := cp()
					c[0].data, c[0].size = cd[:k], int64(k)
					emit(fmt.Sprintf("cd-trunc%d", k), c)
				}
			}
			q += l
			if q > 400 {
				break
			}
		}
		// XAP trailer games on the directory copy
		for _, sz := range []uint32{0, 1, 8, uint32(len(cd)), uint32(len(cd)) - 10, uint32(len(cd)) - 9, uint32(len(cd)) + 1, 0x7fffffff, 0xfffffff6, 0xffffffff} {
			t := append([]byte{0x58, 0x61, 0x70, 0x53, 1, 0}, encInt(uint64(sz), 4, false)...)
			c := cp()
			c[0].data = append(append([]byte{}, cd...), t...)
			c[0].size = int64(len(c[0].data))
			emit(fmt.Sprintf("cd+xaptrailer=%#x", sz), c)
			c = cp()
			c[0].data, c[0].size = t, 10
			emit(fmt.Sprintf("cd=xaptrailer-only=%#x", sz), c)
		}
	}
	// generic byte-level corruption of the tar stream itself
	hdrs := []field{}
	for i, m := range ms {
		if i < 3 {
			hdrs = append(hdrs, field{fmt.Sprintf("tar.size[%d]", i), m.hdr + 124, 8, true}, field{fmt.Sprintf("tar.typeflag[%d]", i), m.hdr + 156, 1, true})
		}
	}
	g.sweepFields(b, hdrs, "sign")
}

func (g *gen) outDir() string { return g.dir }
