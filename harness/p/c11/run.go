package c11

import (
	"bufio"
	"bytes"
	"context"
	"crypto/sha256"
	"encoding/hex"
	"encoding/json"
	"errors"
	"fmt"
	"os"
	"os/exec"
	"path/filepath"
	"regexp"
	"strings"
	"sync"
	"syscall"
	"time"

	"github.com/sassoftware/relic/v8/verifharness/core"
)

// Op is one edit of the base file. Exactly one of the forms is used:
//
//	{"o":off,"h":hex}  overwrite at off (extends the file if needed)
//	{"t":n}            truncate to n bytes
//	{"i":off,"h":hex}  insert before off
//	{"d":off,"n":len}  delete len bytes at off
type Op struct {
	O *int64 `json:"o,omitempty"`
	T *int64 `json:"t,omitempty"`
	I *int64 `json:"i,omitempty"`
	D *int64 `json:"d,omitempty"`
	N int64  `json:"n,omitempty"`
	H string `json:"h,omitempty"`
}

// Case: one entry point on one input (= base file + edits, or raw bytes).
type Case struct {
	ID      string `json:"id"`
	Entry   string `json:"entry"`
	SigType string `json:"sigtype"`
	Name    string `json:"name"`           // file name the input is presented under (extension matters for ps / dmg)
	Base    string `json:"base,omitempty"` // path of the base file ("" = Raw only)
	Raw     string `json:"raw,omitempty"`  // hex, used when Base == ""
	Ops     []Op   `json:"ops,omitempty"`
	Content string `json:"content,omitempty"` // detached-signature content file
	Query   string `json:"query,omitempty"`   // extra query parameters (server entry points), k=v&k=v
	Family  string `json:"family"`            // format family of the generator
	Mut     string `json:"mut"`               // human-readable description of the corruption
	Valid   bool   `json:"valid,omitempty"`   // unmodified fixture / signed fixture: must be ok or error, calibrates the memory bound
	Always  bool   `json:"always,omitempty"`  // structured case that every tier executes (never sampled away)
}

type Result struct {
	Case
	Class    string `json:"class"` // ok error panic oom alloc timeout
	Key      string `json:"key,omitempty"`
	Detail   string `json:"detail,omitempty"`
	Frame    string `json:"frame,omitempty"`
	TopFrame string `json:"top_frame,omitempty"`
	Recov    bool   `json:"recovered,omitempty"` // panic was caught by the server's RecoveryMiddleware
	Err      string `json:"err,omitempty"`
	Size     int    `json:"size"`
	Sha      string `json:"sha"`
	Ms       int64  `json:"ms"`
	Sys      uint64 `json:"sys,omitempty"`
	Total    uint64 `json:"total,omitempty"`
	Status   int    `json:"status,omitempty"`
	Trace    string `json:"trace,omitempty"`
}

func i64(v int64) *int64 { return &v }

// Materialize applies the edits.
func (c *Case) Materialize(bases map[string][]byte, mu *sync.Mutex) ([]byte, error) {
	var b []byte
	if c.Base != "" {
		mu.Lock()
		base, ok := bases[c.Base]
		mu.Unlock()
		if !ok {
			var err error
			base, err = os.ReadFile(c.Base)
			if err != nil {
				return nil, err
			}
			mu.Lock()
			bases[c.Base] = base
			mu.Unlock()
		}
		b = append([]byte{}, base...)
	} else {
		var err error
		b, err = hex.DecodeString(c.Raw)
		if err != nil {
			return nil, err
		}
	}
	for _, op := range c.Ops {
		h, err := hex.DecodeString(op.H)
		if err != nil {
			return nil, err
		}
		switch {
		case op.O != nil:
			off := int(*op.O)
			if off < 0 {
				off = 0
			}
			for len(b) < off+len(h) {
				b = append(b, 0)
			}
			copy(b[off:], h)
		case op.T != nil:
			n := int(*op.T)
			if n < 0 {
				n = 0
			}
			if n < len(b) {
				b = b[:n]
			}
		case op.I != nil:
			off := int(*op.I)
			if off > len(b) {
				off = len(b)
			}
			nb := append([]byte{}, b[:off]...)
			nb = append(nb, h...)
			b = append(nb, b[off:]...)
		case op.D != nil:
			off, n := int(*op.D), int(op.N)
			if off > len(b) {
				off = len(b)
			}
			if off+n > len(b) {
				n = len(b) - off
			}
			b = append(b[:off:off], b[off+n:]...)
		}
	}
	return b, nil
}

var (
	reFuncLine = regexp.MustCompile(`^([^\s].*)\((?:[^()]|\([^()]*\))*\)\s*$`)
	reCreated  = regexp.MustCompile(`^created by `)
)

const relicMod = "github.com/sassoftware/relic/v8/"

// keyOfFrame turns "github.com/sassoftware/relic/v8/lib/zipslicer.(*Directory).AddFile.func1" into "zipslicer.Directory.AddFile".
func keyOfFrame(fn string) string {
	fn = strings.TrimPrefix(fn, relicMod)
	if i := strings.LastIndex(fn, "/"); i >= 0 {
		fn = fn[i+1:]
	}
	fn = strings.NewReplacer("(*", "", ")", "", "[...]", "").Replace(fn)
	parts := strings.Split(fn, ".")
	var keep []string
	for _, p := range parts {
		if regexp.MustCompile(`^(func\d+|\d+|gowrap\d+)$`).MatchString(p) {
			continue
		}
		keep = append(keep, p)
	}
	return strings.Join(keep, ".")
}

// analyseTrace extracts (panic message, top non-runtime frame, first relic frame) from a Go crash report.
func analyseTrace(stderr string, hang bool) (msg, top, relic string) {
	lines := strings.Split(stderr, "\n")
	start := -1
	for i, l := range lines {
		if strings.HasPrefix(l, "panic: ") || strings.HasPrefix(l, "fatal error: ") || strings.HasPrefix(l, "SIGQUIT") ||
			strings.HasPrefix(l, "runtime: out of memory") || strings.HasPrefix(l, "unexpected fault address") {
			if msg == "" || strings.HasPrefix(msg, "runtime: out of memory") {
				msg = strings.TrimSpace(l)
			}
			if start < 0 {
				start = i
			}
		}
	}
	if start < 0 {
		return
	}
	// goroutine blocks
	type block struct {
		head  string
		funcs []string
	}
	var blocks []block
	for _, l := range lines[start:] {
		if strings.HasPrefix(l, "goroutine ") && strings.HasSuffix(strings.TrimSpace(l), ":") {
			blocks = append(blocks, block{head: l})
			continue
		}
		if len(blocks) == 0 || strings.HasPrefix(l, "\t") || strings.TrimSpace(l) == "" || reCreated.MatchString(l) {
			continue
		}
		if m := reFuncLine.FindStringSubmatch(l); m != nil {
			blocks[len(blocks)-1].funcs = append(blocks[len(blocks)-1].funcs, m[1])
		}
	}
	pick := func(b block) (string, string) {
		fs := b.funcs
		// frames above the last panic() call belong to the panicking machinery / a recover handler
		for i := len(fs) - 1; i >= 0; i-- {
			if fs[i] == "panic" {
				fs = fs[i+1:]
				break
			}
		}
		var t, r string
		for _, f := range fs {
			if strings.HasPrefix(f, "runtime.") || strings.HasPrefix(f, "runtime/") || strings.HasPrefix(f, "syscall.") ||
				strings.HasPrefix(f, "internal/") || strings.Contains(f, "verifharness/") {
				continue
			}
			if t == "" {
				t = f
			}
			if r == "" && strings.HasPrefix(f, relicMod) && !strings.Contains(f, "internal/zhttp") {
				r = f
			}
		}
		return t, r
	}
	if !hang {
		if len(blocks) > 0 {
			top, relic = pick(blocks[0])
		}
		return
	}
	// hang: the spinning goroutine is running/runnable (or blocked in a read of a never-ending structure)
	for _, want := range []string{"[running", "[runnable", "[syscall", "["} {
		for _, b := range blocks {
			if !strings.Contains(b.head, want) {
				continue
			}
			t, r := pick(b)
			if r != "" {
				return msg, t, r
			}
		}
	}
	return
}

func classOfMsg(msg string) string {
	switch {
	case strings.Contains(msg, "index out of range"):
		return "index"
	case strings.Contains(msg, "slice bounds out of range"):
		return "slice"
	case strings.Contains(msg, "nil pointer dereference"):
		return "nil"
	case strings.Contains(msg, "makeslice"):
		return "makeslice"
	case strings.Contains(msg, "divide by zero"):
		return "div"
	case strings.Contains(msg, "out of memory") || strings.Contains(msg, "cannot allocate memory"):
		return "oom"
	case strings.Contains(msg, "stack overflow") || strings.Contains(msg, "stack exceeds"):
		return "stack"
	case strings.Contains(msg, "interface conversion"):
		return "iface"
	}
	return "panic"
}

// memBound: the amount of memory an execution on an input of the given size may obtain from the OS before it is
// classified as an allocation blow-up. (Calibrated: every valid fixture stays below half of it.)
func memBound(size int) uint64 { return 64*uint64(size) + (96 << 20) }

type Runner struct {
	Exe     string
	Scratch string
	Timeout time.Duration
	bases   map[string][]byte
	mu      sync.Mutex
}

func (r *Runner) exec1(ctx context.Context, dir, path string, c *Case, asLimit uint64, env ...string) (stdout, stderr string, exit int, timedOut bool, dt time.Duration) {
	args := []string{"-scratch", dir, "c11one", c.Entry, c.SigType, path, c.Name}
	if c.Content != "" {
		args = append(args, "--content", c.Content)
	}
	if c.Query != "" {
		args = append(args, "--query", c.Query)
	}
	cmd := exec.Command(r.Exe, args...)
	cmd.Env = append(os.Environ(), "GOMAXPROCS=2", "GOTRACEBACK=all", fmt.Sprintf("C11_AS=%d", asLimit))
	cmd.Env = append(cmd.Env, env...)
	var so, se bytes.Buffer
	cmd.Stdout, cmd.Stderr = &so, &se
	cmd.SysProcAttr = &syscall.SysProcAttr{Setpgid: true}
	t0 := time.Now()
	if err := cmd.Start(); err != nil {
		return "", "start: " + err.Error(), -1, false, 0
	}
	done := make(chan error, 1)
	go func() { done <- cmd.Wait() }()
	select {
	case <-done:
	case <-time.After(r.Timeout):
		timedOut = true
		cmd.Process.Signal(syscall.SIGQUIT) // Go dumps all goroutine stacks
		select {
		case <-done:
		case <-time.After(2 * time.Second):
			syscall.Kill(-cmd.Process.Pid, syscall.SIGKILL)
			<-done
		}
	}
	dt = time.Since(t0)
	exit = cmd.ProcessState.ExitCode()
	return so.String(), se.String(), exit, timedOut, dt
}

// RunCase executes one case in a fresh subprocess and classifies the outcome.
func (r *Runner) RunCase(idx int, c Case) Result {
	res := Result{Case: c}
	data, err := c.Materialize(r.bases, &r.mu)
	if err != nil {
		res.Class, res.Err = "error", "materialize: "+err.Error()
		return res
	}
	sum := sha256.Sum256(data)
	res.Size, res.Sha = len(data), hex.EncodeToString(sum[:8])
	dir := filepath.Join(r.Scratch, fmt.Sprintf("w%06d", idx))
	os.MkdirAll(dir, 0o755)
	defer os.RemoveAll(dir)
	name := c.Name
	if name == "" {
		name = "input.bin"
	}
	path := filepath.Join(dir, filepath.Base(name))
	if err := os.WriteFile(path, data, 0o644); err != nil {
		res.Class, res.Err = "error", err.Error()
		return res
	}
	stdout, stderr, exit, timedOut, dt := r.exec1(context.Background(), dir, path, &c, 2<<30)
	res.Ms = dt.Milliseconds()
	var o oneOut
	gotJSON := false
	for _, l := range strings.Split(stdout, "\n") {
		if strings.HasPrefix(l, "{") && json.Unmarshal([]byte(l), &o) == nil {
			gotJSON = true
		}
	}
	setKey := func(class, msg, top, relic string) {
		res.Detail, res.TopFrame, res.Frame = msg, top, relic
		where := relic
		if where == "" {
			where = top
		}
		if where == "" {
			where = "unknown/" + c.SigType + "." + c.Entry
		}
		res.Key = "C11:" + keyOfFrame(where) + ":" + class
	}
	tail := func(s string) string {
		if len(s) > 6000 {
			return s[:6000]
		}
		return s
	}
	switch {
	case timedOut:
		res.Class = "timeout"
		msg, top, relic := analyseTrace(stderr, true)
		_ = msg
		setKey("hang", fmt.Sprintf("no result after %s", r.Timeout), top, relic)
		res.Trace = tail(stderr)
	case exit == 0 && gotJSON:
		res.Class, res.Err, res.Sys, res.Total, res.Status = o.Class, o.Err, o.Sys, o.Total, o.Status
		if o.Sys > memBound(len(data)) {
			// finished, but obtained far more memory than the input justifies. Re-run with a tight address-space
			// limit so that the offending allocation fails and names itself.
			res.Class = "alloc"
			so2, _, _, _, _ := r.exec1(context.Background(), dir, path, &c, 2<<30, "C11_MEMPROF=1")
			var o2 oneOut
			for _, l := range strings.Split(so2, "\n") {
				if strings.HasPrefix(l, "{") {
					json.Unmarshal([]byte(l), &o2)
				}
			}
			top, relic := "", ""
			for _, f := range o2.AllocSite {
				if strings.HasPrefix(f, "runtime.") || strings.Contains(f, "verifharness/") {
					continue
				}
				if top == "" {
					top = f
				}
				if relic == "" && strings.HasPrefix(f, relicMod) && !strings.Contains(f, "internal/zhttp") {
					relic = f
				}
			}
			res.Trace = strings.Join(o2.AllocSite, "\n")
			setKey("alloc", fmt.Sprintf("runtime obtained %d bytes from the OS for a %d-byte input (bound %d); largest allocation site %d bytes", o.Sys, len(data), memBound(len(data)), o2.AllocBytes), top, relic)
		}
	default:
		msg, top, relic := analyseTrace(stderr, false)
		cl := classOfMsg(msg)
		if msg == "" {
			msg = fmt.Sprintf("exit status %d without a result: %s", exit, lastLine(stderr))
			cl = "abort"
		}
		res.Class = "panic"
		if cl == "oom" {
			res.Class = "oom"
		}
		res.Recov = strings.Contains(msg, "[recovered by server]")
		setKey(cl, msg, top, relic)
		res.Trace = tail(stderr)
	}
	return res
}

func lastLine(s string) string {
	ls := strings.Split(strings.TrimSpace(s), "\n")
	return ls[len(ls)-1]
}

func readManifest(path string) ([]Case, error) {
	f, err := os.Open(path)
	if err != nil {
		return nil, err
	}
	defer f.Close()
	var cases []Case
	sc := bufio.NewScanner(f)
	sc.Buffer(make([]byte, 1<<20), 256<<20)
	for sc.Scan() {
		if len(bytes.TrimSpace(sc.Bytes())) == 0 {
			continue
		}
		var c Case
		if err := json.Unmarshal(sc.Bytes(), &c); err != nil {
			return nil, err
		}
		cases = append(cases, c)
	}
	return cases, sc.Err()
}

func init() {
	// c11run <manifest.jsonl> [-j N] [-timeout seconds] [-keep-trace]
	core.Register("c11run", func(c *core.Ctx) error {
		if len(c.Args) < 1 {
			return errors.New("usage: c11run manifest.jsonl [-j N] [-timeout s]")
		}
		jobs, timeout := 16, 10
		for i := 1; i < len(c.Args); i++ {
			switch c.Args[i] {
			case "-j":
				i++
				fmt.Sscanf(c.Args[i], "%d", &jobs)
			case "-timeout":
				i++
				fmt.Sscanf(c.Args[i], "%d", &timeout)
			}
		}
		cases, err := readManifest(c.Args[0])
		if err != nil {
			return err
		}
		exe, err := os.Executable()
		if err != nil {
			return err
		}
		scratch := c.Scratch
		if scratch == "" {
			return errors.New("-scratch required")
		}
		scratch = filepath.Join(scratch, "run")
		os.MkdirAll(scratch, 0o755)
		defer os.RemoveAll(scratch)
		r := &Runner{Exe: exe, Scratch: scratch, Timeout: time.Duration(timeout) * time.Second, bases: map[string][]byte{}}
		results := make([]Result, len(cases))
		var wg sync.WaitGroup
		next := make(chan int, len(cases))
		for i := range cases {
			next <- i
		}
		close(next)
		for w := 0; w < jobs; w++ {
			wg.Add(1)
			go func() {
				defer wg.Done()
				for i := range next {
					results[i] = r.RunCase(i, cases[i])
				}
			}()
		}
		wg.Wait()
		for i := range results {
			// the replay needs the edits; raw bytes are echoed only for failures
			if results[i].Class == "ok" || results[i].Class == "error" {
				results[i].Raw = ""
			}
			c.Emit(results[i])
		}
		return nil
	})

	// c11mat <manifest.jsonl> <index> <out>: write the input bytes of one case (for corpus files / replay)
	core.Register("c11mat", func(c *core.Ctx) error {
		if len(c.Args) < 3 {
			return errors.New("usage: c11mat manifest index out")
		}
		cases, err := readManifest(c.Args[0])
		if err != nil {
			return err
		}
		var idx int
		fmt.Sscanf(c.Args[1], "%d", &idx)
		if idx < 0 || idx >= len(cases) {
			return errors.New("index out of range")
		}
		var mu sync.Mutex
		b, err := cases[idx].Materialize(map[string][]byte{}, &mu)
		if err != nil {
			return err
		}
		return os.WriteFile(c.Args[2], b, 0o644)
	})
}
