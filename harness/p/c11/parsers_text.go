package c11

// c11p, text half: the hand-written line parsers modelled in coq/C11/Text.v run IN PROCESS (under recover) on structured
// and malformed texts; class, error kind and parsed values are compared with the model by checks/c11.py.

import (
	"bytes"
	"crypto"
	"encoding/hex"
	"strings"
	"time"

	"github.com/ProtonMail/go-crypto/openpgp/packet"

	"github.com/sassoftware/relic/v8/lib/pgptools"
	"github.com/sassoftware/relic/v8/lib/signdeb"
	"github.com/sassoftware/relic/v8/lib/signjar"
	"github.com/sassoftware/relic/v8/verifharness/core"
)

func textErrClass(parser string, err error) int {
	s := err.Error()
	has := func(x string) bool { return strings.Contains(s, x) }
	switch {
	case has("token too long"):
		return 10
	case has("missing package and/or version"):
		return 11
	case has("malformed signature"), has("jar manifest is malformed"):
		return 12
	case has("references unknown file"):
		return 13
	case has("signature mismatch on file"):
		return 14
	case has("does not cover file"):
		return 15
	case has("manifest has no sections"), has("manifest is empty"):
		return 16
	case has("no \"Name\" attribute"), has("missing Name attribute"):
		return 18
	case has("incorrect line ending"):
		return 19
	case has("signature block not found"):
		return 20
	}
	return 98
}

func lpInts(s string) []int64 {
	v := []int64{int64(len(s))}
	for i := 0; i < len(s); i++ {
		v = append(v, int64(s[i]))
	}
	return v
}
func bytesInts(b []byte) []int64 {
	v := make([]int64, len(b))
	for i, c := range b {
		v[i] = int64(c)
	}
	return v
}

func tguard(pc *pcase, f func() ([]int64, error)) {
	defer func() {
		if r := recover(); r != nil {
			pc.Class, pc.Detail = "panic", strings.TrimSpace(strings.SplitN(toString(r), "\n", 2)[0])
		}
	}()
	vals, err := f()
	if err != nil {
		pc.Class, pc.Errc, pc.Detail = "error", textErrClass(pc.Parser, err), err.Error()
		return
	}
	pc.Class, pc.Vals = "ok", vals
	if pc.Vals == nil {
		pc.Vals = []int64{}
	}
}
func toString(r interface{}) string {
	if e, ok := r.(error); ok {
		return e.Error()
	}
	if s, ok := r.(string); ok {
		return s
	}
	return "panic"
}

// all strings over the alphabet up to length n
func enumStrings(alpha []byte, n int, f func([]byte)) {
	var rec func(cur []byte)
	rec = func(cur []byte) {
		f(append([]byte{}, cur...))
		if len(cur) == n {
			return
		}
		for _, c := range alpha {
			rec(append(cur, c))
		}
	}
	rec(nil)
}

func tokenText(r *core.Rng, toks []string, n int) []byte {
	var b []byte
	for i := r.Intn(n + 1); i > 0; i-- {
		b = append(b, toks[r.Intn(len(toks))]...)
	}
	return b
}

func runTextParsers(c *core.Ctx, r *core.Rng, scale int) {
	emit := func(pc *pcase) { c.Emit(pc) }
	// ---------------- signdeb.parseControl on the control member of an (uncompressed) control.tar
	runCtl := func(kind string, text []byte) {
		pc := &pcase{Parser: "deb_control", Input: hex.EncodeToString(text), Kind: kind}
		tguard(pc, func() ([]int64, error) {
			info, err := signdeb.VerifParseControl(bytes.NewReader(tarOf([]arMember{{"./control", text}})), "")
			if err != nil {
				return nil, err
			}
			return append(append(lpInts(info.Package), lpInts(info.Version)...), lpInts(info.Arch)...), nil
		})
		emit(pc)
	}
	for _, tc := range controlTexts() {
		runCtl(tc.kind, tc.text)
	}
	enumStrings([]byte{'\n', ':', ' ', 'a', '\r', '#', '\t'}, 4, func(b []byte) { runCtl("enum", b) })
	ctlToks := []string{"Package", "Version", "Architecture", "package", ":", ": ", " ", "\n", "\r\n", "\r", "\t", "#", "x", "1.0", "\x00", "\xff", "\v", ":\t", "Pack age", "\n "}
	for i := 0; i < 400*scale; i++ {
		t := tokenText(r, ctlToks, 12)
		switch i % 3 {
		case 0:
			t = append([]byte("Package: p\nVersion: 1\n"), t...)
		case 1:
			t = append(append([]byte("Package: p\n"), t...), "\nVersion: 2\r\nArchitecture: \tx \n"...)
		}
		runCtl("tokens", t)
	}
	// ---------------- signdeb.checkSig
	runSig := func(kind string, body []byte) {
		pc := &pcase{Parser: "deb_checksig", Input: hex.EncodeToString(body), Kind: kind}
		tguard(pc, func() ([]int64, error) {
			return nil, signdeb.VerifCheckSig("builder", bytes.NewReader(body), csDigests())
		})
		emit(pc)
	}
	for _, tc := range checkSigBodies() {
		runSig(tc.kind, tc.text)
	}
	sigToks := []string{"Files:\n", "Files: \n", "Version: 4\n", "\n", "\t", " ", csSums1, csSums2, "\t" + csSums1 + " 4 a\n", "\t" + csSums2 + " 6 bb\n", "a", "bb", "4", "\r\n", strings.Repeat("z", 40), strings.Repeat(" ", 3)}
	for i := 0; i < 400*scale; i++ {
		runSig("tokens", append([]byte("Files:\n"), tokenText(r, sigToks, 10)...))
		runSig("tokens-lines", append(append([]byte("Files:\n"), tokenText(r, sigToks[8:10], 3)...), tokenText(r, []string{"\n", "", "\t" + csSums1 + " 4 a\n", "\t" + csSums2 + " 6 bb\n", "\t" + csSums1 + " 4\n"}, 3)...))
		runSig("tokens-nohdr", tokenText(r, sigToks, 10))
	}
	// ---------------- signjar: splitManifest / parseManifest / DigestManifest
	runJar := func(kind string, m []byte) {
		in := hex.EncodeToString(m)
		pc := &pcase{Parser: "jar_split", Input: in, Kind: kind}
		tguard(pc, func() ([]int64, error) {
			secs, mal := signjar.VerifSplitManifest(m)
			v := []int64{int64(len(secs)), b2i(mal)}
			for _, s := range secs {
				v = append(v, int64(len(s)))
			}
			return v, nil
		})
		emit(pc)
		pc = &pcase{Parser: "jar_manifest", Input: in, Kind: kind}
		tguard(pc, func() ([]int64, error) {
			files, mal, err := signjar.VerifParseManifest(m)
			if err != nil {
				return nil, err
			}
			return []int64{int64(len(files.Order)), b2i(mal)}, nil
		})
		emit(pc)
		pc = &pcase{Parser: "jar_digest", Input: in, Kind: kind}
		tguard(pc, func() ([]int64, error) {
			sf, err := signjar.DigestManifest(m, crypto.SHA256, false, false)
			if err != nil {
				return nil, err
			}
			return []int64{int64(bytes.Count(sf, []byte("\r\nName: ")))}, nil
		})
		emit(pc)
	}
	for _, s := range []string{"", "\n", "\n\n", "\r\n", "\r\n\r\n", ":", "a", "a:b", "a:b\n\n", "Manifest-Version: 1.0\r\n\r\n", "Manifest-Version: 1.0\r\n\r\nName: a\r\n\r\n",
		"Manifest-Version: 1.0\n\nName: a\n\nName: b\r\n\r\n", "M: 1\r\n\r\nNAME: x\r\n\r\n", "M: 1\r\n\r\nname : x\r\n\r\n", "M: 1\r\n\r\nNa me: x\r\n\r\n", "M: 1\r\n\r\nX: y\r\n\r\n",
		"M: 1\n\nName: a\n b\n\n", "M: 1\n\nName:\n\n", "M: 1\n\nName: \n a\n\n", "M: 1\n\n\n\nName: a\n\n", "M: 1\n\n \n\nName: a\n\n", "nocolon\n\n", "M: 1\n\nnocolon\n\n", "\n\nM: 1\n\n",
		"M: 1\r\n\nName: a\n\n", "M: 1\n\r\n\r\nName: a", "M: 1\n\nName: a\n\nName: a\n\n", ":\n\n:\n\n", "M: 1\n\n: x\n\n"} {
		runJar("fixed", []byte(s))
	}
	jarToks := []string{"Manifest-Version: 1.0", "Name: a", "Name: bb", "name: c", "NAME:d", "X-Y: z", "\r\n", "\n", "\r", " ", ":", "x", "\n ", "\r\n ", "\r\n\r\n", "\n\n", "\t", "\xff", "Name:", "Na me: q"}
	for i := 0; i < 700*scale; i++ {
		runJar("tokens", tokenText(r, jarToks, 10))
	}
	enumStrings([]byte{'\n', '\r', ':', ' ', 'a'}, 5, func(b []byte) { runJar("enum", b) })
	// ---------------- pgptools line scanners
	runTail := func(kind string, s []byte) {
		pc := &pcase{Parser: "pgp_tail", Input: hex.EncodeToString(s), Kind: kind}
		tguard(pc, func() ([]int64, error) {
			o, err := pgptools.VerifTailClearSign(bytes.NewReader(s))
			if err != nil {
				return nil, err
			}
			return bytesInts(o), nil
		})
		emit(pc)
		pc = &pcase{Parser: "pgp_head", Input: hex.EncodeToString(s), Kind: kind}
		tguard(pc, func() ([]int64, error) {
			var o bytes.Buffer
			if err := pgptools.VerifHeadClearSign(bytes.NewReader(s), &o); err != nil {
				return nil, err
			}
			return bytesInts(o.Bytes()), nil
		})
		emit(pc)
	}
	sh := "-----BEGIN PGP SIGNATURE-----"
	pgpToks := []string{sh, sh + "\n", sh + "\r\n", " " + sh, sh + " ", "\n", "\r\n", "\r", "text", "- dash", "-----END PGP SIGNATURE-----\n", "\x00", "iQEz\n"}
	for i := 0; i < 200*scale; i++ {
		runTail("tokens", tokenText(r, pgpToks, 10))
	}
	for _, n := range []int{65535, 65536, 70000} {
		runTail("long-before-header", []byte("a\n"+rep('L', n)+"\n"+sh+"\nsig\n"))
		runTail("long-after-header", []byte("a\n"+sh+"\n"+rep('L', n)+"\nsig\n"))
		runTail("long-no-newline", []byte(sh+"\n"+rep('L', n)))
	}
	// ---------------- DetachClearSign: the whole pipe, with a throw-away key, under a watchdog (a hang is the observation)
	if e, _, err := throwawayKey(); err == nil {
		msgs := []struct {
			kind string
			msg  string
		}{{"short", "hello\n-dash\n"}, {"line-65535", rep('A', 65535) + "\n"}, {"line-65536", rep('A', 65536) + "\n"}, {"dash-line-65533", "-" + rep('A', 65532) + "\nx\n"},
			{"dash-line-65534", "-" + rep('A', 65533) + "\nx\n"}, {"line-65536-nonl", "x\n" + rep('A', 65536)}, {"empty", ""}}
		type res struct {
			i  int
			pc *pcase
		}
		ch := make(chan res, len(msgs))
		for i, m := range msgs {
			i, m := i, m
			go func() {
				pc := &pcase{Parser: "pgp_detach", Input: hex.EncodeToString([]byte(m.msg)), Kind: m.kind}
				done := make(chan struct{})
				go func() {
					defer close(done)
					tguard(pc, func() ([]int64, error) {
						var o bytes.Buffer
						return nil, pgptools.DetachClearSign(&o, e, strings.NewReader(m.msg), &packet.Config{DefaultHash: crypto.SHA256})
					})
				}()
				select {
				case <-done:
					ch <- res{i, pc}
				case <-time.After(3 * time.Second):
					ch <- res{i, &pcase{Parser: pc.Parser, Input: pc.Input, Kind: pc.Kind, Class: "panic", Detail: "hang: DetachClearSign did not return within 3 s"}}
				}
			}()
		}
		out := make([]*pcase, len(msgs))
		for range msgs {
			x := <-ch
			out[x.i] = x.pc
		}
		for _, pc := range out {
			emit(pc)
		}
	}
}

func b2i(b bool) int64 {
	if b {
		return 1
	}
	return 0
}
