// Package c11: crash-finding harness for property C11 (malformed input yields an error, never a crash or
// runaway resource use).
//
//	c11one  — ONE entry point of the real relic code on ONE input file, in this process, with no recover() of
//	          our own: a panic (also in a helper goroutine) kills the process and is seen by the runner.
//	c11run  — runs a manifest of cases, each as a fresh `c11one` subprocess (RLIMIT_AS, wall limit), classifies
//	          {ok, error, panic, oom, alloc, timeout} and derives the finding key from the Go trace.
//	c11gen  — structure-aware corruption of the fixtures / signed fixtures / transform outputs → manifest.
//	c11p    — the five small parsers of the proof half run in-process with recover, for the model comparison.
package c11

import (
	"bytes"
	"crypto"
	_ "crypto/sha256"
	"crypto/x509"
	"encoding/json"
	"errors"
	"fmt"
	"io"
	"net/url"
	"os"
	"path/filepath"
	"runtime"
	"strings"
	"syscall"

	"github.com/ProtonMail/go-crypto/openpgp"
	"github.com/rs/zerolog"
	"github.com/rs/zerolog/log"

	"github.com/sassoftware/relic/v8/lib/binpatch"
	"github.com/sassoftware/relic/v8/lib/certloader"
	"github.com/sassoftware/relic/v8/lib/magic"
	"github.com/sassoftware/relic/v8/lib/pkcs9"
	"github.com/sassoftware/relic/v8/signers"
	"github.com/sassoftware/relic/v8/verifharness/core"
	"github.com/sassoftware/relic/v8/verifharness/srvkit"
)

// Outcome of one in-process execution that returned (a crash never gets here).
type oneOut struct {
	Class    string `json:"class"` // ok | error
	Err      string `json:"err,omitempty"`
	Detected string `json:"detected,omitempty"` // what magic.Detect said
	Sys      uint64 `json:"sys"`                // bytes obtained from the OS by the Go runtime
	Total    uint64 `json:"total"`              // cumulative bytes allocated
	HWM      uint64 `json:"hwm"`                // peak RSS, bytes
	Status   int    `json:"status,omitempty"`   // HTTP status of the server entry points
	OutLen   int64  `json:"outlen,omitempty"`
	// with C11_MEMPROF: call stack (function names, innermost first) of the site that allocated the most bytes
	AllocSite  []string `json:"alloc_site,omitempty"`
	AllocBytes int64    `json:"alloc_bytes,omitempty"`
}

func biggestAllocSite() ([]string, int64) {
	runtime.GC()
	runtime.GC()
	recs := make([]runtime.MemProfileRecord, 4096)
	n, ok := runtime.MemProfile(recs, true)
	if !ok {
		recs = make([]runtime.MemProfileRecord, n+512)
		n, _ = runtime.MemProfile(recs, true)
	}
	best := -1
	for i := 0; i < n; i++ {
		if best < 0 || recs[i].AllocBytes > recs[best].AllocBytes {
			best = i
		}
	}
	if best < 0 {
		return nil, 0
	}
	var names []string
	fr := runtime.CallersFrames(recs[best].Stack())
	for {
		f, more := fr.Next()
		if f.Function != "" {
			names = append(names, f.Function)
		}
		if !more {
			break
		}
	}
	return names, recs[best].AllocBytes
}

const keysDir = "/repo/functest/testkeys"

func trusted() signers.VerifyOpts {
	opts := signers.VerifyOpts{NoChain: true}
	any, err := certloader.LoadAnyCerts([]string{keysDir + "/rsa2048.crt", keysDir + "/rsa2048.pgp"})
	if err == nil {
		opts.TrustedX509, opts.TrustedPgp = any.X509Certs, any.PGPCerts
		opts.TrustedPool = x509.NewCertPool()
		for _, c := range any.X509Certs {
			opts.TrustedPool.AddCert(c)
		}
	}
	return opts
}

func pickModule(f *os.File, sigtype, name string) (*signers.Signer, string, magic.CompressionType, error) {
	ft, comp := magic.DetectCompressed(f)
	det := fmt.Sprint(int(ft))
	if _, err := f.Seek(0, 0); err != nil {
		return nil, det, comp, err
	}
	if sigtype != "" && sigtype != "-" {
		mod := signers.ByName(sigtype)
		if mod == nil {
			return nil, det, comp, errors.New("no signer named " + sigtype)
		}
		return mod, det, magic.CompressedNone, nil
	}
	mod := signers.ByMagic(ft)
	if mod == nil {
		mod = signers.ByFileName(name)
	}
	if mod == nil {
		return nil, det, comp, errors.New("unknown filetype")
	}
	return mod, det, comp, nil
}

func peakRSS() uint64 {
	b, err := os.ReadFile("/proc/self/status")
	if err != nil {
		return 0
	}
	for _, l := range strings.Split(string(b), "\n") {
		if strings.HasPrefix(l, "VmHWM:") {
			var kb uint64
			fmt.Sscanf(strings.TrimSpace(strings.TrimPrefix(l, "VmHWM:")), "%d", &kb)
			return kb << 10
		}
	}
	return 0
}

// runEntry executes the entry point. It must not recover.
func runEntry(entry, sigtype, path, name, content, outPath, scratch, query string) (o oneOut) {
	extra, _ := url.ParseQuery(query)
	fail := func(err error) oneOut {
		if err != nil {
			o.Class, o.Err = "error", err.Error()
			if len(o.Err) > 300 {
				o.Err = o.Err[:300]
			}
		} else {
			o.Class = "ok"
		}
		return o
	}
	switch entry {
	case "verify", "verifykey", "issigned", "transform", "remote":
		f, err := os.Open(path)
		if err != nil {
			return fail(err)
		}
		defer f.Close()
		mod, det, comp, err := pickModule(f, sigtype, name)
		o.Detected = det
		if err != nil {
			return fail(err)
		}
		switch entry {
		case "verify", "verifykey":
			opts := trusted()
			if entry == "verifykey" {
				// the keyring is the (armored) public key in `content`: signatures made by a throw-away key of the generator
				kf, err := os.Open(content)
				if err != nil {
					return fail(err)
				}
				el, err := openpgp.ReadArmoredKeyRing(kf)
				kf.Close()
				if err != nil {
					return fail(err)
				}
				opts.TrustedPgp, content = el, ""
			}
			opts.FileName, opts.Compression, opts.Content = name, comp, content
			if mod.VerifyStream != nil {
				r, err := magic.Decompress(f, comp)
				if err != nil {
					return fail(err)
				}
				_, err = mod.VerifyStream(r, opts)
				return fail(err)
			}
			if mod.Verify == nil {
				return fail(errors.New("no verifier"))
			}
			_, err = mod.Verify(f, opts)
			return fail(err)
		case "issigned":
			_, err := mod.IsSigned(f)
			return fail(err)
		default:
			flags, err := mod.FlagsFromQuery(extra)
			if err != nil {
				return fail(err)
			}
			tr, err := mod.GetTransform(f, signers.SignOpts{Path: path, Hash: crypto.SHA256, Flags: flags})
			if err != nil {
				return fail(err)
			}
			r, err := tr.GetReader()
			if err != nil {
				return fail(err)
			}
			if entry == "transform" {
				var w io.Writer = io.Discard
				if outPath != "" {
					of, err := os.Create(outPath)
					if err != nil {
						return fail(err)
					}
					defer of.Close()
					w = of
				}
				n, err := io.Copy(w, r)
				o.OutLen = n
				return fail(err)
			}
			// remote: what `relic remote sign` does — upload the transformed stream to the server
			q := url.Values{}
			flags.ToQuery(q)
			return serverSign(&o, scratch, mod.Name, name, q, r, fail)
		}
	case "sign":
		f, err := os.Open(path)
		if err != nil {
			return fail(err)
		}
		defer f.Close()
		return serverSign(&o, scratch, sigtype, name, extra, f, fail)
	case "patch":
		// client side of every signing operation: the server's answer is a binpatch applied to the input file
		blob, err := os.ReadFile(path)
		if err != nil {
			return fail(err)
		}
		src := filepath.Join(scratch, "patch-src.bin")
		if err := os.WriteFile(src, bytes.Repeat([]byte("0123456789abcdef"), 64), 0o644); err != nil {
			return fail(err)
		}
		sf, err := os.Open(src)
		if err != nil {
			return fail(err)
		}
		defer sf.Close()
		return fail(signers.ApplyBinPatch(sf, filepath.Join(scratch, "patch-dst.bin"), bytes.NewReader(blob)))
	case "patchload":
		blob, err := os.ReadFile(path)
		if err != nil {
			return fail(err)
		}
		_, err = binpatch.Load(blob)
		return fail(err)
	case "cert":
		_, err := certloader.LoadAnyCerts([]string{path})
		return fail(err)
	case "certchain":
		blob, err := os.ReadFile(path)
		if err != nil {
			return fail(err)
		}
		_, err = certloader.ParseX509Certificates(blob)
		return fail(err)
	case "tsresp":
		// the timestamp client parses the TSA's answer (attacker = network / TSA)
		blob, err := os.ReadFile(path)
		if err != nil {
			return fail(err)
		}
		return fail(tsResponse(blob))
	}
	return fail(errors.New("unknown entry point " + entry))
}

func tsResponse(blob []byte) error {
	data := []byte("c11 timestamped data")
	h := crypto.SHA256.New()
	h.Write(data)
	msg, _, err := pkcs9.NewRequest("http://tsa.invalid/", crypto.SHA256, h.Sum(nil))
	if err != nil {
		return err
	}
	tok, err := msg.ParseResponse(blob)
	if err != nil {
		return err
	}
	_, err = pkcs9.Verify(tok, data, nil)
	return err
}

func serverSign(o *oneOut, scratch, sigtype, name string, q url.Values, body io.Reader, fail func(error) oneOut) oneOut {
	var logbuf bytes.Buffer
	log.Logger = zerolog.New(&logbuf)
	kit, err := srvkit.New(filepath.Join(scratch, "srv"), srvkit.Options{})
	if err != nil {
		return fail(fmt.Errorf("srvkit: %w", err))
	}
	res := kit.Sign("alice", "rsa2048", sigtype, name, q, body)
	o.Status = res.Status
	o.OutLen = int64(len(res.Body))
	if i := strings.Index(logbuf.String(), `"stack":"`); i >= 0 {
		// RecoveryMiddleware caught a panic of the request goroutine: re-raise it in the shape of a Go crash report
		var rec struct {
			Error string `json:"error"`
			Stack string `json:"stack"`
		}
		for _, l := range strings.Split(logbuf.String(), "\n") {
			if strings.Contains(l, `"stack":"`) {
				json.Unmarshal([]byte(l), &rec)
			}
		}
		fmt.Fprintf(os.Stderr, "panic: %s [recovered by server]\n\n%s\n", rec.Error, strings.ReplaceAll(rec.Stack, "\n ", "\n"))
		os.Stdout.Sync()
		os.Exit(2)
	}
	if res.Status == 200 {
		return fail(nil)
	}
	return fail(fmt.Errorf("HTTP %d: %s", res.Status, strings.TrimSpace(string(res.Body))))
}

func init() {
	// c11one <entry> <sigtype|-> <path> [name] [--content file] [--out file]
	core.Register("c11one", func(c *core.Ctx) error {
		if len(c.Args) < 3 {
			return errors.New("usage: c11one entry sigtype path [name] [--content f] [--out f]")
		}
		var lim uint64 = 2 << 30
		if v := os.Getenv("C11_AS"); v != "" {
			fmt.Sscanf(v, "%d", &lim)
		}
		if lim > 0 {
			syscall.Setrlimit(syscall.RLIMIT_AS, &syscall.Rlimit{Cur: lim, Max: lim})
		}
		entry, sigtype, path := c.Args[0], c.Args[1], c.Args[2]
		name := filepath.Base(path)
		var content, out, query string
		rest := c.Args[3:]
		for i := 0; i < len(rest); i++ {
			switch rest[i] {
			case "--content":
				i++
				content = rest[i]
			case "--out":
				i++
				out = rest[i]
			case "--query":
				i++
				query = rest[i]
			default:
				name = rest[i]
			}
		}
		scratch := c.Scratch
		if scratch == "" {
			d, err := os.MkdirTemp("/var/tmp", "verif.c11one.")
			if err != nil {
				return err
			}
			defer os.RemoveAll(d)
			scratch = d
		}
		prof := os.Getenv("C11_MEMPROF") != ""
		if prof {
			runtime.MemProfileRate = 64 << 10 // every allocation of 64 KiB or more is recorded
		}
		o := runEntry(entry, sigtype, path, name, content, out, scratch, query)
		if prof {
			o.AllocSite, o.AllocBytes = biggestAllocSite()
		}
		var ms runtime.MemStats
		runtime.ReadMemStats(&ms)
		o.Sys, o.Total, o.HWM = ms.Sys, ms.TotalAlloc, peakRSS()
		c.Emit(o)
		return nil
	})
}
