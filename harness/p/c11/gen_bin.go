package c11

import (
	"bytes"
	"compress/zlib"
	"encoding/binary"
	"fmt"
	"io"
	"regexp"
	"strings"
)

var be = binary.BigEndian

// ------------------------------------------------------------------ PE
type peLayout struct {
	pe, opt, optSize, nsec, secTbl int
	plus                           bool
	dd4                            int // offset of data directory entry 4
	certOff, certSize              int
}

func parsePE(b []byte) *peLayout {
	if len(b) < 0x40 || b[0] != 'M' || b[1] != 'Z' {
		return nil
	}
	p := &peLayout{pe: int(le.Uint32(b[0x3c:]))}
	if p.pe < 0 || p.pe+24 > len(b) {
		return nil
	}
	p.nsec = int(le.Uint16(b[p.pe+6:]))
	p.optSize = int(le.Uint16(b[p.pe+20:]))
	p.opt = p.pe + 24
	p.secTbl = p.opt + p.optSize
	if p.opt+2 > len(b) {
		return nil
	}
	p.plus = le.Uint16(b[p.opt:]) == 0x20b
	p.dd4 = p.opt + 128
	if p.plus {
		p.dd4 = p.opt + 144
	}
	if p.dd4+8 <= len(b) {
		p.certOff, p.certSize = int(le.Uint32(b[p.dd4:])), int(le.Uint32(b[p.dd4+4:]))
	}
	return p
}

func peFields(b []byte, p *peLayout) (fs []field, bounds []int) {
	fs = append(fs, field{"e_magic", 0, 2, false}, field{"e_lfanew", 0x3c, 4, false}, field{"pe.sig", p.pe, 4, false}, field{"machine", p.pe + 4, 2, false},
		field{"nsections", p.pe + 6, 2, false}, field{"symtab", p.pe + 12, 4, false}, field{"nsyms", p.pe + 16, 4, false}, field{"sizeofopt", p.pe + 20, 2, false},
		field{"characteristics", p.pe + 22, 2, false}, field{"opt.magic", p.opt, 2, false}, field{"opt.sizeofcode", p.opt + 4, 4, false},
		field{"opt.sectionalign", p.opt + 32, 4, false}, field{"opt.filealign", p.opt + 36, 4, false}, field{"opt.sizeofimage", p.opt + 56, 4, false},
		field{"opt.sizeofheaders", p.opt + 60, 4, false}, field{"opt.checksum", p.opt + 64, 4, false})
	nrva := p.opt + 92
	if p.plus {
		nrva = p.opt + 108
	}
	fs = append(fs, field{"opt.nrva", nrva, 4, false}, field{"dd4.va", p.dd4, 4, false}, field{"dd4.size", p.dd4 + 4, 4, false})
	bounds = append(bounds, 2, 0x3c, 0x40, p.pe, p.pe+4, p.pe+24, p.opt+2, p.opt+64, p.opt+68, nrva, p.dd4, p.dd4+8, p.secTbl)
	for i := 0; i < p.nsec && i < 4; i++ {
		s := p.secTbl + 40*i
		if s+40 > len(b) {
			break
		}
		fs = append(fs, field{fmt.Sprintf("sec[%d].vsize", i), s + 8, 4, false}, field{fmt.Sprintf("sec[%d].va", i), s + 12, 4, false},
			field{fmt.Sprintf("sec[%d].rawsize", i), s + 16, 4, false}, field{fmt.Sprintf("sec[%d].rawptr", i), s + 20, 4, false})
		bounds = append(bounds, s, s+40, int(le.Uint32(b[s+20:])), int(le.Uint32(b[s+20:]))+int(le.Uint32(b[s+16:])))
	}
	if p.certSize > 0 && p.certOff+8 <= len(b) {
		fs = append(fs, field{"wincert.len", p.certOff, 4, false}, field{"wincert.rev", p.certOff + 4, 2, false}, field{"wincert.type", p.certOff + 6, 2, false})
		bounds = append(bounds, p.certOff, p.certOff+4, p.certOff+8)
	}
	return
}

func (g *gen) genPE(b *BaseFile) {
	p := parsePE(b.data)
	if p == nil {
		return
	}
	fs, bounds := peFields(b.data, p)
	g.sweepFields(b, fs)
	g.truncAt(b, "pe", bounds)
	// small optional headers
	for _, n := range []int{0, 1, 2, 3, 63, 64, 68, 95, 96, 127, 128, 136, 223, 224, 239, 240} {
		g.add(b, fmt.Sprintf("sizeofopt=%d", n), []Op{ow(p.pe+20, encInt(uint64(n), 2, false))})
		// and with the file ending right after such an optional header
		g.add(b, fmt.Sprintf("sizeofopt=%d+trunc", n), []Op{ow(p.pe+20, encInt(uint64(n), 2, false)), tr(p.opt + n)})
	}
	// page-hash signing reads more header fields
	if !b.Signed {
		for _, f := range fs {
			if strings.HasPrefix(f.name, "sec[") || f.name == "opt.sizeofheaders" || f.name == "opt.filealign" || f.name == "nsections" {
				for _, v := range boundaryVals(f.w) {
					g.addQ(b, fmt.Sprintf("pagehash:field:%s=%#x", f.name, v), []Op{ow(f.off, encInt(v, f.w, false))}, "page-hashes=1", "sign")
				}
			}
		}
	}
	if p.certSize > 8 && p.certOff+p.certSize <= len(b.data) {
		g.genDer(b, p.certOff+8, p.certOff+p.certSize, "pe.p7")
	}
}

// evilPEs: small malformed PE images (used stand-alone and as AppX members)
func evilPEs() map[string][]byte {
	mk := func(optSize uint16, optMagic uint16, nsec uint16, total int) []byte {
		b := make([]byte, max(total, 0x58+int(optSize)))
		copy(b, "MZ")
		le.PutUint32(b[0x3c:], 0x40)
		copy(b[0x40:], "PE\x00\x00")
		le.PutUint16(b[0x44:], 0x14c)
		le.PutUint16(b[0x46:], nsec)
		le.PutUint16(b[0x54:], optSize)
		if optSize >= 2 {
			le.PutUint16(b[0x58:], optMagic)
		}
		return b
	}
	m := map[string][]byte{
		"opt0":       mk(0, 0, 0, 0x58),
		"opt1":       mk(1, 0, 0, 0x59),
		"opt2-pe32":  mk(2, 0x10b, 0, 0x5a),
		"opt96-pe32": mk(96, 0x10b, 0, 0x58+96),
		"opt224-nsec-max": func() []byte {
			b := mk(224, 0x10b, 0xffff, 0x58+224)
			le.PutUint32(b[0x58+92:], 16)
			le.PutUint32(b[0x58+60:], 0xffffffff)
			return b
		}(),
		"lfanew-max": func() []byte { b := mk(224, 0x10b, 0, 0x58+224); le.PutUint32(b[0x3c:], 0xffffffff); return b }(),
	}
	return m
}

// ------------------------------------------------------------------ CAB
func (g *gen) genCab(b *BaseFile) {
	d := b.data
	if len(d) < 36 {
		return
	}
	fs := []field{{"cab.magic", 0, 4, false}, {"cab.res1", 4, 4, false}, {"cab.totalsize", 8, 4, false}, {"cab.res2", 12, 4, false}, {"cab.offsetfiles", 16, 4, false},
		{"cab.res3", 20, 4, false}, {"cab.version", 24, 2, false}, {"cab.nfolders", 26, 2, false}, {"cab.nfiles", 28, 2, false}, {"cab.flags", 30, 2, false},
		{"cab.setid", 32, 2, false}, {"cab.cabno", 34, 2, false}}
	bounds := []int{4, 8, 16, 24, 36}
	p := 36
	if le.Uint16(d[30:])&4 != 0 && len(d) >= 60 {
		fs = append(fs, field{"cab.reserve.hdrsize", 36, 2, false}, field{"cab.reserve.foldersize", 38, 1, false}, field{"cab.reserve.datasize", 39, 1, false},
			field{"cab.sig.unk1", 40, 4, false}, field{"cab.sig.cabsize", 44, 4, false}, field{"cab.sig.sigsize", 48, 4, false}, field{"cab.sig.unk2", 52, 4, false}, field{"cab.sig.unk3", 56, 4, false})
		bounds = append(bounds, 40, 60)
		p = 60
		tot, ss := int(le.Uint32(d[8:])), int(le.Uint32(d[48:]))
		if tot+ss <= len(d) && ss > 0 {
			g.genDer(b, tot, tot+ss, "cab.p7")
			bounds = append(bounds, tot)
		}
	} else {
		// unsigned: claim a reserve header
		for _, hs := range []uint16{0, 19, 20, 21, 0xffff} {
			g.add(b, fmt.Sprintf("cab-flag-reserve+hdrsize=%d", hs), []Op{ow(30, encInt(4, 2, false)), ins(36, append(encInt(uint64(hs), 2, false), make([]byte, 22)...))})
		}
	}
	nf := int(le.Uint16(d[26:]))
	for i := 0; i < nf && i < 3 && p+8 <= len(d); i++ {
		fs = append(fs, field{fmt.Sprintf("cab.folder[%d].off", i), p, 4, false}, field{fmt.Sprintf("cab.folder[%d].ndata", i), p + 4, 2, false}, field{fmt.Sprintf("cab.folder[%d].comp", i), p + 6, 2, false})
		bounds = append(bounds, p, p+8)
		p += 8
	}
	g.sweepFields(b, fs)
	g.truncAt(b, "cab", bounds)
}

// ------------------------------------------------------------------ CFB (MSI)
func (g *gen) genCfb(b *BaseFile) {
	d := b.data
	if len(d) < 512 {
		return
	}
	fs := []field{{"cfb.rev", 24, 2, false}, {"cfb.ver", 26, 2, false}, {"cfb.bom", 28, 2, false}, {"cfb.sectorshift", 30, 2, false}, {"cfb.minishift", 32, 2, false},
		{"cfb.ndirsect", 40, 4, false}, {"cfb.nsat", 44, 4, false}, {"cfb.dirstart", 48, 4, false}, {"cfb.res2", 52, 4, false}, {"cfb.minstd", 56, 4, false},
		{"cfb.ssatstart", 60, 4, false}, {"cfb.nssat", 64, 4, false}, {"cfb.msatnext", 68, 4, false}, {"cfb.nmsat", 72, 4, false},
		{"cfb.msat[0]", 76, 4, false}, {"cfb.msat[1]", 80, 4, false}, {"cfb.msat[108]", 76 + 4*108, 4, false}}
	g.sweepFields(b, fs)
	for sh := 0; sh <= 32; sh++ {
		g.add(b, fmt.Sprintf("sectorshift=%d", sh), []Op{ow(30, encInt(uint64(sh), 2, false))})
		g.add(b, fmt.Sprintf("minishift=%d", sh), []Op{ow(32, encInt(uint64(sh), 2, false))})
	}
	ss := 1 << le.Uint16(d[30:])
	if ss < 512 || ss > 4096 {
		return
	}
	secOff := func(s int) int { return ss + s*ss }
	if ss < 512 {
		secOff = func(s int) int { return 512 + s*ss }
	}
	g.truncAt(b, "cfb", []int{8, 76, 512, ss, 2 * ss})
	// sector allocation table entries: self loops, two-cycles, out of range, free, negative specials
	sat0 := int(int32(le.Uint32(d[76:])))
	dir0 := int(int32(le.Uint32(d[48:])))
	ssat0 := int(int32(le.Uint32(d[60:])))
	if sat0 >= 0 && secOff(sat0)+ss <= len(d) {
		base := secOff(sat0)
		nsec := (len(d) - ss) / ss
		interesting := map[int]string{dir0: "dir", ssat0: "ssat", sat0: "sat"}
		// the first sector of every stream named in the directory
		if dir0 >= 0 && secOff(dir0)+ss <= len(d) {
			for e := 0; e < ss/128 && e < 8; e++ {
				o := secOff(dir0) + 128*e
				if d[o+66] != 0 {
					interesting[int(int32(le.Uint32(d[o+116:])))] = fmt.Sprintf("dirent%d", e)
				}
			}
		}
		for s, what := range interesting {
			if s < 0 || s >= ss/4 {
				continue
			}
			for _, v := range []int64{int64(s), -1, -2, -3, -4, -5, int64(nsec), int64(nsec) + 1, 0x7fffffff, -0x80000000, 0, int64(ss / 4), int64(ss/4) + 1, 0x1000000} {
				g.add(b, fmt.Sprintf("sat[%d:%s]=%d", s, what, v), []Op{ow(base+4*s, encInt(uint64(uint32(int32(v))), 4, false))})
			}
			// two-cycle with the next sector
			g.add(b, fmt.Sprintf("sat-2cycle[%d:%s]", s, what), []Op{ow(base+4*s, encInt(uint64(s+1), 4, false)), ow(base+4*(s+1), encInt(uint64(s), 4, false))})
		}
	}
	// MSAT chain through the header pointer: self loop
	for _, v := range []int64{0, 1, int64(sat0), int64(dir0)} {
		g.add(b, fmt.Sprintf("msatnext=%d", v), []Op{ow(68, encInt(uint64(uint32(int32(v))), 4, false))})
	}
	// MSAT sector whose last slot points to itself
	if len(d) >= secOff(1)+ss {
		for _, s := range []int{0, 1, 2} {
			if secOff(s)+ss <= len(d) {
				g.add(b, fmt.Sprintf("msat-selfchain@%d", s), []Op{ow(68, encInt(uint64(s), 4, false)), ow(secOff(s)+ss-4, encInt(uint64(s), 4, false))})
			}
		}
	}
	// directory entries
	if dir0 >= 0 && secOff(dir0)+ss <= len(d) {
		for e := 0; e < ss/128 && e < 6; e++ {
			o := secOff(dir0) + 128*e
			if d[o+66] == 0 && e > 0 {
				continue
			}
			fs := []field{{fmt.Sprintf("dirent[%d].namelen", e), o + 64, 2, false}, {fmt.Sprintf("dirent[%d].type", e), o + 66, 1, false}, {fmt.Sprintf("dirent[%d].color", e), o + 67, 1, false},
				{fmt.Sprintf("dirent[%d].left", e), o + 68, 4, false}, {fmt.Sprintf("dirent[%d].right", e), o + 72, 4, false}, {fmt.Sprintf("dirent[%d].root", e), o + 76, 4, false},
				{fmt.Sprintf("dirent[%d].start", e), o + 116, 4, false}, {fmt.Sprintf("dirent[%d].size", e), o + 120, 4, false}}
			g.sweepFields(b, fs)
			for _, fo := range []int{68, 72, 76} {
				for _, v := range []int64{int64(e), 0, 1, 2, -1, -2, int64(ss / 128), int64(ss/128) - 1, 1000} {
					g.add(b, fmt.Sprintf("dirent[%d]+%d=%d", e, fo, v), []Op{ow(o+fo, encInt(uint64(uint32(int32(v))), 4, false))})
				}
			}
			// every entry a root / storage / stream / unknown type
			for _, t := range []byte{0, 1, 2, 3, 4, 5, 6, 0xff} {
				g.add(b, fmt.Sprintf("dirent[%d].type=%d", e, t), []Op{ow(o+66, []byte{t})})
			}
		}
		// no root entry at all
		g.add(b, "dir-no-root", []Op{ow(secOff(dir0)+66, []byte{2})})
	}
	// signature stream content
	if i := bytes.Index(d, []byte{0x30, 0x82}); b.Signed && i > 0 {
		// the PKCS#7 blob lives in a stream; find the largest DER SEQUENCE
		best, bl := -1, 0
		for p := 0; p+4 < len(d); p++ {
			if d[p] == 0x30 && d[p+1] == 0x82 {
				l := int(be.Uint16(d[p+2:])) + 4
				if l > bl && p+l <= len(d) && l > 500 {
					best, bl = p, l
				}
			}
		}
		if best >= 0 {
			g.genDer(b, best, best+bl, "msi.p7")
		}
	}
}

// ------------------------------------------------------------------ Mach-O / code signature blobs
func (g *gen) genMacho(b *BaseFile) {
	d := b.data
	if len(d) < 32 {
		return
	}
	magic := be.Uint32(d)
	if magic == 0xcafebabe || magic == 0xcafebabf {
		n := int(be.Uint32(d[4:]))
		fs := []field{{"fat.magic", 0, 4, true}, {"fat.narch", 4, 4, true}}
		for i := 0; i < n && i < 4 && 8+20*i+20 <= len(d); i++ {
			o := 8 + 20*i
			fs = append(fs, field{fmt.Sprintf("fat[%d].cputype", i), o, 4, true}, field{fmt.Sprintf("fat[%d].offset", i), o + 8, 4, true},
				field{fmt.Sprintf("fat[%d].size", i), o + 12, 4, true}, field{fmt.Sprintf("fat[%d].align", i), o + 16, 4, true})
			off := int(be.Uint32(d[o+8:]))
			if off > 0 && off+32 < len(d) {
				g.machoThin(b, off)
			}
		}
		g.sweepFields(b, fs)
		g.truncAt(b, "fat", []int{4, 8, 28, 48})
		return
	}
	g.machoThin(b, 0)
}

func (g *gen) machoThin(b *BaseFile, base int) {
	d := b.data
	m := le.Uint32(d[base:])
	if m != 0xfeedface && m != 0xfeedfacf {
		return
	}
	hs := 28
	if m == 0xfeedfacf {
		hs = 32
	}
	ncmds := int(le.Uint32(d[base+16:]))
	fs := []field{{"mh.magic", base, 4, false}, {"mh.cputype", base + 4, 4, false}, {"mh.filetype", base + 12, 4, false}, {"mh.ncmds", base + 16, 4, false}, {"mh.sizeofcmds", base + 20, 4, false}, {"mh.flags", base + 24, 4, false}}
	bounds := []int{base + 4, base + hs}
	p := base + hs
	sigOff, sigSize := 0, 0
	for i := 0; i < ncmds && p+8 <= len(d); i++ {
		cmd, sz := le.Uint32(d[p:]), int(le.Uint32(d[p+4:]))
		fs = append(fs, field{fmt.Sprintf("lc[%d:%#x].cmd", i, cmd), p, 4, false}, field{fmt.Sprintf("lc[%d:%#x].size", i, cmd), p + 4, 4, false})
		bounds = append(bounds, p, p+8)
		switch cmd {
		case 0x1d: // LC_CODE_SIGNATURE
			fs = append(fs, field{"lc.codesig.dataoff", p + 8, 4, false}, field{"lc.codesig.datasize", p + 12, 4, false})
			sigOff, sigSize = base+int(le.Uint32(d[p+8:])), int(le.Uint32(d[p+12:]))
		case 0x19: // LC_SEGMENT_64
			fs = append(fs, field{fmt.Sprintf("seg64[%d].vmsize", i), p + 32, 8, false}, field{fmt.Sprintf("seg64[%d].fileoff", i), p + 40, 8, false},
				field{fmt.Sprintf("seg64[%d].filesize", i), p + 48, 8, false}, field{fmt.Sprintf("seg64[%d].nsects", i), p + 64, 4, false})
		case 0x1: // LC_SEGMENT
			fs = append(fs, field{fmt.Sprintf("seg[%d].fileoff", i), p + 32, 4, false}, field{fmt.Sprintf("seg[%d].filesize", i), p + 36, 4, false}, field{fmt.Sprintf("seg[%d].nsects", i), p + 48, 4, false})
		case 0x2: // LC_SYMTAB
			fs = append(fs, field{"symtab.symoff", p + 8, 4, false}, field{"symtab.nsyms", p + 12, 4, false}, field{"symtab.stroff", p + 16, 4, false}, field{"symtab.strsize", p + 20, 4, false})
		case 0xb: // LC_DYSYMTAB
			fs = append(fs, field{"dysymtab.indirectsymoff", p + 56, 4, false}, field{"dysymtab.nindirectsyms", p + 60, 4, false})
		}
		if sz < 8 {
			break
		}
		p += sz
	}
	g.sweepFields(b, fs)
	g.truncAt(b, "macho", bounds)
	if sigOff > 0 && sigOff+12 <= len(d) {
		g.genSuperBlob(b, sigOff, min(sigOff+sigSize, len(d)), "macho")
	}
}

func (g *gen) genSuperBlob(b *BaseFile, from, to int, label string) {
	d := b.data
	if from+12 > to || to > len(d) {
		return
	}
	fs := []field{{label + ".sb.magic", from, 4, true}, {label + ".sb.length", from + 4, 4, true}, {label + ".sb.count", from + 8, 4, true}}
	bounds := []int{from, from + 4, from + 8, from + 12}
	n := int(be.Uint32(d[from+8:]))
	for i := 0; i < n && i < 8 && from+12+8*i+8 <= to; i++ {
		io := from + 12 + 8*i
		typ := be.Uint32(d[io:])
		off := int(be.Uint32(d[io+4:]))
		fs = append(fs, field{fmt.Sprintf("%s.sb.idx[%d:%#x].type", label, i, typ), io, 4, true}, field{fmt.Sprintf("%s.sb.idx[%d:%#x].off", label, i, typ), io + 4, 4, true})
		// explicit: offsets just below the data area (negative after the parser rebases them)
		for _, v := range []int{0, 4, 8, 11, 12, 12 + 8*n - 1, 12 + 8*n - 4, 12 + 8*n - 8, 12 + 8*n, to - from - 8, to - from - 7, to - from - 4, to - from} {
			g.add(b, fmt.Sprintf("%s.sb.idx[%d].off=%d", label, i, v), []Op{ow(io+4, encInt(uint64(v), 4, true))})
		}
		bo := from + off
		if bo+8 > to {
			continue
		}
		bm := be.Uint32(d[bo:])
		bl := int(be.Uint32(d[bo+4:]))
		fs = append(fs, field{fmt.Sprintf("%s.blob[%#x].magic", label, bm), bo, 4, true}, field{fmt.Sprintf("%s.blob[%#x].length", label, bm), bo + 4, 4, true})
		bounds = append(bounds, bo, bo+8, bo+bl)
		switch bm {
		case 0xfade0c02: // CodeDirectory
			names := []string{"version", "flags", "hashOffset", "identOffset", "nSpecialSlots", "nCodeSlots", "codeLimit"}
			for k, nme := range names {
				fs = append(fs, field{fmt.Sprintf("%s.cd[%d].%s", label, i, nme), bo + 8 + 4*k, 4, true})
			}
			fs = append(fs, field{fmt.Sprintf("%s.cd[%d].hashSize", label, i), bo + 36, 1, true}, field{fmt.Sprintf("%s.cd[%d].hashType", label, i), bo + 37, 1, true},
				field{fmt.Sprintf("%s.cd[%d].pageSize", label, i), bo + 39, 1, true}, field{fmt.Sprintf("%s.cd[%d].scatterOffset", label, i), bo + 44, 4, true},
				field{fmt.Sprintf("%s.cd[%d].teamOffset", label, i), bo + 48, 4, true}, field{fmt.Sprintf("%s.cd[%d].codeLimit64", label, i), bo + 56, 8, true},
				field{fmt.Sprintf("%s.cd[%d].execSegBase", label, i), bo + 64, 8, true}, field{fmt.Sprintf("%s.cd[%d].execSegLimit", label, i), bo + 72, 8, true})
			bounds = append(bounds, bo+44, bo+88)
		case 0xfade0c01: // Requirements: count + (type, offset) pairs, then requirement blobs with an opcode stream
			if bo+12 <= to {
				cnt := int(be.Uint32(d[bo+8:]))
				fs = append(fs, field{label + ".reqs.count", bo + 8, 4, true})
				for r := 0; r < cnt && r < 3 && bo+12+8*r+8 <= to; r++ {
					fs = append(fs, field{fmt.Sprintf("%s.reqs[%d].type", label, r), bo + 12 + 8*r, 4, true}, field{fmt.Sprintf("%s.reqs[%d].off", label, r), bo + 16 + 8*r, 4, true})
					ro := bo + int(be.Uint32(d[bo+16+8*r:]))
					if ro+12 <= to {
						rl := int(be.Uint32(d[ro+4:]))
						fs = append(fs, field{fmt.Sprintf("%s.req[%d].magic", label, r), ro, 4, true}, field{fmt.Sprintf("%s.req[%d].length", label, r), ro + 4, 4, true}, field{fmt.Sprintf("%s.req[%d].kind", label, r), ro + 8, 4, true})
						// every word of the opcode stream
						for w := ro + 12; w+4 <= ro+rl && w+4 <= to && w < ro+12+4*24; w += 4 {
							fs = append(fs, field{fmt.Sprintf("%s.req[%d].op@%d", label, r, w-ro), w, 4, true})
						}
					}
				}
			}
		case 0xfade0b01: // CMS wrapper
			if bl > 8 && bo+bl <= to {
				g.genDer(b, bo+8, bo+bl, label+".cms")
			}
		}
	}
	g.sweepFields(b, fs)
	g.truncAt(b, label+".sb", bounds)
}

// ------------------------------------------------------------------ DMG (UDIF trailer)
func (g *gen) genDmg(b *BaseFile) {
	d := b.data
	if len(d) < 512 {
		return
	}
	t := len(d) - 512
	if string(d[t:t+4]) != "koly" {
		return
	}
	// resource file header: every 4-byte and 8-byte aligned big-endian field of the 512-byte trailer
	names := map[int]string{0: "koly.magic", 4: "koly.version", 8: "koly.headersize", 12: "koly.flags", 16: "koly.runningoff", 24: "koly.dataoff", 32: "koly.datalen",
		40: "koly.rsrcoff", 48: "koly.rsrclen", 56: "koly.segno", 60: "koly.segcount", 216: "koly.xmloff", 224: "koly.xmllen", 296: "koly.sigoff", 304: "koly.siglen", 488: "koly.imagevariant", 492: "koly.sectorcount"}
	var fs []field
	for o, n := range names {
		w := 8
		if o < 16 || o == 56 || o == 60 || o == 488 {
			w = 4
		}
		fs = append(fs, field{n, t + o, w, true})
	}
	g.sweepFields(b, fs)
	g.truncAt(b, "dmg", []int{t, t + 4, t + 216, t + 232, t + 296, t + 312, len(d) - 1})
	so, sl := int(be.Uint64(d[t+296:])), int(be.Uint64(d[t+304:]))
	if sl > 0 && so+sl <= len(d) {
		g.genSuperBlob(b, so, so+sl, "dmg")
	}
	xo, xl := int(be.Uint64(d[t+216:])), int(be.Uint64(d[t+224:]))
	if xl > 0 && xo+xl <= len(d) {
		g.truncAt(b, "dmg.xml", []int{xo, xo + xl})
	}
}

// ------------------------------------------------------------------ XAR
func (g *gen) genXar(b *BaseFile) {
	d := b.data
	if len(d) < 28 || string(d[:4]) != "xar!" {
		return
	}
	fs := []field{{"xar.magic", 0, 4, true}, {"xar.hdrsize", 4, 2, true}, {"xar.version", 6, 2, true}, {"xar.toclen", 8, 8, true}, {"xar.tocraw", 16, 8, true}, {"xar.cksumalg", 24, 4, true}}
	g.sweepFields(b, fs)
	hs, tl := int(be.Uint16(d[4:])), int(be.Uint64(d[8:]))
	g.truncAt(b, "xar", []int{4, 8, 16, 24, 28, hs, hs + tl})
	if hs+tl > len(d) {
		return
	}
	zr, err := zlib.NewReader(bytes.NewReader(d[hs : hs+tl]))
	if err != nil {
		return
	}
	toc, err := io.ReadAll(zr)
	if err != nil {
		return
	}
	heap := d[hs+tl:]
	rebuild := func(newToc []byte, claimRaw int64) []byte {
		var zb bytes.Buffer
		zw := zlib.NewWriter(&zb)
		zw.Write(newToc)
		zw.Close()
		out := append([]byte{}, d[:hs]...)
		be.PutUint64(out[8:], uint64(zb.Len()))
		if claimRaw < 0 {
			claimRaw = int64(len(newToc))
		}
		be.PutUint64(out[16:], uint64(claimRaw))
		out = append(out, zb.Bytes()...)
		return append(out, heap...)
	}
	s := string(toc)
	for label, mut := range xmlMutations(s) {
		g.addRaw("xar", b.SigType, b.Name, "toc:"+label+signedTag(b), rebuild([]byte(mut), -1), entriesFor(b)...)
	}
	// numeric values of offset / size / length elements
	re := regexp.MustCompile(`<(offset|size|length)>(\d+)</(offset|size|length)>`)
	locs := re.FindAllStringSubmatchIndex(s, -1)
	for i, l := range locs {
		if i > 12 {
			break
		}
		for _, v := range []string{"0", "1", "-1", "4294967295", "4294967296", "9223372036854775807", "9223372036854775808", "18446744073709551615", "99999999999999999999", "x", "", fmt.Sprint(len(heap)), fmt.Sprint(len(heap) + 1), "268435456"} {
			mut := s[:l[4]] + v + s[l[5]:]
			g.addRaw("xar", b.SigType, b.Name, fmt.Sprintf("toc:%s[%d]=%q%s", s[l[2]:l[3]], i, v, signedTag(b)), rebuild([]byte(mut), -1), entriesFor(b)...)
		}
	}
	// lying uncompressed length
	for _, v := range []int64{0, 1, int64(len(toc)) - 1, int64(len(toc)) + 1, 1 << 28, 1 << 31, 1 << 40, 1<<63 - 1} {
		g.addRaw("xar", b.SigType, b.Name, fmt.Sprintf("toc-rawlen=%d%s", v, signedTag(b)), rebuild(toc, v), entriesFor(b)...)
	}
}

func signedTag(b *BaseFile) string {
	if b.Signed {
		return "+sig"
	}
	return ""
}

// ------------------------------------------------------------------ ar (DEB)
func (g *gen) genAr(b *BaseFile) {
	d := b.data
	if len(d) < 8 || string(d[:8]) != "!<arch>\n" {
		return
	}
	p := 8
	i := 0
	var bounds []int
	for p+60 <= len(d) && i < 6 {
		name := strings.TrimSpace(string(d[p : p+16]))
		var size int
		fmt.Sscanf(strings.TrimSpace(string(d[p+48:p+58])), "%d", &size)
		bounds = append(bounds, p, p+16, p+48, p+58, p+60, p+60+size)
		for _, v := range []string{"0", "1", "-1", fmt.Sprint(size - 1), fmt.Sprint(size + 1), fmt.Sprint(len(d)), "2147483647", "2147483648", "4294967295", "9999999999", "", "abc", "0x10", "+5", " 5 5"} {
			s := fmt.Sprintf("%-10s", v)[:10]
			g.add(b, fmt.Sprintf("ar[%d:%s].size=%q", i, name, v), []Op{ow(p+48, []byte(s))})
		}
		g.add(b, fmt.Sprintf("ar[%d:%s].magic", i, name), []Op{ow(p+58, []byte("XX"))})
		g.add(b, fmt.Sprintf("ar[%d:%s].name-empty", i, name), []Op{ow(p, []byte("                "))})
		g.add(b, fmt.Sprintf("ar[%d:%s].name-slash", i, name), []Op{ow(p, []byte("/               "))})
		g.add(b, fmt.Sprintf("ar[%d:%s].name-long", i, name), []Op{ow(p, []byte("#1/99999999     "))})
		g.add(b, fmt.Sprintf("ar[%d:%s].drop", i, name), []Op{del(p, 60+size+size%2)})
		// inner compressed tar: corrupt the first bytes of the member
		for k := 0; k < 16 && k < size; k += 3 {
			g.add(b, fmt.Sprintf("ar[%d:%s].data^@%d", i, name, k), []Op{ow(p+60+k, []byte{d[p+60+k] ^ 0xff})})
		}
		p += 60 + size + size%2
		i++
	}
	g.truncAt(b, "ar", bounds)
	g.add(b, "ar-only-magic", []Op{tr(8)})
}

// ------------------------------------------------------------------ RPM
func (g *gen) genRpm(b *BaseFile) {
	d := b.data
	if len(d) < 96+16 {
		return
	}
	fs := []field{{"lead.magic", 0, 4, true}, {"lead.major", 4, 1, true}, {"lead.type", 6, 2, true}, {"lead.sigtype", 78, 2, true}}
	bounds := []int{4, 96}
	p := 96
	for h := 0; h < 2 && p+16 <= len(d); h++ {
		if be.Uint32(d[p:])>>8 != 0x8eade8 {
			break
		}
		n, hs := int(be.Uint32(d[p+8:])), int(be.Uint32(d[p+12:]))
		fs = append(fs, field{fmt.Sprintf("hdr%d.magic", h), p, 4, true}, field{fmt.Sprintf("hdr%d.nindex", h), p + 8, 4, true}, field{fmt.Sprintf("hdr%d.hsize", h), p + 12, 4, true})
		bounds = append(bounds, p, p+8, p+16, p+16+16*n, p+16+16*n+hs)
		for _, i := range pickIdx(n, 4) {
			o := p + 16 + 16*i
			if o+16 > len(d) {
				break
			}
			fs = append(fs, field{fmt.Sprintf("hdr%d.idx[%d].tag", h, i), o, 4, true}, field{fmt.Sprintf("hdr%d.idx[%d].type", h, i), o + 4, 4, true},
				field{fmt.Sprintf("hdr%d.idx[%d].offset", h, i), o + 8, 4, true}, field{fmt.Sprintf("hdr%d.idx[%d].count", h, i), o + 12, 4, true})
		}
		p += 16 + 16*n + hs
		if h == 0 {
			p = (p + 7) / 8 * 8
		}
	}
	g.sweepFields(b, fs)
	g.truncAt(b, "rpm", bounds)
}
