package c11

func (g *gen) genPE(b *BaseFile)    {}
func (g *gen) genZip(b *BaseFile)   {}
func (g *gen) genCab(b *BaseFile)   {}
func (g *gen) genCfb(b *BaseFile)   {}
func (g *gen) genMacho(b *BaseFile) {}
func (g *gen) genDmg(b *BaseFile)   {}
func (g *gen) genXar(b *BaseFile)   {}
func (g *gen) genAr(b *BaseFile)    {}
func (g *gen) genRpm(b *BaseFile)   {}
func (g *gen) genPgp(b *BaseFile)   {}
func (g *gen) genDer(b *BaseFile, from, to int, label string) {}
func (g *gen) genPs(b *BaseFile)    {}
func (g *gen) genXML(b *BaseFile)   {}
func (g *gen) genTar(b *BaseFile)   {}
func (g *gen) genCrafted()          {}
