package c19

// resign.go — histories of the signing pipeline: documents that already carry Signature children (stale, foreign,
// prefixed, nested, made by relic itself once or twice), signed through the REAL xmldsig.Sign / Verify and
// appmanifest.Sign / Verify.  For every step the driver records what relic saw (etree dump of the input), what it
// produced (etree dump in memory, serialised bytes, re-parsed dump), relic's own verdict, and — independently of relic
// and etree — the canonical form the declared transforms define (enveloped-signature, then exc-c14n), computed by the
// harness's own canonicaliser over its own token-level reader.

import (
	"crypto"
	"crypto/ecdsa"
	"crypto/rsa"
	"encoding/base64"
	"encoding/hex"
	"fmt"
	"sort"
	"strings"

	"github.com/beevik/etree"

	"github.com/sassoftware/relic/v8/lib/appmanifest"
	"github.com/sassoftware/relic/v8/lib/xmldsig"
	"github.com/sassoftware/relic/v8/verifharness/core"
)

func init() {
	core.Register("c19resign", runResign)
}

// ---------------------------------------------------------------- the harness's own exclusive canonicaliser
// W3C Exclusive XML Canonicalization 1.0 without comments, empty InclusiveNamespaces PrefixList, of a whole document
// element (no ancestors).  Written from the recommendation; shares nothing with relic or etree.

func cEscText(s string) string {
	var b strings.Builder
	for i := 0; i < len(s); i++ {
		switch s[i] {
		case '&':
			b.WriteString("&amp;")
		case '<':
			b.WriteString("&lt;")
		case '>':
			b.WriteString("&gt;")
		case '\r':
			b.WriteString("&#xD;")
		default:
			b.WriteByte(s[i])
		}
	}
	return b.String()
}

func cEscAttr(s string) string {
	var b strings.Builder
	for i := 0; i < len(s); i++ {
		switch s[i] {
		case '&':
			b.WriteString("&amp;")
		case '<':
			b.WriteString("&lt;")
		case '"':
			b.WriteString("&quot;")
		case '\t':
			b.WriteString("&#x9;")
		case '\n':
			b.WriteString("&#xA;")
		case '\r':
			b.WriteString("&#xD;")
		default:
			b.WriteByte(s[i])
		}
	}
	return b.String()
}

func excCanon(b *strings.Builder, n *gnode, inscope, rendered map[string]string) {
	switch n.kind {
	case 1:
		b.WriteString(cEscText(n.data))
		return
	case 2:
		return
	case 3:
		b.WriteString("<?" + n.target)
		if n.data != "" {
			b.WriteString(" " + n.data)
		}
		b.WriteString("?>")
		return
	}
	in2 := map[string]string{}
	for k, v := range inscope {
		in2[k] = v
	}
	var plain []gattr
	for _, a := range n.attrs {
		switch {
		case a.pfx == "" && a.local == "xmlns":
			in2[""] = a.val
		case a.pfx == "xmlns":
			in2[a.local] = a.val
		default:
			plain = append(plain, a)
		}
	}
	used := map[string]bool{n.pfx: true}
	for _, a := range plain {
		if a.pfx != "" && a.pfx != "xml" {
			used[a.pfx] = true
		}
	}
	var ps []string
	for p := range used {
		if p != "xml" && in2[p] != rendered[p] {
			ps = append(ps, p)
		}
	}
	sort.Strings(ps)
	r2 := map[string]string{}
	for k, v := range rendered {
		r2[k] = v
	}
	b.WriteString("<" + qn(n.pfx, n.local))
	for _, p := range ps {
		r2[p] = in2[p]
		if p == "" {
			b.WriteString(` xmlns="` + cEscAttr(in2[p]) + `"`)
		} else {
			b.WriteString(" xmlns:" + p + `="` + cEscAttr(in2[p]) + `"`)
		}
	}
	uri := func(a gattr) string {
		if a.pfx == "" {
			return ""
		}
		if a.pfx == "xml" {
			return "http://www.w3.org/XML/1998/namespace"
		}
		return in2[a.pfx]
	}
	sort.SliceStable(plain, func(i, j int) bool {
		ui, uj := uri(plain[i]), uri(plain[j])
		if ui != uj {
			return ui < uj
		}
		return plain[i].local < plain[j].local
	})
	for _, a := range plain {
		b.WriteString(" " + qn(a.pfx, a.local) + `="` + cEscAttr(a.val) + `"`)
	}
	b.WriteString(">")
	for _, c := range n.ch {
		excCanon(b, c, in2, r2)
	}
	b.WriteString("</" + qn(n.pfx, n.local) + ">")
}

func excCanonDoc(root *gnode) string {
	var b strings.Builder
	excCanon(&b, root, map[string]string{}, map[string]string{})
	return b.String()
}

// ---------------------------------------------------------------- logical-tree helpers (no etree)

func isSigNode(n *gnode) bool { return n.kind == 0 && n.local == "Signature" }

// elemAt follows child-ELEMENT indices
func elemAt(root *gnode, path []int) *gnode {
	cur := root
	for _, ix := range path {
		k := 0
		var nx *gnode
		for _, c := range cur.ch {
			if c.kind == 0 {
				if k == ix {
					nx = c
					break
				}
				k++
			}
		}
		if nx == nil {
			return nil
		}
		cur = nx
	}
	return cur
}

func withoutSigs(n *gnode) []*gnode {
	var out []*gnode
	for _, c := range n.ch {
		if !isSigNode(c) {
			out = append(out, c)
		}
	}
	return out
}

// mergeText joins adjacent text nodes and drops empty ones (a serialise / parse round trip does the same)
func mergeText(n *gnode) {
	var out []*gnode
	for _, c := range n.ch {
		if c.kind == 1 {
			if c.data == "" {
				continue
			}
			if len(out) > 0 && out[len(out)-1].kind == 1 {
				out[len(out)-1] = &gnode{kind: 1, data: out[len(out)-1].data + c.data}
				continue
			}
		}
		if c.kind == 0 {
			mergeText(c)
		}
		out = append(out, c)
	}
	n.ch = out
}

func treeEq(a, b *gnode) bool {
	if a.kind != b.kind || a.pfx != b.pfx || a.local != b.local || a.data != b.data || a.target != b.target || len(a.attrs) != len(b.attrs) || len(a.ch) != len(b.ch) {
		return false
	}
	aa := append([]gattr{}, a.attrs...)
	ba := append([]gattr{}, b.attrs...)
	less := func(x []gattr) func(i, j int) bool {
		return func(i, j int) bool {
			if x[i].pfx != x[j].pfx {
				return x[i].pfx < x[j].pfx
			}
			return x[i].local < x[j].local
		}
	}
	sort.Slice(aa, less(aa))
	sort.Slice(ba, less(ba))
	for i := range aa {
		if aa[i] != ba[i] {
			return false
		}
	}
	for i := range a.ch {
		if !treeEq(a.ch[i], b.ch[i]) {
			return false
		}
	}
	return true
}

// stripAttrWs: literal tab / newline in attribute values is a recorded finding of its own; keep it out of these histories
func stripAttrWs(n *gnode) {
	for i := range n.attrs {
		n.attrs[i].val = strings.NewReplacer("\t", " ", "\n", " ", "\r", "").Replace(n.attrs[i].val)
	}
	n.data = strings.ReplaceAll(n.data, "\r", "")
	for _, c := range n.ch {
		stripAttrWs(c)
	}
}

// ---------------------------------------------------------------- etree dumps

func dumpKids(ts []etree.Token) []interface{} {
	var dummy bool
	out := make([]interface{}, 0, len(ts))
	for _, t := range ts {
		out = append(out, dumpTok(t, &dummy))
	}
	return out
}

func dumpAttrs(e *etree.Element) []interface{} {
	attrs := make([]interface{}, 0, len(e.Attr))
	for _, a := range e.Attr {
		attrs = append(attrs, []interface{}{hx(a.Space), hx(a.Key), hx(a.Value)})
	}
	return attrs
}

// framesOf: the ancestors of parent inside root, outermost first: [space tag attrs left right]
func framesOf(root, parent *etree.Element) []interface{} {
	var chain []*etree.Element
	for e := parent; e != nil && e != root; e = e.Parent() {
		chain = append([]*etree.Element{e}, chain...)
	}
	frames := []interface{}{}
	cur := root
	for _, next := range chain {
		idx := -1
		for i, t := range cur.Child {
			if t == etree.Token(next) {
				idx = i
			}
		}
		if idx < 0 {
			return nil
		}
		frames = append(frames, []interface{}{hx(cur.Space), hx(cur.Tag), dumpAttrs(cur), dumpKids(cur.Child[:idx]), dumpKids(cur.Child[idx+1:])})
		cur = next
	}
	return frames
}

func etreeAt(root *etree.Element, path []int) *etree.Element {
	cur := root
	for _, ix := range path {
		kids := cur.ChildElements()
		if ix >= len(kids) {
			return nil
		}
		cur = kids[ix]
	}
	return cur
}

func textOf(e *etree.Element) string {
	if e == nil {
		return ""
	}
	return e.Text()
}

// ---------------------------------------------------------------- one signing step

type rsCase struct {
	ID       int    `json:"id"`
	Level    string `json:"level"` // xmldsig | manifest
	Scenario string `json:"scenario"`
	Round    int    `json:"round"`
	Key      string `json:"key"`
	Bits     int    `json:"bits"`
	Hash     string `json:"hash"`
	HashID   int    `json:"hash_id"`
	KeyKind  int    `json:"key_kind"`
	NCerts   int    `json:"ncerts"`
	Cert     string `json:"cert"`
	MS       bool   `json:"ms"`
	Rec      bool   `json:"rec"`
	KV       bool   `json:"include_kv"`
	X509     bool   `json:"include_x509"`
	InDoc    string `json:"in_doc"` // hex
	Path     []int  `json:"path"`   // child-element indices of the signing parent
	SigPath  string `json:"sigpath"`
	Expect   string `json:"expect"` // ok | multiple (two routes match the sigpath: relic documents nothing for that) | signerr
	// what relic saw
	Ctx0     []interface{} `json:"ctx0"`
	Frames   []interface{} `json:"frames"`
	Parent   []interface{} `json:"parent"` // [space tag attrs]
	Children []interface{} `json:"children"`
	InRoot   interface{}   `json:"in_root"`
	// what relic did
	SignErr     string        `json:"sign_err,omitempty"`
	OutRoot     interface{}   `json:"out_root,omitempty"` // in memory, after Sign
	Signed      string        `json:"signed,omitempty"`   // hex of the serialised result
	Reparsed    interface{}   `json:"reparsed,omitempty"` // etree dump of the re-parsed result
	DigestValue string        `json:"digest_value,omitempty"`
	SigValue    string        `json:"sig_value,omitempty"`
	KVNodes     []interface{} `json:"kv_nodes"`
	X509Nodes   []interface{} `json:"x509_nodes"`
	VerifyOK    bool          `json:"verify_ok"`
	VerifyErr   string        `json:"verify_err,omitempty"`
	VerifyMemOK bool          `json:"verify_mem_ok"` // Verify on the in-memory tree Sign left behind
	// independent of relic / etree
	ReaderErr    string `json:"reader_err,omitempty"`
	RefDoc       string `json:"ref_doc,omitempty"`    // hex: the signed document with the new Signature taken out (declared enveloped-signature transform)
	WantCanon    string `json:"want_canon,omitempty"` // hex: harness exc-c14n of it
	WantDigest   string `json:"want_digest,omitempty"`
	NSigAtParent int    `json:"nsig_at_parent"`
	NSigInput    int    `json:"nsig_input"`
	ContentSame  bool   `json:"content_same"` // everything but Signature children of the parent (and, for manifests, the identity fields) is as in the input
	NestedSigs   int    `json:"nested_sigs"`  // Signature elements elsewhere in the output
	NestedSigsIn int    `json:"nested_sigs_in"`
	PrevDigest   string `json:"prev_digest,omitempty"` // DigestValue of the previous round over the same content and identity
	SameIdentity bool   `json:"same_identity"`
	// manifest level
	Token        string        `json:"token,omitempty"`
	Subject      string        `json:"subject,omitempty"`
	IssuerHash   string        `json:"issuer_hash,omitempty"`
	MHash        string        `json:"mhash,omitempty"`
	DigestValue2 string        `json:"digest_value2,omitempty"`
	SigValue2    string        `json:"sig_value2,omitempty"`
	KVNodes2     []interface{} `json:"kv_nodes2,omitempty"`
	X509Nodes2   []interface{} `json:"x509_nodes2,omitempty"`
	RefDoc2      string        `json:"ref_doc2,omitempty"` // the license without its signature, as a document of its own
	WantDigest2  string        `json:"want_digest2,omitempty"`
	// relic's own canonical form (real SerializeCanonical) of the content the declared transforms select; compared with the
	// reference canonicaliser by the O1 oracle like every other canonicalisation case
	C14n  *c14nCase `json:"c14n,omitempty"`
	C14n2 *c14nCase `json:"c14n2,omitempty"`
}

var rsHashes = []struct {
	name string
	h    crypto.Hash
	id   int
}{{"sha1", crypto.SHA1, 3}, {"sha224", crypto.SHA224, 4}, {"sha256", crypto.SHA256, 5}, {"sha384", crypto.SHA384, 6}, {"sha512", crypto.SHA512, 7}}

// safely: a panic inside relic is an observation, not the end of the run
func safely(f func() error) (err error) {
	defer func() {
		if r := recover(); r != nil {
			err = fmt.Errorf("panic: %v", r)
		}
	}()
	return f()
}

func digestB64(h crypto.Hash, data []byte) string {
	d := h.New()
	d.Write(data)
	return base64.StdEncoding.EncodeToString(d.Sum(nil))
}

func countSigs(n *gnode, skipTop bool) int {
	k := 0
	for _, c := range n.ch {
		if c.kind == 0 {
			if isSigNode(c) && !skipTop {
				k++
				continue // what is inside a Signature belongs to it
			}
			if isSigNode(c) {
				continue
			}
			k += countSigs(c, false)
		}
	}
	return k
}

// nestedSigCount: Signature elements that are not children of the element at path
func nestedSigCount(root *gnode, path []int) int {
	parent := elemAt(root, path)
	var walk func(n *gnode) int
	walk = func(n *gnode) int {
		k := 0
		for _, c := range n.ch {
			if c.kind != 0 {
				continue
			}
			if isSigNode(c) {
				if n != parent {
					k++
				}
				continue
			}
			k += walk(c)
		}
		return k
	}
	return walk(root)
}

func keyKind(k *testKey) int {
	switch k.cert.Leaf.PublicKey.(type) {
	case *rsa.PublicKey:
		return 0
	case *ecdsa.PublicKey:
		return 1
	}
	return 9
}

// signOnce runs the real xmldsig.Sign on (doc, parent path) and fills the case.
func signOnce(cs *rsCase, doc string, path []int, k *testKey, hi int, opts xmldsig.SignOptions) {
	h := rsHashes[hi]
	cs.Level, cs.Key, cs.Bits, cs.Hash, cs.HashID, cs.KeyKind = "xmldsig", k.name, k.bits, h.name, h.id, keyKind(k)
	cs.Cert = hex.EncodeToString(k.cert.Leaf.Raw)
	cs.MS, cs.Rec, cs.KV, cs.X509 = opts.MsCompatHashNames, opts.UseRecC14n, opts.IncludeKeyValue, opts.IncludeX509
	cs.NCerts = len(k.cert.Chain())
	cs.InDoc, cs.Path = hx(doc), path
	if cs.Expect == "" {
		cs.Expect = "ok"
	}
	d := etree.NewDocument()
	if err := d.ReadFromString(doc); err != nil {
		cs.SignErr = "parse: " + err.Error()
		return
	}
	root := d.Root()
	parent := etreeAt(root, path)
	if parent == nil {
		cs.SignErr = "path"
		return
	}
	var dummy bool
	cs.Ctx0 = dumpCtx(root)
	cs.Frames = framesOf(root, parent)
	cs.Parent = []interface{}{hx(parent.Space), hx(parent.Tag), dumpAttrs(parent)}
	cs.Children = dumpKids(parent.Child)
	cs.InRoot = dumpTok(root, &dummy)
	// sigpath: the tags from root down to parent, then Signature
	var tags []string
	for e := parent; e != root; e = e.Parent() {
		tags = append([]string{e.Tag}, tags...)
	}
	cs.SigPath = strings.Join(append(tags, "Signature"), "/")
	inTree, rerr := parseDoc([]byte(doc))
	if rerr != nil {
		cs.ReaderErr = "input: " + rerr.Error()
		return
	}
	if p := elemAt(inTree, path); p != nil {
		cs.NSigInput = len(p.ch) - len(withoutSigs(p))
	}
	cs.NestedSigsIn = nestedSigCount(inTree, path)

	if err := safely(func() error { return xmldsig.Sign(root, parent, h.h, k.cert.Signer(), k.cert.Chain(), opts) }); err != nil {
		cs.SignErr = err.Error()
		return
	}
	cs.OutRoot = dumpTok(root, &dummy)
	if err := safely(func() error { _, e := xmldsig.Verify(root, cs.SigPath, nil); return e }); err == nil {
		cs.VerifyMemOK = true
	}
	signed, err := d.WriteToBytes()
	if err != nil {
		cs.SignErr = "write: " + err.Error()
		return
	}
	cs.Signed = hex.EncodeToString(signed)
	d2 := etree.NewDocument()
	if err := d2.ReadFromBytes(signed); err != nil {
		cs.VerifyErr = "reparse: " + err.Error()
		return
	}
	cs.Reparsed = dumpTok(d2.Root(), &dummy)
	if err := safely(func() error { _, e := xmldsig.Verify(d2.Root(), cs.SigPath, nil); return e }); err != nil {
		cs.VerifyErr = err.Error()
	} else {
		cs.VerifyOK = true
	}
	// the values the model cannot compute: taken from the last Signature child of the parent
	if p2 := etreeAt(d2.Root(), path); p2 != nil {
		var sig *etree.Element
		for _, c := range p2.ChildElements() {
			if c.Tag == "Signature" {
				sig = c
			}
		}
		if sig != nil {
			cs.DigestValue = textOf(sig.FindElement("SignedInfo/Reference/DigestValue"))
			cs.SigValue = textOf(sig.SelectElement("SignatureValue"))
			cs.KVNodes, cs.X509Nodes = []interface{}{}, []interface{}{}
			if ki := sig.SelectElement("KeyInfo"); ki != nil {
				for _, c := range ki.ChildElements() {
					switch c.Tag {
					case "KeyValue":
						cs.KVNodes = append(cs.KVNodes, dumpTok(c, &dummy))
					case "X509Data":
						cs.X509Nodes = append(cs.X509Nodes, dumpTok(c, &dummy))
					}
				}
			}
		}
	}
	// ---- independent reading of the result
	outTree, rerr := parseDoc(signed)
	if rerr != nil {
		cs.ReaderErr = "output: " + rerr.Error()
		return
	}
	po, pi := elemAt(outTree, path), elemAt(inTree, path)
	if po == nil || pi == nil {
		cs.ReaderErr = "parent not found in the output"
		return
	}
	cs.NSigAtParent = len(po.ch) - len(withoutSigs(po))
	cs.NestedSigs = nestedSigCount(outTree, path)
	// declared transforms: enveloped-signature (take the Signature being verified out), then exc-c14n
	ref := cloneTree(outTree)
	pr := elemAt(ref, path)
	last := -1
	for i, c := range pr.ch {
		if isSigNode(c) {
			last = i
		}
	}
	if last >= 0 {
		pr.ch = append(append([]*gnode{}, pr.ch[:last]...), pr.ch[last+1:]...)
	}
	plain := &style{r: &core.Rng{S: 1}, noCharRefs: true, noCDATA: true}
	var rb strings.Builder
	plain.write(&rb, ref)
	cs.RefDoc = hx(rb.String())
	cs.C14n = runOne(0, "resign:reference", rb.String(), "-")
	canon := excCanonDoc(ref)
	cs.WantCanon = hx(canon)
	cs.WantDigest = digestB64(h.h, []byte(canon))
	// content: input and output agree on everything but the Signature children of the parent
	a, b := cloneTree(inTree), cloneTree(outTree)
	elemAt(a, path).ch = withoutSigs(elemAt(a, path))
	elemAt(b, path).ch = withoutSigs(elemAt(b, path))
	mergeText(a)
	mergeText(b)
	cs.ContentSame = treeEq(a, b)
}

// ---------------------------------------------------------------- documents with a history

const staleForeign = `<Signature xmlns="http://www.w3.org/2000/09/xmldsig#"><SignedInfo><CanonicalizationMethod Algorithm="http://www.w3.org/2001/10/xml-exc-c14n#"/><SignatureMethod Algorithm="http://www.w3.org/2000/09/xmldsig#rsa-sha1"/><Reference URI=""><Transforms><Transform Algorithm="http://www.w3.org/2000/09/xmldsig#enveloped-signature"/></Transforms><DigestMethod Algorithm="http://www.w3.org/2000/09/xmldsig#sha1"/><DigestValue>c3RhbGUgZGlnZXN0IHZhbHVlIQ==</DigestValue></Reference></SignedInfo><SignatureValue>c3RhbGU=</SignatureValue><KeyInfo Id="old"><KeyName>nobody</KeyName></KeyInfo></Signature>`
const stalePrefixed = `<ds:Signature xmlns:ds="http://www.w3.org/2000/09/xmldsig#" Id="prev"><ds:SignedInfo><ds:Reference URI="#x"><ds:DigestValue>AAAA</ds:DigestValue></ds:Reference></ds:SignedInfo><ds:SignatureValue>BBBB</ds:SignatureValue></ds:Signature>`
const staleBare = `<Signature>left over</Signature>`
const staleOtherNs = `<q:Signature xmlns:q="urn:not-a-dsig-namespace" q:kind="handwritten"><q:by>someone</q:by></q:Signature>`

func staleNode(which int) *gnode {
	src := []string{staleForeign, stalePrefixed, staleBare, staleOtherNs}[which%4]
	n, err := parseDoc([]byte(src))
	if err != nil {
		panic(err)
	}
	return n
}

func insertAt(n *gnode, pos int, x *gnode) {
	if pos > len(n.ch) {
		pos = len(n.ch)
	}
	n.ch = append(append(append([]*gnode{}, n.ch[:pos]...), x), n.ch[pos:]...)
}

func genPlainDoc(r *core.Rng, depth int) *gnode {
	cfg := &gcfg{wild: false, maxDepth: depth, maxKids: 3, monotone: true}
	root := genElem(r, scope{}, 0, cfg)
	stripCR(root)
	stripCdataEnd(root)
	stripAttrWs(root)
	root.local = "doc" // never "Signature"
	renameSigs(root)
	return root
}

func renameSigs(n *gnode) {
	for _, c := range n.ch {
		if c.kind == 0 {
			if c.local == "Signature" {
				c.local = "Sig"
			}
			renameSigs(c)
		}
	}
}

func docText(r *core.Rng, root *gnode) string {
	st := &style{r: r}
	return st.document(root)
}

func runResign(c *core.Ctx) error {
	r := &core.Rng{S: c.Seed*733 + 11}
	keys, err := testKeys()
	if err != nil {
		return err
	}
	id := 0
	emit := func(cs *rsCase) {
		cs.ID = id
		id++
		c.Emit(cs)
	}
	stdOpts := func(i int) xmldsig.SignOptions {
		return xmldsig.SignOptions{MsCompatHashNames: i%3 == 1, UseRecC14n: false, IncludeKeyValue: i%4 != 3, IncludeX509: i%2 == 0 || i%4 == 3}
	}
	rounds := 1
	if c.Tier == "thorough" {
		rounds = 6
	}
	n := 0
	for round := 0; round < rounds; round++ {
		// ---------------- xmldsig level, root == parent
		type scen struct {
			name string
			make func(root *gnode)
		}
		scens := []scen{
			{"unsigned", func(root *gnode) {}},
			{"stale-foreign-last", func(root *gnode) { insertAt(root, len(root.ch), staleNode(0)) }},
			{"stale-foreign-first", func(root *gnode) { insertAt(root, 0, staleNode(0)) }},
			{"stale-foreign-middle", func(root *gnode) { insertAt(root, len(root.ch)/2, staleNode(0)) }},
			{"stale-prefixed", func(root *gnode) { insertAt(root, r.Intn(len(root.ch)+1), staleNode(1)) }},
			{"stale-bare", func(root *gnode) { insertAt(root, r.Intn(len(root.ch)+1), staleNode(2)) }},
			{"stale-other-namespace", func(root *gnode) { insertAt(root, r.Intn(len(root.ch)+1), staleNode(3)) }},
			{"two-stale-adjacent", func(root *gnode) {
				p := r.Intn(len(root.ch) + 1)
				insertAt(root, p, staleNode(0))
				insertAt(root, p, staleNode(1))
			}},
			{"three-stale-spread", func(root *gnode) {
				insertAt(root, 0, staleNode(2))
				insertAt(root, len(root.ch)/2+1, staleNode(0))
				insertAt(root, len(root.ch), staleNode(1))
			}},
			{"stale-between-text", func(root *gnode) {
				root.ch = append(root.ch, &gnode{kind: 1, data: "before "}, staleNode(0), &gnode{kind: 1, data: " after"})
			}},
			{"nested-signature-kept", func(root *gnode) {
				root.ch = append(root.ch, &gnode{kind: 0, local: "holder", ch: []*gnode{staleNode(0), {kind: 1, data: "x"}}})
			}},
			{"nested-and-stale", func(root *gnode) {
				root.ch = append([]*gnode{{kind: 0, local: "holder", ch: []*gnode{staleNode(1)}}}, root.ch...)
				insertAt(root, len(root.ch), staleNode(0))
			}},
			{"lookalike-tags-kept", func(root *gnode) {
				root.ch = append(root.ch, &gnode{kind: 0, local: "signature", ch: []*gnode{{kind: 1, data: "lower"}}}, &gnode{kind: 0, local: "SignatureX"},
					&gnode{kind: 0, local: "XSignature"})
			}},
		}
		for si, sc := range scens {
			k := keys[(n+si)%len(keys)]
			hi := (n + si + round) % len(rsHashes)
			root := genPlainDoc(r, 2+si%2)
			sc.make(root)
			doc := docText(r, root)
			cs := &rsCase{Scenario: sc.name, Round: 1}
			signOnce(cs, doc, nil, k, hi, stdOpts(n+si))
			emit(cs)
			if cs.Signed == "" {
				continue
			}
			// sign the result again: same key and digest (the digest must not move), then another key / digest
			prev := cs
			for rd := 2; rd <= 3; rd++ {
				k2, hi2 := k, hi
				if rd == 3 {
					k2, hi2 = keys[(n+si+1)%len(keys)], (hi+1)%len(rsHashes)
				}
				sb, _ := hex.DecodeString(prev.Signed)
				nx := &rsCase{Scenario: sc.name + "+resign", Round: rd}
				signOnce(nx, string(sb), nil, k2, hi2, stdOpts(n+si+rd))
				if hi2 == hi {
					nx.PrevDigest, nx.SameIdentity = prev.DigestValue, true
				}
				emit(nx)
				if nx.Signed == "" {
					break
				}
				prev = nx
			}
		}
		n += len(scens)
		// ---------------- xmldsig level, parent below root (what appmanifest does for the license: issuer/Signature)
		for v := 0; v < 6; v++ {
			k := keys[(n+v)%len(keys)]
			hi := (n + v) % len(rsHashes)
			root := genPlainDoc(r, 2)
			holder := &gnode{kind: 0, local: "holder", attrs: []gattr{{"", "n", fmt.Sprint(v)}}, ch: []*gnode{{kind: 1, data: "payload"}}}
			name, expect := "nested-parent", "ok"
			switch v {
			case 1:
				name = "nested-parent-stale"
				holder.ch = append(holder.ch, staleNode(0))
			case 2:
				name = "nested-parent-stale-and-root-level-signature"
				holder.ch = append([]*gnode{staleNode(1)}, holder.ch...)
				root.ch = append(root.ch, staleNode(0)) // not under the parent: stays, and is part of the digest
			case 3:
				name = "nested-parent-two-stale"
				holder.ch = append(holder.ch, staleNode(2), staleNode(0))
			case 4:
				name = "nested-parent-sibling-holder-without-signature"
				root.ch = append(root.ch, &gnode{kind: 0, local: "holder", ch: []*gnode{{kind: 1, data: "other"}}})
			case 5:
				name, expect = "nested-parent-sibling-holder-with-signature", "multiple"
				root.ch = append(root.ch, &gnode{kind: 0, local: "holder", ch: []*gnode{staleNode(0)}})
			}
			// the holder goes first so that its child-element index is 0
			root.ch = append([]*gnode{holder}, root.ch...)
			doc := docText(r, root)
			cs := &rsCase{Scenario: name, Round: 1, Expect: expect}
			signOnce(cs, doc, []int{0}, k, hi, stdOpts(n+v))
			emit(cs)
			if cs.Signed != "" && expect == "ok" {
				sb, _ := hex.DecodeString(cs.Signed)
				nx := &rsCase{Scenario: name + "+resign", Round: 2, Expect: expect}
				signOnce(nx, string(sb), []int{0}, k, hi, stdOpts(n+v+1))
				nx.PrevDigest, nx.SameIdentity = cs.DigestValue, true
				emit(nx)
			}
		}
		n += 6
		// ---------------- refused inputs: the errors of Sign
		{
			root := genPlainDoc(r, 2)
			insertAt(root, 0, staleNode(0))
			doc := docText(r, root)
			cs := &rsCase{Scenario: "unsupported-hash", Round: 1, Expect: "signerr"}
			signOnceRaw(cs, doc, keys[0], crypto.MD5, 2, stdOpts(0), false)
			emit(cs)
			cs = &rsCase{Scenario: "certificate-of-another-key", Round: 1, Expect: "signerr"}
			signOnceRaw(cs, doc, keys[0], crypto.SHA256, 5, stdOpts(0), true)
			emit(cs)
		}
		// ---------------- ClickOnce manifests through appmanifest.Sign, signed again and again
		for mi := 0; mi < 2*len(keys); mi++ {
			k := keys[mi%len(keys)]
			hi := []int{0, 2, 3, 4}[(mi+round)%4] // appmanifest: sha1 / sha256 / sha384 / sha512
			man := genManifest(r, 100+n+mi, false)
			manTree, perr := parseDoc([]byte(man))
			if perr != nil {
				return perr
			}
			stripAttrWs(manTree)
			name := "manifest"
			switch mi % 4 {
			case 1:
				name = "manifest+stale-foreign"
				insertAt(manTree, len(manTree.ch), staleNode(0))
			case 2:
				name = "manifest+stale-prefixed-first+publisherIdentity"
				insertAt(manTree, 0, staleNode(1))
				insertAt(manTree, 2, &gnode{kind: 0, local: "publisherIdentity", attrs: []gattr{{"", "name", "CN=Somebody Else"}, {"", "issuerKeyHash", "00"}}})
			case 3:
				name = "manifest+nested-signature"
				for _, ch := range manTree.ch {
					if ch.kind == 0 && ch.local == "dependency" {
						ch.ch = append(ch.ch, staleNode(0))
					}
				}
			}
			plain := &style{r: r, noCDATA: false}
			var mb strings.Builder
			mb.WriteString("<?xml version=\"1.0\" encoding=\"utf-8\"?>\n")
			if mi == 4 { // a processing instruction outside the document element: part of the document a Reference URI="" covers
				name = "manifest+leading-pi"
				mb.WriteString("<?xml-stylesheet type=\"text/xsl\" href=\"manifest.xsl\"?>\n")
			}
			plain.write(&mb, manTree)
			cur := []byte(mb.String())
			var prev *rsCase
			for rd := 1; rd <= 3; rd++ {
				k2 := k
				if rd == 3 {
					k2 = keys[(mi+1)%len(keys)] // certificate renewal: another key, identity fields change
				}
				cs := &rsCase{Scenario: name, Round: rd}
				if rd > 1 {
					cs.Scenario = name + "+resign"
				}
				signManifest(cs, cur, k2, hi)
				if prev != nil && k2 == k {
					cs.PrevDigest, cs.SameIdentity = prev.DigestValue, true
				}
				emit(cs)
				if cs.Signed == "" {
					break
				}
				cur, _ = hex.DecodeString(cs.Signed)
				prev = cs
			}
		}
		n += 2 * len(keys)
	}
	return nil
}

// signOnceRaw: the refusal paths of Sign (unsupported hash, certificate that does not belong to the key)
func signOnceRaw(cs *rsCase, doc string, k *testKey, h crypto.Hash, hid int, opts xmldsig.SignOptions, wrongCert bool) {
	cs.Level, cs.Key, cs.Bits, cs.Hash, cs.HashID, cs.KeyKind = "xmldsig", k.name, k.bits, fmt.Sprint(h), hid, keyKind(k)
	cs.MS, cs.Rec, cs.KV, cs.X509 = opts.MsCompatHashNames, opts.UseRecC14n, opts.IncludeKeyValue, opts.IncludeX509
	cs.InDoc, cs.Path, cs.SigPath = hx(doc), nil, "Signature"
	d := etree.NewDocument()
	if err := d.ReadFromString(doc); err != nil {
		cs.SignErr = "parse: " + err.Error()
		return
	}
	root := d.Root()
	var dummy bool
	cs.Ctx0 = dumpCtx(root)
	cs.Frames = []interface{}{}
	cs.Parent = []interface{}{hx(root.Space), hx(root.Tag), dumpAttrs(root)}
	cs.Children = dumpKids(root.Child)
	cs.InRoot = dumpTok(root, &dummy)
	chain := k.cert.Chain()
	cs.NCerts = len(chain)
	if wrongCert {
		other, err := testKeys()
		if err == nil {
			chain = other[0].cert.Chain()
		}
	}
	err := safely(func() error { return xmldsig.Sign(root, root, h, k.cert.Signer(), chain, opts) })
	if err != nil {
		cs.SignErr = err.Error()
	}
	cs.OutRoot = dumpTok(root, &dummy) // a refused request must leave... whatever it leaves: recorded for the model comparison
	cs.KVNodes, cs.X509Nodes = []interface{}{}, []interface{}{}
}

// signManifest runs the real appmanifest.Sign / Verify on one manifest text
func signManifest(cs *rsCase, man []byte, k *testKey, hi int) {
	h := rsHashes[hi]
	cs.Level, cs.Key, cs.Bits, cs.Hash, cs.HashID, cs.KeyKind = "manifest", k.name, k.bits, h.name, h.id, keyKind(k)
	cs.Cert = hex.EncodeToString(k.cert.Leaf.Raw)
	cs.MS, cs.KV, cs.X509 = true, true, false
	cs.NCerts = len(k.cert.Chain())
	cs.InDoc, cs.Path, cs.SigPath, cs.Expect = hx(string(man)), nil, "Signature", "ok"
	var dummy bool
	d := etree.NewDocument()
	if err := d.ReadFromString(string(man)); err != nil {
		cs.SignErr = "parse: " + err.Error()
		return
	}
	cs.InRoot = dumpTok(d.Root(), &dummy)
	cs.Ctx0 = dumpCtx(d.Root())
	cs.Frames = []interface{}{}
	cs.Parent = []interface{}{hx(d.Root().Space), hx(d.Root().Tag), dumpAttrs(d.Root())}
	cs.Children = dumpKids(d.Root().Child)
	tok, err := appmanifest.PublicKeyToken(k.cert.Leaf.PublicKey)
	if err != nil {
		cs.SignErr = "token: " + err.Error()
		return
	}
	subj, ikh, err := appmanifest.PublisherIdentity(k.cert)
	if err != nil {
		cs.SignErr = "publisher: " + err.Error()
		return
	}
	cs.Token, cs.Subject, cs.IssuerHash = tok, subj, ikh
	inTree, rerr := parseDoc(man)
	if rerr != nil {
		cs.ReaderErr = "input: " + rerr.Error()
		return
	}
	cs.NSigInput = len(inTree.ch) - len(withoutSigs(inTree))
	cs.NestedSigsIn = nestedSigCount(inTree, nil)
	var signed *appmanifest.SignedManifest
	err = safely(func() error { var e error; signed, e = appmanifest.Sign(man, k.cert, h.h); return e })
	if err != nil {
		cs.SignErr = err.Error()
		return
	}
	cs.Signed = hex.EncodeToString(signed.Signed)
	if err := safely(func() error { _, e := appmanifest.Verify(signed.Signed); return e }); err != nil {
		cs.VerifyErr = err.Error()
	} else {
		cs.VerifyOK = true
	}
	d2 := etree.NewDocument()
	if err := d2.ReadFromBytes(signed.Signed); err != nil {
		cs.VerifyErr = "reparse: " + err.Error()
		return
	}
	cs.Reparsed = dumpTok(d2.Root(), &dummy)
	kvx := func(sig *etree.Element) ([]interface{}, []interface{}) {
		kv, x := []interface{}{}, []interface{}{}
		if ki := sig.SelectElement("KeyInfo"); ki != nil {
			for _, c := range ki.ChildElements() {
				switch c.Tag {
				case "KeyValue":
					kv = append(kv, dumpTok(c, &dummy))
				case "X509Data":
					x = append(x, dumpTok(c, &dummy))
				}
			}
		}
		return kv, x
	}
	if sig := d2.Root().SelectElement("Signature"); sig != nil {
		cs.DigestValue = textOf(sig.FindElement("SignedInfo/Reference/DigestValue"))
		cs.SigValue = textOf(sig.SelectElement("SignatureValue"))
		cs.KVNodes, cs.X509Nodes = kvx(sig)
		if mi := sig.FindElement("KeyInfo/msrel:RelData/r:license/r:grant/as:ManifestInformation"); mi != nil {
			cs.MHash = mi.SelectAttrValue("Hash", "")
		}
		if s2 := sig.FindElement("KeyInfo/msrel:RelData/r:license/r:issuer/Signature"); s2 != nil {
			cs.DigestValue2 = textOf(s2.FindElement("SignedInfo/Reference/DigestValue"))
			cs.SigValue2 = textOf(s2.SelectElement("SignatureValue"))
			cs.KVNodes2, cs.X509Nodes2 = kvx(s2)
		}
	}
	// ---- independent reading
	outTree, rerr := parseDoc(signed.Signed)
	if rerr != nil {
		cs.ReaderErr = "output: " + rerr.Error()
		return
	}
	cs.NSigAtParent = len(outTree.ch) - len(withoutSigs(outTree))
	cs.NestedSigs = nestedSigCount(outTree, nil)
	ref := cloneTree(outTree)
	ref.ch = withoutSigs(ref)
	plain := &style{r: &core.Rng{S: 1}, noCharRefs: true, noCDATA: true}
	var rb strings.Builder
	plain.write(&rb, ref)
	cs.RefDoc = hx(rb.String())
	cs.C14n = runOne(0, "resign:manifest-reference", rb.String(), "-")
	canon := excCanonDoc(ref)
	cs.WantCanon = hx(canon)
	cs.WantDigest = digestB64(h.h, []byte(canon))
	// the license, as the document of its own that appmanifest signs and verifies (no ancestors), without its signature
	var all []located
	locate(outTree, nil, 0, "", &all)
	for _, l := range all {
		if l.n.kind == 0 && l.n.local == "license" && l.n.pfx == "r" {
			lic := cloneTree(l.n)
			for _, c := range lic.ch {
				if c.kind == 0 && c.local == "issuer" {
					c.ch = withoutSigs(c)
				}
			}
			var lb strings.Builder
			plain.write(&lb, lic)
			cs.RefDoc2 = hx(lb.String())
			cs.C14n2 = runOne(0, "resign:license-reference", lb.String(), "-")
			cs.WantDigest2 = digestB64(h.h, []byte(excCanonDoc(lic)))
		}
	}
	// content: everything but Signature children, publisherIdentity and the top-level assemblyIdentity/@publicKeyToken
	norm := func(t *gnode) *gnode {
		x := cloneTree(t)
		var ch []*gnode
		first := true
		for _, c := range x.ch {
			if isSigNode(c) || (c.kind == 0 && c.local == "publisherIdentity") {
				continue
			}
			if c.kind == 0 && c.local == "assemblyIdentity" && first {
				first = false
				var at []gattr
				for _, a := range c.attrs {
					if !(a.pfx == "" && a.local == "publicKeyToken") {
						at = append(at, a)
					}
				}
				c.attrs = at
			}
			ch = append(ch, c)
		}
		x.ch = ch
		mergeText(x)
		return x
	}
	cs.ContentSame = treeEq(norm(inTree), norm(outTree))
}
