package c19

import (
	"encoding/hex"
	"fmt"
	"reflect"
	"strconv"
	"strings"

	"github.com/beevik/etree"

	"github.com/sassoftware/relic/v8/lib/xmldsig"
	"github.com/sassoftware/relic/v8/verifharness/core"
)

func hx(s string) string { return hex.EncodeToString([]byte(s)) }

// dump of an etree token exactly as relic sees it: every string hex-encoded
// node ::= [0 space tag [[space key value]*] [node*]] | [1 data] | [2 data] | [3 target inst] | [4 data]
func dumpTok(t etree.Token, cdata *bool) interface{} {
	switch x := t.(type) {
	case *etree.Element:
		attrs := make([]interface{}, 0, len(x.Attr))
		for _, a := range x.Attr {
			attrs = append(attrs, []interface{}{hx(a.Space), hx(a.Key), hx(a.Value)})
		}
		ch := make([]interface{}, 0, len(x.Child))
		for _, c := range x.Child {
			ch = append(ch, dumpTok(c, cdata))
		}
		return []interface{}{0, hx(x.Space), hx(x.Tag), attrs, ch}
	case *etree.CharData:
		if x.IsCData() {
			*cdata = true
		}
		return []interface{}{1, hx(x.Data)}
	case *etree.Comment:
		return []interface{}{2, hx(x.Data)}
	case *etree.ProcInst:
		return []interface{}{3, hx(x.Target), hx(x.Inst)}
	case *etree.Directive:
		return []interface{}{4, hx(x.Data)}
	}
	return []interface{}{1, ""}
}

func dumpCtx(el *etree.Element) []interface{} {
	ctx := []interface{}{}
	for p := el.Parent(); p != nil; p = p.Parent() {
		attrs := make([]interface{}, 0, len(p.Attr))
		for _, a := range p.Attr {
			attrs = append(attrs, []interface{}{hx(a.Space), hx(a.Key), hx(a.Value)})
		}
		ctx = append(ctx, attrs)
	}
	return ctx
}

func findPath(root *etree.Element, path string) *etree.Element {
	cur := root
	if path == "-" || path == "" {
		return cur
	}
	for _, ix := range strings.Split(path, "/") {
		want, _ := strconv.Atoi(ix)
		kids := cur.ChildElements()
		if want >= len(kids) {
			return nil
		}
		cur = kids[want]
	}
	return cur
}

type c14nCase struct {
	ID     int           `json:"id"`
	Kind   string        `json:"kind"`
	Doc    string        `json:"doc"`  // hex of the serialised document
	Path   string        `json:"path"` // element to canonicalise
	Ctx    []interface{} `json:"ctx"`
	Tree   interface{}   `json:"tree"`
	Out    string        `json:"out"` // hex of SerializeCanonical
	Err    string        `json:"err,omitempty"`
	Nondet bool          `json:"nondet,omitempty"`  // repeated calls gave different bytes
	Mutate bool          `json:"mutated,omitempty"` // the input tree changed
	CData  bool          `json:"cdata,omitempty"`
	Inc    bool          `json:"inclusive,omitempty"` // compare with inclusive c14n (the algorithm the REC URI names)
}

// runOne parses doc with etree (as relic does), canonicalises the element at path with the real code.
func runOne(id int, kind, doc, path string) *c14nCase {
	cs := &c14nCase{ID: id, Kind: kind, Doc: hx(doc), Path: path}
	d := etree.NewDocument()
	if err := d.ReadFromString(doc); err != nil {
		cs.Err = "parse: " + err.Error()
		return cs
	}
	root := d.Root()
	if root == nil {
		cs.Err = "parse: no root"
		return cs
	}
	el := findPath(root, path)
	if el == nil {
		cs.Err = "path"
		return cs
	}
	cs.Ctx = dumpCtx(el)
	cs.Tree = dumpTok(el, &cs.CData)
	out, err := xmldsig.SerializeCanonical(el)
	if err != nil {
		cs.Err = "c14n: " + err.Error()
		return cs
	}
	cs.Out = hex.EncodeToString(out)
	for i := 0; i < 3; i++ { // map iteration order inside pullDown is unspecified
		out2, _ := xmldsig.SerializeCanonical(el)
		if string(out2) != string(out) {
			cs.Nondet = true
		}
	}
	var dummy bool
	if !reflect.DeepEqual(cs.Tree, dumpTok(el, &dummy)) || !reflect.DeepEqual(cs.Ctx, dumpCtx(el)) {
		cs.Mutate = true
	}
	return cs
}

// fixed documents: one per clause outside K (each is a _refuted witness of Proofs.v) plus a few inside K
var witnesses = []struct{ name, doc, path string }{
	{"inK-basic", `<a xmlns="urn:u" xmlns:p="urn:p"><p:b p:x="1" y="2">t&amp;&lt;&gt;"'&#13;</p:b><!-- c --><c/></a>`, "-"},
	{"inK-subtree", `<a xmlns="urn:u" xmlns:p="urn:p" xmlns:unused="urn:n"><b><p:c p:x="1"/></b></a>`, "0"},
	{"inK-shadow", `<a xmlns="urn:u"><b xmlns="urn:v"><c xmlns="urn:u"/></b></a>`, "-"},
	{"pi", `<a><?pi x?></a>`, "-"},
	{"redundant", `<a xmlns:p="urn:p" p:x="1"><b xmlns:p="urn:p" p:y="2"/></a>`, "-"},
	{"redundant-default", `<a xmlns="urn:u"><b xmlns="urn:u"/></a>`, "-"},
	{"redundant-pushed", `<p:a xmlns:p="urn:p"><b xmlns:p="urn:p"><p:c/></b></p:a>`, "-"},
	{"redundant-far", `<p:a xmlns:p="urn:p"><b xmlns:p="urn:q"><p:c xmlns:p="urn:p"/></b></p:a>`, "-"},
	{"attr-order", `<a xmlns:b="urn:a" xmlns:a="urn:b" b:x="1" a:x="2"/>`, "-"},
	{"attr-order-xml", `<a xmlns:p="urn:p" xml:lang="en" p:x="1"/>`, "-"},
	{"xmlns-empty-root", `<a xmlns=""/>`, "-"},
	{"xmlns-empty-repeat", `<a xmlns="urn:u"><b xmlns=""><c xmlns=""/></b></a>`, "-"},
	{"ctx-undeclare", `<a xmlns="urn:u"><b xmlns=""><c/></b></a>`, "0/0"},
	{"ctx-empty-only", `<p:a xmlns:p="urn:p"><b xmlns=""><c/></b></p:a>`, "0/0"},
	{"attr-named-xmlns", `<p:a xmlns:p="urn:p" xmlns="urn:u"><b p:xmlns="v"/></p:a>`, "-"},
	{"xmlns-xml", `<a xmlns:xml="http://www.w3.org/XML/1998/namespace" xml:lang="en"/>`, "-"},
	{"attr-literal-ws+attrws", "<a x=\"1\n2\t3\"/>", "-"},
}

func runC14n(c *core.Ctx) error {
	r := &core.Rng{S: c.Seed*0x9e37 + 19}
	id := 0
	for _, w := range witnesses {
		c.Emit(runOne(id, "witness:"+w.name, w.doc, w.path))
		id++
	}
	n := 1400
	if c.Tier == "thorough" {
		n = 12000
	}
	if c.N > 0 {
		n = c.N
	}
	for i := 0; i < n; i++ {
		cfg := &gcfg{wild: i%5 >= 3, maxDepth: r.Pick(1, 2, 3, 4, 5), maxKids: r.Pick(1, 2, 3, 3), monotone: true, textHeavy: r.Chance(15)}
		if cfg.wild {
			cfg.monotone = r.Chance(40)
		}
		sc := scope{}
		root := genElem(r, sc, 0, cfg)
		st := &style{r: r}
		kind := "k"
		if cfg.wild {
			kind = "wild"
		}
		if i%37 == 36 {
			st.attrWsLit = true
			kind += "+attrws"
		}
		doc := st.document(root)
		var paths [][]int
		allPaths(root, nil, &paths)
		// the whole document element, and up to two descendants
		sel := [][]int{paths[0]}
		for k := 0; k < 2 && len(paths) > 1; k++ {
			sel = append(sel, paths[1+r.Intn(len(paths)-1)])
		}
		done := map[string]bool{}
		for _, p := range sel {
			ps := pathString(p)
			if done[ps] {
				continue
			}
			done[ps] = true
			c.Emit(runOne(id, kind, doc, ps))
			id++
		}
		// the same logical tree in a second surface style must canonicalise to the same bytes (checked by the oracle)
		if i%4 == 0 {
			st2 := &style{r: r, attrWsLit: st.attrWsLit}
			shuffleAttrs(r, root)
			c.Emit(runOne(id, kind+"+restyle:"+fmt.Sprint(id-len(done)), st2.document(root), "-"))
			id++
		}
	}
	return nil
}

func shuffleAttrs(r *core.Rng, n *gnode) {
	for i := len(n.attrs) - 1; i > 0; i-- {
		j := r.Intn(i + 1)
		n.attrs[i], n.attrs[j] = n.attrs[j], n.attrs[i]
	}
	for _, c := range n.ch {
		if c.kind == 0 {
			shuffleAttrs(r, c)
		}
	}
}
