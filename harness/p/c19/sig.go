package c19

import (
	"bytes"
	"crypto"
	"crypto/ecdsa"
	"crypto/elliptic"
	"crypto/rand"
	"crypto/rsa"
	"crypto/sha1"
	"crypto/sha256"
	"crypto/x509"
	"crypto/x509/pkix"
	"encoding/asn1"
	"encoding/base64"
	"encoding/hex"
	"encoding/xml"
	"fmt"
	"io"
	"math/big"
	"strings"
	"time"

	"github.com/beevik/etree"

	"github.com/sassoftware/relic/v8/lib/appmanifest"
	"github.com/sassoftware/relic/v8/lib/certloader"
	"github.com/sassoftware/relic/v8/lib/x509tools"
	"github.com/sassoftware/relic/v8/lib/xmldsig"
	"github.com/sassoftware/relic/v8/signers"
	"github.com/sassoftware/relic/v8/signers/vsix"
	"github.com/sassoftware/relic/v8/verifharness/core"
)

func init() {
	core.Register("c19", runC14n)
	core.Register("c19pack", runPack)
	core.Register("c19sig", runSig)
	// c19one <hex of document> <path>: canonicalise one element (replay helper)
	core.Register("c19one", func(c *core.Ctx) error {
		if len(c.Args) < 2 {
			return fmt.Errorf("usage: c19one <dochex> <path>")
		}
		doc, err := hex.DecodeString(c.Args[0])
		if err != nil {
			return err
		}
		c.Emit(runOne(0, "one", string(doc), c.Args[1]))
		return nil
	})
}

// ---------------------------------------------------------------- keys

type testKey struct {
	name string
	bits int // curve bits, 0 for RSA
	cert *certloader.Certificate
	cn   string
}

func mkKey(name string, priv crypto.Signer, bits int, serial int64) (*testKey, error) {
	cn := "Verif Signer " + name
	tmpl := &x509.Certificate{
		SerialNumber: big.NewInt(serial),
		Subject:      pkix.Name{Country: []string{"US"}, Organization: []string{"Verif Inc"}, CommonName: cn},
		NotBefore:    time.Unix(1700000000, 0), NotAfter: time.Unix(2000000000, 0),
		KeyUsage:              x509.KeyUsageDigitalSignature | x509.KeyUsageCertSign,
		ExtKeyUsage:           []x509.ExtKeyUsage{x509.ExtKeyUsageCodeSigning},
		BasicConstraintsValid: true, IsCA: true,
	}
	der, err := x509.CreateCertificate(rand.Reader, tmpl, tmpl, priv.Public(), priv)
	if err != nil {
		return nil, err
	}
	leaf, err := x509.ParseCertificate(der)
	if err != nil {
		return nil, err
	}
	return &testKey{name: name, bits: bits, cn: cn,
		cert: &certloader.Certificate{Leaf: leaf, Certificates: []*x509.Certificate{leaf}, PrivateKey: priv}}, nil
}

func testKeys() ([]*testKey, error) {
	var keys []*testKey
	rk, err := rsa.GenerateKey(rand.Reader, 2048)
	if err != nil {
		return nil, err
	}
	k, err := mkKey("rsa2048", rk, 0, 11)
	if err != nil {
		return nil, err
	}
	keys = append(keys, k)
	for i, cv := range []elliptic.Curve{elliptic.P256(), elliptic.P384(), elliptic.P521()} {
		ek, err := ecdsa.GenerateKey(cv, rand.Reader)
		if err != nil {
			return nil, err
		}
		k, err := mkKey(fmt.Sprintf("p%d", cv.Params().BitSize), ek, cv.Params().BitSize, int64(20+i))
		if err != nil {
			return nil, err
		}
		keys = append(keys, k)
	}
	return keys, nil
}

// ---------------------------------------------------------------- ECDSA Pack

type packCase struct {
	Kind   string `json:"kind"` // real | direct
	Bits   int    `json:"bits"`
	R      string `json:"r"` // decimal
	S      string `json:"s"`
	Packed string `json:"packed"` // hex of EcdsaSignature.Pack()
	UnR    string `json:"un_r"`   // UnpackEcdsaSignature(Pack()) decimal
	UnS    string `json:"un_s"`
	UnErr  string `json:"un_err,omitempty"`
	Verify bool   `json:"verify"` // real signatures: x509tools.Verify of Unpack(Pack()).Marshal() succeeds
}

func packOne(kind string, bits int, r, s *big.Int, pub *ecdsa.PublicKey, digest []byte) *packCase {
	pc := &packCase{Kind: kind, Bits: bits, R: r.String(), S: s.String()}
	packed := x509tools.EcdsaSignature{R: r, S: s}.Pack()
	pc.Packed = hex.EncodeToString(packed)
	un, err := x509tools.UnpackEcdsaSignature(packed)
	if err != nil {
		pc.UnErr = err.Error()
	} else {
		pc.UnR, pc.UnS = un.R.String(), un.S.String()
		if pub != nil {
			pc.Verify = x509tools.Verify(pub, crypto.SHA256, digest, un.Marshal()) == nil
		}
	}
	return pc
}

func runPack(c *core.Ctx) error {
	r := &core.Rng{S: c.Seed*77 + 5}
	n := 1500
	if c.Tier == "thorough" {
		n = 60000
	}
	if c.N > 0 {
		n = c.N
	}
	for _, cv := range []elliptic.Curve{elliptic.P256(), elliptic.P384(), elliptic.P521()} {
		bits := cv.Params().BitSize
		key, err := ecdsa.GenerateKey(cv, rand.Reader)
		if err != nil {
			return err
		}
		for i := 0; i < n; i++ {
			digest := sha256.Sum256(r.Bytes(16))
			der, err := key.Sign(rand.Reader, digest[:], crypto.SHA256)
			if err != nil {
				return err
			}
			es, err := x509tools.UnmarshalEcdsaSignature(der)
			if err != nil {
				return err
			}
			c.Emit(packOne("real", bits, es.R, es.S, &key.PublicKey, digest[:]))
		}
		// chosen values around the byte boundaries
		w := (bits + 7) / 8
		one := big.NewInt(1)
		var vals []*big.Int
		for _, sh := range []int{0, 1, 7, 8, 9, 8*(w-2) - 1, 8 * (w - 2), 8*(w-1) - 1, 8 * (w - 1), 8*(w-1) + 1, bits - 1} {
			if sh < 0 {
				continue
			}
			v := new(big.Int).Lsh(one, uint(sh))
			vals = append(vals, v, new(big.Int).Sub(v, one))
		}
		vals = append(vals, new(big.Int).Sub(cv.Params().N, one))
		for _, a := range vals {
			for _, b := range vals {
				c.Emit(packOne("direct", bits, a, b, nil, nil))
			}
		}
	}
	return nil
}

// ---------------------------------------------------------------- token-level reader into the logical tree (no etree)

func parseDoc(doc []byte) (*gnode, error) {
	dec := xml.NewDecoder(bytes.NewReader(doc))
	var stack []*gnode
	var root *gnode
	for {
		t, err := dec.RawToken()
		if err == io.EOF {
			break
		}
		if err != nil {
			return nil, err
		}
		switch x := t.(type) {
		case xml.StartElement:
			n := &gnode{kind: 0, pfx: x.Name.Space, local: x.Name.Local}
			for _, a := range x.Attr {
				n.attrs = append(n.attrs, gattr{a.Name.Space, a.Name.Local, a.Value})
			}
			if len(stack) > 0 {
				p := stack[len(stack)-1]
				p.ch = append(p.ch, n)
			} else if root == nil {
				root = n
			}
			stack = append(stack, n)
		case xml.EndElement:
			stack = stack[:len(stack)-1]
		case xml.CharData:
			if len(stack) > 0 {
				p := stack[len(stack)-1]
				p.ch = append(p.ch, &gnode{kind: 1, data: string(x)})
			}
		case xml.Comment:
			if len(stack) > 0 {
				p := stack[len(stack)-1]
				p.ch = append(p.ch, &gnode{kind: 2, data: string(x)})
			}
		case xml.ProcInst:
			if len(stack) > 0 {
				p := stack[len(stack)-1]
				p.ch = append(p.ch, &gnode{kind: 3, target: x.Target, data: string(x.Inst)})
			}
		}
	}
	if root == nil {
		return nil, fmt.Errorf("no root")
	}
	return root, nil
}

func cloneTree(n *gnode) *gnode {
	m := *n
	m.attrs = append([]gattr{}, n.attrs...)
	m.ch = nil
	for _, c := range n.ch {
		m.ch = append(m.ch, cloneTree(c))
	}
	return &m
}

func isDecl(a gattr) bool { return a.pfx == "xmlns" || (a.pfx == "" && a.local == "xmlns") }

// walk collects every node with the chain of ancestors' local names
type located struct {
	n     *gnode
	par   *gnode
	idx   int
	trail string // /a/b/c of element local names
}

func locate(n *gnode, par *gnode, idx int, trail string, out *[]located) {
	t := trail
	if n.kind == 0 {
		t = trail + "/" + n.local
	}
	*out = append(*out, located{n, par, idx, t})
	for i, c := range n.ch {
		locate(c, n, i, t, out)
	}
}

// reserialise: changes that preserve canonical meaning
func preserve(r *core.Rng, root *gnode, lite bool) *gnode {
	t := cloneTree(root)
	var all []located
	locate(t, nil, 0, "", &all)
	fresh := 0
	for _, l := range all {
		n := l.n
		if n.kind != 0 {
			continue
		}
		for i := len(n.attrs) - 1; i > 0; i-- { // attribute order
			j := r.Intn(i + 1)
			n.attrs[i], n.attrs[j] = n.attrs[j], n.attrs[i]
		}
		if lite { // attribute order and surface style only
			continue
		}
		if r.Chance(12) { // unused namespace declaration
			fresh++
			n.attrs = append(n.attrs, gattr{"xmlns", fmt.Sprintf("unused%d", fresh), fmt.Sprintf("urn:unused:%d", fresh)})
		}
		if r.Chance(15) { // comments between children, also inside text
			var ch []*gnode
			for _, c := range n.ch {
				if c.kind == 1 && len(c.data) >= 2 && r.Chance(50) {
					k := 1 + r.Intn(len(c.data)-1)
					for k < len(c.data) && c.data[k]&0xC0 == 0x80 {
						k++
					}
					ch = append(ch, &gnode{kind: 1, data: c.data[:k]}, &gnode{kind: 2, data: " split "}, &gnode{kind: 1, data: c.data[k:]})
					continue
				}
				if r.Chance(30) {
					ch = append(ch, &gnode{kind: 2, data: "x"})
				}
				ch = append(ch, c)
			}
			if r.Chance(30) {
				ch = append(ch, &gnode{kind: 2, data: "tail"})
			}
			n.ch = ch
		}
	}
	// drop existing comments sometimes
	if !lite && r.Chance(50) {
		for _, l := range all {
			if l.n.kind == 0 {
				var ch []*gnode
				for _, c := range l.n.ch {
					if c.kind == 2 && r.Chance(60) {
						continue
					}
					ch = append(ch, c)
				}
				l.n.ch = ch
			}
		}
	}
	return t
}

// alter: one change of canonical meaning in the signed part.  avoid(trail) tells which regions are not covered.
func alter(r *core.Rng, root *gnode, covered func(trail string) bool) (*gnode, string) {
	for attempt := 0; attempt < 50; attempt++ {
		t := cloneTree(root)
		var all []located
		locate(t, nil, 0, "", &all)
		l := all[r.Intn(len(all))]
		if !covered(l.trail) {
			continue
		}
		n := l.n
		switch r.Intn(7) {
		case 0: // text change
			if n.kind == 1 && len(n.data) > 0 {
				k := r.Intn(len(n.data))
				if n.data[k] < 0x80 {
					b := []byte(n.data)
					if b[k] == 'x' {
						b[k] = 'y'
					} else {
						b[k] = 'x'
					}
					n.data = string(b)
					return t, "text@" + l.trail
				}
			}
		case 1: // attribute value change
			if n.kind == 0 {
				for i, a := range n.attrs {
					if !isDecl(a) && r.Chance(60) {
						n.attrs[i].val = a.val + "x"
						return t, "attrval@" + l.trail + "/@" + a.local
					}
				}
			}
		case 2: // rename element
			if n.kind == 0 && l.par != nil {
				n.local += "X"
				return t, "rename@" + l.trail
			}
		case 3: // add attribute
			if n.kind == 0 {
				n.attrs = append(n.attrs, gattr{"", "verifAdded", "1"})
				return t, "addattr@" + l.trail
			}
		case 4: // insert whitespace text
			if n.kind == 0 {
				n.ch = append([]*gnode{{kind: 1, data: " "}}, n.ch...)
				return t, "addtext@" + l.trail
			}
		case 5: // drop a child element or text
			if l.par != nil && (n.kind == 0 || (n.kind == 1 && n.data != "")) && covered(l.trail) {
				l.par.ch = append(append([]*gnode{}, l.par.ch[:l.idx]...), l.par.ch[l.idx+1:]...)
				return t, "drop@" + l.trail
			}
		case 6: // processing instruction added (canonical XML keeps PIs)
			if n.kind == 0 {
				n.ch = append(n.ch, &gnode{kind: 3, target: "verif", data: "added"})
				return t, "addpi@" + l.trail
			}
		}
	}
	return nil, ""
}

// ---------------------------------------------------------------- manifests

// stripCR removes U+000D from text and attribute values (relic's output writer emits it literally, see runSig)
func stripCR(n *gnode) {
	n.data = strings.ReplaceAll(n.data, "\r", "")
	for i := range n.attrs {
		n.attrs[i].val = strings.ReplaceAll(n.attrs[i].val, "\r", "")
	}
	for _, c := range n.ch {
		stripCR(c)
	}
}

// stripCdataEnd removes "]]>" from attribute values (Verify re-parses canonical bytes with encoding/xml, which
// rejects that sequence although canonical XML leaves ">" unescaped in attribute values)
func stripCdataEnd(n *gnode) {
	for i := range n.attrs {
		n.attrs[i].val = strings.ReplaceAll(n.attrs[i].val, "]]>", "]]")
	}
	for _, c := range n.ch {
		stripCdataEnd(c)
	}
}

func genManifest(r *core.Rng, i int, withCR bool) string {
	cfg := &gcfg{wild: false, maxDepth: 3, maxKids: 3, monotone: true}
	extra := genElem(r, scope{"": "urn:schemas-microsoft-com:asm.v2", "asmv2": "urn:schemas-microsoft-com:asm.v2"}, 1, cfg)
	stripCR(extra)
	if withCR {
		extra.ch = append(extra.ch, &gnode{kind: 1, data: "line1\rline2"})
	}
	st := &style{r: r}
	var b strings.Builder
	st.write(&b, extra)
	rootPfx := pick(r, []string{"asmv1:", "asmv1:", ""})
	rootNs := `xmlns:asmv1="urn:schemas-microsoft-com:asm.v1" xmlns="urn:schemas-microsoft-com:asm.v2" xmlns:asmv2="urn:schemas-microsoft-com:asm.v2" xmlns:xsi="http://www.w3.org/2001/XMLSchema-instance"`
	if rootPfx == "" {
		rootNs = `xmlns="urn:schemas-microsoft-com:asm.v1" xmlns:asmv2="urn:schemas-microsoft-com:asm.v2"`
	}
	asiNs := ` xmlns="urn:schemas-microsoft-com:asm.v1"`
	if r.Chance(40) {
		asiNs = ""
	}
	return fmt.Sprintf(`<?xml version="1.0" encoding="utf-8"?>
<%sassembly %s manifestVersion="1.0">
  <assemblyIdentity name="App%d.exe" version="1.0.0.%d" publicKeyToken="0000000000000000" language="neutral" processorArchitecture="msil" type="win32"%s />
  <description asmv2:publisher="P &amp; Q" asmv2:product="Prod&lt;%d&gt;"%s/>
  <!-- deployment -->
  <dependency>
    <dependentAssembly dependencyType="install" codebase="a\b.dll" size="%d">
      <assemblyIdentity name="Lib" version="2.0.0.0" language="neutral" processorArchitecture="msil" />
      <hash>
        <dsig:Transforms xmlns:dsig="http://www.w3.org/2000/09/xmldsig#">
          <dsig:Transform Algorithm="urn:schemas-microsoft-com:HashTransforms.Identity" />
        </dsig:Transforms>
        <dsig:DigestValue xmlns:dsig="http://www.w3.org/2000/09/xmldsig#">q83vEjRWeJA=</dsig:DigestValue>
      </hash>
    </dependentAssembly>
  </dependency>
  %s
</%sassembly>`, rootPfx, rootNs, i, i, asiNs, i, asiNs, 1000+i, b.String(), rootPfx)
}

type variant struct {
	Kind   string `json:"kind"` // preserve | alter:<what>
	Doc    string `json:"doc"`  // hex
	OK     bool   `json:"ok"`   // relic verification succeeded
	Err    string `json:"err,omitempty"`
	Covers bool   `json:"expect_ok"`
}

type sigCase struct {
	ID        int       `json:"id"`
	Kind      string    `json:"kind"` // manifest | enveloping
	Key       string    `json:"key"`
	Bits      int       `json:"bits"`
	Hash      string    `json:"hash"`
	Cert      string    `json:"cert"` // hex DER of the signing certificate
	Err       string    `json:"err,omitempty"`
	Signed    string    `json:"signed"` // hex of the signed document
	VerifyOK  bool      `json:"verify_ok"`
	VerifyErr string    `json:"verify_err,omitempty"`
	SigLens   []int     `json:"sig_lens"` // decoded length of every SignatureValue
	Variants  []variant `json:"variants"`
	// identity fields (manifest)
	Token        string `json:"token,omitempty"`          // publicKeyToken written into assemblyIdentity
	TokenVerify  string `json:"token_verify,omitempty"`   // token reported by Verify
	PubName      string `json:"publisher,omitempty"`      // publisherIdentity/@name
	IssuerHash   string `json:"issuer_key_hash,omitempty"` // publisherIdentity/@issuerKeyHash
	WantName     string `json:"want_publisher,omitempty"`
	WantIssuer   string `json:"want_issuer_key_hash,omitempty"`
	RsaN         string `json:"rsa_n,omitempty"` // hex, big endian
	RsaE         int    `json:"rsa_e,omitempty"`
	LicenseToken string `json:"license_token,omitempty"` // as:assemblyIdentity/@publicKeyToken inside the license
	C14n         []*c14nCase `json:"c14n,omitempty"`     // canonicalisations of the documents relic built
	Gen          []*genCase  `json:"gen,omitempty"`      // documents relic built, with the parameters they were built from
}

// genCase: a SignedInfo (which=0) or a VSIX package Object (which=1) built by relic, the parameters it must be a
// function of (written down here independently of relic's tables), and the content its DigestValue must digest.
type genCase struct {
	Which     int         `json:"which"`
	RefID     string      `json:"ref_id"`
	HashAlg   string      `json:"hash_alg"`
	SigAlg    string      `json:"sig_alg"`
	C14nAlg   string      `json:"c14n_alg"`
	Hash      string      `json:"hash"`
	Tree      interface{} `json:"tree"`
	RefDoc    string      `json:"ref_doc,omitempty"` // hex: document holding the referenced content
	RefPath   string      `json:"ref_path,omitempty"`
	Inclusive bool        `json:"inclusive,omitempty"`
	RefCase   int         `json:"ref_case"` // index into the signature case's c14n list: relic's own canonical form of the referenced content
	Refs      [][2]string `json:"refs,omitempty"` // which=1: (URI, base64 digest) in order
	NsDigSig  string      `json:"ns_digsig,omitempty"`
	Fmt       string      `json:"fmt,omitempty"`
	Time      string      `json:"time,omitempty"`
}

// algorithm identifiers per XMLDSIG 1.1 / RFC 4051 (standard) and the names ClickOnce uses (ms)
func algURIs(hash string, ecdsa, ms bool) (string, string) {
	const ds, more, enc = "http://www.w3.org/2000/09/xmldsig#", "http://www.w3.org/2001/04/xmldsig-more#", "http://www.w3.org/2001/04/xmlenc#"
	std := map[string]string{"sha1": ds + "sha1", "sha256": enc + "sha256", "sha384": more + "sha384", "sha512": enc + "sha512"}
	hashAlg := std[hash]
	if ms {
		hashAlg = ds + hash
	}
	var sigAlg string
	switch {
	case ecdsa:
		sigAlg = more + "ecdsa-" + hash
	case hash == "sha1" || ms:
		sigAlg = ds + "rsa-" + hash
	default:
		sigAlg = more + "rsa-" + hash
	}
	return hashAlg, sigAlg
}

func sigLens(root *gnode) []int {
	var all []located
	locate(root, nil, 0, "", &all)
	var out []int
	for _, l := range all {
		if l.n.kind == 0 && l.n.local == "SignatureValue" {
			txt := ""
			for _, c := range l.n.ch {
				if c.kind == 1 {
					txt += c.data
				}
			}
			b, _ := base64.StdEncoding.DecodeString(strings.TrimSpace(txt))
			out = append(out, len(b))
		}
	}
	return out
}

func attrOf(n *gnode, local string) string {
	for _, a := range n.attrs {
		if a.local == local && !isDecl(a) {
			return a.val
		}
	}
	return ""
}

type pkixPublicKey struct {
	Algo      pkix.AlgorithmIdentifier
	BitString asn1.BitString
}

func spkiSha1(pub crypto.PublicKey) string {
	der, err := x509.MarshalPKIXPublicKey(pub)
	if err != nil {
		return ""
	}
	var pki pkixPublicKey
	if _, err := asn1.Unmarshal(der, &pki); err != nil {
		return ""
	}
	d := sha1.Sum(pki.BitString.Bytes)
	return hex.EncodeToString(d[:])
}

var hashes = []struct {
	name string
	h    crypto.Hash
}{{"sha1", crypto.SHA1}, {"sha256", crypto.SHA256}, {"sha384", crypto.SHA384}, {"sha512", crypto.SHA512}}

func runSig(c *core.Ctx) error {
	r := &core.Rng{S: c.Seed*131 + 7}
	keys, err := testKeys()
	if err != nil {
		return err
	}
	rounds := 2
	nvar := 6
	if c.Tier == "thorough" {
		rounds, nvar = 12, 12
	}
	id := 0
	for round := 0; round < rounds; round++ {
		for _, k := range keys {
			h := hashes[(round+id)%len(hashes)]
			// ---------------- ClickOnce manifest
			sc := &sigCase{ID: id, Kind: "manifest", Key: k.name, Bits: k.bits, Hash: h.name, Cert: hex.EncodeToString(k.cert.Leaf.Raw)}
			id++
			withCR := round == 1 && k.bits == 0 // one manifest per run whose signed content holds a carriage return (&#13;)
			man := genManifest(r, id, withCR)
			signed, err := appmanifest.Sign([]byte(man), k.cert, h.h)
			if err != nil {
				sc.Err = err.Error()
				c.Emit(sc)
				continue
			}
			sc.Signed = hex.EncodeToString(signed.Signed)
			ms, verr := appmanifest.Verify(signed.Signed)
			sc.VerifyOK = verr == nil
			if verr != nil {
				sc.VerifyErr = verr.Error()
			} else {
				sc.TokenVerify = ms.PublicKeyToken
			}
			root, perr := parseDoc(signed.Signed)
			if perr != nil {
				sc.Err = "reparse: " + perr.Error()
				c.Emit(sc)
				continue
			}
			sc.SigLens = sigLens(root)
			for _, ch := range root.ch {
				if ch.kind == 0 && ch.local == "assemblyIdentity" && sc.Token == "" {
					sc.Token = attrOf(ch, "publicKeyToken")
				}
				if ch.kind == 0 && ch.local == "publisherIdentity" {
					sc.PubName, sc.IssuerHash = attrOf(ch, "name"), attrOf(ch, "issuerKeyHash")
				}
			}
			var all []located
			locate(root, nil, 0, "", &all)
			for _, l := range all {
				if l.n.kind == 0 && l.n.local == "assemblyIdentity" && l.n.pfx == "as" {
					sc.LicenseToken = attrOf(l.n, "publicKeyToken")
				}
			}
			sc.WantName = "CN=" + k.cn + ", O=Verif Inc, C=US"
			sc.WantIssuer = spkiSha1(k.cert.Leaf.PublicKey)
			if rk, ok := k.cert.Leaf.PublicKey.(*rsa.PublicKey); ok {
				sc.RsaN, sc.RsaE = hex.EncodeToString(rk.N.Bytes()), rk.E
			}
			// the primary signature covers the document minus /assembly/Signature; SignedInfo is covered by the signature value
			covered := func(trail string) bool {
				if strings.Contains(trail, "/Signature") {
					return strings.HasPrefix(trail, "/assembly/Signature/SignedInfo")
				}
				return true
			}
			vfy := func(doc []byte) error { _, err := appmanifest.Verify(doc); return err }
			sc.Variants = variants(r, root, nvar, covered, vfy)
			// canonical forms of what relic built, for comparison with the reference canonicaliser
			si := runOne(0, "relicdoc:manifest-signedinfo", string(signed.Signed), pathOf(root, "Signature", "SignedInfo"))
			sc.C14n = append(sc.C14n, si)
			{
				hashAlg, sigAlg := algURIs(h.name, k.bits != 0, true)
				unsignedRoot := cloneTree(root)
				var ch []*gnode
				for _, x := range unsignedRoot.ch {
					if !(x.kind == 0 && x.local == "Signature") {
						ch = append(ch, x)
					}
				}
				unsignedRoot.ch = ch
				plain := &style{r: &core.Rng{S: 1}, noCharRefs: true}
				refDoc := plain.document(unsignedRoot)
				sc.C14n = append(sc.C14n, runOne(0, "relicdoc:manifest-reference", refDoc, "-"))
				sc.Gen = append(sc.Gen, &genCase{Which: 0, RefID: "", HashAlg: hashAlg, SigAlg: sigAlg, C14nAlg: "http://www.w3.org/2001/10/xml-exc-c14n#",
					Hash: h.name, Tree: si.Tree, RefDoc: hx(refDoc), RefPath: "-", RefCase: 1})
			}
			c.Emit(sc)

			// ---------------- enveloping signature over an Object (VSIX style: REC c14n URI, standard hash names)
			se := &sigCase{ID: id, Kind: "enveloping", Key: k.name, Bits: k.bits, Hash: h.name, Cert: hex.EncodeToString(k.cert.Leaf.Raw)}
			id++
			cfg := &gcfg{wild: false, maxDepth: 3, maxKids: 3, monotone: true}
			body := genElem(r, scope{"": xmldsig.NsXMLDsig}, 1, cfg)
			stripCR(body)
			stripCdataEnd(body)
			if round == 1 && k.bits == 256 { // one case per run: attribute value holding "]]>" inside the Signature element
				body.attrs = append(body.attrs, gattr{"", "verifCdataEnd", "a]]>b"})
			}
			obj := etree.NewElement("Object")
			obj.CreateAttr("Id", "idPackageObject")
			obj.AddChild(toEtree(body))
			opts := xmldsig.SignOptions{UseRecC14n: true, IncludeKeyValue: true, IncludeX509: true}
			sigel, err := xmldsig.SignEnveloping(obj, h.h, k.cert.Signer(), k.cert.Chain(), opts)
			if err != nil {
				se.Err = err.Error()
				c.Emit(se)
				continue
			}
			d := etree.NewDocument()
			d.SetRoot(sigel)
			blob, _ := d.WriteToBytes()
			se.Signed = hex.EncodeToString(blob)
			vfy2 := func(doc []byte) error {
				d := etree.NewDocument()
				if err := d.ReadFromBytes(doc); err != nil {
					return err
				}
				_, err := xmldsig.Verify(d.Root(), ".", nil)
				return err
			}
			verr = vfy2(blob)
			se.VerifyOK = verr == nil
			if verr != nil {
				se.VerifyErr = verr.Error()
			}
			root2, perr := parseDoc(blob)
			if perr != nil {
				se.Err = "reparse: " + perr.Error()
				c.Emit(se)
				continue
			}
			se.SigLens = sigLens(root2)
			covered2 := func(trail string) bool {
				return strings.HasPrefix(trail, "/Signature/SignedInfo") || strings.HasPrefix(trail, "/Signature/Object")
			}
			se.Variants = variants(r, root2, nvar, covered2, vfy2)
			// the REC URI written into CanonicalizationMethod names inclusive Canonical XML 1.0
			ci := runOne(0, "recdoc:signedinfo", string(blob), "0")
			ci.Inc = true
			co := runOne(0, "relicdoc:enveloping-object", string(blob), pathOf(root2, "Object"))
			{
				hashAlg, sigAlg := algURIs(h.name, k.bits != 0, false)
				se.Gen = append(se.Gen, &genCase{Which: 0, RefID: "idPackageObject", HashAlg: hashAlg, SigAlg: sigAlg,
					C14nAlg: "http://www.w3.org/TR/2001/REC-xml-c14n-20010315", Hash: h.name, Tree: ci.Tree,
					RefDoc: hx(string(blob)), RefPath: pathOf(root2, "Object"), RefCase: 1})
			}
			// the same document with an unused namespace declaration added to Signature (a re-serialisation the
			// property allows): relic still accepts it, inclusive c14n of SignedInfo changes
			withNs := strings.Replace(string(blob), "<Signature ", `<Signature xmlns:unused="urn:unused" `, 1)
			cu := runOne(0, "recdoc+unusedns:signedinfo", withNs, "0")
			cu.Inc = true
			if verr == nil && vfy2([]byte(withNs)) != nil {
				cu.Err = "relic rejects the document with an unused declaration"
			}
			// caller-supplied Object content under the declared (inclusive) algorithm
			cb := runOne(0, "recdoc+body:object", string(blob), pathOf(root2, "Object"))
			cb.Inc = true
			se.C14n = append(se.C14n, ci, co, cu, cb)
			c.Emit(se)

			// ---------------- the real VSIX package signature (signers/vsix makeSignature through the verif hook)
			sv := &sigCase{ID: id, Kind: "vsix", Key: k.name, Bits: k.bits, Hash: h.name, Cert: hex.EncodeToString(k.cert.Leaf.Raw)}
			id++
			digests := map[string][]byte{}
			var refs [][2]string
			names := []string{"extension.vsixmanifest", "content/a b.dll", "x/é.json", "_rels/.rels", "lib/z&1.txt"}[:2+r.Intn(4)]
			hashAlg, sigAlg := algURIs(h.name, k.bits != 0, false)
			for _, nm := range names {
				d := h.h.New()
				d.Write([]byte(nm))
				digests[nm] = d.Sum(nil)
			}
			sorted := append([]string{}, names...)
			sortStrings(sorted)
			for _, nm := range sorted { // OPC: parts without an entry in [Content_Types].xml get the default content type
				ctype := "application/octet-stream"
				if strings.HasSuffix(nm, ".rels") {
					ctype = "application/vnd.openxmlformats-package.relationships+xml"
				}
				refs = append(refs, [2]string{"/" + nm + "?ContentType=" + ctype, base64.StdEncoding.EncodeToString(digests[nm])})
			}
			when := time.Unix(1750000000+int64(id), 0).UTC()
			vblob, err := vsix.VerifMakeSignature(digests, k.cert, signers.SignOpts{Hash: h.h, Time: when}, false)
			if err != nil {
				sv.Err = err.Error()
				c.Emit(sv)
				continue
			}
			sv.Signed = hex.EncodeToString(vblob)
			verr = vfy2(vblob)
			sv.VerifyOK = verr == nil
			if verr != nil {
				sv.VerifyErr = verr.Error()
			}
			root3, perr := parseDoc(vblob)
			if perr != nil {
				sv.Err = "reparse: " + perr.Error()
				c.Emit(sv)
				continue
			}
			sv.SigLens = sigLens(root3)
			sv.Variants = variants(r, root3, nvar, covered2, vfy2)
			vi := runOne(0, "recdoc:vsix-signedinfo", string(vblob), "0")
			vi.Inc = true
			vo := runOne(0, "recdoc:vsix-object", string(vblob), pathOf(root3, "Object"))
			vo.Inc = true
			vox := runOne(0, "relicdoc:vsix-object", string(vblob), pathOf(root3, "Object"))
			sv.C14n = append(sv.C14n, vi, vo, vox)
			ns, fmtXML, fmtGo := vsix.VerifSignatureConsts()
			sv.Gen = append(sv.Gen,
				&genCase{Which: 0, RefID: "idPackageObject", HashAlg: hashAlg, SigAlg: sigAlg, C14nAlg: "http://www.w3.org/TR/2001/REC-xml-c14n-20010315",
					Hash: h.name, Tree: vi.Tree, RefDoc: hx(string(vblob)), RefPath: pathOf(root3, "Object"), Inclusive: true, RefCase: 1},
				&genCase{Which: 1, HashAlg: hashAlg, Hash: h.name, Tree: vo.Tree, Refs: refs, NsDigSig: ns, Fmt: fmtXML, Time: when.Format(fmtGo)})
			c.Emit(sv)
		}
	}
	return nil
}

func sortStrings(xs []string) {
	for i := 1; i < len(xs); i++ {
		for j := i; j > 0 && xs[j] < xs[j-1]; j-- {
			xs[j], xs[j-1] = xs[j-1], xs[j]
		}
	}
}

// pathOf: child-element index path following local names from the root
func pathOf(root *gnode, names ...string) string {
	cur := root
	var idx []int
	for _, nm := range names {
		k := 0
		found := false
		for _, ch := range cur.ch {
			if ch.kind != 0 {
				continue
			}
			if ch.local == nm {
				idx = append(idx, k)
				cur = ch
				found = true
				break
			}
			k++
		}
		if !found {
			return "999"
		}
	}
	return pathString(idx)
}

func toEtree(n *gnode) etree.Token {
	switch n.kind {
	case 1:
		return etree.NewText(n.data)
	case 2:
		return etree.NewComment(n.data)
	case 3:
		return etree.NewProcInst(n.target, n.data)
	}
	e := etree.NewElement(qn(n.pfx, n.local))
	for _, a := range n.attrs {
		e.CreateAttr(qn(a.pfx, a.local), a.val)
	}
	for _, c := range n.ch {
		e.AddChild(toEtree(c))
	}
	return e
}

func variants(r *core.Rng, root *gnode, nvar int, covered func(string) bool, vfy func([]byte) error) []variant {
	var out []variant
	for i := 0; i < nvar+nvar/2; i++ {
		lite := i >= nvar // attribute order and surface style only: also fit for the third-party validator
		st := &style{r: r, noCDATA: lite}
		t := preserve(r, root, lite)
		doc := st.document(t)
		v := variant{Kind: "preserve", Doc: hx(doc), Covers: true}
		if lite {
			v.Kind = "preserve-lite"
		}
		if err := vfy([]byte(doc)); err != nil {
			v.Err = err.Error()
		} else {
			v.OK = true
		}
		out = append(out, v)
	}
	for i := 0; i < nvar; i++ {
		t, what := alter(r, root, covered)
		if t == nil {
			continue
		}
		st := &style{r: r, noCharRefs: true}
		doc := st.document(t)
		v := variant{Kind: "alter:" + what, Doc: hx(doc), Covers: false}
		if err := vfy([]byte(doc)); err != nil {
			v.Err = err.Error()
		} else {
			v.OK = true
		}
		out = append(out, v)
	}
	return out
}
