// Package c19: correspondence driver for property C19 (XML canonicalisation, xmldsig, ECDSA r||s).
// gen.go: structured XML generator and a serialiser with random surface styles.  Nothing here uses relic or etree.
package c19

import (
	"fmt"
	"sort"
	"strings"

	"github.com/sassoftware/relic/v8/verifharness/core"
)

type gattr struct{ pfx, local, val string } // namespace declarations: (xmlns, p) or ("", xmlns)

type gnode struct {
	kind         int // 0 element, 1 text, 2 comment, 3 processing instruction
	pfx, local   string
	attrs        []gattr
	ch           []*gnode
	data, target string
}

type gcfg struct {
	wild      bool // allow constructs outside the class K (PIs, redundant re-declarations, xmlns="", unordered prefixes, xml: attrs)
	maxDepth  int
	maxKids   int
	monotone  bool // prefix -> URI mapping preserves order
	textHeavy bool
}

var prefixPool = []string{"a", "b", "p", "q", "ns1", "z"}
var uriMono = map[string]string{"a": "urn:a", "b": "urn:b", "p": "urn:p", "q": "urn:q", "ns1": "urn:r:ns1", "z": "urn:z", "": "urn:default"}
var uriPool = []string{"urn:a", "urn:b", "urn:p", "urn:q", "urn:z", "http://example.org/ns/1", "http://www.w3.org/2000/09/xmldsig#",
	"urn:schemas-microsoft-com:asm.v1", "urn:schemas-microsoft-com:asm.v2", "urn:0", "urn:Z", "mailto:x@example.org"}
var localPool = []string{"a", "b", "c", "item", "Id", "x", "y", "name", "Reference", "Value", "héllo", "t-1", "_u", "k.v"}
var attrPool = []string{"a", "b", "id", "Id", "x", "y", "name", "type", "Algorithm", "URI", "v-1", "_w", "é"}

func pick(r *core.Rng, xs []string) string { return xs[r.Intn(len(xs))] }

// text with characters that matter for canonicalisation
func genText(r *core.Rng, attr bool) string {
	n := r.Pick(0, 1, 1, 2, 3, 5, 8)
	var b strings.Builder
	for i := 0; i < n; i++ {
		switch r.Intn(20) {
		case 0:
			b.WriteByte('&')
		case 1:
			b.WriteByte('<')
		case 2:
			b.WriteByte('>')
		case 3:
			b.WriteByte('"')
		case 4:
			b.WriteByte('\'')
		case 5:
			b.WriteByte('\t')
		case 6:
			b.WriteByte('\n')
		case 7:
			b.WriteByte('\r')
		case 8:
			b.WriteByte(' ')
		case 9:
			b.WriteString("é")
		case 10:
			b.WriteString("中")
		case 11:
			b.WriteString("]]>")
		case 12:
			b.WriteString("😀")
		case 13:
			b.WriteString("&amp;")
		default:
			b.WriteByte(byte('a' + r.Intn(26)))
		}
	}
	return b.String()
}

type scope map[string]string

func (s scope) clone() scope {
	n := scope{}
	for k, v := range s {
		n[k] = v
	}
	return n
}
func (s scope) bound() []string {
	var ps []string
	for k, v := range s {
		if k != "" && v != "" {
			ps = append(ps, k)
		}
	}
	sort.Strings(ps)
	return ps
}

func genElem(r *core.Rng, sc scope, depth int, cfg *gcfg) *gnode {
	n := &gnode{kind: 0}
	sc = sc.clone()
	uriFor := func(p string) string {
		if cfg.monotone {
			return uriMono[p]
		}
		return pick(r, uriPool)
	}
	declare := func(p, u string) {
		for i, a := range n.attrs { // one declaration per prefix per element
			if (p == "" && a.pfx == "" && a.local == "xmlns") || (p != "" && a.pfx == "xmlns" && a.local == p) {
				n.attrs[i].val = u
				sc[p] = u
				return
			}
		}
		if p == "" {
			n.attrs = append(n.attrs, gattr{"", "xmlns", u})
		} else {
			n.attrs = append(n.attrs, gattr{"xmlns", p, u})
		}
		sc[p] = u
	}
	// namespace declarations
	nd := r.Pick(0, 0, 0, 1, 1, 2)
	if depth == 0 {
		nd = r.Pick(0, 1, 2, 3)
	}
	for i := 0; i < nd; i++ {
		if r.Chance(30) {
			u := uriFor("")
			if cfg.wild && r.Chance(25) {
				u = "" // xmlns=""
			}
			if !cfg.wild && sc[""] == u {
				continue
			}
			declare("", u)
		} else {
			p := pick(r, prefixPool)
			u := uriFor(p)
			if !cfg.wild && sc[p] == u {
				continue // would be a redundant re-declaration
			}
			declare(p, u)
		}
	}
	if cfg.wild && r.Chance(15) { // redundant re-declaration of something in scope
		ps := sc.bound()
		if len(ps) > 0 && r.Chance(70) {
			p := ps[r.Intn(len(ps))]
			declare(p, sc[p])
		} else if sc[""] != "" {
			declare("", sc[""])
		}
	}
	// element name
	bound := sc.bound()
	if len(bound) > 0 && r.Chance(45) {
		n.pfx = bound[r.Intn(len(bound))]
	}
	n.local = pick(r, localPool)
	// attributes
	na := r.Pick(0, 0, 1, 1, 2, 3)
	seen := map[string]bool{}
	var usedPfx string
	for i := 0; i < na; i++ {
		a := gattr{local: pick(r, attrPool), val: genText(r, true)}
		if len(bound) > 0 && r.Chance(40) {
			a.pfx = bound[r.Intn(len(bound))]
			if !cfg.wild && usedPfx != "" && r.Chance(70) {
				a.pfx = usedPfx
			}
			usedPfx = a.pfx
		} else if cfg.wild && r.Chance(8) {
			a.pfx, a.local, a.val = "xml", pick(r, []string{"lang", "space"}), pick(r, []string{"en", "preserve", "default"})
		}
		key := a.pfx + ":" + a.local
		ukey := sc[a.pfx] + "|" + a.local
		if a.pfx == "" {
			ukey = "|" + a.local
		}
		if seen[key] || seen[ukey] || a.local == "xmlns" {
			continue
		}
		seen[key], seen[ukey] = true, true
		n.attrs = append(n.attrs, a)
	}
	// shuffle attribute order (declarations and attributes mixed)
	for i := len(n.attrs) - 1; i > 0; i-- {
		j := r.Intn(i + 1)
		n.attrs[i], n.attrs[j] = n.attrs[j], n.attrs[i]
	}
	// children
	if depth < cfg.maxDepth {
		nk := r.Intn(cfg.maxKids + 1)
		for i := 0; i < nk; i++ {
			k := r.Intn(100)
			switch {
			case k < 50:
				n.ch = append(n.ch, genElem(r, sc, depth+1, cfg))
			case k < 80 || cfg.textHeavy:
				n.ch = append(n.ch, &gnode{kind: 1, data: genText(r, false)})
			case k < 92:
				n.ch = append(n.ch, &gnode{kind: 2, data: strings.ReplaceAll(genText(r, false), "-", "_")})
			default:
				if cfg.wild {
					n.ch = append(n.ch, &gnode{kind: 3, target: pick(r, []string{"pi", "xml-stylesheet", "t"}),
						data: strings.ReplaceAll(strings.ReplaceAll(strings.TrimLeft(genText(r, false), " \t\r\n"), "?>", "? >"), "\r", "")})
				}
			}
		}
	}
	return n
}

// ---------------------------------------------------------------- serialiser with random surface styles

type style struct {
	r          *core.Rng
	attrWsLit  bool // write tab/newline literally inside attribute values (a conforming parser turns them into spaces)
	noCharRefs bool
	noCDATA    bool
}

func (st *style) escText(s string) string {
	r := st.r
	if !st.noCDATA && s != "" && !strings.Contains(s, "]]>") && !strings.Contains(s, "\r") && r.Chance(15) {
		return "<![CDATA[" + s + "]]>"
	}
	var b strings.Builder
	for _, c := range s {
		switch c {
		case '&':
			b.WriteString(pick(r, []string{"&amp;", "&#38;", "&#x26;"}))
		case '<':
			b.WriteString(pick(r, []string{"&lt;", "&#60;", "&#x3C;"}))
		case '>':
			b.WriteString(pick(r, []string{"&gt;", "&gt;", "&#62;"}))
		case '\r':
			b.WriteString(pick(r, []string{"&#13;", "&#xD;", "&#xd;"}))
		case '"':
			b.WriteString(pick(r, []string{"\"", "&quot;", "&#34;"}))
		case '\'':
			b.WriteString(pick(r, []string{"'", "&apos;", "&#39;"}))
		default:
			if !st.noCharRefs && r.Chance(6) && c != '\n' {
				b.WriteString(fmt.Sprintf(pick(r, []string{"&#%d;", "&#x%x;", "&#x%X;"}), c))
			} else {
				b.WriteRune(c)
			}
		}
	}
	return b.String()
}

func (st *style) escAttr(s string, q byte) string {
	r := st.r
	var b strings.Builder
	for _, c := range s {
		switch c {
		case '&':
			b.WriteString(pick(r, []string{"&amp;", "&#38;"}))
		case '<':
			b.WriteString(pick(r, []string{"&lt;", "&#60;"}))
		case '>':
			if strings.HasSuffix(b.String(), "]]") { // Go's decoder rejects a literal ]]> even inside attribute values
				b.WriteString("&gt;")
			} else {
				b.WriteString(pick(r, []string{">", "&gt;"}))
			}
		case '"':
			if q == '"' || r.Chance(30) {
				b.WriteString(pick(r, []string{"&quot;", "&#34;"}))
			} else {
				b.WriteByte('"')
			}
		case '\'':
			if q == '\'' || r.Chance(30) {
				b.WriteString(pick(r, []string{"&apos;", "&#39;"}))
			} else {
				b.WriteByte('\'')
			}
		case '\t':
			if st.attrWsLit {
				b.WriteByte('\t')
			} else {
				b.WriteString(pick(r, []string{"&#9;", "&#x9;"}))
			}
		case '\n':
			if st.attrWsLit {
				b.WriteByte('\n')
			} else {
				b.WriteString(pick(r, []string{"&#10;", "&#xA;"}))
			}
		case '\r':
			b.WriteString(pick(r, []string{"&#13;", "&#xD;"}))
		default:
			if !st.noCharRefs && r.Chance(5) {
				b.WriteString(fmt.Sprintf("&#x%x;", c))
			} else {
				b.WriteRune(c)
			}
		}
	}
	return b.String()
}

func qn(p, l string) string {
	if p == "" {
		return l
	}
	return p + ":" + l
}

func (st *style) write(b *strings.Builder, n *gnode) {
	r := st.r
	switch n.kind {
	case 1:
		b.WriteString(st.escText(n.data))
	case 2:
		b.WriteString("<!--" + n.data + "-->")
	case 3:
		b.WriteString("<?" + n.target)
		if n.data != "" {
			b.WriteString(pick(r, []string{" ", "  ", "\t"}) + n.data)
		}
		b.WriteString("?>")
	case 0:
		b.WriteString("<" + qn(n.pfx, n.local))
		for _, a := range n.attrs {
			b.WriteString(pick(r, []string{" ", " ", " ", "  ", "\n ", "\t"}))
			q := byte('"')
			if r.Chance(35) {
				q = '\''
			}
			b.WriteString(qn(a.pfx, a.local) + pick(r, []string{"=", "=", "=", " = ", "= "}))
			b.WriteByte(q)
			b.WriteString(st.escAttr(a.val, q))
			b.WriteByte(q)
		}
		if len(n.ch) == 0 {
			b.WriteString(pick(r, []string{"/>", " />", "></" + qn(n.pfx, n.local) + ">", "></" + qn(n.pfx, n.local) + " >"}))
			return
		}
		b.WriteString(pick(r, []string{">", ">", " >"}))
		for _, c := range n.ch {
			st.write(b, c)
		}
		b.WriteString("</" + qn(n.pfx, n.local) + pick(r, []string{">", ">", " >", "\n>"}))
	}
}

func (st *style) document(root *gnode) string {
	r := st.r
	var b strings.Builder
	b.WriteString(pick(r, []string{"", "", "<?xml version=\"1.0\"?>", "<?xml version=\"1.0\" encoding=\"UTF-8\"?>\n",
		"<?xml version='1.0' encoding='utf-8' standalone='yes'?>\r\n"}))
	if r.Chance(20) {
		b.WriteString("<!-- lead -->\n")
	}
	if r.Chance(10) {
		b.WriteString("<?lead pi?>")
	}
	st.write(&b, root)
	if r.Chance(20) {
		b.WriteString("\n<!-- trail -->")
	}
	if r.Chance(20) {
		b.WriteString("\n")
	}
	return b.String()
}

// element paths (child-element indices) of every element of the logical tree
func allPaths(n *gnode, cur []int, out *[][]int) {
	*out = append(*out, append([]int{}, cur...))
	k := 0
	for _, c := range n.ch {
		if c.kind == 0 {
			allPaths(c, append(cur, k), out)
			k++
		}
	}
}

func pathString(p []int) string {
	if len(p) == 0 {
		return "-"
	}
	parts := make([]string, len(p))
	for i, x := range p {
		parts[i] = fmt.Sprint(x)
	}
	return strings.Join(parts, "/")
}
