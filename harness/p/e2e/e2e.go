// Package e2e: library-level probes used by the end-to-end checks (C01 C02 C03 C05 C08 C07):
// verifyjson — run the registered verifier of a file and print what it accepted (leaf, hash, timestamps) as JSON;
// issigned   — the is-signed probe (Signer.IsSigned).
package e2e

import (
	"crypto/sha1"
	"crypto/x509"
	"encoding/hex"
	"errors"
	"fmt"
	"os"
	"strings"

	"github.com/sassoftware/relic/v8/lib/certloader"
	"github.com/sassoftware/relic/v8/lib/magic"
	"github.com/sassoftware/relic/v8/lib/x509tools"
	"github.com/sassoftware/relic/v8/signers"
	_ "github.com/sassoftware/relic/v8/verifharness/allsigners"
	"github.com/sassoftware/relic/v8/verifharness/core"
)

type sigOut struct {
	Hash        string `json:"hash"`
	Package     string `json:"package,omitempty"`
	SigInfo     string `json:"siginfo,omitempty"`
	Signer      string `json:"signer"`
	LeafSHA1    string `json:"leaf_sha1,omitempty"`
	LeafSubject string `json:"leaf_subject,omitempty"`
	ChainLen    int    `json:"chain_len"`
	PgpKeyID    string `json:"pgp_keyid,omitempty"`
	Timestamped bool   `json:"timestamped"`
	ChainErr    string `json:"chain_err,omitempty"`
}
type fileOut struct {
	Path   string   `json:"path"`
	Type   string   `json:"type"`
	OK     bool     `json:"ok"`
	Err    string   `json:"err,omitempty"`
	ErrKind string  `json:"err_kind,omitempty"` // notsigned | other
	Sigs   []sigOut `json:"sigs"`
}

// args: [--cert file]... [--content file] [--type sigtype] [--no-chain] [--no-digests] file...
func init() {
	core.Register("verifyjson", func(c *core.Ctx) error {
		var certs, files []string
		var content, sigtype string
		noChain, noDigests := false, false
		for i := 0; i < len(c.Args); i++ {
			switch c.Args[i] {
			case "--cert":
				i++
				certs = append(certs, c.Args[i])
			case "--content":
				i++
				content = c.Args[i]
			case "--type":
				i++
				sigtype = c.Args[i]
			case "--no-chain":
				noChain = true
			case "--no-digests":
				noDigests = true
			default:
				files = append(files, c.Args[i])
			}
		}
		opts := signers.VerifyOpts{NoChain: noChain, NoDigests: noDigests, Content: content}
		if len(certs) > 0 {
			trusted, err := certloader.LoadAnyCerts(certs)
			if err != nil {
				return err
			}
			opts.TrustedX509, opts.TrustedPgp = trusted.X509Certs, trusted.PGPCerts
			if len(opts.TrustedX509) > 0 {
				opts.TrustedPool = x509.NewCertPool()
				for _, cert := range opts.TrustedX509 {
					opts.TrustedPool.AddCert(cert)
				}
			}
		}
		for _, path := range files {
			c.Emit(verifyOne(path, sigtype, opts))
		}
		return nil
	})
	core.Register("issigned", func(c *core.Ctx) error {
		for _, path := range c.Args {
			out := map[string]interface{}{"path": path}
			mod, err := signers.ByFile(path, "")
			if err != nil {
				out["err"] = err.Error()
				c.Emit(out)
				continue
			}
			f, err := os.Open(path)
			if err != nil {
				out["err"] = err.Error()
				c.Emit(out)
				continue
			}
			signed, err := mod.IsSigned(f)
			f.Close()
			out["type"] = mod.Name
			out["signed"] = signed
			if err != nil {
				out["err"] = err.Error()
			}
			c.Emit(out)
		}
		return nil
	})
}

func verifyOne(path, sigtype string, opts signers.VerifyOpts) (out fileOut) {
	out.Path = path
	defer func() {
		if r := recover(); r != nil {
			out.OK = false
			out.Err = fmt.Sprintf("PANIC: %v", r)
			out.ErrKind = "panic"
		}
	}()
	f, err := os.Open(path)
	if err != nil {
		out.Err = err.Error()
		return
	}
	defer f.Close()
	var mod *signers.Signer
	fileType, compression := magic.DetectCompressed(f)
	opts.FileName = path
	opts.Compression = compression
	f.Seek(0, 0)
	if sigtype != "" {
		mod = signers.ByName(sigtype)
	} else {
		mod = signers.ByMagic(fileType)
		if mod == nil {
			mod = signers.ByFileName(path)
		}
	}
	if mod == nil {
		out.Err = "unknown filetype"
		return
	}
	out.Type = mod.Name
	var sigs []*signers.Signature
	if mod.VerifyStream != nil {
		r, err2 := magic.Decompress(f, opts.Compression)
		if err2 != nil {
			out.Err = err2.Error()
			return
		}
		sigs, err = mod.VerifyStream(r, opts)
	} else {
		if opts.Compression != magic.CompressedNone {
			out.Err = "cannot verify compressed file"
			return
		}
		sigs, err = mod.Verify(f, opts)
	}
	if err != nil {
		out.Err = err.Error()
		out.ErrKind = "other"
		var nse interface{ Error() string }
		_ = nse
		if strings.Contains(strings.ToLower(err.Error()), "not signed") || strings.Contains(strings.ToLower(err.Error()), "no signature") || errors.Is(err, os.ErrNotExist) {
			out.ErrKind = "notsigned"
		}
		return
	}
	out.OK = true
	for _, sig := range sigs {
		so := sigOut{Hash: x509tools.HashNames[sig.Hash], Package: sig.Package, SigInfo: sig.SigInfo, Signer: sig.SignerName()}
		if sig.X509Signature != nil {
			d := sha1.Sum(sig.X509Signature.Certificate.Raw)
			so.LeafSHA1 = hex.EncodeToString(d[:])
			so.LeafSubject = x509tools.FormatSubject(sig.X509Signature.Certificate)
			so.ChainLen = 1 + len(sig.X509Signature.Intermediates)
			so.Timestamped = sig.X509Signature.CounterSignature != nil
			if !opts.NoChain {
				if err := sig.X509Signature.VerifyChain(opts.TrustedPool, nil, x509.ExtKeyUsageAny); err != nil {
					so.ChainErr = err.Error()
					out.OK = false
				}
			}
		}
		if sig.SignerPgp != nil {
			so.PgpKeyID = fmt.Sprintf("%x", sig.SignerPgp.PrimaryKey.KeyId)
		}
		out.Sigs = append(out.Sigs, so)
	}
	return
}
