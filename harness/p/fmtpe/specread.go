package fmtpe

// Independent PE reader and Authenticode digest-input computation, written from the published specifications
// ("Microsoft PE and COFF Specification", "Windows Authenticode Portable Executable Signature Format" §"Calculating the PE
// Image Hash", and the ImageHlp CheckSumMappedFile definition of the optional-header checksum).  Nothing here calls relic.

import (
	"encoding/binary"
	"sort"
)

type specSec struct{ Ptr, Size int }

type specPE struct {
	HdrPos, Opt, Cksum, DD4 int
	Plus                    bool
	NSec, OptSize           int
	SizeOfHeaders           int
	SecTbl                  int
	Secs                    []specSec
	CertVA, CertSize        int
}

func specParse(f []byte) *specPE {
	le := binary.LittleEndian
	if len(f) < 64 || f[0] != 'M' || f[1] != 'Z' {
		return nil
	}
	hp := int(le.Uint32(f[0x3c:]))
	if hp+24 > len(f) || string(f[hp:hp+4]) != "PE\x00\x00" {
		return nil
	}
	p := &specPE{HdrPos: hp, Opt: hp + 24}
	p.NSec = int(le.Uint16(f[hp+6:]))
	p.OptSize = int(le.Uint16(f[hp+20:]))
	if p.Opt+p.OptSize > len(f) || p.OptSize < 96 {
		return nil
	}
	var ddoff, nrva int
	switch le.Uint16(f[p.Opt:]) {
	case 0x10b:
		ddoff, nrva = 96, int(le.Uint32(f[p.Opt+92:]))
	case 0x20b:
		p.Plus = true
		if p.OptSize < 112 {
			return nil
		}
		ddoff, nrva = 112, int(le.Uint32(f[p.Opt+108:]))
	default:
		return nil
	}
	if nrva < 5 || ddoff+40 > p.OptSize {
		return nil // no certificate table entry
	}
	p.Cksum = p.Opt + 64
	p.DD4 = p.Opt + ddoff + 32
	p.SizeOfHeaders = int(le.Uint32(f[p.Opt+60:]))
	p.CertVA = int(le.Uint32(f[p.DD4:]))
	p.CertSize = int(le.Uint32(f[p.DD4+4:]))
	p.SecTbl = p.Opt + p.OptSize
	if p.SecTbl+40*p.NSec > len(f) {
		return nil
	}
	for i := 0; i < p.NSec; i++ {
		o := p.SecTbl + 40*i
		p.Secs = append(p.Secs, specSec{Ptr: int(le.Uint32(f[o+20:])), Size: int(le.Uint32(f[o+16:]))})
	}
	return p
}

// sorted non-empty sections (step 9/10 of the Authenticode algorithm)
func (p *specPE) sortedSecs() []specSec {
	var s []specSec
	for _, x := range p.Secs {
		if x.Size != 0 {
			s = append(s, x)
		}
	}
	sort.SliceStable(s, func(i, j int) bool { return s[i].Ptr < s[j].Ptr })
	return s
}

// the literal algorithm of the Authenticode document; ok=false when a step would read outside the file
func specDigestInput(f []byte, p *specPE) ([]byte, bool) {
	if p.SizeOfHeaders > len(f) || p.DD4+8 > p.SizeOfHeaders {
		return nil, false
	}
	var out []byte
	out = append(out, f[:p.Cksum]...)                // step 3
	out = append(out, f[p.Cksum+4:p.DD4]...)         // step 5
	out = append(out, f[p.DD4+8:p.SizeOfHeaders]...) // step 7
	sum := p.SizeOfHeaders                           // step 8
	for _, s := range p.sortedSecs() {               // steps 9-13
		if s.Ptr+s.Size > len(f) {
			return nil, false
		}
		out = append(out, f[s.Ptr:s.Ptr+s.Size]...)
		sum += s.Size
	}
	if len(f) > sum { // step 14
		n := len(f) - p.CertSize - sum
		if n < 0 || sum+n > len(f) {
			return nil, false
		}
		out = append(out, f[sum:sum+n]...)
	}
	return out, true
}

// the document's algorithm presupposes that the sorted sections tile the file from SizeOfHeaders on, and that the
// certificate table is the tail of the file
func (p *specPE) contiguous(f []byte) bool {
	pos := p.SizeOfHeaders
	for _, s := range p.sortedSecs() {
		if s.Ptr != pos {
			return false
		}
		pos += s.Size
	}
	if pos > len(f) {
		return false
	}
	if p.CertSize != 0 && (p.CertVA < pos || p.CertVA+p.CertSize != len(f)) {
		return false
	}
	return true
}

// "everything but the three excluded regions": the reading of the specification used by Windows itself
func linearDigestInput(f []byte, p *specPE) ([]byte, bool) {
	end := len(f)
	if p.CertSize != 0 {
		if p.CertVA+p.CertSize != len(f) {
			return nil, false
		}
		end = p.CertVA
	}
	if p.DD4+8 > end {
		return nil, false
	}
	var out []byte
	out = append(out, f[:p.Cksum]...)
	out = append(out, f[p.Cksum+4:p.DD4]...)
	out = append(out, f[p.DD4+8:end]...)
	return out, true
}

// PE optional-header checksum (CheckSumMappedFile): 16-bit words, end-around carry, checksum field taken as zero,
// odd trailing byte zero-extended, plus the file length
func specChecksum(f []byte, p *specPE) uint32 {
	var sum uint64
	n := len(f)
	for i := 0; i < n; i += 2 {
		at := func(j int) uint64 { // byte j with the checksum field read as zero
			if j >= n || (j >= p.Cksum && j < p.Cksum+4) {
				return 0
			}
			return uint64(f[j])
		}
		sum += at(i) | at(i+1)<<8
	}
	for sum>>16 != 0 {
		sum = (sum & 0xffff) + (sum >> 16)
	}
	return uint32(sum) + uint32(n)
}
