package fmtpe

// Harness-owned PE/COFF image generator (not relic's code, not debug/pe): emits byte-exact PE32 / PE32+ images with every
// layout parameter under control, plus the malformed variants the refusal tests need.

import (
	"encoding/binary"

	"github.com/sassoftware/relic/v8/verifharness/core"
)

type secSpec struct {
	Size int  `json:"size"` // SizeOfRawData as written in the table
	Ptr  int  `json:"ptr"`  // PointerToRawData as written in the table (filled by layout unless Fixed)
	Fix  bool `json:"fix"`  // keep Ptr as given
}

type peSpec struct {
	Plus       bool      `json:"plus"`
	Lfanew     int       `json:"lfanew"`
	Machine    int       `json:"machine"`
	OptSize    int       `json:"optsize"`
	NumRva     int       `json:"numrva"`
	OptMagic   int       `json:"optmagic"`
	FileAlign  int       `json:"filealign"`
	HdrExtra   int       `json:"hdrextra"`   // extra zero padding inside SizeOfHeaders (in units of bytes, after alignment)
	HdrSize    int       `json:"hdrsize"`    // SizeOfHeaders written (0 = computed)
	Gap        int       `json:"gap"`        // bytes between the end of the headers and the first section
	Secs       []secSpec `json:"secs"`       // section table
	AlignMid   bool      `json:"alignmid"`   // sections other than the last occupy align(size) bytes in the file (table keeps raw size)
	Overlay    int       `json:"overlay"`    // bytes after the last section
	CertPad    int       `json:"certpad"`    // zero bytes between payload and certificate table (-1: pad to 8)
	Certs      [][]byte  `json:"-"`          // certificate table entries (blobs); nil = unsigned
	CertLenAdj int       `json:"certlenadj"` // added to the dwLength of the first entry
	Trailing   int       `json:"trailing"`   // garbage bytes after the certificate table
	DDVaAdj    int       `json:"ddvaadj"`    // added to the directory entry's address
	DDSizeAdj  int       `json:"ddsizeadj"`  // added to the directory entry's size
	Truncate   int       `json:"truncate"`   // if >0: cut the file to this length
	PEAt64     bool      `json:"peat64"`     // (lfanew < 64) place the NT headers at offset 64 regardless of lfanew
	Shadow     bool      `json:"shadow"`     // (with PEAt64) also write the fields findSignatures reads of a second NT header at lfanew
	NoMZ       bool      `json:"nomz"`
	NoPE       bool      `json:"nope"`
}

// layout facts the generator knows about the image it wrote (the oracle's ground truth for generated files)
type peLayout struct {
	HdrPos     int      `json:"hdrpos"` // offset of "PE\0\0"
	Cksum      int      `json:"cksum"`
	DD4        int      `json:"dd4"`
	SecTbl     int      `json:"sectbl"`
	SecTblEnd  int      `json:"sectblend"`
	HdrEnd     int      `json:"hdrend"`
	Secs       [][2]int `json:"secs"`   // (offset, length actually occupied in file) per non-empty section
	PayloadEnd int      `json:"payend"` // end of sections + overlay
	CertAt     int      `json:"certat"`
	CertLen    int      `json:"certlen"`
}

func alignUp(n, a int) int {
	if a <= 0 {
		return n
	}
	if r := n % a; r != 0 {
		return n + a - r
	}
	return n
}

func optMin(plus bool) int {
	if plus {
		return 240
	}
	return 224
}

func buildPE(r *core.Rng, s *peSpec) ([]byte, *peLayout) {
	le := binary.LittleEndian
	hp := s.Lfanew
	if s.PEAt64 {
		hp = 64
	}
	lay := &peLayout{HdrPos: hp}
	opt := hp + 24
	secTbl := hp + 24 + s.OptSize
	secTblAsRelicSees := s.Lfanew + 24 + s.OptSize
	_ = secTblAsRelicSees
	secTblEnd := secTbl + 40*len(s.Secs)
	hdrEnd := alignUp(secTblEnd, s.FileAlign) + s.HdrExtra
	hdrField := hdrEnd
	if s.HdrSize != 0 {
		hdrField = s.HdrSize
		if hdrField > hdrEnd {
			// SizeOfHeaders reaching past the first section: the file keeps hdrEnd as the physical end of the headers
		} else {
			hdrEnd = hdrField
			if hdrEnd < secTblEnd {
				hdrEnd = secTblEnd
			}
		}
	}
	lay.SecTbl, lay.SecTblEnd, lay.HdrEnd = secTbl, secTblEnd, hdrEnd
	buf := r.Bytes(hdrEnd)
	// DOS header
	buf[0], buf[1] = 'M', 'Z'
	if s.NoMZ {
		buf[0] = 'Z'
	}
	le.PutUint32(buf[0x3c:], uint32(s.Lfanew))
	copy(buf[hp:], []byte{'P', 'E', 0, 0})
	if s.NoPE {
		buf[hp+1] = 'F'
	}
	le.PutUint16(buf[hp+4:], uint16(s.Machine))
	le.PutUint16(buf[hp+6:], uint16(len(s.Secs)))
	le.PutUint16(buf[hp+20:], uint16(s.OptSize))
	magic := s.OptMagic
	if magic == 0 {
		magic = 0x10b
		if s.Plus {
			magic = 0x20b
		}
	}
	put16 := func(off, v int) {
		if off+2 <= len(buf) {
			le.PutUint16(buf[off:], uint16(v))
		}
	}
	put32 := func(off, v int) {
		if off+4 <= len(buf) {
			le.PutUint32(buf[off:], uint32(v))
		}
	}
	if s.OptSize >= 2 {
		put16(opt, magic)
	}
	put32(opt+36, s.FileAlign)
	put32(opt+60, hdrField)
	ddoff := 128
	nrvaOff := 92
	if s.Plus {
		ddoff, nrvaOff = 144, 108
	}
	put32(opt+nrvaOff, s.NumRva)
	lay.Cksum, lay.DD4 = opt+64, opt+ddoff
	if s.Shadow && s.PEAt64 {
		sh := s.Lfanew
		copy(buf[sh:], []byte{'P', 'E', 0, 0})
		put16(sh+20, s.OptSize)
		put16(sh+24, magic)
		put32(sh+24+nrvaOff, 16)
		put32(sh+24+ddoff, 0)
		put32(sh+24+ddoff+4, 0)
	}
	// section data
	pos := hdrEnd + s.Gap
	body := append([]byte{}, buf...)
	body = append(body, r.Bytes(s.Gap)...)
	for i := range s.Secs {
		sc := &s.Secs[i]
		if sc.Size == 0 {
			continue
		}
		occ := sc.Size
		if s.AlignMid && i != len(s.Secs)-1 {
			occ = alignUp(sc.Size, s.FileAlign)
		}
		if !sc.Fix {
			sc.Ptr = pos
		}
		lay.Secs = append(lay.Secs, [2]int{pos, occ})
		body = append(body, r.Bytes(occ)...)
		pos += occ
	}
	for i, sc := range s.Secs {
		o := secTbl + 40*i
		le.PutUint32(body[o+16:], uint32(sc.Size))
		le.PutUint32(body[o+20:], uint32(sc.Ptr))
	}
	body = append(body, r.Bytes(s.Overlay)...)
	lay.PayloadEnd = len(body)
	// directory entry 4 and certificate table
	va, sz := 0, 0
	if s.Certs != nil {
		pad := s.CertPad
		if pad < 0 {
			pad = (8 - len(body)%8) % 8
		}
		body = append(body, make([]byte, pad)...)
		va = len(body)
		for i, c := range s.Certs {
			padded := alignUp(len(c), 8)
			hdr := make([]byte, 8)
			l := 8 + padded
			if i == 0 {
				l += s.CertLenAdj
			}
			le.PutUint32(hdr, uint32(l))
			le.PutUint16(hdr[4:], 0x0200)
			le.PutUint16(hdr[6:], 0x0002)
			body = append(body, hdr...)
			body = append(body, c...)
			body = append(body, make([]byte, padded-len(c))...)
		}
		sz = len(body) - va
		lay.CertAt, lay.CertLen = va, sz
		body = append(body, r.Bytes(s.Trailing)...)
	}
	va += s.DDVaAdj
	sz += s.DDSizeAdj
	if lay.DD4+8 <= len(body) {
		le.PutUint32(body[lay.DD4:], uint32(va))
		le.PutUint32(body[lay.DD4+4:], uint32(sz))
	}
	if s.Truncate > 0 && s.Truncate < len(body) {
		body = body[:s.Truncate]
	}
	return body, lay
}

// randomSpec: a well-formed image (as far as relic's accepted class goes) with every layout parameter varied
func randomSpec(r *core.Rng) *peSpec {
	s := &peSpec{}
	s.Plus = r.Chance(50)
	s.Lfanew = r.Pick(64, 64, 72, 128, 128, 200, 256)
	s.Machine = r.Pick(0x14c, 0x8664, 0x200, 0x184, 0x284, 0x1c0, 0xaa64)
	s.OptSize = optMin(s.Plus)
	if r.Chance(30) {
		s.OptSize += r.Pick(1, 8, 16, 40)
	}
	s.NumRva = r.Pick(16, 16, 16, 5, 6, 15, 17, 0x7fffffff)
	s.FileAlign = r.Pick(1, 2, 4, 8, 16, 32, 64, 512, 512)
	if r.Chance(30) {
		s.HdrExtra = r.Pick(1, 3, 8, 16) * s.FileAlign
		if s.HdrExtra > 1024 {
			s.HdrExtra = 512
		}
	}
	if r.Chance(15) {
		s.Gap = r.Pick(1, 5, 8, 32)
	}
	nsec := r.Pick(1, 1, 2, 2, 3, 4, 5, 6)
	if r.Chance(4) {
		nsec = 0
	}
	s.AlignMid = r.Chance(50)
	for i := 0; i < nsec; i++ {
		var sz int
		if s.AlignMid && !r.Chance(40) {
			sz = r.Pick(1, 3, 7, 9, 33, 100, 513) // unaligned raw sizes, file keeps aligned slots
		} else {
			sz = s.FileAlign * r.Pick(1, 1, 2, 3)
			if !s.AlignMid && r.Chance(30) {
				sz = r.Pick(1, 3, 7, 8, 9, 31, 33, 64, 100)
			}
		}
		if r.Chance(10) {
			sz = 0
		}
		s.Secs = append(s.Secs, secSpec{Size: sz})
	}
	// an empty section may carry any pointer
	for i := range s.Secs {
		if s.Secs[i].Size == 0 {
			s.Secs[i].Ptr = r.Pick(0, 0, 1, 77, 100000)
			s.Secs[i].Fix = true
		}
	}
	if !s.AlignMid && len(s.Secs) > 1 {
		// without aligned slots every non-last non-empty size must already be a multiple of the alignment for relic to accept
		for i := 0; i < len(s.Secs)-1; i++ {
			if s.Secs[i].Size != 0 {
				s.Secs[i].Size = alignUp(s.Secs[i].Size, s.FileAlign)
			}
		}
	}
	if r.Chance(40) {
		s.Overlay = r.Pick(1, 2, 7, 8, 9, 15, 16, 100)
	}
	return s
}
