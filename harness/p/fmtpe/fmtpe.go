// Package fmtpe: correspondence driver for the PE/COFF Authenticode format module.
// Runs the REAL relic code (lib/authenticode, lib/binpatch, signers/pecoff) on images from the harness-owned generator and on
// the functest fixtures, and prints one JSON object per observation.
//
//	{"t":"F", ...}  a file: what DigestPE / findSignatures / checkSignatures / VerifyPE say about it, and what the independent
//	                specification reader (specread.go) says
//	{"t":"E", ...}  an embedding: MakePatch(blob) (or a real signature) applied to file `in` by binpatch + FixPEChecksum -> file `out`
//	{"t":"R", ...}  a refusal probe: the signers pipeline on an input DigestPE rejects (error, file untouched, nothing left behind)
//	{"t":"M", ...}  mutation sweep summary of one signed sample
package fmtpe

import (
	"bytes"
	"context"
	"crypto"
	"crypto/sha1"
	"crypto/sha256"
	"encoding/binary"
	"encoding/hex"
	"errors"
	"fmt"
	"io"
	"net/url"
	"os"
	"path/filepath"
	"strings"
	"time"

	"github.com/sassoftware/relic/v8/lib/audit"
	"github.com/sassoftware/relic/v8/lib/authenticode"
	"github.com/sassoftware/relic/v8/lib/certloader"
	"github.com/sassoftware/relic/v8/signers"
	"github.com/sassoftware/relic/v8/signers/sigerrors"
	_ "github.com/sassoftware/relic/v8/verifharness/allsigners"
	"github.com/sassoftware/relic/v8/verifharness/core"
)

const (
	clsOK       = 0
	clsEOF      = 1
	clsNotPE    = 2
	clsMagic    = 3
	clsNoRoom   = 4
	clsTblOver  = 5
	clsSecOver  = 6
	clsBegins   = 7
	clsGapRead  = 8
	clsSigOver  = 9
	clsTrailing = 10
	clsTooBig   = 11
	clsBadTable = 12
	clsUnsigned = 13
	clsLfanew   = 14 // e_lfanew < 64 (NT headers overlap the DOS header)
	clsOptShort = 15 // optional header shorter than its magic
	clsEntry    = 20 // per-entry failure (PKCS#7 parse / signature check) after a successful table walk
	clsDigest   = 21 // digest mismatch
	clsOther    = 90
	clsPanic    = 99
)

func errClass(err error) int {
	if err == nil {
		return clsOK
	}
	var ns sigerrors.NotSignedError
	if errors.As(err, &ns) {
		return clsUnsigned
	}
	s := err.Error()
	switch {
	case errors.Is(err, io.EOF), errors.Is(err, io.ErrUnexpectedEOF):
		return clsEOF
	case s == "not a PE file":
		return clsNotPE
	case strings.Contains(s, "NT headers overlap the DOS header"):
		return clsLfanew
	case s == "PE optional header is too short":
		return clsOptShort
	case s == "unrecognized optional header magic":
		return clsMagic
	case s == "PE header did not leave room for signature":
		return clsNoRoom
	case s == "PE section overlaps section table":
		return clsTblOver
	case strings.Contains(s, "overlaps section table at"):
		return clsSecOver
	case strings.Contains(s, "begins at"):
		return clsBegins
	case strings.Contains(s, "failed to read data between"):
		return clsGapRead
	case s == "existing signature overlaps with PE sections":
		return clsSigOver
	case s == "trailing garbage after existing certificate":
		return clsTrailing
	case s == "PE file is too big":
		return clsTooBig
	case s == "invalid certificate table":
		return clsBadTable
	case strings.Contains(s, "digest mismatch"), strings.Contains(s, "page hash mismatch"):
		return clsDigest
	case strings.Contains(s, "unmarshaling authenticode signature"), strings.Contains(s, "not an authenticode signature"),
		strings.Contains(s, "verifying indirect signature"), strings.Contains(s, "pkcs7:"), strings.Contains(s, "asn1:"),
		strings.Contains(s, "unmarshaling SpcIndirectDataContentPe"), strings.Contains(s, "verifying timestamp"):
		return clsEntry
	}
	return clsOther
}

type digObs struct {
	Cls       int    `json:"cls"`
	Cls1      int    `json:"cls1"`
	Err       string `json:"err,omitempty"`
	Imp256    string `json:"imp256"`
	Imp1      string `json:"imp1"`
	Orig      int64  `json:"orig"`
	CertStart int64  `json:"certstart"`
	PosDD     int64  `json:"posdd"`
	OldSize   int64  `json:"oldsize"`
	SecTbl    int64  `json:"sectbl"`
	SizeOfHdr int64  `json:"sizeofhdr"`
	FileAlign uint32 `json:"filealign"`
	PageSize  uint32 `json:"pagesize"`
}
type findObs struct {
	Cls       int   `json:"cls"`
	CertStart int64 `json:"certstart"`
	CertSize  int64 `json:"certsize"`
	PosDD     int64 `json:"posdd"`
}
type walkObs struct {
	Cls int    `json:"cls"` // -1 not applicable (unsigned / table outside file)
	N   int    `json:"n"`
	Err string `json:"err,omitempty"`
}
type verObs struct {
	Cls      int      `json:"cls"`
	ClsND    int      `json:"cls_nd"` // with digests skipped
	N        int      `json:"n"`
	Hashes   []string `json:"hashes"`
	Imprints []string `json:"imprints"`
	Signer   []string `json:"signer"`
	Err      string   `json:"err,omitempty"`
}
type specObs struct {
	Parsed    bool     `json:"parsed"`
	Contig    bool     `json:"contig"`
	Lit256    string   `json:"lit256"`
	LitPad256 string   `json:"litpad256"` // literal algorithm's input, zero padded as the signed file will be
	LinPad256 string   `json:"linpad256"`
	Lin256    string   `json:"lin256"`
	Lin1      string   `json:"lin1"`
	LinLen    int      `json:"linlen"`
	Cksum     int      `json:"cksum"`
	DD4       int      `json:"dd4"`
	CertVA    int      `json:"certva"`
	CertSize  int      `json:"certsize"`
	Secs      [][2]int `json:"secs"`
	SOH       int      `json:"soh"`
	SpecSum   uint32   `json:"specsum"`
	FileSum   uint32   `json:"filesum"`
}

type fileRec struct {
	T    string    `json:"t"`
	ID   int       `json:"id"`
	Kind string    `json:"kind"`
	Note string    `json:"note,omitempty"`
	Spec *peSpec   `json:"spec,omitempty"`
	Lay  *peLayout `json:"lay,omitempty"`
	From int       `json:"from"` // E record that produced it (-1: an input)
	File string    `json:"file"`
	Len  int       `json:"len"`
	Dig  digObs    `json:"dig"`
	Find findObs   `json:"find"`
	Walk walkObs   `json:"walk"`
	Ver  verObs    `json:"ver"`
	Sp   specObs   `json:"sp"`
}

type embedRec struct {
	T        string `json:"t"`
	ID       int    `json:"id"`
	In       int    `json:"in"`
	Out      int    `json:"out"`  // file id of the result (-1 if refused)
	Mode     string `json:"mode"` // raw: MakePatch(blob) ; signed: PEDigest.Sign with the functest key ; pipeline: signers pipeline as the CLI runs it
	Hash     string `json:"hash"`
	Blob     string `json:"blob"`
	Cls      int    `json:"cls"`
	Err      string `json:"err,omitempty"`
	SamePath bool   `json:"samepath"`
	InSame   bool   `json:"in_same"` // input path bytes unchanged afterwards (when output path differs, or on refusal)
	TmpLeft  bool   `json:"tmp_left"`
	PageHash bool   `json:"pagehash"`
}

type refuseRec struct {
	T       string `json:"t"`
	ID      int    `json:"id"`
	In      int    `json:"in"`
	Cls     int    `json:"cls"`
	Err     string `json:"err,omitempty"`
	InSame  bool   `json:"in_same"`
	TmpLeft bool   `json:"tmp_left"`
}

type drv struct {
	c     *core.Ctx
	r     *core.Rng
	next  int
	cert  *certloader.Certificate
	dir   string
	nfile int
}

func (d *drv) id() int { d.next++; return d.next - 1 }

func safeDigest(f []byte, h crypto.Hash, ph bool) (pd *authenticode.PEDigest, err error, panicked bool) {
	defer func() {
		if r := recover(); r != nil {
			pd, err, panicked = nil, fmt.Errorf("panic: %v", r), true
		}
	}()
	pd, err = authenticode.DigestPE(bytes.NewReader(f), h, ph)
	return
}

func (d *drv) observe(f []byte, kind, note string, spec *peSpec, lay *peLayout, from int) *fileRec {
	rec := &fileRec{T: "F", ID: d.id(), Kind: kind, Note: note, Spec: spec, Lay: lay, From: from, File: hex.EncodeToString(f), Len: len(f)}
	// DigestPE
	pd, err, pan := safeDigest(f, crypto.SHA256, false)
	rec.Dig.Cls = errClass(err)
	if pan {
		rec.Dig.Cls = clsPanic
	}
	if err != nil {
		rec.Dig.Err = err.Error()
	} else {
		m := pd.VerifMarkers()
		rec.Dig.Imp256 = hex.EncodeToString(pd.Imprint)
		rec.Dig.Orig, rec.Dig.CertStart, rec.Dig.PosDD, rec.Dig.OldSize = pd.OrigSize, pd.CertStart, m.PosDDCert, m.CertSize
		rec.Dig.SecTbl, rec.Dig.SizeOfHdr, rec.Dig.FileAlign, rec.Dig.PageSize = m.SecTblStart, m.SizeOfHdr, m.FileAlign, m.PageSize
	}
	pd1, err1, pan1 := safeDigest(f, crypto.SHA1, false)
	rec.Dig.Cls1 = errClass(err1)
	if pan1 {
		rec.Dig.Cls1 = clsPanic
	}
	if err1 == nil {
		rec.Dig.Imp1 = hex.EncodeToString(pd1.Imprint)
	}
	// findSignatures
	func() {
		defer func() {
			if r := recover(); r != nil {
				rec.Find.Cls = clsPanic
			}
		}()
		hv, err := authenticode.VerifFindSignatures(bytes.NewReader(f))
		rec.Find.Cls = errClass(err)
		if err == nil {
			rec.Find.CertStart, rec.Find.CertSize, rec.Find.PosDD = hv.CertStart, hv.CertSize, hv.PosDDCert
		}
	}()
	// certificate table walk (no image: digests not compared)
	rec.Walk.Cls = -1
	if rec.Find.Cls == 0 && rec.Find.CertSize != 0 && rec.Find.CertStart+rec.Find.CertSize <= int64(len(f)) {
		func() {
			defer func() {
				if r := recover(); r != nil {
					rec.Walk.Cls, rec.Walk.Err = clsPanic, fmt.Sprint(r)
				}
			}()
			sigs, err := authenticode.VerifCheckSignatures(f[rec.Find.CertStart:rec.Find.CertStart+rec.Find.CertSize], nil)
			rec.Walk.Cls, rec.Walk.N = errClass(err), len(sigs)
			if err != nil {
				rec.Walk.Err = err.Error()
			}
		}()
	}
	// VerifyPE through a real file
	func() {
		defer func() {
			if r := recover(); r != nil {
				rec.Ver.Cls, rec.Ver.Err = clsPanic, fmt.Sprint(r)
			}
		}()
		sigs, err := authenticode.VerifyPE(bytes.NewReader(f), false)
		rec.Ver.Cls, rec.Ver.N = errClass(err), len(sigs)
		if err != nil {
			rec.Ver.Err = err.Error()
		}
		for _, s := range sigs {
			rec.Ver.Hashes = append(rec.Ver.Hashes, s.ImageHashFunc.String())
			rec.Ver.Imprints = append(rec.Ver.Imprints, hex.EncodeToString(s.Indirect.MessageDigest.Digest))
			if s.Certificate != nil {
				rec.Ver.Signer = append(rec.Ver.Signer, fmt.Sprintf("%x", sha256.Sum256(s.Certificate.Raw))[:16])
			}
		}
		_, errnd := authenticode.VerifyPE(bytes.NewReader(f), true)
		rec.Ver.ClsND = errClass(errnd)
	}()
	// the specification's view
	if p := specParse(f); p != nil {
		rec.Sp.Parsed = true
		rec.Sp.Contig = p.contiguous(f)
		pend := len(f)
		if p.CertSize != 0 {
			pend = p.CertVA
		}
		zpad := make([]byte, (8-pend%8)%8)
		if in, ok := specDigestInput(f, p); ok {
			rec.Sp.Lit256 = fmt.Sprintf("%x", sha256.Sum256(in))
			rec.Sp.LitPad256 = fmt.Sprintf("%x", sha256.Sum256(append(append([]byte{}, in...), zpad...)))
		}
		if in, ok := linearDigestInput(f, p); ok {
			rec.Sp.LinPad256 = fmt.Sprintf("%x", sha256.Sum256(append(append([]byte{}, in...), zpad...)))
			rec.Sp.Lin256 = fmt.Sprintf("%x", sha256.Sum256(in))
			rec.Sp.Lin1 = fmt.Sprintf("%x", sha1.Sum(in))
			rec.Sp.LinLen = len(in)
		}
		rec.Sp.Cksum, rec.Sp.DD4, rec.Sp.CertVA, rec.Sp.CertSize, rec.Sp.SOH = p.Cksum, p.DD4, p.CertVA, p.CertSize, p.SizeOfHeaders
		for _, s := range p.Secs {
			rec.Sp.Secs = append(rec.Sp.Secs, [2]int{s.Ptr, s.Size})
		}
		rec.Sp.SpecSum = specChecksum(f, p)
		if p.Cksum+4 <= len(f) {
			rec.Sp.FileSum = binary.LittleEndian.Uint32(f[p.Cksum:])
		}
	}
	d.c.Emit(rec)
	d.nfile++
	return rec
}

func tmpLeft(dir string) bool {
	ents, _ := os.ReadDir(dir)
	for _, e := range ents {
		if e.Name() != "in.bin" && e.Name() != "out.bin" {
			return true
		}
	}
	return false
}

// embedRaw: DigestPE(f) -> MakePatch(blob) -> binpatch Dump/Load/Apply -> FixPEChecksum, exactly the calls the CLI makes
// around Signer.Sign, with the signature blob chosen by the harness.
func (d *drv) embed(in *fileRec, f []byte, mode string, blob []byte, h crypto.Hash, samePath, pageHash bool) (*embedRec, []byte) {
	er := &embedRec{T: "E", ID: d.id(), In: in.ID, Out: -1, Mode: mode, Hash: h.String(), SamePath: samePath, PageHash: pageHash}
	wd := filepath.Join(d.dir, "w")
	os.RemoveAll(wd)
	os.MkdirAll(wd, 0o755)
	src := filepath.Join(wd, "in.bin")
	if err := os.WriteFile(src, f, 0o644); err != nil {
		panic(err)
	}
	dest := src
	if !samePath {
		dest = filepath.Join(wd, "out.bin")
	}
	var patchBlob []byte
	fail := func(err error, pan bool) (*embedRec, []byte) {
		er.Cls = errClass(err)
		if pan {
			er.Cls = clsPanic
		}
		er.Err = err.Error()
		now, _ := os.ReadFile(src)
		er.InSame = bytes.Equal(now, f)
		er.TmpLeft = tmpLeft(wd)
		return er, nil
	}
	switch mode {
	case "raw", "signed":
		pd, err, pan := safeDigest(f, h, pageHash)
		if err != nil {
			return fail(err, pan)
		}
		if mode == "raw" {
			ps, err := pd.MakePatch(blob)
			if err != nil {
				return fail(err, false)
			}
			patchBlob = ps.Dump()
		} else {
			ps, ts, err := pd.Sign(context.Background(), d.cert, &authenticode.OpusParams{Description: "verif", URL: "http://example.invalid/"})
			if err != nil {
				return fail(err, false)
			}
			blob = ts.Raw
			patchBlob = ps.Dump()
		}
		infile, err := os.OpenFile(src, os.O_RDWR, 0)
		if err != nil {
			panic(err)
		}
		err = signers.ApplyBinPatch(infile, dest, bytes.NewReader(patchBlob))
		infile.Close()
		if err != nil {
			return fail(err, false)
		}
		ff, err := os.OpenFile(dest, os.O_RDWR, 0)
		if err != nil {
			panic(err)
		}
		err = authenticode.FixPEChecksum(ff)
		ff.Close()
		if err != nil {
			return fail(err, false)
		}
	case "pipeline":
		// the library calls of cmdline/token/signcmd.go, in order
		mod := signers.ByName("pe-coff")
		q := url.Values{}
		if pageHash {
			q.Set("page-hashes", "true")
		}
		flags, err := mod.FlagsFromQuery(q)
		if err != nil {
			panic(err)
		}
		opts := signers.SignOpts{Path: src, Hash: h, Time: time.Now(), Flags: flags, Audit: audit.New("verif", mod.Name, h)}
		var infile *os.File
		if samePath {
			infile, err = os.OpenFile(src, os.O_RDWR, 0)
		} else {
			infile, err = os.Open(src)
		}
		if err != nil {
			panic(err)
		}
		defer infile.Close()
		tr, err := mod.GetTransform(infile, opts)
		if err != nil {
			return fail(err, false)
		}
		stream, err := tr.GetReader()
		if err != nil {
			return fail(err, false)
		}
		var res []byte
		var pan bool
		func() {
			defer func() {
				if r := recover(); r != nil {
					err, pan = fmt.Errorf("panic: %v", r), true
				}
			}()
			res, err = mod.Sign(stream, d.cert, opts)
		}()
		if err != nil {
			return fail(err, pan)
		}
		if err := tr.Apply(dest, opts.Audit.GetMimeType(), bytes.NewReader(res)); err != nil {
			return fail(err, false)
		}
		ff, err := os.OpenFile(dest, os.O_RDWR, 0)
		if err != nil {
			panic(err)
		}
		err = mod.Fixup(ff)
		ff.Close()
		if err != nil {
			return fail(err, false)
		}
	}
	out, err := os.ReadFile(dest)
	if err != nil {
		panic(err)
	}
	if mode == "pipeline" {
		// recover the blob the real code embedded: the bytes of the single certificate entry it wrote
		if hv, err := authenticode.VerifFindSignatures(bytes.NewReader(out)); err == nil && hv.CertSize >= 8 && hv.CertStart+hv.CertSize <= int64(len(out)) {
			blob = out[hv.CertStart+8 : hv.CertStart+hv.CertSize]
		}
	}
	er.Blob = hex.EncodeToString(blob)
	now, _ := os.ReadFile(src)
	er.InSame = samePath || bytes.Equal(now, f)
	er.TmpLeft = tmpLeft(wd)
	return er, out
}

// chain: embed and observe the result; returns the output record and bytes
func (d *drv) embedObserve(in *fileRec, f []byte, mode string, blob []byte, h crypto.Hash, samePath, ph bool, kind string) (*fileRec, []byte) {
	er, out := d.embed(in, f, mode, blob, h, samePath, ph)
	if out == nil {
		d.c.Emit(er)
		return nil, nil
	}
	rec := d.observe(out, kind, in.Note, nil, nil, er.ID)
	er.Out = rec.ID
	d.c.Emit(er)
	return rec, out
}

func (d *drv) blobOfLen(n int) []byte {
	b := d.r.Bytes(n)
	if n > 0 && b[n-1] == 0 {
		b[n-1] = 0x5a // keep the padding boundary visible
	}
	return b
}

// full treatment of an input the real code accepts
func (d *drv) accepted(rec *fileRec, f []byte, heavy bool) {
	lens := []int{0, 1, 7, 8, 9, 15, 16, 17, 100, 257}
	b1 := d.blobOfLen(lens[d.r.Intn(len(lens))])
	g1rec, g1 := d.embedObserve(rec, f, "raw", b1, crypto.SHA256, d.r.Chance(50), false, "out-raw")
	if g1 == nil {
		return
	}
	// re-sign twice more (raw blobs of different sizes: larger, then smaller)
	b2 := d.blobOfLen(len(b1) + d.r.Pick(1, 8, 40))
	g2rec, g2 := d.embedObserve(g1rec, g1, "raw", b2, crypto.SHA1, d.r.Chance(50), false, "out-raw2")
	if g2 != nil && heavy {
		b3 := d.blobOfLen(d.r.Pick(0, 3, 8))
		d.embedObserve(g2rec, g2, "raw", b3, crypto.SHA256, true, false, "out-raw3")
	}
	if heavy {
		// real signatures with the functest key: sha256, then re-signed with sha1, then through the signers pipeline
		s1rec, s1 := d.embedObserve(rec, f, "signed", nil, crypto.SHA256, true, false, "out-signed")
		if s1 != nil {
			s2rec, s2 := d.embedObserve(s1rec, s1, "signed", nil, crypto.SHA1, false, false, "out-signed2")
			if s2 != nil {
				d.embedObserve(s2rec, s2, "pipeline", nil, crypto.SHA256, true, d.r.Chance(50), "out-pipeline")
			}
		}
	}
}

func (d *drv) refused(rec *fileRec, f []byte) {
	er, out := d.embed(rec, f, "pipeline", nil, crypto.SHA256, d.r.Chance(50), false)
	rr := &refuseRec{T: "R", ID: er.ID, In: rec.ID, Cls: er.Cls, Err: er.Err, InSame: er.InSame, TmpLeft: er.TmpLeft}
	if out != nil {
		rr.Cls = clsOK
	}
	d.c.Emit(rr)
}

func mutate(s *peSpec, f func(*peSpec)) *peSpec {
	c := *s
	c.Secs = append([]secSpec{}, s.Secs...)
	f(&c)
	return &c
}

func fixSecs(s *peSpec) {
	// freeze the pointers of a laid-out spec so that single fields can be perturbed
	for i := range s.Secs {
		s.Secs[i].Fix = true
	}
}

func init() {
	core.Register("fmtpe", func(c *core.Ctx) error {
		if c.Scratch == "" {
			return errors.New("fmtpe needs -scratch")
		}
		repo := os.Getenv("VERIF_REPO")
		if repo == "" {
			repo = "/repo"
		}
		cert, err := certloader.LoadX509KeyPair(filepath.Join(repo, "functest/testkeys/rsa2048.crt"), filepath.Join(repo, "functest/testkeys/rsa2048.key"))
		if err != nil {
			return err
		}
		d := &drv{c: c, r: &core.Rng{S: c.Seed ^ 0x9e5}, cert: cert, dir: c.Scratch}
		// ---- fixtures
		for _, name := range []string{"ClassLibrary1.dll", "WindowsFormsApplication1.exe"} {
			f, err := os.ReadFile(filepath.Join(repo, "functest/packages", name))
			if err != nil {
				return err
			}
			rec := d.observe(f, "fixture", name, nil, nil, -1)
			if rec.Dig.Cls == 0 {
				d.accepted(rec, f, true)
			}
		}
		// ---- generated, well-formed
		n := 140
		if c.Tier == "thorough" {
			n = 1500
		}
		if c.N > 0 {
			n = c.N
		}
		var realBlob []byte // one real signature blob, reused for generator-signed inputs
		for k := 0; k < n; k++ {
			s := randomSpec(d.r)
			f, lay := buildPE(d.r, s)
			rec := d.observe(f, "gen", "", s, lay, -1)
			if rec.Dig.Cls == 0 {
				d.accepted(rec, f, k%6 == 0)
			} else {
				d.refused(rec, f)
			}
			if realBlob == nil && rec.Dig.Cls == 0 {
				if pd, err, _ := safeDigest(f, crypto.SHA256, false); err == nil {
					if _, ts, err := pd.Sign(context.Background(), cert, nil); err == nil {
						realBlob = ts.Raw
					}
				}
			}
		}
		// ---- generated, already signed by the generator (certificate table written by the harness, not by relic)
		m := n / 3
		for k := 0; k < m; k++ {
			s := randomSpec(d.r)
			s.CertPad = -1
			switch k % 6 {
			case 0:
				s.Certs = [][]byte{d.blobOfLen(d.r.Pick(1, 8, 30, 64))}
			case 1:
				s.Certs = [][]byte{realBlob}
			case 2:
				s.Certs = [][]byte{d.blobOfLen(16), d.blobOfLen(9)}
			case 3:
				s.Certs = [][]byte{realBlob, realBlob}
			case 4:
				s.Certs = [][]byte{d.blobOfLen(24)}
				s.CertPad = d.r.Pick(0, 1, 3, 9) // table not 8-aligned / extra padding
			case 5:
				s.Certs = [][]byte{d.blobOfLen(12)}
				s.CertLenAdj = d.r.Pick(-4, -1, -9, 1, 8, 1000, -16)
			}
			f, lay := buildPE(d.r, s)
			rec := d.observe(f, "gen-signed", fmt.Sprintf("variant %d", k%6), s, lay, -1)
			if rec.Dig.Cls == 0 {
				d.accepted(rec, f, k%12 == 1)
			} else {
				d.refused(rec, f)
			}
		}
		// ---- malformed / boundary inputs: one defect each
		type defect struct {
			name string
			f    func(*core.Rng, *peSpec)
		}
		defects := []defect{
			{"nomz", func(r *core.Rng, s *peSpec) { s.NoMZ = true }},
			{"nope", func(r *core.Rng, s *peSpec) { s.NoPE = true }},
			{"badmagic", func(r *core.Rng, s *peSpec) { s.OptMagic = r.Pick(0x107, 0x10a, 0x20c, 1) }},
			{"numrva-small", func(r *core.Rng, s *peSpec) { s.NumRva = r.Pick(0, 1, 4) }},
			{"optsize-small", func(r *core.Rng, s *peSpec) {
				s.OptSize = r.Pick(0, 1, 2, 3, 96, 100, optMin(s.Plus)-1, optMin(s.Plus)-8)
			}},
			{"filealign0", func(r *core.Rng, s *peSpec) { s.FileAlign = 0 }},
			{"lfanew-small-peat64", func(r *core.Rng, s *peSpec) { s.Lfanew = r.Pick(0, 4, 16, 56, 63); s.PEAt64 = true }},
			{"lfanew-small", func(r *core.Rng, s *peSpec) { s.Lfanew = r.Pick(4, 16, 32) }},
			{"noncontig", func(r *core.Rng, s *peSpec) {
				if len(s.Secs) > 0 {
					i := r.Intn(len(s.Secs))
					s.Secs[i].Ptr += r.Pick(1, 8, 512, -1)
				}
			}},
			{"swapped", func(r *core.Rng, s *peSpec) {
				if len(s.Secs) > 1 {
					i := r.Intn(len(s.Secs) - 1)
					s.Secs[i], s.Secs[i+1] = s.Secs[i+1], s.Secs[i]
				}
			}},
			{"sec-in-table", func(r *core.Rng, s *peSpec) {
				if len(s.Secs) > 0 {
					s.Secs[0].Ptr = s.Lfanew + 24 + s.OptSize + r.Pick(0, 8, 39)
					if s.Secs[0].Size == 0 {
						s.Secs[0].Size = 1
					}
				}
			}},
			{"hdrsize-small", func(r *core.Rng, s *peSpec) {
				s.HdrSize = s.Lfanew + 24 + s.OptSize + 40*len(s.Secs) - r.Pick(1, 8, 40)
			}},
			{"hdrsize-past-section", func(r *core.Rng, s *peSpec) {
				s.HdrSize = alignUp(s.Lfanew+24+s.OptSize+40*len(s.Secs), s.FileAlign) + s.HdrExtra + r.Pick(1, 8, 64)
			}},
			{"trailing", func(r *core.Rng, s *peSpec) {
				s.Certs = [][]byte{{1, 2, 3, 4, 5, 6, 7, 8}}
				s.CertPad = -1
				s.Trailing = r.Pick(1, 8, 100)
			}},
			{"cert-overlaps", func(r *core.Rng, s *peSpec) {
				s.Certs = [][]byte{{1, 2, 3, 4, 5, 6, 7, 8}}
				s.CertPad = -1
				s.DDVaAdj = -r.Pick(8, 16, 40)
				s.DDSizeAdj = -s.DDVaAdj
				s.Overlay = 0
			}},
			{"cert-past-eof", func(r *core.Rng, s *peSpec) {
				s.Certs = [][]byte{{1, 2, 3, 4, 5, 6, 7, 8}}
				s.CertPad = -1
				s.DDSizeAdj = r.Pick(1, 8, 1000)
			}},
			{"cert-va-past-eof", func(r *core.Rng, s *peSpec) {
				s.Certs = [][]byte{{1, 2, 3, 4, 5, 6, 7, 8}}
				s.CertPad = -1
				s.DDVaAdj = r.Pick(24, 1000)
			}},
			{"cert-va-zero-size", func(r *core.Rng, s *peSpec) { s.DDVaAdj = r.Pick(1, 100, 100000) }},
			{"trunc-headers", func(r *core.Rng, s *peSpec) {
				s.Truncate = r.Pick(1, 2, 63, 64, s.Lfanew+3, s.Lfanew+4, s.Lfanew+23, s.Lfanew+24, s.Lfanew+25, s.Lfanew+24+s.OptSize-1, s.Lfanew+24+s.OptSize+1)
			}},
			{"trunc-body", func(r *core.Rng, s *peSpec) { s.Truncate = -1 }},
			{"lfanew-huge", func(r *core.Rng, s *peSpec) { s.Truncate = -2 }},
		}
		reps := 4
		if c.Tier == "thorough" {
			reps = 25
		}
		for _, df := range defects {
			for k := 0; k < reps; k++ {
				s := randomSpec(d.r)
				if df.name == "noncontig" || df.name == "swapped" || df.name == "sec-in-table" {
					for len(s.Secs) < 2 {
						s.Secs = append(s.Secs, secSpec{Size: s.FileAlign})
					}
					for i := range s.Secs {
						if s.Secs[i].Size == 0 {
							s.Secs[i].Size = s.FileAlign
							s.Secs[i].Fix = false
						}
					}
					buildPE(d.r, s) // lay out once to obtain pointers
					fixSecs(s)
				}
				df.f(d.r, s)
				tr := s.Truncate
				if tr < 0 {
					s.Truncate = 0
				}
				f, lay := buildPE(d.r, s)
				if tr == -1 { // cut inside the section data
					cut := lay.HdrEnd + d.r.Intn(len(f)-lay.HdrEnd+1)
					if cut >= len(f) {
						cut = len(f) - 1
					}
					f = f[:cut]
				}
				if tr == -2 {
					binary.LittleEndian.PutUint32(f[0x3c:], uint32(d.r.Pick(len(f), len(f)-3, len(f)+100, 0x7fffffff, 0xfffffff0)))
				}
				rec := d.observe(f, "bad-"+df.name, "", s, lay, -1)
				if rec.Dig.Cls == 0 {
					d.accepted(rec, f, false)
				} else {
					d.refused(rec, f)
				}
			}
		}
		// ---- hand-made boundary images
		//  (a) the checksum field exactly at an io.Copy chunk boundary (lfanew + 88 = 32768) and two bytes before it
		for _, lf := range []int{32768 - 88, 32768 - 88 - 2, 32768 - 88 - 4, 32768 - 88 + 2, 65536 - 88} {
			s := &peSpec{Plus: false, Lfanew: lf, Machine: 0x14c, OptSize: 224, NumRva: 16, FileAlign: 8, Secs: []secSpec{{Size: 16}}}
			f, lay := buildPE(d.r, s)
			rec := d.observe(f, "chunk-boundary", fmt.Sprintf("lfanew=%d", lf), s, lay, -1)
			if rec.Dig.Cls == 0 {
				d.embedObserve(rec, f, "raw", d.blobOfLen(8), crypto.SHA256, true, false, "out-raw")
			}
		}
		//  (b) odd lfanew
		for _, lf := range []int{65, 67, 129} {
			s := &peSpec{Plus: true, Lfanew: lf, Machine: 0x8664, OptSize: 240, NumRva: 16, FileAlign: 1, Secs: []secSpec{{Size: 5}}, Overlay: 3}
			f, lay := buildPE(d.r, s)
			rec := d.observe(f, "odd-lfanew", fmt.Sprintf("lfanew=%d", lf), s, lay, -1)
			if rec.Dig.Cls == 0 {
				d.embedObserve(rec, f, "raw", d.blobOfLen(5), crypto.SHA256, true, false, "out-raw")
			}
		}
		//  (c) lfanew < 64: DigestPE reads the NT headers sequentially at offset 64, VerifyPE seeks to lfanew
		for _, sh := range []bool{false, true} {
			for _, lf := range []int{16, 48} {
				s := &peSpec{Plus: false, Lfanew: lf, PEAt64: true, Shadow: sh, Machine: 0x14c, OptSize: 224, NumRva: 16, FileAlign: 8, Secs: []secSpec{{Size: 16}}, Overlay: 96}
				f, lay := buildPE(d.r, s)
				rec := d.observe(f, "lfanew-lt64", fmt.Sprintf("lfanew=%d shadow=%v", lf, sh), s, lay, -1)
				if rec.Dig.Cls == 0 {
					d.embedObserve(rec, f, "signed", nil, crypto.SHA256, true, false, "out-signed")
				}
			}
		}
		return nil
	})

	// mutation sweep: single-byte changes at every offset of small signed samples; the real verifier must reject every change
	// in a region the specification protects.
	core.Register("fmtpe-mut", func(c *core.Ctx) error {
		if c.Scratch == "" {
			return errors.New("fmtpe-mut needs -scratch")
		}
		repo := os.Getenv("VERIF_REPO")
		if repo == "" {
			repo = "/repo"
		}
		cert, err := certloader.LoadX509KeyPair(filepath.Join(repo, "functest/testkeys/rsa2048.crt"), filepath.Join(repo, "functest/testkeys/rsa2048.key"))
		if err != nil {
			return err
		}
		d := &drv{c: c, r: &core.Rng{S: c.Seed ^ 0x77}, cert: cert, dir: c.Scratch}
		type sample struct {
			name string
			f    []byte
		}
		var samples []sample
		s1 := &peSpec{Plus: false, Lfanew: 64, Machine: 0x14c, OptSize: 224, NumRva: 16, FileAlign: 8, Secs: []secSpec{{Size: 24}, {Size: 13}}, Overlay: 5}
		f1, _ := buildPE(d.r, s1)
		samples = append(samples, sample{"gen-pe32-unaligned", f1})
		s2 := &peSpec{Plus: true, Lfanew: 72, Machine: 0x8664, OptSize: 248, NumRva: 16, FileAlign: 16, AlignMid: true, Gap: 8, Secs: []secSpec{{Size: 9}, {Size: 0, Ptr: 7, Fix: true}, {Size: 32}}}
		f2, _ := buildPE(d.r, s2)
		samples = append(samples, sample{"gen-pe32plus-gap-alignedslots", f2})
		fx, err := os.ReadFile(filepath.Join(repo, "functest/packages/ClassLibrary1.dll"))
		if err != nil {
			return err
		}
		samples = append(samples, sample{"ClassLibrary1.dll", fx})
		if c.Tier == "thorough" {
			fy, err := os.ReadFile(filepath.Join(repo, "functest/packages/WindowsFormsApplication1.exe"))
			if err != nil {
				return err
			}
			samples = append(samples, sample{"WindowsFormsApplication1.exe", fy})
		}
		for _, sm := range samples {
			pd, err, _ := safeDigest(sm.f, crypto.SHA256, false)
			if err != nil {
				return fmt.Errorf("sample %s: %w", sm.name, err)
			}
			ps, _, err := pd.Sign(context.Background(), cert, nil)
			if err != nil {
				return err
			}
			wd := filepath.Join(d.dir, "m")
			os.RemoveAll(wd)
			os.MkdirAll(wd, 0o755)
			p := filepath.Join(wd, "in.bin")
			os.WriteFile(p, sm.f, 0o644)
			inf, _ := os.OpenFile(p, os.O_RDWR, 0)
			if err := signers.ApplyBinPatch(inf, p, bytes.NewReader(ps.Dump())); err != nil {
				return err
			}
			inf.Close()
			ff, _ := os.OpenFile(p, os.O_RDWR, 0)
			if err := authenticode.FixPEChecksum(ff); err != nil {
				return err
			}
			ff.Close()
			g, _ := os.ReadFile(p)
			if _, err := authenticode.VerifyPE(bytes.NewReader(g), false); err != nil {
				return fmt.Errorf("sample %s does not verify: %w", sm.name, err)
			}
			sp := specParse(g)
			if sp == nil {
				return fmt.Errorf("sample %s: spec reader cannot parse the signed image", sm.name)
			}
			// classification by the SPECIFICATION: protected = everything except checksum, directory entry 4, certificate table
			class := func(i int) string {
				switch {
				case i >= sp.Cksum && i < sp.Cksum+4:
					return "checksum"
				case i >= sp.DD4 && i < sp.DD4+8:
					return "dd4"
				case i >= sp.CertVA+sp.CertSize:
					return "after-table"
				case i >= sp.CertVA+8:
					return "sigblob"
				case i >= sp.CertVA:
					return "certhdr"
				}
				return "protected"
			}
			res := map[string]interface{}{"t": "M", "sample": sm.name, "file": hex.EncodeToString(g), "len": len(g),
				"cksum": sp.Cksum, "dd4": sp.DD4, "certva": sp.CertVA, "certsize": sp.CertSize}
			classIdx := map[string]int{"protected": 0, "checksum": 1, "dd4": 2, "certhdr": 3, "sigblob": 4, "after-table": 5}
			counts := map[string][2]int{} // class -> (rejected, accepted)
			var acceptedProtected []int
			acceptedOther := map[string][]int{}
			var mutants [][4]int // offset, xor, accepted, class  (a sample for the model)
			for i := 0; i < len(g); i++ {
				cl := class(i)
				xors := []byte{0x01}
				if len(g) < 2500 || cl != "protected" {
					xors = []byte{0x01, 0x80, 0xff}
				}
				for _, x := range xors {
					mg := append([]byte{}, g...)
					mg[i] ^= x
					var verr error
					func() {
						defer func() {
							if r := recover(); r != nil {
								verr = fmt.Errorf("panic: %v", r)
							}
						}()
						_, verr = authenticode.VerifyPE(bytes.NewReader(mg), false)
					}()
					cc := counts[cl]
					acc := 0
					if verr == nil {
						cc[1]++
						acc = 1
						if cl == "protected" {
							acceptedProtected = append(acceptedProtected, i)
						} else if len(acceptedOther[cl]) < 40 {
							acceptedOther[cl] = append(acceptedOther[cl], i)
						}
					} else {
						cc[0]++
					}
					counts[cl] = cc
					if len(g) < 2500 && x == 0x01 && (cl != "sigblob" || i%16 == 0) {
						mutants = append(mutants, [4]int{i, int(x), acc, classIdx[cl]})
					}
				}
			}
			// truncation and extension
			ext := 0
			for _, extra := range [][]byte{{0}, {0, 0, 0, 0, 0, 0, 0, 0}, {1}} {
				if _, err := authenticode.VerifyPE(bytes.NewReader(append(append([]byte{}, g...), extra...)), false); err == nil {
					ext++
				}
			}
			res["counts"], res["accepted_protected"], res["accepted_other"], res["mutants"], res["appended_accepted"] = counts, acceptedProtected, acceptedOther, mutants, ext
			c.Emit(res)
		}
		return nil
	})
}
