// Harness-owned writers for the two Apple container formats of unit FmtXAR.  Nothing here calls relic: the xar writer emits the
// header, a hand-built TOC document (compressed with the standard library's zlib) and the heap; the dmg writer emits data fork,
// property list, optional signature area and the 512-byte koly trailer from the published UDIF layout.
package fmtxar

import (
	"bytes"
	"compress/zlib"
	"crypto/md5"
	"crypto/sha1"
	"crypto/sha256"
	"crypto/sha512"
	"encoding/base64"
	"encoding/binary"
	"encoding/hex"
	"fmt"
	"hash"
	"strings"
)

// ---------------------------------------------------------------- xar

type xarEA struct {
	Name string
	Data []byte
}

type xarFile struct {
	Name    string
	Type    string // "file" | "directory"
	HasData bool
	Data    []byte // archived bytes stored in the heap
	Ck      string // archived-checksum: sha1 sha256 sha512 md5 | none (element absent) | wrong (digest of other bytes) | badhex
	EAs     []xarEA
	Kids    []*xarFile
	// layout overrides (-1: assigned by the writer)
	ForceOff int64
	LenDelta int64 // added to the length written into the TOC (malformed)
	OffText  string
	// assigned
	off   int64
	eaOff []int64
}

type xarSlot struct {
	Kind  string // "signature" | "x-signature"
	Style string
	Size  int64
	Fill  []byte // content of the slot (padded with zeros)
	Certs [][]byte
	// malformed knobs
	SizeText string // overrides <size> text
	OffDelta int64
	NoSize   bool
}

type xarSpec struct {
	HashType   uint32 // header cksum_alg: 1 sha1, 3 sha256, 4 sha512 (0, 2 and others: malformed / unsupported)
	HeaderSize int    // 28; larger values append zero bytes to the header
	Version    uint16
	CkStyle    string // style attribute of <checksum>; default from HashType
	CkSizeText string // override
	CkOffset   int64
	NoChecksum bool
	Slots      []xarSlot
	SlotsAtEnd bool   // place the signature slots behind the file data instead of behind the checksum
	SlotGap    int    // unreferenced bytes between the last slot and the first file
	FileGap    int    // unreferenced bytes between files
	Files      []*xarFile
	StrayData  bool   // a <data><offset> element outside any <file> (metadata some tools keep)
	Trailer    []byte // bytes behind the heap (stapled notarization ticket)
	Pretty     bool
	Level      int // zlib level
	// malformed knobs
	Magic      uint32
	CLenDelta  int64
	ULenDelta  int64
	TocSuffix  []byte // appended to the compressed TOC inside CompressedSize
	BadCkBytes bool   // checksum slot content does not match
	Truncate   int    // cut the file to this many bytes (0: no)
	RawTOC     []byte // use this TOC document verbatim
}

func hashByID(id uint32) hash.Hash {
	switch id {
	case 1:
		return sha1.New()
	case 2:
		return md5.New()
	case 3:
		return sha256.New()
	case 4:
		return sha512.New()
	}
	return nil
}

func hashByName(n string) hash.Hash {
	switch n {
	case "sha1":
		return sha1.New()
	case "sha256":
		return sha256.New()
	case "sha512":
		return sha512.New()
	case "md5":
		return md5.New()
	}
	return nil
}

func styleOf(id uint32) string {
	switch id {
	case 1:
		return "sha1"
	case 2:
		return "md5"
	case 3:
		return "sha256"
	case 4:
		return "sha512"
	}
	return "none"
}

func b64wrap(der []byte) string {
	s := base64.StdEncoding.EncodeToString(der)
	var b strings.Builder
	for len(s) > 72 {
		b.WriteString(s[:72])
		b.WriteByte('\n')
		s = s[72:]
	}
	b.WriteString(s)
	return b.String()
}

type xarOut struct {
	File  []byte
	TOC   []byte // uncompressed document
	ZTOC  []byte
	Heap  []byte
	CkOff int64
}

// writeXar lays the heap out (checksum, slots, file data) and emits the archive.
func writeXar(s *xarSpec) *xarOut {
	if s.HeaderSize == 0 {
		s.HeaderSize = 28
	}
	if s.Version == 0 {
		s.Version = 1
	}
	if s.Magic == 0 {
		s.Magic = 0x78617221
	}
	if s.Level == 0 {
		s.Level = 6
	}
	hs := 0
	if h := hashByID(s.HashType); h != nil {
		hs = h.Size()
	}
	var heap bytes.Buffer
	pad := func(n int) {
		for i := 0; i < n; i++ {
			heap.WriteByte(byte(0xe0 + i%16))
		}
	}
	ckOff := s.CkOffset
	heap.Write(make([]byte, hs)) // checksum written at the end
	slotOff := make([]int64, len(s.Slots))
	placeSlots := func() {
		for i := range s.Slots {
			slotOff[i] = int64(heap.Len())
			buf := make([]byte, s.Slots[i].Size)
			copy(buf, s.Slots[i].Fill)
			heap.Write(buf)
		}
	}
	if !s.SlotsAtEnd {
		placeSlots()
		pad(s.SlotGap)
	}
	var place func(fs []*xarFile)
	place = func(fs []*xarFile) {
		for _, f := range fs {
			if f.HasData {
				if f.ForceOff > 0 {
					f.off = f.ForceOff
				} else {
					f.off = int64(heap.Len())
					heap.Write(f.Data)
					pad(s.FileGap)
				}
			}
			f.eaOff = nil
			for _, ea := range f.EAs {
				f.eaOff = append(f.eaOff, int64(heap.Len()))
				heap.Write(ea.Data)
			}
			place(f.Kids)
		}
	}
	place(s.Files)
	if s.SlotsAtEnd {
		placeSlots()
	}
	// ---- TOC document
	var x strings.Builder
	ind := func(n int) string {
		if !s.Pretty {
			return ""
		}
		return "\n" + strings.Repeat(" ", n)
	}
	x.WriteString(`<?xml version="1.0" encoding="UTF-8"?>`)
	if s.Pretty {
		x.WriteString("\n")
	}
	x.WriteString("<xar>" + ind(1) + "<toc>")
	x.WriteString(ind(2) + "<creation-time>2024-01-02T03:04:05</creation-time>")
	if !s.NoChecksum {
		style := s.CkStyle
		if style == "" {
			style = styleOf(s.HashType)
		}
		size := fmt.Sprint(hs)
		if s.CkSizeText != "" {
			size = s.CkSizeText
		}
		x.WriteString(ind(2) + fmt.Sprintf(`<checksum style="%s">`, style) + ind(3) + fmt.Sprintf("<offset>%d</offset>", ckOff) + ind(3) + "<size>" + size + "</size>" + ind(2) + "</checksum>")
	}
	for i, sl := range s.Slots {
		x.WriteString(ind(2) + fmt.Sprintf(`<%s style="%s">`, sl.Kind, sl.Style))
		x.WriteString(ind(3) + fmt.Sprintf("<offset>%d</offset>", slotOff[i]+sl.OffDelta))
		if !sl.NoSize {
			st := fmt.Sprint(sl.Size)
			if sl.SizeText != "" {
				st = sl.SizeText
			}
			x.WriteString(ind(3) + "<size>" + st + "</size>")
		}
		if len(sl.Certs) > 0 {
			x.WriteString(ind(3) + `<KeyInfo xmlns="http://www.w3.org/2000/09/xmldsig#">` + ind(4) + "<X509Data>")
			for _, c := range sl.Certs {
				x.WriteString(ind(5) + "<X509Certificate>" + b64wrap(c) + "</X509Certificate>")
			}
			x.WriteString(ind(4) + "</X509Data>" + ind(3) + "</KeyInfo>")
		}
		x.WriteString(ind(2) + fmt.Sprintf("</%s>", sl.Kind))
	}
	if s.StrayData {
		x.WriteString(ind(2) + "<subdoc><data><offset>7</offset></data></subdoc>")
	}
	id := 0
	var emit func(fs []*xarFile, depth int)
	emit = func(fs []*xarFile, depth int) {
		for _, f := range fs {
			id++
			x.WriteString(ind(depth) + fmt.Sprintf(`<file id="%d">`, id))
			if f.HasData {
				var data []byte
				if f.off >= 0 && f.off+int64(len(f.Data)) <= int64(heap.Len()) {
					data = heap.Bytes()[f.off : f.off+int64(len(f.Data))]
				}
				x.WriteString(ind(depth+1) + "<data>")
				x.WriteString(ind(depth+2) + fmt.Sprintf("<length>%d</length>", int64(len(f.Data))+f.LenDelta))
				offText := fmt.Sprint(f.off)
				if f.OffText != "" {
					offText = f.OffText
				}
				x.WriteString(ind(depth+2) + "<offset>" + offText + "</offset>")
				x.WriteString(ind(depth+2) + fmt.Sprintf("<size>%d</size>", len(f.Data)))
				x.WriteString(ind(depth+2) + `<encoding style="application/octet-stream"/>`)
				ck := f.Ck
				if ck == "" {
					ck = "sha1"
				}
				switch ck {
				case "none":
				case "badhex":
					x.WriteString(ind(depth+2) + `<archived-checksum style="sha1">zz</archived-checksum>`)
				case "wrong":
					h := sha1.Sum(append([]byte{1}, data...))
					x.WriteString(ind(depth+2) + `<extracted-checksum style="sha1">` + hex.EncodeToString(h[:]) + `</extracted-checksum>`)
					x.WriteString(ind(depth+2) + `<archived-checksum style="sha1">` + hex.EncodeToString(h[:]) + `</archived-checksum>`)
				default:
					h := hashByName(ck)
					h.Write(data)
					d := hex.EncodeToString(h.Sum(nil))
					x.WriteString(ind(depth+2) + fmt.Sprintf(`<extracted-checksum style="%s">%s</extracted-checksum>`, ck, d))
					x.WriteString(ind(depth+2) + fmt.Sprintf(`<archived-checksum style="%s">%s</archived-checksum>`, ck, d))
				}
				x.WriteString(ind(depth+1) + "</data>")
			}
			for i, ea := range f.EAs {
				h := sha1.Sum(ea.Data)
				x.WriteString(ind(depth+1) + fmt.Sprintf(`<ea id="%d">`, i) + ind(depth+2) + "<name>" + ea.Name + "</name>" +
					ind(depth+2) + fmt.Sprintf("<offset>%d</offset>", f.eaOff[i]) + ind(depth+2) + fmt.Sprintf("<size>%d</size>", len(ea.Data)) +
					ind(depth+2) + fmt.Sprintf("<length>%d</length>", len(ea.Data)) + ind(depth+2) + `<encoding style="application/octet-stream"/>` +
					ind(depth+2) + `<archived-checksum style="sha1">` + hex.EncodeToString(h[:]) + `</archived-checksum>` + ind(depth+1) + "</ea>")
			}
			typ := f.Type
			if typ == "" {
				typ = "file"
			}
			x.WriteString(ind(depth+1) + "<type>" + typ + "</type>" + ind(depth+1) + "<name>" + f.Name + "</name>")
			emit(f.Kids, depth+1)
			x.WriteString(ind(depth) + "</file>")
		}
	}
	emit(s.Files, 2)
	x.WriteString(ind(1) + "</toc>")
	if s.Pretty {
		x.WriteString("\n")
	}
	x.WriteString("</xar>")
	if s.Pretty {
		x.WriteString("\n")
	}
	toc := []byte(x.String())
	if s.RawTOC != nil {
		toc = s.RawTOC
	}
	var zb bytes.Buffer
	zw, _ := zlib.NewWriterLevel(&zb, s.Level)
	zw.Write(toc)
	zw.Close()
	ztoc := append(zb.Bytes(), s.TocSuffix...)
	hb := heap.Bytes()
	if h := hashByID(s.HashType); h != nil && ckOff >= 0 && ckOff+int64(hs) <= int64(len(hb)) {
		h.Write(ztoc)
		sum := h.Sum(nil)
		if s.BadCkBytes {
			sum[0] ^= 0x40
		}
		copy(hb[ckOff:], sum)
	}
	var out bytes.Buffer
	hdr := make([]byte, 28)
	binary.BigEndian.PutUint32(hdr[0:], s.Magic)
	binary.BigEndian.PutUint16(hdr[4:], uint16(s.HeaderSize))
	binary.BigEndian.PutUint16(hdr[6:], s.Version)
	binary.BigEndian.PutUint64(hdr[8:], uint64(int64(len(ztoc))+s.CLenDelta))
	binary.BigEndian.PutUint64(hdr[16:], uint64(int64(len(toc))+s.ULenDelta))
	binary.BigEndian.PutUint32(hdr[24:], s.HashType)
	out.Write(hdr)
	if s.HeaderSize > 28 {
		out.Write(make([]byte, s.HeaderSize-28))
	}
	out.Write(ztoc)
	out.Write(hb)
	out.Write(s.Trailer)
	f := out.Bytes()
	if s.Truncate > 0 && s.Truncate < len(f) {
		f = f[:s.Truncate]
	}
	return &xarOut{File: f, TOC: toc, ZTOC: ztoc, Heap: hb, CkOff: ckOff}
}

// ---------------------------------------------------------------- dmg (UDIF)

type dmgSpec struct {
	Data     []byte
	XML      []byte
	XMLFirst bool   // property list in front of the data fork
	Gap      []byte // bytes between the end of data fork / property list and the signature area or trailer
	Sig      []byte // existing signature area (foreign blob)
	SigGap   int    // SignatureOffset is moved this many bytes behind the bundle end (gap in front of the signature)
	Tail     []byte // bytes between signature area and trailer
	// trailer fields
	Version, HeaderSize, Flags uint32
	Running                    int64
	RsrcOff, RsrcLen           int64
	SegNum, SegCount           uint32
	SegID                      [4]uint32
	DataCk, MasterCk           [34]uint32 // type, size, 32 words
	Variant                    uint32
	Sectors                    int64
	Reserved1                  []byte // 64 bytes at 232
	Reserved2                  []byte // 40 bytes at 312
	Reserved3                  []byte // 12 bytes at 500
	// overrides (applied when the matching *Set flag is true)
	Magic                                    uint32
	XMLOffSet, XMLLenSet, SigOffSet, SigLenSet bool
	XMLOff, XMLLen, SigOff, SigLen             int64
	DataOffDelta                               int64
	ShortTrailer                               int // emit only this many trailer bytes (malformed)
}

// koly: the UDIF resource file trailer, field offsets from the published layout
func kolyBytes(s *dmgSpec, dataOff, dataLen, xmlOff, xmlLen, sigOff, sigLen int64) []byte {
	k := make([]byte, 512)
	be := binary.BigEndian
	magic := s.Magic
	if magic == 0 {
		magic = 0x6b6f6c79
	}
	be.PutUint32(k[0:], magic)
	be.PutUint32(k[4:], s.Version)
	be.PutUint32(k[8:], s.HeaderSize)
	be.PutUint32(k[12:], s.Flags)
	be.PutUint64(k[16:], uint64(s.Running))
	be.PutUint64(k[24:], uint64(dataOff+s.DataOffDelta))
	be.PutUint64(k[32:], uint64(dataLen))
	be.PutUint64(k[40:], uint64(s.RsrcOff))
	be.PutUint64(k[48:], uint64(s.RsrcLen))
	be.PutUint32(k[56:], s.SegNum)
	be.PutUint32(k[60:], s.SegCount)
	for i, w := range s.SegID {
		be.PutUint32(k[64+4*i:], w)
	}
	for i, w := range s.DataCk {
		be.PutUint32(k[80+4*i:], w)
	}
	be.PutUint64(k[216:], uint64(xmlOff))
	be.PutUint64(k[224:], uint64(xmlLen))
	copy(k[232:296], s.Reserved1)
	be.PutUint64(k[296:], uint64(sigOff))
	be.PutUint64(k[304:], uint64(sigLen))
	copy(k[312:352], s.Reserved2)
	for i, w := range s.MasterCk {
		be.PutUint32(k[352+4*i:], w)
	}
	be.PutUint32(k[488:], s.Variant)
	be.PutUint64(k[492:], uint64(s.Sectors))
	copy(k[500:512], s.Reserved3)
	return k
}

type dmgOut struct {
	File   []byte
	Bundle int64 // end of data fork and property list
}

func writeDmg(s *dmgSpec) *dmgOut {
	var b bytes.Buffer
	var dataOff, xmlOff int64
	if s.XMLFirst {
		xmlOff = 0
		b.Write(s.XML)
		dataOff = int64(b.Len())
		b.Write(s.Data)
	} else {
		b.Write(s.Data)
		xmlOff = int64(b.Len())
		b.Write(s.XML)
	}
	bundle := int64(b.Len())
	b.Write(s.Gap)
	var sigOff, sigLen int64
	if s.Sig != nil {
		b.Write(make([]byte, s.SigGap))
		sigOff, sigLen = int64(b.Len()), int64(len(s.Sig))
		b.Write(s.Sig)
	}
	b.Write(s.Tail)
	xo, xl := xmlOff, int64(len(s.XML))
	if s.XMLOffSet {
		xo = s.XMLOff
	}
	if s.XMLLenSet {
		xl = s.XMLLen
	}
	if s.SigOffSet {
		sigOff = s.SigOff
	}
	if s.SigLenSet {
		sigLen = s.SigLen
	}
	k := kolyBytes(s, dataOff, int64(len(s.Data)), xo, xl, sigOff, sigLen)
	if s.ShortTrailer > 0 {
		k = k[:s.ShortTrailer]
	}
	b.Write(k)
	return &dmgOut{File: b.Bytes(), Bundle: bundle}
}
