// Package fmtxar: correspondence driver of format unit FmtXAR — Apple flat packages (xar) and disk images (dmg / UDIF).
// Runs the REAL relic code (lib/fruit/xar, lib/fruit/dmg, signers/xar, signers/dmg) on archives and images produced by the
// harness-owned writers of gen.go and on the fixtures dummy.pkg / dummy.dmg, and prints one JSON object per observation.
// All judgement happens in checks/fmtxar.py (specification readers written there) and in the Coq model.
package fmtxar

import (
	"bytes"
	"compress/zlib"
	"context"
	"crypto"
	"crypto/ecdsa"
	"crypto/elliptic"
	"crypto/rand"
	"crypto/rsa"
	"crypto/x509"
	"crypto/x509/pkix"
	"encoding/hex"
	"fmt"
	"io"
	"math/big"
	"net/url"
	"os"
	"path/filepath"
	"regexp"
	"runtime"
	"strings"
	"time"

	"github.com/sassoftware/relic/v8/lib/audit"
	"github.com/sassoftware/relic/v8/lib/binpatch"
	"github.com/sassoftware/relic/v8/lib/certloader"
	"github.com/sassoftware/relic/v8/lib/fruit/csblob"
	"github.com/sassoftware/relic/v8/lib/fruit/dmg"
	"github.com/sassoftware/relic/v8/lib/fruit/xar"
	"github.com/sassoftware/relic/v8/signers"
	_ "github.com/sassoftware/relic/v8/signers/dmg"
	_ "github.com/sassoftware/relic/v8/signers/xar"
	"github.com/sassoftware/relic/v8/verifharness/core"
)

const repoDefault = "/repo"

func repoDir() string {
	if r := os.Getenv("VERIF_REPO"); r != "" {
		return r
	}
	return repoDefault
}

type rec map[string]interface{}

type keyT struct {
	name string
	cert *certloader.Certificate
	pool *x509.CertPool
}

type drv struct {
	c     *core.Ctx
	r     *core.Rng
	keys  map[string]*keyT
	dir   string
	nextF int
	nwd   int
}

func hx(b []byte) string { return hex.EncodeToString(b) }

func guard(f func() error) (err error, pan bool) {
	defer func() {
		if r := recover(); r != nil {
			err, pan = fmt.Errorf("panic: %v", r), true
		}
	}()
	return f(), false
}

func cut(s string) string {
	if len(s) > 240 {
		return s[:240]
	}
	return s
}

func st(err error, pan bool) string {
	if pan {
		return "panic"
	}
	if err != nil {
		return "err"
	}
	return "ok"
}

func hashOf(n string) crypto.Hash {
	switch n {
	case "sha1":
		return crypto.SHA1
	case "sha256":
		return crypto.SHA256
	case "sha384":
		return crypto.SHA384
	case "sha512":
		return crypto.SHA512
	case "md5":
		return crypto.MD5
	}
	return crypto.SHA256
}

// ---------------------------------------------------------------- keys (standard library only)

func selfSigned(cn string, key crypto.Signer, parent *x509.Certificate, parentKey crypto.Signer, ca bool, serial int64, extra int) *x509.Certificate {
	tpl := &x509.Certificate{SerialNumber: big.NewInt(serial), Subject: pkix.Name{CommonName: cn, Organization: []string{strings.Repeat("o", extra)}},
		NotBefore: time.Now().Add(-time.Hour), NotAfter: time.Now().Add(24 * time.Hour), KeyUsage: x509.KeyUsageDigitalSignature | x509.KeyUsageCertSign,
		ExtKeyUsage: []x509.ExtKeyUsage{x509.ExtKeyUsageCodeSigning}, BasicConstraintsValid: true, IsCA: ca}
	p, pk := tpl, key
	if parent != nil {
		p, pk = parent, parentKey
	}
	der, err := x509.CreateCertificate(rand.Reader, tpl, p, key.Public(), pk)
	if err != nil {
		panic(err)
	}
	c, err := x509.ParseCertificate(der)
	if err != nil {
		panic(err)
	}
	return c
}

func (d *drv) loadKeys() error {
	kd := filepath.Join(repoDir(), "functest/testkeys")
	c, err := certloader.LoadX509KeyPair(filepath.Join(kd, "rsa2048.crt"), filepath.Join(kd, "rsa2048.key"))
	if err != nil {
		return err
	}
	pool := x509.NewCertPool()
	pool.AddCert(c.Leaf)
	d.keys = map[string]*keyT{"rsa2048": {"rsa2048", c, pool}}
	// ECDSA leaf under an RSA CA: no classic signature slot, two certificates in the chain
	caKey, err := rsa.GenerateKey(rand.Reader, 2048)
	if err != nil {
		return err
	}
	ca := selfSigned("verif xar CA", caKey, nil, nil, true, 1, 3)
	ecKey, err := ecdsa.GenerateKey(elliptic.P256(), rand.Reader)
	if err != nil {
		return err
	}
	leaf := selfSigned("verif xar EC leaf", ecKey, ca, caKey, false, 2, 40)
	p2 := x509.NewCertPool()
	p2.AddCert(ca)
	d.keys["ec256"] = &keyT{"ec256", &certloader.Certificate{Leaf: leaf, Certificates: []*x509.Certificate{leaf, ca}, PrivateKey: ecKey}, p2}
	// RSA leaf of another size under the same CA (classic slot of 384 bytes)
	k3, err := rsa.GenerateKey(rand.Reader, 3072)
	if err != nil {
		return err
	}
	leaf3 := selfSigned("verif xar RSA3072 leaf", k3, ca, caKey, false, 3, 1)
	d.keys["rsa3072"] = &keyT{"rsa3072", &certloader.Certificate{Leaf: leaf3, Certificates: []*x509.Certificate{leaf3, ca}, PrivateKey: k3}, p2}
	for _, n := range []string{"rsa2048", "ec256", "rsa3072"} {
		k := d.keys[n]
		kr := rec{"t": "key", "name": n, "certs": []string{}, "classic": 0}
		var cl []string
		for _, c := range k.cert.Certificates {
			cl = append(cl, hx(c.Raw))
		}
		kr["certs"] = cl
		if pk, ok := k.cert.Leaf.PublicKey.(*rsa.PublicKey); ok {
			kr["classic"] = pk.Size()
			kr["n"] = pk.N.String()
			kr["e"] = pk.E
		}
		d.c.Emit(kr)
	}
	return nil
}

func (d *drv) workdir() string {
	d.nwd++
	wd := filepath.Join(d.dir, fmt.Sprintf("w%05d", d.nwd))
	os.MkdirAll(wd, 0o755)
	return wd
}

func (d *drv) file(format, kind string, b []byte) int {
	id := d.nextF
	d.nextF++
	d.c.Emit(rec{"t": "file", "id": id, "fmt": format, "kind": kind, "hex": hx(b)})
	return id
}

// ---------------------------------------------------------------- xar: header parser

func (d *drv) xarHeaderCases() {
	r := d.r
	emit := func(kind string, b []byte) {
		var h xar.VerifHeader
		var hf crypto.Hash
		err, pan := guard(func() (e error) { h, hf, e = xar.VerifParseHeader(b); return })
		o := rec{"t": "xhdr", "kind": kind, "in": hx(b), "st": st(err, pan), "hash": int(hf),
			"f": []int64{int64(h.Magic), int64(h.HeaderSize), int64(h.Version), h.CompressedSize, h.UncompressedSize, int64(h.HashType)}}
		if err != nil {
			o["err"] = cut(err.Error())
		}
		d.c.Emit(o)
	}
	mk := func(magic uint32, hs, ver uint16, cl, ul uint64, ht uint32) []byte {
		b := make([]byte, 28)
		b[0], b[1], b[2], b[3] = byte(magic>>24), byte(magic>>16), byte(magic>>8), byte(magic)
		b[4], b[5], b[6], b[7] = byte(hs>>8), byte(hs), byte(ver>>8), byte(ver)
		for i := 0; i < 8; i++ {
			b[8+i] = byte(cl >> uint(56-8*i))
			b[16+i] = byte(ul >> uint(56-8*i))
		}
		b[24], b[25], b[26], b[27] = byte(ht>>24), byte(ht>>16), byte(ht>>8), byte(ht)
		return b
	}
	edge := []uint64{0, 1, 27, 28, 255, 256, 65535, 1000000, 1000001, 10000000, 10000001, 1<<31 - 1, 1 << 31, 1<<32 - 1, 1 << 32, 1<<63 - 1, 1 << 63, 1<<64 - 1}
	for _, ht := range []uint32{0, 1, 2, 3, 4, 5, 0x100, 0x01000000, 0xffffffff} {
		emit("hashtype", mk(0x78617221, 28, 1, 906, 3057, ht))
	}
	for _, v := range []uint16{0, 1, 2, 0x100, 0xffff} {
		emit("version", mk(0x78617221, 28, v, 5, 6, 1))
	}
	for _, m := range []uint32{0x78617221, 0x21726178, 0x78617220, 0, 0xffffffff} {
		emit("magic", mk(m, 28, 1, 5, 6, 3))
	}
	for _, hs := range []uint16{0, 1, 27, 28, 29, 32, 0xffff} {
		emit("hsize", mk(0x78617221, hs, 1, 5, 6, 3))
	}
	for _, cl := range edge {
		emit("clen", mk(0x78617221, 28, 1, cl, 7, 4))
		emit("ulen", mk(0x78617221, 28, 1, 9, cl, 1))
	}
	for i := 0; i < 60; i++ {
		b := r.Bytes(28)
		if r.Chance(70) {
			copy(b, []byte{0x78, 0x61, 0x72, 0x21})
		}
		if r.Chance(60) {
			b[6], b[7] = 0, 1
		}
		if r.Chance(60) {
			b[24], b[25], b[26], b[27] = 0, 0, 0, byte(r.Pick(1, 3, 4, 1, 3, 4, 0, 2, 5))
		}
		emit("random", b)
	}
	full := mk(0x78617221, 28, 1, 5, 6, 3)
	for n := 0; n <= 30; n++ {
		if n <= 28 {
			emit("short", full[:n])
		} else {
			emit("long", append(append([]byte{}, full...), make([]byte, n-28)...))
		}
	}
}

// ---------------------------------------------------------------- xar: sign / verify

type xsignOut struct {
	out   []byte
	newB  []byte
	patch [3]int64
	ok    bool
}

func refSplice(f []byte, off, old int64, nb []byte) []byte {
	if off < 0 || old < 0 || off+old > int64(len(f)) {
		return nil
	}
	out := append([]byte{}, f[:off]...)
	out = append(out, nb...)
	return append(out, f[off+old:]...)
}

func (d *drv) xarSign(inID int, in []byte, key, hname, mode string, round int, kind string) (int, []byte) {
	k := d.keys[key]
	o := rec{"t": "xsign", "in": inID, "key": key, "hash": hname, "mode": mode, "round": round, "kind": kind, "out": -1}
	var out []byte
	if mode == "lib" {
		var ps *binpatch.PatchSet
		err, pan := guard(func() (e error) {
			ps, _, e = xar.Sign(context.Background(), bytes.NewReader(in), k.cert, hashOf(hname))
			return
		})
		o["st"] = st(err, pan)
		if err != nil {
			o["err"] = cut(err.Error())
		} else {
			var pl [][3]int64
			for _, ph := range ps.Patches {
				pl = append(pl, [3]int64{ph.Offset, int64(ph.OldSize), int64(ph.NewSize)})
			}
			o["patches"] = pl
			if len(ps.Patches) == 1 {
				o["new"] = hx(ps.Blobs[0])
				out = refSplice(in, ps.Patches[0].Offset, int64(ps.Patches[0].OldSize), ps.Blobs[0])
				if out == nil {
					o["st"], o["err"] = "err", "harness: patch range outside the input"
				}
			}
		}
	} else {
		wd := d.workdir()
		defer os.RemoveAll(wd)
		src, dest := filepath.Join(wd, "in.pkg"), filepath.Join(wd, "out.pkg")
		same := round%2 == 1
		if same {
			dest = src
		}
		o["same_path"] = same
		os.WriteFile(src, in, 0o644)
		mod := signers.ByName("xar")
		flags, _ := mod.FlagsFromQuery(url.Values{})
		h := hashOf(hname)
		opts := signers.SignOpts{Path: src, Hash: h, Time: time.Now(), Flags: flags, Audit: audit.New("verif", mod.Name, h)}
		fh, _ := os.OpenFile(src, os.O_RDWR, 0)
		defer fh.Close()
		err, pan := guard(func() error {
			tr, e := mod.GetTransform(fh, opts)
			if e != nil {
				return e
			}
			stream, e := tr.GetReader()
			if e != nil {
				return e
			}
			res, e := mod.Sign(stream, k.cert, opts)
			if e != nil {
				return e
			}
			if p, e2 := binpatch.Load(res); e2 == nil {
				var pl [][3]int64
				for _, ph := range p.Patches {
					pl = append(pl, [3]int64{ph.Offset, int64(ph.OldSize), int64(ph.NewSize)})
				}
				o["patches"] = pl
				if len(p.Blobs) == 1 {
					o["new"] = hx(p.Blobs[0])
				}
			}
			return tr.Apply(dest, opts.Audit.GetMimeType(), bytes.NewReader(res))
		})
		o["st"] = st(err, pan)
		now, _ := os.ReadFile(src)
		if err != nil {
			o["err"] = cut(err.Error())
			o["input_untouched"] = bytes.Equal(now, in)
		} else {
			out, _ = os.ReadFile(dest)
			o["input_untouched"] = same || bytes.Equal(now, in)
		}
	}
	outID := -1
	if out != nil {
		outID = d.file("xar", kind+"+signed", out)
		o["out"] = outID
	}
	d.c.Emit(o)
	return outID, out
}

func (d *drv) xarVerify(fileID int, f []byte, key string, what string, extra rec) bool {
	o := rec{"t": "xver", "file": fileID, "what": what}
	for k, v := range extra {
		o[k] = v
	}
	var x *xar.XAR
	var m0, m1 runtime.MemStats
	wd := d.workdir()
	defer os.RemoveAll(wd)
	fp := filepath.Join(wd, "v.pkg")
	os.WriteFile(fp, f, 0o644)
	fh, _ := os.Open(fp)
	defer fh.Close()
	runtime.ReadMemStats(&m0)
	err, pan := guard(func() (e error) { x, e = xar.Open(fh, int64(len(f))); return })
	runtime.ReadMemStats(&m1)
	o["open_alloc"] = int64(m1.TotalAlloc - m0.TotalAlloc)
	o["open"] = st(err, pan)
	accepted := false
	if err != nil {
		o["open_err"] = cut(err.Error())
	} else {
		o["tochash"] = hx(x.TOCHash)
		o["hashfunc"] = int(x.HashFunc)
		o["classic"] = hx(x.ClassicSignature)
		o["cms"] = hx(x.CMSSignature)
		o["has_classic"] = x.ClassicSignature != nil
		o["has_cms"] = x.CMSSignature != nil
		o["ncerts"] = len(x.Certificates)
		o["notary"] = len(x.NotaryTicket)
		o["last_offset"] = x.VerifLastOffset()
		o["checked"] = x.VerifCheckedFiles()
		var sig *xar.Signature
		err, pan := guard(func() (e error) { sig, e = x.Verify(false); return })
		o["verify"] = st(err, pan)
		if err != nil {
			o["verify_err"] = cut(err.Error())
			_, o["notsigned"] = err.(interface{ NotSigned() })
			if strings.Contains(err.Error(), "does not contain a signature") || strings.Contains(fmt.Sprintf("%T", err), "NotSigned") {
				o["notsigned"] = true
			}
		} else {
			o["sig_hash"] = int(sig.HashFunc)
			o["leaf"] = hx(sig.Signature.Certificate.Raw)
			cerr := fmt.Errorf("no key")
			if k := d.keys[key]; k != nil {
				cerr = sig.Signature.VerifyChain(k.pool, nil, x509.ExtKeyUsageAny)
			}
			if cerr != nil {
				o["chain_err"] = cut(cerr.Error())
			} else {
				accepted = true
			}
		}
		// the no-digests probe (is-signed / relic verify --no-integrity-check)
		err, pan = guard(func() (e error) { _, e = x.Verify(true); return })
		o["verify_nodigest"] = st(err, pan)
	}
	o["accepted"] = accepted
	d.c.Emit(o)
	return accepted
}

var reData = regexp.MustCompile(`(?s)<data>(.*?)</data>`)
var reOff = regexp.MustCompile(`<offset>(-?\d+)</offset>`)
var reLen = regexp.MustCompile(`<length>(-?\d+)</length>`)
var reSize = regexp.MustCompile(`<size>(-?\d+)</size>`)
var reCk = regexp.MustCompile(`<archived-checksum style="([a-z0-9]+)">([0-9a-fA-F]*)</archived-checksum>`)

func atoi(s string) int64 {
	var n int64
	fmt.Sscan(s, &n)
	return n
}

func splitXar(f []byte) (hdr, ztoc, heap, toc []byte, ok bool) {
	if len(f) < 28 {
		return
	}
	hs := int64(f[4])<<8 | int64(f[5])
	var cl int64
	for i := 0; i < 8; i++ {
		cl = cl<<8 | int64(f[8+i])
	}
	if hs < 28 || cl < 0 || hs+cl > int64(len(f)) {
		return
	}
	hdr, ztoc, heap = f[:hs], f[hs:hs+cl], f[hs+cl:]
	zr, err := zlib.NewReader(bytes.NewReader(ztoc))
	if err != nil {
		return
	}
	toc, err = io.ReadAll(zr)
	return hdr, ztoc, heap, toc, err == nil
}

func joinXar(hdr []byte, toc []byte, heap []byte, hashID byte, ckOff int64) []byte {
	var zb bytes.Buffer
	zw := zlib.NewWriter(&zb)
	zw.Write(toc)
	zw.Close()
	ztoc := zb.Bytes()
	h := append([]byte{}, hdr...)
	for i := 0; i < 8; i++ {
		h[8+i] = byte(uint64(len(ztoc)) >> uint(56-8*i))
		h[16+i] = byte(uint64(len(toc)) >> uint(56-8*i))
	}
	hp := append([]byte{}, heap...)
	if hh := hashByID(uint32(hashID)); hh != nil && ckOff >= 0 {
		hh.Write(ztoc)
		copy(hp[ckOff:], hh.Sum(nil))
	}
	return append(append(h, ztoc...), hp...)
}

// slotOf finds offset and size of a direct signature element of the TOC text
func slotOf(toc string, tag string) (off, size int64, ok bool) {
	i := strings.Index(toc, "<"+tag+" ")
	if i < 0 {
		return
	}
	j := strings.Index(toc[i:], "</"+tag+">")
	if j < 0 {
		return
	}
	seg := toc[i : i+j]
	if k := strings.Index(seg, "<KeyInfo"); k >= 0 {
		seg = seg[:k]
	}
	mo, ms := reOff.FindStringSubmatch(seg), reSize.FindStringSubmatch(seg)
	if mo == nil || ms == nil {
		return
	}
	return atoi(mo[1]), atoi(ms[1]), true
}

// xarMutants: byte level and semantic changes of a signed archive; the check decides with its own reader which of them alter
// protected content.  Every mutant is run through the real Open + Verify + chain check.
func (d *drv) xarMutants(signedID int, g []byte, key string, full bool) {
	hdr, ztoc, heap, tocB, ok := splitXar(g)
	if !ok {
		return
	}
	toc := string(tocB)
	flip := func(what string, pos int64, mask byte) {
		if pos < 0 || pos >= int64(len(g)) {
			return
		}
		m := append([]byte{}, g...)
		m[pos] ^= mask
		d.xarVerify(-1, m, key, "mutant", rec{"base": signedID, "mut": what, "pos": pos, "mask": int(mask)})
	}
	base := int64(len(hdr) + len(ztoc))
	// header fields
	for _, p := range []int64{5, 7, 15, 23, 27} {
		flip("header", p, 1)
	}
	// compressed TOC
	for _, p := range []int64{int64(len(hdr)) + 2, int64(len(hdr)) + int64(len(ztoc))/2, base - 1} {
		flip("ztoc", p, 0x10)
	}
	// checksum slot, classic signature, CMS, padding of the CMS slot
	if o, s, ok := slotOf(toc, "checksum"); ok {
		flip("checksum", base+o, 1)
		flip("checksum", base+o+s-1, 0x80)
	}
	if o, s, ok := slotOf(toc, "signature"); ok {
		flip("classic-signature", base+o+s/2, 1)
	}
	if o, s, ok := slotOf(toc, "x-signature"); ok {
		if ln := derLen(heap[o:]); ln > 0 {
			flip("cms-signature-value", base+o+int64(ln)-3, 4)
			flip("cms-interior", base+o+int64(ln)/2, 2)
			if int64(ln)+5 < s {
				flip("cms-slot-padding", base+o+int64(ln)+4, 0xff)
				flip("cms-slot-padding", base+o+s-1, 1)
			}
		}
	}
	// file data: first, middle, last byte of every data block
	n := 0
	for _, m := range reData.FindAllStringSubmatch(toc, -1) {
		mo, ml := reOff.FindStringSubmatch(m[1]), reLen.FindStringSubmatch(m[1])
		if mo == nil || ml == nil {
			continue
		}
		o, l := atoi(mo[1]), atoi(ml[1])
		if l <= 0 {
			continue
		}
		n++
		if !full && n > 3 {
			break
		}
		flip("file-data", base+o, 1)
		flip("file-data", base+o+l/2, 0x20)
		flip("file-data", base+o+l-1, 0x80)
	}
	// appended bytes (behind the heap: where a notarization ticket is stapled)
	d.xarVerify(-1, append(append([]byte{}, g...), []byte("TRAILING")...), key, "mutant", rec{"base": signedID, "mut": "append", "hex": hx([]byte("TRAILING"))})
	// ---- semantic mutants (TOC document changed, recompressed, checksum slot recomputed)
	ckOff, _, ckOK := slotOf(toc, "checksum")
	if !ckOK {
		return
	}
	hashID := hdr[27]
	sem := func(what string, newToc string, newHeap []byte) {
		m := joinXar(hdr, []byte(newToc), newHeap, hashID, ckOff)
		id := d.file("xar", "mutant:"+what, m)
		d.xarVerify(id, m, key, "mutant", rec{"base": signedID, "mut": what})
	}
	if i := strings.Index(toc, "<name>"); i >= 0 {
		sem("toc-rename", toc[:i+6]+"X"+toc[i+6:], heap)
	}
	sem("toc-creation-time", strings.Replace(toc, "<creation-time>", "<creation-time>1", 1), heap)
	if i := strings.Index(toc, "</toc>"); i >= 0 {
		sem("toc-insert-file", toc[:i]+`<file id="9999"><type>file</type><name>added</name></file>`+toc[i:], heap)
	}
	// delete the last top level file element that has no nested file
	if i := strings.LastIndex(toc, "<file "); i >= 0 {
		if j := strings.Index(toc[i:], "</file>"); j >= 0 {
			sem("toc-delete-file", toc[:i]+toc[i+j+7:], heap)
		}
	}
	// flip a payload byte and repair the archived checksum in the TOC; variant: + the original TOC hash attached to the CMS
	for _, m := range reData.FindAllStringSubmatchIndex(toc, -1) {
		seg := toc[m[2]:m[3]]
		mo, ml, mc := reOff.FindStringSubmatch(seg), reLen.FindStringSubmatch(seg), reCk.FindStringSubmatchIndex(seg)
		if mo == nil || ml == nil || mc == nil {
			continue
		}
		o, l := atoi(mo[1]), atoi(ml[1])
		style := seg[mc[2]:mc[3]]
		hh := hashByName(style)
		if l <= 0 || hh == nil || o < 0 || o+l > int64(len(heap)) {
			continue
		}
		nh := append([]byte{}, heap...)
		nh[o+l/2] ^= 1
		hh.Write(nh[o : o+l])
		nseg := seg[:mc[4]] + hex.EncodeToString(hh.Sum(nil)) + seg[mc[5]:]
		// the extracted checksum equals the archived one for stored members written by the harness: keep them in step
		ntoc := toc[:m[2]] + nseg + toc[m[3]:]
		sem("data+archived-checksum", ntoc, nh)
		// attach the ORIGINAL signed TOC hash to the CMS as encapsulated content (the signature value does not cover eContent)
		if xo, xs, ok := slotOf(toc, "x-signature"); ok && xo >= 0 && xo+xs <= int64(len(heap)) {
			oh := hashByID(uint32(hashID))
			oh.Write(ztoc)
			if ln := derLen(heap[xo:]); ln > 0 && int64(ln) <= xs {
				if att, err := cmsAttach(heap[xo:xo+int64(ln)], oh.Sum(nil)); err == nil && int64(len(att)) <= xs {
					nh2 := append([]byte{}, nh...)
					for i := xo; i < xo+xs; i++ {
						nh2[i] = 0
					}
					copy(nh2[xo:], att)
					sem("data+archived-checksum+cms-attached-old-hash", ntoc, nh2)
					// control: the attached content alone (nothing else changed) must stay acceptable or be rejected, never matter
					nh3 := append([]byte{}, heap...)
					for i := xo; i < xo+xs; i++ {
						nh3[i] = 0
					}
					copy(nh3[xo:], att)
					sem("cms-attached-same-hash", toc, nh3)
				} else if err != nil {
					d.c.Emit(rec{"t": "note", "what": "cms-attach-failed", "err": err.Error()})
				}
			}
		}
		break
	}
	// swap the checksum style attribute (sha1 <-> sha256) without touching anything else
	if strings.Contains(toc, `<checksum style="sha256">`) {
		sem("toc-checksum-style", strings.Replace(toc, `<checksum style="sha256">`, `<checksum style="sha1">`, 1), heap)
	}
	// remove the CMS element: the classic signature alone is then what the verifier has
	if i := strings.Index(toc, "<x-signature "); i >= 0 {
		if j := strings.Index(toc[i:], "</x-signature>"); j >= 0 {
			sem("toc-drop-x-signature", toc[:i]+toc[i+j+14:], heap)
		}
	}
}

// ---- minimal DER helpers (harness-owned)

// derLen: total length of the TLV at the start of b (definite lengths only), 0 if unreadable
func derLen(b []byte) int {
	if len(b) < 2 {
		return 0
	}
	if b[1] < 0x80 {
		return 2 + int(b[1])
	}
	n := int(b[1] & 0x7f)
	if n == 0 || n > 4 || len(b) < 2+n {
		return 0
	}
	l := 0
	for i := 0; i < n; i++ {
		l = l<<8 | int(b[2+i])
	}
	return 2 + n + l
}

type tlv struct {
	tag     byte
	content []byte
}

func derRead(b []byte) (t tlv, rest []byte, err error) {
	n := derLen(b)
	if n == 0 || n > len(b) {
		return t, nil, fmt.Errorf("bad DER element")
	}
	hl := 2
	if b[1] >= 0x80 {
		hl = 2 + int(b[1]&0x7f)
	}
	return tlv{b[0], b[hl:n]}, b[n:], nil
}

func derKids(b []byte) ([]tlv, error) {
	var out []tlv
	for len(b) > 0 {
		t, r, err := derRead(b)
		if err != nil {
			return nil, err
		}
		out = append(out, t)
		b = r
	}
	return out, nil
}

func derEnc(tag byte, content []byte) []byte {
	l := len(content)
	var h []byte
	switch {
	case l < 0x80:
		h = []byte{tag, byte(l)}
	case l < 0x100:
		h = []byte{tag, 0x81, byte(l)}
	case l < 0x10000:
		h = []byte{tag, 0x82, byte(l >> 8), byte(l)}
	default:
		h = []byte{tag, 0x83, byte(l >> 16), byte(l >> 8), byte(l)}
	}
	return append(h, content...)
}

func derCat(ts []tlv) []byte {
	var b []byte
	for _, t := range ts {
		b = append(b, derEnc(t.tag, t.content)...)
	}
	return b
}

// cmsAttach turns a detached CMS SignedData into one that carries `content` as eContent (RFC 5652 section 5.2)
func cmsAttach(cms []byte, content []byte) ([]byte, error) {
	outer, _, err := derRead(cms)
	if err != nil || outer.tag != 0x30 {
		return nil, fmt.Errorf("ContentInfo")
	}
	ci, err := derKids(outer.content)
	if err != nil || len(ci) != 2 || ci[1].tag != 0xa0 {
		return nil, fmt.Errorf("ContentInfo children")
	}
	sdT, _, err := derRead(ci[1].content)
	if err != nil || sdT.tag != 0x30 {
		return nil, fmt.Errorf("SignedData")
	}
	sd, err := derKids(sdT.content)
	if err != nil || len(sd) < 4 || sd[2].tag != 0x30 {
		return nil, fmt.Errorf("SignedData children")
	}
	enc, err := derKids(sd[2].content)
	if err != nil || len(enc) < 1 {
		return nil, fmt.Errorf("encapContentInfo")
	}
	enc = []tlv{enc[0], {0xa0, derEnc(0x04, content)}}
	sd[2] = tlv{0x30, derCat(enc)}
	ci[1] = tlv{0xa0, derEnc(0x30, derCat(sd))}
	return derEnc(0x30, derCat(ci)), nil
}

// ---------------------------------------------------------------- xar inputs

type xin struct {
	kind string
	spec *xarSpec
	raw  []byte
}

func (d *drv) randFiles(depth, budget int, eaOK bool) []*xarFile {
	r := d.r
	var out []*xarFile
	n := 1 + r.Intn(3)
	for i := 0; i < n; i++ {
		f := &xarFile{Name: fmt.Sprintf("f%d_%d", depth, i), Type: "file", HasData: true, Data: r.Bytes(r.Pick(0, 1, 2, 7, 20, 64, 300, budget)), Ck: []string{"sha1", "sha1", "sha256", "sha512"}[r.Intn(4)]}
		if depth < 2 && r.Chance(30) {
			f.Type, f.HasData, f.Data = "directory", false, nil
			f.Kids = d.randFiles(depth+1, budget, eaOK)
		}
		out = append(out, f)
	}
	return out
}

func (d *drv) xarInputs(n int) []xin {
	r := d.r
	var ins []xin
	add := func(kind string, s *xarSpec) { ins = append(ins, xin{kind: kind, spec: s}) }
	fx, err := os.ReadFile(filepath.Join(repoDir(), "functest/packages/dummy.pkg"))
	if err == nil {
		ins = append(ins, xin{kind: "fixture", raw: fx})
	}
	one := func() []*xarFile {
		return []*xarFile{{Name: "a.txt", HasData: true, Data: []byte("hello xar payload"), Ck: "sha1"}, {Name: "dir", Type: "directory", Kids: []*xarFile{{Name: "b.bin", HasData: true, Data: r.Bytes(100), Ck: "sha256"}}}}
	}
	// deterministic boundary layouts
	for _, ht := range []uint32{1, 3, 4} {
		add("plain", &xarSpec{HashType: ht, Files: one(), Pretty: ht != 3})
	}
	add("empty", &xarSpec{HashType: 1})
	add("zero-length-file", &xarSpec{HashType: 1, Files: []*xarFile{{Name: "z", HasData: true, Data: []byte{}, Ck: "sha1"}, {Name: "y", HasData: true, Data: []byte("y"), Ck: "sha1"}}})
	add("one-byte-members", &xarSpec{HashType: 3, Files: []*xarFile{{Name: "o1", HasData: true, Data: []byte{0x41}, Ck: "sha1"}, {Name: "o2", HasData: true, Data: []byte{0x42}, Ck: "sha256"}, {Name: "o3", HasData: true, Data: []byte("xyz"), Ck: "sha512"}}})
	add("trailer", &xarSpec{HashType: 1, Files: one(), Trailer: r.Bytes(33)})
	add("file-gap", &xarSpec{HashType: 3, Files: one(), FileGap: 5, SlotGap: 3})
	// already signed by another tool: slots behind the checksum (the layout Apple's tools write)
	foreign := func(atEnd bool, rsa bool) *xarSpec {
		s := &xarSpec{HashType: 1, Files: one(), Pretty: true, SlotsAtEnd: atEnd}
		c := d.keys["rsa2048"].cert.Leaf.Raw
		if rsa {
			s.Slots = append(s.Slots, xarSlot{Kind: "signature", Style: "RSA", Size: 256, Fill: r.Bytes(256), Certs: [][]byte{c}})
		}
		s.Slots = append(s.Slots, xarSlot{Kind: "x-signature", Style: "CMS", Size: int64(r.Pick(900, 4096, 7000)), Fill: r.Bytes(700), Certs: [][]byte{c}})
		return s
	}
	add("foreign-signed", foreign(false, true))
	add("foreign-signed", foreign(false, false))
	// class outside the stated domain: the existing slots lie BEHIND file data (the format allows any heap offsets)
	add("slots-behind-files", foreign(true, true))
	// members without an archived checksum (xar --file-cksum none), md5 checksums, a wrong checksum
	add("no-file-cksum", &xarSpec{HashType: 1, Files: []*xarFile{{Name: "n", HasData: true, Data: []byte("no checksum here"), Ck: "none"}}})
	add("md5-file-cksum", &xarSpec{HashType: 1, Files: []*xarFile{{Name: "m", HasData: true, Data: []byte("md5 member"), Ck: "md5"}}})
	add("wrong-file-cksum", &xarSpec{HashType: 1, Files: []*xarFile{{Name: "w", HasData: true, Data: []byte("wrong"), Ck: "wrong"}}})
	add("badhex-file-cksum", &xarSpec{HashType: 1, Files: []*xarFile{{Name: "w", HasData: true, Data: []byte("wrong"), Ck: "badhex"}}})
	// extended attributes stored in the heap (<ea><offset>), a <data><offset> outside any <file>
	add("ea", &xarSpec{HashType: 1, Files: []*xarFile{{Name: "e", HasData: true, Data: []byte("member with attribute"), Ck: "sha1", EAs: []xarEA{{"com.apple.quarantine", []byte("0081;attr-bytes")}}}, {Name: "after", HasData: true, Data: []byte("after"), Ck: "sha1"}}})
	add("stray-data", &xarSpec{HashType: 1, Files: one(), StrayData: true})
	// a member with data that also has nested members
	add("data-with-children", &xarSpec{HashType: 1, Files: []*xarFile{{Name: "p", HasData: true, Data: []byte("parent data"), Ck: "sha1", Kids: []*xarFile{{Name: "c", HasData: true, Data: []byte("child data bytes"), Ck: "sha1"}}}}})
	// two members sharing one heap range (de-duplicated content)
	{
		a := &xarFile{Name: "a", HasData: true, Data: []byte("shared bytes"), Ck: "sha1"}
		s := &xarSpec{HashType: 1, Files: []*xarFile{a}}
		writeXar(s)
		b := &xarFile{Name: "b", HasData: true, Data: []byte("shared bytes"), Ck: "sha1", ForceOff: a.off}
		add("shared-range", &xarSpec{HashType: 1, Files: []*xarFile{a, b}})
	}
	// header variants
	add("header-32", &xarSpec{HashType: 1, HeaderSize: 32, Files: one()})
	add("checksum-offset-nonzero", &xarSpec{HashType: 1, Files: one(), CkOffset: 0, SlotGap: 0})
	for i := 0; i < n; i++ {
		s := &xarSpec{HashType: uint32(r.Pick(1, 3, 4)), Files: d.randFiles(0, r.Pick(10, 1000, 5000), false), Pretty: r.Chance(50), Level: r.Pick(1, 6, 9)}
		kind := "rand"
		switch r.Intn(10) {
		case 0:
			s.Trailer = r.Bytes(r.Pick(1, 10, 200))
			kind = "rand-trailer"
		case 1, 2:
			c := d.keys["ec256"].cert.Leaf.Raw
			s.Slots = []xarSlot{{Kind: "x-signature", Style: "CMS", Size: int64(r.Pick(10, 2000, 6500)), Fill: r.Bytes(9), Certs: [][]byte{c}}}
			if r.Chance(50) {
				s.Slots = append([]xarSlot{{Kind: "signature", Style: "RSA", Size: int64(r.Pick(128, 256, 512)), Fill: r.Bytes(64), Certs: [][]byte{c}}}, s.Slots...)
			}
			kind = "rand-foreign-signed"
		case 3:
			s.FileGap = r.Pick(1, 4, 17)
			kind = "rand-gaps"
		}
		add(kind, s)
	}
	return ins
}

func (d *drv) xarRun(n int) {
	ins := d.xarInputs(n)
	hashes := []string{"sha256", "sha1", "sha512"}
	keys := []string{"rsa2048", "ec256", "rsa3072", "rsa2048"}
	for idx, in := range ins {
		f := in.raw
		if f == nil {
			f = writeXar(in.spec).File
		}
		id := d.file("xar", in.kind, f)
		d.xarVerify(id, f, "rsa2048", "input", nil)
		k1, h1 := keys[idx%len(keys)], hashes[idx%len(hashes)]
		mode := "lib"
		if idx%3 == 2 {
			mode = "pipeline"
		}
		g1ID, g1 := d.xarSign(id, f, k1, h1, mode, 1, in.kind)
		if g1 == nil {
			continue
		}
		d.xarVerify(g1ID, g1, k1, "signed", nil)
		if !strings.HasPrefix(in.kind, "rand") || idx%5 == 0 {
			d.xarMutants(g1ID, g1, k1, !strings.HasPrefix(in.kind, "rand"))
		}
		// re-sign with another key / digest, then a third time with the first
		k2, h2 := keys[(idx+1)%len(keys)], hashes[(idx+1)%len(hashes)]
		g2ID, g2 := d.xarSign(g1ID, g1, k2, h2, "pipeline", 2, in.kind)
		if g2 == nil {
			continue
		}
		d.xarVerify(g2ID, g2, k2, "signed", nil)
		if idx%2 == 0 {
			g3ID, g3 := d.xarSign(g2ID, g2, k1, h1, "lib", 3, in.kind)
			if g3 != nil {
				d.xarVerify(g3ID, g3, k1, "signed", nil)
			}
		}
	}
}

// malformed archives through Open / Verify / Sign (C11): every structural field set to boundary values
func (d *drv) xarMalformed() {
	r := d.r
	one := func() []*xarFile {
		return []*xarFile{{Name: "a", HasData: true, Data: []byte("0123456789"), Ck: "sha1"}}
	}
	c := d.keys["rsa2048"].cert.Leaf.Raw
	run := func(kind string, s *xarSpec) {
		f := writeXar(s).File
		id := d.file("xar", "bad-"+kind, f)
		d.xarVerify(id, f, "rsa2048", "malformed", rec{"kind": kind})
		o := rec{"t": "xsign", "in": id, "key": "rsa2048", "hash": "sha256", "mode": "lib", "round": 1, "kind": "bad-" + kind, "out": -1}
		var ps *binpatch.PatchSet
		var m0, m1 runtime.MemStats
		runtime.ReadMemStats(&m0)
		err, pan := guard(func() (e error) {
			ps, _, e = xar.Sign(context.Background(), bytes.NewReader(f), d.keys["rsa2048"].cert, crypto.SHA256)
			return
		})
		runtime.ReadMemStats(&m1)
		o["alloc"] = int64(m1.TotalAlloc - m0.TotalAlloc)
		o["st"] = st(err, pan)
		if err != nil {
			o["err"] = cut(err.Error())
		} else if len(ps.Patches) >= 1 {
			var pl [][3]int64
			for _, ph := range ps.Patches {
				pl = append(pl, [3]int64{ph.Offset, int64(ph.OldSize), int64(ph.NewSize)})
			}
			o["patches"] = pl
			if len(ps.Patches) == 1 {
				if out := refSplice(f, ps.Patches[0].Offset, int64(ps.Patches[0].OldSize), ps.Blobs[0]); out != nil {
					oid := d.file("xar", "bad-"+kind+"+signed", out)
					o["out"] = oid
					o["new"] = hx(ps.Blobs[0])
					d.c.Emit(o)
					d.xarVerify(oid, out, "rsa2048", "signed-malformed", rec{"kind": kind})
					return
				}
			}
		}
		d.c.Emit(o)
	}
	sizes := []string{"0", "1", "-1", "-20", "19", "21", "50000000", "9223372036854775807", "-9223372036854775808", "99999999999999999999", "abc"}
	for _, sz := range sizes {
		run("cksum-size="+sz, &xarSpec{HashType: 1, Files: one(), CkSizeText: sz})
		run("sig-size="+sz, &xarSpec{HashType: 1, Files: one(), Slots: []xarSlot{{Kind: "signature", Style: "RSA", Size: 16, SizeText: sz, Certs: [][]byte{c}}}})
		run("xsig-size="+sz, &xarSpec{HashType: 1, Files: one(), Slots: []xarSlot{{Kind: "x-signature", Style: "CMS", Size: 16, SizeText: sz, Certs: [][]byte{c}}}})
	}
	for _, od := range []int64{-1, -1000, 1 << 20, 1 << 40, 1<<62 - 1} {
		run(fmt.Sprintf("sig-offset%+d", od), &xarSpec{HashType: 1, Files: one(), Slots: []xarSlot{{Kind: "signature", Style: "RSA", Size: 16, OffDelta: od, Certs: [][]byte{c}}}})
		run(fmt.Sprintf("cksum-offset=%d", od), &xarSpec{HashType: 1, Files: one(), CkOffset: od})
	}
	run("sig-nosize", &xarSpec{HashType: 1, Files: one(), Slots: []xarSlot{{Kind: "signature", Style: "RSA", Size: 16, NoSize: true, Certs: [][]byte{c}}}})
	run("sig-nocerts", &xarSpec{HashType: 1, Files: one(), Slots: []xarSlot{{Kind: "signature", Style: "RSA", Size: 16}}})
	run("no-checksum", &xarSpec{HashType: 1, Files: one(), NoChecksum: true})
	run("bad-checksum-bytes", &xarSpec{HashType: 1, Files: one(), BadCkBytes: true})
	for _, ld := range []int64{1, 100, -1, -11, 1 << 40} {
		run(fmt.Sprintf("file-length%+d", ld), &xarSpec{HashType: 1, Files: []*xarFile{{Name: "a", HasData: true, Data: []byte("0123456789"), Ck: "sha1", LenDelta: ld}}})
	}
	for _, ot := range []string{"-1", "-100", "99999", "4611686018427387904", "9223372036854775807", "x", ""} {
		run("file-offset="+ot, &xarSpec{HashType: 1, Files: []*xarFile{{Name: "a", HasData: true, Data: []byte("0123456789"), Ck: "sha1", OffText: ot}}})
	}
	for _, cd := range []int64{-1, 1, -5, 100, 1 << 20, 1<<40 - 1, -1 << 40} {
		run(fmt.Sprintf("clen%+d", cd), &xarSpec{HashType: 1, Files: one(), CLenDelta: cd})
	}
	for _, ud := range []int64{-1, 1, 10000001, 1 << 40} {
		run(fmt.Sprintf("ulen%+d", ud), &xarSpec{HashType: 1, Files: one(), ULenDelta: ud})
	}
	run("toc-suffix", &xarSpec{HashType: 1, Files: one(), TocSuffix: []byte{1, 2, 3, 4, 5}})
	for _, ht := range []uint32{0, 2, 5, 0xffffffff} {
		run(fmt.Sprintf("hashtype=%d", ht), &xarSpec{HashType: ht, Files: one()})
	}
	run("version=2", &xarSpec{HashType: 1, Version: 2, Files: one()})
	run("magic", &xarSpec{HashType: 1, Magic: 0x78617220, Files: one()})
	for _, hs := range []int{29, 64} {
		run(fmt.Sprintf("hsize=%d", hs), &xarSpec{HashType: 1, HeaderSize: hs, Files: one()})
	}
	run("toc-not-xml", &xarSpec{HashType: 1, RawTOC: []byte("this is not xml <")})
	run("toc-no-toc-element", &xarSpec{HashType: 1, RawTOC: []byte("<?xml version=\"1.0\"?><xar><other/></xar>")})
	run("toc-empty", &xarSpec{HashType: 1, RawTOC: []byte{}})
	full := writeXar(&xarSpec{HashType: 1, Files: one()}).File
	for _, n := range []int{1, 4, 27, 28, 29, 40, len(full) - 30, len(full) - 11, len(full) - 1} {
		if n > 0 && n < len(full) {
			run(fmt.Sprintf("truncate=%d", n), &xarSpec{HashType: 1, Files: one(), Truncate: n})
		}
	}
	for i := 0; i < 25; i++ {
		b := append([]byte{}, full...)
		for k := 0; k < 1+r.Intn(3); k++ {
			b[r.Intn(len(b))] ^= byte(1 << uint(r.Intn(8)))
		}
		id := d.file("xar", "bad-bitflip", b)
		d.xarVerify(id, b, "rsa2048", "malformed", rec{"kind": "bitflip"})
	}
}

// ---------------------------------------------------------------- dmg

func (d *drv) kolyCases() {
	r := d.r
	emit := func(kind string, b []byte) {
		var u *dmg.VerifUDIF
		err, pan := guard(func() (e error) { u, e = dmg.VerifParseUDIF(b); return })
		o := rec{"t": "koly", "kind": kind, "in": hx(b), "st": st(err, pan)}
		if err != nil {
			o["err"] = cut(err.Error())
		} else {
			o["fields"], o["raw"], o["hashed"] = u.Fields, hx(u.Raw), hx(u.Hashed)
		}
		d.c.Emit(o)
	}
	fx, err := os.ReadFile(filepath.Join(repoDir(), "functest/packages/dummy.dmg"))
	if err == nil {
		emit("fixture", fx[len(fx)-512:])
	}
	for i := 0; i < 40; i++ {
		b := r.Bytes(512)
		if i%4 == 0 {
			for j := range b {
				b[j] = 0xff
			}
		}
		if i%4 == 1 { // reserved areas zero: binary.Write(binary.Read(b)) must reproduce b
			for _, rg := range [][2]int{{232, 296}, {312, 352}, {500, 512}} {
				for j := rg[0]; j < rg[1]; j++ {
					b[j] = 0
				}
			}
		}
		emit("random", b)
	}
	full := r.Bytes(512)
	for _, n := range []int{0, 1, 4, 511, 513, 600} {
		if n <= 512 {
			emit("short", full[:n])
		} else {
			emit("long", append(append([]byte{}, full...), make([]byte, n-512)...))
		}
	}
}

func (d *drv) dmgVerify(fileID int, f []byte, key string, what string, extra rec) bool {
	o := rec{"t": "dver", "file": fileID, "what": what}
	for k, v := range extra {
		o[k] = v
	}
	wd := d.workdir()
	defer os.RemoveAll(wd)
	p := filepath.Join(wd, "v.dmg")
	os.WriteFile(p, f, 0o644)
	fh, _ := os.Open(p)
	defer fh.Close()
	var im *dmg.DMG
	var m0, m1 runtime.MemStats
	runtime.ReadMemStats(&m0)
	err, pan := guard(func() (e error) { im, e = dmg.Open(fh); return })
	runtime.ReadMemStats(&m1)
	o["open_alloc"] = int64(m1.TotalAlloc - m0.TotalAlloc)
	o["open"] = st(err, pan)
	accepted := false
	if err != nil {
		o["open_err"] = cut(err.Error())
	} else {
		o["blob_len"] = len(im.VerifSigBlob())
		if len(f) <= 4096 || what != "mutant" {
			o["blob"] = hx(im.VerifSigBlob())
		}
		var sig *dmg.Signature
		err, pan := guard(func() (e error) { sig, e = im.Verify(false); return })
		o["verify"] = st(err, pan)
		if err != nil {
			o["verify_err"] = cut(err.Error())
			if strings.Contains(fmt.Sprintf("%T", err), "NotSigned") {
				o["notsigned"] = true
			}
		} else {
			dir := sig.Blob.Directories[0]
			o["sig_hash"] = int(sig.HashFunc)
			o["code_limit"] = sig.Blob.CodeSize()
			o["page_log2"] = int(dir.Header.PageSizeLog2)
			var chs []string
			for _, h := range dir.CodeHashes {
				chs = append(chs, hx(h))
			}
			o["code_hashes"] = chs
			o["rep_hash"] = hx(dir.RepSpecificHash)
			o["ndirs"] = len(sig.Blob.Directories)
			o["ident"] = dir.SigningIdentity
			o["leaf"] = hx(sig.Signature.Certificate.Raw)
			cerr := fmt.Errorf("no key")
			if k := d.keys[key]; k != nil {
				cerr = sig.Signature.VerifyChain(k.pool, nil, x509.ExtKeyUsageAny)
			}
			if cerr != nil {
				o["chain_err"] = cut(cerr.Error())
			} else {
				accepted = true
			}
		}
		err, pan = guard(func() (e error) { _, e = im.Verify(true); return })
		o["verify_nodigest"] = st(err, pan)
	}
	o["accepted"] = accepted
	d.c.Emit(o)
	return accepted
}

func (d *drv) dmgSign(inID int, in []byte, key, hname, mode string, round int, kind string) (int, []byte) {
	k := d.keys[key]
	o := rec{"t": "dsign", "in": inID, "key": key, "hash": hname, "mode": mode, "round": round, "kind": kind, "out": -1}
	var out []byte
	h := hashOf(hname)
	if mode == "lib" {
		var ps *binpatch.PatchSet
		err, pan := guard(func() (e error) {
			if len(in) < 512 {
				return fmt.Errorf("harness: shorter than a trailer")
			}
			ps, _, e = dmg.Sign(context.Background(), in[len(in)-512:], bytes.NewReader(in), k.cert, &dmg.SignatureParams{HashFunc: h, SigningIdentity: "verif.image"})
			return
		})
		o["st"] = st(err, pan)
		if err != nil {
			o["err"] = cut(err.Error())
		} else {
			var pl [][3]int64
			for _, ph := range ps.Patches {
				pl = append(pl, [3]int64{ph.Offset, int64(ph.OldSize), int64(ph.NewSize)})
			}
			o["patches"] = pl
			if len(ps.Patches) == 1 {
				o["new"] = hx(ps.Blobs[0])
				out = refSplice(in, ps.Patches[0].Offset, int64(ps.Patches[0].OldSize), ps.Blobs[0])
				if out == nil {
					o["st"], o["err"] = "err", "harness: patch range outside the input"
				}
			}
		}
	} else {
		wd := d.workdir()
		defer os.RemoveAll(wd)
		src, dest := filepath.Join(wd, "in.dmg"), filepath.Join(wd, "out.dmg")
		same := round%2 == 1
		if same {
			dest = src
		}
		o["same_path"] = same
		os.WriteFile(src, in, 0o644)
		mod := signers.ByName("dmg")
		flags, _ := mod.FlagsFromQuery(url.Values{"bundle-id": []string{"verif.image"}})
		opts := signers.SignOpts{Path: src, Hash: h, Time: time.Now(), Flags: flags, Audit: audit.New("verif", mod.Name, h)}
		fh, _ := os.OpenFile(src, os.O_RDWR, 0)
		defer fh.Close()
		err, pan := guard(func() error {
			tr, e := mod.GetTransform(fh, opts)
			if e != nil {
				return e
			}
			stream, e := tr.GetReader()
			if e != nil {
				return e
			}
			res, e := mod.Sign(stream, k.cert, opts)
			if e != nil {
				io.Copy(io.Discard, stream)
				return e
			}
			if p, e2 := binpatch.Load(res); e2 == nil {
				var pl [][3]int64
				for _, ph := range p.Patches {
					pl = append(pl, [3]int64{ph.Offset, int64(ph.OldSize), int64(ph.NewSize)})
				}
				o["patches"] = pl
				if len(p.Blobs) == 1 {
					o["new"] = hx(p.Blobs[0])
				}
			}
			return tr.Apply(dest, opts.Audit.GetMimeType(), bytes.NewReader(res))
		})
		o["st"] = st(err, pan)
		now, _ := os.ReadFile(src)
		if err != nil {
			o["err"] = cut(err.Error())
			o["input_untouched"] = bytes.Equal(now, in)
		} else {
			out, _ = os.ReadFile(dest)
			o["input_untouched"] = same || bytes.Equal(now, in)
		}
	}
	outID := -1
	if out != nil {
		outID = d.file("dmg", kind+"+signed", out)
		o["out"] = outID
	}
	d.c.Emit(o)
	return outID, out
}

type din struct {
	kind string
	spec *dmgSpec
	raw  []byte
}

func (d *drv) randKoly(s *dmgSpec) {
	r := d.r
	s.Version, s.HeaderSize, s.Flags = 4, 512, uint32(r.Pick(0, 1, 5))
	s.SegNum, s.SegCount = 1, 1
	for i := range s.SegID {
		s.SegID[i] = uint32(r.Next())
	}
	s.DataCk[0], s.DataCk[1], s.DataCk[2] = 2, 32, uint32(r.Next())
	s.MasterCk[0], s.MasterCk[1], s.MasterCk[2] = 2, 32, uint32(r.Next())
	s.Variant, s.Sectors = 1, int64(r.Intn(100000))
}

func (d *drv) dmgInputs(n int) []din {
	r := d.r
	var ins []din
	add := func(kind string, s *dmgSpec) { ins = append(ins, din{kind: kind, spec: s}) }
	if fx, err := os.ReadFile(filepath.Join(repoDir(), "functest/packages/dummy.dmg")); err == nil {
		ins = append(ins, din{kind: "fixture", raw: fx})
	}
	mk := func(dl, xl int) *dmgSpec {
		s := &dmgSpec{Data: r.Bytes(dl), XML: []byte("<?xml version=\"1.0\"?><plist><dict>" + strings.Repeat("k", xl) + "</dict></plist>")}
		d.randKoly(s)
		return s
	}
	// the single-page hash covers the whole bundle: sizes around 0, 1, the 4 KiB page and 64 KiB
	for _, dl := range []int{0, 1, 511, 512, 4095, 4096, 4097, 65536, 70001} {
		add("plain", mk(dl, 40))
	}
	{
		s := mk(100, 0)
		s.XML = []byte{}
		add("no-xml", s)
	}
	{ // signed by another tool: a foreign blob exactly behind the bundle
		s := mk(300, 50)
		s.Sig = r.Bytes(123)
		add("foreign-signed", s)
	}
	{ // reserved trailer bytes in use
		s := mk(300, 50)
		s.Reserved1, s.Reserved2, s.Reserved3 = r.Bytes(64), r.Bytes(40), r.Bytes(12)
		add("reserved-nonzero", s)
	}
	{ // classes outside the stated domain
		s := mk(300, 50)
		s.Gap = []byte("GAPBYTES")
		add("gap-before-trailer", s)
		s = mk(300, 50)
		s.XMLFirst = true
		add("xml-before-data", s)
		s = mk(300, 50)
		s.Sig, s.SigGap = r.Bytes(77), 8
		add("gap-before-signature", s)
		s = mk(300, 50)
		s.Sig, s.Tail = r.Bytes(77), []byte("TAIL")
		add("bytes-behind-signature", s)
		s = mk(300, 50)
		s.RsrcOff, s.RsrcLen = 350+40, 0
		add("rsrc-fields", s)
		// legacy image: no property list at all (XMLOffset = XMLLength = 0), the block table lives in the resource fork behind the data
		s = mk(300, 0)
		s.XML = []byte{}
		s.Data = append(s.Data, r.Bytes(64)...)
		s.RsrcOff, s.RsrcLen = 300, 64
		s.XMLOffSet, s.XMLOff, s.XMLLenSet, s.XMLLen = true, 0, true, 0
		add("rsrc-fork-no-xml", s)
	}
	// signed by another party: a structurally valid signature blob (taken from an image relic signed with another key) exactly behind the bundle
	{
		donor := mk(50, 20)
		df := writeDmg(donor).File
		if ps, _, err := dmg.Sign(context.Background(), df[len(df)-512:], bytes.NewReader(df), d.keys["ec256"].cert, &dmg.SignatureParams{HashFunc: crypto.SHA256, SigningIdentity: "other.party"}); err == nil && len(ps.Blobs) == 1 {
			blob := ps.Blobs[0][:len(ps.Blobs[0])-512]
			for _, dl := range []int{0, 300, 5000} {
				s := mk(dl, 33)
				s.Sig = blob
				add("foreign-signed-valid-blob", s)
			}
		}
	}
	for i := 0; i < n; i++ {
		s := mk(r.Pick(0, 1, 100, 4096, 5000, 20000), r.Pick(0, 1, 60, 3000))
		kind := "rand"
		if r.Chance(25) {
			s.Sig = r.Bytes(r.Pick(1, 8, 500, 9000))
			kind = "rand-foreign-signed"
		}
		add(kind, s)
	}
	return ins
}

func (d *drv) dmgMutants(signedID int, g []byte, key string) {
	n := int64(len(g))
	if n < 512 {
		return
	}
	kb := n - 512
	be64 := func(off int64) int64 {
		var v int64
		for i := int64(0); i < 8; i++ {
			v = v<<8 | int64(g[kb+off+i])
		}
		return v
	}
	so, sl := be64(296), be64(304)
	flip := func(what string, pos int64, mask byte) {
		if pos < 0 || pos >= n {
			return
		}
		m := append([]byte{}, g...)
		m[pos] ^= mask
		d.dmgVerify(-1, m, key, "mutant", rec{"base": signedID, "mut": what, "pos": pos, "mask": int(mask)})
	}
	if so > 0 {
		flip("bundle", 0, 1)
		flip("bundle", so/2, 0x10)
		flip("bundle", so-1, 0x80)
	}
	if sl > 60 && so >= 0 && so+sl <= n {
		// the superblob index (published layout): count at 8, entries (type, offset) from 12; type 0 = CodeDirectory
		cnt := int64(g[so+8])<<24 | int64(g[so+9])<<16 | int64(g[so+10])<<8 | int64(g[so+11])
		for i := int64(0); i < cnt && i < 8 && so+20+8*i <= n; i++ {
			typ := int64(g[so+12+8*i])<<24 | int64(g[so+13+8*i])<<16 | int64(g[so+14+8*i])<<8 | int64(g[so+15+8*i])
			off := int64(g[so+16+8*i])<<24 | int64(g[so+17+8*i])<<16 | int64(g[so+18+8*i])<<8 | int64(g[so+19+8*i])
			if typ == 0 && off+48 < sl {
				flip("blob-codedirectory", so+off+9, 1)  // version
				flip("blob-codedirectory", so+off+33, 1) // code limit
				flip("blob-codedirectory", so+off+47, 1)
			}
		}
		flip("blob-last-byte", so+sl-1, 1)
	}
	// every trailer field, first and last byte of the field
	fields := [][3]interface{}{{"koly-magic", 0, 4}, {"koly-version", 4, 4}, {"koly-headersize", 8, 4}, {"koly-flags", 12, 4}, {"koly-running", 16, 8}, {"koly-dataoff", 24, 8},
		{"koly-datalen", 32, 8}, {"koly-rsrcoff", 40, 8}, {"koly-rsrclen", 48, 8}, {"koly-segnum", 56, 4}, {"koly-segcount", 60, 4}, {"koly-segid", 64, 16},
		{"koly-datack", 80, 136}, {"koly-xmloff", 216, 8}, {"koly-xmllen", 224, 8}, {"koly-reserved1", 232, 64}, {"koly-sigoff", 296, 8}, {"koly-siglen", 304, 8},
		{"koly-reserved2", 312, 40}, {"koly-masterck", 352, 136}, {"koly-variant", 488, 4}, {"koly-sectors", 492, 8}, {"koly-reserved3", 500, 12}}
	for _, f := range fields {
		o, w := int64(f[1].(int)), int64(f[2].(int))
		flip(f[0].(string), kb+o+w-1, 1)
		flip(f[0].(string), kb+o, 0x40)
	}
	// structural
	d.dmgVerify(-1, append(append([]byte{}, g...), 0), key, "mutant", rec{"base": signedID, "mut": "append", "hex": "00"})
	ins := append(append(append([]byte{}, g[:kb]...), []byte("INSERTED")...), g[kb:]...)
	id := d.file("dmg", "mutant:insert-before-trailer", ins)
	d.dmgVerify(id, ins, key, "mutant", rec{"base": signedID, "mut": "insert-before-trailer"})
	// signature length zeroed: the image must then be reported unsigned, never accepted
	z := append([]byte{}, g...)
	for i := int64(0); i < 8; i++ {
		z[kb+304+i] = 0
	}
	id = d.file("dmg", "mutant:siglen-zero", z)
	d.dmgVerify(id, z, key, "mutant", rec{"base": signedID, "mut": "siglen-zero"})
}

func (d *drv) dmgRun(n int) {
	ins := d.dmgInputs(n)
	hashes := []string{"sha256", "sha1", "sha256", "sha384"}
	keys := []string{"rsa2048", "ec256", "rsa3072"}
	for idx, in := range ins {
		f := in.raw
		if f == nil {
			f = writeDmg(in.spec).File
		}
		id := d.file("dmg", in.kind, f)
		d.dmgVerify(id, f, "rsa2048", "input", nil)
		k1, h1 := keys[idx%len(keys)], hashes[idx%len(hashes)]
		mode := "pipeline"
		if idx%3 == 1 {
			mode = "lib"
		}
		g1ID, g1 := d.dmgSign(id, f, k1, h1, mode, 1, in.kind)
		if g1 == nil {
			continue
		}
		d.dmgVerify(g1ID, g1, k1, "signed", nil)
		if idx < 6 || idx%6 == 0 {
			d.dmgMutants(g1ID, g1, k1)
		}
		k2, h2 := keys[(idx+1)%len(keys)], hashes[(idx+1)%len(hashes)]
		g2ID, g2 := d.dmgSign(g1ID, g1, k2, h2, "lib", 2, in.kind)
		if g2 == nil {
			continue
		}
		d.dmgVerify(g2ID, g2, k2, "signed", nil)
		if idx%2 == 0 {
			g3ID, g3 := d.dmgSign(g2ID, g2, k1, h1, "pipeline", 3, in.kind)
			if g3 != nil {
				d.dmgVerify(g3ID, g3, k1, "signed", nil)
			}
		}
	}
}

func (d *drv) dmgMalformed() {
	r := d.r
	mk := func() *dmgSpec {
		s := &dmgSpec{Data: r.Bytes(200), XML: []byte("<plist/>")}
		d.randKoly(s)
		return s
	}
	run := func(kind string, f []byte) {
		id := d.file("dmg", "bad-"+kind, f)
		d.dmgVerify(id, f, "rsa2048", "malformed", rec{"kind": kind})
		gid, g := d.dmgSign(id, f, "rsa2048", "sha256", []string{"lib", "pipeline"}[id%2], 1, "bad-"+kind)
		if g != nil {
			d.dmgVerify(gid, g, "rsa2048", "signed-malformed", rec{"kind": kind})
		}
	}
	lens := []int64{-1, -9223372036854775808, 1, 10000000, 10000001, 1 << 31, 1 << 40, 9223372036854775807}
	for _, l := range lens {
		s := mk()
		s.Sig = r.Bytes(16)
		s.SigLenSet, s.SigLen = true, l
		run(fmt.Sprintf("siglen=%d", l), writeDmg(s).File)
		s = mk()
		s.SigLenSet, s.SigLen, s.SigOffSet, s.SigOff = true, 16, true, l
		run(fmt.Sprintf("sigoff=%d", l), writeDmg(s).File)
		s = mk()
		s.XMLLenSet, s.XMLLen = true, l
		run(fmt.Sprintf("xmllen=%d", l), writeDmg(s).File)
		s = mk()
		s.XMLOffSet, s.XMLOff = true, l
		run(fmt.Sprintf("xmloff=%d", l), writeDmg(s).File)
	}
	s := mk()
	s.Magic = 0x6b6f6c7a
	run("magic", writeDmg(s).File)
	for _, n := range []int{0, 1, 100, 511} {
		run(fmt.Sprintf("size=%d", n), r.Bytes(n))
	}
	s = mk()
	s.XMLOffSet, s.XMLOff, s.XMLLenSet, s.XMLLen = true, 1<<62, true, 1<<62
	run("xml-sum-overflow", writeDmg(s).File)
	for i := 0; i < 20; i++ {
		s := mk()
		s.Sig = r.Bytes(40)
		b := writeDmg(s).File
		for k := 0; k < 1+r.Intn(3); k++ {
			b[len(b)-512+r.Intn(512)] ^= byte(1 << uint(r.Intn(8)))
		}
		run("bitflip", b)
	}
}

// blob facts through the csblob layer (opaque to this unit): only what the DMG signer put into it
var _ = csblob.HashSHA256

func init() {
	core.Register("fmtxar", func(c *core.Ctx) error {
		dir := c.Scratch
		if dir == "" {
			var err error
			dir, err = os.MkdirTemp("/var/tmp", "fmtxar.")
			if err != nil {
				return err
			}
			defer os.RemoveAll(dir)
		}
		os.MkdirAll(dir, 0o755)
		d := &drv{c: c, r: &core.Rng{S: c.Seed*0x9e3779b9 + 4711}, dir: dir}
		if err := d.loadKeys(); err != nil {
			return err
		}
		n := c.N
		if n == 0 {
			n = 30
			if c.Tier == "thorough" {
				n = 300
			}
		}
		what := "all"
		if len(c.Args) > 0 {
			what = c.Args[0]
		}
		if what == "all" || what == "xar" {
			d.xarHeaderCases()
			d.xarRun(n)
			d.xarMalformed()
		}
		if what == "all" || what == "dmg" {
			d.kolyCases()
			d.dmgRun(n)
			d.dmgMalformed()
		}
		return nil
	})
}
