package c13

import (
	"bytes"
	"crypto"
	"encoding/hex"
	"encoding/json"
	"errors"
	"fmt"
	"io"
	"net/url"
	"os"
	"path/filepath"
	"runtime"
	"syscall"
	"time"

	"github.com/ProtonMail/go-crypto/openpgp"
	"github.com/ProtonMail/go-crypto/openpgp/packet"

	"github.com/sassoftware/relic/v8/lib/atomicfile"
	"github.com/sassoftware/relic/v8/lib/binpatch"
	"github.com/sassoftware/relic/v8/lib/certloader"
	"github.com/sassoftware/relic/v8/signers"
	"github.com/sassoftware/relic/v8/verifharness/core"
)

// mark: a system call nothing else in the process makes; it tells the trace where the output phase starts
func mark() { syscall.Getppid() }

// chunked: a reader without WriterTo, so that io.Copy issues one write per 32 KiB
type chunked struct{ io.Reader }

type xpatch struct {
	Off  int64  `json:"off"`
	Old  int64  `json:"old"`
	Blob string `json:"blob"` // hex
}

type xspec struct {
	Strategy  string   `json:"strategy"` // whole writefile patch msi pgp
	In        string   `json:"in"`
	Dest      string   `json:"dest"`
	Payload   string   `json:"payload"` // file holding the bytes the server would return (whole, writefile, pgp detached, msi blob)
	Patches   []xpatch `json:"patches"`
	Unsorted  bool     `json:"unsorted"` // keep the patches in the given order (Dump sorts them)
	Inline    bool     `json:"inline"`
	Clearsign bool     `json:"clearsign"`
	Armor     bool     `json:"armor"`
	ReadWrite bool     `json:"rw"` // open the input O_RDWR, as the command line does when input and output are the same name
	// environment of the open phase (all take effect just before the output phase starts, after input and payload were read):
	Uid    int  `json:"uid"`    // > 0: give up root (setgid+setuid) - directory permissions apply to the output phase
	NoFile bool `json:"nofile"` // lower RLIMIT_NOFILE to the descriptors already open: the next open of anything fails with EMFILE
}

// restrict applies the environment of the open phase; called immediately before mark()
func (sp *xspec) restrict() error {
	if sp.NoFile {
		probe, err := os.Open("/dev/null") // gets the lowest free descriptor number: every number below it is in use
		if err != nil {
			return err
		}
		lowest := uint64(probe.Fd())
		probe.Close()
		var lim syscall.Rlimit
		if err := syscall.Getrlimit(syscall.RLIMIT_NOFILE, &lim); err != nil {
			return err
		}
		lim.Cur = lowest
		if err := syscall.Setrlimit(syscall.RLIMIT_NOFILE, &lim); err != nil {
			return err
		}
	}
	if sp.Uid > 0 {
		if err := syscall.Setgroups([]int{sp.Uid}); err != nil {
			return err
		}
		if err := syscall.Setgid(sp.Uid); err != nil {
			return err
		}
		if err := syscall.Setuid(sp.Uid); err != nil {
			return err
		}
	}
	return nil
}

func pgpFlags(inline, clearsign, armor bool) url.Values {
	q := url.Values{}
	if inline {
		q.Set("inline", "true")
	}
	if clearsign {
		q.Set("clearsign", "true")
	}
	if armor {
		q.Set("armor", "true")
	}
	return q
}

func init() {
	// c13prep <side dir> <input file>: everything an output phase needs that a server would have produced:
	// OpenPGP signatures over the input in the three forms pgpTransformer.Apply consumes.
	core.Commands["c13prep"] = func(c *core.Ctx) error {
		if len(c.Args) < 2 {
			return errors.New("usage: c13prep <side dir> <input file>")
		}
		side, in := c.Args[0], c.Args[1]
		ent, err := openpgp.NewEntity("c13", "", "c13@example.invalid", &packet.Config{RSABits: 2048})
		if err != nil {
			return err
		}
		mod := signers.ByName("pgp")
		for _, v := range []struct {
			name                     string
			inline, clearsign, armor bool
		}{{"sig_detached", false, false, false}, {"sig_inline", true, false, false}, {"sig_inline_armor", true, false, true}, {"sig_clearsign", false, true, false}} {
			f, err := os.Open(in)
			if err != nil {
				return err
			}
			flags, err := mod.FlagsFromQuery(pgpFlags(v.inline, v.clearsign, v.armor))
			if err != nil {
				return err
			}
			opts := signers.SignOpts{Flags: flags, Hash: crypto.SHA256, Time: time.Now()}
			tr, err := mod.GetTransform(f, opts) // inline: clears the armor flag for the server side, as the real client does
			if err != nil {
				return err
			}
			r, err := tr.GetReader()
			if err != nil {
				return err
			}
			blob, err := mod.Sign(r, &certloader.Certificate{PgpKey: ent}, opts)
			if err != nil {
				return fmt.Errorf("%s: %w", v.name, err)
			}
			f.Close()
			if err := os.WriteFile(filepath.Join(side, v.name), blob, 0o644); err != nil {
				return err
			}
		}
		return nil
	}

	// c13x <spec.json>: ONE output phase of the real code, everything on the locked main thread.
	core.Commands["c13x"] = func(c *core.Ctx) error {
		runtime.LockOSThread()
		if len(c.Args) < 1 {
			return errors.New("usage: c13x <spec.json>")
		}
		raw, err := os.ReadFile(c.Args[0])
		if err != nil {
			return err
		}
		var sp xspec
		if err := json.Unmarshal(raw, &sp); err != nil {
			return err
		}
		var payload []byte
		if sp.Payload != "" {
			if payload, err = os.ReadFile(sp.Payload); err != nil {
				return err
			}
		}
		open := func() (*os.File, error) {
			if sp.ReadWrite {
				return os.OpenFile(sp.In, os.O_RDWR, 0)
			}
			return os.Open(sp.In)
		}
		switch sp.Strategy {
		case "writefile":
			if err := sp.restrict(); err != nil {
				return err
			}
			mark()
			return atomicfile.WriteFile(sp.Dest, payload)
		case "whole":
			f, err := open()
			if err != nil {
				return err
			}
			if err := sp.restrict(); err != nil {
				return err
			}
			mark()
			return signers.DefaultTransform(f).Apply(sp.Dest, "application/octet-stream", chunked{bytes.NewReader(payload)})
		case "patch":
			f, err := open()
			if err != nil {
				return err
			}
			ps := binpatch.New()
			for _, p := range sp.Patches {
				blob, err := hex.DecodeString(p.Blob)
				if err != nil {
					return err
				}
				if sp.Unsorted {
					// bypass Add's coalescing and Dump's sorting: what a hostile or buggy server could send
					ps.Patches = append(ps.Patches, binpatch.PatchHeader{Offset: p.Off, OldSize: uint32(p.Old), NewSize: uint32(len(blob))})
					ps.Blobs = append(ps.Blobs, blob)
				} else {
					ps.Add(p.Off, p.Old, blob)
				}
			}
			var blob []byte
			if sp.Unsorted {
				blob = dumpUnsorted(ps)
			} else {
				blob = ps.Dump()
			}
			// through fileProducer.Apply, as the client does for a binpatch response
			if err := sp.restrict(); err != nil {
				return err
			}
			mark()
			return signers.DefaultTransform(f).Apply(sp.Dest, binpatch.MimeType, bytes.NewReader(blob))
		case "msi":
			f, err := open()
			if err != nil {
				return err
			}
			mod := signers.ByName("msi")
			mflags, _ := mod.FlagsFromQuery(nil)
			tr, err := mod.GetTransform(f, signers.SignOpts{Flags: mflags, Hash: crypto.SHA256})
			if err != nil {
				return err
			}
			if err := sp.restrict(); err != nil {
				return err
			}
			mark()
			return tr.Apply(sp.Dest, "", bytes.NewReader(payload))
		case "pgp":
			f, err := open()
			if err != nil {
				return err
			}
			mod := signers.ByName("pgp")
			flags, err := mod.FlagsFromQuery(pgpFlags(sp.Inline, sp.Clearsign, sp.Armor))
			if err != nil {
				return err
			}
			tr, err := mod.GetTransform(f, signers.SignOpts{Flags: flags, Hash: crypto.SHA256})
			if err != nil {
				return err
			}
			if err := sp.restrict(); err != nil {
				return err
			}
			mark()
			return tr.Apply(sp.Dest, "application/pgp-signature", chunked{bytes.NewReader(payload)})
		}
		return fmt.Errorf("unknown strategy %q", sp.Strategy)
	}
}

// the wire format of a patch set, without Dump's sort (big endian: version, count, headers, blobs)
func dumpUnsorted(p *binpatch.PatchSet) []byte {
	var b bytes.Buffer
	be32 := func(v uint32) { b.Write([]byte{byte(v >> 24), byte(v >> 16), byte(v >> 8), byte(v)}) }
	be32(1)
	be32(uint32(len(p.Patches)))
	for _, h := range p.Patches {
		be32(uint32(uint64(h.Offset) >> 32))
		be32(uint32(h.Offset))
		be32(h.OldSize)
		be32(h.NewSize)
	}
	for _, bl := range p.Blobs {
		b.Write(bl)
	}
	return b.Bytes()
}
