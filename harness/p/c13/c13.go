package c13

import (
	"bytes"
	"crypto"
	_ "crypto/sha256"
	"errors"
	"fmt"
	_ "github.com/sassoftware/relic/v8/verifharness/allsigners"
	"github.com/sassoftware/relic/v8/verifharness/core"
	"io"
	"os"
	"path/filepath"
	"runtime"

	"github.com/sassoftware/relic/v8/lib/atomicfile"
	"github.com/sassoftware/relic/v8/lib/binpatch"
	"github.com/sassoftware/relic/v8/signers"
)

type failingReader struct {
	data []byte
	pos  int
}

func (f *failingReader) Read(p []byte) (int, error) {
	if f.pos >= len(f.data) {
		return 0, errors.New("scripted read failure")
	}
	n := copy(p, f.data[f.pos:])
	f.pos += n
	return n, nil
}

// c13op <strategy> <dir> [fail]: performs ONE output phase with the real code. The orchestrator prepares
// <dir>/in.bin (input) and optionally <dir>/out.bin (old destination) beforehand and inspects the directory afterwards.
// Everything runs on the locked main thread so that strace's per-thread syscall counter is deterministic.
func init() {
	core.Commands["c13op"] = func(c *core.Ctx) error {
		runtime.LockOSThread()
		if len(c.Args) < 2 {
			return errors.New("usage: c13op <strategy> <dir> [fail]")
		}
		strategy, dir := c.Args[0], c.Args[1]
		fail := len(c.Args) > 2 && c.Args[2] == "fail"
		in := filepath.Join(dir, "in.bin")
		dest := filepath.Join(dir, "out.bin")
		payload := bytes.Repeat([]byte("NEW-CONTENT-0123456789abcdef\n"), 4000) // ~116 KB: several write calls
		var result io.Reader = struct{ io.Reader }{bytes.NewReader(payload)}    // no WriterTo: several write calls
		if fail {
			result = &failingReader{data: payload[:50000]}
		}
		switch strategy {
		case "writefile": // atomicfile.WriteFile (cosign/appmanifest style whole-file output)
			if fail {
				return errors.New("writefile has no failing variant")
			}
			return atomicfile.WriteFile(dest, payload)
		case "whole": // fileProducer.Apply with a non-patch response
			f, err := os.Open(in)
			if err != nil {
				return err
			}
			return signers.DefaultTransform(f).Apply(dest, "application/octet-stream", result)
		case "patch": // binpatch by rewrite (output path differs from input)
			f, err := os.Open(in)
			if err != nil {
				return err
			}
			st, _ := f.Stat()
			ps := binpatch.New()
			ps.Add(8, 4, []byte("PATCHED!"))
			if fail {
				ps.Add(st.Size()+100, 0, []byte("beyond EOF: CopyN fails after the temp file has content"))
			} else {
				ps.Add(st.Size(), 0, bytes.Repeat([]byte("TRAILER."), 9000))
			}
			return signers.ApplyBinPatch(f, dest, bytes.NewReader(ps.Dump()))
		case "msi": // copy-then-edit: msiTransformer.Apply via the registered module
			mode := os.O_RDONLY
			f, err := os.OpenFile(in, mode, 0)
			if err != nil {
				return err
			}
			mod := signers.ByName("msi")
			mflags, _ := mod.FlagsFromQuery(nil)
			tr, err := mod.GetTransform(f, signers.SignOpts{Flags: mflags, Hash: crypto.SHA256})
			if err != nil {
				return err
			}
			if fail {
				// the source handle cannot be read: WriteInPlace's copy fails after the temp file exists
				f.Close()
			}
			return tr.Apply(dest, "", bytes.NewReader(bytes.Repeat([]byte{0x30, 0x82}, 3000)))
		case "pgp": // detached signature output through pgpTransformer.Apply
			f, err := os.Open(in)
			if err != nil {
				return err
			}
			mod := signers.ByName("pgp")
			flags, _ := mod.FlagsFromQuery(nil)
			tr, err := mod.GetTransform(f, signers.SignOpts{Flags: flags})
			if err != nil {
				return err
			}
			return tr.Apply(dest, "application/pgp-signature", result)
		}
		return fmt.Errorf("unknown strategy %q", strategy)
	}
}
