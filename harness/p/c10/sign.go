package c10

// sign.go — real signing with timestamping enabled: signinit.Init (GetTimestamper singleton + namedTimestamper)
// -> signer module Sign -> Transform.Apply -> Fixup -> module Verify, for every signature type that supports
// timestamps, with the configured authorities played by the fake TSA.

import (
	"bytes"
	"context"
	"crypto"
	"crypto/sha256"
	"crypto/x509"
	"encoding/hex"
	"encoding/pem"
	"fmt"
	"io"
	"net/url"
	"os"
	"path/filepath"
	"strings"
	"time"

	"github.com/sassoftware/relic/v8/cmdline/shared"
	"github.com/sassoftware/relic/v8/config"
	"github.com/sassoftware/relic/v8/internal/signinit"
	"github.com/sassoftware/relic/v8/lib/pkcs7"
	"github.com/sassoftware/relic/v8/lib/pkcs9"
	"github.com/sassoftware/relic/v8/signers"
	"github.com/sassoftware/relic/v8/token"
	"github.com/sassoftware/relic/v8/token/filetoken"
	_ "github.com/sassoftware/relic/v8/verifharness/allsigners"
)

type signCase struct {
	ID      int      `json:"id"`
	Kind    string   `json:"kind"` // sign
	Type    string   `json:"type"` // signer module
	File    string   `json:"file"`
	Style   string   `json:"style"` // rfc3161 | legacy
	Pool    string   `json:"pool"`  // default (timestamp: true -> urls) | named (timestamper: nK -> namedurls) | none | flag-off
	Seq     []string `json:"seq"`
	Attrs   []attrs  `json:"attrs"`
	Hits    []int    `json:"hits"`
	Result  string   `json:"result"` // ok | err | panic | skip
	ErrText string   `json:"err_text,omitempty"`
	ReqOK   bool     `json:"req_ok"`
	ReqNote string   `json:"req_note,omitempty"`
	Retried int      `json:"retried,omitempty"`
	// observations on the output file (only when Result == ok)
	VerifyErr string `json:"verify_err,omitempty"` // relic's own verification of the output
	NSigs     int    `json:"nsigs"`
	Stamped   bool   `json:"stamped"`  // the output carries a timestamp (per relic's reader)
	Origin    int    `json:"origin"`   // which authority signed the attached timestamp
	ChainErr  string `json:"chain_err,omitempty"`
	ExtChecked bool  `json:"ext_checked"` // the token could be extracted for an independent check
	ExtOK     bool   `json:"ext_ok"`      // openssl accepts the attached token for this signature value
	ExtNote   string `json:"ext_note,omitempty"`
	// timing (authorities with a timed delivery, timed.go): when each authority was asked, when the client gave up on a
	// connection the authority kept open (-1: not before the harness cleaned up, -2: n/a), how long signing took
	HitAt    []int `json:"hit_at"`
	GoneAt   []int `json:"gone_at"`
	WallMS   int   `json:"wall_ms"`
	TimeoutS int   `json:"timeout_s"`
}

type signEnv struct {
	f      *fakeTSA
	dir    string
	tok    token.Token
	roots  *x509.CertPool
	caCert *x509.Certificate
}

const repoPackages = "functest/packages"

func repoRoot() string {
	// the harness is built with `replace => <repo>`; the sample files are read from the same tree
	if r := os.Getenv("VERIF_REPO"); r != "" {
		return r
	}
	return "/repo"
}

func (f *fakeTSA) newSignEnv(dir string) (*signEnv, error) {
	os.MkdirAll(dir, 0o755)
	tk := filepath.Join(repoRoot(), "functest/testkeys")
	var b strings.Builder
	fmt.Fprintf(&b, "tokens:\n  file:\n    type: file\nkeys:\n")
	key := func(name, extra string) {
		fmt.Fprintf(&b, "  %s:\n    token: file\n    keyfile: %s/rsa2048.key\n    x509certificate: %s/rsa2048.crt\n%s", name, tk, tk, extra)
	}
	key("kd", "    timestamp: true\n")
	key("k1", "    timestamper: n1\n")
	key("k2", "    timestamper: n2\n")
	key("k3", "    timestamper: n3\n")
	key("knone", "")
	fmt.Fprintf(&b, "timestamp:\n  timeout: 2\n  urls:\n")
	for i := 0; i < 3; i++ {
		fmt.Fprintf(&b, "    - %s/c/sd/%d\n", f.srv.URL, i)
	}
	fmt.Fprintf(&b, "  msurls:\n")
	for i := 0; i < 3; i++ {
		fmt.Fprintf(&b, "    - %s/c/sm/%d\n", f.srv.URL, i)
	}
	fmt.Fprintf(&b, "  namedurls:\n")
	for n := 1; n <= 3; n++ {
		fmt.Fprintf(&b, "    n%d:\n", n)
		for i := 0; i < n; i++ {
			fmt.Fprintf(&b, "      - %s/c/sn%d/%d\n", f.srv.URL, n, i)
		}
	}
	cpath := filepath.Join(dir, "relic.yml")
	if err := os.WriteFile(cpath, []byte(b.String()), 0o644); err != nil {
		return nil, err
	}
	cfg, err := config.ReadFile(cpath)
	if err != nil {
		return nil, err
	}
	shared.CurrentConfig = cfg
	tok, err := filetoken.Open(cfg, "file", nil)
	if err != nil {
		return nil, err
	}
	env := &signEnv{f: f, dir: dir, tok: tok, roots: x509.NewCertPool()}
	for _, pth := range []string{filepath.Join(f.p.dir, "ca.crt"), filepath.Join(tk, "rsa2048.crt")} {
		pb, err := os.ReadFile(pth)
		if err != nil {
			return nil, err
		}
		blk, _ := pem.Decode(pb)
		c, err := x509.ParseCertificate(blk.Bytes)
		if err != nil {
			return nil, err
		}
		env.roots.AddCert(c)
	}
	return env, nil
}

func trunc(s string, n int) string {
	if len(s) > n {
		return s[:n]
	}
	return s
}

func copyFile(src, dst string) error {
	in, err := os.Open(src)
	if err != nil {
		return err
	}
	defer in.Close()
	out, err := os.Create(dst)
	if err != nil {
		return err
	}
	if _, err := io.Copy(out, in); err != nil {
		out.Close()
		return err
	}
	return out.Close()
}

func (e *signEnv) run(cs *signCase) {
	cs.Origin = -1
	cs.ReqOK = true
	mod := signers.ByName(cs.Type)
	if mod == nil || mod.Sign == nil {
		cs.Result, cs.ErrText = "skip", "no such signer"
		return
	}
	// which key / URL pool
	keyName, tsaKey := "knone", ""
	q := url.Values{}
	switch cs.Pool {
	case "default":
		keyName, tsaKey = "kd", "sd"
		if cs.Style == "legacy" {
			tsaKey = "sm"
		}
	case "named":
		keyName, tsaKey = fmt.Sprintf("k%d", len(cs.Seq)), fmt.Sprintf("sn%d", len(cs.Seq))
	case "flag-off":
		keyName, tsaKey = "kd", "sd"
		q.Set("no-timestamp", "true")
	}
	if cs.Style == "legacy" {
		q.Set("rfc3161-timestamp", "false")
	}
	seq := cs.Seq
	var tc *tsaCase
	if tsaKey != "" {
		tc = &tsaCase{style: cs.Style, seq: seq, reqOK: true, sent: map[int][]byte{}, encdigFree: true, timeout: 2 * time.Second,
			t0: time.Now(), cap: 4500 * time.Millisecond, goneAt: map[int]int{}}
		cs.TimeoutS = 2
		e.f.cases.Store(tsaKey, tc)
		defer e.f.cases.Delete(tsaKey)
	}
	flags, err := mod.FlagsFromQuery(q)
	if err != nil {
		cs.Result, cs.ErrText = "skip", "flags: "+err.Error()
		return
	}
	in := filepath.Join(e.dir, "in-"+filepath.Base(cs.File))
	out := filepath.Join(e.dir, "out-"+filepath.Base(cs.File))
	os.Remove(out)
	if err := copyFile(filepath.Join(repoRoot(), repoPackages, cs.File), in); err != nil {
		cs.Result, cs.ErrText = "skip", err.Error()
		return
	}
	func() {
		defer func() {
			if r := recover(); r != nil {
				cs.Result, cs.ErrText = "panic", fmt.Sprint(r)
			}
		}()
		tStart := time.Now()
		err := e.signFile(mod, keyName, flags, in, out)
		cs.WallMS = int(time.Since(tStart) / time.Millisecond)
		slowNow := func() bool {
			if tc == nil {
				return false
			}
			tc.mu.Lock()
			defer tc.mu.Unlock()
			s := tc.slow
			tc.slow = false
			return s
		}
		hitsNow := func() []int {
			if tc == nil {
				return nil
			}
			tc.mu.Lock()
			defer tc.mu.Unlock()
			return append([]int{}, tc.hits...)
		}
		again := func() bool {
			s := slowNow()
			return s || (err != nil && (strings.HasPrefix(err.Error(), "apply:") || loadTimeout(err.Error(), seq, hitsNow())))
		}
		for try := 0; again() && try < 3; try++ {
			// unrelated to timestamps: the dmg transformer's reader goroutine can still be reading the input file
			// when Apply starts on the same descriptor (intermittent "apply: EOF"); repeat the whole operation
			cs.Retried++
			if tc != nil {
				tc.mu.Lock()
				tc.hits, tc.hitAt, tc.goneAt = nil, nil, map[int]int{}
				tc.t0 = time.Now()
				tc.mu.Unlock()
			}
			os.Remove(out)
			tStart = time.Now()
			err = e.signFile(mod, keyName, flags, in, out)
			cs.WallMS = int(time.Since(tStart) / time.Millisecond)
		}
		if err != nil {
			cs.Result, cs.ErrText = "err", trunc(err.Error(), 300)
		} else {
			cs.Result = "ok"
		}
	}()
	if tc != nil {
		time.Sleep(20 * time.Millisecond) // let a silent authority notice that the client has gone
		tc.mu.Lock()
		cs.Hits = append([]int{}, tc.hits...)
		cs.HitAt = append([]int{}, tc.hitAt...)
		for _, h := range tc.hits {
			g, ok := tc.goneAt[h]
			if !ok {
				g = -2
			}
			cs.GoneAt = append(cs.GoneAt, g)
		}
		cs.ReqOK, cs.ReqNote = tc.reqOK, tc.reqNote
		tc.mu.Unlock()
	}
	if cs.Result != "ok" {
		return
	}
	e.inspect(mod, out, cs)
}

func (e *signEnv) signFile(mod *signers.Signer, keyName string, flags *signers.FlagValues, in, out string) error {
	cert, opts, err := signinit.Init(context.Background(), mod, e.tok, keyName, crypto.SHA256, flags)
	if err != nil {
		return fmt.Errorf("init: %w", err)
	}
	opts.Path = in
	infile, err := os.Open(in)
	if err != nil {
		return err
	}
	defer infile.Close()
	transform, err := mod.GetTransform(infile, *opts)
	if err != nil {
		return fmt.Errorf("transform: %w", err)
	}
	stream, err := transform.GetReader()
	if err != nil {
		return fmt.Errorf("transform reader: %w", err)
	}
	blob, err := mod.Sign(stream, cert, *opts)
	if err != nil {
		return err
	}
	if err := transform.Apply(out, opts.Audit.GetMimeType(), bytes.NewReader(blob)); err != nil {
		return fmt.Errorf("apply: %w", err)
	}
	if mod.Fixup != nil {
		f, err := os.OpenFile(out, os.O_RDWR, 0)
		if err != nil {
			return err
		}
		defer f.Close()
		if err := mod.Fixup(f); err != nil {
			return fmt.Errorf("fixup: %w", err)
		}
	}
	return nil
}

func (e *signEnv) inspect(mod *signers.Signer, out string, cs *signCase) {
	f, err := os.Open(out)
	if err != nil {
		cs.VerifyErr = err.Error()
		return
	}
	defer f.Close()
	var sigs []*signers.Signature
	func() {
		defer func() {
			if r := recover(); r != nil {
				err = fmt.Errorf("panic: %v", r)
			}
		}()
		vo := signers.VerifyOpts{FileName: out}
		if mod.VerifyStream != nil {
			sigs, err = mod.VerifyStream(f, vo)
		} else {
			sigs, err = mod.Verify(f, vo)
		}
	}()
	if err != nil {
		cs.VerifyErr = trunc(err.Error(), 300)
		return
	}
	cs.NSigs = len(sigs)
	for _, s := range sigs {
		xs := s.X509Signature
		if xs == nil {
			continue
		}
		if err := xs.VerifyChain(e.roots, nil, x509.ExtKeyUsageAny); err != nil {
			cs.ChainErr = trunc(err.Error(), 200)
		}
		if xs.CounterSignature == nil {
			continue
		}
		cs.Stamped = true
		if c := xs.CounterSignature.Certificate; c != nil {
			for i := 0; i < nTSA; i++ {
				if e.f.p.certSerial(e.f.p.tsaName(i)) == c.SerialNumber.String() {
					cs.Origin = i
				}
			}
		}
		// independent check of the attached token, when it is a PKCS#7 attribute of the signature
		if xs.SignerInfo == nil {
			continue
		}
		var tst pkcs7.ContentInfoSignedData
		gerr := xs.SignerInfo.UnauthenticatedAttributes.GetOne(pkcs9.OidAttributeTimeStampToken, &tst)
		if gerr != nil {
			gerr = xs.SignerInfo.UnauthenticatedAttributes.GetOne(pkcs9.OidSpcTimeStampToken, &tst)
		}
		if gerr != nil {
			continue
		}
		der, merr := tst.Marshal()
		if merr != nil {
			continue
		}
		d := sha256.Sum256(xs.SignerInfo.EncryptedDigest)
		cs.ExtChecked = true
		cs.ExtOK, cs.ExtNote = e.f.p.verify3161(der, hex.EncodeToString(d[:]), e.f.p.caPEM, 0)
		cs.ExtNote = trunc(cs.ExtNote, 200)
	}
}

var signTypes = []struct{ typ, file string }{
	{"pe-coff", "WindowsFormsApplication1.exe"},
	{"jar", "hello.jar"},
	{"cat", "hyperv.cat"},
	{"appmanifest", "WindowsFormsApplication1.exe.manifest"},
	{"vsix", "VSIXProject1.vsix"},
	{"msi", "dummy.msi"},
	{"cab", "dummy.cab"},
	{"ps", "hello.ps1"},
	{"xap", "dummy.xap"},
	{"appx", "App1_1.0.3.0_x64.appx"},
	{"xar", "dummy.pkg"},
	{"dmg", "dummy.dmg"},
}

func buildSignCases(tier string) []*signCase {
	var cases []*signCase
	id := 100000
	add := func(typ, file, style, pool string, seq []string) {
		if pool == "default" || pool == "flag-off" {
			// the default pools always have three URLs; pad with authorities that are reached only if all before fail
			seq = append([]string{}, seq...)
			for len(seq) < 3 {
				seq = append(seq, "garbage")
			}
		}
		cs := &signCase{ID: id, Kind: "sign", Type: typ, File: file, Style: style, Pool: pool, Seq: seq}
		for _, n := range seq {
			cs.Attrs = append(cs.Attrs, behaviourByName(style, n).a)
		}
		cases = append(cases, cs)
		id++
	}
	nonRefused := func(bs []behaviour) []string {
		var out []string
		for _, b := range bs {
			if b.name != "refused" && b.name != "hang" {
				out = append(out, b.name)
			}
		}
		return out
	}
	b3161 := nonRefused(behaviours3161)
	for ti, t := range signTypes {
		full := ti < 5 || tier == "thorough"
		add(t.typ, t.file, "rfc3161", "none", nil)
		add(t.typ, t.file, "rfc3161", "flag-off", nil)
		add(t.typ, t.file, "rfc3161", "default", []string{"good"})
		add(t.typ, t.file, "rfc3161", "default", []string{"bad_sig", "wrong_nonce", "good"})
		add(t.typ, t.file, "rfc3161", "named", []string{"wrong_imprint", "good"})
		add(t.typ, t.file, "rfc3161", "named", []string{"rejection", "http500", "garbage"})
		if !full {
			continue
		}
		for _, b := range b3161 {
			add(t.typ, t.file, "rfc3161", "named", []string{b})
			if b != "good" {
				add(t.typ, t.file, "rfc3161", "named", []string{b, "good"})
			}
		}
		add(t.typ, t.file, "rfc3161", "named", []string{"hang", "good"})
		// end to end with authorities that misbehave in time (timed.go): stall in mid-body / drip, then a healthy one;
		// a slow but complete answer; every authority stalls or tears the reply (signing must fail)
		switch ti {
		case 0:
			add(t.typ, t.file, "rfc3161", "named", []string{"t_stall_mid_body", "good"})
			add(t.typ, t.file, "rfc3161", "named", []string{"t_slow_ok"})
		case 1:
			add(t.typ, t.file, "rfc3161", "named", []string{"t_drip", "good"})
		case 3:
			add(t.typ, t.file, "rfc3161", "named", []string{"t_stall_after_headers", "t_close_mid_body"})
		}
	}
	// legacy Microsoft style: only the application manifest signer can ask for it
	lb := nonRefused(behavioursLegacy)
	for _, b := range lb {
		add("appmanifest", "WindowsFormsApplication1.exe.manifest", "legacy", "named", []string{b})
		if b != "good" {
			add("appmanifest", "WindowsFormsApplication1.exe.manifest", "legacy", "named", []string{b, "good"})
			add("appmanifest", "WindowsFormsApplication1.exe.manifest", "legacy", "default", []string{b, b, "good"})
		}
	}
	add("appmanifest", "WindowsFormsApplication1.exe.manifest", "legacy", "default", []string{"good"})
	return cases
}
