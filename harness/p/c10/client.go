package c10

// client.go — fake timestamp authorities and the cases that drive the REAL tsclient (tsClient.Timestamp / do,
// pkcs9.NewRequest / ParseResponse / SanityCheckToken, NewLegacyRequest / ParseLegacyResponse).

import (
	"bytes"
	"context"
	"crypto"
	"crypto/sha256"
	"encoding/base64"
	"encoding/hex"
	"fmt"
	"io"
	"net"
	"net/http"
	"net/http/httptest"
	"strconv"
	"strings"
	"sync"
	"time"

	"github.com/sassoftware/relic/v8/config"
	"github.com/sassoftware/relic/v8/lib/pkcs7"
	"github.com/sassoftware/relic/v8/lib/pkcs9"
	"github.com/sassoftware/relic/v8/lib/pkcs9/tsclient"
)

// attrs is the ground truth about what an authority sends for a behaviour (decided by construction of the reply,
// cross-checked against openssl in the self-test); the oracle and the Coq model both start from it.
type attrs struct {
	Transport bool `json:"transport"` // a complete HTTP response arrives within the client's timeout
	Observed  bool `json:"observed"`  // the fake authority can see the hit (false for a refused connection)
	HTTP      int  `json:"http"`
	Parses    bool `json:"parses"`    // body is one DER TimeStampResp (3161) / base64 of a DER ContentInfo (legacy)
	Rest      int  `json:"rest"`      // trailing bytes after the TimeStampResp
	Status    int  `json:"status"`    // PKIStatus
	HasToken  bool `json:"has_token"` // a token with attached TSTInfo is present
	SigOK     bool `json:"sig_ok"`    // the token's CMS signature verifies against its embedded certificate
	Nonce     int  `json:"nonce"`     // 0 absent, 1 echo of the request nonce, 2 some other value
	Imprint   bool `json:"imprint"`   // hashed message = digest of the signature value (legacy: content = signature value)
	AlgSame   bool `json:"alg_same"`  // imprint algorithm identifier = the requested one
	CtxDead   bool `json:"ctx_dead"`  // the caller's context has expired when this attempt returns
}

type behaviour struct {
	name string
	a    attrs
}

func good() attrs {
	return attrs{Transport: true, Observed: true, HTTP: 200, Parses: true, Status: 0, HasToken: true, SigOK: true, Nonce: 1, Imprint: true, AlgSame: true}
}
func with(f func(*attrs)) attrs { a := good(); f(&a); return a }

var behaviours3161 = []behaviour{
	{"good", good()},
	{"wrong_nonce", with(func(a *attrs) { a.Nonce = 2 })},
	{"wrong_imprint", with(func(a *attrs) { a.Imprint = false })},
	{"rejection", with(func(a *attrs) { a.Status = 2; a.HasToken = false; a.SigOK = false; a.Nonce = 0; a.Imprint = false })},
	{"bad_sig", with(func(a *attrs) { a.SigOK = false })},
	{"http500", with(func(a *attrs) { a.HTTP = 500 })}, // body is a perfectly valid granted reply
	{"garbage", attrs{Transport: true, Observed: true, HTTP: 200}},
	// ---- beyond the core seven
	{"no_nonce", with(func(a *attrs) { a.Nonce = 0 })},
	{"rejection_with_token", with(func(a *attrs) { a.Status = 2 })}, // valid token but status = rejection
	{"waiting_with_token", with(func(a *attrs) { a.Status = 3 })},
	{"granted_with_mods", with(func(a *attrs) { a.Status = 1 })}, // acceptable per RFC 3161
	{"status_minus1_with_token", with(func(a *attrs) { a.Status = -1 })}, // not a PKIStatus at all
	{"trailing", with(func(a *attrs) { a.Rest = 3 })},
	{"wrong_alg_oid", with(func(a *attrs) { a.AlgSame = false })}, // same digest bytes labelled sha3-256
	{"granted_no_token", with(func(a *attrs) { a.HasToken = false; a.SigOK = false; a.Nonce = 0; a.Imprint = false })},
	{"empty_body", attrs{Transport: true, Observed: true, HTTP: 200}},
	{"refused", attrs{}},
	{"hang", attrs{Observed: true}},
}

const core3161 = 7

var behavioursLegacy = []behaviour{
	{"good", good()},
	{"wrong_content", with(func(a *attrs) { a.Imprint = false })},
	{"bad_sig", with(func(a *attrs) { a.SigOK = false })},
	{"http500", with(func(a *attrs) { a.HTTP = 500 })},
	{"garbage", attrs{Transport: true, Observed: true, HTTP: 200}},
	{"b64_not_der", attrs{Transport: true, Observed: true, HTTP: 200}},
	{"refused", attrs{}},
	{"hang", attrs{Observed: true}},
}

const coreLegacy = 5

func behaviourByName(style, name string) *behaviour {
	l := behaviours3161
	if style == "legacy" {
		l = behavioursLegacy
	}
	for i := range l {
		if l[i].name == name {
			return &l[i]
		}
	}
	for i := range behavioursTimed { // genuine content, delivered according to a timed script (timed.go); either style
		if behavioursTimed[i].name == name {
			return &behavioursTimed[i]
		}
	}
	return nil
}

// hangLike: the authority never completes its reply by itself (the client has to give up on it)
func hangLike(name string) bool {
	if name == "hang" {
		return true
	}
	if d := deliveryByName(name); d != nil {
		return !d.completes()
	}
	return false
}

// ------------------------------------------------------------------ the fake authority

type tsaCase struct {
	mu      sync.Mutex
	style   string
	seq     []string
	encdig  []byte
	hits    []int
	reqOK   bool
	reqNote string
	sent    map[int][]byte // token DER sent per URL index
	// encdigFree: the signature value is not known in advance (real signing); the request's own value is used
	encdigFree bool
	timeout    time.Duration // the client's timeout, to notice replies that were slow only because of machine load
	slow       bool
	// timed deliveries (timed.go)
	t0     time.Time   // start of the operation; hit times are relative to it
	hitAt  []int       // ms since t0, parallel to hits
	goneAt map[int]int // URL index -> ms since t0 at which the CLIENT gave up on a connection the authority kept open (-1: it never did)
	deliv  []*delivery // per URL index; nil entries / nil slice: look the behaviour name up in behavioursTimed
	cap    time.Duration // how long a silent authority keeps its connection open before the harness cleans up
}

type fakeTSA struct {
	p      *pki
	srv    *httptest.Server
	closed string // URL on which nothing listens
	cases  sync.Map
	hang   time.Duration
}

func newFakeTSA(p *pki) *fakeTSA {
	f := &fakeTSA{p: p, hang: 6 * time.Second}
	f.srv = httptest.NewServer(http.HandlerFunc(f.handle))
	l, err := net.Listen("tcp", "127.0.0.1:0")
	if err == nil {
		f.closed = "http://" + l.Addr().String() + "/closed"
		l.Close()
	}
	return f
}

func (f *fakeTSA) url(key string, idx int, name string) string {
	if name == "refused" {
		return f.closed
	}
	return fmt.Sprintf("%s/c/%s/%d", f.srv.URL, key, idx)
}

func (f *fakeTSA) handle(w http.ResponseWriter, r *http.Request) {
	parts := strings.Split(strings.Trim(r.URL.Path, "/"), "/")
	if len(parts) != 3 {
		http.Error(w, "bad path", 404)
		return
	}
	v, ok := f.cases.Load(parts[1])
	idx, _ := strconv.Atoi(parts[2])
	if !ok {
		http.Error(w, "no case", 404)
		return
	}
	tc := v.(*tsaCase)
	body, _ := io.ReadAll(r.Body)
	t0 := time.Now()
	tc.mu.Lock()
	tc.hits = append(tc.hits, idx)
	if !tc.t0.IsZero() {
		tc.hitAt = append(tc.hitAt, int(t0.Sub(tc.t0)/time.Millisecond))
	}
	name := tc.seq[idx]
	var dl *delivery
	if idx < len(tc.deliv) && tc.deliv[idx] != nil {
		dl = tc.deliv[idx]
	} else {
		dl = deliveryByName(name)
	}
	tc.mu.Unlock()
	var code int
	var out []byte
	var err error
	if tc.style == "legacy" {
		code, out, err = f.legacy(tc, idx, name, body, r)
	} else {
		code, out, err = f.rfc3161(tc, idx, name, body, r)
	}
	// the time spent producing the reply (openssl) — deliberate delays of a timed delivery come after this point
	if name != "hang" && tc.timeout > 0 && (time.Since(t0) > tc.timeout/2 || (dl != nil && time.Since(t0) > 350*time.Millisecond)) {
		tc.mu.Lock()
		tc.slow = true // openssl was starved: the client may have timed out on a reply that is not a hang
		tc.mu.Unlock()
	}
	if err != nil {
		tc.mu.Lock()
		tc.reqOK = false
		tc.reqNote += "authority error: " + err.Error() + "; "
		tc.mu.Unlock()
		http.Error(w, "fake TSA internal error: "+err.Error(), 599)
		return
	}
	if code == 0 { // hang
		select {
		case <-r.Context().Done():
		case <-time.After(f.hang):
		}
		return
	}
	ctype := "application/timestamp-reply"
	if tc.style == "legacy" {
		ctype = "application/octet-stream"
	}
	if dl != nil {
		f.play(w, tc, idx, dl, code, ctype, out, t0)
		return
	}
	w.Header().Set("Content-Type", ctype)
	w.WriteHeader(code)
	w.Write(out)
}

func flipLast(b []byte) []byte {
	c := append([]byte{}, b...)
	c[len(c)-1] ^= 0x5a
	return c
}

func (tc *tsaCase) note(bad bool, s string) {
	if bad {
		tc.mu.Lock()
		tc.reqOK = false
		tc.reqNote += s + "; "
		tc.mu.Unlock()
	}
}

func (f *fakeTSA) rfc3161(tc *tsaCase, idx int, name string, body []byte, r *http.Request) (int, []byte, error) {
	req, err := parseTSReq(body)
	if err != nil {
		tc.note(true, "request does not parse: "+err.Error())
		return 400, []byte("bad request"), nil
	}
	// request-side conformance, judged from the property text: the imprint is the digest of this signature value
	want := sha256.Sum256(tc.encdig)
	tc.note(!tc.encdigFree && !bytes.Equal(req.hashed(), want[:]), "request imprint is not SHA-256(signature value)")
	tc.note(!bytes.Equal(req.algOID(), oidSHA256), "request imprint algorithm is not SHA-256")
	tc.note(req.nonceIdx < 0, "request carries no nonce")
	tc.note(!req.certReq, "request does not ask for the certificate")
	tc.note(r.Header.Get("Content-Type") != "application/timestamp-query", "request content type")
	query := body
	switch name {
	case "hang":
		return 0, nil, nil
	case "garbage":
		return 200, []byte("<html>this is not a timestamp</html>"), nil
	case "empty_body":
		return 200, nil, nil
	case "rejection":
		return 200, buildResp(2, nil), nil
	case "granted_no_token":
		return 200, buildResp(0, nil), nil
	case "wrong_nonce":
		n := append([]byte{}, req.fields[req.nonceIdx].body...)
		n[len(n)-1] ^= 1
		query = req.rebuild(n, false, nil, nil)
	case "no_nonce":
		query = req.rebuild(nil, true, nil, nil)
	case "wrong_imprint":
		query = req.rebuild(nil, false, flipLast(req.hashed()), nil)
	case "wrong_alg_oid":
		query = req.rebuild(nil, false, nil, oidSHA3256)
	}
	resp, err := f.p.reply3161(query, idx)
	if err != nil {
		return 0, nil, err
	}
	_, token, err := splitResp(resp)
	if err != nil || token == nil {
		return 0, nil, fmt.Errorf("openssl produced no token for %s: %v", name, err)
	}
	tc.mu.Lock()
	tc.sent[idx] = token
	tc.mu.Unlock()
	switch name {
	case "bad_sig":
		tok := flipLast(token)
		tc.mu.Lock()
		tc.sent[idx] = tok
		tc.mu.Unlock()
		return 200, buildResp(0, tok), nil
	case "http500":
		return 500, resp, nil
	case "rejection_with_token":
		return 200, buildResp(2, token), nil
	case "waiting_with_token":
		return 200, buildResp(3, token), nil
	case "granted_with_mods":
		return 200, buildResp(1, token), nil
	case "status_minus1_with_token":
		return 200, buildResp(-1, token), nil
	case "trailing":
		return 200, append(append([]byte{}, resp...), 0, 0, 0), nil
	}
	return 200, resp, nil
}

func (f *fakeTSA) legacy(tc *tsaCase, idx int, name string, body []byte, r *http.Request) (int, []byte, error) {
	// MicrosoftTimeStampRequest ::= SEQUENCE { OID, [attributes], SEQUENCE { OID data, [0] OCTET STRING content } }
	content := []byte(nil)
	if top, _, err := readTLV(body); err == nil {
		if cs, err := children(top.body); err == nil && len(cs) >= 2 {
			if in, err := children(cs[len(cs)-1].body); err == nil && len(in) == 2 {
				if oct, _, err := readTLV(in[1].body); err == nil && oct.tag == 0x04 {
					content = oct.body
				}
			}
		}
	}
	tc.note(content == nil, "legacy request does not parse")
	base := tc.encdig
	if tc.encdigFree {
		base = content
	}
	tc.note(!bytes.Equal(content, base), "legacy request content is not the signature value")
	switch name {
	case "hang":
		return 0, nil, nil
	case "garbage":
		return 200, []byte("<html>this is not a timestamp</html>"), nil
	case "b64_not_der":
		return 200, []byte(base64.StdEncoding.EncodeToString([]byte("this is not DER at all"))), nil
	case "wrong_content":
		content = flipLast(base)
	default:
		content = base
	}
	tok, err := f.p.legacyToken(content, idx)
	if err != nil {
		return 0, nil, err
	}
	if name == "bad_sig" {
		tok = flipLast(tok)
	}
	tc.mu.Lock()
	tc.sent[idx] = tok
	tc.mu.Unlock()
	out := []byte(base64.StdEncoding.EncodeToString(tok))
	if name == "http500" {
		return 500, out, nil
	}
	return 200, out, nil
}

// ------------------------------------------------------------------ client cases

type clientCase struct {
	ID      int      `json:"id"`
	Kind    string   `json:"kind"`  // client
	Style   string   `json:"style"` // rfc3161 | legacy
	Seq     []string `json:"seq"`
	Attrs   []attrs  `json:"attrs"`
	CtxMS   int      `json:"ctx_ms,omitempty"` // caller context deadline (0 = none)
	EncDig  string   `json:"encdig"`
	Hits    []int    `json:"hits"`
	Result  string   `json:"result"` // ok | err | panic
	Origin  int      `json:"origin"` // URL index whose authority signed the returned token, -1 none/unknown
	SameDER bool     `json:"same_der"`
	ErrText string   `json:"err_text,omitempty"`
	ReqOK   bool     `json:"req_ok"`
	ReqNote string   `json:"req_note,omitempty"`
	ExtOK   bool     `json:"ext_ok"` // openssl accepts the returned token for this signature value
	ExtNote string   `json:"ext_note,omitempty"`
	WallMS  int      `json:"wall_ms"`
	Retried int      `json:"retried,omitempty"`
}

func (f *fakeTSA) originOf(tok *pkcs7.ContentInfoSignedData) int {
	if tok == nil || len(tok.Content.SignerInfos) == 0 || tok.Content.SignerInfos[0].IssuerAndSerialNumber.SerialNumber == nil {
		return -1
	}
	sn := tok.Content.SignerInfos[0].IssuerAndSerialNumber.SerialNumber.String()
	for i := 0; i < nTSA; i++ {
		if f.p.certSerial(f.p.tsaName(i)) == sn {
			return i
		}
	}
	return -1
}

func (f *fakeTSA) register(key, style string, seq []string, encdig []byte) (*tsaCase, []string) {
	tc := &tsaCase{style: style, seq: seq, encdig: encdig, reqOK: true, sent: map[int][]byte{}}
	f.cases.Store(key, tc)
	urls := make([]string, len(seq))
	for i, n := range seq {
		urls[i] = f.url(key, i, n)
	}
	return tc, urls
}

func (f *fakeTSA) runClient(cs *clientCase) {
	for try := 0; try < 4; try++ {
		*cs = clientCase{ID: cs.ID, Kind: cs.Kind, Style: cs.Style, Seq: cs.Seq, Attrs: cs.Attrs, CtxMS: cs.CtxMS, EncDig: cs.EncDig, Retried: try}
		if !f.runClientOnce(cs) {
			return
		}
	}
}

// loadTimeout: the operation failed with a client-side timeout on an authority that does not hang by design —
// the machine was too busy for openssl to answer in time; such a run says nothing about relic and is repeated.
func loadTimeout(errText string, seq []string, hits []int) bool {
	if !strings.Contains(errText, "Client.Timeout") && !strings.Contains(errText, "deadline exceeded") {
		return false
	}
	return len(hits) > 0 && hits[len(hits)-1] < len(seq) && !hangLike(seq[hits[len(hits)-1]])
}

// runClientOnce reports whether the run must be repeated because the fake authority itself was too slow
func (f *fakeTSA) runClientOnce(cs *clientCase) (slow bool) {
	encdig, _ := hex.DecodeString(cs.EncDig)
	key := "k" + strconv.Itoa(cs.ID)
	tc, urls := f.register(key, cs.Style, cs.Seq, encdig)
	defer f.cases.Delete(key)
	conf := &config.TimestampConfig{Timeout: 2}
	tc.timeout = 2 * time.Second
	req := &pkcs9.Request{EncryptedDigest: encdig, Hash: crypto.SHA256}
	if cs.Style == "legacy" {
		conf.MsURLs = urls
		req.Legacy = true
	} else {
		conf.URLs = urls
	}
	ctx := context.Background()
	if cs.CtxMS > 0 {
		tc.timeout = time.Duration(cs.CtxMS) * time.Millisecond
		var cancel context.CancelFunc
		ctx, cancel = context.WithTimeout(ctx, time.Duration(cs.CtxMS)*time.Millisecond)
		defer cancel()
	}
	t0 := time.Now()
	var tok *pkcs7.ContentInfoSignedData
	func() {
		defer func() {
			if r := recover(); r != nil {
				cs.Result = "panic"
				cs.ErrText = fmt.Sprint(r)
			}
		}()
		cl, err := tsclient.New(conf)
		if err != nil {
			cs.Result, cs.ErrText = "err", "New: "+err.Error()
			return
		}
		var err2 error
		tok, err2 = cl.Timestamp(ctx, req)
		switch {
		case err2 != nil:
			cs.Result, cs.ErrText = "err", err2.Error()
			if len(cs.ErrText) > 300 {
				cs.ErrText = cs.ErrText[:300]
			}
		case tok == nil:
			cs.Result = "ok-nil" // success without a token: would be an unstamped success
		default:
			cs.Result = "ok"
		}
	}()
	cs.WallMS = int(time.Since(t0) / time.Millisecond)
	tc.mu.Lock()
	cs.Hits = append([]int{}, tc.hits...)
	cs.ReqOK, cs.ReqNote = tc.reqOK, tc.reqNote
	slow = tc.slow
	tc.mu.Unlock()
	if cs.Result == "err" && loadTimeout(cs.ErrText, cs.Seq, cs.Hits) {
		slow = true
	}
	cs.Origin = -1
	if cs.Result == "ok" {
		cs.Origin = f.originOf(tok)
		der, err := tok.Marshal()
		if err != nil {
			cs.ExtNote = "marshal: " + err.Error()
			return slow
		}
		tc.mu.Lock()
		sent := tc.sent[cs.Origin]
		tc.mu.Unlock()
		cs.SameDER = bytes.Equal(der, sent)
		if cs.Style == "legacy" {
			cs.ExtOK, cs.ExtNote = f.p.verifyLegacy(der, encdig, f.p.caPEM)
		} else {
			d := sha256.Sum256(encdig)
			cs.ExtOK, cs.ExtNote = f.p.verify3161(der, hex.EncodeToString(d[:]), f.p.caPEM, 0)
		}
		if len(cs.ExtNote) > 300 {
			cs.ExtNote = cs.ExtNote[len(cs.ExtNote)-300:]
		}
	}
	return slow
}

func seqs(names []string, n int) [][]string {
	if n == 0 {
		return [][]string{{}}
	}
	var out [][]string
	for _, s := range seqs(names, n-1) {
		for _, b := range names {
			out = append(out, append(append([]string{}, s...), b))
		}
	}
	return out
}

func names(bs []behaviour, n int) []string {
	var out []string
	for i := 0; i < n && i < len(bs); i++ {
		out = append(out, bs[i].name)
	}
	return out
}

func buildClientCases(tier string) []*clientCase {
	var cases []*clientCase
	id := 0
	add := func(style string, seq []string, ctxms int) {
		cs := &clientCase{ID: id, Kind: "client", Style: style, Seq: seq, CtxMS: ctxms}
		d := sha256.Sum256([]byte(fmt.Sprintf("signature value %d", id)))
		cs.EncDig = hex.EncodeToString(append(d[:], d[:]...))
		for i, n := range seq {
			a := behaviourByName(style, n).a
			if ctxms > 0 && n == "hang" && i >= 0 {
				a.CtxDead = true
			}
			cs.Attrs = append(cs.Attrs, a)
		}
		cases = append(cases, cs)
		id++
	}
	all := names(behaviours3161, len(behaviours3161))
	core := names(behaviours3161, core3161)
	nohang := all[:len(all)-1]
	add("rfc3161", []string{}, 0) // no URL configured
	for _, s := range seqs(all, 1) {
		add("rfc3161", s, 0)
	}
	for _, s := range seqs(all, 2) {
		add("rfc3161", s, 0)
	}
	if tier == "thorough" {
		for _, s := range seqs(nohang, 3) {
			add("rfc3161", s, 0)
		}
	} else {
		for _, s := range seqs(core, 3) {
			add("rfc3161", s, 0)
		}
		// every non-core behaviour in first, middle and last position next to good / failing neighbours
		for _, b := range all[core3161 : len(all)-1] {
			add("rfc3161", []string{b, "wrong_nonce", "good"}, 0)
			add("rfc3161", []string{"http500", b, "good"}, 0)
			add("rfc3161", []string{"bad_sig", "rejection", b}, 0)
		}
	}
	// caller's context expires during the first attempt: no further authority may be tried, signing must fail
	add("rfc3161", []string{"hang", "good"}, 800)
	add("rfc3161", []string{"bad_sig", "hang", "good"}, 800)
	lall := names(behavioursLegacy, len(behavioursLegacy))
	lcore := names(behavioursLegacy, coreLegacy)
	add("legacy", []string{}, 0)
	for _, s := range seqs(lall, 1) {
		add("legacy", s, 0)
	}
	for _, s := range seqs(lall, 2) {
		add("legacy", s, 0)
	}
	if tier == "thorough" {
		for _, s := range seqs(lall[:len(lall)-1], 3) {
			add("legacy", s, 0)
		}
	} else {
		for _, s := range seqs(lcore[:4], 3) {
			add("legacy", s, 0)
		}
	}
	return cases
}

func runParallel(n int, workers int, fn func(i int)) {
	var wg sync.WaitGroup
	ch := make(chan int)
	for w := 0; w < workers; w++ {
		wg.Add(1)
		go func() {
			defer wg.Done()
			for i := range ch {
				fn(i)
			}
		}()
	}
	for i := 0; i < n; i++ {
		ch <- i
	}
	close(ch)
	wg.Wait()
}
