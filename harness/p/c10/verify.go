package c10

// verify.go — verification side: PKCS#7 signatures by leaf certificates minted with validity windows around the
// attested time, carrying timestamp tokens (made with `openssl cms`, chosen genTime) by TSA certificates with
// their own windows / trust / key usage.  Driven through the REAL pkcs7.Unmarshal, SignedData.Verify,
// pkcs9.VerifyOptionalTimestamp (VerifyPkcs7 / Verify / MessageImprint.Verify / finishVerify) and
// TimestampedSignature.VerifyChain.

import (
	"crypto"
	"crypto/sha256"
	"crypto/x509"
	"encoding/asn1"
	"fmt"
	"time"

	"github.com/sassoftware/relic/v8/lib/pkcs7"
	"github.com/sassoftware/relic/v8/lib/pkcs9"
)

type window struct {
	Name string `json:"name"`
	NB   int64  `json:"nb"`
	NA   int64  `json:"na"`
}

type verifyCase struct {
	ID    int    `json:"id"`
	Kind  string `json:"kind"` // verify
	Form  string `json:"form"` // token (RFC 3161 token attribute) | countersig (PKCS#9 counterSignature attribute)
	Now   int64  `json:"now"`
	T     int64  `json:"t"` // attested time in the token (0 = the zero time 0001-01-01)
	Leaf  window `json:"leaf"`
	Token string `json:"token"` // none valid transplanted bad_sig wrong_alg detached zero_time
	TSA   window `json:"tsa"`
	// ground truth about the token / TSA, by construction
	TSATrusted bool `json:"tsa_trusted"`
	TSAEKU     bool `json:"tsa_eku"`
	TokSigOK   bool `json:"tok_sig_ok"`
	TokImprint bool `json:"tok_imprint"` // imprint bytes = H(this signature value)
	TokAlgOK   bool `json:"tok_alg_ok"`  // the claimed algorithm is the one that produced the bytes
	TokContent bool `json:"tok_content"` // TSTInfo attached
	// observations
	SigErr   string `json:"sig_err,omitempty"` // pkcs7 verify of the parent
	TSResult string `json:"ts_result"`         // none | ok | err | panic
	TSErr    string `json:"ts_err,omitempty"`
	CSTime   int64  `json:"cs_time"`
	Chain    string `json:"chain"` // ok | err | n/a
	ChainErr string `json:"chain_err,omitempty"`
	Accepted bool   `json:"accepted"`
}

func unix(y int, m time.Month, d int) time.Time { return time.Date(y, m, d, 0, 0, 0, 0, time.UTC) }

type verifyEnv struct {
	p       *pki
	root    *mintedCert
	rogue   *mintedCert
	roots   *x509.CertPool
	tAttest time.Time
	now     time.Time
}

func (p *pki) newVerifyEnv() (*verifyEnv, error) {
	e := &verifyEnv{p: p, tAttest: unix(2022, 6, 1), now: time.Now().UTC()}
	var err error
	if e.root, err = p.mint("C10 verify root", 0, nil, true, nil, unix(2015, 1, 1), unix(2045, 1, 1)); err != nil {
		return nil, err
	}
	if e.rogue, err = p.mint("C10 verify rogue root", 1, nil, true, nil, unix(2015, 1, 1), unix(2045, 1, 1)); err != nil {
		return nil, err
	}
	e.roots = x509.NewCertPool()
	e.roots.AddCert(e.root.cert)
	return e, nil
}

func (e *verifyEnv) windows() []window {
	T := e.tAttest.Unix()
	w := func(n string, a, b time.Time) window { return window{n, a.Unix(), b.Unix()} }
	return []window{
		w("covers_T_and_now", unix(2020, 1, 1), unix(2040, 1, 1)),
		w("covers_T_expired_now", unix(2021, 1, 1), unix(2023, 1, 1)),
		w("expired_before_T", unix(2019, 1, 1), unix(2021, 1, 1)),
		w("not_yet_at_T_valid_now", unix(2024, 1, 1), unix(2040, 1, 1)),
		{"ends_exactly_at_T", unix(2021, 1, 1).Unix(), T},
		{"ends_1s_before_T", unix(2021, 1, 1).Unix(), T - 1},
		{"starts_exactly_at_T", T, unix(2023, 1, 1).Unix()},
		{"starts_1s_after_T", T + 1, unix(2023, 1, 1).Unix()},
	}
}

type parentSig struct {
	psd    *pkcs7.ContentInfoSignedData
	encdig []byte
}

func (e *verifyEnv) parent(leaf *mintedCert, extra []*x509.Certificate, content string) (*parentSig, error) {
	certs := append([]*x509.Certificate{leaf.cert}, extra...)
	b := pkcs7.NewBuilder(leaf.key, certs, crypto.SHA256)
	if err := b.SetContentData([]byte(content)); err != nil {
		return nil, err
	}
	psd, err := b.Sign()
	if err != nil {
		return nil, err
	}
	return &parentSig{psd: psd, encdig: psd.Content.SignerInfos[0].EncryptedDigest}, nil
}

func genTimeStr(t time.Time) string { return t.UTC().Format("20060102150405Z") }

func (e *verifyEnv) run(cs *verifyCase, serial int) error {
	leaf, err := e.p.mint("C10 leaf "+cs.Leaf.Name, 2, e.root, false, []x509.ExtKeyUsage{x509.ExtKeyUsageCodeSigning},
		time.Unix(cs.Leaf.NB, 0), time.Unix(cs.Leaf.NA, 0))
	if err != nil {
		return err
	}
	var tsa *mintedCert
	if cs.Token != "none" {
		issuer := e.root
		if !cs.TSATrusted {
			issuer = e.rogue
		}
		eku := []x509.ExtKeyUsage{x509.ExtKeyUsageTimeStamping}
		if !cs.TSAEKU {
			eku = []x509.ExtKeyUsage{x509.ExtKeyUsageCodeSigning}
		}
		if tsa, err = e.p.mint("C10 tsa "+cs.TSA.Name, 3, issuer, false, eku, time.Unix(cs.TSA.NB, 0), time.Unix(cs.TSA.NA, 0)); err != nil {
			return err
		}
	}
	var extra []*x509.Certificate
	if cs.Form == "countersig" && tsa != nil {
		extra = append(extra, tsa.cert) // the counterSignature form takes its certificates from the parent
	}
	par, err := e.parent(leaf, extra, fmt.Sprintf("content %d", cs.ID))
	if err != nil {
		return err
	}
	other, err := e.parent(leaf, extra, fmt.Sprintf("some other content %d", cs.ID))
	if err != nil {
		return err
	}
	si := &par.psd.Content.SignerInfos[0]
	if cs.Token != "none" {
		target := par.encdig
		if cs.Token == "transplanted" {
			target = other.encdig // a timestamp issued for a different signature value
		}
		if cs.Form == "countersig" {
			tok, err := e.p.cmsSign(target, tsa.crtPath, tsa.keyPath, "", "")
			if err != nil {
				return err
			}
			raw, err := extractSignerInfo(tok)
			if err != nil {
				return err
			}
			if cs.Token == "bad_sig" {
				raw = flipLast(raw)
			}
			if err := si.UnauthenticatedAttributes.Add(pkcs9.OidAttributeCounterSign, asn1.RawValue{FullBytes: raw}); err != nil {
				return err
			}
		} else {
			d := sha256.Sum256(target)
			alg := oidSHA256
			if cs.Token == "wrong_alg" {
				alg = oidSHA384 // 32 bytes that are SHA-256 of the value, labelled SHA-384
			}
			gt := genTimeStr(time.Unix(cs.T, 0))
			if cs.Token == "zero_time" {
				gt = "00010101000000Z"
			}
			tok, err := e.p.customToken(alg, d[:], gt, tsa, int64(serial))
			if err != nil {
				return err
			}
			if cs.Token == "bad_sig" {
				tok = flipLast(tok)
			}
			ptok, err := pkcs7.Unmarshal(tok)
			if err != nil {
				return fmt.Errorf("relic cannot parse the openssl token: %w", err)
			}
			if cs.Token == "detached" {
				if _, err := ptok.Detach(); err != nil {
					return err
				}
			}
			if err := pkcs9.AddStampToSignedData(si, *ptok); err != nil {
				return err
			}
		}
	}
	blob, err := par.psd.Marshal()
	if err != nil {
		return err
	}
	// ---- the verifier
	cs.Chain = "n/a"
	func() {
		defer func() {
			if r := recover(); r != nil {
				cs.TSResult, cs.TSErr = "panic", fmt.Sprint(r)
			}
		}()
		psd, err := pkcs7.Unmarshal(blob)
		if err != nil {
			cs.SigErr = "unmarshal: " + err.Error()
			return
		}
		sig, err := psd.Content.Verify(nil, false)
		if err != nil {
			cs.SigErr = err.Error()
			return
		}
		ts, err := pkcs9.VerifyOptionalTimestamp(sig)
		if err != nil {
			cs.TSResult, cs.TSErr = "err", trunc(err.Error(), 200)
			return
		}
		if ts.CounterSignature == nil {
			cs.TSResult = "none"
		} else {
			cs.TSResult = "ok"
			if !ts.CounterSignature.SigningTime.IsZero() {
				cs.CSTime = ts.CounterSignature.SigningTime.Unix()
			}
		}
		if err := ts.VerifyChain(e.roots, nil, x509.ExtKeyUsageAny); err != nil {
			cs.Chain, cs.ChainErr = "err", trunc(err.Error(), 200)
		} else {
			cs.Chain = "ok"
			cs.Accepted = true
		}
	}()
	return nil
}

// extractSignerInfo returns the DER of the single SignerInfo of a CMS SignedData.
func extractSignerInfo(cms []byte) ([]byte, error) {
	top, _, err := readTLV(cms)
	if err != nil {
		return nil, err
	}
	cs, err := children(top.body)
	if err != nil || len(cs) != 2 {
		return nil, fmt.Errorf("cms: bad ContentInfo")
	}
	sd, _, err := readTLV(cs[1].body)
	if err != nil {
		return nil, err
	}
	fs, err := children(sd.body)
	if err != nil || len(fs) < 4 {
		return nil, fmt.Errorf("cms: bad SignedData")
	}
	set := fs[len(fs)-1]
	if set.tag != 0x31 {
		return nil, fmt.Errorf("cms: signerInfos not last")
	}
	si, _, err := readTLV(set.body)
	if err != nil {
		return nil, err
	}
	return si.full, nil
}

func (e *verifyEnv) buildCases() []*verifyCase {
	var out []*verifyCase
	id := 200000
	ws := e.windows()
	T := e.tAttest.Unix()
	now := e.now.Unix()
	add := func(form string, leaf window, token string, tsa window, trusted, eku bool, t int64) {
		cs := &verifyCase{ID: id, Kind: "verify", Form: form, Now: now, T: t, Leaf: leaf, Token: token, TSA: tsa,
			TSATrusted: trusted, TSAEKU: eku, TokSigOK: token != "bad_sig" && token != "none", TokImprint: token != "transplanted" && token != "none",
			TokAlgOK: token != "wrong_alg" && token != "none", TokContent: token != "detached" && token != "none"}
		if token == "zero_time" {
			cs.T = 0
		}
		if token == "none" {
			cs.T, cs.TSA = 0, window{}
		}
		out = append(out, cs)
		id++
	}
	for _, lw := range ws {
		add("token", lw, "none", window{}, false, false, 0)
		for _, tw := range ws[:4] {
			add("token", lw, "valid", tw, true, true, T)
		}
		add("token", lw, "valid", ws[0], false, true, T) // TSA chains to an unknown root
		add("token", lw, "valid", ws[0], true, false, T) // TSA certificate lacks the timeStamping purpose
		for _, k := range []string{"transplanted", "bad_sig", "wrong_alg", "detached", "zero_time"} {
			add("token", lw, k, ws[0], true, true, T)
		}
	}
	// boundary windows for the TSA certificate as well
	for _, tw := range ws[4:] {
		add("token", ws[1], "valid", tw, true, true, T)
	}
	// PKCS#9 counterSignature form: openssl stamps signingTime = now, so the attested time is the present
	cur := window{"covers_now", unix(2020, 1, 1).Unix(), unix(2040, 1, 1).Unix()}
	for _, lw := range []window{ws[0], ws[1]} {
		add("countersig", lw, "valid", cur, true, true, -1)
		add("countersig", lw, "transplanted", cur, true, true, -1)
		add("countersig", lw, "bad_sig", cur, true, true, -1)
		add("countersig", lw, "valid", cur, false, true, -1)
		add("countersig", lw, "valid", ws[1], true, true, -1) // TSA certificate expired at the attested (= present) time
	}
	return out
}
