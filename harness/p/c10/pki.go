// Package c10: correspondence driver for property C10 (timestamps).
//
// pki.go — throwaway PKI and token production that is independent of relic:
//   - a CA, three TSA certificates (one per configured URL index) and a rogue CA/TSA are created with the
//     openssl command line in the scratch directory at check time;
//   - genuine RFC 3161 replies come from `openssl ts -reply`; legacy Microsoft tokens and tokens with a chosen
//     genTime come from `openssl cms -sign`;
//   - requests/replies are mutated with a tiny DER reader/writer defined here (no relic code, no encoding/asn1
//     structures shared with relic).
package c10

import (
	"bytes"
	"crypto/rand"
	"crypto/rsa"
	"crypto/x509"
	"crypto/x509/pkix"
	"encoding/pem"
	"errors"
	"fmt"
	"math/big"
	"os"
	"os/exec"
	"path/filepath"
	"strings"
	"sync"
	"sync/atomic"
	"time"
)

// ------------------------------------------------------------------ minimal DER

type tlv struct {
	tag  byte
	body []byte
	full []byte
}

func readTLV(b []byte) (t tlv, rest []byte, err error) {
	if len(b) < 2 {
		return t, nil, errors.New("der: short")
	}
	t.tag = b[0]
	n := int(b[1])
	hdr := 2
	if n&0x80 != 0 {
		k := n & 0x7f
		if k == 0 || k > 4 || len(b) < 2+k {
			return t, nil, errors.New("der: bad length")
		}
		n = 0
		for i := 0; i < k; i++ {
			n = n<<8 | int(b[2+i])
		}
		hdr = 2 + k
	}
	if len(b) < hdr+n {
		return t, nil, errors.New("der: truncated")
	}
	t.body = b[hdr : hdr+n]
	t.full = b[:hdr+n]
	return t, b[hdr+n:], nil
}

func children(body []byte) ([]tlv, error) {
	var out []tlv
	for len(body) > 0 {
		t, rest, err := readTLV(body)
		if err != nil {
			return nil, err
		}
		out = append(out, t)
		body = rest
	}
	return out, nil
}

func derLen(n int) []byte {
	switch {
	case n < 0x80:
		return []byte{byte(n)}
	case n < 0x100:
		return []byte{0x81, byte(n)}
	case n < 0x10000:
		return []byte{0x82, byte(n >> 8), byte(n)}
	default:
		return []byte{0x83, byte(n >> 16), byte(n >> 8), byte(n)}
	}
}

func wrap(tag byte, parts ...[]byte) []byte {
	body := bytes.Join(parts, nil)
	out := append([]byte{tag}, derLen(len(body))...)
	return append(out, body...)
}

// derInt encodes a non-negative INTEGER
func derInt(v int64) []byte {
	b := big.NewInt(v).Bytes()
	if len(b) == 0 || b[0]&0x80 != 0 {
		b = append([]byte{0}, b...)
	}
	return wrap(0x02, b)
}

var (
	oidSHA256  = []byte{0x06, 0x09, 0x60, 0x86, 0x48, 0x01, 0x65, 0x03, 0x04, 0x02, 0x01}
	oidSHA384  = []byte{0x06, 0x09, 0x60, 0x86, 0x48, 0x01, 0x65, 0x03, 0x04, 0x02, 0x02}
	oidSHA3256 = []byte{0x06, 0x09, 0x60, 0x86, 0x48, 0x01, 0x65, 0x03, 0x04, 0x02, 0x08}
	oidPolicy  = []byte{0x06, 0x09, 0x2b, 0x06, 0x01, 0x04, 0x01, 0x86, 0x8d, 0x1f, 0x01} // 1.3.6.1.4.1.99999.1
)

// ------------------------------------------------------------------ request inspection / mutation (RFC 3161 TimeStampReq)

type tsReq struct {
	fields   []tlv
	imprint  []tlv // [algorithm SEQUENCE, hashedMessage OCTET STRING]
	nonceIdx int   // index in fields, -1 if absent
	certReq  bool
}

func parseTSReq(b []byte) (*tsReq, error) {
	top, rest, err := readTLV(b)
	if err != nil || top.tag != 0x30 || len(rest) != 0 {
		return nil, errors.New("TimeStampReq: not a single SEQUENCE")
	}
	fs, err := children(top.body)
	if err != nil || len(fs) < 2 || fs[0].tag != 0x02 || fs[1].tag != 0x30 {
		return nil, errors.New("TimeStampReq: bad fields")
	}
	r := &tsReq{fields: fs, nonceIdx: -1}
	if r.imprint, err = children(fs[1].body); err != nil || len(r.imprint) != 2 || r.imprint[1].tag != 0x04 {
		return nil, errors.New("TimeStampReq: bad imprint")
	}
	for i := 2; i < len(fs); i++ {
		switch fs[i].tag {
		case 0x02:
			r.nonceIdx = i
		case 0x01:
			r.certReq = len(fs[i].body) == 1 && fs[i].body[0] != 0
		}
	}
	return r, nil
}

func (r *tsReq) hashed() []byte { return r.imprint[1].body }
func (r *tsReq) algOID() []byte {
	cs, _ := children(r.imprint[0].body)
	if len(cs) == 0 {
		return nil
	}
	return cs[0].full
}

// rebuild with optional replacements
func (r *tsReq) rebuild(newNonce []byte, dropNonce bool, newHashed []byte, newAlgOID []byte) []byte {
	var parts [][]byte
	for i, f := range r.fields {
		switch {
		case i == 1 && (newHashed != nil || newAlgOID != nil):
			alg := r.imprint[0].full
			if newAlgOID != nil {
				alg = wrap(0x30, newAlgOID, []byte{0x05, 0x00})
			}
			h := r.imprint[1].full
			if newHashed != nil {
				h = wrap(0x04, newHashed)
			}
			parts = append(parts, wrap(0x30, alg, h))
		case i == r.nonceIdx && dropNonce:
		case i == r.nonceIdx && newNonce != nil:
			parts = append(parts, wrap(0x02, newNonce))
		default:
			parts = append(parts, f.full)
		}
	}
	return wrap(0x30, parts...)
}

// TimeStampResp ::= SEQUENCE { status PKIStatusInfo, timeStampToken OPTIONAL }
func splitResp(b []byte) (status tlv, token []byte, err error) {
	top, _, err := readTLV(b)
	if err != nil {
		return
	}
	cs, err := children(top.body)
	if err != nil || len(cs) == 0 {
		return status, nil, errors.New("TimeStampResp: bad")
	}
	status = cs[0]
	if len(cs) > 1 {
		token = cs[1].full
	}
	return
}

func buildResp(status int64, token []byte) []byte {
	if status < 0 { // only -1 is needed: INTEGER 0xFF
		return wrap(0x30, wrap(0x30, wrap(0x02, []byte{0xff})), token)
	}
	st := wrap(0x30, derInt(status))
	if status >= 2 {
		st = wrap(0x30, derInt(status), wrap(0x03, []byte{0x06, 0x80})) // failInfo badAlg, arbitrary
	}
	return wrap(0x30, st, token)
}

// ------------------------------------------------------------------ openssl PKI

type pki struct {
	dir    string
	caPEM  string
	nextSn int64
	slots  chan int // free working directories for `openssl ts` (each has its own serial file)
}

const opensslCnf = `
[req]
distinguished_name = dn
prompt = no
[dn]
CN = x
[v3_ca]
basicConstraints = critical,CA:TRUE
keyUsage = critical,keyCertSign,cRLSign
subjectKeyIdentifier = hash
[v3_tsa]
basicConstraints = CA:FALSE
keyUsage = critical,digitalSignature
extendedKeyUsage = critical,timeStamping
subjectKeyIdentifier = hash
authorityKeyIdentifier = keyid
[tsa]
default_tsa = tsa0
[tsa0]
dir = .
serial = $dir/serial
crypto_device = builtin
signer_cert = $dir/../tsa0.crt
certs = $dir/../ca.crt
signer_key = $dir/../tsa0.key
signer_digest = sha256
default_policy = 1.3.6.1.4.1.99999.1
other_policies = 1.3.6.1.4.1.99999.2
digests = sha1, sha256, sha384, sha512, sha3-256
accuracy = secs:1
ordering = no
tsa_name = no
ess_cert_id_chain = no
ess_cert_id_alg = sha256
`

func sh(dir string, stdin []byte, name string, args ...string) ([]byte, error) {
	cmd := exec.Command(name, args...)
	cmd.Dir = dir
	if stdin != nil {
		cmd.Stdin = bytes.NewReader(stdin)
	}
	var out, errb bytes.Buffer
	cmd.Stdout, cmd.Stderr = &out, &errb
	if err := cmd.Run(); err != nil {
		return out.Bytes(), fmt.Errorf("%s %s: %v: %s", name, strings.Join(args, " "), err, errb.String())
	}
	return out.Bytes(), nil
}

const nTSA = 3
const nSlots = 16

func newPKI(dir string) (*pki, error) {
	if err := os.MkdirAll(dir, 0o755); err != nil {
		return nil, err
	}
	p := &pki{dir: dir, nextSn: 1000, slots: make(chan int, nSlots)}
	if err := os.WriteFile(filepath.Join(dir, "tsa.cnf"), []byte(opensslCnf), 0o644); err != nil {
		return nil, err
	}
	mk := func(ca, caCN string, tsas []string) error {
		if _, err := sh(dir, nil, "openssl", "req", "-x509", "-newkey", "rsa:2048", "-nodes", "-keyout", ca+".key", "-out", ca+".crt",
			"-subj", "/CN="+caCN, "-days", "3650", "-config", "tsa.cnf", "-extensions", "v3_ca"); err != nil {
			return err
		}
		for _, t := range tsas {
			if _, err := sh(dir, nil, "openssl", "req", "-newkey", "rsa:2048", "-nodes", "-keyout", t+".key", "-out", t+".csr",
				"-subj", "/CN=C10 "+t, "-config", "tsa.cnf"); err != nil {
				return err
			}
			if _, err := sh(dir, nil, "openssl", "x509", "-req", "-in", t+".csr", "-CA", ca+".crt", "-CAkey", ca+".key", "-CAcreateserial",
				"-out", t+".crt", "-days", "3000", "-extfile", "tsa.cnf", "-extensions", "v3_tsa"); err != nil {
				return err
			}
		}
		return nil
	}
	if err := mk("ca", "C10 Test CA", []string{"tsa0", "tsa1", "tsa2"}); err != nil {
		return nil, err
	}
	if err := mk("rogueca", "C10 Rogue CA", []string{"roguetsa"}); err != nil {
		return nil, err
	}
	for i := 0; i < nSlots; i++ {
		if err := os.MkdirAll(filepath.Join(dir, fmt.Sprintf("w%d", i)), 0o755); err != nil {
			return nil, err
		}
		p.slots <- i
	}
	p.caPEM = filepath.Join(dir, "ca.crt")
	return p, nil
}

func (p *pki) tsaName(i int) string {
	if i < 0 {
		return "roguetsa"
	}
	return fmt.Sprintf("tsa%d", i%nTSA)
}

// tsaSerial returns the certificate serial (decimal string) of TSA i, used to recognise who signed a token.
func (p *pki) certSerial(name string) string {
	b, err := os.ReadFile(filepath.Join(p.dir, name+".crt"))
	if err != nil {
		return ""
	}
	blk, _ := pem.Decode(b)
	c, err := x509.ParseCertificate(blk.Bytes)
	if err != nil {
		return ""
	}
	return c.SerialNumber.String()
}

// reply3161 runs `openssl ts -reply` on the query with TSA number i; returns the DER TimeStampResp.
func (p *pki) reply3161(query []byte, i int) ([]byte, error) {
	slot := <-p.slots
	defer func() { p.slots <- slot }()
	w := filepath.Join(p.dir, fmt.Sprintf("w%d", slot))
	sn := atomic.AddInt64(&p.nextSn, 1)
	if err := os.WriteFile(filepath.Join(w, "serial"), []byte(fmt.Sprintf("%08X\n", sn)), 0o644); err != nil {
		return nil, err
	}
	if err := os.WriteFile(filepath.Join(w, "q.tsq"), query, 0o644); err != nil {
		return nil, err
	}
	os.Remove(filepath.Join(w, "r.tsr"))
	t := p.tsaName(i)
	chain := "../ca.crt"
	if i < 0 {
		chain = "../rogueca.crt"
	}
	if _, err := sh(w, nil, "openssl", "ts", "-reply", "-config", "../tsa.cnf", "-queryfile", "q.tsq", "-out", "r.tsr",
		"-signer", "../"+t+".crt", "-inkey", "../"+t+".key", "-chain", chain); err != nil {
		return nil, err
	}
	return os.ReadFile(filepath.Join(w, "r.tsr"))
}

// cmsSign produces a DER CMS SignedData (attached content) with openssl; econtentType "" means id-data.
func (p *pki) cmsSign(content []byte, signerCrt, signerKey, certfile, econtentType string) ([]byte, error) {
	slot := <-p.slots
	defer func() { p.slots <- slot }()
	w := filepath.Join(p.dir, fmt.Sprintf("w%d", slot))
	if err := os.WriteFile(filepath.Join(w, "c.bin"), content, 0o644); err != nil {
		return nil, err
	}
	args := []string{"cms", "-sign", "-binary", "-nodetach", "-nosmimecap", "-md", "sha256", "-in", "c.bin", "-outform", "DER",
		"-signer", signerCrt, "-inkey", signerKey}
	if certfile != "" {
		args = append(args, "-certfile", certfile)
	}
	if econtentType != "" {
		args = append(args, "-econtent_type", econtentType)
	}
	return sh(w, nil, "openssl", args...)
}

// legacyToken: Microsoft-style token = SignedData over the signature value itself, signed by TSA i.
func (p *pki) legacyToken(content []byte, i int) ([]byte, error) {
	t := p.tsaName(i)
	return p.cmsSign(content, "../"+t+".crt", "../"+t+".key", "../ca.crt", "")
}

// verify3161 asks openssl whether a bare token is a valid timestamp for the digest (hex), chaining to caFile.
func (p *pki) verify3161(token []byte, digestHex string, caFile string, attime int64) (bool, string) {
	slot := <-p.slots
	defer func() { p.slots <- slot }()
	w := filepath.Join(p.dir, fmt.Sprintf("w%d", slot))
	os.WriteFile(filepath.Join(w, "t.tok"), token, 0o644)
	args := []string{"ts", "-verify", "-digest", digestHex, "-in", "t.tok", "-token_in", "-CAfile", caFile}
	if attime != 0 {
		args = append(args, "-attime", fmt.Sprint(attime))
	}
	out, err := sh(w, nil, "openssl", args...)
	if err != nil {
		return false, err.Error()
	}
	return strings.Contains(string(out), "Verification: OK"), string(out)
}

// verifyLegacy asks openssl whether a legacy token is a valid CMS signature whose content is exactly `content`.
func (p *pki) verifyLegacy(token []byte, content []byte, caFile string) (bool, string) {
	slot := <-p.slots
	defer func() { p.slots <- slot }()
	w := filepath.Join(p.dir, fmt.Sprintf("w%d", slot))
	os.WriteFile(filepath.Join(w, "l.tok"), token, 0o644)
	out, err := sh(w, nil, "openssl", "cms", "-verify", "-binary", "-inform", "DER", "-in", "l.tok", "-CAfile", caFile, "-purpose", "any")
	if err != nil {
		return false, err.Error()
	}
	return bytes.Equal(out, content), ""
}

// ------------------------------------------------------------------ Go-minted certificates with chosen validity windows
// (crypto/x509 from the standard library; used for the verification-side cases where the attested time is in the past)

type mintedCert struct {
	cert    *x509.Certificate
	key     *rsa.PrivateKey
	crtPath string
	keyPath string
}

var keyPool []*rsa.PrivateKey

func poolKey(i int) *rsa.PrivateKey {
	for len(keyPool) <= i {
		k, err := rsa.GenerateKey(rand.Reader, 2048)
		if err != nil {
			panic(err)
		}
		keyPool = append(keyPool, k)
	}
	return keyPool[i]
}

var mintSerial int64 = 5000
var mintMu sync.Mutex

func (p *pki) mint(name string, keyIdx int, parent *mintedCert, isCA bool, eku []x509.ExtKeyUsage, nb, na time.Time) (*mintedCert, error) {
	mintMu.Lock()
	defer mintMu.Unlock()
	key := poolKey(keyIdx)
	mintSerial++
	tmpl := &x509.Certificate{
		SerialNumber:          big.NewInt(mintSerial),
		Subject:               pkix.Name{CommonName: name},
		NotBefore:             nb,
		NotAfter:              na,
		BasicConstraintsValid: true,
		IsCA:                  isCA,
		ExtKeyUsage:           eku,
		KeyUsage:              x509.KeyUsageDigitalSignature,
	}
	if isCA {
		tmpl.KeyUsage = x509.KeyUsageCertSign | x509.KeyUsageCRLSign
	}
	signer, parentCert := key, tmpl
	if parent != nil {
		signer, parentCert = parent.key, parent.cert
	}
	der, err := x509.CreateCertificate(rand.Reader, tmpl, parentCert, &key.PublicKey, signer)
	if err != nil {
		return nil, err
	}
	c, err := x509.ParseCertificate(der)
	if err != nil {
		return nil, err
	}
	m := &mintedCert{cert: c, key: key}
	m.crtPath = filepath.Join(p.dir, fmt.Sprintf("m%d.crt", mintSerial))
	m.keyPath = filepath.Join(p.dir, fmt.Sprintf("k%d.key", keyIdx))
	if err := os.WriteFile(m.crtPath, pem.EncodeToMemory(&pem.Block{Type: "CERTIFICATE", Bytes: der}), 0o644); err != nil {
		return nil, err
	}
	if _, err := os.Stat(m.keyPath); err != nil {
		kb := pem.EncodeToMemory(&pem.Block{Type: "RSA PRIVATE KEY", Bytes: x509.MarshalPKCS1PrivateKey(key)})
		if err := os.WriteFile(m.keyPath, kb, 0o600); err != nil {
			return nil, err
		}
	}
	return m, nil
}

// tstInfoDER builds a TSTInfo by hand: version 1, policy, imprint (alg, hash), serial, genTime.
func tstInfoDER(algOID, hashed []byte, serial int64, genTime string) []byte {
	imprint := wrap(0x30, wrap(0x30, algOID, []byte{0x05, 0x00}), wrap(0x04, hashed))
	return wrap(0x30, derInt(1), oidPolicy, imprint, derInt(serial), wrap(0x18, []byte(genTime)))
}

const oidTSTInfoStr = "1.2.840.113549.1.9.16.1.4"

// customToken: a timestamp token with a chosen genTime, signed by a minted TSA certificate through openssl cms.
func (p *pki) customToken(algOID, hashed []byte, genTime string, tsa *mintedCert, serial int64) ([]byte, error) {
	return p.cmsSign(tstInfoDER(algOID, hashed, serial, genTime), tsa.crtPath, tsa.keyPath, "", oidTSTInfoStr)
}
