package c10

// timed.go — authorities that misbehave IN TIME, over real TCP, against the real tsclient (tsclient.New with its
// http.Client / http.Transport, tsClient.do's io.ReadAll, tsClient.Timestamp's failover loop, the rate limiter) and
// through pkcs9.TimestampAndMarshal.
//
// A delivery says how a (usually genuine) reply is put on the wire: refuse the connection, accept and never answer,
// close before the headers, send the headers and stall, send part of the body and stall, drip the body one byte per
// interval, close in the middle of the announced body, or answer completely after some delay.  The same description is
// turned into the event script of the Coq model (C10/Timing.v).  A silent authority keeps its connection open until the
// client gives up or until the harness cleans up (cap); which of the two happened, and when, is recorded.

import (
	"context"
	"crypto"
	"crypto/rsa"
	"crypto/sha256"
	"crypto/x509"
	"encoding/hex"
	"encoding/pem"
	"errors"
	"fmt"
	"net/http"
	"os"
	"path/filepath"
	"strconv"
	"time"

	"github.com/sassoftware/relic/v8/config"
	"github.com/sassoftware/relic/v8/lib/pkcs7"
	"github.com/sassoftware/relic/v8/lib/pkcs9"
	"github.com/sassoftware/relic/v8/lib/pkcs9/tsclient"
)

type delivery struct {
	Name       string   `json:"name"`
	Refuse     bool     `json:"refuse,omitempty"`      // nothing listens on the URL
	PreMS      int      `json:"pre_ms"`                // delay between the request and the response headers; -1: headers never come
	CloseEarly bool     `json:"close_early,omitempty"` // close the connection at that moment instead of sending headers
	CLen       bool     `json:"clen"`                  // announce Content-Length (otherwise the body ends when the connection closes)
	Chunks     [][2]int `json:"chunks,omitempty"`      // (delay ms, bytes) ; bytes -1: everything that is left
	End        string   `json:"end"`                   // end: body complete, connection closed | abort: closed before the announced length | silent
}

// completes: the authority delivers a complete reply by itself
func (d *delivery) completes() bool {
	return !d.Refuse && d.PreMS >= 0 && !d.CloseEarly && d.End == "end"
}

// totalMS: when the last byte leaves the authority (only meaningful when completes)
func (d *delivery) totalMS() int {
	t := d.PreMS
	for _, c := range d.Chunks {
		t += c[0]
	}
	return t
}

// script: the delivery as the event list of the Coq model ([delay_ms code n]; codes: 0 refused 1 connected 3 headers
// 4 n body bytes 5 body complete 6 aborted)
func (d *delivery) script() [][3]int {
	if d.Refuse {
		return [][3]int{{0, 0, 0}}
	}
	s := [][3]int{{0, 1, 0}}
	if d.PreMS < 0 {
		return s
	}
	if d.CloseEarly {
		return append(s, [3]int{d.PreMS, 6, 0})
	}
	s = append(s, [3]int{d.PreMS, 3, 0})
	for _, c := range d.Chunks {
		s = append(s, [3]int{c[0], 4, c[1]})
	}
	switch d.End {
	case "end":
		s = append(s, [3]int{0, 5, 0})
	case "abort":
		s = append(s, [3]int{0, 6, 0})
	}
	return s
}

func drip(n, everyMS int) [][2]int {
	var c [][2]int
	for i := 0; i < n; i++ {
		c = append(c, [2]int{everyMS, 1})
	}
	return c
}

// the named deliveries; times are chosen well away from the client's timeout (1 s or 2 s): complete by 0.6 s, or not
// before 1.5 x timeout, or never
var deliveries = []delivery{
	{Name: "t_refuse", Refuse: true},
	{Name: "t_hang_before_headers", PreMS: -1},
	{Name: "t_close_before_headers", PreMS: 60, CloseEarly: true},
	{Name: "t_stall_after_headers", PreMS: 40, CLen: true, End: "silent"},
	{Name: "t_stall_mid_body", PreMS: 40, CLen: true, Chunks: [][2]int{{10, 6}}, End: "silent"},
	{Name: "t_stall_before_last_byte", PreMS: 40, CLen: true, Chunks: [][2]int{{10, -2}}, End: "silent"}, // all but the last byte
	{Name: "t_stall_no_length", PreMS: 40, CLen: false, Chunks: [][2]int{{10, 700}}, End: "silent"},
	{Name: "t_drip", PreMS: 20, CLen: true, Chunks: drip(120, 60), End: "silent"}, // 1 byte / 60 ms: never complete in time
	{Name: "t_close_mid_body", PreMS: 40, CLen: true, Chunks: [][2]int{{20, 700}}, End: "abort"},
	{Name: "t_late", PreMS: 300, CLen: true, Chunks: [][2]int{{3200, -1}}, End: "end"}, // complete only after 3.5 s
	{Name: "t_late_headers", PreMS: 3500, CLen: true, Chunks: [][2]int{{0, -1}}, End: "end"},
	{Name: "t_slow_ok", PreMS: 350, CLen: true, Chunks: [][2]int{{150, -1}}, End: "end"}, // complete after 0.5 s
	{Name: "t_drip_ok", PreMS: 100, CLen: true, Chunks: [][2]int{{80, 300}, {80, 300}, {80, 300}, {80, 300}, {80, -1}}, End: "end"},
	{Name: "t_ok_no_length", PreMS: 200, CLen: false, Chunks: [][2]int{{100, 500}, {100, -1}}, End: "end"},
	{Name: "t_prompt", PreMS: 0, CLen: true, Chunks: [][2]int{{0, -1}}, End: "end"},
}

func deliveryByName(name string) *delivery {
	for i := range deliveries {
		if deliveries[i].Name == name {
			return &deliveries[i]
		}
	}
	return nil
}

// as behaviours of the untimed matrix (sign cases): genuine content; "a complete reply arrives in time" decided by the delivery
var behavioursTimed = func() []behaviour {
	var bs []behaviour
	for i := range deliveries {
		d := &deliveries[i]
		a := good()
		a.Transport = d.completes() && d.totalMS() <= 700
		a.Observed = !d.Refuse
		bs = append(bs, behaviour{d.Name, a})
	}
	return bs
}()

// play puts the reply on the wire according to the delivery; entry = when the request arrived
func (f *fakeTSA) play(w http.ResponseWriter, tc *tsaCase, idx int, d *delivery, code int, ctype string, out []byte, entry time.Time) {
	hj, ok := w.(http.Hijacker)
	if !ok {
		http.Error(w, "cannot hijack", 599)
		return
	}
	conn, _, err := hj.Hijack()
	if err != nil {
		return
	}
	defer conn.Close()
	gone := make(chan struct{})
	go func() { // the client sends nothing more: a read returns when it closes the connection (or when we do)
		var b [64]byte
		for {
			if _, err := conn.Read(b[:]); err != nil {
				close(gone)
				return
			}
		}
	}()
	capAt := entry.Add(tc.cap)
	if tc.cap == 0 {
		capAt = entry.Add(6 * time.Second)
	}
	noteGone := func(byClient bool) {
		tc.mu.Lock()
		if tc.goneAt == nil {
			tc.goneAt = map[int]int{}
		}
		if byClient && !tc.t0.IsZero() {
			tc.goneAt[idx] = int(time.Since(tc.t0) / time.Millisecond)
		} else {
			tc.goneAt[idx] = -1
		}
		tc.mu.Unlock()
	}
	// waits until t; false if the client went away first
	until := func(t time.Time) bool {
		dur := time.Until(t)
		if dur <= 0 {
			select {
			case <-gone:
				return false
			default:
				return true
			}
		}
		select {
		case <-gone:
			return false
		case <-time.After(dur):
			return true
		}
	}
	silent := func() {
		if until(capAt) {
			noteGone(false) // the client was still waiting when the harness cleaned up
		} else {
			noteGone(true)
		}
	}
	if d.PreMS < 0 {
		silent()
		return
	}
	at := entry.Add(time.Duration(d.PreMS) * time.Millisecond)
	if !until(at) {
		noteGone(true)
		return
	}
	if d.CloseEarly {
		return
	}
	hdr := fmt.Sprintf("HTTP/1.1 %d %s\r\nContent-Type: %s\r\nConnection: close\r\n", code, http.StatusText(code), ctype)
	if d.CLen {
		hdr += fmt.Sprintf("Content-Length: %d\r\n", len(out))
	}
	if _, err := conn.Write([]byte(hdr + "\r\n")); err != nil {
		noteGone(true)
		return
	}
	rest := out
	for _, c := range d.Chunks {
		at = at.Add(time.Duration(c[0]) * time.Millisecond)
		if !until(at) {
			noteGone(true)
			return
		}
		n := c[1]
		if n < 0 { // -1: all that is left, -2: all but the last byte, ...
			n = len(rest) + 1 + n
		}
		if n > len(rest) {
			n = len(rest)
		}
		if n < 0 {
			n = 0
		}
		if _, err := conn.Write(rest[:n]); err != nil {
			noteGone(true)
			return
		}
		rest = rest[n:]
	}
	switch d.End {
	case "end":
		conn.Write(rest)
	case "abort":
	default:
		silent()
	}
}

// ------------------------------------------------------------------ cases

type timedAuth struct {
	Content string   `json:"content"` // behaviour name deciding WHAT is sent (good, wrong_nonce, http500, ...)
	Deliv   delivery `json:"deliv"`
	Attrs   attrs    `json:"attrs"`  // ground truth about the content (transport = true: the timing is judged separately)
	Script  [][3]int `json:"script"` // the delivery as the model's event list
}

type timedHit struct {
	Idx    int `json:"idx"`
	AtMS   int `json:"at_ms"`
	GoneMS int `json:"gone_ms"` // when the client gave up on a connection the authority kept open; -1: it did not before the harness cleaned up; -2: n/a
}

type timedCase struct {
	ID        int         `json:"id"`
	Kind      string      `json:"kind"`  // timed
	Style     string      `json:"style"` // rfc3161 | legacy
	Via       string      `json:"via"`   // client: tsclient.Timestamp | tam: pkcs9.TimestampAndMarshal
	TimeoutS  int         `json:"timeout_s"`
	CtxMS     int         `json:"ctx_ms"`     // caller deadline, 0 = none
	CtxClass  string      `json:"ctx_class"`  // none | patient | first (expires while the first authority is being waited for)
	RateLimit float64     `json:"rate_limit"` // timestamp.ratelimit (0 = no limiter); one token is spent just before the measured call
	Auths     []timedAuth `json:"auths"`
	CapMS     int         `json:"cap_ms"`
	EncDig    string      `json:"encdig"`
	// observations
	WaitMS    int        `json:"wait_ms"` // how long the rate limiter makes the measured call wait (computed from its rate and the prior call)
	Hits      []timedHit `json:"hits"`
	Result    string     `json:"result"` // ok | ok-nil | err | panic
	Origin    int        `json:"origin"`
	ErrText   string     `json:"err_text,omitempty"`
	WallMS    int        `json:"wall_ms"`
	ReqOK     bool       `json:"req_ok"`
	ReqNote   string     `json:"req_note,omitempty"`
	ExtOK     bool       `json:"ext_ok"`
	ExtNote   string     `json:"ext_note,omitempty"`
	Stamped   bool       `json:"stamped"`              // tam: the marshalled signature carries a countersignature
	VerifyErr string     `json:"verify_err,omitempty"` // tam: relic's own verification of the timestamped signature
	Slow      bool       `json:"slow,omitempty"`       // the fake authority itself was starved in this run
	Retried   int        `json:"retried,omitempty"`
}

func repoKeyPair() (*rsa.PrivateKey, *x509.Certificate, error) {
	tk := filepath.Join(repoRoot(), "functest/testkeys")
	kb, err := os.ReadFile(filepath.Join(tk, "rsa2048.key"))
	if err != nil {
		return nil, nil, err
	}
	blk, _ := pem.Decode(kb)
	if blk == nil {
		return nil, nil, errors.New("no PEM in rsa2048.key")
	}
	var key *rsa.PrivateKey
	if k, err := x509.ParsePKCS1PrivateKey(blk.Bytes); err == nil {
		key = k
	} else if k8, err8 := x509.ParsePKCS8PrivateKey(blk.Bytes); err8 == nil {
		rk, ok := k8.(*rsa.PrivateKey)
		if !ok {
			return nil, nil, errors.New("rsa2048.key is not RSA")
		}
		key = rk
	} else {
		return nil, nil, err
	}
	cb, err := os.ReadFile(filepath.Join(tk, "rsa2048.crt"))
	if err != nil {
		return nil, nil, err
	}
	blk, _ = pem.Decode(cb)
	if blk == nil {
		return nil, nil, errors.New("no PEM in rsa2048.crt")
	}
	cert, err := x509.ParseCertificate(blk.Bytes)
	return key, cert, err
}

func (f *fakeTSA) runTimed(cs *timedCase) {
	keep := *cs
	for try := 0; try < 3; try++ {
		*cs = timedCase{ID: keep.ID, Kind: keep.Kind, Style: keep.Style, Via: keep.Via, TimeoutS: keep.TimeoutS, CtxMS: keep.CtxMS, CtxClass: keep.CtxClass,
			RateLimit: keep.RateLimit, Auths: keep.Auths, CapMS: keep.CapMS, EncDig: keep.EncDig, Retried: try}
		f.runTimedOnce(cs)
		if !cs.Slow && !timedSuspicious(cs) {
			return
		}
	}
}

// timedSuspicious: an observation that machine load alone could explain (a late hit, a reply that should have been in
// time but was not); such a run is repeated, and only a case that stays that way is reported by the check
func timedSuspicious(cs *timedCase) bool {
	if cs.TimeoutS <= 0 {
		return false
	}
	lim := cs.TimeoutS*1000 + 700
	for i := 1; i < len(cs.Hits); i++ {
		if cs.Hits[i].AtMS-cs.Hits[i-1].AtMS > lim {
			return true
		}
	}
	if n := len(cs.Hits); n > 0 && cs.WallMS-cs.Hits[n-1].AtMS > lim {
		return true
	}
	if cs.CtxClass == "first" || cs.CtxClass == "limiter" {
		return false
	}
	// the first good-in-time authority was not the one used
	for i, a := range cs.Auths {
		if a.Deliv.completes() && a.Deliv.totalMS() <= 700 && a.Content == "good" {
			return !(cs.Result == "ok" && cs.Origin == i)
		}
	}
	return false
}

func (f *fakeTSA) runTimedOnce(cs *timedCase) {
	key := "t" + strconv.Itoa(cs.ID)
	seq := make([]string, len(cs.Auths))
	deliv := make([]*delivery, len(cs.Auths))
	for i := range cs.Auths {
		seq[i] = cs.Auths[i].Content
		deliv[i] = &cs.Auths[i].Deliv
	}
	var psd *pkcs7.ContentInfoSignedData
	encdig, _ := hex.DecodeString(cs.EncDig)
	if cs.Via == "tam" {
		k, c, err := repoKeyPair()
		if err != nil {
			cs.Result, cs.ErrText = "err", "setup: "+err.Error()
			return
		}
		sb := pkcs7.NewBuilder(k, []*x509.Certificate{c}, crypto.SHA256)
		if err := sb.SetContentData([]byte(fmt.Sprintf("payload of timed case %d", cs.ID))); err != nil {
			cs.Result, cs.ErrText = "err", "setup: "+err.Error()
			return
		}
		if err := sb.AddAuthenticatedAttribute(pkcs7.OidAttributeSigningTime, time.Now().UTC()); err != nil {
			cs.Result, cs.ErrText = "err", "setup: "+err.Error()
			return
		}
		var err2 error
		if psd, err2 = sb.Sign(); err2 != nil {
			cs.Result, cs.ErrText = "err", "setup: "+err2.Error()
			return
		}
		encdig = psd.Content.SignerInfos[0].EncryptedDigest
	}
	tc := &tsaCase{style: cs.Style, seq: seq, encdig: encdig, reqOK: true, sent: map[int][]byte{}, deliv: deliv,
		timeout: time.Duration(cs.TimeoutS) * time.Second, cap: time.Duration(cs.CapMS) * time.Millisecond, goneAt: map[int]int{}}
	if cs.TimeoutS <= 0 {
		tc.timeout = 2 * time.Second // only for noticing a starved openssl
	}
	f.cases.Store(key, tc)
	defer f.cases.Delete(key)
	urls := make([]string, len(seq))
	for i := range seq {
		if deliv[i].Refuse {
			urls[i] = f.closed
		} else {
			urls[i] = fmt.Sprintf("%s/c/%s/%d", f.srv.URL, key, i)
		}
	}
	conf := &config.TimestampConfig{Timeout: cs.TimeoutS, RateLimit: cs.RateLimit, RateBurst: 1}
	req := &pkcs9.Request{EncryptedDigest: encdig, Hash: crypto.SHA256}
	if cs.Style == "legacy" {
		conf.MsURLs = urls
		req.Legacy = true
	} else {
		conf.URLs = urls
	}
	cs.Origin = -1
	var tok *pkcs7.ContentInfoSignedData
	var tsig *pkcs9.TimestampedSignature
	func() {
		defer func() {
			if r := recover(); r != nil {
				cs.Result, cs.ErrText = "panic", fmt.Sprint(r)
			}
		}()
		cl, err := tsclient.New(conf)
		if err != nil {
			cs.Result, cs.ErrText = "err", "New: "+err.Error()
			return
		}
		if cs.RateLimit > 0 {
			// spend the limiter's only token: a prior call that fails at once (no URL of its style is configured)
			prior := &pkcs9.Request{EncryptedDigest: encdig, Hash: crypto.SHA256, Legacy: cs.Style != "legacy"}
			p0 := time.Now()
			_, _ = cl.Timestamp(context.Background(), prior)
			cs.WaitMS = int(1000/cs.RateLimit) - int(time.Since(p0)/time.Millisecond)
			if cs.WaitMS < 0 {
				cs.WaitMS = 0
			}
		}
		ctx := context.Background()
		if cs.CtxMS > 0 {
			var cancel context.CancelFunc
			ctx, cancel = context.WithTimeout(ctx, time.Duration(cs.CtxMS)*time.Millisecond)
			defer cancel()
		}
		t0 := time.Now()
		tc.mu.Lock()
		tc.t0 = t0
		tc.mu.Unlock()
		var err2 error
		if cs.Via == "tam" {
			tsig, err2 = pkcs9.TimestampAndMarshal(ctx, psd, cl, false)
			cs.WallMS = int(time.Since(t0) / time.Millisecond)
			switch {
			case err2 != nil:
				cs.Result, cs.ErrText = "err", trunc(err2.Error(), 300)
			case tsig == nil:
				cs.Result = "ok-nil"
			default:
				cs.Result = "ok"
			}
			return
		}
		tok, err2 = cl.Timestamp(ctx, req)
		cs.WallMS = int(time.Since(t0) / time.Millisecond)
		switch {
		case err2 != nil:
			cs.Result, cs.ErrText = "err", trunc(err2.Error(), 300)
		case tok == nil:
			cs.Result = "ok-nil"
		default:
			cs.Result = "ok"
		}
	}()
	// let silent authorities notice that the client has gone (their read returns when the client's transport closes)
	time.Sleep(30 * time.Millisecond)
	tc.mu.Lock()
	for i, h := range tc.hits {
		th := timedHit{Idx: h, GoneMS: -2}
		if i < len(tc.hitAt) {
			th.AtMS = tc.hitAt[i]
		}
		if g, ok := tc.goneAt[h]; ok {
			th.GoneMS = g
		}
		cs.Hits = append(cs.Hits, th)
	}
	cs.ReqOK, cs.ReqNote = tc.reqOK, tc.reqNote
	cs.Slow = tc.slow
	tc.mu.Unlock()
	if cs.Result != "ok" {
		return
	}
	if cs.Via == "tam" {
		cs.Stamped = tsig.CounterSignature != nil
		if cs.Stamped && tsig.CounterSignature.Certificate != nil {
			sn := tsig.CounterSignature.Certificate.SerialNumber.String()
			for i := 0; i < nTSA; i++ {
				if f.p.certSerial(f.p.tsaName(i)) == sn {
					cs.Origin = i
				}
			}
		}
		out, err := pkcs7.Unmarshal(tsig.Raw)
		if err != nil {
			cs.VerifyErr = "unmarshal: " + err.Error()
			return
		}
		sig, err := out.Content.Verify(nil, false)
		if err != nil {
			cs.VerifyErr = "verify: " + err.Error()
			return
		}
		ts, err := pkcs9.VerifyPkcs7(sig)
		if err != nil {
			cs.VerifyErr = "timestamp: " + err.Error()
		} else if ts == nil {
			cs.VerifyErr = "the marshalled signature carries no timestamp"
		}
		// independent check of the attached token
		var tst pkcs7.ContentInfoSignedData
		if err := out.Content.SignerInfos[0].UnauthenticatedAttributes.GetOne(pkcs9.OidAttributeTimeStampToken, &tst); err == nil {
			if der, err := tst.Marshal(); err == nil {
				d := sha256.Sum256(encdig)
				cs.ExtOK, cs.ExtNote = f.p.verify3161(der, hex.EncodeToString(d[:]), f.p.caPEM, 0)
				cs.ExtNote = trunc(cs.ExtNote, 200)
			}
		}
		return
	}
	cs.Origin = f.originOf(tok)
	der, err := tok.Marshal()
	if err != nil {
		cs.ExtNote = "marshal: " + err.Error()
		return
	}
	if cs.Style == "legacy" {
		cs.ExtOK, cs.ExtNote = f.p.verifyLegacy(der, encdig, f.p.caPEM)
	} else {
		d := sha256.Sum256(encdig)
		cs.ExtOK, cs.ExtNote = f.p.verify3161(der, hex.EncodeToString(d[:]), f.p.caPEM, 0)
	}
	cs.ExtNote = trunc(cs.ExtNote, 200)
}

func buildTimedCases(tier string) []*timedCase {
	var cases []*timedCase
	id := 300000
	type au struct{ content, deliv string }
	add := func(style, via string, timeoutS, ctxMS int, ctxClass string, rate float64, as ...au) *timedCase {
		cs := &timedCase{ID: id, Kind: "timed", Style: style, Via: via, TimeoutS: timeoutS, CtxMS: ctxMS, CtxClass: ctxClass, RateLimit: rate}
		cs.CapMS = timeoutS*1000 + 2500
		if timeoutS <= 0 {
			cs.CapMS = 2500
		}
		d := sha256.Sum256([]byte(fmt.Sprintf("timed signature value %d", id)))
		cs.EncDig = hex.EncodeToString(append(d[:], d[:]...))
		for _, a := range as {
			b := behaviourByName(style, a.content)
			dl := deliveryByName(a.deliv)
			if b == nil || dl == nil {
				panic("timed case: unknown behaviour " + a.content + " / " + a.deliv)
			}
			at := b.a
			at.Transport = true
			at.Observed = !dl.Refuse
			sc := dl.script()
			if !dl.Refuse && !dl.CloseEarly && (dl.PreMS < 0 || dl.End == "silent") {
				// a silent authority is silent only until the harness cleans up (cap after the request): from the
				// client's side the connection is then closed by the peer.  Said in the script, so that the model can be
				// compared also where the client's own limit lies beyond the cap (timestamp.timeout unset: 60 s default).
				el := 0
				for _, e := range sc {
					el += e[0]
				}
				if cs.CapMS > el {
					sc = append(sc, [3]int{cs.CapMS - el, 6, 0})
				} else {
					sc = append(sc, [3]int{0, 6, 0}) // the cap passed while the body was being dripped: closed right after the last byte
				}
			}
			cs.Auths = append(cs.Auths, timedAuth{Content: a.content, Deliv: *dl, Attrs: at, Script: sc})
		}
		cases = append(cases, cs)
		id++
		return cs
	}
	g := func(d string) au { return au{"good", d} }
	var bad []string // deliveries on which the authority does not give a complete reply in time
	var fine []string
	for i := range deliveries {
		d := &deliveries[i]
		if d.completes() && d.totalMS() <= 700 {
			fine = append(fine, d.Name)
		} else {
			bad = append(bad, d.Name)
		}
	}
	// every failing delivery followed by a healthy authority; alone; and as the middle one of three
	for _, b := range bad {
		add("rfc3161", "client", 1, 0, "none", 0, g(b), g("t_prompt"))
		add("rfc3161", "client", 1, 0, "none", 0, g(b))
		if tier == "thorough" {
			add("rfc3161", "client", 1, 0, "none", 0, au{"wrong_nonce", "t_prompt"}, g(b), g("t_slow_ok"))
			add("rfc3161", "client", 2, 0, "none", 0, g(b), g("t_prompt"))
		}
	}
	// slow but in time: used, nobody else asked; and non-genuine content delivered slowly fails over
	for _, ok := range fine {
		add("rfc3161", "client", 1, 0, "none", 0, g(ok), g("t_prompt"))
		add("rfc3161", "client", 1, 0, "none", 0, au{"wrong_nonce", ok}, g("t_prompt"))
	}
	// two different hangs in a row, then a slow good one; all authorities hang: the call must FAIL, after one timeout each
	add("rfc3161", "client", 1, 0, "none", 0, g("t_stall_mid_body"), g("t_drip"), g("t_slow_ok"))
	add("rfc3161", "client", 1, 0, "none", 0, g("t_hang_before_headers"), g("t_stall_after_headers"), g("t_drip_ok"))
	add("rfc3161", "client", 1, 0, "none", 0, g("t_stall_after_headers"), g("t_stall_mid_body"))
	add("rfc3161", "client", 1, 0, "none", 0, g("t_drip"), g("t_hang_before_headers"), g("t_stall_no_length"))
	add("rfc3161", "client", 1, 0, "none", 0, au{"http500", "t_slow_ok"}, g("t_close_mid_body"), g("t_prompt"))
	add("rfc3161", "client", 1, 0, "none", 0, au{"bad_sig", "t_drip_ok"}, g("t_stall_before_last_byte"), g("t_ok_no_length"))
	// a longer timeout
	add("rfc3161", "client", 2, 0, "none", 0, g("t_stall_mid_body"), g("t_prompt"))
	add("rfc3161", "client", 2, 0, "none", 0, g("t_drip"), g("t_slow_ok"))
	// callers with a deadline: patient (beyond one timeout per authority) ...
	add("rfc3161", "client", 1, 3400, "patient", 0, g("t_stall_mid_body"), g("t_stall_after_headers"), g("t_prompt"))
	add("rfc3161", "client", 1, 2400, "patient", 0, g("t_drip"), g("t_slow_ok"))
	// ... and one whose deadline passes while the first authority is being waited for: failure, nobody else is asked
	add("rfc3161", "client", 1, 500, "first", 0, g("t_stall_after_headers"), g("t_prompt"))
	add("rfc3161", "client", 2, 900, "first", 0, g("t_hang_before_headers"), g("t_prompt"))
	// legacy style
	add("legacy", "client", 1, 0, "none", 0, g("t_stall_mid_body"), g("t_prompt"))
	add("legacy", "client", 1, 0, "none", 0, g("t_drip"), g("t_slow_ok"))
	add("legacy", "client", 1, 0, "none", 0, g("t_stall_after_headers"))
	// rate limiter in front (2 per second, burst 1, one token just spent): waits, then fails over as usual; with a caller
	// deadline shorter than the wait nobody is asked at all
	add("rfc3161", "client", 1, 0, "none", 2, g("t_stall_after_headers"), g("t_prompt"))
	add("rfc3161", "client", 1, 150, "limiter", 2, g("t_prompt"))
	// through pkcs9.TimestampAndMarshal (timestamp, attach, self-check, marshal)
	add("rfc3161", "tam", 1, 0, "none", 0, g("t_stall_mid_body"), g("t_prompt"))
	add("rfc3161", "tam", 1, 0, "none", 0, g("t_hang_before_headers"), g("t_drip"), g("t_slow_ok"))
	add("rfc3161", "tam", 1, 0, "none", 0, g("t_stall_after_headers"), g("t_close_mid_body"))
	add("rfc3161", "tam", 1, 3400, "patient", 0, g("t_drip"), g("t_prompt"))
	// timestamp.timeout not configured (0) or negative: the client's default (60 s) applies.  Nobody waits 60 s here: the
	// harness ends the silent connection after 2.5 s, the client must then move on, and the check judges these cases by the
	// model evaluated with the limit the SOURCE gives for this configured value (which must be the positive default).
	// (ids 300051.. are the regression inputs of finding C10:timed:timeout-unset:hang-blocks-failover, fixed in 578fb1a)
	add("rfc3161", "client", 0, 0, "none", 0, g("t_stall_after_headers"), g("t_prompt"))
	add("rfc3161", "client", 0, 0, "none", 0, g("t_hang_before_headers"), g("t_prompt"))
	add("rfc3161", "client", 0, 0, "none", 0, g("t_slow_ok"), g("t_prompt"))
	add("rfc3161", "client", -1, 0, "none", 0, g("t_stall_mid_body"), g("t_prompt"))
	add("rfc3161", "client", 0, 0, "none", 0, g("t_stall_before_last_byte"))
	return cases
}
