package c10

import (
	"bufio"
	"encoding/json"
	"errors"
	"os"
	"fmt"
	"sync"
	"io"
	"log"
	"path/filepath"

	"github.com/sassoftware/relic/v8/verifharness/core"
)

func init() {
	core.Register("c10", func(c *core.Ctx) error {
		if c.Scratch == "" {
			return errors.New("c10 needs -scratch")
		}
		log.SetOutput(io.Discard) // tsclient logs a warning per failed authority
		if len(c.Args) == 1 && c.Args[0] == "vfresh" { // one verification as the first act of a fresh process (vseq.go)
			return runFresh()
		}
		p, err := newPKI(filepath.Join(c.Scratch, "pki"))
		if err != nil {
			return err
		}
		f := newFakeTSA(p)
		defer f.srv.Close()
		want := map[string]bool{}
		for _, a := range c.Args {
			want[a] = true
		}
		all := len(want) == 0
		if want["replay"] {
			return replay(c, f, p)
		}
		if all || want["client"] {
			cases := buildClientCases(c.Tier)
			runParallel(len(cases), 14, func(i int) { f.runClient(cases[i]) })
			for _, cs := range cases {
				c.Emit(cs)
			}
		}
		// authorities that misbehave in time; run beside the (sequential, mostly idle) sign cases
		var timed []*timedCase
		timedDone := make(chan struct{})
		if all || want["timed"] {
			timed = buildTimedCases(c.Tier)
			go func() {
				runParallel(len(timed), 16, func(i int) { f.runTimed(timed[i]) })
				close(timedDone)
			}()
		} else {
			close(timedDone)
		}
		emitTimed := func() {
			<-timedDone
			for _, cs := range timed {
				c.Emit(cs)
			}
		}
		defer emitTimed()
		if all || want["sign"] {
			env, err := f.newSignEnv(filepath.Join(c.Scratch, "sign"))
			if err != nil {
				return err
			}
			for _, cs := range buildSignCases(c.Tier) {
				env.run(cs)
				c.Emit(cs)
			}
		}
		if all || want["cache"] {
			for _, cs := range buildCacheCases() {
				if err := f.runCache(cs); err != nil {
					return err
				}
				c.Emit(cs)
			}
		}
		if all || want["verify"] {
			env, err := p.newVerifyEnv()
			if err != nil {
				return err
			}
			vcs := env.buildCases()
			var firstErr error
			var mu sync.Mutex
			runParallel(len(vcs), 12, func(i int) {
				if err := env.run(vcs[i], 7000+i); err != nil {
					mu.Lock()
					if firstErr == nil {
						firstErr = fmt.Errorf("verify case %d (%s/%s): %w", vcs[i].ID, vcs[i].Form, vcs[i].Token, err)
					}
					mu.Unlock()
				}
			})
			if firstErr != nil {
				return firstErr
			}
			for _, cs := range vcs {
				c.Emit(cs)
			}
		}
		if all || want["vseq"] {
			env, err := p.newVseqEnv(filepath.Join(c.Scratch, "vseq"))
			if err != nil {
				return err
			}
			scs := buildSeqCases(c.Tier)
			if err := env.runAll(scs); err != nil {
				return err
			}
			for _, cs := range scs {
				c.Emit(cs)
			}
		}
		return nil
	})
}

// replay re-runs cases given as JSON lines on stdin (the "cases" of a replay file), by kind.
func replay(c *core.Ctx, f *fakeTSA, p *pki) error {
	sc := bufio.NewScanner(os.Stdin)
	sc.Buffer(make([]byte, 1<<20), 1<<26)
	var senv *signEnv
	var venv *verifyEnv
	var qenv *vseqEnv
	for sc.Scan() {
		line := sc.Bytes()
		var k struct {
			Kind string `json:"kind"`
		}
		if err := json.Unmarshal(line, &k); err != nil {
			return err
		}
		switch k.Kind {
		case "client":
			in := &clientCase{}
			if err := json.Unmarshal(line, in); err != nil {
				return err
			}
			cs := &clientCase{ID: in.ID, Kind: "client", Style: in.Style, Seq: in.Seq, CtxMS: in.CtxMS, EncDig: in.EncDig, Attrs: in.Attrs}
			f.runClient(cs)
			c.Emit(cs)
		case "sign":
			in := &signCase{}
			if err := json.Unmarshal(line, in); err != nil {
				return err
			}
			if senv == nil {
				var err error
				if senv, err = f.newSignEnv(filepath.Join(c.Scratch, "sign")); err != nil {
					return err
				}
			}
			cs := &signCase{ID: in.ID, Kind: "sign", Type: in.Type, File: in.File, Style: in.Style, Pool: in.Pool, Seq: in.Seq, Attrs: in.Attrs}
			senv.run(cs)
			c.Emit(cs)
		case "verify":
			in := &verifyCase{}
			if err := json.Unmarshal(line, in); err != nil {
				return err
			}
			if venv == nil {
				var err error
				if venv, err = p.newVerifyEnv(); err != nil {
					return err
				}
			}
			cs := &verifyCase{ID: in.ID, Kind: "verify", Form: in.Form, Now: venv.now.Unix(), T: in.T, Leaf: in.Leaf, Token: in.Token, TSA: in.TSA,
				TSATrusted: in.TSATrusted, TSAEKU: in.TSAEKU, TokSigOK: in.TokSigOK, TokImprint: in.TokImprint, TokAlgOK: in.TokAlgOK, TokContent: in.TokContent}
			if err := venv.run(cs, 9000+in.ID%1000); err != nil {
				return err
			}
			c.Emit(cs)
		case "vseq":
			in := &vseqCase{}
			if err := json.Unmarshal(line, in); err != nil {
				return err
			}
			if qenv == nil {
				var err error
				if qenv, err = p.newVseqEnv(filepath.Join(c.Scratch, "vseq")); err != nil {
					return err
				}
			}
			cs := &vseqCase{ID: in.ID, Kind: "vseq", Name: in.Name, Certs: in.Certs}
			for _, st := range in.Steps {
				cs.Steps = append(cs.Steps, &vsStep{Label: st.Label, Pool: st.Pool, Usage: st.Usage, Leaf: st.Leaf, Bundle: st.Bundle, Extra: st.Extra,
					Token: st.Token, TSA: st.TSA, T: st.T})
			}
			if err := qenv.runAll([]*vseqCase{cs}); err != nil {
				return err
			}
			c.Emit(cs)
		case "timed":
			in := &timedCase{}
			if err := json.Unmarshal(line, in); err != nil {
				return err
			}
			cs := &timedCase{ID: in.ID, Kind: "timed", Style: in.Style, Via: in.Via, TimeoutS: in.TimeoutS, CtxMS: in.CtxMS, CtxClass: in.CtxClass,
				RateLimit: in.RateLimit, Auths: in.Auths, CapMS: in.CapMS, EncDig: in.EncDig}
			f.runTimed(cs)
			c.Emit(cs)
		case "cache":
			in := &cacheCase{}
			if err := json.Unmarshal(line, in); err != nil {
				return err
			}
			cs := &cacheCase{ID: in.ID, Kind: "cache", Name: in.Name, Poison: in.Poison}
			for _, st := range in.Steps {
				cs.Steps = append(cs.Steps, cacheStep{Seq: st.Seq})
			}
			if err := f.runCache(cs); err != nil {
				return err
			}
			c.Emit(cs)
		}
	}
	return sc.Err()
}
