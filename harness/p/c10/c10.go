package c10

import (
	"errors"
	"fmt"
	"sync"
	"io"
	"log"
	"path/filepath"

	"github.com/sassoftware/relic/v8/verifharness/core"
)

func init() {
	core.Register("c10", func(c *core.Ctx) error {
		if c.Scratch == "" {
			return errors.New("c10 needs -scratch")
		}
		log.SetOutput(io.Discard) // tsclient logs a warning per failed authority
		p, err := newPKI(filepath.Join(c.Scratch, "pki"))
		if err != nil {
			return err
		}
		f := newFakeTSA(p)
		defer f.srv.Close()
		want := map[string]bool{}
		for _, a := range c.Args {
			want[a] = true
		}
		all := len(want) == 0
		if all || want["client"] {
			cases := buildClientCases(c.Tier)
			runParallel(len(cases), 14, func(i int) { f.runClient(cases[i]) })
			for _, cs := range cases {
				c.Emit(cs)
			}
		}
		if all || want["sign"] {
			env, err := f.newSignEnv(filepath.Join(c.Scratch, "sign"))
			if err != nil {
				return err
			}
			for _, cs := range buildSignCases(c.Tier) {
				env.run(cs)
				c.Emit(cs)
			}
		}
		if all || want["cache"] {
			for _, cs := range buildCacheCases() {
				if err := f.runCache(cs); err != nil {
					return err
				}
				c.Emit(cs)
			}
		}
		if all || want["verify"] {
			env, err := p.newVerifyEnv()
			if err != nil {
				return err
			}
			vcs := env.buildCases()
			var firstErr error
			var mu sync.Mutex
			runParallel(len(vcs), 12, func(i int) {
				if err := env.run(vcs[i], 7000+i); err != nil {
					mu.Lock()
					if firstErr == nil {
						firstErr = fmt.Errorf("verify case %d (%s/%s): %w", vcs[i].ID, vcs[i].Form, vcs[i].Token, err)
					}
					mu.Unlock()
				}
			})
			if firstErr != nil {
				return firstErr
			}
			for _, cs := range vcs {
				c.Emit(cs)
			}
		}
		return nil
	})
}
