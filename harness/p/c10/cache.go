package c10

// cache.go — the memcache layer in front of the timestamp client (timestampcache.timestampCache.Timestamp), with an
// in-process stub that speaks the memcache text protocol (gets / set).

import (
	"bufio"
	"context"
	"crypto"
	"crypto/sha256"
	"encoding/hex"
	"fmt"
	"io"
	"net"
	"strconv"
	"strings"
	"sync"

	"github.com/sassoftware/relic/v8/config"
	"github.com/sassoftware/relic/v8/lib/pkcs7"
	"github.com/sassoftware/relic/v8/lib/pkcs9"
	"github.com/sassoftware/relic/v8/lib/pkcs9/tsclient"
)

type memStub struct {
	l    net.Listener
	mu   sync.Mutex
	data map[string][]byte
	gets int
	sets int
}

func newMemStub() (*memStub, error) {
	l, err := net.Listen("tcp", "127.0.0.1:0")
	if err != nil {
		return nil, err
	}
	m := &memStub{l: l, data: map[string][]byte{}}
	go func() {
		for {
			c, err := l.Accept()
			if err != nil {
				return
			}
			go m.serve(c)
		}
	}()
	return m, nil
}

func (m *memStub) serve(c net.Conn) {
	defer c.Close()
	r := bufio.NewReader(c)
	for {
		line, err := r.ReadString('\n')
		if err != nil {
			return
		}
		f := strings.Fields(line)
		if len(f) == 0 {
			continue
		}
		switch f[0] {
		case "get", "gets":
			m.mu.Lock()
			m.gets++
			for _, k := range f[1:] {
				if v, ok := m.data[k]; ok {
					fmt.Fprintf(c, "VALUE %s 0 %d 1\r\n", k, len(v))
					c.Write(v)
					c.Write([]byte("\r\n"))
				}
			}
			m.mu.Unlock()
			c.Write([]byte("END\r\n"))
		case "set":
			if len(f) < 5 {
				c.Write([]byte("ERROR\r\n"))
				continue
			}
			n, _ := strconv.Atoi(f[4])
			buf := make([]byte, n+2)
			if _, err := io.ReadFull(r, buf); err != nil {
				return
			}
			m.mu.Lock()
			m.sets++
			m.data[f[1]] = buf[:n]
			m.mu.Unlock()
			c.Write([]byte("STORED\r\n"))
		default:
			c.Write([]byte("ERROR\r\n"))
		}
	}
}

type cacheStep struct {
	Seq    []string `json:"seq"`
	Attrs  []attrs  `json:"attrs"`
	Hits   []int    `json:"hits"`
	Result string   `json:"result"`
	Origin int      `json:"origin"`
	ExtOK  bool     `json:"ext_ok"`
	Cached int      `json:"cached"` // entries in the cache after the step
	Err    string   `json:"err_text,omitempty"`
}

type cacheCase struct {
	ID    int         `json:"id"`
	Kind  string      `json:"kind"` // cache
	Name  string      `json:"name"`
	Poison string     `json:"poison,omitempty"` // "", garbage, down
	Steps []cacheStep `json:"steps"`
}

// runCache: the same request (same signature value) is timestamped in several steps through one cache; each step
// may face different authority behaviour.
func (f *fakeTSA) runCache(cs *cacheCase) error {
	m, err := newMemStub()
	if err != nil {
		return err
	}
	defer m.l.Close()
	d := sha256.Sum256([]byte(fmt.Sprintf("cached signature value %d", cs.ID)))
	encdig := append(d[:], d[:]...)
	addr := m.l.Addr().String()
	if cs.Poison == "down" {
		m.l.Close()
	}
	for si := range cs.Steps {
		st := &cs.Steps[si]
		key := fmt.Sprintf("m%d-%d", cs.ID, si)
		tc, urls := f.register(key, "rfc3161", st.Seq, encdig)
		for _, n := range st.Seq {
			st.Attrs = append(st.Attrs, behaviourByName("rfc3161", n).a)
		}
		conf := &config.TimestampConfig{Timeout: 5, URLs: urls, Memcache: []string{addr}}
		req := &pkcs9.Request{EncryptedDigest: encdig, Hash: crypto.SHA256}
		if cs.Poison == "garbage" && si == 0 {
			m.mu.Lock()
			m.data[fmt.Sprintf("pkcs9-%d-%x", crypto.SHA256, d2(encdig))] = []byte("not a token")
			m.mu.Unlock()
		}
		st.Origin = -1
		var tok *pkcs7.ContentInfoSignedData
		func() {
			defer func() {
				if r := recover(); r != nil {
					st.Result, st.Err = "panic", fmt.Sprint(r)
				}
			}()
			cl, err := tsclient.New(conf)
			if err != nil {
				st.Result, st.Err = "err", err.Error()
				return
			}
			var err2 error
			tok, err2 = cl.Timestamp(context.Background(), req)
			switch {
			case err2 != nil:
				st.Result, st.Err = "err", trunc(err2.Error(), 200)
			case tok == nil:
				st.Result = "ok-nil"
			default:
				st.Result = "ok"
			}
		}()
		tc.mu.Lock()
		st.Hits = append([]int{}, tc.hits...)
		tc.mu.Unlock()
		f.cases.Delete(key)
		if st.Result == "ok" {
			st.Origin = f.originOf(tok)
			if der, err := tok.Marshal(); err == nil {
				dd := sha256.Sum256(encdig)
				st.ExtOK, _ = f.p.verify3161(der, hex.EncodeToString(dd[:]), f.p.caPEM, 0)
			}
		}
		m.mu.Lock()
		st.Cached = 0
		for _, v := range m.data {
			if string(v) != "not a token" {
				st.Cached++
			}
		}
		m.mu.Unlock()
	}
	return nil
}

func d2(b []byte) []byte { s := sha256.Sum256(b); return s[:] }

func buildCacheCases() []*cacheCase {
	id := 300000
	mk := func(name, poison string, steps ...[]string) *cacheCase {
		c := &cacheCase{ID: id, Kind: "cache", Name: name, Poison: poison}
		for _, s := range steps {
			c.Steps = append(c.Steps, cacheStep{Seq: s})
		}
		id++
		return c
	}
	return []*cacheCase{
		mk("miss-then-hit", "", []string{"good"}, []string{"garbage"}),                     // second step must not need any authority
		mk("failure-not-cached", "", []string{"bad_sig", "wrong_nonce"}, []string{"good"}), // nothing stored by the failing step
		mk("failover-then-hit", "", []string{"wrong_imprint", "good"}, []string{"rejection"}),
		mk("bad-cached-value", "garbage", []string{"good"}, []string{"http500"}),
		mk("cache-down", "down", []string{"good"}, []string{"bad_sig"}),
		mk("all-fail-twice", "", []string{"rejection"}, []string{"garbage"}),
	}
}
