package c10

// vseq.go — verification HISTORIES: several signatures verified one after the other in ONE process, sharing the leaf
// certificate, the *x509.CertPool object and the usage, through the REAL pkcs7.Unmarshal, SignedData.Verify,
// pkcs9.VerifyOptionalTimestamp and TimestampedSignature.VerifyChain.  Every verification is also done once as the
// first and only verification of a FRESH process (this binary re-executed with the sub-command `vfresh`).
//
// Certificates are minted per case with crypto/x509 (chosen validity windows), timestamp tokens come from
// `openssl cms -sign` over a hand-built TSTInfo with the chosen genTime (pki.go).

import (
	"bytes"
	"crypto"
	"crypto/sha256"
	"crypto/x509"
	"encoding/json"
	"fmt"
	"os"
	"os/exec"
	"sync"
	"time"

	"github.com/sassoftware/relic/v8/lib/pkcs7"
	"github.com/sassoftware/relic/v8/lib/pkcs9"
)

type vsCert struct {
	Name   string `json:"name"`
	NB     int64  `json:"nb"`
	NA     int64  `json:"na"`
	Issuer string `json:"issuer"` // root | rogue | name of a CA certificate of the case
	EKU    []int  `json:"eku"`
	CA     bool   `json:"ca"`
}

type vsStep struct {
	Label  string   `json:"label"`
	Pool   string   `json:"pool"`   // P1 {root} | P1b {root}, another object | PQ {rogue}
	Usage  int      `json:"usage"`  // x509.ExtKeyUsage
	Leaf   string   `json:"leaf"`   // signer certificate
	Bundle []string `json:"bundle"` // further certificates carried in the SignedData
	Extra  []string `json:"extra"`  // extraCerts argument of VerifyChain
	Token  string   `json:"token"`  // none | tok
	TSA    string   `json:"tsa"`
	T      int64    `json:"t"` // attested time
	// observations
	SigErr   string `json:"sig_err,omitempty"`
	CSTime   int64  `json:"cs_time"`
	Verdict  string `json:"verdict"` // ok | err | panic   (within the history)
	Err      string `json:"err,omitempty"`
	Fresh    string `json:"fresh"` // the same verification, first in a fresh process
	FreshErr string `json:"fresh_err,omitempty"`
}

type vseqCase struct {
	ID    int       `json:"id"`
	Kind  string    `json:"kind"` // vseq
	Name  string    `json:"name"`
	Now   int64     `json:"now"`
	Certs []vsCert  `json:"certs"`
	Steps []*vsStep `json:"steps"`
}

type vseqEnv struct {
	p     *pki
	root  *mintedCert
	rogue *mintedCert
	exe   string
	dir   string
}

func (p *pki) newVseqEnv(scratch string) (*vseqEnv, error) {
	e := &vseqEnv{p: p, dir: scratch}
	var err error
	if e.root, err = p.mint("C10 seq root", 0, nil, true, nil, unix(2010, 1, 1), unix(2045, 1, 1)); err != nil {
		return nil, err
	}
	if e.rogue, err = p.mint("C10 seq rogue root", 1, nil, true, nil, unix(2010, 1, 1), unix(2045, 1, 1)); err != nil {
		return nil, err
	}
	if e.exe, err = os.Executable(); err != nil {
		return nil, err
	}
	return e, os.MkdirAll(scratch, 0o755)
}

var ekuNames = map[int]x509.ExtKeyUsage{0: x509.ExtKeyUsageAny, 1: x509.ExtKeyUsageServerAuth, 3: x509.ExtKeyUsageCodeSigning, 8: x509.ExtKeyUsageTimeStamping}

// ------------------------------------------------------------------ fresh process

type freshReq struct {
	Roots [][]byte `json:"roots"` // DER
	Extra [][]byte `json:"extra"`
	Usage int      `json:"usage"`
	Blob  []byte   `json:"blob"`
}
type freshResp struct {
	SigErr  string `json:"sig_err,omitempty"`
	Verdict string `json:"verdict"`
	Err     string `json:"err,omitempty"`
	CSTime  int64  `json:"cs_time"`
}

// verifyBlob is the verifier as cmdline/verify drives it
func verifyBlob(blob []byte, roots *x509.CertPool, extra []*x509.Certificate, usage x509.ExtKeyUsage) (r freshResp) {
	defer func() {
		if x := recover(); x != nil {
			r.Verdict, r.Err = "panic", fmt.Sprint(x)
		}
	}()
	psd, err := pkcs7.Unmarshal(blob)
	if err != nil {
		r.SigErr = "unmarshal: " + err.Error()
		return
	}
	sig, err := psd.Content.Verify(nil, false)
	if err != nil {
		r.SigErr = err.Error()
		return
	}
	ts, err := pkcs9.VerifyOptionalTimestamp(sig)
	if err != nil {
		r.SigErr = "timestamp: " + err.Error()
		return
	}
	if ts.CounterSignature != nil && !ts.CounterSignature.SigningTime.IsZero() {
		r.CSTime = ts.CounterSignature.SigningTime.Unix()
	}
	if err := ts.VerifyChain(roots, extra, usage); err != nil {
		r.Verdict, r.Err = "err", trunc(err.Error(), 200)
	} else {
		r.Verdict = "ok"
	}
	return
}

// runFresh is the body of `drv-c10 c10 vfresh`: one request on stdin, one verification, one answer
func runFresh() error {
	var q freshReq
	if err := json.NewDecoder(os.Stdin).Decode(&q); err != nil {
		return err
	}
	roots := x509.NewCertPool()
	for _, d := range q.Roots {
		c, err := x509.ParseCertificate(d)
		if err != nil {
			return err
		}
		roots.AddCert(c)
	}
	var extra []*x509.Certificate
	for _, d := range q.Extra {
		c, err := x509.ParseCertificate(d)
		if err != nil {
			return err
		}
		extra = append(extra, c)
	}
	out, _ := json.Marshal(verifyBlob(q.Blob, roots, extra, x509.ExtKeyUsage(q.Usage)))
	_, err := os.Stdout.Write(append(out, '\n'))
	return err
}

func (e *vseqEnv) fresh(q *freshReq) (freshResp, error) {
	in, _ := json.Marshal(q)
	cmd := exec.Command(e.exe, "-scratch", e.dir, "c10", "vfresh")
	cmd.Stdin = bytes.NewReader(in)
	var out, errb bytes.Buffer
	cmd.Stdout, cmd.Stderr = &out, &errb
	var r freshResp
	if err := cmd.Run(); err != nil {
		return r, fmt.Errorf("fresh verifier process: %v: %s", err, errb.String())
	}
	if err := json.Unmarshal(out.Bytes(), &r); err != nil {
		return r, fmt.Errorf("fresh verifier process: %v: %q", err, out.String())
	}
	return r, nil
}

// ------------------------------------------------------------------ one case

type builtStep struct {
	blob  []byte
	pool  *x509.CertPool
	roots [][]byte
	extra []*x509.Certificate
}

// prepare mints the certificates of the case, builds every signature blob and obtains the fresh-process verdicts
func (e *vseqEnv) prepare(cs *vseqCase) ([]*builtStep, error) {
	cs.Now = time.Now().Unix()
	certs := map[string]*mintedCert{"root": e.root, "rogue": e.rogue}
	for i, c := range cs.Certs {
		parent, ok := certs[c.Issuer]
		if !ok {
			return nil, fmt.Errorf("case %s: issuer %q of %q is not defined before it", cs.Name, c.Issuer, c.Name)
		}
		var eku []x509.ExtKeyUsage
		for _, u := range c.EKU {
			eku = append(eku, ekuNames[u])
		}
		keyIdx := 5 + i%5 // leaf, tsa, ca keys; distinct from the roots' keys
		m, err := e.p.mint(fmt.Sprintf("C10 seq %d %s", cs.ID, c.Name), keyIdx, parent, c.CA, eku, time.Unix(c.NB, 0), time.Unix(c.NA, 0))
		if err != nil {
			return nil, err
		}
		certs[c.Name] = m
	}
	pools := map[string]*x509.CertPool{}
	poolRoots := map[string][][]byte{}
	mkPool := func(name string, members ...*mintedCert) {
		p := x509.NewCertPool()
		for _, m := range members {
			p.AddCert(m.cert)
			poolRoots[name] = append(poolRoots[name], m.cert.Raw)
		}
		pools[name] = p
	}
	mkPool("P1", e.root)
	mkPool("P1b", e.root)
	mkPool("PQ", e.rogue)
	blobs := map[string][]byte{}
	freshes := map[string]freshResp{}
	var out []*builtStep
	for si, st := range cs.Steps {
		leaf, ok := certs[st.Leaf]
		if !ok {
			return nil, fmt.Errorf("case %s: unknown leaf %q", cs.Name, st.Leaf)
		}
		bkey := fmt.Sprintf("%s|%v|%s|%s|%d", st.Leaf, st.Bundle, st.Token, st.TSA, st.T)
		blob, have := blobs[bkey]
		if !have {
			chain := []*x509.Certificate{leaf.cert}
			for _, n := range st.Bundle {
				chain = append(chain, certs[n].cert)
			}
			b := pkcs7.NewBuilder(leaf.key, chain, crypto.SHA256)
			if err := b.SetContentData([]byte(fmt.Sprintf("history %d step %d", cs.ID, si))); err != nil {
				return nil, err
			}
			psd, err := b.Sign()
			if err != nil {
				return nil, err
			}
			if st.Token == "tok" {
				tsa, ok := certs[st.TSA]
				if !ok {
					return nil, fmt.Errorf("case %s: unknown tsa %q", cs.Name, st.TSA)
				}
				sinfo := &psd.Content.SignerInfos[0]
				d := sha256.Sum256(sinfo.EncryptedDigest)
				tok, err := e.p.customToken(oidSHA256, d[:], genTimeStr(time.Unix(st.T, 0)), tsa, int64(cs.ID*100+si))
				if err != nil {
					return nil, err
				}
				ptok, err := pkcs7.Unmarshal(tok)
				if err != nil {
					return nil, fmt.Errorf("relic cannot parse the openssl token: %w", err)
				}
				if err := pkcs9.AddStampToSignedData(sinfo, *ptok); err != nil {
					return nil, err
				}
			}
			var err2 error
			if blob, err2 = psd.Marshal(); err2 != nil {
				return nil, err2
			}
			blobs[bkey] = blob
		}
		bs := &builtStep{blob: blob, pool: pools[st.Pool], roots: poolRoots[st.Pool]}
		if bs.pool == nil {
			return nil, fmt.Errorf("case %s: unknown pool %q", cs.Name, st.Pool)
		}
		var extraDER [][]byte
		for _, n := range st.Extra {
			bs.extra = append(bs.extra, certs[n].cert)
			extraDER = append(extraDER, certs[n].cert.Raw)
		}
		// pools P1 and P1b have the same contents: one fresh process serves both
		fkey := fmt.Sprintf("%s|%x|%d|%v", bkey, sha256.Sum256(bytes.Join(bs.roots, nil)), st.Usage, st.Extra)
		fr, have := freshes[fkey]
		if !have {
			var err error
			if fr, err = e.fresh(&freshReq{Roots: bs.roots, Extra: extraDER, Usage: st.Usage, Blob: blob}); err != nil {
				return nil, err
			}
			freshes[fkey] = fr
		}
		st.Fresh, st.FreshErr = fr.Verdict, fr.Err
		if fr.SigErr != "" {
			st.Fresh, st.FreshErr = "sigerr", fr.SigErr
		}
		out = append(out, bs)
	}
	return out, nil
}

// play runs the history in THIS process, in order
func (e *vseqEnv) play(cs *vseqCase, built []*builtStep) {
	for i, st := range cs.Steps {
		r := verifyBlob(built[i].blob, built[i].pool, built[i].extra, x509.ExtKeyUsage(st.Usage))
		st.SigErr, st.Verdict, st.Err, st.CSTime = r.SigErr, r.Verdict, r.Err, r.CSTime
	}
}

func (e *vseqEnv) runAll(cases []*vseqCase) error {
	built := make([][]*builtStep, len(cases))
	var firstErr error
	var mu sync.Mutex
	runParallel(len(cases), 12, func(i int) {
		b, err := e.prepare(cases[i])
		if err != nil {
			mu.Lock()
			if firstErr == nil {
				firstErr = fmt.Errorf("history %d (%s): %w", cases[i].ID, cases[i].Name, err)
			}
			mu.Unlock()
			return
		}
		built[i] = b
	})
	if firstErr != nil {
		return firstErr
	}
	for i, cs := range cases { // one history after the other: nothing else verifies while a history is played
		e.play(cs, built[i])
	}
	return nil
}

// ------------------------------------------------------------------ the histories

func buildSeqCases(tier string) []*vseqCase {
	var out []*vseqCase
	id := 300000
	d := func(y int, m time.Month, day int) int64 { return unix(y, m, day).Unix() }
	// signer certificate X: a short lifetime in the past; rejections one second outside fall in the same year / day / minute
	xNB, xNA := d(2019, 3, 1), d(2019, 9, 1)
	X := vsCert{Name: "X", NB: xNB, NA: xNA, Issuer: "root", EKU: []int{3}}
	T1 := vsCert{Name: "T1", NB: d(2012, 1, 1), NA: d(2040, 1, 1), Issuer: "root", EKU: []int{8}}
	// authority certificate T2: short lifetime; signer certificate Y valid throughout
	tNB, tNA := d(2021, 3, 1), d(2021, 9, 1)
	T2 := vsCert{Name: "T2", NB: tNB, NA: tNA, Issuer: "root", EKU: []int{8}}
	Y := vsCert{Name: "Y", NB: d(2015, 1, 1), NA: d(2040, 1, 1), Issuer: "root", EKU: []int{3}}
	tok := func(label, leaf, tsa string, t int64) vsStep {
		return vsStep{Label: label, Pool: "P1", Usage: 0, Leaf: leaf, Token: "tok", TSA: tsa, T: t}
	}
	none := func(label, leaf string) vsStep {
		return vsStep{Label: label, Pool: "P1", Usage: 0, Leaf: leaf, Token: "none"}
	}
	add := func(name string, certs []vsCert, steps ...vsStep) {
		cs := &vseqCase{ID: id, Kind: "vseq", Name: name, Certs: certs}
		for i := range steps {
			s := steps[i]
			cs.Steps = append(cs.Steps, &s)
		}
		out = append(out, cs)
		id++
	}
	orders := func(prefix string, certs []vsCert, acc, rej []vsStep) {
		for _, a := range acc {
			for _, r := range rej {
				add(prefix+":"+a.Label+">"+r.Label, certs, a, r)
				add(prefix+":"+r.Label+">"+a.Label+">"+r.Label, certs, r, a, r)
			}
		}
	}
	// ---- the signer's certificate at different judgement times
	accX := []vsStep{tok("in-lifetime", "X", "T1", d(2019, 6, 1)), tok("at-notAfter", "X", "T1", xNA), tok("at-notBefore", "X", "T1", xNB)}
	rejX := []vsStep{none("no-timestamp", "X"), tok("after-expiry", "X", "T1", d(2021, 6, 1)), tok("notAfter+1s", "X", "T1", xNA+1),
		tok("before-notBefore", "X", "T1", d(2018, 6, 1)), tok("notBefore-1s", "X", "T1", xNB-1)}
	orders("signer", []vsCert{X, T1}, accX, rejX)
	// ---- the authority's certificate at different attested times
	accT := []vsStep{tok("tsa-in-lifetime", "Y", "T2", d(2021, 6, 1)), tok("tsa-at-notAfter", "Y", "T2", tNA), tok("tsa-at-notBefore", "Y", "T2", tNB)}
	rejT := []vsStep{tok("tsa-after-expiry", "Y", "T2", d(2022, 6, 1)), tok("tsa-notAfter+1s", "Y", "T2", tNA+1),
		tok("tsa-before-notBefore", "Y", "T2", d(2020, 6, 1)), tok("tsa-notBefore-1s", "Y", "T2", tNB-1)}
	orders("authority", []vsCert{Y, T2}, accT, rejT)
	// ---- a currently valid signer certificate with a timestamp from before it became valid
	yNow, yEarly := none("valid-now", "Y"), tok("attested-before-notBefore", "Y", "T1", d(2014, 6, 1))
	add("signer-valid-now:"+yNow.Label+">"+yEarly.Label, []vsCert{Y, T1}, yNow, yEarly)
	add("signer-valid-now:"+yEarly.Label+">"+yNow.Label+">"+yEarly.Label, []vsCert{Y, T1}, yEarly, yNow, yEarly)
	// both windows at once: X expired, T2 short-lived, attested inside X only / inside neither
	X2 := vsCert{Name: "X", NB: d(2021, 1, 1), NA: d(2021, 7, 1), Issuer: "root", EKU: []int{3}}
	both := tok("inside-both", "X", "T2", d(2021, 6, 1))
	tsaOnly := tok("inside-authority-only", "X", "T2", d(2021, 8, 1))
	add("both:"+both.Label+">"+tsaOnly.Label, []vsCert{X2, T2}, both, tsaOnly)
	add("both:"+tsaOnly.Label+">"+both.Label+">"+tsaOnly.Label, []vsCert{X2, T2}, tsaOnly, both, tsaOnly)
	// ---- the trust store and the usage are part of the question
	a := accX[0]
	onPool := func(s vsStep, p string) vsStep { s.Pool = p; s.Label += "@" + p; return s }
	withUsage := func(s vsStep, u int) vsStep { s.Usage = u; s.Label += fmt.Sprintf("/usage%d", u); return s }
	add("pool:P1>PQ", []vsCert{X, T1}, onPool(a, "P1"), onPool(a, "PQ"))
	add("pool:PQ>P1>PQ", []vsCert{X, T1}, onPool(a, "PQ"), onPool(a, "P1"), onPool(a, "PQ"))
	add("pool:P1>P1b>P1", []vsCert{X, T1}, onPool(a, "P1"), onPool(rejX[0], "P1b"), onPool(a, "P1b"), onPool(rejX[1], "P1"))
	add("usage:any>server>codesign", []vsCert{X, T1}, withUsage(a, 0), withUsage(a, 1), withUsage(a, 3))
	add("usage:server>codesign>server>any", []vsCert{X, T1}, withUsage(a, 1), withUsage(a, 3), withUsage(a, 1), withUsage(a, 0))
	// ---- intermediates come from this signature and this call only
	ICA := vsCert{Name: "ICA", NB: d(2012, 1, 1), NA: d(2040, 1, 1), Issuer: "root", CA: true}
	Z := vsCert{Name: "Z", NB: d(2015, 1, 1), NA: d(2040, 1, 1), Issuer: "ICA", EKU: []int{3}}
	zBundled := vsStep{Label: "intermediate-bundled", Pool: "P1", Leaf: "Z", Bundle: []string{"ICA"}, Token: "none"}
	zBare := vsStep{Label: "intermediate-missing", Pool: "P1", Leaf: "Z", Token: "none"}
	zExtra := vsStep{Label: "intermediate-from-caller", Pool: "P1", Leaf: "Z", Extra: []string{"ICA"}, Token: "none"}
	add("inter:bundled>missing>caller>missing", []vsCert{ICA, Z}, zBundled, zBare, zExtra, zBare)
	add("inter:missing>bundled", []vsCert{ICA, Z}, zBare, zBundled)
	// a signature that carries a foreign root must not make that root trusted afterwards
	W := vsCert{Name: "W", NB: d(2015, 1, 1), NA: d(2040, 1, 1), Issuer: "rogue", EKU: []int{3}}
	carrier := vsStep{Label: "carries-foreign-root", Pool: "P1", Leaf: "Y", Bundle: []string{"rogue"}, Token: "none"}
	foreign := vsStep{Label: "issued-by-foreign-root", Pool: "P1", Leaf: "W", Token: "none"}
	foreignTSA := vsCert{Name: "TQ", NB: d(2012, 1, 1), NA: d(2040, 1, 1), Issuer: "rogue", EKU: []int{8}}
	foreignTok := tok("timestamp-by-foreign-authority", "X", "TQ", d(2019, 6, 1))
	add("trust:carrier>foreign", []vsCert{Y, W, X, T1, foreignTSA}, carrier, foreign, a, foreignTok)
	add("trust:foreign>carrier>foreign", []vsCert{Y, W}, foreign, carrier, foreign)
	return out
}
