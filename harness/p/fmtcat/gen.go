// Package fmtcat: driver of the FmtCAT unit (signers/cat, signers/pkcs, signers/cosign, signers/rpm).
// gen.go holds the HARNESS-OWNED generators: a DER writer for SignedData / certificate trust lists and an RPM writer.  Nothing in
// this file uses relic or go-rpmutils.
package fmtcat

import (
	"crypto/md5"
	"crypto/sha1"
	"crypto/sha256"
	"encoding/binary"
	"encoding/hex"
	"sort"
)

// ---------------------------------------------------------------- DER
func derLen(n int) []byte {
	switch {
	case n < 128:
		return []byte{byte(n)}
	case n < 1<<8:
		return []byte{0x81, byte(n)}
	case n < 1<<16:
		return []byte{0x82, byte(n >> 8), byte(n)}
	case n < 1<<24:
		return []byte{0x83, byte(n >> 16), byte(n >> 8), byte(n)}
	}
	return []byte{0x84, byte(n >> 24), byte(n >> 16), byte(n >> 8), byte(n)}
}

func tlv(tag byte, parts ...[]byte) []byte {
	n := 0
	for _, p := range parts {
		n += len(p)
	}
	out := append([]byte{tag}, derLen(n)...)
	for _, p := range parts {
		out = append(out, p...)
	}
	return out
}

func derOID(arcs ...int) []byte {
	var body []byte
	b128 := func(v int) []byte {
		var r []byte
		r = append(r, byte(v&0x7f))
		for v >>= 7; v > 0; v >>= 7 {
			r = append([]byte{byte(v&0x7f) | 0x80}, r...)
		}
		return r
	}
	body = append(body, b128(arcs[0]*40+arcs[1])...)
	for _, a := range arcs[2:] {
		body = append(body, b128(a)...)
	}
	return tlv(0x06, body)
}

func derInt(v int) []byte {
	if v >= 0 && v < 128 {
		return tlv(0x02, []byte{byte(v)})
	}
	return tlv(0x02, []byte{byte(v >> 8), byte(v)})
}

var (
	oidSignedData = derOID(1, 2, 840, 113549, 1, 7, 2)
	oidData       = derOID(1, 2, 840, 113549, 1, 7, 1)
	oidCTL        = derOID(1, 3, 6, 1, 4, 1, 311, 10, 1)
	oidCatList    = derOID(1, 3, 6, 1, 4, 1, 311, 12, 1, 1)
	oidMemberV2   = derOID(1, 3, 6, 1, 4, 1, 311, 12, 1, 3)
	oidSHA256     = derOID(2, 16, 840, 1, 101, 3, 4, 2, 1)
	oidSHA1       = derOID(1, 3, 14, 3, 2, 26)
	derNull       = []byte{5, 0}
)

func algID(oid []byte) []byte { return tlv(0x30, oid, derNull) }

// a certificate trust list body of about `size` content octets (MS-CTL shape: usage, list id, time, algorithm, entries)
func ctlBody(seed uint64, size int) []byte {
	id := make([]byte, 16)
	for i := range id {
		id[i] = byte(seed >> (uint(i%8) * 8))
	}
	head := [][]byte{tlv(0x30, oidCatList), tlv(0x04, id), tlv(0x17, []byte("240101000000Z")), tlv(0x30, oidMemberV2, derNull)}
	n := 0
	for _, h := range head {
		n += len(h)
	}
	var entries []byte
	i := 0
	for n+len(entries)+4 < size {
		tag := sha256.Sum256([]byte{byte(seed), byte(i), byte(i >> 8)})
		k := 32
		if rest := size - n - len(entries) - 4 - 6; rest < 40 {
			k = rest - 8
			if k < 1 {
				k = 1
			}
		}
		entries = append(entries, tlv(0x30, tlv(0x04, tag[:k]), tlv(0x31))...)
		i++
	}
	var out []byte
	for _, h := range head {
		out = append(out, h...)
	}
	return append(out, tlv(0x30, entries)...)
}

type sdSpec struct {
	DigestAlgs  [][]byte // AlgorithmIdentifier elements
	ContentType []byte   // OID element
	Content     []byte   // the element inside [0] (nil: detached)
	ExtraInWrap []byte   // extra bytes after the element inside [0] (lax encodings)
	Certs       [][]byte
	SignerInfos [][]byte
	Version     int
	Trailing    []byte
}

func (s sdSpec) build() []byte {
	var das []byte
	for _, a := range s.DigestAlgs {
		das = append(das, a...)
	}
	eci := [][]byte{s.ContentType}
	if s.Content != nil {
		eci = append(eci, tlv(0xa0, s.Content, s.ExtraInWrap))
	}
	parts := [][]byte{derInt(s.Version), tlv(0x31, das), tlv(0x30, eci...)}
	if s.Certs != nil {
		parts = append(parts, tlv(0xa0, s.Certs...))
	}
	parts = append(parts, tlv(0x31, s.SignerInfos...))
	return append(tlv(0x30, oidSignedData, tlv(0xa0, tlv(0x30, parts...))), s.Trailing...)
}

// a syntactically complete SignerInfo that verifies nothing (foreign signer whose certificate is not included)
func fakeSignerInfo(serial int, withAttrs bool) []byte {
	name := tlv(0x30, tlv(0x31, tlv(0x30, derOID(2, 5, 4, 3), tlv(0x0c, []byte("foreign signer")))))
	parts := [][]byte{derInt(1), tlv(0x30, name, derInt(serial)), algID(oidSHA256)}
	if withAttrs {
		parts = append(parts, tlv(0xa0, tlv(0x30, derOID(1, 2, 840, 113549, 1, 9, 3), tlv(0x31, oidCTL)),
			tlv(0x30, derOID(1, 2, 840, 113549, 1, 9, 4), tlv(0x31, tlv(0x04, make([]byte, 32))))))
	}
	parts = append(parts, algID(derOID(1, 2, 840, 113549, 1, 1, 1)), tlv(0x04, make([]byte, 256)))
	return tlv(0x30, parts...)
}

// ---------------------------------------------------------------- RPM
type rpmEnt struct {
	Tag, Type int
	Count     int
	Data      []byte
}

const (
	rtInt32  = 4
	rtString = 6
	rtBin    = 7
	rtStrArr = 8
)

func rpmInt32(tag int, vals ...uint32) rpmEnt {
	b := make([]byte, 4*len(vals))
	for i, v := range vals {
		binary.BigEndian.PutUint32(b[4*i:], v)
	}
	return rpmEnt{tag, rtInt32, len(vals), b}
}
func rpmStr(tag int, s string) rpmEnt { return rpmEnt{tag, rtString, 1, append([]byte(s), 0)} }
func rpmStrArr(tag int, ss ...string) rpmEnt {
	var b []byte
	for _, s := range ss {
		b = append(append(b, s...), 0)
	}
	return rpmEnt{tag, rtStrArr, len(ss), b}
}
func rpmBin(tag int, b []byte) rpmEnt { return rpmEnt{tag, rtBin, len(b), b} }

// header structure: magic 8e ad e8 01, reserved, index count, store size, index, store; region tag first when regionTag != 0
func rpmHeader(ents []rpmEnt, regionTag int) []byte {
	sort.SliceStable(ents, func(i, j int) bool { return ents[i].Tag < ents[j].Tag })
	var index, store []byte
	put := func(e rpmEnt, off int) {
		ix := make([]byte, 16)
		binary.BigEndian.PutUint32(ix[0:], uint32(e.Tag))
		binary.BigEndian.PutUint32(ix[4:], uint32(e.Type))
		binary.BigEndian.PutUint32(ix[8:], uint32(off))
		binary.BigEndian.PutUint32(ix[12:], uint32(e.Count))
		index = append(index, ix...)
	}
	for _, e := range ents {
		if e.Type == rtInt32 {
			for len(store)%4 != 0 {
				store = append(store, 0)
			}
		}
		put(e, len(store))
		store = append(store, e.Data...)
	}
	n := len(ents)
	if regionTag != 0 {
		// the region entry goes first in the index; its data (a tag entry pointing backwards over the index) last in the store
		trailer := make([]byte, 16)
		binary.BigEndian.PutUint32(trailer[0:], uint32(regionTag))
		binary.BigEndian.PutUint32(trailer[4:], rtBin)
		binary.BigEndian.PutUint32(trailer[8:], uint32(int32(-16*(n+1))))
		binary.BigEndian.PutUint32(trailer[12:], 16)
		ix := make([]byte, 16)
		binary.BigEndian.PutUint32(ix[0:], uint32(regionTag))
		binary.BigEndian.PutUint32(ix[4:], rtBin)
		binary.BigEndian.PutUint32(ix[8:], uint32(len(store)))
		binary.BigEndian.PutUint32(ix[12:], 16)
		index = append(ix, index...)
		store = append(store, trailer...)
		n++
	}
	out := []byte{0x8e, 0xad, 0xe8, 0x01, 0, 0, 0, 0}
	out = binary.BigEndian.AppendUint32(out, uint32(n))
	out = binary.BigEndian.AppendUint32(out, uint32(len(store)))
	out = append(out, index...)
	return append(out, store...)
}

type rpmSpec struct {
	Name, Version, Release, Arch string
	NoName                       bool
	Epoch                        int // -1: absent
	Payload                      []byte
	HdrSHA1, HdrSHA256, MD5      bool
	PayloadDigest                bool
	Reserved                     int // size of the RESERVEDSPACE tag; -1 absent
	OldSigs                      map[int][]byte
	SigRegion, GenRegion         bool
	Source                       bool
	ExtraGen                     []rpmEnt
}

func rpmLead(name string, source bool) []byte {
	l := make([]byte, 96)
	copy(l, []byte{0xed, 0xab, 0xee, 0xdb, 3, 0})
	if source {
		l[7] = 1
	}
	l[9] = 1
	copy(l[10:76], name)
	l[77] = 1
	l[79] = 5
	return l
}

func (s rpmSpec) build() []byte {
	var gen []rpmEnt
	if !s.NoName {
		gen = append(gen, rpmStr(1000, s.Name))
	}
	gen = append(gen, rpmStr(1001, s.Version), rpmStr(1002, s.Release), rpmStr(1022, s.Arch))
	if s.Epoch >= 0 {
		gen = append(gen, rpmInt32(1003, uint32(s.Epoch)))
	}
	if s.PayloadDigest {
		d := sha256.Sum256(s.Payload)
		gen = append(gen, rpmStrArr(5092, hex.EncodeToString(d[:])), rpmInt32(5093, 8))
	}
	gen = append(gen, s.ExtraGen...)
	rt := 0
	if s.GenRegion {
		rt = 63
	}
	gh := rpmHeader(gen, rt)
	var sig []rpmEnt
	sig = append(sig, rpmInt32(1000, uint32(len(gh)+len(s.Payload))))
	if s.MD5 {
		m := md5.Sum(append(append([]byte{}, gh...), s.Payload...))
		sig = append(sig, rpmBin(1004, m[:]))
	}
	if s.HdrSHA1 {
		d := sha1.Sum(gh)
		sig = append(sig, rpmStr(269, hex.EncodeToString(d[:])))
	}
	if s.HdrSHA256 {
		d := sha256.Sum256(gh)
		sig = append(sig, rpmStr(273, hex.EncodeToString(d[:])))
	}
	if s.Reserved >= 0 {
		sig = append(sig, rpmBin(1008, make([]byte, s.Reserved)))
	}
	for t, b := range s.OldSigs {
		sig = append(sig, rpmBin(t, b))
	}
	rt = 0
	if s.SigRegion {
		rt = 62
	}
	sh := rpmHeader(sig, rt)
	for len(sh)%8 != 0 {
		sh = append(sh, 0)
	}
	out := rpmLead(s.Name+"-"+s.Version+"-"+s.Release, s.Source)
	out = append(out, sh...)
	out = append(out, gh...)
	return append(out, s.Payload...)
}
