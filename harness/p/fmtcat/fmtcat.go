package fmtcat

import (
	"bytes"
	"context"
	"crypto"
	"crypto/ecdsa"
	"crypto/elliptic"
	"crypto/rand"
	"crypto/rsa"
	"crypto/sha1"
	"crypto/sha256"
	"crypto/sha512"
	"crypto/x509"
	"crypto/x509/pkix"
	"encoding/hex"
	"encoding/json"
	"encoding/pem"
	"errors"
	"fmt"
	"math/big"
	"net/url"
	"os"
	"path/filepath"
	"runtime/debug"
	"strings"
	"time"

	"github.com/ProtonMail/go-crypto/openpgp"

	"github.com/sassoftware/relic/v8/lib/audit"
	"github.com/sassoftware/relic/v8/lib/binpatch"
	"github.com/sassoftware/relic/v8/lib/certloader"
	"github.com/sassoftware/relic/v8/lib/magic"
	"github.com/sassoftware/relic/v8/lib/pgptools"
	"github.com/sassoftware/relic/v8/lib/pkcs7"
	"github.com/sassoftware/relic/v8/lib/pkcs9"
	"github.com/sassoftware/relic/v8/signers"
	"github.com/sassoftware/relic/v8/signers/sigerrors"
	_ "github.com/sassoftware/relic/v8/verifharness/allsigners"
	"github.com/sassoftware/relic/v8/verifharness/core"
	"github.com/sassoftware/relic/v8/verifharness/srvkit"
)

type rec = map[string]interface{}

func hx(b []byte) string { return hex.EncodeToString(b) }

func repoDir() string {
	if r := os.Getenv("VERIF_REPO"); r != "" {
		return r
	}
	return "/repo"
}

// guard runs f; a panic is reported as an error naming the innermost frame of the stack and the innermost relic frame
func guard(f func() error) (err error, pan bool) {
	defer func() {
		if r := recover(); r != nil {
			lines := strings.Split(string(debug.Stack()), "\n")
			frame := func(i int) string {
				fn := strings.TrimSpace(lines[i])
				if k := strings.LastIndex(fn, "("); k > 0 {
					fn = fn[:k]
				}
				loc := strings.TrimSpace(lines[i+1])
				if k := strings.Index(loc, " +0x"); k > 0 {
					loc = loc[:k]
				}
				for _, cutAt := range []string{"/pkg/mod/", "/relic/", "/mut-fmtcat/"} {
					if k := strings.LastIndex(loc, cutAt); k >= 0 {
						loc = loc[k+len(cutAt):]
						break
					}
				}
				return fn[strings.LastIndex(fn, "/")+1:] + " " + loc
			}
			inner, relic := "", ""
			seenPanic := false
			for i := 0; i+1 < len(lines); i++ {
				l := lines[i]
				if strings.HasPrefix(l, "panic(") {
					seenPanic = true
					continue
				}
				if !seenPanic || strings.HasPrefix(l, "\t") || strings.HasPrefix(l, "runtime.") || strings.HasPrefix(l, "goroutine") || l == "" {
					continue
				}
				if inner == "" {
					inner = frame(i)
				}
				if relic == "" && strings.Contains(l, "sassoftware/relic/v8/") && !strings.Contains(l, "verifharness") {
					relic = frame(i)
					break
				}
			}
			err, pan = fmt.Errorf("panic: %v [innermost: %s; relic: %s]", r, inner, relic), true
		}
	}()
	return f(), false
}

func cut(s string) string {
	if len(s) > 300 {
		return s[:300]
	}
	return s
}

func st(err error, pan bool) string {
	if pan {
		return "panic"
	}
	if err != nil {
		var ns sigerrors.NotSignedError
		if errors.As(err, &ns) {
			return "notsigned"
		}
		return "err"
	}
	return "ok"
}

func hashOf(n string) crypto.Hash {
	switch n {
	case "sha1":
		return crypto.SHA1
	case "sha384":
		return crypto.SHA384
	case "sha512":
		return crypto.SHA512
	case "md5":
		return crypto.MD5
	}
	return crypto.SHA256
}

func digestOf(n string, b []byte) []byte {
	switch n {
	case "sha1":
		d := sha1.Sum(b)
		return d[:]
	case "sha384":
		d := sha512.Sum384(b)
		return d[:]
	case "sha512":
		d := sha512.Sum512(b)
		return d[:]
	}
	d := sha256.Sum256(b)
	return d[:]
}

type keyT struct {
	name string
	cert *certloader.Certificate
	pool *x509.CertPool
}

type drv struct {
	c    *core.Ctx
	r    *core.Rng
	dir  string
	keys map[string]*keyT
	nwd  int
	pgp  openpgp.EntityList
}

func (d *drv) workdir() string {
	d.nwd++
	wd := filepath.Join(d.dir, fmt.Sprintf("w%05d", d.nwd))
	os.MkdirAll(wd, 0o755)
	return wd
}

func selfSigned(cn string, key crypto.Signer, parent *x509.Certificate, parentKey crypto.Signer, isCA bool, serial int64) *x509.Certificate {
	tpl := &x509.Certificate{
		SerialNumber:          big.NewInt(serial),
		Subject:               pkix.Name{CommonName: cn, Organization: []string{"verif"}},
		NotBefore:             time.Now().Add(-time.Hour),
		NotAfter:              time.Now().Add(240 * time.Hour),
		KeyUsage:              x509.KeyUsageDigitalSignature | x509.KeyUsageCertSign,
		ExtKeyUsage:           []x509.ExtKeyUsage{x509.ExtKeyUsageCodeSigning},
		BasicConstraintsValid: true,
		IsCA:                  isCA,
	}
	p, pk := tpl, key
	if parent != nil {
		p, pk = parent, parentKey
	}
	der, err := x509.CreateCertificate(rand.Reader, tpl, p, key.Public(), pk)
	if err != nil {
		panic(err)
	}
	c, err := x509.ParseCertificate(der)
	if err != nil {
		panic(err)
	}
	return c
}

func (d *drv) loadKeys() error {
	kd := filepath.Join(repoDir(), "functest/testkeys")
	kb, err := os.ReadFile(filepath.Join(kd, "rsa2048.key"))
	if err != nil {
		return err
	}
	key, err := certloader.ParseAnyPrivateKey(kb, nil)
	if err != nil {
		return err
	}
	c, err := certloader.LoadTokenCertificates(key, filepath.Join(kd, "rsa2048.crt"), filepath.Join(kd, "rsa2048.pgp"), nil)
	if err != nil {
		return err
	}
	pool := x509.NewCertPool()
	pool.AddCert(c.Leaf)
	d.keys = map[string]*keyT{"rsa2048": {"rsa2048", c, pool}}
	any, err := certloader.LoadAnyCerts([]string{filepath.Join(kd, "rsa2048.pgp")})
	if err != nil {
		return err
	}
	d.pgp = any.PGPCerts
	caKey, err := rsa.GenerateKey(rand.Reader, 2048)
	if err != nil {
		return err
	}
	ca := selfSigned("verif fmtcat CA", caKey, nil, nil, true, 1)
	ecKey, err := ecdsa.GenerateKey(elliptic.P256(), rand.Reader)
	if err != nil {
		return err
	}
	leaf := selfSigned("verif fmtcat EC leaf", ecKey, ca, caKey, false, 0x4142)
	p2 := x509.NewCertPool()
	p2.AddCert(ca)
	d.keys["ec256"] = &keyT{"ec256", &certloader.Certificate{Leaf: leaf, Certificates: []*x509.Certificate{leaf, ca}, PrivateKey: ecKey}, p2}
	for _, n := range []string{"rsa2048", "ec256"} {
		k := d.keys[n]
		kr := rec{"t": "key", "name": n}
		var cl []string
		for _, c := range k.cert.Chain() {
			cl = append(cl, hx(c.Raw))
		}
		kr["chain"] = cl
		kr["leaf"] = hx(k.cert.Leaf.Raw)
		kr["issuer"] = hx(k.cert.Leaf.RawIssuer)
		kr["serial"] = k.cert.Leaf.SerialNumber.String()
		spki, _ := x509.MarshalPKIXPublicKey(k.cert.Leaf.PublicKey)
		kr["spki_pem"] = string(pem.EncodeToMemory(&pem.Block{Type: "PUBLIC KEY", Bytes: spki}))
		if pk, ok := k.cert.Leaf.PublicKey.(*rsa.PublicKey); ok {
			kr["n"] = pk.N.String()
			kr["e"] = pk.E
		}
		if k.cert.PgpKey != nil {
			kr["pgp_keyid"] = fmt.Sprintf("%016x", k.cert.PgpKey.PrimaryKey.KeyId)
		}
		d.c.Emit(kr)
	}
	return nil
}

func detectType(b []byte) int { return int(magic.Detect(bytes.NewReader(b))) }

// signFile runs the client-side pipeline of `relic sign`: GetTransform, GetReader, Signer.Sign, Transformer.Apply
func (d *drv) signFile(modName string, in []byte, k *keyT, hname string, q url.Values) (out, raw []byte, mime string, err error, pan bool, untouched bool) {
	wd := d.workdir()
	defer os.RemoveAll(wd)
	src, dest := filepath.Join(wd, "in.bin"), filepath.Join(wd, "out.bin")
	os.WriteFile(src, in, 0o644)
	mod := signers.ByName(modName)
	if q == nil {
		q = url.Values{}
	}
	flags, _ := mod.FlagsFromQuery(q)
	h := hashOf(hname)
	opts := signers.SignOpts{Path: src, Hash: h, Time: time.Now(), Flags: flags, Audit: audit.New("verif", mod.Name, h)}
	fh, _ := os.OpenFile(src, os.O_RDWR, 0)
	defer fh.Close()
	err, pan = guard(func() error {
		tr, e := mod.GetTransform(fh, opts)
		if e != nil {
			return e
		}
		stream, e := tr.GetReader()
		if e != nil {
			return e
		}
		res, e := mod.Sign(stream, k.cert, opts)
		if e != nil {
			return e
		}
		raw = res
		mime = opts.Audit.GetMimeType()
		return tr.Apply(dest, mime, bytes.NewReader(res))
	})
	now, _ := os.ReadFile(src)
	untouched = bytes.Equal(now, in)
	if err == nil {
		out, _ = os.ReadFile(dest)
	}
	return
}

type vres struct {
	St, Err, Hash, Leaf, Chain, Package, Signer string
	NSigs                                       int
}

func (v vres) rec() rec {
	return rec{"st": v.St, "err": v.Err, "hash": v.Hash, "leaf": v.Leaf, "chain": v.Chain, "package": v.Package, "signer": v.Signer, "nsigs": v.NSigs}
}

var hashNames = map[crypto.Hash]string{crypto.SHA1: "sha1", crypto.SHA256: "sha256", crypto.SHA384: "sha384", crypto.SHA512: "sha512", crypto.MD5: "md5"}

func (d *drv) verifyFile(modName string, f []byte, opts signers.VerifyOpts, pool *x509.CertPool) vres {
	wd := d.workdir()
	defer os.RemoveAll(wd)
	p := filepath.Join(wd, "v.bin")
	os.WriteFile(p, f, 0o644)
	fh, _ := os.Open(p)
	defer fh.Close()
	mod := signers.ByName(modName)
	var sigs []*signers.Signature
	err, pan := guard(func() (e error) { sigs, e = mod.Verify(fh, opts); return })
	v := vres{St: st(err, pan)}
	if err != nil {
		v.Err = cut(err.Error())
		return v
	}
	v.NSigs = len(sigs)
	for _, s := range sigs {
		v.Hash = hashNames[s.Hash]
		v.Package = s.Package
		if s.X509Signature != nil {
			v.Leaf = hx(s.X509Signature.Certificate.Raw)
			v.Chain = "skipped"
			if pool != nil {
				if e := s.X509Signature.VerifyChain(pool, nil, x509.ExtKeyUsageAny); e != nil {
					v.Chain = "err: " + cut(e.Error())
				} else {
					v.Chain = "ok"
				}
			}
		}
		if s.SignerPgp != nil {
			v.Signer = fmt.Sprintf("%016x", s.SignerPgp.PrimaryKey.KeyId)
		} else if s.Signer != "" {
			v.Signer = s.Signer
		}
	}
	return v
}

func (d *drv) isSigned(modName string, f []byte) string {
	wd := d.workdir()
	defer os.RemoveAll(wd)
	p := filepath.Join(wd, "s.bin")
	os.WriteFile(p, f, 0o644)
	fh, _ := os.Open(p)
	defer fh.Close()
	var ok bool
	err, pan := guard(func() (e error) { ok, e = signers.ByName(modName).IsSigned(fh); return })
	if pan {
		return "panic: " + cut(err.Error())
	}
	if err != nil {
		return "err: " + cut(err.Error())
	}
	if ok {
		return "true"
	}
	return "false"
}

// ---------------------------------------------------------------- catalogs
type catCase struct {
	name string
	in   []byte
	plan []string // "key/hash" per round
}

func (d *drv) catCases() []catCase {
	var cs []catCase
	std := []string{"rsa2048/sha256", "ec256/sha384", "rsa2048/sha1"}
	one := []string{"rsa2048/sha256"}
	if fx, err := os.ReadFile(filepath.Join(repoDir(), "functest/packages/hyperv.cat")); err == nil {
		cs = append(cs, catCase{"fixture:hyperv.cat", fx, std}, catCase{"fixture:hyperv.cat/sha512", fx, []string{"rsa2048/sha512", "ec256/sha256"}})
		for _, n := range []int{0, 1, 4, 19, 40, 58, 100, len(fx) / 2, len(fx) - 1} {
			cs = append(cs, catCase{fmt.Sprintf("fixture:hyperv.cat:cut%d", n), fx[:n], one})
		}
		pad := append(append([]byte{}, fx...), 0, 0, 0)
		cs = append(cs, catCase{"fixture:hyperv.cat+nul3", pad, one})
		cs = append(cs, catCase{"fixture:hyperv.cat+garbage", append(append([]byte{}, fx...), 0, 7), one})
	}
	mk := func(seed uint64, size int) sdSpec {
		return sdSpec{DigestAlgs: [][]byte{algID(oidSHA256)}, ContentType: oidCTL, Content: tlv(0x30, ctlBody(seed, size)), Version: 1}
	}
	var sizes []int
	for s := 100; s <= 140; s += 2 {
		sizes = append(sizes, s)
	}
	for s := 244; s <= 264; s += 2 {
		sizes = append(sizes, s)
	}
	sizes = append(sizes, 1000, 65510, 65530, 65536, 65560)
	if d.c.Tier == "thorough" {
		for s := 65400; s < 65700; s += 7 {
			sizes = append(sizes, s)
		}
		sizes = append(sizes, 1<<20)
	}
	for i, s := range sizes {
		sp := mk(uint64(i)+d.c.Seed*977, s)
		plan := one
		if i%6 == 0 {
			plan = std
		}
		switch i % 4 {
		case 1:
			sp.SignerInfos = [][]byte{fakeSignerInfo(7, true)}
		case 2:
			sp.SignerInfos = [][]byte{fakeSignerInfo(9, false), fakeSignerInfo(3, true)}
			sp.Certs = [][]byte{d.keys["ec256"].cert.Certificates[1].Raw}
		case 3:
			sp.Certs = [][]byte{}
		}
		cs = append(cs, catCase{fmt.Sprintf("gen:ctl%d:si%d", s, len(sp.SignerInfos)), sp.build(), plan})
	}
	b := mk(1, 300)
	cs = append(cs, catCase{"gen:unsigned", b.build(), std})
	x := b
	x.Trailing = []byte{0, 0, 0, 0, 0}
	cs = append(cs, catCase{"gen:nul-padded", x.build(), one})
	x = b
	x.Trailing = []byte{0, 1}
	cs = append(cs, catCase{"gen:trailing-garbage", x.build(), one})
	x = b
	for i := 0; i < 16; i++ { // the content type moves beyond the first 256 bytes
		x.DigestAlgs = append(x.DigestAlgs, algID(derOID(2, 16, 840, 1, 101, 3, 4, 2, 1+i%3)))
	}
	cs = append(cs, catCase{"gen:ctl-oid-beyond-256", x.build(), one})
	x = b
	x.DigestAlgs = nil
	cs = append(cs, catCase{"gen:no-digest-algs", x.build(), one})
	x = b
	x.Content = tlv(0x04, ctlBody(2, 200)) // eContent as an OCTET STRING (CMS style)
	cs = append(cs, catCase{"gen:econtent-octet-string", x.build(), std})
	x = b
	x.Content = tlv(0x30)
	cs = append(cs, catCase{"gen:empty-ctl", x.build(), one})
	x = b
	x.Content = nil
	cs = append(cs, catCase{"gen:detached-ctl", x.build(), one})
	x = b
	x.ContentType = oidData
	x.Content = tlv(0x04, []byte("hello"))
	cs = append(cs, catCase{"gen:id-data-content", x.build(), one})
	x = b
	x.ContentType = oidCatList
	cs = append(cs, catCase{"gen:other-content-type", x.build(), one})
	x = b
	x.ExtraInWrap = tlv(0x30, []byte{2, 1, 5}) // a second element inside [0]: not DER for EXPLICIT, accepted by encoding/asn1
	cs = append(cs, catCase{"gen:two-elements-in-wrapper", x.build(), one})
	x = b
	x.Version = 3
	cs = append(cs, catCase{"gen:version3", x.build(), one})
	good := b.build()
	for _, n := range []int{1, 2, 3, 5, 14, 16, 20, 24, 40, 60, len(good) - 3, len(good) - 1} {
		cs = append(cs, catCase{fmt.Sprintf("gen:cut%d", n), good[:n], one})
	}
	ber := append([]byte{0x30, 0x80}, good[4:]...)
	cs = append(cs, catCase{"gen:indefinite-length", append(ber, 0, 0), one})
	cs = append(cs, catCase{"gen:not-signed-data", tlv(0x30, oidData, tlv(0xa0, tlv(0x04, []byte("x")))), one})
	cs = append(cs, catCase{"gen:signed-data-no-content-field", tlv(0x30, oidSignedData), one})
	for i := 0; i < 12; i++ { // single-field corruptions of a good catalog
		m := append([]byte{}, good...)
		pos := d.r.Intn(len(m))
		m[pos] ^= byte(1 << uint(d.r.Intn(8)))
		cs = append(cs, catCase{fmt.Sprintf("gen:flip@%d", pos), m, one})
	}
	return cs
}

func (d *drv) runCat() {
	for _, cc := range d.catCases() {
		o := rec{"t": "cat", "name": cc.name, "in": hx(cc.in), "magic": detectType(cc.in), "issigned_in": d.isSigned("cat", cc.in)}
		o["verify_in"] = d.verifyFile("cat", cc.in, signers.VerifyOpts{}, nil).rec()
		var rounds []rec
		cur := cc.in
		for _, pl := range cc.plan {
			kh := strings.Split(pl, "/")
			k := d.keys[kh[0]]
			t0 := time.Now()
			out, _, mime, err, pan, untouched := d.signFile("cat", cur, k, kh[1], nil)
			r := rec{"key": kh[0], "hash": kh[1], "st": st(err, pan), "mime": mime, "untouched": untouched, "ms": time.Since(t0).Milliseconds()}
			if err != nil {
				r["err"] = cut(err.Error())
				rounds = append(rounds, r)
				break
			}
			r["out"] = hx(out)
			r["verify"] = d.verifyFile("cat", out, signers.VerifyOpts{TrustedPool: k.pool}, k.pool).rec()
			r["verify_nodigests"] = d.verifyFile("cat", out, signers.VerifyOpts{NoDigests: true, NoChain: true}, nil).rec()
			r["issigned"] = d.isSigned("cat", out)
			r["magic"] = detectType(out)
			rounds = append(rounds, r)
			cur = out
		}
		o["rounds"] = rounds
		d.c.Emit(o)
		if len(rounds) > 0 && rounds[0]["st"] == "ok" && (strings.HasPrefix(cc.name, "fixture:hyperv.cat") && !strings.Contains(cc.name, ":cut") || cc.name == "gen:unsigned" || strings.HasPrefix(cc.name, "gen:ctl1000")) {
			kh := strings.Split(cc.plan[0], "/")
			base, _ := hex.DecodeString(rounds[0]["out"].(string))
			d.tamper("cat", cc.name, base, func(f []byte) vres {
				return d.verifyFile("cat", f, signers.VerifyOpts{TrustedPool: d.keys[kh[0]].pool}, d.keys[kh[0]].pool)
			})
		}
	}
}

// tamper flips single bits of a signed artefact (positions spread over the whole file plus a dense sweep of the last 600 bytes, where the
// signature values live) and records what the verifier says
func (d *drv) tamper(format, name string, base []byte, verify func([]byte) vres) {
	n := len(base)
	var pos []int
	for i := 0; i < 40; i++ {
		pos = append(pos, (i*n)/40+d.r.Intn(n/40+1))
	}
	for i := 0; i < 24; i++ {
		pos = append(pos, n-1-d.r.Intn(600))
	}
	var outs []rec
	for _, p := range pos {
		if p < 0 || p >= n {
			continue
		}
		m := append([]byte{}, base...)
		bit := byte(1 << uint(d.r.Intn(8)))
		m[p] ^= bit
		v := verify(m)
		outs = append(outs, rec{"pos": p, "bit": int(bit), "st": v.St, "err": v.Err, "chain": v.Chain})
	}
	d.c.Emit(rec{"t": "tamper", "fmt": format, "name": name, "base": hx(base), "flips": outs})
}

// ---------------------------------------------------------------- PKCS#7 over arbitrary content
type p7Case struct {
	name     string
	content  []byte
	detached bool
	attrs    bool
	key, h   string
	mode     string // "data" (SetContentData) or "digest" (SetDetachedContent)
}

func (d *drv) p7Sign(c p7Case) (sig []byte, err error, pan bool) {
	k := d.keys[c.key]
	err, pan = guard(func() error {
		b := pkcs7.NewBuilder(k.cert.Signer(), k.cert.Chain(), hashOf(c.h))
		if c.mode == "digest" {
			if e := b.SetDetachedContent(pkcs7.OidData, digestOf(c.h, c.content)); e != nil {
				return e
			}
		} else if e := b.SetContentData(c.content); e != nil {
			return e
		}
		if c.attrs {
			if e := b.AddAuthenticatedAttribute(pkcs7.OidAttributeSigningTime, time.Now().UTC()); e != nil {
				return e
			}
		}
		psd, e := b.Sign()
		if e != nil {
			return e
		}
		if c.mode == "digest" {
			sig, e = psd.Marshal()
			return e
		}
		ts, e := pkcs9.TimestampAndMarshal(context.Background(), psd, nil, false)
		if e != nil {
			return e
		}
		sig = ts.Raw
		if c.detached {
			if _, e := psd.Detach(); e != nil {
				return e
			}
			sig, e = psd.Marshal()
			return e
		}
		return nil
	})
	return
}

func (d *drv) p7Verify(sig []byte, content []byte, haveContent, noDigests bool, pool *x509.CertPool) vres {
	wd := d.workdir()
	defer os.RemoveAll(wd)
	opts := signers.VerifyOpts{NoDigests: noDigests, TrustedPool: pool}
	if haveContent {
		cp := filepath.Join(wd, "content.bin")
		os.WriteFile(cp, content, 0o644)
		opts.Content = cp
	}
	return d.verifyFile("pkcs7", sig, opts, pool)
}

func (d *drv) runPkcs() {
	var contents [][2]interface{}
	if mof, err := os.ReadFile(filepath.Join(repoDir(), "functest/packages/hello.mof")); err == nil {
		contents = append(contents, [2]interface{}{"fixture:hello.mof", mof})
	}
	sizes := []int{0, 1, 2, 119, 127, 128, 255, 256, 1000, 65535, 65536}
	if d.c.Tier == "thorough" {
		sizes = append(sizes, 200000, 1<<20)
	}
	for _, n := range sizes {
		contents = append(contents, [2]interface{}{fmt.Sprintf("rand%d", n), d.r.Bytes(n)})
	}
	// content that looks like DER / like a run of OCTET STRINGs
	contents = append(contents, [2]interface{}{"der-like", tlv(0x04, []byte("abc"), tlv(0x04, []byte("def")))}, [2]interface{}{"octets-run", append(tlv(0x04, []byte("ab")), tlv(0x04, []byte("cd"))...)})
	combos := []struct{ key, h string }{{"rsa2048", "sha256"}, {"ec256", "sha256"}, {"rsa2048", "sha1"}, {"rsa2048", "sha512"}, {"ec256", "sha384"}}
	i := 0
	for _, ct := range contents {
		name, content := ct[0].(string), ct[1].([]byte)
		for _, det := range []bool{true, false} {
			for _, at := range []bool{false, true} {
				cb := combos[i%len(combos)]
				if strings.HasPrefix(name, "fixture") || name == "rand256" {
					for _, c2 := range combos {
						d.onePkcs(p7Case{name, content, det, at, c2.key, c2.h, "data"})
					}
				} else {
					d.onePkcs(p7Case{name, content, det, at, cb.key, cb.h, "data"})
				}
				i++
			}
		}
		d.onePkcs(p7Case{name, content, true, (i/4)%2 == 0, "rsa2048", "sha256", "digest"})
	}
	// SetDetachedContent with a digest of the wrong size
	b := pkcs7.NewBuilder(d.keys["rsa2048"].cert.Signer(), d.keys["rsa2048"].cert.Chain(), crypto.SHA256)
	err := b.SetDetachedContent(pkcs7.OidData, make([]byte, 20))
	d.c.Emit(rec{"t": "p7misc", "what": "detached-digest-size", "dlen": 20, "hsize": 32, "st": st(err, false), "err": fmt.Sprint(err)})
	err = b.SetDetachedContent(pkcs7.OidData, make([]byte, 32))
	d.c.Emit(rec{"t": "p7misc", "what": "detached-digest-size", "dlen": 32, "hsize": 32, "st": st(err, false), "err": fmt.Sprint(err)})
	b2 := pkcs7.NewBuilder(d.keys["rsa2048"].cert.Signer(), d.keys["rsa2048"].cert.Chain(), crypto.SHA256)
	_, err = b2.Sign()
	d.c.Emit(rec{"t": "p7misc", "what": "sign-without-content", "st": st(err, false), "err": fmt.Sprint(err)})
	b3 := pkcs7.NewBuilder(d.keys["rsa2048"].cert.Signer(), d.keys["ec256"].cert.Chain(), crypto.SHA256)
	_ = b3.SetContentData([]byte("x"))
	_, err = b3.Sign()
	d.c.Emit(rec{"t": "p7misc", "what": "sign-foreign-cert", "st": st(err, false), "err": fmt.Sprint(err)})
	b4 := pkcs7.NewBuilder(d.keys["rsa2048"].cert.Signer(), nil, crypto.SHA256)
	_ = b4.SetContentData([]byte("x"))
	_, err = b4.Sign()
	d.c.Emit(rec{"t": "p7misc", "what": "sign-no-cert", "st": st(err, false), "err": fmt.Sprint(err)})
}

func (d *drv) onePkcs(c p7Case) {
	sig, err, pan := d.p7Sign(c)
	o := rec{"t": "pkcs", "name": c.name, "content": hx(c.content), "detached": c.detached, "attrs": c.attrs, "key": c.key, "hash": c.h, "mode": c.mode, "st": st(err, pan)}
	if err != nil {
		o["err"] = cut(err.Error())
		d.c.Emit(o)
		return
	}
	o["sig"] = hx(sig)
	o["magic"] = detectType(sig)
	o["issigned"] = d.isSigned("pkcs7", sig)
	pool := d.keys[c.key].pool
	var vs []rec
	add := func(what string, content []byte, have, nod bool) {
		v := d.p7Verify(sig, content, have, nod, pool).rec()
		v["what"] = what
		if have {
			v["content"] = hx(content)
		}
		v["nodigests"] = nod
		vs = append(vs, v)
	}
	add("same", c.content, true, false)
	add("none", nil, false, false)
	flip := append([]byte{}, c.content...)
	if len(flip) > 0 {
		flip[len(flip)/2] ^= 0x20
		add("flipped", flip, true, false)
		add("truncated", c.content[:len(c.content)-1], true, false)
	}
	add("appended", append(append([]byte{}, c.content...), 0), true, false)
	add("empty", []byte{}, true, false)
	add("nodigests-none", nil, false, true)
	add("nodigests-other", []byte("something else"), true, true)
	o["verifs"] = vs
	d.c.Emit(o)
}

// pkcsv: verify (signature, content) pairs prepared by the check (signatures made by openssl, mutated signatures)
func (d *drv) runPkcsList(path string) error {
	blob, err := os.ReadFile(path)
	if err != nil {
		return err
	}
	var items []struct {
		ID        string `json:"id"`
		Sig       string `json:"sig"`
		Content   string `json:"content"`
		Have      bool   `json:"have"`
		NoDigests bool   `json:"nodigests"`
		CA        string `json:"ca"` // PEM path of the trust root, optional
		Mod       string `json:"mod"`
	}
	if err := json.Unmarshal(blob, &items); err != nil {
		return err
	}
	for _, it := range items {
		sig, _ := hex.DecodeString(it.Sig)
		content, _ := hex.DecodeString(it.Content)
		var pool *x509.CertPool
		if it.CA != "" {
			if pb, err := os.ReadFile(it.CA); err == nil {
				pool = x509.NewCertPool()
				pool.AppendCertsFromPEM(pb)
			}
		}
		wd := d.workdir()
		opts := signers.VerifyOpts{NoDigests: it.NoDigests, TrustedPool: pool}
		if it.Have {
			cp := filepath.Join(wd, "content.bin")
			os.WriteFile(cp, content, 0o644)
			opts.Content = cp
		}
		mod := it.Mod
		if mod == "" {
			mod = "pkcs7"
		}
		v := d.verifyFile(mod, sig, opts, pool).rec()
		v["t"], v["id"], v["magic"] = "pkcsv", it.ID, detectType(sig)
		d.c.Emit(v)
		os.RemoveAll(wd)
	}
	return nil
}

// ---------------------------------------------------------------- cosign
func (d *drv) runCosign() {
	type mc struct {
		name     string
		manifest []byte
		h, key   string
		optional string
	}
	mk := func(mt string, extra string) []byte {
		return []byte(`{"schemaVersion":2,"mediaType":"` + mt + `","config":{"mediaType":"application/vnd.oci.image.config.v1+json","digest":"sha256:` + strings.Repeat("ab", 32) + `","size":7023},"layers":[]` + extra + `}`)
	}
	oci := "application/vnd.oci.image.manifest.v1+json"
	var cs []mc
	for _, mt := range []string{oci, "application/vnd.oci.image.index.v1+json", "application/vnd.docker.distribution.manifest.v2+json", "application/vnd.docker.distribution.manifest.list.v2+json"} {
		for _, kh := range [][2]string{{"rsa2048", "sha256"}, {"ec256", "sha256"}, {"rsa2048", "sha384"}, {"ec256", "sha512"}} {
			cs = append(cs, mc{"ok:" + mt, mk(mt, ""), kh[1], kh[0], ""})
		}
	}
	cs = append(cs,
		mc{"hash:sha1", mk(oci, ""), "sha1", "rsa2048", ""},
		mc{"hash:md5", mk(oci, ""), "md5", "rsa2048", ""},
		mc{"type:unknown", mk("application/vnd.oci.image.config.v1+json", ""), "sha256", "rsa2048", ""},
		mc{"type:case", mk(strings.ToUpper(oci), ""), "sha256", "rsa2048", ""},
		mc{"type:empty", mk("", ""), "sha256", "rsa2048", ""},
		mc{"type:absent", []byte(`{"schemaVersion":2,"layers":[]}`), "sha256", "rsa2048", ""},
		mc{"type:number", []byte(`{"mediaType":5}`), "sha256", "rsa2048", ""},
		mc{"type:null", []byte(`{"mediaType":null}`), "sha256", "rsa2048", ""},
		mc{"type:duplicate-last-wins", []byte(`{"mediaType":"x/y","mediaType":"` + oci + `"}`), "sha256", "rsa2048", ""},
		mc{"type:case-insensitive-key", []byte(`{"MEDIATYPE":"` + oci + `"}`), "sha256", "rsa2048", ""},
		mc{"json:array", []byte(`[1,2]`), "sha256", "rsa2048", ""},
		mc{"json:string", []byte(`"` + oci + `"`), "sha256", "rsa2048", ""},
		mc{"json:empty", []byte{}, "sha256", "rsa2048", ""},
		mc{"json:garbage", []byte{0xff, 0xfe, 0, 1, '{'}, "sha256", "rsa2048", ""},
		mc{"json:truncated", mk(oci, "")[:40], "sha256", "rsa2048", ""},
		mc{"json:deep", []byte(strings.Repeat(`{"a":`, 20000) + "1" + strings.Repeat("}", 20000)), "sha256", "rsa2048", ""},
		mc{"json:whitespace", []byte(" \n\t" + string(mk(oci, "")) + "\n"), "sha256", "ec256", ""},
		mc{"json:trailing-data", append(mk(oci, ""), []byte(" x")...), "sha256", "rsa2048", ""},
		mc{"opt:object", mk(oci, ""), "sha256", "rsa2048", `{"ref":"registry.example/app:1.0","n":3}`},
		mc{"opt:creator-overridden", mk(oci, ""), "sha256", "rsa2048", `{"creator":"someone else","z":"<&>"}`},
		mc{"opt:null", mk(oci, ""), "sha256", "rsa2048", `null`},
		mc{"opt:invalid", mk(oci, ""), "sha256", "rsa2048", `{"a":`},
		mc{"opt:array", mk(oci, ""), "sha256", "rsa2048", `[1]`},
		mc{"opt:nested", mk(oci, ""), "sha256", "ec256", `{"b":{"y":1,"x":[true,null]},"a":"é"}`},
	)
	big := func(n int) []byte {
		head := `{"mediaType":"` + oci + `","annotations":{"pad":"`
		tail := `"}}`
		return []byte(head + strings.Repeat("x", n-len(head)-len(tail)) + tail)
	}
	const maxSize = 4 * 1024 * 1024
	for _, n := range []int{maxSize - 1, maxSize, maxSize + 1, maxSize + 2, 2 * maxSize} {
		cs = append(cs, mc{fmt.Sprintf("size:%d", n), big(n), "sha256", "rsa2048", ""})
	}
	for i := 0; i < 20; i++ { // random annotations / sizes
		n := 200 + d.r.Intn(3000)
		cs = append(cs, mc{fmt.Sprintf("rand:%d", n), big(n), []string{"sha256", "sha384", "sha512"}[i%3], []string{"rsa2048", "ec256"}[i%2], ""})
	}
	for _, c := range cs {
		q := url.Values{}
		if c.optional != "" {
			q.Set("optional", c.optional)
		}
		t0 := time.Now()
		_, raw, mime, err, pan, _ := d.signFile("cosign", c.manifest, d.keys[c.key], c.h, q)
		var mt struct {
			MediaType string `json:"mediaType"`
		}
		jerr := json.Unmarshal(c.manifest, &mt)
		o := rec{"t": "cosign", "name": c.name, "mlen": len(c.manifest), "hash": c.h, "key": c.key, "optional": c.optional, "st": st(err, pan), "mime": mime,
			"json_ok": jerr == nil, "media_type": hx([]byte(mt.MediaType)), "ms": time.Since(t0).Milliseconds()}
		if len(c.manifest) <= 70000 {
			o["manifest"] = hx(c.manifest)
		} else {
			p := filepath.Join(d.dir, fmt.Sprintf("manifest-%d.json", len(c.manifest)))
			os.WriteFile(p, c.manifest, 0o644)
			o["manifest_path"] = p
		}
		if err != nil {
			o["err"] = cut(err.Error())
		} else {
			if len(raw) <= 200000 {
				o["out"] = hx(raw)
			} else {
				p := filepath.Join(d.dir, fmt.Sprintf("cosign-out-%d.json", len(c.manifest)))
				os.WriteFile(p, raw, 0o644)
				o["out_path"] = p
			}
		}
		d.c.Emit(o)
	}
	o := rec{"t": "cosignmisc", "what": "issigned", "res": d.isSigned("cosign", mk(oci, ""))}
	d.c.Emit(o)
}

// ---------------------------------------------------------------- RPM
type rpmCase struct {
	name string
	in   []byte
	plan []string // hash per round
}

func (d *drv) rpmCases() []rpmCase {
	var cs []rpmCase
	std := []string{"sha256", "sha512", "sha1"}
	one := []string{"sha256"}
	if fx, err := os.ReadFile(filepath.Join(repoDir(), "functest/packages/rocky-basesystem-11-13.el9.noarch.rpm")); err == nil {
		cs = append(cs, rpmCase{"fixture:rocky", fx, std})
		for _, n := range []int{0, 3, 4, 95, 96, 100, 112, 500, len(fx) - 1} {
			cs = append(cs, rpmCase{fmt.Sprintf("fixture:rocky:cut%d", n), fx[:n], one})
		}
	}
	base := rpmSpec{Name: "verifpkg", Version: "1.2", Release: "3", Arch: "noarch", Epoch: -1, HdrSHA1: true, HdrSHA256: true, MD5: true, PayloadDigest: true, Reserved: -1, SigRegion: true, GenRegion: true}
	i := 0
	for _, psize := range []int{0, 1, 7, 8, 9, 1000, 4096, 70000} {
		for _, res := range []int{-1, 0, 1, 5, 8, 600, 2000} {
			s := base
			s.Payload = d.r.Bytes(psize)
			s.Reserved = res
			s.Name = fmt.Sprintf("verifpkg%d", i)
			switch i % 5 {
			case 1:
				s.HdrSHA256 = false
			case 2:
				s.HdrSHA1, s.HdrSHA256 = false, false
			case 3:
				s.PayloadDigest = false // falls back on the MD5 of header + payload
			case 4:
				s.SigRegion, s.GenRegion = false, false
				s.Epoch = 2
			}
			plan := one
			if i%7 == 0 {
				plan = std
			}
			if psize >= 4096 && res > 8 && d.c.Tier != "thorough" {
				i++
				continue
			}
			cs = append(cs, rpmCase{fmt.Sprintf("gen:p%d:r%d:v%d", psize, res, i%5), s.build(), plan})
			i++
		}
	}
	s := base
	s.Payload = d.r.Bytes(300)
	good := s.build()
	x := s
	x.MD5, x.PayloadDigest = false, false
	cs = append(cs, rpmCase{"gen:no-payload-digest", x.build(), one})
	x = s
	x.NoName = true
	cs = append(cs, rpmCase{"gen:no-name-tag", x.build(), one})
	x = s
	x.Source = true
	cs = append(cs, rpmCase{"gen:source-rpm", x.build(), one})
	x = s
	x.OldSigs = map[int][]byte{1005: []byte{0x88, 0x02, 0x01, 0x02}, 267: []byte{1, 2, 3}} // unparseable foreign GPG / DSA entries: removed by signing
	cs = append(cs, rpmCase{"gen:foreign-gpg-dsa", x.build(), one})
	for _, n := range []int{1, 95, 97, 104, 111, 112, 113, 128, len(good) / 2, len(good) - 301, len(good) - 1} {
		cs = append(cs, rpmCase{fmt.Sprintf("gen:cut%d", n), good[:n], one})
	}
	m := append([]byte{}, good...)
	m[0] = 0xee
	cs = append(cs, rpmCase{"gen:bad-lead-magic", m, one})
	m = append([]byte{}, good...)
	m[96] = 0x8f
	cs = append(cs, rpmCase{"gen:bad-header-magic", m, one})
	m = append([]byte{}, good...)
	m[len(m)-1] ^= 1
	cs = append(cs, rpmCase{"gen:payload-bit-flipped", m, one})
	m = append([]byte{}, good...)
	m[len(m)-310] ^= 1
	cs = append(cs, rpmCase{"gen:header-bit-flipped", m, one})
	return cs
}

func (d *drv) rpmVerify(f []byte, withKeys bool, noChain bool) vres {
	opts := signers.VerifyOpts{NoChain: noChain}
	if withKeys {
		opts.TrustedPgp = d.pgp
	}
	return d.verifyFile("rpm", f, opts, nil)
}

func (d *drv) runRpm() {
	k := d.keys["rsa2048"]
	for _, rc := range d.rpmCases() {
		o := rec{"t": "rpm", "name": rc.name, "in": hx(rc.in), "magic": detectType(rc.in), "issigned_in": d.isSigned("rpm", rc.in)}
		o["verify_in"] = d.rpmVerify(rc.in, true, false).rec()
		o["verify_in_nokeys_nochain"] = d.rpmVerify(rc.in, false, true).rec()
		var rounds []rec
		cur := rc.in
		for _, h := range rc.plan {
			t0 := time.Now()
			out, raw, mime, err, pan, untouched := d.signFile("rpm", cur, k, h, nil)
			r := rec{"hash": h, "st": st(err, pan), "mime": mime, "untouched": untouched, "ms": time.Since(t0).Milliseconds()}
			if err != nil {
				r["err"] = cut(err.Error())
				rounds = append(rounds, r)
				break
			}
			if p, e := binpatch.Load(raw); e == nil && len(p.Patches) == 1 {
				r["patch"] = []int64{p.Patches[0].Offset, int64(p.Patches[0].OldSize), int64(p.Patches[0].NewSize)}
				r["blob"] = hx(p.Blobs[0])
			} else {
				r["patch_err"] = fmt.Sprint(e)
			}
			r["out"] = hx(out)
			r["verify"] = d.rpmVerify(out, true, false).rec()
			r["verify_nokeys"] = d.rpmVerify(out, false, false).rec()
			r["verify_nokeys_nochain"] = d.rpmVerify(out, false, true).rec()
			r["issigned"] = d.isSigned("rpm", out)
			rounds = append(rounds, r)
			cur = out
		}
		o["rounds"] = rounds
		d.c.Emit(o)
		if len(rounds) > 0 && rounds[0]["st"] == "ok" && (rc.name == "fixture:rocky" || rc.name == "gen:p1000:r-1:v0" || rc.name == "gen:p9:r5:v1") {
			base, _ := hex.DecodeString(rounds[0]["out"].(string))
			d.tamper("rpm", rc.name, base, func(f []byte) vres { return d.rpmVerify(f, true, false) })
		}
	}
	_ = pgptools.ErrNoKey(0)
}

// ---------------------------------------------------------------- through the server's /sign endpoint
func (d *drv) runServer() {
	kit, err := srvkit.New(filepath.Join(d.dir, "srv"), srvkit.Options{})
	if err != nil {
		d.c.Emit(rec{"t": "srv", "what": "setup", "err": err.Error()})
		return
	}
	pk := filepath.Join(repoDir(), "functest/packages")
	cat, _ := os.ReadFile(filepath.Join(pk, "hyperv.cat"))
	rpmf, _ := os.ReadFile(filepath.Join(pk, "rocky-basesystem-11-13.el9.noarch.rpm"))
	manifest := []byte(`{"schemaVersion":2,"mediaType":"application/vnd.oci.image.manifest.v1+json","layers":[]}`)
	noName := rpmSpec{Name: "x", Version: "1", Release: "1", Arch: "noarch", Epoch: -1, NoName: true, HdrSHA256: true, MD5: true, PayloadDigest: true, Reserved: -1, SigRegion: true, GenRegion: true, Payload: []byte("abc")}.build()
	cases := []struct {
		name, sigtype, file string
		body                []byte
	}{
		{"cat", "cat", "hyperv.cat", cat}, {"rpm", "rpm", "x.rpm", rpmf}, {"cosign", "cosign", "manifest.json", manifest},
		{"pkcs7-verify-only-module", "pkcs7", "x.p7s", cat}, {"cat-garbage", "cat", "x.cat", []byte("not a catalog")},
		{"rpm-garbage", "rpm", "x.rpm", []byte("not an rpm")}, {"rpm-no-name", "rpm", "x.rpm", noName}, {"cosign-garbage", "cosign", "m.json", []byte("{")},
	}
	for _, c := range cases {
		var res srvkit.Result
		err, pan := guard(func() error {
			res = kit.Sign("alice", "rsa2048", c.sigtype, c.file, url.Values{}, bytes.NewReader(c.body))
			return nil
		})
		o := rec{"t": "srv", "name": c.name, "sigtype": c.sigtype, "in": hx(c.body), "status": res.Status, "ctype": res.ContentType, "st": st(err, pan)}
		if err != nil {
			o["err"] = cut(err.Error())
		}
		if res.Status == 200 {
			o["out"] = hx(res.Body)
			if c.name == "cat" {
				out, _, _, e2, _, _ := d.signFile("cat", c.body, d.keys["rsa2048"], "sha256", nil)
				o["equal_standalone"] = e2 == nil && bytes.Equal(out, res.Body)
			}
		} else {
			o["body"] = cut(string(res.Body))
		}
		d.c.Emit(o)
	}
}

// ---------------------------------------------------------------- magic
func (d *drv) runMagic() {
	emit := func(name string, b []byte) {
		d.c.Emit(rec{"t": "magic", "name": name, "in": hx(b), "type": detectType(b)})
	}
	ctl := oidCTL
	sd := oidSignedData
	emit("empty", nil)
	emit("rpm-magic-only", []byte{0xed, 0xab, 0xee, 0xdb})
	emit("rpm-magic-3", []byte{0xed, 0xab, 0xee})
	emit("ctl-oid-at-0", ctl)
	for _, off := range []int{0, 1, 100, 244, 245, 246, 255, 256, 300} {
		b := append(append(bytes.Repeat([]byte{0x30}, off), ctl...), 1, 2, 3)
		emit(fmt.Sprintf("ctl-oid-at-%d", off), b)
		b = append(append(bytes.Repeat([]byte{0x30}, off), sd...), 1, 2, 3)
		emit(fmt.Sprintf("sd-oid-at-%d", off), b)
		b = append(append(append(bytes.Repeat([]byte{0x30}, off), sd...), 9, 9), ctl...)
		emit(fmt.Sprintf("sd-then-ctl-at-%d", off), b)
	}
	emit("ctl-oid-short-file", ctl[:10])
	emit("deb-then-ctl", append([]byte("!<arch>\ndebian"), ctl...))
	emit("pgp-then-ctl", append([]byte("-----BEGIN PGP"), ctl...))
	emit("rpm-then-ctl", append([]byte{0xed, 0xab, 0xee, 0xdb}, ctl...))
	for i := 0; i < 40; i++ {
		b := d.r.Bytes(d.r.Intn(400))
		if i%2 == 0 && len(b) > 20 {
			copy(b[d.r.Intn(len(b)-11):], ctl)
		}
		emit(fmt.Sprintf("rand%d", i), b)
	}
}

func init() {
	core.Register("fmtcat", func(c *core.Ctx) error {
		d := &drv{c: c, r: &core.Rng{S: c.Seed*7177 + 11}, dir: c.Scratch}
		if d.dir == "" {
			return errors.New("-scratch required")
		}
		os.MkdirAll(d.dir, 0o755)
		if err := d.loadKeys(); err != nil {
			return err
		}
		parts := map[string]bool{}
		for _, a := range c.Args {
			parts[a] = true
		}
		all := len(parts) == 0
		if all || parts["magic"] {
			d.runMagic()
		}
		if all || parts["cat"] {
			d.runCat()
		}
		if all || parts["pkcs"] {
			d.runPkcs()
		}
		if all || parts["cosign"] {
			d.runCosign()
		}
		if all || parts["rpm"] {
			d.runRpm()
		}
		if all || parts["srv"] {
			d.runServer()
		}
		return nil
	})
	core.Register("fmtcat-verify", func(c *core.Ctx) error {
		d := &drv{c: c, r: &core.Rng{S: c.Seed}, dir: c.Scratch}
		if d.dir == "" || len(c.Args) != 1 {
			return errors.New("usage: fmtcat-verify <list.json> with -scratch")
		}
		os.MkdirAll(d.dir, 0o755)
		if err := d.loadKeys(); err != nil {
			return err
		}
		return d.runPkcsList(c.Args[0])
	})
}
