// Package fmtmsi: correspondence driver for the MSI Authenticode digest layer (lib/authenticode msiverify.go msitar.go msisign.go
// msinames.go).  cfbread.go is a harness-owned compound file reader written from [MS-CFB]; it shares nothing with lib/comdoc.
// It returns the tree the digest layer works on: per directory entry the raw 128 bytes, the stream bytes, and the children in
// the order a pre-order walk "node, right subtree, left subtree" of the sibling tree visits them (the order comdoc.ListDir
// happens to produce; the digest must not depend on it).
package fmtmsi

import (
	"encoding/binary"
	"errors"
)

type rnode struct {
	Raw  []byte
	Data []byte
	Kids []*rnode
	Off  int // file offset of the 128-byte entry
	ID   int
}

type cfb struct {
	data    []byte
	ss      int
	fat     []uint32
	minifat []uint32
	mini    []byte
	cutoff  uint32
	dirOffs []int
	ents    [][]byte
}

const (
	rdFree = 0xFFFFFFFF
	rdEnd  = 0xFFFFFFFE
)

func (c *cfb) secOff(s uint32) (int, error) {
	off := (int(s) + 1) * c.ss
	if s >= 0xFFFFFFFA || off+c.ss > len(c.data) {
		return 0, errors.New("sector out of range")
	}
	return off, nil
}

func (c *cfb) chain(start uint32, fat []uint32) ([]uint32, error) {
	var out []uint32
	s := start
	for s != rdEnd {
		if int(s) >= len(fat) || len(out) > len(fat) {
			return nil, errors.New("bad chain")
		}
		out = append(out, s)
		s = fat[s]
	}
	return out, nil
}

func (c *cfb) readChain(start uint32, size int) ([]byte, error) {
	ch, err := c.chain(start, c.fat)
	if err != nil {
		return nil, err
	}
	var out []byte
	for _, s := range ch {
		off, err := c.secOff(s)
		if err != nil {
			return nil, err
		}
		out = append(out, c.data[off:off+c.ss]...)
	}
	if size >= 0 {
		if size > len(out) {
			return nil, errors.New("chain shorter than size")
		}
		out = out[:size]
	}
	return out, nil
}

func readCFB(data []byte) (*rnode, *cfb, error) {
	if len(data) < 512 || string(data[:8]) != "\xd0\xcf\x11\xe0\xa1\xb1\x1a\xe1" {
		return nil, nil, errors.New("not a compound file")
	}
	c := &cfb{data: data}
	shift := binary.LittleEndian.Uint16(data[30:])
	if shift != 9 && shift != 12 {
		return nil, nil, errors.New("sector shift")
	}
	c.ss = 1 << shift
	nfat := int(binary.LittleEndian.Uint32(data[44:]))
	dirStart := binary.LittleEndian.Uint32(data[48:])
	c.cutoff = binary.LittleEndian.Uint32(data[56:])
	miniFatStart := binary.LittleEndian.Uint32(data[60:])
	difStart := binary.LittleEndian.Uint32(data[68:])
	var fatSecs []uint32
	for i := 0; i < 109; i++ {
		v := binary.LittleEndian.Uint32(data[76+4*i:])
		if v != rdFree {
			fatSecs = append(fatSecs, v)
		}
	}
	per := c.ss / 4
	for s, n := difStart, 0; s != rdEnd && s != rdFree; n++ {
		off, err := c.secOff(s)
		if err != nil || n > 1000 {
			return nil, nil, errors.New("bad DIFAT chain")
		}
		for i := 0; i < per-1; i++ {
			v := binary.LittleEndian.Uint32(data[off+4*i:])
			if v != rdFree {
				fatSecs = append(fatSecs, v)
			}
		}
		s = binary.LittleEndian.Uint32(data[off+4*(per-1):])
	}
	if len(fatSecs) < nfat {
		return nil, nil, errors.New("FAT sectors missing")
	}
	for _, s := range fatSecs[:nfat] {
		off, err := c.secOff(s)
		if err != nil {
			return nil, nil, err
		}
		for i := 0; i < per; i++ {
			c.fat = append(c.fat, binary.LittleEndian.Uint32(data[off+4*i:]))
		}
	}
	dch, err := c.chain(dirStart, c.fat)
	if err != nil {
		return nil, nil, err
	}
	for _, s := range dch {
		off, err := c.secOff(s)
		if err != nil {
			return nil, nil, err
		}
		for i := 0; i < c.ss/128; i++ {
			c.dirOffs = append(c.dirOffs, off+128*i)
			c.ents = append(c.ents, data[off+128*i:off+128*i+128])
		}
	}
	if len(c.ents) == 0 {
		return nil, nil, errors.New("empty directory")
	}
	root := -1
	for i, e := range c.ents {
		if e[66] == 5 {
			root = i
		}
	}
	if root < 0 {
		return nil, nil, errors.New("no root entry")
	}
	if miniFatStart != rdEnd && miniFatStart != rdFree {
		b, err := c.readChain(miniFatStart, -1)
		if err != nil {
			return nil, nil, err
		}
		for i := 0; i+4 <= len(b); i += 4 {
			c.minifat = append(c.minifat, binary.LittleEndian.Uint32(b[i:]))
		}
	}
	re := c.ents[root]
	if st := binary.LittleEndian.Uint32(re[116:]); st != rdEnd && st != rdFree {
		c.mini, err = c.readChain(st, -1)
		if err != nil {
			return nil, nil, err
		}
	}
	budget := len(c.ents) + 1
	t, err := c.node(root, &budget)
	return t, c, err
}

func (c *cfb) stream(e []byte) ([]byte, error) {
	size := binary.LittleEndian.Uint32(e[120:])
	start := binary.LittleEndian.Uint32(e[116:])
	if size == 0 {
		return []byte{}, nil
	}
	if size >= c.cutoff {
		return c.readChain(start, int(size))
	}
	ch, err := c.chain(start, c.minifat)
	if err != nil {
		return nil, err
	}
	var out []byte
	for _, s := range ch {
		if (int(s)+1)*64 > len(c.mini) {
			return nil, errors.New("mini sector out of range")
		}
		out = append(out, c.mini[int(s)*64:int(s)*64+64]...)
	}
	if int(size) > len(out) {
		return nil, errors.New("mini chain shorter than size")
	}
	return out[:size], nil
}

func (c *cfb) node(id int, budget *int) (*rnode, error) {
	*budget--
	if *budget < 0 {
		return nil, errors.New("directory loops")
	}
	e := c.ents[id]
	n := &rnode{Raw: append([]byte(nil), e...), Off: c.dirOffs[id], ID: id}
	switch e[66] {
	case 2:
		d, err := c.stream(e)
		if err != nil {
			return nil, err
		}
		n.Data = d
	case 1, 5:
		child := binary.LittleEndian.Uint32(e[76:])
		if child != rdFree {
			stack := []uint32{child}
			for len(stack) > 0 {
				i := stack[len(stack)-1]
				stack = stack[:len(stack)-1]
				if int(i) >= len(c.ents) {
					return nil, errors.New("directory entry id out of range")
				}
				k, err := c.node(int(i), budget)
				if err != nil {
					return nil, err
				}
				n.Kids = append(n.Kids, k)
				ke := c.ents[i]
				if l := binary.LittleEndian.Uint32(ke[68:]); l != rdFree {
					stack = append(stack, l)
				}
				if r := binary.LittleEndian.Uint32(ke[72:]); r != rdFree {
					stack = append(stack, r)
				}
			}
		}
	}
	return n, nil
}
