package fmtmsi

// Drives the REAL relic functions (DigestMSI, PrehashMSI, hashMsiDir, prehashMsiDir, prehashMsiDirent, sortMsiFiles, MsiToTar,
// DigestMsiTar, msiDecodeName, SignMSIImprint, InsertMSISignature, VerifyMSI) on compound files written by the harness-owned
// writer of p/c18 (gen.go, used as a library), on hand-patched malformed variants, and on functest/packages/dummy.msi.
// The tree handed to the model and to the python oracle comes from the harness-owned reader (cfbread.go), never from lib/comdoc.

import (
	"archive/tar"
	"bytes"
	"context"
	"crypto"
	"crypto/sha256"
	"encoding/binary"
	"encoding/hex"
	"errors"
	"fmt"
	"io"
	"os"
	"path/filepath"
	"sort"
	"strings"
	"unicode"
	"unicode/utf16"

	"github.com/sassoftware/relic/v8/lib/authenticode"
	"github.com/sassoftware/relic/v8/lib/certloader"
	"github.com/sassoftware/relic/v8/lib/comdoc"
	"github.com/sassoftware/relic/v8/signers/sigerrors"
	"github.com/sassoftware/relic/v8/verifharness/core"
	"github.com/sassoftware/relic/v8/verifharness/p/c18"
)

type jnode struct {
	Raw  string   `json:"raw"`
	Data string   `json:"data,omitempty"`
	Kids []*jnode `json:"kids,omitempty"`
}

func toJ(n *rnode) *jnode {
	j := &jnode{Raw: hex.EncodeToString(n.Raw)}
	if n.Raw[66] == 2 {
		j.Data = hex.EncodeToString(n.Data)
	}
	for _, k := range n.Kids {
		j.Kids = append(j.Kids, toJ(k))
	}
	return j
}

type tarMember struct {
	Name string `json:"name"` // hex of the UTF-8 member name
	Size int64  `json:"size"`
}

// what the real code computes for one file
type observation struct {
	Open      string      `json:"open"`
	Body      string      `json:"body"` // status of hashMsiDir(root)
	BodySha   string      `json:"body_sha,omitempty"`
	BodyLen   int         `json:"body_len"`
	Pre       string      `json:"pre"` // status of prehashMsiDir(root)
	PreHex    string      `json:"pre_hex,omitempty"`
	Imprint   [2]string   `json:"imprint"` // DigestMSI sha256: [plain, extended]  (hex or status)
	Prehash   string      `json:"prehash"` // PrehashMSI sha256
	Tar       string      `json:"tar"`     // status of MsiToTar
	Members   []tarMember `json:"members,omitempty"`
	TarSum    [2]string   `json:"tarsum"` // DigestMsiTar sha256: [plain, extended]
	Verify    string      `json:"verify"` // unsigned | ok | err:...
	RootOrder []string    `json:"root_order,omitempty"`
}

type caseRec struct {
	Kind   string       `json:"kind"` // tree
	ID     int          `json:"id"`
	Class  string       `json:"class"`
	Base   int          `json:"base"` // cases with the same base are shape variants of one tree: digests must agree
	Note   string       `json:"note,omitempty"`
	Reader string       `json:"reader"` // status of the harness-owned reader
	Tree   *jnode       `json:"tree,omitempty"`
	Obs    *observation `json:"obs"`
	Size   int          `json:"size"`
}

type signRound struct {
	Extended  bool         `json:"extended"`
	Status    string       `json:"status"` // ok | refused:<stage>:<msg> | panic:...
	Imprint   string       `json:"imprint,omitempty"`
	BlobSha   string       `json:"blob_sha,omitempty"`
	BlobLen   int          `json:"blob_len"`
	Exsig     string       `json:"exsig,omitempty"`
	Verify    string       `json:"verify"`
	Hash      string       `json:"hash,omitempty"` // digest algorithm the verifier reports
	Unchanged bool         `json:"input_unchanged"`
	Reader    string       `json:"reader"`
	Tree      *jnode       `json:"tree,omitempty"` // the signed file, harness-owned reader; signature stream contents cut
	Obs       *observation `json:"obs,omitempty"`
}

type signRec struct {
	Kind   string      `json:"kind"` // sign
	ID     int         `json:"id"`
	Of     int         `json:"of"` // tree case this history starts from
	Class  string      `json:"class"`
	Rounds []signRound `json:"rounds"`
}

type tamperRec struct {
	Kind   string `json:"kind"` // tamper
	Of     int    `json:"of"`   // sign history
	Round  int    `json:"round"`
	Mut    string `json:"mut"`
	Reader string `json:"reader"`
	Tree   *jnode `json:"tree,omitempty"`
	Verify string `json:"verify"`
}

type cmpRec struct {
	Kind   string `json:"kind"` // cmp
	A      string `json:"a"`
	B      string `json:"b"`
	LessAB string `json:"less_ab"` // "1" "0" or panic:...
	LessBA string `json:"less_ba"`
}
type direntRec struct {
	Kind   string `json:"kind"` // dirent
	Raw    string `json:"raw"`
	Status string `json:"status"`
	Out    string `json:"out"`
}
type dnameRec struct {
	Kind string  `json:"kind"` // dname
	In   []int32 `json:"in"`
	Out  []int32 `json:"out"`
}

func guard(f func() error) (status string) {
	defer func() {
		if r := recover(); r != nil {
			status = "panic:" + fmt.Sprint(r)
		}
	}()
	if err := f(); err != nil {
		return "err:" + err.Error()
	}
	return "ok"
}

func sha(b []byte) string { h := sha256.Sum256(b); return hex.EncodeToString(h[:]) }

func observe(f []byte) *observation {
	o := &observation{}
	var cdf *comdoc.ComDoc
	o.Open = guard(func() error {
		var err error
		cdf, err = comdoc.ReadFile(bytes.NewReader(f))
		return err
	})
	if o.Open != "ok" {
		return o
	}
	var buf bytes.Buffer
	o.Body = guard(func() error { return authenticode.VerifHashMsiDir(cdf, cdf.RootStorage(), &buf) })
	if o.Body == "ok" {
		o.BodySha, o.BodyLen = sha(buf.Bytes()), buf.Len()
	}
	var pbuf bytes.Buffer
	o.Pre = guard(func() error { return authenticode.VerifPrehashMsiDir(cdf, cdf.RootStorage(), &pbuf) })
	if o.Pre == "ok" {
		o.PreHex = hex.EncodeToString(pbuf.Bytes())
	}
	for k := 0; k < 2; k++ {
		var sum []byte
		st := guard(func() error {
			var err error
			sum, _, err = authenticode.DigestMSI(cdf, crypto.SHA256, k == 1)
			return err
		})
		if st == "ok" {
			st = hex.EncodeToString(sum)
		}
		o.Imprint[k] = st
	}
	var ph []byte
	o.Prehash = guard(func() error {
		var err error
		ph, err = authenticode.PrehashMSI(cdf, crypto.SHA256)
		return err
	})
	if o.Prehash == "ok" {
		o.Prehash = hex.EncodeToString(ph)
	}
	var tbuf bytes.Buffer
	o.Tar = guard(func() error { return authenticode.MsiToTar(cdf, &tbuf) })
	if o.Tar == "ok" {
		tr := tar.NewReader(bytes.NewReader(tbuf.Bytes()))
		for {
			h, err := tr.Next()
			if err != nil {
				break
			}
			o.Members = append(o.Members, tarMember{Name: hex.EncodeToString([]byte(h.Name)), Size: h.Size})
		}
		for k := 0; k < 2; k++ {
			var sum []byte
			st := guard(func() error {
				var err error
				sum, err = authenticode.DigestMsiTar(bytes.NewReader(tbuf.Bytes()), crypto.SHA256, k == 1)
				return err
			})
			if st == "ok" {
				st = hex.EncodeToString(sum)
			}
			o.TarSum[k] = st
		}
	}
	o.Verify = verifyStatus(f, nil)
	_ = guard(func() error {
		files, err := cdf.ListDir(nil)
		if err != nil {
			return err
		}
		for _, it := range files {
			var b bytes.Buffer
			_ = binary.Write(&b, binary.LittleEndian, it.RawDirEnt)
			o.RootOrder = append(o.RootOrder, hex.EncodeToString(b.Bytes()[:66]))
		}
		return nil
	})
	return o
}

func verifyStatus(f []byte, hashName *string) string {
	var sig *authenticode.MSISignature
	st := guard(func() error {
		var err error
		sig, err = authenticode.VerifyMSI(bytes.NewReader(f), false)
		return err
	})
	if st == "ok" && hashName != nil && sig != nil {
		*hashName = sig.HashFunc.String()
	}
	if st != "ok" {
		var ns sigerrors.NotSignedError
		err := func() (e error) {
			defer func() { _ = recover() }()
			_, e = authenticode.VerifyMSI(bytes.NewReader(f), false)
			return
		}()
		if errors.As(err, &ns) {
			return "unsigned"
		}
	}
	return st
}

// ------------------------------------------------------------------ names

func upper16(u uint16) uint16 {
	if u >= 0xD800 && u <= 0xDFFF {
		return u
	}
	r := unicode.ToUpper(rune(u))
	if r >= 0x10000 {
		return u
	}
	return uint16(r)
}
func cfbKey(n []uint16) string {
	out := make([]uint16, len(n))
	for i, u := range n {
		out[i] = upper16(u)
	}
	return fmt.Sprint(len(n), out)
}
func cfbLess(a, b []uint16) bool {
	if len(a) != len(b) {
		return len(a) < len(b)
	}
	for i := range a {
		x, y := upper16(a[i]), upper16(b[i])
		if x != y {
			return x < y
		}
	}
	return false
}
func u16(s string) []uint16 { return utf16.Encode([]rune(s)) }

var oddUnits = []uint16{0x00FF, 0x0100, 0x01FF, 0x0200, 0xFF00, 0x00FE, 0xFFFF, 0x8000, 0x0080, 0x0041, 0x4100, 0x3800, 0x4840, 0x0001}

func randName(r *core.Rng, used map[string]bool, family *[][]uint16) []uint16 {
	for {
		var nm []uint16
		switch r.Intn(6) {
		case 0: // MSI table style
			n := 1 + r.Intn(31)
			nm = make([]uint16, n)
			for i := range nm {
				nm[i] = uint16(0x3800 + r.Intn(0x1041))
			}
			if r.Chance(60) {
				nm[0] = 0x4840
			}
		case 1: // ASCII, mixed case
			n := 1 + r.Intn(31)
			nm = make([]uint16, n)
			for i := range nm {
				nm[i] = uint16("abcXYZ_09.-qQ"[r.Intn(13)])
			}
		case 2: // extend a sibling: prefix relations
			if len(*family) > 0 {
				base := (*family)[r.Intn(len(*family))]
				if len(base) < 31 {
					nm = append(append([]uint16{}, base...), oddUnits[r.Intn(len(oddUnits))])
					for r.Chance(30) && len(nm) < 31 {
						nm = append(nm, uint16('a'+r.Intn(3)))
					}
				}
			}
		case 3: // units whose byte order and code unit order disagree
			n := 1 + r.Intn(6)
			nm = make([]uint16, n)
			for i := range nm {
				nm[i] = oddUnits[r.Intn(len(oddUnits))]
			}
		case 4: // shorten a sibling
			if len(*family) > 0 {
				base := (*family)[r.Intn(len(*family))]
				if len(base) > 1 {
					nm = append([]uint16{}, base[:1+r.Intn(len(base)-1)]...)
				}
			}
		case 5:
			nm = u16([]string{"\x05SummaryInformation", "\x05DocumentSummaryInformation", "__storage_uid", "_Tables", "Binary.x", "\x05Digital", "\x05DigitalSignatureX"}[r.Intn(7)])
		}
		if len(nm) == 0 || len(nm) > 31 {
			continue
		}
		bad := false
		for _, u := range nm {
			if u == 0 {
				bad = true
			}
		}
		k := cfbKey(nm)
		if bad || used[k] || k == cfbKey(u16(sigName)) || k == cfbKey(u16(sigExName)) {
			continue
		}
		used[k] = true
		*family = append(*family, nm)
		return nm
	}
}

var sigName, sigExName, exMetaName, uidName = authenticode.VerifMsiNames()

var sizes = []int{0, 1, 2, 63, 64, 65, 100, 511, 512, 513, 1000, 4095, 4096, 4097, 6000}

func fill(r *core.Rng, n *c18.Node) *c18.Node {
	if r.Chance(60) {
		copy(n.Clsid[:], r.Bytes(16))
	}
	if r.Chance(50) {
		n.State = uint32(r.Next())
	}
	if r.Chance(50) {
		n.Ctime, n.Mtime = r.Next(), r.Next()
	}
	return n
}
func mkStream(r *core.Rng, name []uint16, size int) *c18.Node {
	return fill(r, &c18.Node{Name: name, Data: r.Bytes(size)})
}
func mkStorage(r *core.Rng, name []uint16, kids ...*c18.Node) *c18.Node {
	return fill(r, &c18.Node{Name: name, Storage: true, Kids: kids})
}
func randStorage(r *core.Rng, n *c18.Node, depth, maxKids int) {
	used := map[string]bool{}
	var fam [][]uint16
	cnt := r.Intn(maxKids + 1)
	for i := 0; i < cnt; i++ {
		nm := randName(r, used, &fam)
		if depth < 3 && r.Chance(22) {
			k := mkStorage(r, nm)
			randStorage(r, k, depth+1, 4)
			n.Kids = append(n.Kids, k)
		} else {
			n.Kids = append(n.Kids, mkStream(r, nm, sizes[r.Intn(len(sizes))]))
		}
	}
}

// ------------------------------------------------------------------ shape variants and patches (on the file bytes)

func collect(n *rnode, out *[]*rnode) {
	*out = append(*out, n)
	for _, k := range n.Kids {
		collect(k, out)
	}
}
func unitsOf(raw []byte) []uint16 {
	nl := int(binary.LittleEndian.Uint16(raw[64:]))
	n := nl/2 - 1
	if n < 0 || n > 32 {
		n = 0
	}
	out := make([]uint16, n)
	for i := range out {
		out[i] = binary.LittleEndian.Uint16(raw[2*i:])
	}
	return out
}

// reshape rewrites every sibling tree into a random binary search tree (MS-CFB order kept; colours all black)
func reshape(r *core.Rng, f []byte) ([]byte, error) {
	root, _, err := readCFB(f)
	if err != nil {
		return nil, err
	}
	out := append([]byte(nil), f...)
	var all []*rnode
	collect(root, &all)
	for _, n := range all {
		if len(n.Kids) == 0 {
			continue
		}
		kids := append([]*rnode(nil), n.Kids...)
		sort.SliceStable(kids, func(i, j int) bool { return cfbLess(unitsOf(kids[i].Raw), unitsOf(kids[j].Raw)) })
		var build func(lo, hi int) uint32
		build = func(lo, hi int) uint32 {
			if lo >= hi {
				return rdFree
			}
			m := lo + r.Intn(hi-lo)
			if r.Chance(25) {
				m = lo // degenerate chains
			}
			k := kids[m]
			binary.LittleEndian.PutUint32(out[k.Off+68:], build(lo, m))
			binary.LittleEndian.PutUint32(out[k.Off+72:], build(m+1, hi))
			out[k.Off+67] = 1
			return uint32(k.ID)
		}
		binary.LittleEndian.PutUint32(out[n.Off+76:], build(0, len(kids)))
	}
	return out, nil
}

// ------------------------------------------------------------------ the driver

type drv struct {
	c          *core.Ctx
	r          *core.Rng
	cert       *certloader.Certificate
	id         int
	sid        int
	tamperLeft int
}

func (d *drv) tree(class, note string, base int, f []byte) (int, *rnode) {
	rec := caseRec{Kind: "tree", ID: d.id, Class: class, Base: base, Note: note, Size: len(f)}
	d.id++
	if rec.Base < 0 {
		rec.Base = rec.ID
	}
	root, _, err := readCFB(f)
	if err != nil {
		rec.Reader = "err:" + err.Error()
	} else {
		rec.Reader = "ok"
		rec.Tree = toJ(root)
	}
	rec.Obs = observe(f)
	d.c.Emit(rec)
	return rec.ID, root
}

func cutSigs(j *jnode) *jnode {
	// the signature streams of a signed file carry a fresh PKCS#7 blob: keep only its length and digest
	for _, k := range j.Kids {
		raw, _ := hex.DecodeString(k.Raw)
		nm := string(utf16.Decode(unitsOf(raw)))
		if nm == sigName && len(k.Data) > 200 {
			b, _ := hex.DecodeString(k.Data)
			k.Data = "sha:" + sha(b) + fmt.Sprintf(":%d", len(b))
		}
	}
	return j
}

// signOnce is signers/msi transform + sign + Apply, written with the same library calls
func (d *drv) signOnce(path string, extended bool) signRound {
	rd := signRound{Extended: extended}
	before, _ := os.ReadFile(path)
	var blob, exsig []byte
	stage := "transform"
	st := guard(func() error {
		cdf, err := comdoc.ReadPath(path)
		if err != nil {
			return err
		}
		defer cdf.Close()
		if extended {
			if exsig, err = authenticode.PrehashMSI(cdf, crypto.SHA256); err != nil {
				return err
			}
		}
		stage = "tar"
		var tbuf bytes.Buffer
		if err := authenticode.MsiToTar(cdf, &tbuf); err != nil {
			return err
		}
		stage = "digest"
		sum, err := authenticode.DigestMsiTar(&tbuf, crypto.SHA256, extended)
		if err != nil {
			return err
		}
		rd.Imprint = hex.EncodeToString(sum)
		stage = "sign"
		ts, err := authenticode.SignMSIImprint(context.Background(), sum, crypto.SHA256, d.cert, nil)
		if err != nil {
			return err
		}
		blob = ts.Raw
		return nil
	})
	if st == "ok" {
		stage = "apply"
		st = guard(func() error {
			f, err := os.OpenFile(path, os.O_RDWR, 0)
			if err != nil {
				return err
			}
			defer f.Close()
			cdf, err := comdoc.WriteFile(f)
			if err != nil {
				return err
			}
			if err := authenticode.InsertMSISignature(cdf, blob, exsig); err != nil {
				return err
			}
			return cdf.Close()
		})
	}
	after, _ := os.ReadFile(path)
	rd.Unchanged = bytes.Equal(before, after)
	if st != "ok" {
		if strings.HasPrefix(st, "err:") {
			st = "refused:" + stage + ":" + st[4:]
		}
		rd.Status = st
		return rd
	}
	rd.Status = "ok"
	rd.BlobSha, rd.BlobLen, rd.Exsig = sha(blob), len(blob), hex.EncodeToString(exsig)
	rd.Verify = verifyStatus(after, &rd.Hash)
	root, _, err := readCFB(after)
	if err != nil {
		rd.Reader = "err:" + err.Error()
	} else {
		rd.Reader = "ok"
		rd.Tree = cutSigs(toJ(root))
	}
	rd.Obs = observe(after)
	return rd
}

// fromR turns what the harness-owned reader saw into a specification for the harness-owned writer
func fromR(n *rnode) *c18.Node {
	out := &c18.Node{Name: unitsOf(n.Raw), Storage: n.Raw[66] == 1 || n.Raw[66] == 5, Data: append([]byte(nil), n.Data...)}
	copy(out.Clsid[:], n.Raw[80:96])
	out.State = binary.LittleEndian.Uint32(n.Raw[96:])
	out.Ctime = binary.LittleEndian.Uint64(n.Raw[100:])
	out.Mtime = binary.LittleEndian.Uint64(n.Raw[108:])
	for _, k := range n.Kids {
		out.Kids = append(out.Kids, fromR(k))
	}
	return out
}
func msiOrderLess(a, b []uint16) bool {
	x, y := append(append([]uint16{}, a...), 0), append(append([]uint16{}, b...), 0)
	for i := 0; i < len(x) && i < len(y); i++ {
		xl, yl := byte(x[i]), byte(y[i])
		if xl != yl {
			return xl < yl
		}
		if x[i]>>8 != y[i]>>8 {
			return x[i]>>8 < y[i]>>8
		}
	}
	return len(x) > len(y)
}
func isSigNode(k *c18.Node) bool {
	nm := strings.ToUpper(string(utf16.Decode(k.Name)))
	return nm == strings.ToUpper(sigName) || nm == strings.ToUpper(sigExName)
}

// tamper grafts the signature streams of a signed file onto modified trees (harness-owned writer) and asks the real verifier
func (d *drv) tamper(of, round int, signed []byte) {
	rt, _, err := readCFB(signed)
	if err != nil {
		return
	}
	r := d.r
	try := func(mut string, fn func(root *c18.Node) bool) {
		root := fromR(rt)
		if !fn(root) {
			return
		}
		g := c18.Build(&c18.Spec{Root: root})
		rec := tamperRec{Kind: "tamper", Of: of, Round: round, Mut: mut}
		if t2, _, err := readCFB(g); err != nil {
			rec.Reader = "err:" + err.Error()
		} else {
			rec.Reader = "ok"
			rec.Tree = cutSigs(toJ(t2))
		}
		rec.Verify = verifyStatus(g, nil)
		d.c.Emit(rec)
	}
	streams := func(n *c18.Node) []*c18.Node {
		var out []*c18.Node
		for _, k := range n.Kids {
			if !k.Storage && !isSigNode(k) {
				out = append(out, k)
			}
		}
		return out
	}
	var storages func(n *c18.Node, out *[]*c18.Node)
	storages = func(n *c18.Node, out *[]*c18.Node) {
		*out = append(*out, n)
		for _, k := range n.Kids {
			if k.Storage {
				storages(k, out)
			}
		}
	}
	pickStream := func(root *c18.Node, nonEmpty bool) *c18.Node {
		var sts []*c18.Node
		storages(root, &sts)
		var all []*c18.Node
		for _, s := range sts {
			for _, k := range streams(s) {
				if !nonEmpty || len(k.Data) > 0 {
					all = append(all, k)
				}
			}
		}
		if len(all) == 0 {
			return nil
		}
		return all[r.Intn(len(all))]
	}
	try("identity", func(root *c18.Node) bool { return true })
	try("flip-content-byte", func(root *c18.Node) bool {
		k := pickStream(root, true)
		if k == nil {
			return false
		}
		k.Data[r.Intn(len(k.Data))] ^= byte(1 + r.Intn(255))
		return true
	})
	try("append-content-byte", func(root *c18.Node) bool {
		k := pickStream(root, false)
		if k == nil {
			return false
		}
		k.Data = append(k.Data, byte(r.Next()))
		return true
	})
	try("truncate-content", func(root *c18.Node) bool {
		k := pickStream(root, true)
		if k == nil {
			return false
		}
		k.Data = k.Data[:len(k.Data)-1]
		return true
	})
	try("add-stream", func(root *c18.Node) bool {
		root.Kids = append(root.Kids, &c18.Node{Name: u16("zz~added"), Data: []byte("evil")})
		return true
	})
	try("add-empty-stream", func(root *c18.Node) bool {
		root.Kids = append(root.Kids, &c18.Node{Name: u16("zz~added"), Data: []byte{}})
		return true
	})
	try("delete-stream", func(root *c18.Node) bool {
		for i, k := range root.Kids {
			if !k.Storage && !isSigNode(k) && len(k.Data) > 0 {
				root.Kids = append(root.Kids[:i:i], root.Kids[i+1:]...)
				return true
			}
		}
		return false
	})
	try("rename-stream-order-kept", func(root *c18.Node) bool {
		// change the last code unit of the name that sorts last among the root's streams: the digest order cannot change
		sts := streams(root)
		if len(sts) == 0 {
			return false
		}
		sort.Slice(sts, func(i, j int) bool { return msiOrderLess(sts[i].Name, sts[j].Name) })
		for _, k := range root.Kids {
			if k.Storage && msiOrderLess(sts[len(sts)-1].Name, k.Name) {
				return false
			}
		}
		k := sts[len(sts)-1]
		if len(k.Name) >= 31 {
			return false
		}
		k.Name = append(k.Name, 'x')
		return true
	})
	try("change-root-clsid", func(root *c18.Node) bool { root.Clsid[3] ^= 0x40; return true })
	try("change-storage-clsid", func(root *c18.Node) bool {
		var sts []*c18.Node
		storages(root, &sts)
		if len(sts) < 2 {
			return false
		}
		sts[1+r.Intn(len(sts)-1)].Clsid[0] ^= 1
		return true
	})
	try("change-state-bits", func(root *c18.Node) bool {
		k := pickStream(root, false)
		if k == nil {
			return false
		}
		k.State ^= 0x10
		return true
	})
	try("change-mtime", func(root *c18.Node) bool {
		k := pickStream(root, false)
		if k == nil {
			return false
		}
		k.Mtime ^= 0x100
		return true
	})
	try("move-boundary", func(root *c18.Node) bool {
		// move the last byte of one stream to the front of the stream digested next
		var kids []*c18.Node
		for _, k := range root.Kids {
			if !isSigNode(k) {
				kids = append(kids, k)
			}
		}
		sort.Slice(kids, func(i, j int) bool { return msiOrderLess(kids[i].Name, kids[j].Name) })
		for i := 0; i+1 < len(kids); i++ {
			a, b := kids[i], kids[i+1]
			if !a.Storage && !b.Storage && len(a.Data) > 0 {
				b.Data = append([]byte{a.Data[len(a.Data)-1]}, b.Data...)
				a.Data = a.Data[:len(a.Data)-1]
				return true
			}
		}
		return false
	})
	try("swap-contents", func(root *c18.Node) bool {
		sts := streams(root)
		if len(sts) < 2 || bytes.Equal(sts[0].Data, sts[1].Data) {
			return false
		}
		sts[0].Data, sts[1].Data = sts[1].Data, sts[0].Data
		return true
	})
	try("stream-to-storage", func(root *c18.Node) bool {
		// the MsiDigitalSignatureEx framing ambiguity: a 16-byte stream named n+6 units <-> an empty storage named n with that CLSID
		for _, k := range root.Kids {
			if !k.Storage && !isSigNode(k) && len(k.Data) == 16 && len(k.Name) == 7 && binary.LittleEndian.Uint32(k.Data[12:]) == 16 {
				ok := true
				for i := 0; i < 6; i++ {
					if binary.LittleEndian.Uint16(k.Data[2*i:]) != k.Name[1+i] {
						ok = false
					}
				}
				if ok {
					copy(k.Clsid[:], k.Data)
					k.Name, k.Storage, k.Data = k.Name[:1], true, nil
					return true
				}
			}
		}
		return false
	})
}

func (d *drv) history(of int, class string, f []byte, modes []bool) {
	dir := filepath.Join(d.c.Scratch, fmt.Sprintf("h%04d", d.sid))
	_ = os.MkdirAll(dir, 0o755)
	path := filepath.Join(dir, "work.msi")
	_ = os.WriteFile(path, f, 0o644)
	rec := signRec{Kind: "sign", ID: d.sid, Of: of, Class: class}
	d.sid++
	for _, ext := range modes {
		rd := d.signOnce(path, ext)
		rec.Rounds = append(rec.Rounds, rd)
		if rd.Status != "ok" {
			break
		}
		if rd.Verify == "ok" && (class == "ex-ambiguity-1" || (d.tamperLeft > 0 && (class == "gen" || class == "fixture"))) {
			if class != "ex-ambiguity-1" {
				d.tamperLeft--
			}
			signed, _ := os.ReadFile(path)
			d.tamper(rec.ID, len(rec.Rounds)-1, signed)
		}
	}
	d.c.Emit(rec)
	_ = os.RemoveAll(dir)
}

func rawEntry(units []uint16, nlen uint16, typ byte, clsid []byte, state uint32, ct, mt uint64, start, size uint32) []byte {
	b := make([]byte, 128)
	for i, u := range units {
		if i < 32 {
			binary.LittleEndian.PutUint16(b[2*i:], u)
		}
	}
	binary.LittleEndian.PutUint16(b[64:], nlen)
	b[66] = typ
	b[67] = 1
	binary.LittleEndian.PutUint32(b[68:], rdFree)
	binary.LittleEndian.PutUint32(b[72:], rdFree)
	binary.LittleEndian.PutUint32(b[76:], rdFree)
	copy(b[80:96], clsid)
	binary.LittleEndian.PutUint32(b[96:], state)
	binary.LittleEndian.PutUint64(b[100:], ct)
	binary.LittleEndian.PutUint64(b[108:], mt)
	binary.LittleEndian.PutUint32(b[116:], start)
	binary.LittleEndian.PutUint32(b[120:], size)
	return b
}
func toDirEnt(raw []byte) *comdoc.DirEnt {
	e := &comdoc.DirEnt{}
	_ = binary.Read(bytes.NewReader(raw), binary.LittleEndian, &e.RawDirEnt)
	return e
}
func lessReal(a, b []byte) string {
	res := ""
	st := guard(func() error {
		ea, eb := toDirEnt(a), toDirEnt(b)
		l := []*comdoc.DirEnt{eb, ea} // insertion sort of two elements asks less(1, 0) = less(a, b)
		authenticode.VerifSortMsiFiles(l)
		if l[0] == ea {
			res = "1"
		} else {
			res = "0"
		}
		return nil
	})
	if st != "ok" {
		return st
	}
	return res
}

func (d *drv) comparisons() {
	r := d.r
	var pool [][]byte
	add := func(units []uint16, nlen int) {
		pool = append(pool, rawEntry(units, uint16(nlen), 2, nil, 0, 0, 0, 0, 0))
	}
	wf := func(s []uint16) { add(s, 2*len(s)+2) }
	for _, s := range []string{"a", "ab", "abc", "b", "A", "aB", "\x05DigitalSignature", "\x05MsiDigitalSignatureEx", "\x05SummaryInformation", "Z"} {
		wf(u16(s))
	}
	for _, a := range oddUnits {
		wf([]uint16{a})
		wf([]uint16{a, 'x'})
		wf([]uint16{'x', a})
	}
	full := make([]uint16, 31)
	for i := range full {
		full[i] = 'q'
	}
	wf(full)
	f2 := append([]uint16{}, full...)
	f2[30] = 'r'
	wf(f2)
	for i := 0; i < 40; i++ {
		used := map[string]bool{}
		var fam [][]uint16
		for k := 0; k < 3; k++ {
			wf(randName(r, used, &fam))
		}
	}
	nwf := len(pool)
	// malformed: embedded NUL, garbage after the terminator, lengths that disagree with the terminator, no terminator, odd / huge lengths
	add([]uint16{'a', 0, 'b'}, 8)
	add([]uint16{'a', 0, 'c'}, 8)
	add([]uint16{'a', 0, 0x7777, 0x1234}, 4)
	add([]uint16{'a', 0, 0x0001, 0x1234}, 4)
	add([]uint16{'a', 'b', 'c'}, 4)
	add([]uint16{'a', 'b', 'c'}, 6)
	add([]uint16{'a', 'b', 'c'}, 7)
	add([]uint16{'a', 'b', 'c'}, 0)
	add([]uint16{'a', 'b', 'c'}, 1)
	add([]uint16{'a', 'b', 'c'}, 65535)
	add([]uint16{'a', 'b', 'd'}, 65535)
	all32 := make([]uint16, 32)
	for i := range all32 {
		all32[i] = 'z'
	}
	add(all32, 64)
	add(all32, 66)
	add(all32, 200)
	b32 := append([]uint16{}, all32...)
	b32[31] = 'y'
	add(b32, 66)
	add(b32, 64)
	emit := func(a, b []byte) {
		d.c.Emit(cmpRec{Kind: "cmp", A: hex.EncodeToString(a[:66]), B: hex.EncodeToString(b[:66]), LessAB: lessReal(a, b), LessBA: lessReal(b, a)})
	}
	for i := 0; i < nwf; i++ {
		for k := 0; k < 6; k++ {
			emit(pool[i], pool[r.Intn(nwf)])
		}
	}
	for i := nwf; i < len(pool); i++ {
		for j := nwf; j < len(pool); j++ {
			emit(pool[i], pool[j])
		}
		for k := 0; k < 8; k++ {
			emit(pool[i], pool[r.Intn(nwf)])
		}
	}
}

func (d *drv) dirents() {
	r := d.r
	for _, typ := range []byte{0, 1, 2, 5, 3, 255} {
		for _, nlen := range []int{0, 1, 2, 3, 4, 10, 36, 46, 62, 63, 64, 65, 66, 67, 128, 130, 200, 32768, 65534, 65535} {
			units := make([]uint16, 32)
			for i := range units {
				units[i] = uint16(r.Next())
			}
			raw := rawEntry(units, uint16(nlen), typ, r.Bytes(16), uint32(r.Next()), r.Next(), r.Next(), uint32(r.Next()), uint32(r.Next()))
			copy(raw[124:], r.Bytes(4))
			copy(raw[68:80], r.Bytes(12))
			var out bytes.Buffer
			st := guard(func() error { return authenticode.VerifPrehashMsiDirent(toDirEnt(raw), &out) })
			d.c.Emit(direntRec{Kind: "dirent", Raw: hex.EncodeToString(raw), Status: st, Out: hex.EncodeToString(out.Bytes())})
		}
	}
}

func (d *drv) dnames() {
	r := d.r
	emit := func(in []rune) {
		out := []rune(authenticode.VerifMsiDecodeName(string(in)))
		rec := dnameRec{Kind: "dname"}
		for _, x := range in {
			rec.In = append(rec.In, int32(x))
		}
		for _, x := range out {
			rec.Out = append(rec.Out, int32(x))
		}
		d.c.Emit(rec)
	}
	for _, b := range []rune{0x37ff, 0x3800, 0x3801, 0x383f, 0x3840, 0x47ff, 0x4800, 0x4801, 0x483e, 0x483f, 0x4840, 0x4841, 5, 'a', 0xfffd, 0x10000, 0x3800 + 63*64 + 62, 0x3800 + 62*64 + 63, 0x3800 + 9, 0x3800 + 10, 0x3800 + 35, 0x3800 + 36, 0x3800 + 61, 0x4800 + 62, 0x4800 + 63} {
		emit([]rune{b})
	}
	for i := 0; i < 60; i++ {
		n := 1 + r.Intn(8)
		in := make([]rune, n)
		for k := range in {
			switch r.Intn(3) {
			case 0:
				in[k] = rune(0x3800 + r.Intn(0x1045))
			case 1:
				in[k] = rune(32 + r.Intn(90))
			default:
				in[k] = rune(r.Intn(0xd800))
			}
		}
		emit(in)
	}
	// the code units that decode to the special member names
	enc := func(s string) []rune {
		idx := func(c byte) int {
			return strings.IndexByte("0123456789ABCDEFGHIJKLMNOPQRSTUVWXYZabcdefghijklmnopqrstuvwxyz._", c)
		}
		var out []rune
		for i := 0; i+1 < len(s); i += 2 {
			out = append(out, rune(0x3800+idx(s[i])+64*idx(s[i+1])))
		}
		if len(s)%2 == 1 {
			out = append(out, rune(0x4800+idx(s[len(s)-1])))
		}
		return out
	}
	emit(enc("__exmeta"))
	emit(append([]rune{5}, enc("DigitalSignature")...))
	emit(append([]rune{5}, enc("MsiDigitalSignatureEx")...))
}

// mangled returns the MSI-encoded code units that msiDecodeName turns into s (s over [0-9A-Za-z._])
func mangled(s string) []uint16 {
	idx := func(c byte) int {
		return strings.IndexByte("0123456789ABCDEFGHIJKLMNOPQRSTUVWXYZabcdefghijklmnopqrstuvwxyz._", c)
	}
	var out []uint16
	for i := 0; i+1 < len(s); i += 2 {
		out = append(out, uint16(0x3800+idx(s[i])+64*idx(s[i+1])))
	}
	if len(s)%2 == 1 {
		out = append(out, uint16(0x4800+idx(s[len(s)-1])))
	}
	return out
}

func init() {
	core.Register("fmtmsi", func(c *core.Ctx) error {
		if c.Scratch == "" {
			return errors.New("fmtmsi needs -scratch")
		}
		repo := os.Getenv("VERIF_REPO")
		if repo == "" {
			repo = "/repo"
		}
		cert, err := certloader.LoadX509KeyPair(filepath.Join(repo, "functest/testkeys/rsa2048.crt"), filepath.Join(repo, "functest/testkeys/rsa2048.key"))
		if err != nil {
			return err
		}
		d := &drv{c: c, r: &core.Rng{S: c.Seed*2654435761 + 77}, cert: cert, tamperLeft: 14}
		if c.Tier == "thorough" {
			d.tamperLeft = 150
		}
		r := d.r
		d.comparisons()
		d.dirents()
		d.dnames()

		// ---- fixture
		fx, err := os.ReadFile(filepath.Join(repo, "functest/packages/dummy.msi"))
		if err != nil {
			return err
		}
		id, _ := d.tree("fixture", "dummy.msi", -1, fx)
		d.history(id, "fixture", fx, []bool{true, false, true})
		d.history(id, "fixture", fx, []bool{false, false})
		if v, err := reshape(r, fx); err == nil {
			d.tree("fixture", "dummy.msi reshaped", id, v)
		}

		// ---- generated well-formed trees, each in several sibling-tree shapes and directory layouts
		n := 40
		if c.Tier == "thorough" {
			n = 400
		}
		if c.N > 0 {
			n = c.N
		}
		for k := 0; k < n; k++ {
			root := &c18.Node{}
			fill(r, root)
			randStorage(r, root, 0, 3+r.Intn(12))
			if k%5 == 1 { // already signed by someone else
				root.Kids = append(root.Kids, mkStream(r, u16(sigName), r.Pick(1, 700, 4096, 5000)))
				if r.Chance(60) {
					root.Kids = append(root.Kids, mkStream(r, u16(sigExName), r.Pick(20, 32)))
				}
			}
			sp := &c18.Spec{Root: root, V4: r.Chance(30), DirHoles: r.Intn(3), FreeEvery: r.Pick(0, 0, 3), Interleave: r.Chance(30), TablesLast: r.Chance(30)}
			f := c18.Build(sp)
			id, rt := d.tree("gen", "", -1, f)
			if rt == nil {
				continue
			}
			for v := 0; v < 2; v++ {
				if g, err := reshape(r, f); err == nil {
					d.tree("gen", "reshaped", id, g)
				}
			}
			// the same tree with the children listed in another order in the directory (other entry ids, other balanced tree)
			for i := len(root.Kids) - 1; i > 0; i-- {
				j := r.Intn(i + 1)
				root.Kids[i], root.Kids[j] = root.Kids[j], root.Kids[i]
			}
			d.tree("gen", "permuted entries", id, c18.Build(&c18.Spec{Root: root, V4: sp.V4, DirHoles: r.Intn(4)}))
			if k%2 == 0 {
				modes := [][]bool{{true}, {false}, {true, false, true}, {false, true}}[r.Intn(4)]
				d.history(id, "gen", f, modes)
			}
		}

		// ---- hand-made classes
		special := func(class, note string, root *c18.Node, sign bool) int {
			f := c18.Build(&c18.Spec{Root: root})
			id, _ := d.tree(class, note, -1, f)
			if sign {
				d.history(id, class, f, []bool{true})
				d.history(id, class, f, []bool{false})
			}
			return id
		}
		rootOf := func(kids ...*c18.Node) *c18.Node { return fill(r, &c18.Node{Kids: kids}) }
		special("empty-root", "no children", rootOf(), true)
		special("nested-sig-stream", "a storage contains a stream named \\5DigitalSignature",
			rootOf(mkStream(r, u16("A"), 10), mkStorage(r, u16("S"), mkStream(r, u16(sigName), 33), mkStream(r, u16("x"), 5))), true)
		special("nested-sigex-stream", "a storage contains a stream named \\5MsiDigitalSignatureEx",
			rootOf(mkStorage(r, u16("S"), mkStream(r, u16(sigExName), 20), mkStream(r, u16("x"), 5))), true)
		special("nested-sig-storage", "a storage contains a storage named \\5DigitalSignature",
			rootOf(mkStorage(r, u16("S"), mkStorage(r, u16(sigName), mkStream(r, u16("x"), 5)))), true)
		special("root-sig-storage", "the root contains a STORAGE named \\5DigitalSignature",
			rootOf(mkStream(r, u16("A"), 10), mkStorage(r, u16(sigName), mkStream(r, u16("x"), 5))), true)
		special("decoded-exmeta", "root stream whose MSI-decoded name is __exmeta", rootOf(mkStream(r, u16("A"), 10), mkStream(r, mangled("__exmeta"), 40)), true)
		special("plain-exmeta", "root stream named __exmeta", rootOf(mkStream(r, u16("A"), 10), mkStream(r, u16("__exmeta"), 40)), true)
		special("nested-exmeta", "nested stream named __exmeta (harmless)", rootOf(mkStorage(r, u16("S"), mkStream(r, u16("__exmeta"), 40))), true)
		special("decoded-sig", "root stream whose MSI-decoded name is \\5DigitalSignature", rootOf(mkStream(r, u16("A"), 10), mkStream(r, append([]uint16{5}, mangled("DigitalSignature")...), 40)), true)
		special("fold-sig", "root stream named \\5digitalsignature (equal to the signature name under MS-CFB case folding)",
			rootOf(mkStream(r, u16("A"), 10), mkStream(r, u16("\x05digitalsignature"), 40)), true)
		special("fold-sig-dotless", "root stream named \\5D\\u0131gitalSignature", rootOf(mkStream(r, u16("\x05DıgitalSignature"), 40)), true)
		special("fold-sigex", "root stream named \\5MSIDIGITALSIGNATUREEX", rootOf(mkStream(r, u16("\x05MSIDIGITALSIGNATUREEX"), 40)), true)
		special("uid-name", "streams named __storage_uid", rootOf(mkStream(r, u16("__storage_uid"), 16), mkStorage(r, u16("S"), mkStream(r, u16("__storage_uid"), 16))), true)
		special("slash-end", "stream named a/ (a name [MS-CFB] forbids; the tar writer turns it into a directory member)", rootOf(mkStream(r, u16("A"), 10), mkStream(r, u16("a/"), 7)), true)
		special("slash-mid", "stream named a/b next to a storage a with a stream b", rootOf(mkStream(r, u16("a/b"), 7), mkStorage(r, u16("a"), mkStream(r, u16("b"), 3))), true)
		special("empty-sig", "root stream \\5DigitalSignature of length 0", rootOf(mkStream(r, u16("A"), 10), mkStream(r, u16(sigName), 0)), true)
		special("only-sigex", "MsiDigitalSignatureEx without DigitalSignature", rootOf(mkStream(r, u16("A"), 10), mkStream(r, u16(sigExName), 32)), true)
		// format-inherent ambiguities
		special("boundary-1", "streams a=xy b=z", rootOf(&c18.Node{Name: u16("a"), Data: []byte("xy")}, &c18.Node{Name: u16("b"), Data: []byte("z")}), false)
		special("boundary-2", "streams a=x b=yz", rootOf(&c18.Node{Name: u16("a"), Data: []byte("x")}, &c18.Node{Name: u16("b"), Data: []byte("yz")}), false)
		amb := []byte{0x62, 0, 0x63, 0, 0x64, 0, 0x65, 0, 0x66, 0, 0x67, 0, 16, 0, 0, 0}
		var ambID [16]byte
		copy(ambID[:], amb)
		rt1 := &c18.Node{Kids: []*c18.Node{{Name: u16("abcdefg"), Data: amb, State: 7, Ctime: 5, Mtime: 6}}}
		rt2 := &c18.Node{Kids: []*c18.Node{{Name: u16("a"), Storage: true, Clsid: ambID, State: 7, Ctime: 5, Mtime: 6}}}
		special("ex-ambiguity-1", "stream abcdefg, 16 bytes", rt1, true)
		special("ex-ambiguity-2", "empty storage a whose CLSID is that stream's content", rt2, false)

		// ---- malformed directory entries (patched after writing)
		base := func() ([]byte, *rnode) {
			root := rootOf(mkStream(r, u16("aa"), 10), mkStream(r, u16("bb"), 70), mkStream(r, u16("cc"), 5), mkStorage(r, u16("dd"), mkStream(r, u16("ee"), 9)))
			f := c18.Build(&c18.Spec{Root: root})
			rt, _, _ := readCFB(f)
			return f, rt
		}
		patch := func(class, note string, fn func(f []byte, kids []*rnode)) {
			f, rt := base()
			if rt == nil {
				return
			}
			var all []*rnode
			collect(rt, &all)
			fn(f, all[1:])
			d.tree(class, note, -1, f)
		}
		for _, nl := range []int{0, 1, 3, 5, 7, 64, 66, 200, 65535} {
			nl := nl
			patch("bad-namelen", fmt.Sprintf("NameLength %d", nl), func(f []byte, k []*rnode) { binary.LittleEndian.PutUint16(f[k[1].Off+64:], uint16(nl)) })
		}
		patch("dup-name", "two children with the same name", func(f []byte, k []*rnode) { copy(f[k[1].Off:k[1].Off+66], f[k[0].Off:k[0].Off+66]) })
		patch("embedded-nul", "name a\\0b next to a", func(f []byte, k []*rnode) {
			copy(f[k[0].Off:], []byte{'a', 0, 0, 0, 'b', 0, 0, 0})
			binary.LittleEndian.PutUint16(f[k[0].Off+64:], 8)
			copy(f[k[1].Off:], []byte{'a', 0, 0, 0, 0, 0, 0, 0})
			binary.LittleEndian.PutUint16(f[k[1].Off+64:], 4)
		})
		patch("garbage-padding", "non-zero bytes after the terminator", func(f []byte, k []*rnode) {
			for _, e := range k {
				copy(f[e.Off+6:e.Off+64], r.Bytes(58))
			}
		})
		patch("odd-type", "a child of type 3", func(f []byte, k []*rnode) { f[k[1].Off+66] = 3 })
		patch("root-type-child", "a child of type 5", func(f []byte, k []*rnode) { f[k[2].Off+66] = 5 })
		patch("no-terminator", "32 non-zero code units", func(f []byte, k []*rnode) {
			for i := 0; i < 32; i++ {
				binary.LittleEndian.PutUint16(f[k[1].Off+2*i:], 'w')
			}
			binary.LittleEndian.PutUint16(f[k[1].Off+64:], 66)
		})
		patch("surrogates", "lone and paired surrogates in names", func(f []byte, k []*rnode) {
			copy(f[k[0].Off:], []byte{0x00, 0xd8, 0x00, 0xdc, 0, 0})
			binary.LittleEndian.PutUint16(f[k[0].Off+64:], 6)
			copy(f[k[1].Off:], []byte{0x00, 0xdc, 0x00, 0xd8, 0, 0})
			binary.LittleEndian.PutUint16(f[k[1].Off+64:], 6)
		})
		return nil
	})
}

var _ = io.EOF
