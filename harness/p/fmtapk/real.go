// Package fmtapk: correspondence driver for the APK Signature Scheme v2 layer (signers/apk) of relic.
//
// It runs the REAL relic code — makeSigBlock, marshal / unmarshal with the types of structs.go, getSigBlock, digestApkStream,
// the registered apk and jar signers with their transformer (GetTransform / GetReader / Sign / Apply as cmdline/token/signcmd.go
// does), verify, IsSigned, signjar.DigestManifest — on harness-written archives and signing blocks (gen.go) and on
// functest/packages/dummy.apk, and prints observations as JSON lines (one object per case, field "t" names the kind).
package fmtapk

import (
	"bytes"
	"crypto"
	"crypto/ecdsa"
	"crypto/elliptic"
	"crypto/rand"
	"crypto/sha256"
	"crypto/x509"
	"crypto/x509/pkix"
	"encoding/binary"
	"encoding/hex"
	"errors"
	"fmt"
	"io"
	"math/big"
	"net/url"
	"os"
	"path/filepath"
	"strings"
	"time"

	"github.com/sassoftware/relic/v8/lib/audit"
	"github.com/sassoftware/relic/v8/lib/binpatch"
	"github.com/sassoftware/relic/v8/lib/certloader"
	"github.com/sassoftware/relic/v8/lib/signjar"
	"github.com/sassoftware/relic/v8/lib/zipslicer"
	"github.com/sassoftware/relic/v8/signers"
	"github.com/sassoftware/relic/v8/signers/apk"
	"github.com/sassoftware/relic/v8/signers/sigerrors"
	_ "github.com/sassoftware/relic/v8/verifharness/allsigners"
	"github.com/sassoftware/relic/v8/verifharness/core"
)

func repoRoot() string {
	if r := os.Getenv("VERIF_REPO"); r != "" {
		return r
	}
	return "/repo"
}

func hx(b []byte) string { return hex.EncodeToString(b) }

func guard(f func() error) (err error, pan bool) {
	defer func() {
		if r := recover(); r != nil {
			err, pan = fmt.Errorf("panic: %v", r), true
		}
	}()
	return f(), false
}

func cut(s string) string {
	if len(s) > 160 {
		return s[:160]
	}
	return s
}

type drv struct {
	c     *core.Ctx
	r     *core.Rng
	rsa   *certloader.Certificate
	ec    *certloader.Certificate
	pool  *x509.CertPool
	dir   string
	seq   int
	nextF int
}

func (d *drv) workdir() string {
	d.seq++
	p := filepath.Join(d.dir, fmt.Sprintf("w%06d", d.seq))
	_ = os.MkdirAll(p, 0o755)
	return p
}

func loadRSA() (*certloader.Certificate, error) {
	kd := filepath.Join(repoRoot(), "functest/testkeys")
	kb, err := os.ReadFile(filepath.Join(kd, "rsa2048.key"))
	if err != nil {
		return nil, err
	}
	key, err := certloader.ParseAnyPrivateKey(kb, nil)
	if err != nil {
		return nil, err
	}
	return certloader.LoadTokenCertificates(key, filepath.Join(kd, "rsa2048.crt"), "", nil)
}

func makeEC() (*certloader.Certificate, error) {
	key, err := ecdsa.GenerateKey(elliptic.P256(), rand.Reader)
	if err != nil {
		return nil, err
	}
	tmpl := &x509.Certificate{SerialNumber: big.NewInt(11), Subject: pkix.Name{CommonName: "fmtapk ec"}, NotBefore: time.Now().Add(-time.Hour),
		NotAfter: time.Now().Add(24 * time.Hour), KeyUsage: x509.KeyUsageDigitalSignature, ExtKeyUsage: []x509.ExtKeyUsage{x509.ExtKeyUsageCodeSigning},
		BasicConstraintsValid: true, IsCA: true}
	der, err := x509.CreateCertificate(rand.Reader, tmpl, tmpl, &key.PublicKey, key)
	if err != nil {
		return nil, err
	}
	leaf, err := x509.ParseCertificate(der)
	if err != nil {
		return nil, err
	}
	return &certloader.Certificate{Leaf: leaf, Certificates: []*x509.Certificate{leaf}, PrivateKey: key}, nil
}

func kpOf(name string, c *certloader.Certificate) *keyPair {
	k := &keyPair{Name: name, Signer: c.Signer(), SPKI: c.Leaf.RawSubjectPublicKeyInfo}
	for _, x := range c.Chain() {
		k.Certs = append(k.Certs, x.Raw)
	}
	return k
}

// ---------------------------------------------------------------- observing one file

type sigRec struct {
	Info string `json:"info"`
	Hash int    `json:"hash"`
	Leaf string `json:"leaf"` // sha256 of the leaf certificate
}

type attrRec struct {
	ID    uint32 `json:"id"`
	Value string `json:"value"`
}

type signerRec struct {
	SignedData string    `json:"signed_data"`
	Digests    []attrRec `json:"digests"`
	Certs      []string  `json:"certs"`
	Attrs      []attrRec `json:"attrs"`
	Sigs       []attrRec `json:"sigs"`
	PubKey     string    `json:"pubkey"`
	SdErr      string    `json:"sd_err,omitempty"`
}

type parseRec struct {
	St      int         `json:"st"` // 0 ok, 1 error, 9 panic
	Err     string      `json:"err,omitempty"`
	Signers []signerRec `json:"signers,omitempty"`
}

type fileRec struct {
	T       string  `json:"t"`
	ID      int     `json:"id"`
	Kind    string  `json:"kind"`
	File    string  `json:"file"`
	ZSt     int     `json:"z_st"` // zipslicer.Read + GetTotalSize of every member: 0 ok, 1 error, 9 panic
	ZErr    string  `json:"z_err,omitempty"`
	Offs    []int64 `json:"offs"`
	Szs     []int64 `json:"szs"`
	DirLoc  int64   `json:"dirloc"`
	NextOff int64   `json:"nextoff"`
	DgSt    int     `json:"dg_st"` // digestApkStream through the zip transformer
	DgErr   string  `json:"dg_err,omitempty"`
	Dg256   string  `json:"dg256,omitempty"`
	Dg512   string  `json:"dg512,omitempty"`
	SigLoc  int64   `json:"sigloc"`
	SbSt    int     `json:"sb_st"` // getSigBlock: 0 block, 1 nothing there, 2 error, 9 panic
	SbErr   string  `json:"sb_err,omitempty"`
	Pairs   string  `json:"pairs,omitempty"`
	V2      []parseRec `json:"v2,omitempty"` // unmarshal of every v2 pair value (pairs split by the harness)
	VfSt    int     `json:"vf_st"` // verify: 0 accepted, 1 not signed, 2 malformed / truncated / parse, 3 other rejection, 4 digest mismatch, 9 panic
	VfErr   string  `json:"vf_err,omitempty"`
	Sigs    []sigRec `json:"sigs,omitempty"`
	Signed  int     `json:"signed"` // IsSigned: 1 true, 0 false, 2 error
	Truth   *zipLayout `json:"truth,omitempty"`
}

func classifyVerify(err error, pan bool) (int, string) {
	if pan {
		return 9, cut(err.Error())
	}
	if err == nil {
		return 0, ""
	}
	msg := err.Error()
	var ns sigerrors.NotSignedError
	switch {
	case errors.As(err, &ns):
		return 1, cut(msg)
	case strings.Contains(msg, "digest mismatch"):
		return 4, cut(msg)
	case strings.Contains(msg, "malformed APK signing block"), strings.Contains(msg, "truncated APK signing block"), strings.Contains(msg, "parsing signature block"),
		strings.Contains(msg, "empty APK signing block"), strings.Contains(msg, "no files in APK"), strings.Contains(msg, "zip central directory"),
		strings.Contains(msg, "expected end record"), strings.Contains(msg, "trailing data"), strings.Contains(msg, "unexpected EOF"):
		return 2, cut(msg)
	}
	return 3, cut(msg)
}

func errSt(err error, pan bool) int {
	switch {
	case pan:
		return 9
	case err != nil:
		return 1
	}
	return 0
}

// harness-side split of the pair region (Android documentation), used only to hand the v2 values to the real parser
func splitPairs(p []byte) []idValue {
	var out []idValue
	for len(p) >= 12 {
		n := binary.LittleEndian.Uint64(p)
		if n < 4 || n > uint64(len(p)-8) {
			break
		}
		out = append(out, idValue{binary.LittleEndian.Uint32(p[8:]), p[12 : 8+n]})
		p = p[8+n:]
	}
	return out
}

func attrsOut(l []apk.VerifAttr) []attrRec {
	out := []attrRec{}
	for _, a := range l {
		out = append(out, attrRec{a.ID, hx(a.Value)})
	}
	return out
}

func parseSigners(blob []byte) parseRec {
	var pr parseRec
	var ss []apk.VerifSigner
	var sde []string
	err, pan := guard(func() (e error) { ss, sde, e = apk.VerifUnmarshalSignersFull(blob); return })
	pr.St = errSt(err, pan)
	if err != nil {
		pr.Err = cut(err.Error())
		return pr
	}
	for i, s := range ss {
		sr := signerRec{SignedData: hx(s.SignedData), Digests: attrsOut(s.Digests), Attrs: attrsOut(s.Attributes), Sigs: attrsOut(s.Signatures), PubKey: hx(s.PublicKey), SdErr: sde[i], Certs: []string{}}
		for _, c := range s.Certificates {
			sr.Certs = append(sr.Certs, hx(c))
		}
		pr.Signers = append(pr.Signers, sr)
	}
	return pr
}

func (d *drv) digestStream(path string, h crypto.Hash) (dg []byte, sigLoc int64, err error, pan bool) {
	fh, e := os.Open(path)
	if e != nil {
		panic(e)
	}
	defer fh.Close()
	mod := signers.ByName("apk")
	tr, e := mod.GetTransform(fh, signers.SignOpts{Path: path, Hash: h})
	if e != nil {
		return nil, 0, e, false
	}
	stream, e := tr.GetReader()
	if e != nil {
		return nil, 0, e, false
	}
	if cl, ok := stream.(io.Closer); ok {
		defer cl.Close()
	}
	err, pan = guard(func() (e error) { dg, sigLoc, e = apk.VerifDigestApkStream(stream, h); return })
	return
}

func (d *drv) observe(kind string, f []byte, truth *zipLayout) *fileRec {
	fr := &fileRec{T: "file", ID: d.nextF, Kind: kind, File: hx(f), Truth: truth, Offs: []int64{}, Szs: []int64{}}
	d.nextF++
	wd := d.workdir()
	defer os.RemoveAll(wd)
	path := filepath.Join(wd, "in.apk")
	if err := os.WriteFile(path, f, 0o644); err != nil {
		panic(err)
	}
	// the ZIP layer's view (unit C17's subject): member offsets and total sizes in directory order
	err, pan := guard(func() error {
		inz, e := zipslicer.Read(bytes.NewReader(f), int64(len(f)))
		if e != nil {
			return e
		}
		fr.DirLoc = inz.DirLoc
		for _, zf := range inz.File {
			sz, e := zf.GetTotalSize()
			if e != nil {
				return e
			}
			fr.Offs = append(fr.Offs, int64(zf.Offset))
			fr.Szs = append(fr.Szs, sz)
		}
		fr.NextOff, e = inz.NextFileOffset()
		return e
	})
	fr.ZSt = errSt(err, pan)
	if err != nil {
		fr.ZErr = cut(err.Error())
	}
	// sign-side digest
	dg, sl, err, pan := d.digestStream(path, crypto.SHA256)
	fr.DgSt = errSt(err, pan)
	if err != nil {
		fr.DgErr = cut(err.Error())
	} else {
		fr.Dg256, fr.SigLoc = hx(dg), sl
		if dg5, _, e5, _ := d.digestStream(path, crypto.SHA512); e5 == nil {
			fr.Dg512 = hx(dg5)
		}
	}
	fh, e := os.Open(path)
	if e != nil {
		panic(e)
	}
	defer fh.Close()
	// block locator
	var pairs []byte
	var signed bool
	err, pan = guard(func() (e error) { pairs, signed, e = apk.VerifGetSigBlock(fh); return })
	switch {
	case pan:
		fr.SbSt, fr.SbErr = 9, cut(err.Error())
	case err != nil:
		fr.SbSt, fr.SbErr = 2, cut(err.Error())
	case !signed:
		fr.SbSt = 1
	default:
		fr.SbSt, fr.Pairs = 0, hx(pairs)
		for _, p := range splitPairs(pairs) {
			if p.ID == 0x7109871a {
				fr.V2 = append(fr.V2, parseSigners(p.Value))
			}
		}
	}
	// verifier
	mod := signers.ByName("apk")
	var sigs []*signers.Signature
	err, pan = guard(func() (e error) {
		_, _ = fh.Seek(0, 0)
		sigs, e = mod.Verify(fh, signers.VerifyOpts{FileName: path, TrustedPool: d.pool})
		return
	})
	fr.VfSt, fr.VfErr = classifyVerify(err, pan)
	if err == nil {
		for _, s := range sigs {
			sr := sigRec{Info: s.SigInfo, Hash: int(s.Hash)}
			if s.X509Signature != nil && s.X509Signature.Certificate != nil {
				h := sha256.Sum256(s.X509Signature.Certificate.Raw)
				sr.Leaf = hx(h[:])
			}
			fr.Sigs = append(fr.Sigs, sr)
		}
	}
	var is bool
	err, _ = guard(func() (e error) { _, _ = fh.Seek(0, 0); is, e = mod.IsSigned(fh); return })
	switch {
	case err != nil:
		fr.Signed = 2
	case is:
		fr.Signed = 1
	}
	d.c.Emit(fr)
	return fr
}

// ---------------------------------------------------------------- one signing step through the pipeline

type embRec struct {
	T        string     `json:"t"`
	In       int        `json:"in"`
	Out      int        `json:"out"`
	Signer   string     `json:"signer"` // apk | jar
	Key      string     `json:"key"`
	Hash     string     `json:"hash"`
	St       int        `json:"st"`
	Err      string     `json:"err,omitempty"`
	Patches  [][3]int64 `json:"patches,omitempty"`
	SamePath bool       `json:"same_path"`
	InSame   bool       `json:"in_same"`
	TmpLeft  bool       `json:"tmp_left"`
	Round    int        `json:"round"`
	Leaf     string     `json:"leaf"`
	Flags    string     `json:"flags,omitempty"`
}

func (d *drv) certFor(key string) *certloader.Certificate {
	if key == "ec" {
		return d.ec
	}
	return d.rsa
}

func (d *drv) sign(in *fileRec, f []byte, signer, key, hname string, samePath bool, round int, q url.Values) (*embRec, []byte) {
	er := &embRec{T: "emb", In: in.ID, Out: -1, Signer: signer, Key: key, Hash: hname, SamePath: samePath, Round: round, Flags: q.Encode()}
	h := crypto.SHA256
	if hname == "sha512" {
		h = crypto.SHA512
	}
	cert := d.certFor(key)
	lh := sha256.Sum256(cert.Leaf.Raw)
	er.Leaf = hx(lh[:])
	wd := d.workdir()
	defer os.RemoveAll(wd)
	src := filepath.Join(wd, "in.bin")
	dest := filepath.Join(wd, "out.bin")
	if samePath {
		dest = src
	}
	if err := os.WriteFile(src, f, 0o644); err != nil {
		panic(err)
	}
	finish := func(err error, pan bool) (*embRec, []byte) {
		er.St = errSt(err, pan)
		if err != nil {
			er.Err = cut(err.Error())
		}
		now, _ := os.ReadFile(src)
		var out []byte
		if err == nil {
			out, _ = os.ReadFile(dest)
			er.InSame = samePath || bytes.Equal(now, f)
		} else {
			er.InSame = bytes.Equal(now, f)
			if !samePath {
				if _, e := os.Stat(dest); e == nil {
					er.TmpLeft = true
				}
			}
		}
		ents, _ := os.ReadDir(wd)
		for _, e := range ents {
			if n := e.Name(); n != "in.bin" && n != "out.bin" {
				er.TmpLeft = true
			}
		}
		return er, out
	}
	mod := signers.ByName(signer)
	flags, err := mod.FlagsFromQuery(q)
	if err != nil {
		panic(err)
	}
	opts := signers.SignOpts{Path: src, Hash: h, Time: time.Now(), Flags: flags, Audit: audit.New("verif", mod.Name, h)}
	var fh *os.File
	if samePath {
		fh, err = os.OpenFile(src, os.O_RDWR, 0)
	} else {
		fh, err = os.Open(src)
	}
	if err != nil {
		panic(err)
	}
	defer fh.Close()
	tr, err := mod.GetTransform(fh, opts)
	if err != nil {
		return finish(err, false)
	}
	stream, err := tr.GetReader()
	if err != nil {
		return finish(err, false)
	}
	if cl, ok := stream.(io.Closer); ok {
		defer cl.Close()
	}
	var res []byte
	err, pan := guard(func() (e error) { res, e = mod.Sign(stream, cert, opts); return })
	if err != nil {
		return finish(err, pan)
	}
	if p, e := binpatch.Load(res); e == nil {
		for _, ph := range p.Patches {
			er.Patches = append(er.Patches, [3]int64{ph.Offset, int64(ph.OldSize), int64(ph.NewSize)})
		}
	}
	err, pan = guard(func() error { return tr.Apply(dest, opts.Audit.GetMimeType(), bytes.NewReader(res)) })
	return finish(err, pan)
}

func (d *drv) step(in *fileRec, f []byte, signer, key, hname string, samePath bool, round int, kind string, q url.Values) (*fileRec, []byte) {
	er, out := d.sign(in, f, signer, key, hname, samePath, round, q)
	var fr *fileRec
	if out != nil {
		fr = d.observe(kind, out, nil)
		er.Out = fr.ID
	}
	d.c.Emit(er)
	return fr, out
}

// ---------------------------------------------------------------- generators

func (d *drv) randMember(i int) member {
	r := d.r
	m := member{Name: fmt.Sprintf("res/f%d_%s.bin", i, strings.Repeat("n", r.Pick(0, 1, 5, 40)))}
	m.Data = r.Bytes(r.Pick(0, 1, 2, 13, 64, 200, 700))
	if r.Chance(40) {
		m.Data = bytes.Repeat([]byte{byte('a' + i)}, r.Pick(1, 30, 300))
		m.Deflate = true
	}
	switch r.Intn(6) {
	case 0:
		m.Desc = 16
	}
	if r.Chance(30) {
		m.LExtra = make([]byte, r.Pick(1, 2, 3, 4, 7)) // zipalign-style padding
	}
	if r.Chance(15) {
		m.Extra = []byte{0xfe, 0xca, 0x00, 0x00}
	}
	if r.Chance(10) {
		m.Comment = "c"
	}
	return m
}

func (d *drv) randZip() *zipSpec {
	r := d.r
	s := &zipSpec{}
	n := r.Pick(1, 1, 2, 3, 4, 6)
	s.Members = append(s.Members, member{Name: "AndroidManifest.xml", Data: r.Bytes(r.Pick(8, 40, 300))})
	s.Members = append(s.Members, member{Name: "META-INF/MANIFEST.MF", Data: jarManifest, Deflate: r.Chance(50)})
	for i := 1; i < n; i++ {
		s.Members = append(s.Members, d.randMember(i))
	}
	return s
}

type input struct {
	kind  string
	data  []byte
	truth *zipLayout
	wf    bool // contiguous members from offset 0 in directory order, canonical end record: the class the laws are stated for
}

func fixture(name string) []byte {
	b, err := os.ReadFile(filepath.Join(repoRoot(), "functest/packages", name))
	if err != nil {
		panic(err)
	}
	return b
}

var jarManifest = []byte("Manifest-Version: 1.0\r\nCreated-By: harness\r\n\r\n")

func base3() *zipSpec {
	return &zipSpec{Members: []member{
		{Name: "AndroidManifest.xml", Data: []byte("<manifest package=\"a.b\"/>")},
		{Name: "META-INF/MANIFEST.MF", Data: jarManifest},
		{Name: "classes.dex", Data: bytes.Repeat([]byte("dex\n035\x00"), 12), Deflate: true},
		{Name: "res/raw/x.bin", Data: []byte{1, 2, 3, 4, 5, 6, 7}, LExtra: []byte{0, 0, 0}},
	}}
}

func (d *drv) inputs(n int) []input {
	var ins []input
	add := func(kind string, s *zipSpec, wf bool) {
		b, lay := writeZip(s)
		ins = append(ins, input{kind, b, lay, wf})
	}
	ins = append(ins, input{"fixture", fixture("dummy.apk"), nil, true})
	add("plain", base3(), true)
	add("no-manifest", &zipSpec{Members: []member{{Name: "AndroidManifest.xml", Data: []byte("<manifest package=\"a.b\"/>")}, {Name: "classes.dex", Data: []byte("dex\n035\x00")}}}, true)
	add("one-member", &zipSpec{Members: []member{{Name: "META-INF/MANIFEST.MF", Data: jarManifest}}}, true)
	add("empty-data", &zipSpec{Members: []member{{Name: "AndroidManifest.xml"}, {Name: "META-INF/MANIFEST.MF", Data: jarManifest}, {Name: "e", Data: nil}}}, true)
	{
		s := base3()
		s.Members[2].Desc = 16
		add("desc-middle", s, true)
		s = base3()
		s.Members[3].Desc = 16
		add("desc-last", s, true)
	}
	{
		s := base3()
		s.Members = append(s.Members, member{Name: strings.Repeat("long/", 60) + "n", Data: []byte("z"), Extra: bytes.Repeat([]byte{0xfe, 0xca, 2, 0, 9, 9}, 5), Comment: "cmt"})
		add("long-names", s, true)
	}
	// layouts outside the class: bytes that belong to no member, directory order, versions, end record variants
	{
		s := base3()
		s.Members[0].Gap = []byte("#!/bin/sh\n")
		add("gap-leading", s, false)
		s = base3()
		s.Members[2].Gap = []byte("GAPGAP")
		add("gap-between", s, false)
		s = base3()
		s.TailGap = []byte("junk-before-directory")
		add("gap-tail-junk", s, false)
		s = base3()
		s.DirOrder = []int{1, 0, 2, 3}
		add("dir-order", s, false)
		s = base3()
		s.DirOrder = []int{0, 1, 3, 2}
		add("dir-order-last", s, false)
		s = base3()
		s.Members[1].ReaderVer = 45
		add("reader-45", s, false)
		s = base3()
		s.Members[1].ReaderVer = 63
		add("reader-63", s, true)
		s = base3()
		s.DiskNumber, s.DiskCD = 5, 5
		add("end-disk", s, false)
		s = base3()
		s.CountDelta = 1
		add("end-count", s, false)
		s = base3()
		s.SizeDelta = 4
		add("end-size", s, false)
		s = base3()
		s.Comment = []byte("archive comment")
		add("end-comment", s, false)
		s = base3()
		s.After = []byte{0, 0, 0, 0}
		add("end-after", s, false)
		s = base3()
		s.BeforeEnd = []byte("PK\x05\x06between-directory-and-end")
		add("end-before", s, false)
		add("no-members", &zipSpec{}, false)
	}
	for i := 0; i < n; i++ {
		add("rand", d.randZip(), true)
	}
	return ins
}

// third-party signed inputs (harness signer, Android documentation), built on a clean layout
func (d *drv) thirdParty() []input {
	var ins []input
	rk, ek := kpOf("rsa", d.rsa), kpOf("ec", d.ec)
	b, lay := writeZip(base3())
	add := func(kind string, k *keyPair, o signOpts) {
		ins = append(ins, input{kind, specSign(b, lay, k, o), nil, true})
	}
	pad := idValue{0x42726577, make([]byte, 37)}
	v3 := idValue{0xf05368c0, d.r.Bytes(90)}
	strip := idValue{0xbeeff00d, u32(3)}
	add("3p-rsa", rk, signOpts{})
	add("3p-rsa-sha512", rk, signOpts{Hash: crypto.SHA512})
	add("3p-ec", ek, signOpts{})
	add("3p-padding-after", rk, signOpts{After: []idValue{pad}})
	add("3p-padding-before", rk, signOpts{Before: []idValue{pad}})
	add("3p-v3-pair", rk, signOpts{After: []idValue{v3, pad}})
	add("3p-strip-attr", rk, signOpts{Attrs: []idValue{strip}, After: []idValue{v3}})
	add("3p-attr-4byte-lp", rk, signOpts{Attrs: []idValue{{0x1234, lp32([]byte{1, 2, 3, 4})}}}) // an attribute whose value happens to be length-prefixed
	add("3p-two-signers", rk, signOpts{TwoSigners: ek})
	add("3p-bad-digest", rk, signOpts{BadDigest: true})
	add("3p-bad-digest-tail", rk, signOpts{BadTail: true})
	add("3p-bad-digest-tail512", ek, signOpts{BadTail: true, Hash: crypto.SHA512})
	// a block that carries no v2 pair at all
	{
		block := specSigningBlock([]idValue{pad, v3})
		out := append(append([]byte{}, b[:lay.DirLoc]...), block...)
		out = append(out, b[lay.DirLoc:lay.DirLoc+lay.DirLen]...)
		end := append([]byte{}, b[lay.DirLoc+lay.DirLen:]...)
		binary.LittleEndian.PutUint32(end[16:], uint32(lay.DirLoc+int64(len(block))))
		ins = append(ins, input{"3p-no-v2-pair", append(out, end...), nil, true})
	}
	return ins
}

// malformed signing blocks: one rule bent at a time on a third-party signed file
func (d *drv) malformed() []input {
	var ins []input
	rk := kpOf("rsa", d.rsa)
	b, lay := writeZip(base3())
	good := specSign(b, lay, rk, signOpts{})
	bs := int(lay.DirLoc)                                            // block start
	dl := int(binary.LittleEndian.Uint32(good[len(good)-6:]))         // new directory offset
	mut := func(kind string, f func(g []byte) []byte) { ins = append(ins, input{"bad-" + kind, f(append([]byte{}, good...)), nil, false}) }
	put64 := func(g []byte, off int, v uint64) { binary.LittleEndian.PutUint64(g[off:], v) }
	mut("size1", func(g []byte) []byte { put64(g, bs, binary.LittleEndian.Uint64(g[bs:])+1); return g })
	mut("size2", func(g []byte) []byte { put64(g, dl-24, binary.LittleEndian.Uint64(g[dl-24:])-1); return g })
	mut("both-sizes", func(g []byte) []byte {
		v := binary.LittleEndian.Uint64(g[bs:]) + 8
		put64(g, bs, v)
		put64(g, dl-24, v)
		return g
	})
	mut("magic", func(g []byte) []byte { g[dl-1] ^= 1; return g })
	mut("pair-overrun", func(g []byte) []byte { put64(g, bs+8, binary.LittleEndian.Uint64(g[bs+8:])+1); return g })
	mut("pair-short", func(g []byte) []byte { put64(g, bs+8, 3); return g })
	mut("pair-huge", func(g []byte) []byte { put64(g, bs+8, 1<<63); return g })
	mut("pair-id", func(g []byte) []byte { g[bs+16] ^= 1; return g })
	mut("value-prefix", func(g []byte) []byte { g[bs+20]++; return g })
	mut("signer-prefix", func(g []byte) []byte { g[bs+24]++; return g })
	mut("eocd-offset", func(g []byte) []byte { g[len(g)-6]++; return g })
	// structurally re-built variants
	rebuild := func(kind string, pairs []idValue) {
		block := specSigningBlock(pairs)
		out := append(append([]byte{}, b[:lay.DirLoc]...), block...)
		out = append(out, b[lay.DirLoc:lay.DirLoc+lay.DirLen]...)
		end := append([]byte{}, b[lay.DirLoc+lay.DirLen:]...)
		binary.LittleEndian.PutUint32(end[16:], uint32(lay.DirLoc+int64(len(block))))
		ins = append(ins, input{"bad-" + kind, append(out, end...), nil, false})
	}
	rebuild("zero-pairs", nil)
	rebuild("empty-signer-list", []idValue{{0x7109871a, lp32(nil)}})
	rebuild("v2-empty-value", []idValue{{0x7109871a, nil}})
	rebuild("v2-trailing", []idValue{{0x7109871a, append(lpSeq([][]byte{{0, 0, 0, 0, 0, 0, 0, 0, 0, 0, 0, 0}}), 0)}})
	rebuild("v2-garbage", []idValue{{0x7109871a, d.r.Bytes(40)}})
	for _, cutAt := range []int{1, 8, 24, 31, 32, 40} {
		// a gap of cutAt bytes that ends with (part of) a block
		k := cutAt
		blk := specSigningBlock(nil)
		if k > len(blk) {
			k = len(blk)
		}
		tail := blk[len(blk)-k:]
		out := append(append([]byte{}, b[:lay.DirLoc]...), tail...)
		out = append(out, b[lay.DirLoc:lay.DirLoc+lay.DirLen]...)
		end := append([]byte{}, b[lay.DirLoc+lay.DirLen:]...)
		binary.LittleEndian.PutUint32(end[16:], uint32(lay.DirLoc+int64(len(tail))))
		ins = append(ins, input{fmt.Sprintf("bad-short-gap-%d", cutAt), append(out, end...), nil, false})
	}
	return ins
}

// ---------------------------------------------------------------- serializer cases

type tree struct {
	U *uint32 `json:"u,omitempty"`
	B *string `json:"b,omitempty"`
}

type serRec struct {
	T     string      `json:"t"`
	What  string      `json:"what"` // "sd" | "signers"
	Val   interface{} `json:"val"`
	St    int         `json:"st"`
	Err   string      `json:"err,omitempty"`
	Bytes string      `json:"bytes"`
	Back  *parseRec   `json:"back,omitempty"` // the real parser on the real encoding
	SdN   []int       `json:"sd_n,omitempty"`
}

type parRec struct {
	T     string    `json:"t"`
	What  string    `json:"what"`
	Class string    `json:"class"`
	Bytes string    `json:"bytes"`
	Res   *parseRec `json:"res,omitempty"`
	SdSt  int       `json:"sd_st"`
	SdErr string    `json:"sd_err,omitempty"`
	SdN   []int     `json:"sd_n,omitempty"`
}

func (d *drv) randAttrs(n int) []apk.VerifAttr {
	var out []apk.VerifAttr
	for i := 0; i < n; i++ {
		out = append(out, apk.VerifAttr{ID: uint32(d.r.Pick(0x0103, 0x0104, 0x0201, 0, 0xffffffff, 0xbeeff00d)), Value: d.r.Bytes(d.r.Pick(0, 1, 4, 32, 64, 257))})
	}
	return out
}

func attrsJSON(l []apk.VerifAttr) [][2]interface{} {
	out := [][2]interface{}{}
	for _, a := range l {
		out = append(out, [2]interface{}{a.ID, hx(a.Value)})
	}
	return out
}

func (d *drv) serializer() {
	r := d.r
	// signed data values through the real marshal, and back through the real unmarshal
	for i := 0; i < 40; i++ {
		dg := d.randAttrs(r.Pick(0, 1, 1, 2, 3))
		at := d.randAttrs(r.Pick(0, 0, 1, 2))
		var certs [][]byte
		for k := r.Pick(0, 1, 2, 3); k > 0; k-- {
			certs = append(certs, r.Bytes(r.Pick(0, 1, 30, 300)))
		}
		var b []byte
		err, pan := guard(func() (e error) { b, e = apk.VerifMarshalSignedData(dg, certs, at); return })
		cs := []string{}
		for _, c := range certs {
			cs = append(cs, hx(c))
		}
		sr := serRec{T: "ser", What: "sd", Val: map[string]interface{}{"digests": attrsJSON(dg), "certs": cs, "attrs": attrsJSON(at)}, St: errSt(err, pan), Bytes: hx(b)}
		if err != nil {
			sr.Err = cut(err.Error())
		} else if n, e := apk.VerifUnmarshalSignedData(b); e == nil {
			sr.SdN = n[:]
		}
		d.c.Emit(sr)
	}
	var sample []byte
	for i := 0; i < 30; i++ {
		var ss []apk.VerifSigner
		js := []interface{}{}
		for k := r.Pick(0, 1, 1, 2, 3); k > 0; k-- {
			sd, _ := apk.VerifMarshalSignedData(d.randAttrs(r.Pick(1, 2)), [][]byte{r.Bytes(r.Pick(1, 50))}, d.randAttrs(r.Pick(0, 1)))
			if r.Chance(20) {
				sd = lp32(r.Bytes(r.Pick(0, 3, 17))) // raw item that is not a signed data structure
			}
			s := apk.VerifSigner{SignedData: sd, Signatures: d.randAttrs(r.Pick(0, 1, 2)), PublicKey: r.Bytes(r.Pick(0, 1, 91, 294))}
			ss = append(ss, s)
			js = append(js, map[string]interface{}{"signed_data": hx(sd), "sigs": attrsJSON(s.Signatures), "pubkey": hx(s.PublicKey)})
		}
		var b []byte
		err, pan := guard(func() (e error) { b, e = apk.VerifMarshalSigners(ss); return })
		sr := serRec{T: "ser", What: "signers", Val: js, St: errSt(err, pan), Bytes: hx(b)}
		if err != nil {
			sr.Err = cut(err.Error())
		} else {
			pr := parseSigners(b)
			sr.Back = &pr
			if len(b) > len(sample) && len(b) < 900 {
				sample = b
			}
		}
		d.c.Emit(sr)
	}
	// the real parser on malformed and on documentation-conformant inputs
	emitPar := func(class string, b []byte) {
		pr := parseSigners(b)
		rec := parRec{T: "par", What: "signers", Class: class, Bytes: hx(b), Res: &pr}
		d.c.Emit(rec)
	}
	emitSd := func(class string, b []byte) {
		rec := parRec{T: "par", What: "sd", Class: class, Bytes: hx(b)}
		var n [3]int
		err, pan := guard(func() (e error) { n, e = apk.VerifUnmarshalSignedData(b); return })
		rec.SdSt = errSt(err, pan)
		if err != nil {
			rec.SdErr = cut(err.Error())
		} else {
			rec.SdN = n[:]
		}
		d.c.Emit(rec)
	}
	if sample != nil {
		for cutAt := 0; cutAt < len(sample); cutAt += 1 + len(sample)/60 {
			emitPar("truncated", sample[:cutAt])
		}
		for i := 0; i < 60; i++ {
			m := append([]byte{}, sample...)
			p := r.Intn(len(m))
			m[p] = byte(r.Pick(0, 1, 0x7f, 0x80, 0xff, int(m[p])+1))
			emitPar("mutated", m)
		}
		emitPar("trailing", append(append([]byte{}, sample...), 0))
	}
	for _, b := range [][]byte{nil, {0}, {0, 0, 0}, {0, 0, 0, 0}, {1, 0, 0, 0}, {0xff, 0xff, 0xff, 0xff}, {4, 0, 0, 0, 0, 0, 0, 0}, {8, 0, 0, 0, 4, 0, 0, 0, 0, 0, 0, 0}} {
		emitPar("tiny", b)
		emitSd("tiny", b)
	}
	// signed data as the documentation describes it: additional attribute = ID + raw value
	rk := kpOf("rsa", d.rsa)
	for _, at := range [][]idValue{nil, {{0xbeeff00d, u32(3)}}, {{0x1234, nil}}, {{0x1234, lp32([]byte{9, 9})}}, {{0x1, []byte{1}}, {0x2, lp32(nil)}}} {
		s := &specSigner{Digests: []idValue{{0x0103, r.Bytes(32)}}, Certs: rk.Certs[:1], Attrs: at}
		emitSd(fmt.Sprintf("spec-attrs-%d", len(at)), lp32(specSignedData(s)))
	}
}

// ---------------------------------------------------------------- v1 / v2 binding

type sfRec struct {
	T        string `json:"t"`
	ApkV2    bool   `json:"apkv2"`
	Sections bool   `json:"sections_only"`
	Hash     string `json:"hash"`
	Manifest string `json:"manifest"`
	St       int    `json:"st"`
	SF       string `json:"sf"`
}

type stripRec struct {
	T     string `json:"t"`
	Desc  string `json:"desc"`
	Flag  bool   `json:"flag"`  // the jar signer was given --apk-v2-present
	Full  int    `json:"full"`  // id of the v1+v2 signed file
	Strip int    `json:"strip"` // id of the same file with the signing block removed and the end record pointed back
}

// removes a signing block the way an attacker would: bytes [start, dirloc) dropped, directory offset moved back
func stripBlock(g []byte, start, dirloc int64) []byte {
	out := append([]byte{}, g[:start]...)
	out = append(out, g[dirloc:]...)
	binary.LittleEndian.PutUint32(out[len(out)-6:], uint32(start))
	return out
}

func (d *drv) binding() {
	manifest := []byte("Manifest-Version: 1.0\r\nCreated-By: harness\r\n\r\nName: AndroidManifest.xml\r\nSHA-256-Digest: AAAA\r\n\r\n")
	for _, v2 := range []bool{false, true} {
		for _, so := range []bool{false, true} {
			for _, hn := range []string{"sha256", "sha512"} {
				h := crypto.SHA256
				if hn == "sha512" {
					h = crypto.SHA512
				}
				var sf []byte
				err, pan := guard(func() (e error) { sf, e = signjar.DigestManifest(manifest, h, so, v2); return })
				d.c.Emit(sfRec{T: "sf", ApkV2: v2, Sections: so, Hash: hn, Manifest: hx(manifest), St: errSt(err, pan), SF: hx(sf)})
			}
		}
	}
	// dummy.apk: v1 with / without the marker, then v2, then the block stripped
	for _, flag := range []bool{true, false} {
		f := fixture("dummy.apk")
		in := d.observe("bind-input", f, nil)
		q := url.Values{}
		if flag {
			q.Set("apk-v2-present", "true")
		}
		j, jb := d.step(in, f, "jar", "rsa", "sha256", false, 1, "bind-v1", q)
		if jb == nil {
			continue
		}
		g, gb := d.step(j, jb, "apk", "rsa", "sha256", false, 2, "bind-v1v2", url.Values{})
		if gb == nil {
			continue
		}
		dl := int64(binary.LittleEndian.Uint32(gb[len(gb)-6:]))
		s := d.observe("bind-stripped", stripBlock(gb, g.NextOff, dl), nil)
		d.c.Emit(stripRec{T: "strip", Desc: "jar then apk, block removed", Flag: flag, Full: g.ID, Strip: s.ID})
	}
}

// ---------------------------------------------------------------- mutation sweep of signed files through the real verifier

type mutRec struct {
	T    string `json:"t"`
	Of   int    `json:"of"`
	Xor  int    `json:"xor"`
	Step int    `json:"step"`
	Sts  string `json:"sts"` // one digit per mutated offset (0, step, 2*step, ...): verify status
}

func (d *drv) sweep(base *fileRec, g []byte, step int) {
	mod := signers.ByName("apk")
	wd := d.workdir()
	defer os.RemoveAll(wd)
	path := filepath.Join(wd, "m.apk")
	for _, x := range []int{0x01, 0x80} {
		var sb strings.Builder
		for off := 0; off < len(g); off += step {
			m := append([]byte{}, g...)
			m[off] ^= byte(x)
			if err := os.WriteFile(path, m, 0o644); err != nil {
				panic(err)
			}
			fh, _ := os.Open(path)
			err, pan := guard(func() (e error) { _, e = mod.Verify(fh, signers.VerifyOpts{FileName: path, TrustedPool: d.pool}); return })
			fh.Close()
			st, _ := classifyVerify(err, pan)
			sb.WriteByte(byte('0' + st))
		}
		d.c.Emit(mutRec{T: "mut", Of: base.ID, Xor: x, Step: step, Sts: sb.String()})
	}
}

// bytes in front of the directory that belong to no member (truth of the harness writer): each flipped in a signed file
type gapRec struct {
	T    string  `json:"t"`
	Of   int     `json:"of"`
	Offs []int64 `json:"offs"`
	Sts  string  `json:"sts"`
}

func (d *drv) gapSweep(base *fileRec, g []byte, lay *zipLayout) {
	covered := make([]bool, lay.ContentEnd)
	for i := range lay.Offs {
		for k := lay.Offs[i]; k < lay.Offs[i]+lay.Sizes[i] && k < lay.ContentEnd; k++ {
			covered[k] = true
		}
	}
	mod := signers.ByName("apk")
	wd := d.workdir()
	defer os.RemoveAll(wd)
	path := filepath.Join(wd, "m.apk")
	rec := gapRec{T: "gapmut", Of: base.ID, Offs: []int64{}}
	var sb strings.Builder
	for off := int64(0); off < lay.ContentEnd && len(rec.Offs) < 24; off++ {
		if covered[off] {
			continue
		}
		m := append([]byte{}, g...)
		m[off] ^= 0x20
		if err := os.WriteFile(path, m, 0o644); err != nil {
			panic(err)
		}
		fh, _ := os.Open(path)
		err, pan := guard(func() (e error) { _, e = mod.Verify(fh, signers.VerifyOpts{FileName: path, TrustedPool: d.pool}); return })
		fh.Close()
		st, _ := classifyVerify(err, pan)
		rec.Offs = append(rec.Offs, off)
		sb.WriteByte(byte('0' + st))
	}
	rec.Sts = sb.String()
	if len(rec.Offs) > 0 {
		d.c.Emit(rec)
	}
}

type mbRec struct {
	T     string `json:"t"`
	Sblob string `json:"sblob"`
	Block string `json:"block"`
	St    int    `json:"st"`
}

func init() {
	core.Register("fmtapk", func(c *core.Ctx) error {
		d := &drv{c: c, r: &core.Rng{S: c.Seed*0x9e37 + 77}}
		var err error
		if d.rsa, err = loadRSA(); err != nil {
			return err
		}
		if d.ec, err = makeEC(); err != nil {
			return err
		}
		d.pool = x509.NewCertPool()
		for _, x := range d.rsa.Certificates {
			d.pool.AddCert(x)
		}
		d.pool.AddCert(d.ec.Leaf)
		d.dir = c.Scratch
		if d.dir == "" {
			d.dir, err = os.MkdirTemp("/var/tmp", "fmtapk.")
			if err != nil {
				return err
			}
			defer os.RemoveAll(d.dir)
		}
		nRand := 24
		if c.Tier == "thorough" {
			nRand = 120
		}
		if c.N > 0 {
			nRand = c.N
		}
		// makeSigBlock
		for _, n := range []int{0, 1, 2, 3, 4, 7, 8, 9, 23, 24, 25, 100, 255, 256, 1000, 4095, 4096, 65535, 65536} {
			sb := d.r.Bytes(n)
			var blk []byte
			err, pan := guard(func() error { blk = apk.VerifMakeSigBlock(sb); return nil })
			c.Emit(mbRec{T: "mb", Sblob: hx(sb), Block: hx(blk), St: errSt(err, pan)})
		}
		c.Emit(map[string]interface{}{"t": "sigtypes", "table": apk.VerifSigTypes()})
		d.serializer()
		// files: observe, sign, re-sign
		var signedSamples []struct {
			fr *fileRec
			b  []byte
		}
		keep := func(fr *fileRec, b []byte) {
			if fr != nil && fr.VfSt == 0 && len(b) < 6000 && len(signedSamples) < 3 {
				signedSamples = append(signedSamples, struct {
					fr *fileRec
					b  []byte
				}{fr, b})
			}
		}
		ins := d.inputs(nRand)
		for i, in := range ins {
			fr := d.observe(in.kind, in.data, in.truth)
			key, hn := "rsa", "sha256"
			switch i % 4 {
			case 1:
				hn = "sha512"
			case 2:
				key = "ec"
			case 3:
				key, hn = "ec", "sha512"
			}
			if in.kind == "fixture" || in.kind == "plain" {
				key, hn = "rsa", "sha256"
			}
			g1, b1 := d.step(fr, in.data, "apk", key, hn, i%3 == 1, 1, in.kind+"+signed", url.Values{})
			if b1 == nil {
				continue
			}
			if in.kind == "fixture" || in.kind == "plain" {
				keep(g1, b1)
			}
			if in.truth != nil && g1 != nil && g1.VfSt == 0 {
				d.gapSweep(g1, b1, in.truth)
			}
			// deterministic RSA signature: signing the same input again must give the same bytes (checked in python)
			if key == "rsa" && i%2 == 0 {
				d.step(fr, in.data, "apk", key, hn, false, 1, in.kind+"+signed-again", url.Values{})
			}
			g2, b2 := d.step(g1, b1, "apk", "rsa", "sha256", i%2 == 0, 2, in.kind+"+resigned", url.Values{})
			if b2 == nil {
				continue
			}
			if i%3 == 0 {
				d.step(g2, b2, "apk", "ec", "sha512", false, 3, in.kind+"+resigned3", url.Values{})
			}
		}
		for _, in := range d.thirdParty() {
			fr := d.observe(in.kind, in.data, nil)
			if in.kind == "3p-rsa" {
				keep(fr, in.data)
			}
			g1, b1 := d.step(fr, in.data, "apk", "rsa", "sha256", false, 1, in.kind+"+resigned", url.Values{})
			if b1 != nil && in.kind == "3p-v3-pair" {
				d.step(g1, b1, "apk", "ec", "sha256", true, 2, in.kind+"+resigned2", url.Values{})
			}
		}
		for _, in := range d.malformed() {
			fr := d.observe(in.kind, in.data, nil)
			d.step(fr, in.data, "apk", "rsa", "sha256", false, 1, in.kind+"+signed", url.Values{})
		}
		d.binding()
		for _, s := range signedSamples {
			step := 1
			if c.Tier != "thorough" && len(s.b) > 2500 {
				step = 3
			}
			d.sweep(s.fr, s.b, step)
		}
		return nil
	})
}
