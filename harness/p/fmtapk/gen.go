package fmtapk

// gen.go — harness-owned writers, written from PKWARE APPNOTE 6.3 (4.3.7 local file header, 4.3.9 data descriptor, 4.3.12 central
// directory header, 4.3.16 end of central directory record) and from source.android.com "APK Signature Scheme v2" (APK Signing
// Block, signer, signed data, integrity-protected contents).  Nothing here calls lib/zipslicer or signers/apk: these writers and
// the digest below are the oracle side.

import (
	"bytes"
	"compress/flate"
	"crypto"
	"crypto/ecdsa"
	"crypto/rand"
	"crypto/rsa"
	"crypto/sha256"
	"crypto/sha512"
	"encoding/binary"
	"hash/crc32"
)

type member struct {
	Name      string
	Data      []byte
	Deflate   bool
	Desc      int    // 0 none, 16 = signature + crc + 32-bit sizes, 12 = same without signature, 24 = signature + crc + 64-bit sizes
	Extra     []byte // central directory extra field
	LExtra    []byte // local header extra field (zipalign pads here)
	Gap       []byte // bytes in front of the local header that belong to no member
	ReaderVer int    // version needed to extract (0 = 20)
	Comment   string
}

type zipSpec struct {
	Members  []member
	DirOrder []int  // order of the central directory entries (nil = physical order)
	TailGap  []byte // bytes between the last member and the central directory (a signing block goes here)
	// end record
	DiskNumber, DiskCD int
	CountDelta         int    // added to both count fields
	SizeDelta          int    // added to the directory size field
	OffDelta           int    // added to the directory offset field
	Comment            []byte // archive comment
	BeforeEnd          []byte // bytes between the directory entries and the end record
	After              []byte // bytes after the end record
}

type zipLayout struct {
	Offs, Sizes []int64 // per member in DIRECTORY order: local header offset, total size (header + data + descriptor)
	ContentEnd  int64   // end of the physically last member
	DirLoc      int64
	DirLen      int64
}

func le16(b *bytes.Buffer, v int)   { _ = binary.Write(b, binary.LittleEndian, uint16(v)) }
func le32(b *bytes.Buffer, v int64) { _ = binary.Write(b, binary.LittleEndian, uint32(v)) }
func le64(b *bytes.Buffer, v int64) { _ = binary.Write(b, binary.LittleEndian, uint64(v)) }

func writeZip(s *zipSpec) ([]byte, *zipLayout) {
	var out bytes.Buffer
	type placed struct {
		off, total int64
		csize      int64
		crc        uint32
		flags      int
		method     int
		rv         int
	}
	pl := make([]placed, len(s.Members))
	for i, m := range s.Members {
		out.Write(m.Gap)
		p := placed{off: int64(out.Len()), rv: m.ReaderVer}
		if p.rv == 0 {
			p.rv = 20
		}
		comp := m.Data
		if m.Deflate {
			var fb bytes.Buffer
			w, _ := flate.NewWriter(&fb, 6)
			_, _ = w.Write(m.Data)
			_ = w.Close()
			comp = fb.Bytes()
			p.method = 8
		}
		p.csize = int64(len(comp))
		p.crc = crc32.ChecksumIEEE(m.Data)
		if m.Desc != 0 {
			p.flags = 8
		}
		le32(&out, 0x04034b50)
		le16(&out, p.rv)
		le16(&out, p.flags)
		le16(&out, p.method)
		le16(&out, 0x6000) // time
		le16(&out, 0x5a21) // date
		if m.Desc != 0 {
			le32(&out, 0)
			le32(&out, 0)
			le32(&out, 0)
		} else {
			le32(&out, int64(p.crc))
			le32(&out, p.csize)
			le32(&out, int64(len(m.Data)))
		}
		le16(&out, len(m.Name))
		le16(&out, len(m.LExtra))
		out.WriteString(m.Name)
		out.Write(m.LExtra)
		out.Write(comp)
		switch m.Desc {
		case 16:
			le32(&out, 0x08074b50)
			le32(&out, int64(p.crc))
			le32(&out, p.csize)
			le32(&out, int64(len(m.Data)))
		case 12:
			le32(&out, int64(p.crc))
			le32(&out, p.csize)
			le32(&out, int64(len(m.Data)))
		case 24:
			le32(&out, 0x08074b50)
			le32(&out, int64(p.crc))
			le64(&out, p.csize)
			le64(&out, int64(len(m.Data)))
		}
		p.total = int64(out.Len()) - p.off
		pl[i] = p
	}
	lay := &zipLayout{ContentEnd: int64(out.Len())}
	out.Write(s.TailGap)
	lay.DirLoc = int64(out.Len())
	order := s.DirOrder
	if order == nil {
		for i := range s.Members {
			order = append(order, i)
		}
	}
	for _, i := range order {
		m, p := s.Members[i], pl[i]
		lay.Offs = append(lay.Offs, p.off)
		lay.Sizes = append(lay.Sizes, p.total)
		le32(&out, 0x02014b50)
		le16(&out, 0x031e) // made by
		le16(&out, p.rv)
		le16(&out, p.flags)
		le16(&out, p.method)
		le16(&out, 0x6000)
		le16(&out, 0x5a21)
		le32(&out, int64(p.crc))
		le32(&out, p.csize)
		le32(&out, int64(len(m.Data)))
		le16(&out, len(m.Name))
		le16(&out, len(m.Extra))
		le16(&out, len(m.Comment))
		le16(&out, 0)
		le16(&out, 0)
		le32(&out, 0x81a40000)
		le32(&out, p.off)
		out.WriteString(m.Name)
		out.Write(m.Extra)
		out.WriteString(m.Comment)
	}
	lay.DirLen = int64(out.Len()) - lay.DirLoc
	out.Write(s.BeforeEnd)
	le32(&out, 0x06054b50)
	le16(&out, s.DiskNumber)
	le16(&out, s.DiskCD)
	le16(&out, len(order)+s.CountDelta)
	le16(&out, len(order)+s.CountDelta)
	le32(&out, lay.DirLen+int64(s.SizeDelta))
	le32(&out, lay.DirLoc+int64(s.OffDelta))
	le16(&out, len(s.Comment))
	out.Write(s.Comment)
	out.Write(s.After)
	return out.Bytes(), lay
}

// ---------------------------------------------------------------- Android: APK Signing Block, v2 structures

type idValue struct {
	ID    uint32
	Value []byte
}

func lp32(b []byte) []byte {
	out := make([]byte, 4, 4+len(b))
	binary.LittleEndian.PutUint32(out, uint32(len(b)))
	return append(out, b...)
}

func u32(v uint32) []byte {
	out := make([]byte, 4)
	binary.LittleEndian.PutUint32(out, v)
	return out
}

func lpSeq(items [][]byte) []byte {
	var body []byte
	for _, it := range items {
		body = append(body, lp32(it)...)
	}
	return lp32(body)
}

// specSigningBlock: uint64 size, pairs (uint64 length, uint32 ID, value), uint64 size, magic
func specSigningBlock(pairs []idValue) []byte {
	var body bytes.Buffer
	for _, p := range pairs {
		le64(&body, int64(4+len(p.Value)))
		body.Write(u32(p.ID))
		body.Write(p.Value)
	}
	var out bytes.Buffer
	size := int64(body.Len() + 8 + 16)
	le64(&out, size)
	out.Write(body.Bytes())
	le64(&out, size)
	out.WriteString("APK Sig Block 42")
	return out.Bytes()
}

type specSigner struct {
	Digests []idValue // signature algorithm ID, digest
	Certs   [][]byte
	Attrs   []idValue // additional attributes: ID, raw value
	Sigs    []idValue
	PubKey  []byte
	// v3 only
	V3             bool
	MinSDK, MaxSDK uint32
}

// signed data: length-prefixed sequence of length-prefixed digests (ID, length-prefixed digest), length-prefixed sequence of
// length-prefixed certificates, length-prefixed sequence of length-prefixed additional attributes (ID, value = rest of the item)
func specSignedData(s *specSigner) []byte {
	var ds, as [][]byte
	for _, d := range s.Digests {
		ds = append(ds, append(u32(d.ID), lp32(d.Value)...))
	}
	for _, a := range s.Attrs {
		as = append(as, append(u32(a.ID), a.Value...))
	}
	out := append(lpSeq(ds), lpSeq(s.Certs)...)
	if s.V3 {
		out = append(out, u32(s.MinSDK)...)
		out = append(out, u32(s.MaxSDK)...)
	}
	return append(out, lpSeq(as)...)
}

func specSignerBytes(s *specSigner, signedData []byte) []byte {
	var sg [][]byte
	for _, g := range s.Sigs {
		sg = append(sg, append(u32(g.ID), lp32(g.Value)...))
	}
	out := lp32(signedData)
	if s.V3 {
		out = append(out, u32(s.MinSDK)...)
		out = append(out, u32(s.MaxSDK)...)
	}
	out = append(out, lpSeq(sg)...)
	return append(out, lp32(s.PubKey)...)
}

func specV2Value(signers [][]byte) []byte { return lpSeq(signers) }

// specDigest: sections 1 (bytes before the signing block), 3 (central directory), 4 (end record with the directory offset set
// to the start of the signing block) in 1 MB chunks: chunk digest = H(0xa5 | u32 length | chunk), top = H(0x5a | u32 count | digests)
func specDigest(h crypto.Hash, sec1, sec3, sec4 []byte) []byte {
	newH := func() interface {
		Write([]byte) (int, error)
		Sum([]byte) []byte
	} {
		if h == crypto.SHA512 {
			return sha512.New()
		}
		return sha256.New()
	}
	var digests []byte
	count := uint32(0)
	for _, sec := range [][]byte{sec1, sec3, sec4} {
		for len(sec) > 0 {
			n := len(sec)
			if n > 1<<20 {
				n = 1 << 20
			}
			d := newH()
			d.Write([]byte{0xa5})
			d.Write(u32(uint32(n)))
			d.Write(sec[:n])
			digests = d.Sum(digests)
			count++
			sec = sec[n:]
		}
	}
	t := newH()
	t.Write([]byte{0x5a})
	t.Write(u32(count))
	t.Write(digests)
	return t.Sum(nil)
}

// specSections of an archive WITHOUT signing block whose directory starts at dirLoc: what a signer that inserts a block at
// blockStart digests
func specSections(f []byte, blockStart, dirLoc, dirLen int64) (s1, s3, s4 []byte) {
	s1 = f[:blockStart]
	s3 = f[dirLoc : dirLoc+dirLen]
	s4 = append([]byte{}, f[dirLoc+dirLen:]...)
	binary.LittleEndian.PutUint32(s4[16:], uint32(blockStart))
	return
}

type keyPair struct {
	Name   string
	Signer crypto.Signer
	Certs  [][]byte // DER, leaf first
	SPKI   []byte
}

func sigAlgID(k *keyPair, h crypto.Hash) uint32 {
	switch k.Signer.Public().(type) {
	case *rsa.PublicKey:
		if h == crypto.SHA512 {
			return 0x0104
		}
		return 0x0103
	case *ecdsa.PublicKey:
		if h == crypto.SHA512 {
			return 0x0202
		}
		return 0x0201
	}
	return 0
}

func hashOf(h crypto.Hash, b []byte) []byte {
	if h == crypto.SHA512 {
		s := sha512.Sum512(b)
		return s[:]
	}
	s := sha256.Sum256(b)
	return s[:]
}

// specSign inserts a signing block into an archive that has none, as the scheme describes it: the block goes in front of the
// central directory, the end record's directory offset moves by the block length, the digest is taken with that offset pointing
// at the block start.  blockStart is where the block is put (normally dirLoc); extra pairs surround the v2 pair.
type signOpts struct {
	Hash       crypto.Hash
	Attrs      []idValue
	Before     []idValue // pairs in front of the v2 pair
	After      []idValue
	TwoSigners *keyPair
	BadDigest  bool
	BadTail    bool // the LAST byte of the signed digest is wrong
}

func specSign(f []byte, lay *zipLayout, k *keyPair, o signOpts) []byte {
	h := o.Hash
	if h == 0 {
		h = crypto.SHA256
	}
	blockStart := lay.DirLoc
	s1, s3, s4 := specSections(f, blockStart, lay.DirLoc, lay.DirLen)
	dg := specDigest(h, s1, s3, s4)
	if o.BadDigest {
		dg[0] ^= 1
	}
	if o.BadTail {
		dg[len(dg)-1] ^= 0x80
	}
	mk := func(k *keyPair) []byte {
		id := sigAlgID(k, h)
		s := &specSigner{Digests: []idValue{{id, dg}}, Certs: k.Certs, Attrs: o.Attrs, PubKey: k.SPKI}
		sd := specSignedData(s)
		sig, err := k.Signer.Sign(rand.Reader, hashOf(h, sd), h)
		if err != nil {
			panic(err)
		}
		s.Sigs = []idValue{{id, sig}}
		return specSignerBytes(s, sd)
	}
	signers := [][]byte{mk(k)}
	if o.TwoSigners != nil {
		signers = append(signers, mk(o.TwoSigners))
	}
	pairs := append(append(append([]idValue{}, o.Before...), idValue{0x7109871a, specV2Value(signers)}), o.After...)
	block := specSigningBlock(pairs)
	out := append([]byte{}, f[:blockStart]...)
	out = append(out, block...)
	out = append(out, f[lay.DirLoc:lay.DirLoc+lay.DirLen]...)
	end := append([]byte{}, f[lay.DirLoc+lay.DirLen:]...)
	binary.LittleEndian.PutUint32(end[16:], uint32(blockStart+int64(len(block))))
	return append(out, end...)
}
