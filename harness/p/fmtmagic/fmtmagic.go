package fmtmagic

// Commands of drv-fmtmagic:
//
//	fmtmagic             in-process correspondence: the REAL magic.Detect / DetectCompressed / signers.By* on generated inputs
//	fmtmagic-files DIR   writes harness-generated well-formed files (ZIP family via own writer and via the FmtAPPX unit's
//	                     library, PowerShell, text for PGP) for the end-to-end part of the check; prints one JSON line each
//	fmtmagic-probe P...  per path: detection, the module ByFile chooses, the module `relic verify` would run, the is-signed probe,
//	                     and whether the file is unchanged afterwards

import (
	"bytes"
	"crypto/sha256"
	"encoding/hex"
	"fmt"
	"hash/crc32"
	"io"
	"os"
	"path"
	"path/filepath"
	"strings"
	"testing/iotest"

	"archive/zip"
	"compress/gzip"

	"github.com/sassoftware/relic/v8/lib/magic"
	"github.com/sassoftware/relic/v8/signers"
	_ "github.com/sassoftware/relic/v8/verifharness/allsigners"
	"github.com/sassoftware/relic/v8/verifharness/core"
	"github.com/sassoftware/relic/v8/verifharness/p/fmtappx"
	"github.com/xi2/xz"
)

const maxHex = 9000 // inputs are reported up to this many bytes (detection never looks further: checked separately)

type countingReader struct {
	r io.Reader
	n int
}

func (c *countingReader) Read(p []byte) (int, error) {
	k, err := c.r.Read(p)
	c.n += k
	return k, err
}

func detectSafe(r io.Reader) (t int, pan string) {
	defer func() {
		if x := recover(); x != nil {
			t, pan = -1, fmt.Sprint(x)
		}
	}()
	return int(magic.Detect(r)), ""
}

type detCase struct {
	Kind     string `json:"kind"`
	Name     string `json:"name"`
	Expect   int    `json:"expect"`
	Class    string `json:"class"`
	Len      int    `json:"len"`
	Hex      string `json:"hex"`
	Type     int    `json:"type"`
	TypeOne  int    `json:"type_onebyte"`  // through iotest.OneByteReader
	TypeLong int    `json:"type_longtail"` // the same bytes followed by 1 MiB of 0x55 (only when the input is >= 4096 bytes)
	Consumed int    `json:"consumed"`      // bytes taken from the underlying reader with the long tail
	Panic    string `json:"panic,omitempty"`
}

func runDetect(c *core.Ctx, name, class string, expect int, data []byte) {
	dc := detCase{Kind: "detect", Name: name, Expect: expect, Class: class, Len: len(data), TypeLong: -2}
	h := data
	if len(h) > maxHex {
		h = h[:maxHex]
	}
	dc.Hex = hex.EncodeToString(h)
	dc.Type, dc.Panic = detectSafe(bytes.NewReader(data))
	var p2 string
	dc.TypeOne, p2 = detectSafe(iotest.OneByteReader(bytes.NewReader(data)))
	if dc.Panic == "" {
		dc.Panic = p2
	}
	tail := bytes.Repeat([]byte{0x55}, 1<<20)
	cr := &countingReader{r: io.MultiReader(bytes.NewReader(data), bytes.NewReader(tail))}
	tl, p3 := detectSafe(cr)
	dc.Consumed = cr.n
	if len(data) >= 4096 {
		dc.TypeLong = tl
	}
	if dc.Panic == "" {
		dc.Panic = p3
	}
	c.Emit(dc)
}

type dcCase struct {
	Kind     string   `json:"kind"`
	Name     string   `json:"name"`
	Expect   int      `json:"expect"`
	Len      int      `json:"len"`
	Hex      string   `json:"hex"`
	Type     int      `json:"type"`
	Comp     int      `json:"comp"`
	Panic    string   `json:"panic,omitempty"`
	GzOK     bool     `json:"gz_ok"`
	GzPlain  string   `json:"gz_plain"`
	XzOK     bool     `json:"xz_ok"`
	XzPlain  string   `json:"xz_plain"`
	ZipOK    bool     `json:"zip_ok"`
	ZipNames []string `json:"zip_names"` // hex of every member name, directory order (Go archive/zip: the environment of the model)
	Intact   bool     `json:"intact"`
}

func detectCompressedFile(p string) (t, comp int, pan string) {
	f, err := os.Open(p)
	if err != nil {
		return -1, -1, "open: " + err.Error()
	}
	defer f.Close()
	defer func() {
		if x := recover(); x != nil {
			t, comp, pan = -1, -1, fmt.Sprint(x)
		}
	}()
	ft, ct := magic.DetectCompressed(f)
	return int(ft), int(ct), ""
}

func readPrefix(r io.Reader, n int) []byte {
	b := make([]byte, n)
	k, _ := io.ReadFull(r, b)
	return b[:k]
}

func runDC(c *core.Ctx, name string, expect int, data []byte) {
	p := filepath.Join(c.Scratch, "dc.bin")
	if err := os.WriteFile(p, data, 0o644); err != nil {
		panic(err)
	}
	d := dcCase{Kind: "dc", Name: name, Expect: expect, Len: len(data)}
	h := data
	if len(h) > maxHex {
		h = h[:maxHex]
	}
	d.Hex = hex.EncodeToString(h)
	d.Type, d.Comp, d.Panic = detectCompressedFile(p)
	after, _ := os.ReadFile(p)
	d.Intact = bytes.Equal(after, data)
	// the environment: what the decompressors / the zip directory reader of the Go libraries make of the file
	if zr, err := gzip.NewReader(bytes.NewReader(data)); err == nil {
		d.GzOK = true
		d.GzPlain = hex.EncodeToString(readPrefix(zr, 600))
	}
	if zr, err := xz.NewReader(bytes.NewReader(data), 0); err == nil {
		d.XzOK = true
		d.XzPlain = hex.EncodeToString(readPrefix(zr, 600))
	}
	if zr, err := zip.NewReader(bytes.NewReader(data), int64(len(data))); err == nil {
		d.ZipOK = true
		d.ZipNames = []string{}
		for _, f := range zr.File {
			d.ZipNames = append(d.ZipNames, hex.EncodeToString([]byte(f.Name)))
		}
	}
	c.Emit(d)
}

type modOut struct {
	Name       string   `json:"name"`
	Aliases    []string `json:"aliases"`
	Magic      int      `json:"magic"`
	CertTypes  int      `json:"cert_types"`
	AllowStdin bool     `json:"allow_stdin"`
	TestPath   bool     `json:"has_testpath"`
	Verify     bool     `json:"has_verify"`
	Stream     bool     `json:"has_stream"`
	Sign       bool     `json:"has_sign"`
	Transform  bool     `json:"has_transform"`
	Fixup      bool     `json:"has_fixup"`
}

func modName(m *signers.Signer) string {
	if m == nil {
		return ""
	}
	return m.Name
}

func init() {
	core.Register("fmtmagic", cases)
	core.Register("fmtmagic-files", files)
	core.Register("fmtmagic-probe", probe)
	core.Register("fmtmagic-one", func(c *core.Ctx) error {
		for _, x := range c.Args {
			b, err := os.ReadFile(x)
			if err != nil {
				return err
			}
			runDetect(c, "replay:"+filepath.Base(x), "replay", -1, b)
			runDC(c, "replay:"+filepath.Base(x), -1, b)
		}
		return nil
	})
}

func mutations(s sample) []sample {
	var out []sample
	d := s.Data
	add := func(tag string, b []byte) { out = append(out, sample{s.Name + ":" + tag, -1, b}) }
	// truncation around every length detection looks at
	for _, n := range []int{0, 1, 2, 3, 4, 5, 13, 14, 15, 61, 62, 63, 64, 255, 256, 257, 261, 262, 263} {
		if n < len(d) {
			add(fmt.Sprintf("trunc%d", n), d[:n])
		}
	}
	// every one of the first 16 bytes changed, and the bytes at the PE probe offsets
	for i := 0; i < 16 && i < len(d); i++ {
		b := append([]byte{}, d...)
		b[i] ^= 0x20
		add(fmt.Sprintf("flip%d", i), b)
	}
	for _, i := range []int{0x3c, 0x3d, 0x3e, 0x3f} {
		if i < len(d) {
			b := append([]byte{}, d...)
			b[i] ^= 0x01
			add(fmt.Sprintf("flip%d", i), b)
		}
	}
	add("prepend-nul", append([]byte{0}, d...))
	add("prepend-nl", append([]byte{'\n'}, d...))
	add("append-junk", append(append([]byte{}, d...), bytes.Repeat([]byte{0xaa}, 300)...))
	add("append-oid", append(append([]byte{}, d...), append([]byte{6, 9}, oidSignedData...)...))
	add("append-zip", append(append([]byte{}, d...), zipOf("AndroidManifest.xml")...))
	return out
}

func cases(c *core.Ctx) error {
	r := &core.Rng{S: c.Seed*2654435761 + 17}
	wf, pg := wellFormed(), polyglots()
	for _, s := range wf {
		runDetect(c, s.Name, "wellformed", s.Expect, s.Data)
		runDC(c, s.Name, s.Expect, s.Data)
	}
	for _, s := range pg {
		runDetect(c, s.Name, "polyglot", s.Expect, s.Data)
		runDC(c, s.Name, s.Expect, s.Data)
	}
	for _, s := range append(append([]sample{}, wf...), pg...) {
		for _, m := range mutations(s) {
			runDetect(c, m.Name, "mutation", -1, m.Data)
		}
	}
	// PE probe boundaries: e_lfanew around the buffer size and the 16-bit limit, file length around e_lfanew + 4
	for _, lf := range []int{0, 2, 58, 60, 61, 62, 63, 64, 252, 253, 256, 258, 4088, 4090, 4091, 4092, 4093, 4094, 4096, 4100, 65532, 65533, 65535, 65536, 65600, 131072 + 64} {
		for _, extra := range []int{-1, 0, 3, 4, 5, 100} {
			total := lf + extra
			if total < 0x40 {
				total = 0x40
			}
			b := pad([]byte("MZ"), 0x3c)
			b = append(b, byte(lf), byte(lf>>8), byte(lf>>16), byte(lf>>24))
			if lf+4 <= 200000 {
				b = pad(b, total)
				if lf+4 <= len(b) && lf >= 0x40 {
					copy(b[lf:], "PE\x00\x00")
				} else if lf+4 <= len(b) {
					// overlapping the DOS header: write the signature anyway (it then changes the header itself)
					c2 := append([]byte{}, b...)
					copy(c2[lf:], "PE\x00\x00")
					runDetect(c, fmt.Sprintf("pe-overlap-lf%d+%d", lf, extra), "pe-boundary", -1, c2)
				}
			}
			runDetect(c, fmt.Sprintf("pe-lf%d+%d", lf, extra), "pe-boundary", -1, b)
		}
	}
	// `contains` window: the two OIDs and the two element names ending exactly at / one past byte 256, and at every small offset
	pats := [][]byte{append([]byte{6, 9}, oidCTL...), append([]byte{6, 9}, oidSignedData...), []byte("<assembly"), []byte(":assembly")}
	for pi, p := range pats {
		for _, end := range []int{len(p), len(p) + 1, 100, 255, 256, 257, 258, 300} {
			b := bytes.Repeat([]byte{0x20}, 400)
			copy(b[end-len(p):], p)
			runDetect(c, fmt.Sprintf("pattern%d-end%d", pi, end), "window", -1, b)
			runDetect(c, fmt.Sprintf("pattern%d-end%d-short", pi, end), "window", -1, b[:end])
			if end > 1 {
				runDetect(c, fmt.Sprintf("pattern%d-end%d-cut", pi, end), "window", -1, b[:end-1])
			}
		}
	}
	for _, off := range []int{255, 256, 257, 258} {
		b := bytes.Repeat([]byte{0x20}, 600)
		copy(b[off:], "ustar")
		runDetect(c, fmt.Sprintf("ustar-at-%d", off), "window", -1, b)
		runDetect(c, fmt.Sprintf("ustar-at-%d-exact", off), "window", -1, b[:off+5])
		runDetect(c, fmt.Sprintf("ustar-at-%d-cut", off), "window", -1, b[:off+4])
	}
	// random inputs: random length, first bytes drawn from the interesting set
	firsts := [][]byte{{0xed, 0xab, 0xee, 0xdb}, []byte("!<arch>\ndebian"), []byte("-----BEGIN PGP"), []byte("MZ"), {0xd0, 0xcf}, []byte("MSCF"), {0xcf, 0xfa, 0xed, 0xfe}, {0xce, 0xfa, 0xed, 0xfe},
		{0xca, 0xfe, 0xba, 0xbe}, []byte("xar!"), {0x89}, {0xc2}, {0xc4}, {0x1f, 0x8b}, []byte("\xfd7zXZ\x00"), []byte("PK\x03\x04"), {}}
	n := 400
	if c.Tier == "thorough" {
		n = 4000
	}
	for i := 0; i < n; i++ {
		f := firsts[r.Intn(len(firsts))]
		k := r.Intn(len(f) + 1)
		if r.Chance(70) {
			k = len(f)
		}
		ln := r.Pick(0, 1, 3, 8, 40, 62, 64, 200, 256, 262, 300, 1000, 4096, 5000)
		b := append(append([]byte{}, f[:k]...), r.Bytes(ln)...)
		if r.Chance(20) && len(b) > 300 {
			p := pats[r.Intn(len(pats))]
			copy(b[r.Intn(280):], p)
		}
		if r.Chance(10) && len(b) > 262 {
			copy(b[257:], "ustar")
		}
		if r.Chance(25) && len(b) >= 0x40 && len(f) == 2 && f[0] == 'M' {
			lf := r.Pick(0x40, 0x80, 0xf8, 200, 4092, 4093) % (len(b) + 1)
			b[0x3c], b[0x3d] = byte(lf), byte(lf>>8)
			if r.Chance(50) {
				b[0x3e], b[0x3f] = 0, 0
			}
			if lf+4 <= len(b) {
				copy(b[lf:], "PE\x00\x00")
			}
		}
		runDetect(c, fmt.Sprintf("random%d", i), "random", -1, b)
		if i%8 == 0 {
			runDC(c, fmt.Sprintf("random%d", i), -1, b)
		}
	}
	// DetectCompressed: ZIP family by member names, gzip / xz, prefixes
	for _, z := range zipCases() {
		runDC(c, "zip:"+z.Name, z.Expect, zipOf(z.Names...))
	}
	for _, n := range pathNames() {
		if n != "" {
			runDC(c, "zipname:"+n, -1, zipOf(n))
			runDC(c, "zipname-after-jar:"+n, -1, zipOf("META-INF/MANIFEST.MF", n))
		}
	}
	jar := zipOf("META-INF/MANIFEST.MF", "a/B.class")
	runDC(c, "zip:jar+comment", ftJAR, zipBytes([]zmember{{"META-INF/MANIFEST.MF", []byte("Manifest-Version: 1.0\r\n\r\n")}}, "a comment"))
	runDC(c, "zip:jar+trailing-junk", -1, append(append([]byte{}, jar...), bytes.Repeat([]byte{0xaa}, 500)...))
	runDC(c, "zip:jar+trailing-70k", -1, append(append([]byte{}, jar...), bytes.Repeat([]byte{0xaa}, 70000)...))
	runDC(c, "zip:jar+appended-apk", -1, append(append([]byte{}, jar...), zipOf("AndroidManifest.xml")...))
	runDC(c, "zip:sfx-mz-stub+jar", -1, append(peStub(64, 512), jar...))
	runDC(c, "zip:prepended-byte", -1, append([]byte{0}, jar...))
	runDC(c, "zip:truncated", -1, jar[:len(jar)-10])
	runDC(c, "zip:local-header-only", -1, jar[:40])
	runDC(c, "zip:empty-archive-eocd-only", -1, zipBytes(nil, ""))
	tar := tarHeader("ustar\x0000")
	runDC(c, "gzip:tar", -1, gzipOf(tar))
	runDC(c, "gzip:text", -1, gzipOf([]byte("hello\n")))
	runDC(c, "gzip:deb", -1, gzipOf(debAr("debian-binary")))
	runDC(c, "gzip:bad-header", -1, []byte{0x1f, 0x8b, 0, 0, 0})
	runDC(c, "gzip:magic-only", -1, []byte{0x1f, 0x8b})
	runDC(c, "xz:empty", -1, xzEmpty)
	runDC(c, "xz:bad", -1, append([]byte("\xfd7zXZ\x00"), 1, 2, 3, 4, 5, 6, 7, 8, 9, 10, 11, 12))
	runDC(c, "xz:magic-only", -1, []byte("\xfd7zXZ\x00"))
	for _, x := range c.Args {
		if b, err := os.ReadFile(x); err == nil { // e.g. an .xz file made by the check with the xz tool
			runDC(c, "file:"+filepath.Base(x), -1, b)
		}
	}
	// path.Clean / filepath.Ext (hand-modelled library functions)
	for _, n := range pathNames() {
		if n == "" {
			continue
		}
		adj := n
		if strings.HasPrefix(adj, "/") {
			adj = "." + adj
		}
		c.Emit(map[string]interface{}{"kind": "clean", "name": hex.EncodeToString([]byte(n)), "clean": hex.EncodeToString([]byte(path.Clean(adj)))})
	}
	for i := 0; i < 300; i++ {
		var sb strings.Builder
		for k := r.Intn(7); k >= 0; k-- {
			sb.WriteString([]string{"a", "b", ".", "..", "", "...", "x.y", ".h"}[r.Intn(8)])
			if k > 0 || r.Chance(20) {
				sb.WriteByte('/')
			}
		}
		n := sb.String()
		if n == "" {
			continue
		}
		adj := n
		if strings.HasPrefix(adj, "/") {
			adj = "." + adj
		}
		c.Emit(map[string]interface{}{"kind": "clean", "name": hex.EncodeToString([]byte(n)), "clean": hex.EncodeToString([]byte(path.Clean(adj)))})
	}
	// the module table and the three look-ups
	regs := signers.VerifRegistered()
	var mods []modOut
	names := []string{"", "x", "PS", "Jar", "pe", "pecoff", "pe-coff ", "msi-tar", "msi_tar", "mach-o-fat", "ipa", "cosign", "dmg"}
	for _, m := range regs {
		mo := modOut{Name: m.Name, Aliases: append([]string{}, m.Aliases...), Magic: int(m.Magic), CertTypes: int(m.CertTypes), AllowStdin: m.AllowStdin, TestPath: m.TestPath != nil,
			Verify: m.Verify != nil, Stream: m.VerifyStream != nil, Sign: m.Sign != nil, Transform: m.Transform != nil, Fixup: m.Fixup != nil}
		mods = append(mods, mo)
		names = append(names, m.Name, strings.ToUpper(m.Name), m.Name+"x")
		names = append(names, m.Aliases...)
	}
	c.Emit(map[string]interface{}{"kind": "table", "modules": mods})
	for m := -2; m <= 40; m++ {
		c.Emit(map[string]interface{}{"kind": "bymagic", "magic": m, "module": modName(signers.ByMagic(magic.FileType(m)))})
	}
	for _, n := range names {
		c.Emit(map[string]interface{}{"kind": "byname", "name": hex.EncodeToString([]byte(n)), "module": modName(signers.ByName(n))})
	}
	for _, n := range fileNames() {
		c.Emit(map[string]interface{}{"kind": "byfilename", "path": hex.EncodeToString([]byte(n)), "module": modName(signers.ByFileName(n)), "ext": hex.EncodeToString([]byte(filepath.Ext(n)))})
	}
	// ByFile on real files: content x file name x explicit type
	type bf struct {
		fname   string
		data    []byte
		sigtype string
	}
	var bfs []bf
	for _, s := range append(wf[:len(wf):len(wf)], pg...) {
		for _, fn := range []string{"plain.bin", "script.ps1", "image.dmg"} {
			bfs = append(bfs, bf{fn, s.Data, ""})
		}
	}
	for _, z := range zipCases() {
		bfs = append(bfs, bf{"pkg.zip", zipOf(z.Names...), ""}, bf{"pkg.ps1", zipOf(z.Names...), ""})
	}
	bfs = append(bfs, bf{"t.tar.gz", gzipOf(tar), ""}, bf{"t.ps1", gzipOf([]byte("x")), ""}, bf{"e.xz", xzEmpty, ""}, bf{"hello.ps1", []byte("Write-Host hi\n"), ""}, bf{"hello.PS1", []byte("Write-Host hi\n"), ""},
		bf{"hello.txt", []byte("Write-Host hi\n"), ""}, bf{"hello.txt", []byte("Write-Host hi\n"), "ps"}, bf{"hello.txt", []byte("x"), "nosuch"}, bf{"hello.txt", []byte("x"), "msi-tar"},
		bf{"empty.ps1", nil, ""}, bf{"empty.bin", nil, ""}, bf{"t.tar.gz", gzipOf(tar), "pgp"}, bf{"cab.cab", cabHeader(), "jar"},
		bf{"asm.ps1", []byte("# loads [reflection:assembly] things\nWrite-Host hi\n"), ""}, bf{"c2.ps1", []byte("\xc2\xa0Write-Host hi\n"), ""}, bf{"x89.dmg", append([]byte{0x89}, make([]byte, 600)...), ""})
	for i, b := range bfs {
		dir := filepath.Join(c.Scratch, fmt.Sprintf("bf%d", i))
		os.MkdirAll(dir, 0o755)
		p := filepath.Join(dir, b.fname)
		os.WriteFile(p, b.data, 0o644)
		t, comp, pan := detectCompressedFile(p)
		out := map[string]interface{}{"kind": "byfile", "fname": hex.EncodeToString([]byte(b.fname)), "sigtype": hex.EncodeToString([]byte(b.sigtype)), "type": t, "comp": comp, "len": len(b.data)}
		func() {
			defer func() {
				if x := recover(); x != nil {
					pan = fmt.Sprint(x)
				}
			}()
			m, err := signers.ByFile(p, b.sigtype)
			out["module"] = modName(m)
			if err != nil {
				out["err"] = err.Error()
			}
		}()
		if pan != "" {
			out["panic"] = pan
		}
		h := b.data
		if len(h) > 600 {
			h = h[:600]
		}
		out["head"] = hex.EncodeToString(h)
		c.Emit(out)
		os.RemoveAll(dir)
	}
	for _, sp := range [][2]string{{"-", ""}, {"-", "pgp"}, {filepath.Join(c.Scratch, "does-not-exist.ps1"), ""}, {filepath.Join(c.Scratch, "does-not-exist.ps1"), "ps"}} {
		m, err := signers.ByFile(sp[0], sp[1])
		out := map[string]interface{}{"kind": "byfile-special", "name": sp[0], "sigtype": sp[1], "module": modName(m)}
		if err != nil {
			out["err"] = err.Error()
		}
		c.Emit(out)
	}
	return nil
}

// ---------------------------------------------------------------- generated files for the end-to-end part

func files(c *core.Ctx) error {
	if len(c.Args) < 1 {
		return fmt.Errorf("usage: fmtmagic-files DIR")
	}
	dir := c.Args[0]
	os.MkdirAll(dir, 0o755)
	emit := func(name, sigtype string, ft int, explicit bool, data []byte) {
		p := filepath.Join(dir, name)
		os.MkdirAll(filepath.Dir(p), 0o755)
		if err := os.WriteFile(p, data, 0o644); err != nil {
			panic(err)
		}
		c.Emit(map[string]interface{}{"kind": "file", "path": p, "sigtype": sigtype, "expect": ft, "explicit": explicit})
	}
	class := bytes.Repeat([]byte{0xca, 0xfe}, 100)
	jarMs := []zmember{{"META-INF/MANIFEST.MF", []byte("Manifest-Version: 1.0\r\nCreated-By: verif\r\n\r\n")}, {"a/B.class", class}, {"res/readme.txt", []byte("hello\n")}}
	emit("gen/app.jar", "jar", ftJAR, false, zipBytes(jarMs, ""))
	emit("gen/no-extension-jar", "jar", ftJAR, false, zipBytes(jarMs, ""))
	emit("gen/jar-named.ps1", "jar", ftJAR, false, zipBytes(jarMs, ""))
	emit("quirk/jar-with-plist-resource.jar", "jar", ftJAR, true, zipBytes(append(append([]zmember{}, jarMs...), zmember{"docs/sample.app/Info.plist", []byte("<plist/>")}), ""))
	emit("gen/app.apk", "apk", ftAPK, false, zipBytes(append([]zmember{{"AndroidManifest.xml", []byte("\x03\x00\x08\x00binaryxml")}, {"classes.dex", []byte("dex\n035\x00")}}, jarMs[:1]...), ""))
	emit("gen/app.xap", "xap", ftXAP, false, zipBytes([]zmember{{"AppManifest.xaml", []byte("<Deployment xmlns=\"http://schemas.microsoft.com/client/2007/deployment\"/>")}, {"x.dll", class}}, ""))
	ct := "<?xml version=\"1.0\" encoding=\"utf-8\"?><Types xmlns=\"http://schemas.openxmlformats.org/package/2006/content-types\"><Default Extension=\"vsixmanifest\" ContentType=\"text/xml\"/><Default Extension=\"dll\" ContentType=\"application/octet-stream\"/></Types>"
	emit("gen/ext.vsix", "vsix", ftVSIX, false, zipBytes([]zmember{{"extension.vsixmanifest", []byte("<PackageManifest Version=\"2.0.0\"/>")}, {"[Content_Types].xml", []byte(ct)}, {"x.dll", class}}, ""))
	// APPX through the FmtAPPX unit's writer (imported as a library, unmodified)
	data := bytes.Repeat([]byte("appx payload "), 50)
	pk := &fmtappx.Package{Payload: []*fmtappx.Member{{Name: "Assets/a.txt", Method: 0, Data: data, Raw: data, CRC: crc32.ChecksumIEEE(data), USize: uint64(len(data)), Style: fmtappx.StyleStored}}}
	pk.Finish(fmtappx.StyleStored, -1)
	emit("gen/app.appx", "appx", ftAPPX, false, pk.Bytes())
	// PowerShell family: chosen by file name only
	emit("gen/s.ps1", "ps", ftUnknown, false, []byte("Write-Host 'hello'\r\n"))
	emit("gen/s.psm1", "ps", ftUnknown, false, []byte("function f { 1 }\r\n"))
	emit("gen/s.ps1xml", "ps", ftUnknown, false, []byte("<?xml version=\"1.0\"?>\r\n<Types></Types>\r\n"))
	emit("gen/s.mof", "ps", ftUnknown, false, []byte("// mof\r\ninstance of X {};\r\n"))
	// content that shadows the file name
	emit("quirk/assembly.ps1", "ps", ftUnknown, true, []byte("# loads [reflection:assembly] helpers\r\nWrite-Host 'hello'\r\n"))
	emit("quirk/nbsp.ps1", "ps", ftUnknown, true, []byte("\xc2\xa0Write-Host 'hello'\r\n"))
	emit("quirk/types.ps1xml", "ps", ftUnknown, true, []byte("<?xml version=\"1.0\"?>\r\n<!-- <assembly> types -->\r\n<Types></Types>\r\n"))
	emit("gen/text-for-pgp.txt", "pgp", ftUnknown, true, []byte("some text\nto sign\n"))
	return nil
}

// ---------------------------------------------------------------- probe

func probe(c *core.Ctx) error {
	for _, p := range c.Args {
		out := map[string]interface{}{"kind": "probe", "path": p}
		before, err := os.ReadFile(p)
		if err != nil {
			out["err"] = err.Error()
			c.Emit(out)
			continue
		}
		t, comp, pan := detectCompressedFile(p)
		out["type"], out["comp"] = t, comp
		func() {
			defer func() {
				if x := recover(); x != nil {
					pan = fmt.Sprint(x)
				}
			}()
			m, err := signers.ByFile(p, "")
			out["byfile"] = modName(m)
			if err != nil {
				out["byfile_err"] = err.Error()
			}
			vm := signers.ByMagic(magic.FileType(t))
			if vm == nil {
				vm = signers.ByFileName(p)
			}
			out["verify_module"] = modName(vm)
			if m != nil {
				f, err := os.Open(p)
				if err == nil {
					signed, err := m.IsSigned(f)
					f.Close()
					out["is_signed"] = signed
					if err != nil {
						out["is_signed_err"] = err.Error()
					}
				}
			}
		}()
		if pan != "" {
			out["panic"] = pan
		}
		after, _ := os.ReadFile(p)
		out["intact"] = bytes.Equal(before, after)
		h := sha256.Sum256(before)
		out["sha256"] = hex.EncodeToString(h[:])
		out["len"] = len(before)
		c.Emit(out)
	}
	return nil
}
