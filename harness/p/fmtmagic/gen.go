// Package fmtmagic: correspondence driver for file type detection (lib/magic) and signer dispatch (signers.By*).
// gen.go: harness-owned writers of minimal files of every format relic knows, written from the format documents
// (nothing here uses relic's readers or writers), plus polyglots and mutations.
package fmtmagic

import (
	"bytes"
	"compress/gzip"
	"encoding/binary"
	"encoding/hex"
	"hash/crc32"
	"strings"
)

// ---------------------------------------------------------------- ZIP (APPNOTE 6.3: stored members, no descriptors)

type zmember struct {
	name string
	data []byte
}

func zipBytes(ms []zmember, comment string) []byte {
	var b bytes.Buffer
	offs := make([]int, len(ms))
	le16 := func(v int) { binary.Write(&b, binary.LittleEndian, uint16(v)) }
	le32 := func(v uint32) { binary.Write(&b, binary.LittleEndian, v) }
	for i, m := range ms {
		offs[i] = b.Len()
		le32(0x04034b50)
		le16(20)
		le16(0)
		le16(0)
		le16(0)
		le16(0x21)
		le32(crc32.ChecksumIEEE(m.data))
		le32(uint32(len(m.data)))
		le32(uint32(len(m.data)))
		le16(len(m.name))
		le16(0)
		b.WriteString(m.name)
		b.Write(m.data)
	}
	cd := b.Len()
	for i, m := range ms {
		le32(0x02014b50)
		le16(20)
		le16(20)
		le16(0)
		le16(0)
		le16(0)
		le16(0x21)
		le32(crc32.ChecksumIEEE(m.data))
		le32(uint32(len(m.data)))
		le32(uint32(len(m.data)))
		le16(len(m.name))
		le16(0)
		le16(0)
		le16(0)
		le16(0)
		le32(0)
		le32(uint32(offs[i]))
		b.WriteString(m.name)
	}
	cdLen := b.Len() - cd
	le32(0x06054b50)
	le16(0)
	le16(0)
	le16(len(ms))
	le16(len(ms))
	le32(uint32(cdLen))
	le32(uint32(cd))
	le16(len(comment))
	b.WriteString(comment)
	return b.Bytes()
}

func zipOf(names ...string) []byte {
	var ms []zmember
	for i, n := range names {
		d := []byte("member " + n + "\n")
		if strings.HasSuffix(n, "/") {
			d = nil
		}
		if n == "META-INF/MANIFEST.MF" {
			d = []byte("Manifest-Version: 1.0\r\nCreated-By: verif\r\n\r\n")
		}
		_ = i
		ms = append(ms, zmember{n, d})
	}
	return zipBytes(ms, "")
}

// ---------------------------------------------------------------- byte-prefix formats (detection-level: headers only)

func pad(b []byte, n int) []byte {
	for len(b) < n {
		b = append(b, 0)
	}
	return b
}

// peStub: "MZ" header with e_lfanew (32-bit, PE/COFF specification 3.1) and the PE signature there, followed by a COFF header
func peStub(lfanew int, total int) []byte {
	b := pad([]byte("MZ\x90\x00\x03"), 0x3c)
	b = binary.LittleEndian.AppendUint32(b, uint32(lfanew))
	b = pad(b, lfanew)
	if len(b) == lfanew {
		b = append(b, 'P', 'E', 0, 0, 0x4c, 0x01, 1, 0)
	}
	return pad(b, total)
}

func cfbHeader() []byte {
	b := []byte{0xd0, 0xcf, 0x11, 0xe0, 0xa1, 0xb1, 0x1a, 0xe1}
	b = pad(b, 24)
	b = append(b, 0x3e, 0, 3, 0, 0xfe, 0xff, 9, 0, 6, 0)
	return pad(b, 512)
}

func cabHeader() []byte {
	b := []byte("MSCF\x00\x00\x00\x00")
	b = binary.LittleEndian.AppendUint32(b, 64)
	b = pad(b, 24)
	b = append(b, 3, 1, 1, 0, 0, 0)
	return pad(b, 64)
}

func machoThin(is64, bigEndian bool) []byte {
	m := uint32(0xfeedface)
	if is64 {
		m = 0xfeedfacf
	}
	b := make([]byte, 4)
	if bigEndian {
		binary.BigEndian.PutUint32(b, m)
	} else {
		binary.LittleEndian.PutUint32(b, m)
	}
	return pad(b, 64)
}

func fatHeader(second uint32) []byte {
	b := []byte{0xca, 0xfe, 0xba, 0xbe}
	b = binary.BigEndian.AppendUint32(b, second)
	return pad(b, 64)
}

func xarHeader() []byte {
	b := []byte("xar!")
	b = binary.BigEndian.AppendUint16(b, 28)
	b = binary.BigEndian.AppendUint16(b, 1)
	return pad(b, 28)
}

func rpmLead() []byte {
	b := []byte{0xed, 0xab, 0xee, 0xdb, 3, 0, 0, 0, 0, 1}
	b = append(b, "verif-1.0-1"...)
	return pad(b, 96)
}

func debAr(firstMember string) []byte {
	b := []byte("!<arch>\n")
	h := firstMember + strings.Repeat(" ", 16-len(firstMember)) + "0           0     0     100644  4         `\n"
	return append(append(b, h...), "2.0\n"...)
}

func tarHeader(magic string) []byte {
	b := pad([]byte("hello.txt"), 257)
	b = append(b, magic...)
	return pad(b, 512)
}

func gzipOf(data []byte) []byte {
	var b bytes.Buffer
	w := gzip.NewWriter(&b)
	w.Write(data)
	w.Close()
	return b.Bytes()
}

// an xz stream holding the empty input (xz file format 1.0.4: header, index, footer)
var xzEmpty, _ = hex.DecodeString("fd377a585a000004e6d6b446000000001cdf44211fb6f37d010000000004595a")

func pgpArmor(kind string) []byte {
	return []byte("-----BEGIN PGP " + kind + "-----\n\niQEzBAABCAAdFiEE\n=abcd\n-----END PGP " + kind + "-----\n")
}

// pgpPacket: a signature (tag 2, version 4) or one-pass signature (tag 4, version 3) packet with the given first octet
// (RFC 4880 4.2: old format 10tttt ll with 1 / 2 / 4 length octets, new format 11tttttt with a one- or two-octet length)
func pgpPacket(first byte, n int) []byte {
	b := []byte{first}
	if first&0x40 == 0 {
		switch first & 3 {
		case 0:
			b = append(b, byte(n))
		case 1:
			b = append(b, byte(n>>8), byte(n))
		case 2:
			b = append(b, 0, 0, byte(n>>8), byte(n))
		}
	} else if n < 192 {
		b = append(b, byte(n))
	} else {
		b = append(b, byte((n-192)>>8)+192, byte(n-192))
	}
	tag := first & 0x3f
	if first&0x40 == 0 {
		tag = (first >> 2) & 0xf
	}
	ver := byte(4)
	if tag == 4 {
		ver = 3
	}
	body := pad([]byte{ver, 0, 1, 8}, n)
	return append(b, body...)
}

func derLen(n int) []byte {
	switch {
	case n < 128:
		return []byte{byte(n)}
	case n < 256:
		return []byte{0x81, byte(n)}
	default:
		return []byte{0x82, byte(n >> 8), byte(n)}
	}
}

func tlv(tag byte, body []byte) []byte {
	return append(append([]byte{tag}, derLen(len(body))...), body...)
}

var oidSignedData = []byte{0x2a, 0x86, 0x48, 0x86, 0xf7, 0x0d, 0x01, 0x07, 0x02}
var oidData = []byte{0x2a, 0x86, 0x48, 0x86, 0xf7, 0x0d, 0x01, 0x07, 0x01}
var oidCTL = []byte{0x2b, 0x06, 0x01, 0x04, 0x01, 0x82, 0x37, 0x0a, 0x01}
var oidSHA256 = []byte{0x60, 0x86, 0x48, 0x01, 0x65, 0x03, 0x04, 0x02, 0x01}

// cmsSignedData: RFC 5652 ContentInfo { signedData, [0] SignedData { version 1, digestAlgorithms (nAlgs entries), encapContentInfo { eContentType } , signerInfos {} } }
func cmsSignedData(eContentType []byte, nAlgs int) []byte {
	var algs []byte
	for i := 0; i < nAlgs; i++ {
		algs = append(algs, tlv(0x30, append(tlv(0x06, oidSHA256), 0x05, 0x00))...)
	}
	sd := append([]byte{}, tlv(0x02, []byte{1})...)
	sd = append(sd, tlv(0x31, algs)...)
	sd = append(sd, tlv(0x30, tlv(0x06, eContentType))...)
	sd = append(sd, tlv(0x31, nil)...)
	ci := append(tlv(0x06, oidSignedData), tlv(0xa0, tlv(0x30, sd))...)
	return tlv(0x30, ci)
}

func manifestXML(prefix string, lead int) []byte {
	el := "assembly"
	ns := " xmlns=\"urn:schemas-microsoft-com:asm.v1\""
	if prefix != "" {
		el = prefix + ":assembly"
		ns = " xmlns:" + prefix + "=\"urn:schemas-microsoft-com:asm.v1\""
	}
	s := "<?xml version=\"1.0\" encoding=\"utf-8\"?>\n"
	if lead > 0 {
		s += "<!--" + strings.Repeat("x", lead) + "-->\n"
	}
	return []byte(s + "<" + el + ns + " manifestVersion=\"1.0\"><assemblyIdentity name=\"x\" version=\"1.0.0.0\"/></" + el + ">\n")
}

type sample struct {
	Name   string
	Expect int // relic FileType the file must be detected as by construction (-1: no expectation, a polyglot or malformed input)
	Data   []byte
}

const (
	ftUnknown = iota
	ftRPM
	ftDEB
	ftPGP
	ftJAR
	ftPKCS7
	ftPECOFF
	ftMSI
	ftCAB
	ftAppManifest
	ftCAT
	ftAPPX
	ftVSIX
	ftXAP
	ftAPK
	ftMachO
	ftMachOFat
	ftIPA
	ftXAR
)

// wellFormed: one or more minimal files per format, with the type they have by construction
func wellFormed() []sample {
	s := []sample{
		{"rpm-lead", ftRPM, rpmLead()},
		{"deb", ftDEB, debAr("debian-binary")},
		{"pgp-armor-signature", ftPGP, pgpArmor("SIGNATURE")},
		{"pgp-armor-message", ftPGP, pgpArmor("MESSAGE")},
		{"pgp-armor-signed-message", ftPGP, pgpArmor("SIGNED MESSAGE")},
		{"pgp-bin-old-sig-2octet", ftPGP, pgpPacket(0x89, 200)},
		{"pgp-bin-new-sig", ftPGP, pgpPacket(0xc2, 100)},
		{"pgp-bin-new-onepass", ftPGP, pgpPacket(0xc4, 13)},
		{"pkcs7-data", ftPKCS7, cmsSignedData(oidData, 1)},
		{"pkcs7-3algs", ftPKCS7, cmsSignedData(oidData, 3)},
		{"cat", ftCAT, cmsSignedData(oidCTL, 1)},
		{"cat-5algs", ftCAT, cmsSignedData(oidCTL, 5)},
		{"pe-lfanew-64", ftPECOFF, peStub(64, 512)},
		{"pe-lfanew-128", ftPECOFF, peStub(128, 1024)},
		{"pe-lfanew-248", ftPECOFF, peStub(248, 1024)},
		{"pe-lfanew-4092", ftPECOFF, peStub(4092, 8192)},
		{"cfb", ftMSI, cfbHeader()},
		{"cab", ftCAB, cabHeader()},
		{"manifest-plain", ftAppManifest, manifestXML("", 0)},
		{"manifest-asmv1", ftAppManifest, manifestXML("asmv1", 0)},
		{"manifest-lead-150", ftAppManifest, manifestXML("asmv1", 150)},
		{"macho-le-64", ftMachO, machoThin(true, false)},
		{"macho-le-32", ftMachO, machoThin(false, false)},
		{"macho-fat-2", ftMachOFat, fatHeader(2)},
		{"xar", ftXAR, xarHeader()},
	}
	return s
}

// quirks: files whose published format is known by construction but where relic's answer differs from it or depends on ORDER;
// Expect is what the PUBLISHED magic says (as a relic FileType, 0 = a format relic does not handle)
func polyglots() []sample {
	oidCat := append([]byte{6, 9}, oidCTL...)
	oidSD := append([]byte{6, 9}, oidSignedData...)
	withAt := func(b []byte, off int, ins []byte) []byte {
		c := append([]byte{}, pad(b, off+len(ins))...)
		copy(c[off:], ins)
		return c
	}
	return []sample{
		{"pe-lfanew-4093", ftPECOFF, peStub(4093, 8192)},
		{"pe-lfanew-8192", ftPECOFF, peStub(8192, 16384)},
		{"pe-lfanew-65600", ftPECOFF, peStub(65600, 70000)},
		{"pe-with-ctl-oid-in-dos-stub", ftPECOFF, withAt(peStub(128, 1024), 0x40, oidCat)},
		{"pe-with-signeddata-oid-in-dos-stub", ftPECOFF, withAt(peStub(128, 1024), 0x40, oidSD)},
		{"pe-with-ustar-at-257", ftPECOFF, withAt(peStub(64, 1024), 257, []byte("ustar"))},
		{"mz-not-pe-with-assembly", ftUnknown, withAt(pad([]byte("MZ"), 128), 70, []byte("<assembly"))},
		{"cfb-two-bytes-only", ftUnknown, pad([]byte{0xd0, 0xcf, 0, 0}, 512)},
		{"ar-debian-not-binary", ftUnknown, debAr("debianX")},
		{"java-class-52", ftUnknown, fatHeader(52)},
		{"java-class-45", ftUnknown, fatHeader(45<<0 | 3<<16)},
		{"macho-be-64-ppc", ftUnknown, machoThin(true, true)},
		{"pgp-bin-old-sig-1octet-0x88", ftPGP, pgpPacket(0x88, 117)},
		{"pgp-bin-old-sig-4octet-0x8a", ftPGP, pgpPacket(0x8a, 256)},
		{"pgp-bin-old-onepass-0x90", ftPGP, pgpPacket(0x90, 13)},
		{"png", ftUnknown, append([]byte("\x89PNG\r\n\x1a\n"), make([]byte, 64)...)},
		{"utf8-text-c2", ftUnknown, []byte("\xc2\xa9 2024 somebody\nplain text\n")},
		{"cat-60algs-oid-beyond-256", ftCAT, cmsSignedData(oidCTL, 60)},
		{"manifest-lead-300", ftAppManifest, manifestXML("asmv1", 300)},
		{"xml-mentions-assembly", ftUnknown, []byte("<?xml version=\"1.0\"?>\n<doc><!-- see xsl:assembly --></doc>\n")},
		{"tar-ustar", ftUnknown, tarHeader("ustar\x0000")},
		{"cab-with-signeddata-oid", ftCAB, withAt(cabHeader(), 40, oidSD)},
		{"xar-with-ustar", ftXAR, withAt(xarHeader(), 257, []byte("ustar"))},
		{"short-pgp-then-oid", ftPGP, withAt(pgpPacket(0xc2, 60), 100, oidSD)},
	}
}

// zipCases: member name lists (central directory order) with the package type they have by construction (-1: ambiguous)
type zipCase struct {
	Name   string
	Expect int
	Names  []string
}

func zipCases() []zipCase {
	return []zipCase{
		{"jar", ftJAR, []string{"META-INF/MANIFEST.MF", "a/B.class"}},
		{"jar-manifest-last", ftJAR, []string{"a/B.class", "META-INF/", "META-INF/MANIFEST.MF"}},
		{"jar-signed-names", ftJAR, []string{"META-INF/MANIFEST.MF", "META-INF/RELIC.SF", "META-INF/RELIC.RSA", "a/B.class"}},
		{"apk", ftAPK, []string{"AndroidManifest.xml", "classes.dex", "META-INF/MANIFEST.MF", "META-INF/CERT.SF", "META-INF/CERT.RSA"}},
		{"apk-manifest-after-jar", ftAPK, []string{"META-INF/MANIFEST.MF", "classes.dex", "AndroidManifest.xml"}},
		{"appx", ftAPPX, []string{"Assets/a.png", "AppxManifest.xml", "AppxBlockMap.xml", "[Content_Types].xml"}},
		{"appx-signed-names", ftAPPX, []string{"Assets/a.png", "AppxManifest.xml", "AppxBlockMap.xml", "[Content_Types].xml", "AppxMetadata/CodeIntegrity.cat", "AppxSignature.p7x"}},
		{"appxbundle", ftAPPX, []string{"a.appx", "AppxMetadata/AppxBundleManifest.xml", "AppxBlockMap.xml", "[Content_Types].xml"}},
		{"vsix", ftVSIX, []string{"extension.vsixmanifest", "[Content_Types].xml", "x.dll"}},
		{"vsix-signed-names", ftVSIX, []string{"extension.vsixmanifest", "[Content_Types].xml", "x.dll", "_rels/.rels", "package/services/digital-signature/origin.psdor",
			"package/services/digital-signature/xml-signature/abc.psdsxs", "package/services/digital-signature/_rels/origin.psdor.rels"}},
		{"xap", ftXAP, []string{"AppManifest.xaml", "x.dll"}},
		{"ipa", ftIPA, []string{"Payload/", "Payload/Demo.app/", "Payload/Demo.app/Info.plist", "Payload/Demo.app/Demo"}},
		{"mac-app-zip", -1, []string{"Demo.app/Contents/Info.plist", "Demo.app/Contents/MacOS/Demo"}},
		{"plain-zip", ftUnknown, []string{"readme.txt", "a/b/c.txt"}},
		{"empty-zip", ftUnknown, nil},
		// ORDER and normalisation
		{"apk-and-appx-apk-first", -1, []string{"AndroidManifest.xml", "AppxManifest.xml"}},
		{"apk-and-appx-appx-first", -1, []string{"AppxManifest.xml", "AndroidManifest.xml"}},
		{"vsix-and-xap", -1, []string{"extension.vsixmanifest", "AppManifest.xaml"}},
		{"jar-with-resource-app-plist", ftJAR, []string{"META-INF/MANIFEST.MF", "docs/sample.app/Info.plist"}},
		{"jar-with-resource-app-plist-first", ftJAR, []string{"docs/sample.app/Info.plist", "META-INF/MANIFEST.MF"}},
		{"dot-slash-android", -1, []string{"./AndroidManifest.xml"}},
		{"abs-android", -1, []string{"/AndroidManifest.xml"}},
		{"dotdot-android", -1, []string{"x/../AndroidManifest.xml"}},
		{"dir-named-android", -1, []string{"AndroidManifest.xml/"}},
		{"double-slash-jar", -1, []string{"META-INF//MANIFEST.MF"}},
		{"nested-android", ftUnknown, []string{"res/AndroidManifest.xml"}},
		{"lowercase-android", ftUnknown, []string{"androidmanifest.xml"}},
		{"jar-lowercase-meta", ftUnknown, []string{"meta-inf/manifest.mf"}},
		{"manifest-that-is-also-plist", -1, []string{"META-INF/MANIFEST.MF", "x.app/Info.plist"}},
	}
}

// names for the path.Clean / filepath.Ext correspondence
func pathNames() []string {
	base := []string{"", ".", "..", "a", "a/b", "a//b", "a/./b", "a/../b", "../a", "../../a/..", "a/..", "a/b/../..", "a/b/../../..", "./a", "./", "a/", "a/b/", "/", "//",
		"/a", "/../a", "/a/../..", "...", "a/.../b", ".a", "a.", "a/.b/..", "..a/b", "a/..b", "x/../AndroidManifest.xml", "./AndroidManifest.xml", "/AndroidManifest.xml",
		"AndroidManifest.xml/", "META-INF//MANIFEST.MF", "META-INF/./MANIFEST.MF", "META-INF/x/../MANIFEST.MF", "a/b/c/../../../../d", "..//..", "a/..//.."}
	return base
}

func fileNames() []string {
	return []string{"a.ps1", "a.PS1", "a.ps1xml", "a.psc1", "a.psd1", "a.psm1", "a.cdxml", "a.mof", "a.MOF", "a.ps2", "a.ps", "ps1", ".ps1", "a.ps1.", "a.ps1/", "a.ps1/b", "dir.ps1/b.txt",
		"a.b.ps1", "a.ps1.txt", "x.dmg", "x.DMG", "dmg", ".dmg", "x.dmg.ps1", "x.ps1.dmg", "x.dmg/", "dir.dmg/x", "a.mof.dmg", "", "-", "a", "a.", "a..", "/tmp/x.y/z", "/tmp/x.ps1/z.dmg",
		"C:\\dir\\a.ps1", "a.ps1 ", "a.Ps1", "a.psm1xml", "a.xml", "hello.ps1xml", "hello.mof", "x.cdxml"}
}
